"""Round-5 mutants of the class "the result depends on the history once extreme / non-finite values were commanded"
(and of the newly modelled code).  Usage: python3 reports/C14-mutants-r5.py [name ...]   (scratch repo at /tmp/r5_c14/repo)"""
import sys, subprocess, os, json
REPO = '/tmp/r5_c14/repo'
HERE = os.path.dirname(os.path.dirname(os.path.abspath(__file__)))
DM = 'hcipy/optics/deformable_mirror.py'; MB = 'hcipy/mode_basis/mode_basis.py'; SEG = 'hcipy/optics/segmented_mirror.py'
RECOMP = "        self._surface = self.influence_functions.linear_combination(self.actuators)\n        self._actuators_for_cached_surface = self.actuators.copy()\n"
M = {
 # incremental surface for DENSE influence functions whenever at most half of the actuators moved (other storage, other threshold)
 'H1-dense-incremental-half': [(DM, RECOMP,
    "        c = self._actuators_for_cached_surface\n"
    "        if c is not None and c.shape == np.shape(self.actuators) and not self.influence_functions.is_sparse and 2 * np.sum(self.actuators != c) <= c.size:\n"
    "            self._surface = self._surface + self.influence_functions.linear_combination(self.actuators - c)\n"
    "            self._actuators_for_cached_surface = self.actuators.copy()\n"
    "            return self._surface.copy()\n" + RECOMP)],
 # flatten() zeroes by multiplication (NaN * 0 = NaN, inf * 0 = NaN)
 'H2-flatten-by-multiplication': [(DM, "        self._actuators = np.zeros(len(self.influence_functions))\n\ndef label", "        self._actuators = np.asarray(self._actuators, dtype=float) * 0\n\ndef label")],
 # ModeBasis.linear_combination remembers its last result and adds the difference (other function)
 'H3-lincomb-incremental': [(MB, "        y = self._transformation_matrix.dot(coefficients)\n",
    "        coefficients = np.asarray(coefficients)\n"
    "        last = getattr(self, '_last_lc', None)\n"
    "        if last is not None and last[0].shape == coefficients.shape and self.is_sparse:\n"
    "            y = last[1] + self._transformation_matrix.dot(coefficients - last[0])\n"
    "        else:\n"
    "            y = self._transformation_matrix.dot(coefficients)\n"
    "        self._last_lc = (coefficients.copy(), y)\n")],
 # set_segment_actuators adds the difference to what is stored (other element: the actuator vector itself)
 'H4-segment-set-by-difference': [(SEG, "        self.actuators[segment_id] = piston\n", "        self.actuators[segment_id] += piston - self.actuators[segment_id]\n")],
 # random(rms) reuses the old array: a*0 + randn*rms
 'H5-random-reuses-array': [(DM, "        self._actuators = np.random.randn(self._actuators.size) * rms", "        self._actuators = self._actuators * 0 + np.random.randn(self._actuators.size) * rms")],
 # opd cached and updated by the change of the surface (other read-out)
 'H6-opd-incremental': [(DM, "        return 2 * self.surface\n",
    "        s = self.surface\n"
    "        old = getattr(self, '_opd_cache', None)\n"
    "        if old is not None and old[0].shape == s.shape:\n"
    "            opd = old[1] + 2 * (s - old[0])\n"
    "        else:\n"
    "            opd = 2 * s\n"
    "        self._opd_cache = (s, opd)\n"
    "        return opd\n")],
 # coefficients_for with an absolute singular-value cut (scale dependence)
 'H7-lstsq-absolute-threshold': [(MB, None, None)],
 # ---- newly modelled code (round 5 B)
 'P1-phase-for-factor': [(DM, "        return 2 * self.surface * 2 * np.pi / wavelength", "        return self.surface * 2 * np.pi / wavelength")],
 'P2-backward-same-sign': [(DM, "        variables = {'alpha': -2j * wavefront.wavenumber, 'surf': self.surface}", "        variables = {'alpha': 2j * wavefront.wavenumber, 'surf': self.surface}")],
 'P3-forward-amplitude': [(DM, "        variables = {'alpha': 2j * wavefront.wavenumber, 'surf': self.surface}\n        wf.electric_field *= ne.evaluate('exp(alpha * surf)', local_dict=variables)",
                           "        variables = {'alpha': 2j * wavefront.wavenumber, 'surf': self.surface}\n        wf.electric_field = wf.electric_field * 0 + ne.evaluate('exp(alpha * surf)', local_dict=variables)")],
 'P4-segment-get-tilt-index': [(SEG, "        tilt = self.actuators[segment_id + 2 * len(self._segments)]\n\n        return", "        tilt = self.actuators[segment_id + len(self._segments)]\n\n        return")],
 'P5-tip-mode-uses-y': [(SEG, "            tip_mode = segment * segment.grid.x", "            tip_mode = segment * segment.grid.y")],
}
def run(name):
    edits = M[name]
    saved = {}
    try:
        for f, old, new in edits:
            p = os.path.join(REPO, f)
            src = open(p).read()
            saved.setdefault(p, src)
            if name == 'H7-lstsq-absolute-threshold':
                import re
                i = src.index('def coefficients_for')
                j = src.index('np.linalg.lstsq', i)
                k = src.index('\n', j)
                line = src[j:k]
                print('   (lstsq line: %s)' % line.strip())
                # x = lstsq(A, b)[0]  ->  absolute cut of the right-hand side below 1e-8
                src2 = src[:j] + line.replace('np.linalg.lstsq(', '(lambda A, b, **kw: np.linalg.lstsq(A, np.where(abs(np.asarray(b)) < 1e-8, 0, b), **kw))(') + src[k:]
                open(p, 'w').write(src2)
                continue
            assert src.count(old) == 1, (name, src.count(old))
            open(p, 'w').write(src.replace(old, new))
        env = dict(os.environ, HCIPY_VERIF_REPO=REPO, VERIF_SEED=os.environ.get('VERIF_SEED', '0'), VERIF_EVIDENCE_DIR='/tmp/r5_c14/ev_' + name)
        r = subprocess.run(['./check', 'C14', '--tier', 'quick'], cwd=HERE, env=env, stdout=subprocess.PIPE, stderr=subprocess.STDOUT, text=True)
        lines = r.stdout.strip().split('\n')
        keys = []
        for l in lines:
            if l.startswith('VIOLATION'):
                rp = l.split('replay=')[1].split()[0]
                try:
                    b = json.load(open(rp if os.path.isabs(rp) else os.path.join(HERE, rp)))
                    keys.append(b.get('key', '?') + (' [no-failing-input]' if 'no-failing-input-found' in l else ''))
                except Exception as e:
                    keys.append('? ' + l[:80])
        print('%-32s exit=%d  %s   | %s' % (name, r.returncode, '; '.join(keys) if keys else '-', lines[-1][:120]), flush=True)
    finally:
        for p, src in saved.items():
            open(p, 'w').write(src)
for name in (sys.argv[1:] or list(M)):
    run(name)
