import sys, subprocess, os
REPO='/tmp/c14_mut_repo'
DM='hcipy/optics/deformable_mirror.py'; MB='hcipy/mode_basis/mode_basis.py'; SEG='hcipy/optics/segmented_mirror.py'
M = {
 'M1-cache-copy-dropped': (DM, "self._actuators_for_cached_surface = self.actuators.copy()", "self._actuators_for_cached_surface = self.actuators"),
 'M2-cache-identity': (DM, "if np.all(self.actuators == self._actuators_for_cached_surface):", "if self.actuators is self._cached_obj:"),
 'M3-setter-keeps-cache': (DM, "        self._influence_functions = influence_functions\n        self._actuators_for_cached_surface = None", "        self._influence_functions = influence_functions\n        self._actuators_for_cached_surface = getattr(self, '_actuators_for_cached_surface', None)"),
 'M4-concat-axis': (MB, "transformation_matrix = np.concatenate((self._transformation_matrix, mode_basis.transformation_matrix), axis=-1)", "transformation_matrix = np.concatenate((self._transformation_matrix, mode_basis.transformation_matrix), axis=0)"),
 'M5-rows-not-transposed': (MB, "self._transformation_matrix = self._modes.T.tocsc()", "self._transformation_matrix = self._modes.tocsc()"),
 'M6-add-order-swapped': (MB, "transformation_matrix = scipy.sparse.hstack((self._transformation_matrix, mode_basis.transformation_matrix), 'csc')", "transformation_matrix = scipy.sparse.hstack((mode_basis.transformation_matrix, self._transformation_matrix), 'csc')"),
 'M7-segment-tip-index': (SEG, "        self.actuators[segment_id + len(self._segments)] = tip", "        self.actuators[segment_id + 2 * len(self._segments)] = tip"),
 'M8-lsmr-default-tolerance': (MB, "damp=dampening_factor, atol=1e-13, btol=1e-13, maxiter=maxiter)", "damp=dampening_factor, maxiter=maxiter)"),
 'M9-cache-allclose': (DM, "if np.all(self.actuators == self._actuators_for_cached_surface):", "if np.allclose(self.actuators, self._actuators_for_cached_surface):"),
 'M10-to-sparse-drops-small': (MB, "            T.eliminate_zeros()\n            return ModeBasis(T, self.grid)", "            T.data[abs(T.data) < 0.3] = 0\n            T.eliminate_zeros()\n            return ModeBasis(T, self.grid)"),
 'M11-getitem-dense-list-single': (MB, "            if T.ndim == self._transformation_matrix.ndim:\n                return_mode_basis = True", "            if T.ndim == self._transformation_matrix.ndim and T.shape[-1] != 1:\n                return_mode_basis = True"),
 'M12-flatten-keeps-cache-of-zero': (DM, "        self._actuators = np.zeros(len(self.influence_functions))\n\ndef label", "        self._actuators = np.zeros(len(self.influence_functions))\n        self._actuators_for_cached_surface = self._actuators.copy()\n\ndef label"),
 'M13-sparse-lc-abs': (MB, "        y = self._transformation_matrix.dot(coefficients)", "        y = self._transformation_matrix.dot(coefficients) if self.is_dense else abs(self._transformation_matrix).dot(coefficients)"),
}
def run(name):
    f, old, new = M[name]
    p = os.path.join(REPO, f)
    src = open(p).read()
    assert src.count(old) == 1, (name, src.count(old))
    mut = src.replace(old, new)
    if name == 'M2-cache-identity':
        mut = mut.replace("self._actuators_for_cached_surface = self.actuators.copy()", "self._actuators_for_cached_surface = self.actuators.copy()\n        self._cached_obj = self.actuators")
        mut = mut.replace("        self._actuators_for_cached_surface = None\n\n        self.input_grid", "        self._actuators_for_cached_surface = None\n        self._cached_obj = None\n\n        self.input_grid")
        mut = mut.replace("        self._influence_functions = influence_functions\n        self._actuators_for_cached_surface = None", "        self._influence_functions = influence_functions\n        self._actuators_for_cached_surface = None\n        self._cached_obj = None")
    open(p, 'w').write(mut)
    try:
        env = dict(os.environ, HCIPY_VERIF_REPO=REPO, VERIF_SEED=os.environ.get('VERIF_SEED', '0'))
        r = subprocess.run(['./check', 'C14', '--no-build'], cwd='/work/c14', env=env, stdout=subprocess.PIPE, stderr=subprocess.STDOUT, text=True)
        lines = r.stdout.strip().split('\n')
        import json
        keys = []
        for l in lines:
            if l.startswith('VIOLATION'):
                rp = l.split('replay=')[1].split()[0]
                b = json.load(open(os.path.join('/work/c14', rp)))
                keys.append(b['key'] + (' [no-failing-input]' if 'no-failing-input-found' in l else ''))
        print('%-32s exit=%d  %s' % (name, r.returncode, '; '.join(keys) if keys else lines[-1][:150]))
    finally:
        open(p, 'w').write(src)
for name in (sys.argv[1:] or list(M)):
    run(name)
