#!/bin/sh
# tools/import_seeds.sh c13  -> copies /tmp/seed_c13/seeds/C13-*/ into seeded/ and removes the scratch worktree
for b in "$@"; do
  for d in /tmp/seed_$b/seeds/C*-*/ /tmp/seed2_$b/seeds/C*-*/ /tmp/seed3_$b/seeds/C*-*/; do
    [ -d "$d" ] || continue
    n=$(basename "$d"); mkdir -p seeded/$n; cp "$d"patch.diff "$d"demo.py "$d"meta.json seeded/$n/ 2>/dev/null
    echo imported $n
  done
  git -C /repo worktree remove --force /tmp/seed_$b 2>/dev/null; rm -rf /tmp/seed_$b; git -C /repo worktree remove --force /tmp/seed2_$b 2>/dev/null; rm -rf /tmp/seed2_$b; git -C /repo worktree remove --force /tmp/seed3_$b 2>/dev/null; rm -rf /tmp/seed3_$b
done
