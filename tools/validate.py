#!/usr/bin/env python3
"""Validate MANIFEST.json and evidence/*.json against the schemas in /root/.vp (python3-vt has jsonschema)."""
import glob, json, os, sys
import jsonschema
here = os.path.dirname(os.path.dirname(os.path.abspath(__file__)))
ok = True
def check(path, schema):
    global ok
    try:
        jsonschema.validate(json.load(open(path)), json.load(open(schema)))
        print('valid  ', os.path.relpath(path, here))
    except Exception as e:
        ok = False
        print('INVALID', os.path.relpath(path, here), str(e)[:300])
check(os.path.join(here, 'MANIFEST.json'), '/root/.vp/MANIFEST.schema.json')
for p in sorted(glob.glob(os.path.join(here, 'evidence', 'C*.json'))):
    check(p, '/root/.vp/EVIDENCE.schema.json')
m = json.load(open(os.path.join(here, 'MANIFEST.json')))
ids = [json.loads(l)['id'] for l in open(os.path.join(here, 'properties.jsonl'))]
claimed = [c['property_id'] for c in m['checks']]
na = [c['property_id'] for c in m.get('not_applicable', [])]
for i in ids:
    if (i in claimed) == (i in na):
        ok = False
        print('property', i, 'must be exactly one of claimed / not_applicable')
sys.exit(0 if ok else 1)
