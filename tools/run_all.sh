#!/bin/sh
# Run every claimed check (tier $1, default quick) in parallel and summarise.  Usage: tools/run_all.sh [quick|thorough] [jobs]
cd "$(dirname "$0")/.." || exit 2
tier="${1:-quick}"; jobs="${2:-6}"
ids=$(python3 -c "import json; print(' '.join(c['property_id'] for c in json.load(open('MANIFEST.json'))['checks']))")
mkdir -p /tmp/verif_runall
# build once so that parallel checks only replay
(cd lean && lake build >/dev/null 2>&1)
printf '%s\n' $ids | xargs -P "$jobs" -I{} sh -c "./check {} --tier $tier > /tmp/verif_runall/{}.log 2>&1; echo \"{} exit=\$?\""
grep -h -E "VIOLATION|KNOWN-FINDING|MACHINERY|PASS|FAIL" /tmp/verif_runall/*.log
