#!/usr/bin/env python3
"""Merge a builder branch into main, resolving the two files every branch touches
(lean/HcipyVerif.lean is regenerated; known_findings.json is the union by (property,key))."""
import json, subprocess, sys, os
here = os.path.dirname(os.path.dirname(os.path.abspath(__file__)))
os.chdir(here)
b = sys.argv[1]
def sh(*a, check=False):
    p = subprocess.run(a, stdout=subprocess.PIPE, stderr=subprocess.STDOUT, text=True)
    if check and p.returncode: print(p.stdout); sys.exit(1)
    return p.returncode, p.stdout
def findings(ref):
    rc, out = sh('git', 'show', ref + ':known_findings.json')
    return json.loads(out) if rc == 0 else {'findings': []}
# ours = the working-tree file (it may hold entries not committed yet)
ours = json.load(open('known_findings.json')) if os.path.exists('known_findings.json') else findings('HEAD')
theirs = findings(b)
rc, out = sh('git', 'merge', '--no-commit', '--no-ff', b)
print(out[-1500:])
merged = dict(ours)
seen = {(f['property'], f['key']) for f in ours['findings']}
merged['findings'] = list(ours['findings']) + [f for f in theirs['findings'] if (f['property'], f['key']) not in seen]
json.dump(merged, open('known_findings.json', 'w'), indent=1)
sh('python3', 'tools/gen_root.py')
sh('git', 'add', 'known_findings.json', 'lean/HcipyVerif.lean')
# evidence files are rewritten by every run: keep ours on conflict
rc, out = sh('git', 'diff', '--name-only', '--diff-filter=U')
for f in out.split():
    if f.startswith('evidence/'):
        sh('git', 'checkout', '--ours', f); sh('git', 'add', f)
    elif f.startswith('seeded/') and f.endswith('result.json'):
        # the builder re-ran the seed against the strengthened check: theirs is the newer result
        sh('git', 'checkout', '--theirs', f); sh('git', 'add', f)
rc, out = sh('git', 'diff', '--name-only', '--diff-filter=U')
if out.strip():
    print('UNRESOLVED:', out); sys.exit(1)
sh('git', 'commit', '-q', '-m', 'Merge builder branch %s' % b, check=True)
print('merged', b)
