#!/usr/bin/env python3
"""tools/add_fixed.py Cxx Dnn <commit> "<key>" "<what>"  — record a repaired defect in known_findings.json
(fixed entries suppress nothing; they document the repair)."""
import json, sys, os
here = os.path.dirname(os.path.dirname(os.path.abspath(__file__)))
p = os.path.join(here, 'known_findings.json')
prop, did, commit, key, what = sys.argv[1:6]
k = json.load(open(p))
k['findings'] = [f for f in k['findings'] if not (f['property'] == prop and f.get('key') == key)]
k['findings'].append({'property': prop, 'id': did, 'key': key, 'status': 'fixed', 'commit': commit, 'what': what,
                      'line': 'fixed: property=%s %s %s' % (prop, commit, what)})
json.dump(k, open(p, 'w'), indent=1)
print('recorded', prop, did, commit)
