#!/usr/bin/env python3
"""Write MANIFEST.json from the table below (one entry per claimed property)."""
import json, os
here = os.path.dirname(os.path.dirname(os.path.abspath(__file__)))

TRUST = ("Trusted: Lean 4.33 kernel + Mathlib v4.33 (axioms propext, Classical.choice, Quot.sound only, audited by "
         "#print axioms on every run); the Python harness (exact rational encoding, comparison, generators); NumPy/SciPy "
         "kernels by specification. The hand-written model is not trusted: it is compared with /repo's working tree on every run.")

CLAIMED = {
    'C20': dict(
        text=("Lean theorems over the scheduler model (HcipyVerif.Scheduler) for every queue, horizon, fuel and callback "
              "behaviour: executed callbacks strictly increasing in (time, insertion) hence exactly once, completeness "
              "(everything due before T runs, children included; nothing else runs), clock lag in [0,1e-6] at each callback, "
              "integration intervals sum to the clock advance, final clock within 1e-6 below T, backwards refused, empty "
              "queue fine. The model is tied to dynamic_optical_system.py by line-by-line trace equality on generated histories."),
        note=TRUST + " Hypotheses: callbacks schedule no earlier than their own time; float arithmetic on times is treated as exact "
             "(generated times are dyadic so it is). Termination of user callbacks that re-insert forever is not claimed (fuel).",
        technique="Lean 4 proof (induction over the event loop) + trace-equality correspondence with the real class",
        design='6/C20'),
}

NOT_YET = {}

def main():
    props = [json.loads(l) for l in open(os.path.join(here, 'properties.jsonl'))]
    checks, na = [], []
    for p in props:
        i = p['id']
        if i in CLAIMED:
            c = CLAIMED[i]
            checks.append({
                'property_id': i,
                'quick_cmd': './check %s --tier quick' % i,
                'thorough_cmd': './check %s --tier thorough' % i,
                'evidence_file': 'evidence/%s.json' % i,
                'replay_cmd_template': './check %s --replay {path}' % i,
                'engine': 'lean-proof+correspondence',
                'level_claimed': {'category': 'proof', 'text': c['text'], 'design_ref': 'DESIGN.md section ' + c['design']},
                'level_note': c['note'],
                'technique': c['technique'],
            })
        else:
            na.append({'property_id': i, 'reason': NOT_YET.get(i, 'no check registered in this revision: the Lean model and its correspondence for this property are not built yet (the technique applies; see DESIGN.md section 6)')})
    m = {
        'version': 1,
        'setup_cmd': 'python3 tools/gen_root.py && cd lean && lake build',
        'hooks': {
            'guard': 'HCIPY_VERIF',
            'enable': 'no source hooks are needed: checks import hcipy from /repo (editable install in /venv) and observe through the public API and subclasses; the harness sets HCIPY_VERIF=1 but nothing in /repo reads it',
            'baseline_off_cmd': 'cd /repo && /venv/bin/python -m pytest -ra -q -p no:cacheprovider --timeout=900 --continue-on-collection-errors',
            'source_commits': [],
            'add_only': True,
        },
        'engines': [{
            'name': 'lean-proof+correspondence', 'path': 'check',
            'serves_properties': [c['property_id'] for c in checks],
            'kind_free_text': 'Lean 4 theorems about an executable model (lean/HcipyVerif) + differential correspondence of that model with the running hcipy code through a line protocol (harness/)',
        }],
        'checks': checks,
        'notes': 'Single entry point ./check Cxx --tier quick|thorough. Exit 0 held, 1 VIOLATION, 2 machinery fault. Known findings: known_findings.json.',
        'not_applicable': na,
    }
    json.dump(m, open(os.path.join(here, 'MANIFEST.json'), 'w'), indent=1)
    print('claimed', len(checks), 'unclaimed', len(na))

if __name__ == '__main__':
    main()
