#!/usr/bin/env python3
"""Write MANIFEST.json from the table below (one entry per claimed property)."""
import json, os
here = os.path.dirname(os.path.dirname(os.path.abspath(__file__)))

TRUST = ("Trusted: Lean 4.33 kernel + Mathlib v4.33 (axioms propext, Classical.choice, Quot.sound only, audited by "
         "#print axioms on every run); the Python harness (exact rational encoding, comparison, generators); NumPy/SciPy "
         "kernels by specification. The hand-written model is not trusted: it is compared with /repo's working tree on every run.")

CLAIMED = {
    'C20': dict(
        text=("Lean theorems over the scheduler model (HcipyVerif.Scheduler) for every queue, horizon, fuel and callback "
              "behaviour: executed callbacks strictly increasing in (time, insertion) hence exactly once, completeness "
              "(everything due before T runs, children included; nothing else runs), clock lag in [0,1e-6] at each callback, "
              "integration intervals sum to the clock advance, final clock within 1e-6 below T, backwards refused, empty "
              "queue fine. The model is tied to dynamic_optical_system.py by line-by-line trace equality on generated histories."),
        note=TRUST + " Hypotheses: callbacks schedule no earlier than their own time; float arithmetic on times is treated as exact "
             "(generated times are dyadic so it is). Termination of user callbacks that re-insert forever is not claimed (fuel).",
        technique="Lean 4 proof (induction over the event loop) + trace-equality correspondence with the real class",
        design='6/C20'),
    'C01': dict(
        text=("Lean theorems about the model of the Fourier-transform objects (the same polymorphic definitions run in the driver): the full FastFourierTransform forward/backward pipeline — weights, piston removal, pad, ifftshift, DFT, fftshift, crop, output multiplier, and the emulated-fftshift configuration — equals the weighted defining sum Σ f_j w χ(−u_k x_j) for all N ≤ M, Mo ≤ M, spacings, offsets and shifts under the grid-consistency predicate (1-D, and 2-D via a proved separability lemma; Complex.exp instances); "
              "the matrix transform's two products equal the 2-D sum (both weight branches, conjugate-transposed backward); Bluestein chirp-z = its defining sum for all n, m, nfft ≥ n+m−1; zoom-FFT axis bookkeeping correct for every tensor rank and dimension (old `-i` code refuted); the padded sizes the old code reported for N=87,q=2.5 are inconsistent for every δ; 2-D and 3-D forward/backward and the n-axis iterated pipeline by induction; make_fourier_transform's selection sound (chosen class's preconditions hold, get_fft_parameters∘make_fft_grid round trip); results independent of the persistent internal buffer's previous contents. "
              "Tie: reported sizes/cut-outs/grids/weights vs the model's plan, modelled pipeline on impulses vs the real transforms; oracle: every implementation and switch combination vs a longdouble defining sum."),
        note=TRUST + " The FFT kernel is assumed to be the DFT, BLAS gemm the matrix product. Beyond 3 axes the literal array program equals the iterated pipeline by NumPy's fftn specification, not by proof; the planner's float cost comparison in make_fourier_transform is an oracle input. Rounding bounded by 1e-9 (complex64: 2e-4) on sampled inputs.",
        technique="Lean 4 proof (finite-sum reindexing over periodic characters, separability, Bluestein identity) + plan correspondence and defining-sum oracle on all implementations",
        design='6/C01'),
    'C02': dict(
        text=("Lean theorems: forward and backward defining sums are adjoint w.r.t. the weighted inner products for arbitrary point sets and dimensions, and the FFT pipeline inherits it; on a full pair (Mo = M) backward∘forward = id (root-of-unity orthogonality) and Parseval holds; on a cropped FFT grid output energy ≤ input energy. Oracle: adjointness for every implementation and grid pair, round trip and Parseval on full pairs, cropped energy, FourierFilter adjointness on the real code."),
        note=TRUST + " Inherits C01's model and tie. FourierFilter adjointness is proved abstractly in C04 (filter_adjoint) and checked numerically here.",
        technique="Lean 4 proof (sum exchange, geometric-sum orthogonality) + numeric adjoint/inverse/energy oracle on all implementations",
        design='6/C02'),

    'C19': dict(
        text=("PARTIAL by nature. Proved in Lean: two interpreters of a small array-program language over exact rationals, mirroring the ndarray-subclass route and the wrapper route of hcipy's two Field implementations (structurally different stores), give the same values after every statement and the same read-outs of all variables and aliases for EVERY program (with the stated side condition on `.shaped`, shown necessary by a counterexample); "
              "elementwise results carry the grid of the leftmost Field operand; in-place updates write through to aliases and leave everything else unchanged; copy and pickle return exactly the operand. NOT proved: that NumPy's dispatch behaves like the interpreters, and anything about the Fourier switches/FFT backends — those are differential only: four value streams per random program (plain ndarray, old-style, new-style, model) and 20 library pipelines under all 64 configuration combinations."),
        note=TRUST + " NumPy's __array_ufunc__/__array_function__/__array_finalize__ dispatch is runtime behaviour the model only mirrors; 123 extended operations are compared against the plain-ndarray reference only; Fourier configuration switches have no Lean model (their index bookkeeping is covered by C01).",
        technique="Lean 4 proof (simulation between two interpreters, structural induction over programs) + four-way differential run; Fourier/backends differential only (partial)",
        design='6/C19 and 8'),

    'C10': dict(
        text=("Lean theorems about the model of Grid/Coords identity (regular, separated incl. ragged, unstructured; Cartesian/polar): equality is reflexive, symmetric, transitive and characterised by equal system+kind+coordinates; equal grids feed identical bytes to the hash; copy, dict round trip and independent reconstruction are equal; grids differing in system, kind, dimension, size or any coordinate are unequal; "
              "shift/scale/reverse change identity, and any store operation changes at most one existing object (copies untouched). Old ragged-equality and int-vs-float hash behaviours refuted. Tie: equality and hash-equality matrices over all live grids after every op of random histories; hash(g) must equal xxh64 of the model's hash input exactly."),
        note=TRUST + " xxhash collisions are allowed by the property and not modelled; NaN/inf coordinates are outside the rational model; non-contiguous views (a NumPy memory-layout fact) are covered by the oracle only.",
        technique="Lean 4 proof (decidable equality on a value model, frame theorem for the object store) + matrix correspondence with real grids",
        design='6/C10'),
    'C11': dict(
        text=("Lean theorems: points of scaled/shifted/reversed/rotated grids are the images of the points under the affine map for regular, separated and unstructured coordinates (and polar scale/rotate); weights scale by the absolute Jacobian for per-axis factors of either sign, shift and reverse keep them (weights travel with their points); non-mutating forms are independent; regular weights sum to Π dims·|δ|; "
              "subsample∘supersample = id; both focal-grid constructors contain the origin; over ℝ: Cartesian→polar→Cartesian round trip. Old signed-weights and reverse-weights behaviours refuted. Tie: exact comparison of points and weights of all live grids after every op."),
        note=TRUST + " Polar/rotation theorems over ℝ are about specification functions tied to the code by the oracle only (tolerance 1e-9); rot2/rot3 are proved isometries fixing their axis, not 'rotation by atan2(s,c)'.",
        technique="Lean 4 proof (list/affine algebra over ℚ and ℝ) + exact points/weights correspondence with real grids",
        design='6/C11'),

    'C09': dict(
        text=("Lean theorems: the perfect coronagraph's projector I − T·T⁺ (Gram–Schmidt model over any ordered field, any grid, dependent modes allowed) nulls the span of the modes — hence aperture×polynomials of degree < order/2 and the flat wavefront —, is idempotent and never increases the ℓ² norm; the same three clauses for an arbitrary finite orthonormal family in any inner-product space (Bessel); mode count; "
              "Lyot with transparent mask returns stop·E and occulted Lyot with opaque mask returns 0 for any linear F, B; the multi-scale level/window integer geometry (levels, per-level dims and extents, symmetric window padding iff the code does not raise). "
              "NOT decided by a theorem: the vortex/FQPM '<1 % on-axis, >50 % at 10 λ/D' clause has no exact identity behind it and is only measured by the oracle on every run."),
        note=TRUST + " Modelled assumption: NumPy's QR returns orthonormal columns spanning the modes and T⁺ = Tᴴ (its consequences are compared each run against the exact rational projector). Leakage/throughput thresholds of discretised phase masks are measured, not proved (DESIGN.md section 8).",
        technique="Lean 4 proof (projector algebra, Bessel inequality, integer level geometry) + exact-projector correspondence; numeric measurement for the vortex/FQPM threshold clause (partial)",
        design='6/C09 and 8'),
    'C15': dict(
        text=("Lean theorems: spectral shift theorem with the code's flat-index↔(ix,iy) map for every grid shape and additive character (swapped-axes version refuted on a 2×3 grid), whole-pixel shifts are exact index translations; each extrusion of the infinite layer moves every retained sample by exactly one pixel for any H×W and k-fold, direction agrees with the velocity convention; "
              "replay after reset for every history (RNG as explicit value, deepcopy = equal independent stream), independent realisation only on request; phase ∝ 1/λ and ∝ sqrt(Cn²). Tie: bookkeeping (centre, t, extrusions, shifts) vs the real layers; oracle compares screens with screens on the real code (bitwise replay, overlap translation, scaling laws)."),
        note=TRUST + " Not modelled: the statistics of the screens, the AR coefficients, NumPy's generator bit-stream. Independence theorems are stated for the finite layer only.",
        technique="Lean 4 proof (index theorems, state-machine replay by induction) + screen-vs-screen oracle and bookkeeping correspondence",
        design='6/C15'),
    'C16': dict(
        text=("Lean theorems: row-major ravel/unravel, reshape, transpose and moveaxis round trips for every shape; from_dict∘to_dict = id for coords, grids, fields and dense/CSC mode bases (storage kind preserved); pickle round trip; the FITS field and mode-basis paths (image layout with tensor and grid axes, CSC↔dense) round-trip for every tensor shape, grid kind and grid shape; old read paths refuted by counterexamples. "
              "Tie: real to_dict trees and FITS image contents compared with the model; oracle performs real asdf/fits/fits.gz/pickle file round trips with before/after snapshots."),
        note=TRUST + " asdf/FITS/pickle byte formats are exercised, not proved. to_dict purity is definitional in the functional model; the real guarantee is the harness's before/after snapshot.",
        technique="Lean 4 proof (index-map round trips, structural recursion over trees) + real file round-trip oracle",
        design='6/C16'),

    'C03': dict(
        text=("Lean theorems (HcipyVerif.Fraunhofer) about the very functions the native driver executes — lensForward/lensBackward (selection by C01's `choose detectFix` → FFT pipeline fastForward2 on the reconstructed axis configuration, or MFT mftForward on X/(λf) → norm factor 1/(iλf)). For every method the modelled make_fourier_transform can return from sound inputs, every wavelength and focal length, and both shift settings, the result equals 1/(iλf)·Σ E w exp(−2πi x·u/(λf)). Backward equals the adjoint integral. On a full conjugate grid power is conserved (also Stokes power of Jones-matrix wavefronts) and backward∘forward = id. The `_of_model` forms take their hypotheses from the executable ℚ classification (classify, lensMethod, proved total), which is compared with the running code on every run. make_focal_grid_from_pupil_grid with q ≥ 1 is proved a full conjugate with q_eff samples per λf/D, and both constructors contain the origin. Unbounded focal_length setter histories are covered, and the executable impulse response is proved equal to the pipeline on unit impulses. The abstract d-dimensional, tensor-component theorems and the propagator-object theorems (_fft/_mft/_sel) are kept and connected to the pipeline by bridge lemmas. Tie: model reproduces both focal-grid constructors, the method selection and impulse responses in exact turns; oracle compares the real FraunhoferPropagator with the direct weighted sum at every focal point."),
        note=TRUST + " No Fourier hypothesis remains for regular or separated Cartesian focal grids (FFT and MFT). For unstructured and polar focal grids the code is the defining matrix and only the direct-sum oracle applies. The planner's float comparison is an oracle input (any value). Power is proved in 2-D only. The harness checks that wavelength and Stokes vector are carried; the theorem for that clause is definitional and named accordingly (meta_carried_by_construction). Rounding is bounded only by the 1e-9 tolerance.",
        technique='Lean 4 proof about scalar-polymorphic executable models (run in exact Rat arithmetic by the driver, proved over ℝ/ℂ) + impulse-level correspondence of the selected pipeline with the real FraunhoferPropagator.forward/backward + direct-sum and adjoint-sum oracle',
        design='6/C03'),
    'C04': dict(
        text=("Lean theorems (HcipyVerif.NearField) for the FourierFilter operator P†F⁻¹DFP over any FourierPair: linearity, backward = exact adjoint, "
              "power non-increase when |D|<=1 (incl. sub-pixel averaged Fresnel transfer functions and propagating angular spectrum), D(-z)=conj D(z), and for "
              "no padding/oversampling unitarity, backward inverts forward, additivity in z. Old angular-spectrum behaviour kept with proved counterexamples "
              "(evanescent growth). Tie: regime/branch bookkeeping, transfer-function phases in exact turns, end-to-end pad→fft→D→ifft→crop comparison with the real propagators."),
        note=TRUST + " The FourierPair structure is instantiated in Lean by the 1-D and 2-D DFT (dftPair, dftPair2 = the model's fftn/ifftn), giving hypothesis-free *_dft corollaries. Impulse-response accuracy is not claimed; single-precision loss is caught by the fresh-object oracle only.",
        technique="Lean 4 proof (finite-dimensional linear algebra over ℂ) + correspondence and numeric oracle on real Fresnel/angular-spectrum propagators",
        design='6/C04'),
    'C05': dict(
        text=("Lean theorems about the executable model of AgnosticOpticalElement's instance cache as it is in /repo: soundness and accounting invariants in every reachable state, no KeyError, FIFO eviction, and transparency at full strength for every history (forward/backward/both grids, beyond any cache size, clear_cache, setters). Transparency holds under the explicit hypothesis Truthful (shown necessary by truthful_needed). With instance contents it holds under the explicit hypothesis ObservablyPure (shown necessary by content_hypothesis_needed; discharged for instances owning a memo cell by transparent_results_memo). Fourier-object state is transparent: memo cells, the zoom FFT (a cell owning chirp-z cells) and the FFT scratch buffer (Fft.loadArray). The second cache, inside the exported and deprecated make_agnostic_optical_element, is modelled line by line and proved not transparent (decorator_history_dependent; open finding); its requests without an output grid are transparent (decorator_forward_transparent). Wavelength keys over the reals: wavelengths at least 1e-6 apart never share an instance. The round-0 lookup is kept as documentation in Lemmas/CacheOld.lean and is not counted. Tie: after every step of random histories on all agnostic classes the real ordered cache, counters and handed-out instance are compared with the model; oracle compares every result with a freshly built element."),
        note=TRUST + " Hash collisions of xxhash are not modelled. The wavelength-key formula is a read-only real-number model, checked against a 60-digit evaluation. make_agnostic_optical_element is history dependent by design (open finding). Elements' declared grid/wavelength dependence is the hypothesis Truthful (checked by the fresh-element oracle).",
        technique="Lean 4 proof (invariants by induction over request histories) + state-by-state correspondence with the real cache + fresh-element oracle; state-by-state correspondence also for the decorator's private cache, for FourierFilter / ZoomFFT / ChirpZTransform memo state, for the memo cell of cached Fresnel and angular-spectrum instances (stepC), and for the array handed to fftn (Fft.loadArray)",
        design='6/C05'),
    'C06': dict(
        text=("Lean theorems: every term of the linear-operator IR denotes a (conjugate-)linear map by structural induction over any commutative ring with involution; the static effect checker is sound "
              "(accepted programs leave the input wavefront and its attributes untouched and are repeatable); all 26 shipped effect programs are accepted (decide). Tie: for 86 registry entries covering all 63 concrete "
              "OpticalElement classes the harness observes result identity/aliasing/attribute writes with a tracing Wavefront and compares with the effect model, evaluates the IR term exactly at Gaussian rationals against forward/backward, "
              "and checks linearity, input snapshots and repeatability directly."),
        note=TRUST + " The IR terms and effect programs per element family are hand-written abstractions; their fidelity rests on the correspondence. State kept inside elements (caches, mirror surfaces) is covered by history_independent_partial plus the harness clauses and C05.",
        technique="Lean 4 proof (structural induction over an operator IR and an effect IR) + correspondence/oracle over a registry of every shipped element",
        design='6/C06'),
    'C07': dict(
        text=("Lean theorems over ℝ/ℂ: unimodular multipliers preserve per-pixel and total power and are inverted by their conjugates (scalar, vector, tensor wavefronts); the exponent coefficients of 7 phase-only families, "
              "REGENERATED from the running code on every run, satisfy backward = -forward and equal the model formula; magnifier conserves per-pixel power for either sign per axis; masks, polarisers, diagonal filters with |D|<=1 "
              "between unitary transforms (knife edge), cropping and fibre injection (Cauchy–Schwarz) are passive. Oracle: per-pixel/total power and backward∘forward on the real elements."),
        note=TRUST + " Tie T2: black-box identification of forward/backward phase coefficients writes Gen/PhaseCoef.lean before the build. Knife-edge and fibre elements raise on polarised wavefronts (open known findings).",
        technique="Lean 4 proof (complex algebra) over definitions regenerated from the code + numeric power oracle on the real elements",
        design='6/C07'),
    'C08': dict(
        text=("Lean theorems over ℝ/ℂ about polynomials REGENERATED from the running code on every run (I/Q/U/V formulas, the 16 quadratic forms of jones_to_mueller, retarder/polariser/beam-splitter matrices): each Stokes formula equals the Stokes parameter of the coherency matrix J·C(S)·Jᴴ; "
              "Mueller matrix = Re(U(J⊗J̄)Uᴴ) and stokes(J·E) = M·stokes(E) for scalar, Jones-vector and Jones-matrix wavefronts; degree/angle of polarisation consistent; retarders unitary with backward = adjoint = inverse; polariser idempotent, Hermitian, Malus; beam-splitter ports add to the input intensity."),
        note=TRUST + " Tie T2: coefficients are identified on integer lattice points, rounded to the ½-lattice and verified on fresh points; a changed coefficient breaks the proof and the numeric oracle (numpy coherency matrices vs the real code) searches the failing input.",
        technique="Lean 4 proof (ring/field identities over ℂ) over definitions regenerated from the code by exact polynomial identification",
        design='6/C08'),
    'C12': dict(
        text=("Lean theorems (Rat, every axis list and parameter): the separated-grid fast path of every generic aperture maker, as the code writes it (broadcast, bounding slices, masked assignment, x-fastest ravel), yields at flat index iy·Nx+ix exactly the point predicate at (x[ix],y[iy]) — "
              "representation independence as an index theorem by induction over shape trees; bounding boxes sound; segmented assignment writes exactly the segment's pixels; values in [0,1], supersampled means in [0,1]; result attached to the requested grid. Oracle: the same physical points as regular/separated/unstructured/polar grids for all generic makers and telescope pupils."),
        note=TRUST + " Points closer than 1e-7·scale to a boundary are skipped and counted. bounding_box_irregular_y_partial: the x direction of the irregular-polygon box is not proved (the model keeps the rectangle test as the code does). matplotlib Path.contains_points is modelled by crossing number.",
        technique="Lean 4 proof (index theorems over lists/Rat) + four-representation oracle and exact-slack correspondence",
        design='6/C12'),
    'C13': dict(
        text=("Lean theorems: Noll and ANSI index maps are mutually inverse bijections onto valid (n,m) with the documented ordering, for every index (Nat.sqrt model); for n<=20 (the property's own bound) the radial recursion equals the factorial definition as polynomials (decide +kernel tables lifted to every rational r incl. 0), "
              "centre values, radial orthonormality on coefficients, azimuthal factor = cos/sin over ℝ, full value clause; cache irrelevance for every request history; old NaN-at-centre and cache-mutation behaviours with proved counterexamples. Tie: exhaustive index-map comparison (2·10^5 quick / 2·10^6 thorough) and exact-value comparison on Cartesian/polar/separated-polar grids."),
        note=TRUST + " Float sqrt in the index maps is tied only on the compared range; azimuthal orthogonality (classical analysis) is assumed in normalisation_unit; coefficient integration is not linked to a Lebesgue integral.",
        technique="Lean 4 proof (Nat.sqrt arithmetic, decide +kernel tables, trig identities) + exhaustive-range and exact-value correspondence",
        design='6/C13'),
    'C14': dict(
        text=('Every input form of ModeBasis (ndarray, CSC/CSR/COO matrix, list/tuple of fields or sparse rows) goes through one modelled dispatch and denotes one matrix. Bases denoting one matrix agree in linear combinations, every index expression, concatenation, sparsify/densify and least-squares coefficients. The executable least-squares model is proved sound and complete: for independent modes coefficients_for(A·c) = c, and any answer for A·c is c (ordered fields and complex). For every history of assignments, re-assignments, in-place edits of any actuator array or any surface array ever handed out, flatten, random and new influence functions, surface and opd (and any read-out through surface) equal IF·current actuators (the aliasing read of the code before fix D22f is refuted by a proved counterexample). Tie: exact comparison over Gaussian rationals for random matrices/index expressions and actuator histories on the three mirror classes; the driver runs the cache-free specification in lockstep.'),
        note=TRUST + " phase_for/forward/backward are numeric oracle only. coefficients_for is compared numerically for cond <= 1e3; dependent-mode cases check the model's `err rank` against NumPy rank. sliceIdx is tied to CPython's slice.indices by random slices plus a window lemma, not proved equal in general.",
        technique='Lean 4 theorems about the executed model (invariant with an alias-freedom clause by induction over histories, Gauss-Jordan correctness by row-operation invariants, Gram positivity) + exact correspondence; the harness describes Python objects, keeps array handles, and edits actuators and returned surfaces in place',
        design='6/C14'),
    'C17': dict(
        text=("Lean theorems over any field, every history/shape/subsampling: read-out = sum over integrations since the last read-out of power·dt·weight pixel by pixel (empty sum = zero image), read-out resets, returned images are values, noisy detector with noise off = noiseless, binning conserves counts, image on the detector grid. "
              "Tie: random integrate/read_out histories on NoiselessDetector/NoisyDetector with aliasing re-reads of earlier images."),
        note=TRUST + " Noise sources are only exercised switched off; value semantics of returned images is checked on the real objects by re-reading them after every later operation.",
        technique="Lean 4 proof (fold invariants over op histories) + exact correspondence on real detectors",
        design='6/C17'),
    'C18': dict(
        text=("Lean theorems over a linearly ordered field: 1-D and tensor-product linear interpolation (any strictly increasing per-axis knots, any number of axes) and barycentric interpolation on any simplex reproduce affine functions exactly and hit the samples; nearest returns a minimiser of squared distance; bin-sum/mean/weighted-mean conservation, tensor independence; "
              "supersampled evaluation of affine functions with symmetric dithers is exact. Old axis-order and evaluation-grid defects with proved counterexamples. Tie: exact rational reference for affine fields on regular/separated/unstructured grids."),
        note=TRUST + " SciPy's Delaunay/find_simplex is assumed to return a containing simplex (open known finding: exactly-on-hull-vertex points get the fill value). Hitting samples in N-D for arbitrary values and the length of dither lists are covered by the correspondence only.",
        technique="Lean 4 proof (ordered-field algebra) + exact-rational correspondence on real interpolators and binning",
        design='6/C18'),
}

NOT_YET = {}

def main():
    props = [json.loads(l) for l in open(os.path.join(here, 'properties.jsonl'))]
    checks, na = [], []
    for p in props:
        i = p['id']
        if i in CLAIMED:
            c = CLAIMED[i]
            checks.append({
                'property_id': i,
                'quick_cmd': './check %s --tier quick' % i,
                'thorough_cmd': './check %s --tier thorough' % i,
                'evidence_file': 'evidence/%s.json' % i,
                'replay_cmd_template': './check %s --replay {path}' % i,
                'engine': 'lean-proof+correspondence',
                'level_claimed': {'category': 'proof', 'text': c['text'], 'design_ref': 'DESIGN.md section ' + c['design']},
                'level_note': c['note'],
                'technique': c['technique'],
            })
        else:
            na.append({'property_id': i, 'reason': NOT_YET.get(i, 'no check registered in this revision: the Lean model and its correspondence for this property are not built yet (the technique applies; see DESIGN.md section 6)')})
    m = {
        'version': 1,
        'setup_cmd': 'python3 tools/gen_root.py && cd lean && lake build',
        'hooks': {
            'guard': 'HCIPY_VERIF',
            'enable': 'no source hooks are needed: checks import hcipy from /repo (editable install in /venv) and observe through the public API and subclasses; the harness sets HCIPY_VERIF=1 but nothing in /repo reads it',
            'baseline_off_cmd': 'cd /repo && /venv/bin/python -m pytest -ra -q -p no:cacheprovider --timeout=900 --continue-on-collection-errors',
            'source_commits': [],
            'add_only': True,
        },
        'engines': [{
            'name': 'lean-proof+correspondence', 'path': 'check',
            'serves_properties': [c['property_id'] for c in checks],
            'kind_free_text': 'Lean 4 theorems about an executable model (lean/HcipyVerif) + differential correspondence of that model with the running hcipy code through a line protocol (harness/)',
        }],
        'checks': checks,
        'notes': 'Single entry point ./check Cxx --tier quick|thorough. Exit 0 held, 1 VIOLATION, 2 machinery fault. Known findings: known_findings.json.',
        'not_applicable': na,
    }
    json.dump(m, open(os.path.join(here, 'MANIFEST.json'), 'w'), indent=1)
    print('claimed', len(checks), 'unclaimed', len(na))

if __name__ == '__main__':
    main()
