#!/usr/bin/env python3
"""Run the registered checks against the seeded defects in seeded/<name>/ (patch.diff, demo.py, meta.json).

Each patch is applied to a scratch worktree of /repo's HEAD (outside /repo and /verif), the demonstration is run clean
and patched, the property's check is run against the patched copy (HCIPY_VERIF_REPO), and the worktree is removed.
Results: seeded/<name>/result.json and seeded/RESULTS.md.  Usage: tools/seedtest.py [name ...] [--tier quick|thorough]
"""
import json, os, subprocess, sys, shutil, time
here = os.path.dirname(os.path.dirname(os.path.abspath(__file__)))
seeded = os.path.join(here, 'seeded')
PY = '/venv/bin/python'

def sh(cmd, cwd=None, env=None, timeout=3600):
    p = subprocess.run(cmd, cwd=cwd, env=env, stdout=subprocess.PIPE, stderr=subprocess.STDOUT, text=True, timeout=timeout, shell=isinstance(cmd, str))
    return p.returncode, p.stdout

def run_one(name, tier):
    d = os.path.join(seeded, name)
    meta = json.load(open(os.path.join(d, 'meta.json')))
    prop = meta['property']
    wt = '/tmp/seedtest_%s_%d' % (name, os.getpid())
    sh(['git', '-C', '/repo', 'worktree', 'remove', '--force', wt])
    rc, out = sh(['git', '-C', '/repo', 'worktree', 'add', '--detach', wt, 'HEAD'])
    res = {'name': name, 'property': prop, 'tier': tier}
    try:
        env = dict(os.environ, PYTHONPATH=wt, PYTHONWARNINGS='ignore')
        demo = os.path.join(d, 'demo.py')
        if os.path.exists(demo):
            res['demo_clean_exit'] = sh([PY, demo], cwd=wt, env=env)[0]
        patch = os.path.join(d, 'patch.diff')
        rc, out = sh(['git', '-C', wt, 'apply', patch])
        if rc != 0:
            rc, out = sh(['git', '-C', wt, 'apply', '-3', patch])
        if rc != 0:
            # a failed 3-way apply leaves conflict markers and unmerged index entries behind
            sh(['git', '-C', wt, 'reset', '--hard', '-q'])
            rc, out = sh('patch -p1 --fuzz=3 --no-backup-if-mismatch < %s' % patch, cwd=wt)
        if rc == 0:
            # whatever way the patch went in, the result must at least import
            rc, out = sh([PY, '-c', 'import hcipy'], cwd=wt, env=dict(os.environ, PYTHONPATH=wt, PYTHONWARNINGS='ignore'))
        if rc != 0:
            # seeds were written against the /repo HEAD of their time; later fix: commits can move their context
            res['status'] = 'patch-no-longer-applies'
            res['error'] = 'patch does not apply to the current /repo HEAD: ' + out[-300:]
            json.dump(res, open(os.path.join(d, 'result.json'), 'w'), indent=1)
            return res
        if os.path.exists(demo):
            res['demo_patched_exit'] = sh([PY, demo], cwd=wt, env=env)[0]
        t0 = time.time()
        env2 = dict(os.environ, HCIPY_VERIF_REPO=wt, VERIF_EVIDENCE_DIR=wt + '_evidence')
        rc, out = sh(['./check', prop, '--tier', tier], cwd=here, env=env2)
        res['check_exit'] = rc
        res['check_lines'] = [l for l in out.splitlines() if l.startswith(('VIOLATION', 'KNOWN-FINDING', 'MACHINERY', prop + ' '))]
        res['wall_s'] = round(time.time() - t0, 1)
        res['caught'] = (rc == 1 and any(l.startswith('VIOLATION property=' + prop) for l in res['check_lines']))
        if res.get('demo_patched_exit') == 0:
            # the demonstration no longer fails with the patch: a later fix: commit neutralised this seed
            res['status'] = 'neutralised-by-later-fix'
        else:
            res['status'] = 'caught' if res['caught'] else 'missed'
        res['with_failing_input'] = res['caught'] and any('no-failing-input-found' not in l for l in res['check_lines'] if l.startswith('VIOLATION'))
        # a seed may also be visible to a neighbouring property's check (recorded by us in also_run.json)
        also_file = os.path.join(d, 'also_run.json')
        res['caught_by'] = [prop] if res['caught'] else []
        if os.path.exists(also_file):
            for q in json.load(open(also_file)):
                rc2, out2 = sh(['./check', q, '--tier', tier], cwd=here, env=env2)
                hit = rc2 == 1 and ('VIOLATION property=' + q) in out2
                res.setdefault('also', {})[q] = {'exit': rc2, 'caught': hit}
                if hit:
                    res['caught_by'].append(q)
        rp = [l.split('replay=')[1].split()[0] for l in res['check_lines'] if l.startswith('VIOLATION')]
        if rp and os.path.exists(os.path.join(here, rp[0])):
            res['replay_excerpt'] = open(os.path.join(here, rp[0])).read()[:1500]
        shutil.rmtree(wt + '_evidence', ignore_errors=True)
    finally:
        sh(['git', '-C', '/repo', 'worktree', 'remove', '--force', wt])
        shutil.rmtree(wt, ignore_errors=True)
    json.dump(res, open(os.path.join(d, 'result.json'), 'w'), indent=1)
    return res

def main():
    args = [a for a in sys.argv[1:] if not a.startswith('--')]
    tier = 'quick'
    if '--tier' in sys.argv:
        tier = sys.argv[sys.argv.index('--tier') + 1]
        args = [a for a in args if a != tier]
    names = args or sorted(n for n in os.listdir(seeded) if os.path.isdir(os.path.join(seeded, n)))
    rows = []
    for n in names:
        r = run_one(n, tier)
        if r.get('caught_by') and not r.get('caught'):
            r['status'] = 'caught-by-neighbour'
            json.dump(r, open(os.path.join(seeded, n, 'result.json'), 'w'), indent=1)
        print(n, r.get('status'), r.get('caught_by'), (r.get('check_lines') or [r.get('error')])[-1])
        rows.append(r)
    # summary over all result files
    lines = ['# Seeded defects vs. checks', '', '| seed | property | status | demo clean/patched | check exit | caught by own check | failing input found | caught by |', '|---|---|---|---|---|---|---|---|']
    for n in sorted(os.listdir(seeded)):
        f = os.path.join(seeded, n, 'result.json')
        if os.path.exists(f):
            r = json.load(open(f))
            lines.append('| %s | %s | %s | %s/%s | %s | %s | %s | %s |' % (n, r['property'], r.get('status'), r.get('demo_clean_exit'), r.get('demo_patched_exit'), r.get('check_exit'), r.get('caught'), r.get('with_failing_input'), ','.join(r.get('caught_by', []))))
    open(os.path.join(seeded, 'RESULTS.md'), 'w').write('\n'.join(lines) + '\n')

if __name__ == '__main__':
    main()
