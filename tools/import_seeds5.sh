#!/bin/sh
# tools/import_seeds5.sh c13 ...  -> copies /tmp/seed5_c13/seeds/C13-*/{patch.diff,demo.py,meta.json} into seeded/, checks that each
# patch touches only hcipy/ source files, and removes the scratch worktree.
cd "$(dirname "$0")/.." || exit 2
for b in "$@"; do
  for d in /tmp/seed5_$b/seeds/C*-1[01]/; do
    [ -d "$d" ] || continue
    n=$(basename "$d"); mkdir -p seeded/$n
    cp "$d"patch.diff "$d"demo.py "$d"meta.json seeded/$n/ 2>/dev/null
    echo "imported $n: $(grep '^diff --git' seeded/$n/patch.diff | sed 's/.* b\///' | tr '\n' ' ')"
  done
  git -C /repo worktree remove --force /tmp/seed5_$b 2>/dev/null; rm -rf /tmp/seed5_$b
done
