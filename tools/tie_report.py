#!/usr/bin/env python3
"""Mechanical tie measurement for every property (lean/TieAudit.lean via harness.common.tie_audit).
Usage: tools/tie_report.py [out.md]   — prints a table; needs a built lean/ project."""
import os, sys, json
from concurrent.futures import ThreadPoolExecutor
here = os.path.dirname(os.path.dirname(os.path.abspath(__file__)))
sys.path.insert(0, here)
from harness import common

ids = ['C%02d' % i for i in range(1, 21)]
with ThreadPoolExecutor(8) as ex:
    res = dict(zip(ids, ex.map(common.tie_audit, ids)))
lines = ['| id | theorems | statement mentions an executed definition | tied (executed or thin wrapper, no parallel model) | about a parallel model | free-standing | Model definitions no driver runs |',
         '|---|---|---|---|---|---|---|']
for i in ids:
    r = res[i]
    if 'error' in r:
        lines.append('| %s | error: %s |' % (i, r['error'])); continue
    short = lambda xs: ', '.join(x.split('.')[-1] for x in xs) or '—'
    lines.append('| %s | %d | %d | %d | %s | %s | %s |' % (i, r['theorems'], r['theorems_with_executed_def'], r['theorems_tied'],
                 short(r['about_parallel_model']), short(r['free_standing']), short(r['dead_model'])))
out = '\n'.join(lines)
print(out)
if len(sys.argv) > 1:
    open(sys.argv[1], 'w').write(out + '\n')
