#!/bin/sh
# tools/seedtest_par.sh [jobs] name...   Runs seedtest.py on the named seeds, one serial stream per property (C07/C08
# regenerate lean/HcipyVerif/Gen from the code under test, so two seeds of one property must never run concurrently),
# streams in parallel.  Restores Gen afterwards and rewrites seeded/RESULTS.md once at the end.
cd "$(dirname "$0")/.." || exit 2
jobs="$1"; shift
mkdir -p /tmp/verif_seedpar
props=$(for n in "$@"; do echo "${n%%-*}"; done | sort -u)
for p in $props; do
  names=$(for n in "$@"; do [ "${n%%-*}" = "$p" ] && printf '%s ' "$n"; done)
  echo "$names"
done | xargs -P "$jobs" -I{} sh -c 'python3 tools/seedtest.py {} > /tmp/verif_seedpar/$(echo {} | cut -d" " -f1).log 2>&1; grep -h "^C[0-9][0-9]-" /tmp/verif_seedpar/$(echo {} | cut -d" " -f1).log'
git checkout -- lean/HcipyVerif/Gen
