#!/usr/bin/env python3
"""Regenerate the mechanical tables of DESIGN.md from the data files (never from memory):

  * the status table (obligations, tie audit, evaluations, wall time per property) from evidence/*.json,
  * the defect table from known_findings.json (fixed entries with their commits, open findings),
  * the seeded-defect summary from seeded/*/result.json.

The tables are written between the markers `<!-- BEGIN:<name> -->` / `<!-- END:<name> -->` of DESIGN.md
(name = status | defects | seeds); text outside the markers is never touched.  Usage: tools/design_tables.py
"""
import json, os, re, subprocess
here = os.path.dirname(os.path.dirname(os.path.abspath(__file__)))
os.chdir(here)


def status_table():
    rows = ['| id | obligations discharged | theorems | tied to executed definitions | parallel model | free-standing | evaluations (quick) | model-vs-code comparisons | wall s |',
            '|---|---|---|---|---|---|---|---|---|']
    tot_o = tot_t = tot_tied = 0
    for i in range(1, 21):
        pid = 'C%02d' % i
        f = 'evidence/%s.json' % pid
        if not os.path.exists(f):
            continue
        e = json.load(open(f)); c = e['coverage']; t = c.get('tie_audit', {})
        rows.append('| %s | %s/%s | %s | %s | %s | %s | %s | %s | %s |' % (
            pid, c['discharged'], c['obligations'], t.get('theorems', '?'), t.get('theorems_tied', '?'),
            len(t.get('about_parallel_model', [])), len(t.get('free_standing', [])), c['evaluations'],
            c.get('traces_validated_against_impl', '?'), e.get('wall_s')))
        tot_o += c['obligations']; tot_t += t.get('theorems', 0) or 0; tot_tied += t.get('theorems_tied', 0) or 0
    rows.append('| all | %d | %d | %d | | | | | |' % (tot_o, tot_t, tot_tied))
    return '\n'.join(rows)


def commit_subject(c):
    p = subprocess.run(['git', '-C', '/repo', 'log', '-1', '--format=%s', c], stdout=subprocess.PIPE, stderr=subprocess.DEVNULL, text=True)
    return p.stdout.strip()


def defects_table():
    k = json.load(open('known_findings.json'))['findings']
    rows = ['| id | property | what was wrong / what the commit does | disposition |', '|---|---|---|---|']
    fixed = [f for f in k if f.get('status') == 'fixed']
    opened = [f for f in k if f.get('status', 'open') == 'open']
    for f in fixed:
        rows.append('| %s | %s | %s | fixed %s |' % (f.get('id', '—'), f['property'], f.get('what', '').replace('|', '/')[:300], f.get('commit', '?')))
    for f in opened:
        rows.append('| — | %s | %s | open finding `%s` |' % (f['property'], f.get('what', '').replace('|', '/')[:300], f['key']))
    rows.append('')
    rows.append('%d repaired defects (one unguarded `fix:` commit each), %d open findings.' % (len(fixed), len(opened)))
    return '\n'.join(rows)


def seeds_table():
    by_round = {}
    for n in sorted(os.listdir('seeded')):
        f = os.path.join('seeded', n, 'result.json')
        if not os.path.exists(f):
            continue
        r = json.load(open(f))
        k = int(n.split('-')[1])
        rnd = 1 if k <= 3 else 2 if k <= 5 else 3 if k <= 7 else 4 if k <= 9 else 5
        d = by_round.setdefault(rnd, {'n': 0, 'own': 0, 'neighbour': 0, 'missed': [], 'stale': []})
        st = r.get('status')
        if st in ('patch-no-longer-applies', 'neutralised-by-later-fix'):
            d['stale'].append(n); continue
        d['n'] += 1
        if r.get('caught'):
            d['own'] += 1
        elif r.get('caught_by'):
            d['neighbour'] += 1
        else:
            d['missed'].append(n)
    rows = ['| seeding round | seeds that still apply | caught by the quick check of their own property | only by a neighbouring property | not caught | no longer applicable (later `fix:` commits rewrote the context) |',
            '|---|---|---|---|---|---|']
    for rnd in sorted(by_round):
        d = by_round[rnd]
        rows.append('| %d | %d | %d | %d | %s | %s |' % (rnd, d['n'], d['own'], d['neighbour'], ', '.join(d['missed']) or '—', ', '.join(d['stale']) or '—'))
    return '\n'.join(rows)


def main():
    s = open('DESIGN.md').read()
    for name, fn in (('status', status_table), ('defects', defects_table), ('seeds', seeds_table)):
        b, e = '<!-- BEGIN:%s -->' % name, '<!-- END:%s -->' % name
        if b in s and e in s:
            i, j = s.index(b) + len(b), s.index(e)
            s = s[:i] + '\n' + fn() + '\n' + s[j:]
            print('updated', name)
        else:
            print('markers for', name, 'not found')
    open('DESIGN.md', 'w').write(s)


if __name__ == '__main__':
    main()
