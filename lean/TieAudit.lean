import Lean
/-!
# Tie audit (meta-program, not part of the library, proves nothing)

Mechanises the question the independent audits asked by hand: *is the definition a property theorem
speaks about the definition the line-protocol driver executes (and the harness therefore compares
with the running code), or a second model that is only read?*

`TieAudit.run mod` inspects the environment of the importing file (which imports `Properties.Cxx` and every
`Driver.*`) and prints one JSON object:

* `executed`  — our (`HcipyVerif.*`) definitions reachable from some `HcipyVerif.Driver.*.step`
  through definition bodies: these run in the native driver on every check.
* per theorem of module `mod`: our definitions occurring in its *statement*, split into
  `executed`; `derived` (not executed itself, but a thin wrapper — at most 3 unexecuted definitions in
  its unfolding — over executed ones: a fold of the executed `step`, a ℝ/ℂ instantiation, …);
  `parallel` (its unfolding shares helpers with the executed model but contains more than 3
  definitions no driver runs: a second model next to the executed one) and `free` (no definitional
  connection with anything the driver runs: specification functions such as the defining Fourier
  sum, or a model that is tied to the code by reading only).
* `theorems_tied` counts theorems whose statement mentions an executed or derived definition and no
  parallel one; `about_parallel_model` and `free_standing` (no executed/derived/parallel definition at
  all: pure mathematics or specification-only statements) list the others.
* `dead_model` — definitions in `HcipyVerif.Model.*` reached through the parallel/free part of some
  statement of `mod` that no driver executes.

The result is a *measurement* written into the evidence file; it never turns a check red.
-/
open Lean

namespace TieAudit

def ourModule (env : Environment) (n : Name) : Option Name :=
  match env.getModuleIdxFor? n with
  | some idx =>
    let m := env.header.moduleNames[idx.toNat]!
    if m.getRoot == `HcipyVerif then some m else none
  | none => none

def isOurs (env : Environment) (n : Name) : Bool := (ourModule env n).isSome

/-- A user-level definition of ours (function or constant), not a type, constructor, recursor,
auxiliary (`match_`, `proof_`, `_eq_`, `_unary`, …) or theorem. -/
def isUserDef (env : Environment) (n : Name) : Bool :=
  isOurs env n && !n.isInternalDetail && !(env.isProjectionFn n) &&
  (match env.find? n with
   | some (.defnInfo _) => true
   | some (.opaqueInfo _) => true
   | _ => false) &&
  !(n.components.any fun c => match c with
      | .str _ s => s.startsWith "match_" || s.startsWith "proof_" || s.startsWith "inst" || s == "rec" || s == "casesOn"
          || s == "recOn" || s == "brecOn" || s == "below" || s == "noConfusion" || s == "noConfusionType"
          || s == "sizeOf_spec" || s == "injEq" || s == "eq_def" || s == "ctorIdx" || s == "toCtorIdx" || s == "ofNat"
      | _ => false)

/-- constants used by the *body* (and type) of `n`, restricted to ours -/
def usedOurs (env : Environment) (n : Name) : Array Name :=
  match env.find? n with
  | some ci => (ci.getUsedConstantsAsSet.toArray).filter (isOurs env)
  | none => #[]

partial def closure (env : Environment) (start : Array Name) : NameSet := Id.run do
  let mut seen : NameSet := {}
  let mut todo := start
  while !todo.isEmpty do
    let n := todo.back!
    todo := todo.pop
    if seen.contains n then continue
    seen := seen.insert n
    for m in usedOurs env n do
      if !seen.contains m then todo := todo.push m
  return seen

def typeConsts (env : Environment) (n : Name) : Array Name :=
  match env.find? n with
  | some ci => (ci.type.getUsedConstantsAsSet.toArray).filter (isOurs env)
  | none => #[]

def jsonNames (ns : Array Name) : String :=
  "[" ++ ", ".intercalate ((ns.qsort (fun a b => a.toString < b.toString)).toList.map fun n => "\"" ++ n.toString ++ "\"") ++ "]"

def run (modName : Name) (only : Array Name := #[]) : CoreM Unit := do
  let env ← getEnv
  -- every driver front end
  let mut steps : Array Name := #[]
  for (n, _) in env.constants.toList do
    if (`HcipyVerif.Driver).isPrefixOf n && isOurs env n then steps := steps.push n
  let exec := closure env steps
  let execDefs := exec.toArray.filter (isUserDef env)
  -- for a definition that is not executed itself: how much of its definitional unfolding is executed?
  -- (`nx` = user definitions in the unfolding that no driver runs, `d` included; `x` = those a driver runs)
  let split (d : Name) : Nat × Nat := Id.run do
    let mut nx := 0
    let mut x := 0
    for m in (closure env #[d]).toArray do
      if isUserDef env m && !((`HcipyVerif.Proto).isPrefixOf m) then
        if exec.contains m then x := x + 1 else nx := nx + 1
    return (nx, x)
  let mut thms : Array String := #[]
  let mut deadSet : NameSet := {}
  let mut nT := 0
  let mut nTied := 0
  let mut nExec := 0
  let mut freeThms : Array Name := #[]
  let mut paraThms : Array Name := #[]
  for (n, ci) in env.constants.toList do
    if n.isInternalDetail then continue
    match ci with
    | .thmInfo _ =>
      if ourModule env n != some modName then continue
      if !only.isEmpty && !only.contains n then continue
      -- statement-level definitions: constants of the type, expanded through *types* of structures
      let stmt := (typeConsts env n).filter (isUserDef env)
      let mut ex : Array Name := #[]
      let mut de : Array Name := #[]
      let mut fr : Array Name := #[]
      let mut pa : Array Name := #[]
      for d in stmt do
        if exec.contains d then ex := ex.push d
        else
          let (nx, x) := split d
          if x ≥ 1 && nx ≤ 3 then de := de.push d        -- thin wrapper over executed definitions
          else if x ≥ 1 then pa := pa.push d              -- a parallel model sharing some executed helpers
          else fr := fr.push d
      -- Model definitions no driver runs, reached through the parallel/free part of the statement
      for d in (closure env (pa ++ fr)).toArray do
        match ourModule env d with
        | some m =>
          if (`HcipyVerif.Model).isPrefixOf m && isUserDef env d && !exec.contains d then deadSet := deadSet.insert d
        | none => pure ()
      nT := nT + 1
      let status := if !ex.isEmpty then "executed" else if !de.isEmpty then "derived" else if !pa.isEmpty then "parallel-model" else if fr.isEmpty then "pure" else "free"
      if !ex.isEmpty then nExec := nExec + 1
      if (!ex.isEmpty || !de.isEmpty) && pa.isEmpty then nTied := nTied + 1
      if !pa.isEmpty then paraThms := paraThms.push n
      if ex.isEmpty && de.isEmpty && pa.isEmpty then freeThms := freeThms.push n
      thms := thms.push s!"\{\"name\": \"{n}\", \"status\": \"{status}\", \"executed\": {jsonNames ex}, \"derived\": {jsonNames de}, \"parallel\": {jsonNames pa}, \"free\": {jsonNames fr}}"
    | _ => pure ()
  let body := ",\n  ".intercalate thms.toList
  IO.println s!"TIEAUDIT-BEGIN\n\{\"module\": \"{modName}\", \"executed_defs\": {execDefs.size}, \"theorems\": {nT}, \"theorems_with_executed_def\": {nExec}, \"theorems_tied\": {nTied}, \"about_parallel_model\": {jsonNames paraThms}, \"free_standing\": {jsonNames freeThms}, \"dead_model\": {jsonNames deadSet.toArray},\n \"per_theorem\": [\n  {body}\n ]}\nTIEAUDIT-END"

end TieAudit
