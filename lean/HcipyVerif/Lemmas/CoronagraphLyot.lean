import HcipyVerif.Lemmas.CoronagraphMat

/-!
# Lemmas for `LyotCoronagraph.backward` (C09, round 4)

Function-level core `x − B((1 − μ) ∘ (F x))`, the adjoint identity when `B = Fᴴ`, refinement from the
executable `lyotForward` / `lyotBackward`.
-/
set_option linter.unusedSimpArgs false
set_option linter.unusedVariables false
set_option linter.unusedSectionVars false
namespace HcipyVerif.Coronagraph
open Finset

section LyotBackward
variable {K : Type} [CommRing K] {m n : ℕ}

/-- `x − B((1 − μ) ∘ (F x))` at function level -/
def lyotCoreF (f : Fin m → Fin n → K) (b : Fin n → Fin m → K) (mu : Fin m → K) (x : Fin n → K) : Fin n → K :=
  fun i => x i - ∑ k, b i k * ((∑ j, f k j * x j) - (∑ j, f k j * x j) * mu k)

theorem sum_mul_sum_comm (a : Fin n → K) (b : Fin n → Fin m → K) (c : Fin m → K) :
    ∑ i, a i * ∑ k, b i k * c k = ∑ k, (∑ i, a i * b i k) * c k := by
  calc ∑ i, a i * ∑ k, b i k * c k = ∑ i, ∑ k, a i * b i k * c k := by
        refine Finset.sum_congr rfl fun i _ => ?_
        rw [Finset.mul_sum]; refine Finset.sum_congr rfl fun k _ => ?_; ring
    _ = ∑ k, ∑ i, a i * b i k * c k := Finset.sum_comm
    _ = ∑ k, (∑ i, a i * b i k) * c k := by
        refine Finset.sum_congr rfl fun k _ => ?_; rw [Finset.sum_mul]

theorem lyotCoreF_adjoint (cj : K →+* K) (hinv : ∀ a, cj (cj a) = a)
    (f : Fin m → Fin n → K) (b : Fin n → Fin m → K) (hb : ∀ i k, b i k = cj (f k i))
    (mu : Fin m → K) (x y : Fin n → K) :
    ∑ i, cj (y i) * lyotCoreF f b mu x i = ∑ i, cj (lyotCoreF f b (fun k => cj (mu k)) y i) * x i := by
  set A : Fin m → K := fun k => ∑ i, cj (y i) * b i k with hA
  set G : Fin m → K := fun k => ∑ j, f k j * x j with hG
  have hcb : ∀ i k, cj (b i k) = f k i := fun i k => by rw [hb, hinv]
  have hH : ∀ k, cj (∑ j, f k j * y j) = A k := by
    intro k
    rw [map_sum]
    refine Finset.sum_congr rfl fun j _ => ?_
    rw [map_mul, hb j k]; ring
  have hL : ∑ i, cj (y i) * lyotCoreF f b mu x i = (∑ i, cj (y i) * x i) - ∑ k, A k * (G k - G k * mu k) := by
    calc ∑ i, cj (y i) * lyotCoreF f b mu x i
        = ∑ i, (cj (y i) * x i - cj (y i) * ∑ k, b i k * (G k - G k * mu k)) := by
          refine Finset.sum_congr rfl fun i _ => ?_
          unfold lyotCoreF; rw [mul_sub]
      _ = _ := by
          rw [Finset.sum_sub_distrib, sum_mul_sum_comm (fun i => cj (y i)) b (fun k => G k - G k * mu k)]
  have hpt : ∀ i, cj (lyotCoreF f b (fun k => cj (mu k)) y i) = cj (y i) - ∑ k, f k i * (A k - A k * mu k) := by
    intro i
    unfold lyotCoreF
    rw [map_sub, map_sum]
    congr 1
    refine Finset.sum_congr rfl fun k _ => ?_
    rw [map_mul, map_sub, map_mul, hcb, hH, hinv]
  have hR : ∑ i, cj (lyotCoreF f b (fun k => cj (mu k)) y i) * x i =
      (∑ i, cj (y i) * x i) - ∑ k, (A k - A k * mu k) * G k := by
    calc ∑ i, cj (lyotCoreF f b (fun k => cj (mu k)) y i) * x i
        = ∑ i, (cj (y i) * x i - x i * ∑ k, f k i * (A k - A k * mu k)) := by
          refine Finset.sum_congr rfl fun i _ => ?_
          rw [hpt i]; ring
      _ = (∑ i, cj (y i) * x i) - ∑ k, (∑ i, x i * f k i) * (A k - A k * mu k) := by
          rw [Finset.sum_sub_distrib, sum_mul_sum_comm (fun i => x i) (fun i k => f k i) (fun k => A k - A k * mu k)]
      _ = _ := by
          congr 1
          refine Finset.sum_congr rfl fun k _ => ?_
          have : ∑ i, x i * f k i = G k := by
            simp only [hG]; refine Finset.sum_congr rfl fun i _ => ?_; ring
          rw [this]; ring
  rw [hL, hR]
  congr 1
  refine Finset.sum_congr rfl fun k _ => ?_
  ring


theorem toFn_lyotForward_none (F : Vector (Vector K n) m) (B : Vector (Vector K m) n) (mask : Vector K m)
    (x : Vector K n) :
    toFn (lyotForward F B mask none x) = lyotCoreF (toFn2 F) (toFn2 B) (toFn mask) (toFn x) := by
  unfold lyotForward
  simp only [toFn_ofFn]
  funext i
  have h1 := congrFun (toFn_matVec F x)
  have h2 := fun v => congrFun (toFn_matVec B v) i
  simp only [toFn] at h1 h2 ⊢
  rw [h2]
  unfold lyotCoreF
  simp [toFn, toFn2, h1]

theorem toFn_lyotForward_some (F : Vector (Vector K n) m) (B : Vector (Vector K m) n) (mask : Vector K m)
    (s x : Vector K n) :
    toFn (lyotForward F B mask (some s) x) =
      fun i => lyotCoreF (toFn2 F) (toFn2 B) (toFn mask) (toFn x) i * toFn s i := by
  rw [← toFn_lyotForward_none]
  unfold lyotForward
  funext i
  simp [toFn]

theorem lyotBackward_eq_forward (cj : K → K) (F : Vector (Vector K n) m) (B : Vector (Vector K m) n)
    (mask : Vector K m) (stop : Option (Vector K n)) (y : Vector K n) :
    lyotBackward cj F B mask stop y =
      lyotForward F B (Vector.ofFn fun k => cj mask[k]) none
        (match stop with
         | none => y
         | some s => Vector.ofFn fun i => y[i] * cj s[i]) := by
  cases stop <;> simp [lyotBackward, lyotForward]

theorem cdot_eq (cj : K → K) (u v : Vector K n) : cdot cj u v = ∑ i, cj (toFn u i) * toFn v i := by
  unfold cdot
  exact foldl_eq_sum n fun i => cj u[i] * v[i]

end LyotBackward
end HcipyVerif.Coronagraph
