import HcipyVerif.Model.Zernike
import Mathlib.Analysis.Complex.Trigonometric
import Mathlib.Tactic.Ring

/-! Helper lemmas for C13: the azimuthal factor of the model is `cos mθ` / `sin |m|θ` over `ℝ`.

`cisPow` / `azimQ` are scalar-polymorphic: the driver runs them at `Rat`; here the *same* definitions are
instantiated at `ℝ` (every real `θ`, `cisPow_cos_sin`, `azimQ_cos_sin`) and the `Rat` instance is shown to be
the restriction of the real one (`cisPow_cast`, `azimQ_cast`). -/

set_option linter.unusedSimpArgs false
set_option linter.unusedVariables false

namespace HcipyVerif.Zernike

/-- De Moivre over `ℝ`, for **every** real `θ`: `(cos θ + i sin θ)^k = cos kθ + i sin kθ`. -/
theorem cisPow_cos_sin (θ : ℝ) : ∀ k : Nat,
    cisPow (Real.cos θ) (Real.sin θ) k = (Real.cos (k * θ), Real.sin (k * θ))
  | 0 => by simp [cisPow]
  | k + 1 => by
    have ih := cisPow_cos_sin θ k
    have e : ((k + 1 : Nat) : ℝ) * θ = k * θ + θ := by push_cast; ring
    simp only [cisPow, ih]
    rw [e, Real.cos_add, Real.sin_add, add_comm (Real.sin (↑k * θ) * Real.cos θ)]

/-- the azimuthal factor the driver executes, instantiated at `ℝ`, for every real `θ` and every integer `m` -/
theorem azimQ_cos_sin (m : Int) (θ : ℝ) :
    azimQ m (Real.cos θ) (Real.sin θ) = if m = 0 then 1 else if 0 < m then Real.cos (m * θ) else Real.sin (-m * θ) := by
  unfold azimQ
  obtain ⟨k, rfl | rfl⟩ := Int.eq_nat_or_neg m
  · rw [cisPow_cos_sin]
    simp only [Int.natAbs_natCast, Int.cast_natCast]
    by_cases h0 : (k : Int) = 0
    · simp [h0]
    · have h1 : 0 < (k : Int) := by omega
      simp only [h0, h1, if_false, if_true]
  · rw [cisPow_cos_sin]
    simp only [Int.natAbs_neg, Int.natAbs_natCast, Int.cast_neg, Int.cast_natCast, neg_neg]
    by_cases h0 : (k : Int) = 0
    · simp [h0]
    · have h1 : ¬ (0 < -(k : Int)) := by omega
      have h2 : ¬ (-(k : Int) = 0) := by omega
      simp only [h1, h2, if_false]

/-- the `Rat` instance (what the driver runs) is the restriction of the `ℝ` instance -/
theorem cisPow_cast (c s : Rat) : ∀ k : Nat,
    (((cisPow c s k).1 : Rat) : ℝ) = (cisPow (c : ℝ) (s : ℝ) k).1 ∧
    (((cisPow c s k).2 : Rat) : ℝ) = (cisPow (c : ℝ) (s : ℝ) k).2
  | 0 => by simp [cisPow]
  | k + 1 => by
    obtain ⟨a, b⟩ := cisPow_cast c s k
    simp only [cisPow]
    push_cast
    rw [a, b]
    exact ⟨rfl, rfl⟩

theorem azimQ_cast (m : Int) (c s : Rat) : ((azimQ m c s : Rat) : ℝ) = azimQ m (c : ℝ) (s : ℝ) := by
  unfold azimQ
  obtain ⟨a, b⟩ := cisPow_cast c s m.natAbs
  split
  · simp
  · split
    · exact a
    · exact b

/-- For a direction with rational cosine and sine, `(c + i s)^k = cos kθ + i sin kθ`. -/
theorem cisPow_trig (c s : Rat) (θ : ℝ) (hc : (c : ℝ) = Real.cos θ) (hs : (s : ℝ) = Real.sin θ) (k : Nat) :
    (((cisPow c s k).1 : Rat) : ℝ) = Real.cos (k * θ) ∧ (((cisPow c s k).2 : Rat) : ℝ) = Real.sin (k * θ) := by
  obtain ⟨a, b⟩ := cisPow_cast c s k
  rw [a, b, hc, hs, cisPow_cos_sin]
  exact ⟨rfl, rfl⟩

theorem azimQ_trig (m : Int) (c s : Rat) (θ : ℝ) (hc : (c : ℝ) = Real.cos θ) (hs : (s : ℝ) = Real.sin θ) :
    ((azimQ m c s : Rat) : ℝ) = if m = 0 then 1 else if 0 < m then Real.cos (m * θ) else Real.sin (-m * θ) := by
  rw [azimQ_cast, hc, hs, azimQ_cos_sin]

end HcipyVerif.Zernike
