import HcipyVerif.Model.Zernike
import Mathlib.Analysis.Complex.Trigonometric
import Mathlib.Tactic.Ring

/-! Helper lemmas for C13: the azimuthal factor of the model is `cos mθ` / `sin |m|θ` over `ℝ`. -/

set_option linter.unusedSimpArgs false
set_option linter.unusedVariables false

namespace HcipyVerif.Zernike

/-- For a direction with rational cosine and sine, `(c + i s)^k = cos kθ + i sin kθ`. -/
theorem cisPow_trig (c s : Rat) (θ : ℝ) (hc : (c : ℝ) = Real.cos θ) (hs : (s : ℝ) = Real.sin θ) :
    ∀ k : Nat, ((cisPow c s k).1 : ℝ) = Real.cos (k * θ) ∧ ((cisPow c s k).2 : ℝ) = Real.sin (k * θ)
  | 0 => by simp [cisPow]
  | k + 1 => by
    obtain ⟨a, b⟩ := cisPow_trig c s θ hc hs k
    have e : ((k + 1 : Nat) : ℝ) * θ = k * θ + θ := by push_cast; ring
    simp only [cisPow]
    rw [e, Real.cos_add, Real.sin_add]
    push_cast
    rw [a, b, hc, hs]
    constructor <;> ring

theorem azimQ_trig (m : Int) (c s : Rat) (θ : ℝ) (hc : (c : ℝ) = Real.cos θ) (hs : (s : ℝ) = Real.sin θ) :
    (azimQ m c s : ℝ) = if m = 0 then 1 else if 0 < m then Real.cos (m * θ) else Real.sin (-m * θ) := by
  unfold azimQ
  obtain ⟨k, rfl | rfl⟩ := Int.eq_nat_or_neg m
  · obtain ⟨a, b⟩ := cisPow_trig c s θ hc hs k
    simp only [Int.natAbs_natCast, Int.cast_natCast]
    split
    · simp
    · split
      · exact a
      · omega
  · obtain ⟨a, b⟩ := cisPow_trig c s θ hc hs k
    simp only [Int.natAbs_neg, Int.natAbs_natCast, Int.cast_neg, Int.cast_natCast, neg_neg]
    split
    · simp
    · split
      · omega
      · exact b
end HcipyVerif.Zernike
