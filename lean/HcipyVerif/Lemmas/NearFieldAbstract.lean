import HcipyVerif.Lemmas.NearField
import HcipyVerif.Lemmas.FourierLinkC04
import HcipyVerif.Lemmas.NearFieldExec
import HcipyVerif.Lemmas.NearFieldGRat
import HcipyVerif.Lemmas.NearFieldMatrixExec
import HcipyVerif.Lemmas.NearFieldTensor

/-!
# C04 — the abstract `FourierFilter` algebra (lemmas)

Until round 4 these were the property theorems of C04.  They speak about `filter P e D` for an abstract `FourierPair P`
(any pair of linear maps with the inverse / adjoint laws of the DFT), an abstract cut-out `e` and the `ℂ`-valued transfer
functions `fresnelD`, `angularD`, `sampledTF`, `modelD` — a model *parallel* to the definitions the driver executes.
Since round 5 they are lemmas: `Lemmas/NearFieldScalar.lean` instantiates them (through the bridge
`filter_dft2_apply`: `filter (dftPair2 …) (cutoutEmb p h) = filterP …`) at the executed scalar-polymorphic pipeline
`fourierFilter cScalar`, `fresnelForward cScalar`, … and `Properties/C04.lean` states every clause about those executed
definitions only, with no hypothesis on the transform.
-/

set_option linter.unusedSimpArgs false
set_option linter.unusedVariables false
set_option linter.unusedSectionVars false

open Finset Complex ComplexConjugate

namespace HcipyVerif.NearField

variable {ι μ τ : Type*} [Fintype ι] [Fintype μ] [Fintype τ] [DecidableEq μ]

/-! ## every regime: linear, backward = adjoint -/

/-- The filter is additive and homogeneous, whatever the transfer function (either branch). -/
theorem filter_linear (P : FourierPair μ) (e : ι → μ) (D : μ → ℂ) (a b : ℂ) (x y : ι → ℂ) :
    filter P e D (a • x + b • y) = a • filter P e D x + b • filter P e D y := by
  unfold filter
  rw [pad_add, pad_smul, pad_smul, map_add, map_smul, map_smul, mulD_add, mulD_smul, mulD_smul,
    map_add, map_smul, map_smul, crop_add, crop_smul, crop_smul]

/-- `backward` is exactly the adjoint of `forward`: `⟨y, T_D x⟩ = ⟨T_{conj D} y, x⟩`, for every transfer
function (transfer-function branch or impulse-response branch), every padding. -/
theorem filter_adjoint (P : FourierPair μ) (e : ι → μ) (D : μ → ℂ) (x y : ι → ℂ) :
    ip y (filter P e D x) = ip (filterBackward P e D y) x := by
  have hc : (P.c : ℂ) ≠ 0 := by exact_mod_cast P.c_pos.ne'
  unfold filterBackward filter
  rw [← ip_pad_left, P.ip_Finv_right, ip_mulD_right, P.adj, ← mul_assoc, inv_mul_cancel₀ hc, one_mul,
    ip_pad_right]

/-- The same with the grid weight `w` of a regular grid in the inner products. -/
theorem filter_adjoint_weighted (P : FourierPair μ) (e : ι → μ) (D : μ → ℂ) (w : ℝ) (x y : ι → ℂ) :
    (w : ℂ) * ip y (filter P e D x) = (w : ℂ) * ip (filterBackward P e D y) x := by
  rw [filter_adjoint]

/-- Backward of backward is forward (the adjoint is an involution on transfer functions). -/
theorem filterBackward_filterBackward (P : FourierPair μ) (e : ι → μ) (D : μ → ℂ) :
    filterBackward P e (fun m => conj (D m)) = filter P e D := by
  funext x
  unfold filterBackward
  simp only [Complex.conj_conj]

/-- Tensor (Jones-vector / Jones-matrix) fields are filtered component by component. -/
noncomputable def filterT (P : FourierPair μ) (e : ι → μ) (D : μ → ℂ) (x : τ → ι → ℂ) : τ → ι → ℂ :=
  fun t => filter P e D (x t)

theorem filterT_adjoint (P : FourierPair μ) (e : ι → μ) (D : μ → ℂ) (x y : τ → ι → ℂ) :
    ∑ t, ip (y t) (filterT P e D x t) = ∑ t, ip (filterT P e (fun m => conj (D m)) y t) (x t) := by
  apply Finset.sum_congr rfl
  intro t _
  exact filter_adjoint P e D (x t) (y t)

/-! ## passive: `|D| ≤ 1` ⇒ power never increases -/

/-- `(∀ k, |D k| ≤ 1) → ‖T_D x‖² ≤ ‖x‖²` with `P` an isometric embedding (`e` injective) and `F` unitary up
to the scale `c`. -/
theorem power_nonincreasing (P : FourierPair μ) {e : ι → μ} (he : Function.Injective e) {D : μ → ℂ}
    (hD : ∀ m, ‖D m‖ ≤ 1) (x : ι → ℂ) : nsq (filter P e D x) ≤ nsq x := by
  unfold filter
  calc nsq (crop e (P.Finv (mulD D (P.F (pad e x)))))
      ≤ nsq (P.Finv (mulD D (P.F (pad e x)))) := nsq_crop_le he _
    _ = P.c⁻¹ * nsq (mulD D (P.F (pad e x))) := P.nsq_Finv _
    _ ≤ P.c⁻¹ * nsq (P.F (pad e x)) :=
        mul_le_mul_of_nonneg_left (nsq_mulD_le hD _) (inv_nonneg.mpr P.c_pos.le)
    _ = P.c⁻¹ * (P.c * nsq (pad e x)) := by rw [P.nsq_F]
    _ = nsq x := by rw [← mul_assoc, inv_mul_cancel₀ P.c_pos.ne', one_mul, nsq_pad he]

theorem power_nonincreasing_tensor (P : FourierPair μ) {e : ι → μ} (he : Function.Injective e) {D : μ → ℂ}
    (hD : ∀ m, ‖D m‖ ≤ 1) (x : τ → ι → ℂ) : ∑ t, nsq (filterT P e D x t) ≤ ∑ t, nsq (x t) :=
  Finset.sum_le_sum fun t _ => power_nonincreasing P he hD (x t)

/-- The sub-pixel average of numbers of modulus ≤ 1 (in particular unimodular ones) has modulus ≤ 1. -/
theorem mean_unimodular_le_one {σ : Type*} (S : Finset σ) (f : σ → ℂ) (hf : ∀ s ∈ S, ‖f s‖ = 1) :
    ‖meanOver S f‖ ≤ 1 :=
  norm_meanOver_le_one S f fun s hs => (hf s hs).le

/-- Fresnel transfer function, oversampled: modulus ≤ 1 at every internal frequency, for every distance,
wavenumber, and set of sub-sample frequencies. -/
theorem fresnel_oversampled_norm_le_one {σ : Type*} (S : Finset σ) (k z : ℝ) (kx ky : σ → ℝ) :
    ‖meanOver S (fun s => fresnelD k z (kx s) (ky s))‖ ≤ 1 :=
  mean_unimodular_le_one S _ fun s _ => norm_fresnelD k z (kx s) (ky s)

/-- Fresnel propagation never increases power (any padding, any oversampling, either sign of `z`). -/
theorem fresnel_power_nonincreasing (P : FourierPair μ) {e : ι → μ} (he : Function.Injective e)
    {σ : Type*} (S : μ → Finset σ) (k z : ℝ) (kx ky : μ → σ → ℝ) (x : ι → ℂ) :
    nsq (filter P e (fun m => meanOver (S m) (fun s => fresnelD k z (kx m s) (ky m s))) x) ≤ nsq x :=
  power_nonincreasing P he (fun m => fresnel_oversampled_norm_le_one (S m) k z (kx m) (ky m)) x

/-- Angular spectrum (repaired code): modulus ≤ 1 at every frequency — propagating waves are unimodular,
evanescent ones decay with `|z|`. -/
theorem angularD_norm_le_one (k z κ2 : ℝ) : ‖angularD k z κ2‖ ≤ 1 := by
  by_cases h : κ2 ≤ k ^ 2
  · rw [angularD_of_propagating h, Complex.norm_exp_ofReal_mul_I]
  · rw [angularD_of_evanescent h, Complex.norm_exp_ofReal, Real.exp_le_one_iff]
    have := Real.sqrt_nonneg (κ2 - k ^ 2)
    have := abs_nonneg z
    nlinarith

/-- With real `k_z` (no evanescent wave sampled) the angular-spectrum transfer function is unimodular —
for the repaired and the unrepaired code alike. -/
theorem angularD_norm_of_propagating {k z κ2 : ℝ} (h : κ2 ≤ k ^ 2) :
    ‖angularD k z κ2‖ = 1 ∧ ‖angularDOld k z κ2‖ = 1 := by
  rw [angularD_of_propagating h, angularDOld_of_propagating h, Complex.norm_exp_ofReal_mul_I]
  exact ⟨rfl, rfl⟩

theorem angular_power_nonincreasing (P : FourierPair μ) {e : ι → μ} (he : Function.Injective e)
    {σ : Type*} (S : μ → Finset σ) (k z : ℝ) (κ2 : μ → σ → ℝ) (x : ι → ℂ) :
    nsq (filter P e (fun m => meanOver (S m) (fun s => angularD k z (κ2 m s))) x) ≤ nsq x :=
  power_nonincreasing P he
    (fun m => norm_meanOver_le_one (S m) _ fun s _ => angularD_norm_le_one k z (κ2 m s)) x

/-- Unrepaired code (namespace `Old`: documentation of finding D30, the code no longer exists in /repo — not evidence
for the property): the same holds as long as no evanescent wave is sampled or `z ≥ 0`. -/
theorem Old.angularDOld_norm_le_one {k z κ2 : ℝ} (h : κ2 ≤ k ^ 2 ∨ 0 ≤ z) : ‖angularDOld k z κ2‖ ≤ 1 := by
  by_cases hp : κ2 ≤ k ^ 2
  · rw [angularDOld_of_propagating hp, Complex.norm_exp_ofReal_mul_I]
  · have hz : 0 ≤ z := h.resolve_left hp
    rw [angularDOld_of_evanescent hp, Complex.norm_exp_ofReal, Real.exp_le_one_iff]
    have := Real.sqrt_nonneg (κ2 - k ^ 2)
    nlinarith

/-- **Counterexample for the unrepaired code (finding D30).** An evanescent component propagated by a
negative distance is amplified: the transfer function has modulus `> 1`. -/
theorem Old.angularDOld_evanescent_grows {k z κ2 : ℝ} (h : k ^ 2 < κ2) (hz : z < 0) :
    1 < ‖angularDOld k z κ2‖ := by
  rw [angularDOld_of_evanescent (not_le.mpr h), Complex.norm_exp_ofReal, Real.one_lt_exp_iff]
  have : 0 < Real.sqrt (κ2 - k ^ 2) := Real.sqrt_pos.mpr (by linarith)
  nlinarith

/-! ## `forward(-z) = backward(+z)` -/

/-- Fresnel: `D_{-z} = conj D_z` at every frequency. -/
theorem fresnel_neg_z (k z kx ky : ℝ) : fresnelD k (-z) kx ky = conj (fresnelD k z kx ky) :=
  fresnelD_neg k z kx ky

/-- Angular spectrum (repaired): `D_{-z} = conj D_z` at every frequency, evanescent or not. -/
theorem angular_neg_z (k z κ2 : ℝ) : angularD k (-z) κ2 = conj (angularD k z κ2) := by
  by_cases h : κ2 ≤ k ^ 2
  · rw [angularD_of_propagating h, angularD_of_propagating h, conj_exp_ofReal_mul_I]
    congr 3; ring
  · rw [angularD_of_evanescent h, angularD_of_evanescent h, abs_neg, ← Complex.exp_conj,
      Complex.conj_ofReal]

/-- Angular spectrum, unrepaired code: `D_{-z} = conj D_z` where `k_z` is real. -/
theorem Old.angularOld_neg_z_of_propagating {k z κ2 : ℝ} (h : κ2 ≤ k ^ 2) :
    angularDOld k (-z) κ2 = conj (angularDOld k z κ2) := by
  rw [angularDOld_of_propagating h, angularDOld_of_propagating h, conj_exp_ofReal_mul_I]
  congr 3; ring

/-- …and fails where it is not: for an evanescent component and `z ≠ 0` the unrepaired transfer function
of `-z` differs from the conjugate of that of `+z` (finding D30). -/
theorem Old.angularOld_neg_z_fails_of_evanescent {k z κ2 : ℝ} (h : k ^ 2 < κ2) (hz : z ≠ 0) :
    angularDOld k (-z) κ2 ≠ conj (angularDOld k z κ2) := by
  have hs : 0 < Real.sqrt (κ2 - k ^ 2) := Real.sqrt_pos.mpr (by linarith)
  rw [angularDOld_of_evanescent (not_le.mpr h), angularDOld_of_evanescent (not_le.mpr h),
    ← Complex.exp_conj, Complex.conj_ofReal, ← Complex.ofReal_exp, ← Complex.ofReal_exp]
  intro heq
  have := Real.exp_injective (Complex.ofReal_injective heq)
  have h2 : Real.sqrt (κ2 - k ^ 2) * z = 0 := by linarith
  rcases mul_eq_zero.mp h2 with h0 | h0
  · exact hs.ne' h0
  · exact hz h0

/-- Propagating by `-z` forward equals propagating by `+z` backward, for any transfer-function family with
`D_{-z} = conj D_z` pointwise — sub-sample averaging included (`conj_meanOver`). -/
theorem neg_z_forward_eq_backward (P : FourierPair μ) (e : ι → μ) {σ : Type*} (S : μ → Finset σ)
    (d : ℝ → μ → σ → ℂ) (z : ℝ) (hd : ∀ m s, d (-z) m s = conj (d z m s)) (x : ι → ℂ) :
    filter P e (fun m => meanOver (S m) (d (-z) m)) x
      = filterBackward P e (fun m => meanOver (S m) (d z m)) x := by
  unfold filterBackward
  congr 1
  funext m
  rw [conj_meanOver]
  congr 1
  funext s
  exact hd m s

theorem fresnel_neg_z_forward_eq_backward (P : FourierPair μ) (e : ι → μ) {σ : Type*} (S : μ → Finset σ)
    (k z : ℝ) (kx ky : μ → σ → ℝ) (x : ι → ℂ) :
    filter P e (fun m => meanOver (S m) (fun s => fresnelD k (-z) (kx m s) (ky m s))) x
      = filterBackward P e (fun m => meanOver (S m) (fun s => fresnelD k z (kx m s) (ky m s))) x :=
  neg_z_forward_eq_backward P e S (fun z m s => fresnelD k z (kx m s) (ky m s)) z
    (fun m s => fresnelD_neg k z _ _) x

theorem angular_neg_z_forward_eq_backward (P : FourierPair μ) (e : ι → μ) {σ : Type*} (S : μ → Finset σ)
    (k z : ℝ) (κ2 : μ → σ → ℝ) (x : ι → ℂ) :
    filter P e (fun m => meanOver (S m) (fun s => angularD k (-z) (κ2 m s))) x
      = filterBackward P e (fun m => meanOver (S m) (fun s => angularD k z (κ2 m s))) x :=
  neg_z_forward_eq_backward P e S (fun z m s => angularD k z (κ2 m s)) z
    (fun m s => angular_neg_z k z _) x

/-! ## no padding (`e` bijective), no oversampling: unitary, inverse, additive -/

/-- Unimodular transfer function, nothing padded: the filter preserves the norm. -/
theorem filter_unitary (P : FourierPair μ) {e : ι → μ} (he : Function.Bijective e) {D : μ → ℂ}
    (hD : ∀ m, ‖D m‖ = 1) (x : ι → ℂ) : nsq (filter P e D x) = nsq x := by
  unfold filter
  rw [nsq_crop_of_bij he, P.nsq_Finv, nsq_mulD_eq hD, P.nsq_F, ← mul_assoc,
    inv_mul_cancel₀ P.c_pos.ne', one_mul, nsq_pad he.1]

/-- …and `backward` inverts `forward`. -/
theorem filter_backward_inverse (P : FourierPair μ) {e : ι → μ} (he : Function.Bijective e) {D : μ → ℂ}
    (hD : ∀ m, ‖D m‖ = 1) (x : ι → ℂ) : filterBackward P e D (filter P e D x) = x := by
  unfold filterBackward
  rw [filter_comp P he]
  have : (fun m => conj (D m) * D m) = fun _ => (1 : ℂ) := by
    funext m
    rw [Complex.conj_mul', hD m]; norm_num
  rw [this, filter_one P he.1]

/-- Fresnel propagation with `zero_padding = 1`, `num_oversampling = 1` is unitary. -/
theorem fresnel_unitary (P : FourierPair μ) {e : ι → μ} (he : Function.Bijective e) (k z : ℝ)
    (kx ky : μ → ℝ) (x : ι → ℂ) :
    nsq (filter P e (fun m => fresnelD k z (kx m) (ky m)) x) = nsq x :=
  filter_unitary P he (fun m => norm_fresnelD k z (kx m) (ky m)) x

/-- …its backward propagation restores the input. -/
theorem fresnel_backward_inverse (P : FourierPair μ) {e : ι → μ} (he : Function.Bijective e) (k z : ℝ)
    (kx ky : μ → ℝ) (x : ι → ℂ) :
    filterBackward P e (fun m => fresnelD k z (kx m) (ky m))
      (filter P e (fun m => fresnelD k z (kx m) (ky m)) x) = x :=
  filter_backward_inverse P he (fun m => norm_fresnelD k z (kx m) (ky m)) x

/-- …and propagating by `z₁` then by `z₂` is propagating by `z₁ + z₂`
(`D_{z₁}·D_{z₂} = D_{z₁+z₂}` pointwise). -/
theorem fresnel_additive (P : FourierPair μ) {e : ι → μ} (he : Function.Bijective e) (k z₁ z₂ : ℝ)
    (kx ky : μ → ℝ) (x : ι → ℂ) :
    filter P e (fun m => fresnelD k z₂ (kx m) (ky m)) (filter P e (fun m => fresnelD k z₁ (kx m) (ky m)) x)
      = filter P e (fun m => fresnelD k (z₁ + z₂) (kx m) (ky m)) x := by
  rw [filter_comp P he]
  congr 1
  funext m
  rw [mul_comm, fresnelD_add]

/-- Two filter objects whose transfer functions agree pointwise give the same result: the output depends on
the history of the object only through `D`. -/
theorem filter_congr (P : FourierPair μ) (e : ι → μ) {D D' : μ → ℂ} (h : ∀ m, D m = D' m) (x : ι → ℂ) :
    filter P e D x = filter P e D' x := by
  have : D = D' := funext h
  rw [this]

/-- The rational phase (in turns) the model reports for a Fresnel sub-sample is the phase of `fresnelD` at
`k = 2π n/λ`, `k⊥ = 2π ν`:  `D = exp(2πi · fresnelTurns)`. -/
theorem fresnelD_eq_turns (p : Params) (νx νy : ℚ) (hn : p.n ≠ 0) (hl : p.lam ≠ 0) :
    fresnelD (2 * Real.pi * (p.n : ℝ) / (p.lam : ℝ)) (p.z : ℝ) (2 * Real.pi * (νx : ℝ)) (2 * Real.pi * (νy : ℝ))
      = cexp (((2 * Real.pi * ((fresnelTurns p νx νy : ℚ) : ℝ) : ℝ) : ℂ) * I) := by
  unfold fresnelD fresnelTurns
  rw [← Complex.exp_add, ← add_mul, ← Complex.ofReal_add]
  congr 3
  have hn' : (p.n : ℝ) ≠ 0 := by exact_mod_cast hn
  have hl' : (p.lam : ℝ) ≠ 0 := by exact_mod_cast hl
  have hpi := Real.pi_ne_zero
  push_cast
  field_simp
  ring

/-! ## the hypotheses are satisfiable -/

/-- A `FourierPair` exists on every index type (the identity with `c = 1`), so none of the theorems
above is vacuous; the one the code uses is the DFT of C01/C02. -/
example : Nonempty (FourierPair μ) :=
  ⟨{ F := LinearMap.id, Finv := LinearMap.id, c := 1, c_pos := one_pos,
     Finv_F := fun _ => rfl, F_Finv := fun _ => rfl, adj := fun x y => by simp }⟩

/-- A non-trivial `FourierPair`: the two-point DFT `F (a, b) = (a + b, a - b)`, `F⁻¹ = F/2`, `c = 2`. -/
example : ∃ P : FourierPair (Fin 2), P.c = 2 := by
  refine ⟨{ F := { toFun := fun x => ![x 0 + x 1, x 0 - x 1], map_add' := ?_, map_smul' := ?_ },
            Finv := { toFun := fun x => ![(x 0 + x 1) / 2, (x 0 - x 1) / 2], map_add' := ?_, map_smul' := ?_ },
            c := 2, c_pos := two_pos, Finv_F := ?_, F_Finv := ?_, adj := ?_ }, rfl⟩
  · intro x y; ext i; fin_cases i <;> simp <;> ring
  · intro a x; ext i; fin_cases i <;> simp <;> ring
  · intro x y; ext i; fin_cases i <;> simp <;> ring
  · intro a x; ext i; fin_cases i <;> simp <;> ring
  · intro x; ext i; fin_cases i <;> simp
  · intro y; ext i; fin_cases i <;> simp <;> ring
  · intro x y
    simp only [ip, Fin.sum_univ_two, LinearMap.coe_mk, AddHom.coe_mk, Matrix.cons_val_zero,
      Matrix.cons_val_one, map_add, map_sub, map_div₀, map_ofNat]
    push_cast
    ring

/-! ## hypothesis-free: `P` is the DFT of C01/C02

`Lemmas/FourierLinkC04.lean` constructs the `FourierPair` from the specification of the FFT kernel that
C01/C02 assume of numpy (`Model/FftIndex.lean`: `Fft.dft`; `Model/FftIndex2.lean`: `Fft.dft2`), with the
kernels `kF M n = exp(-2πi n/M)`, `kB M n = exp(+2πi n/M)` (`Cfg.kerF`/`Cfg.kerB` at `T = expT`):

* `dftPair2 My Mx hMy hMx : FourierPair (Fin My × Fin Mx)` has `F = fftn` (`dftPair2_F_eq_dft2`:
  `F x (qy,qx) = Fft.dft2 My Mx (kF My) (kF Mx) (ext2 x) qy qx`), `Finv = ifftn` (`dftPair2_Finv_eq_dft2`:
  `1/(My·Mx)` times `Fft.dft2` with the inverse kernels) and `c = My·Mx` (`dftPair2_c`);
* `dftPair M hM : FourierPair (Fin M)` is the one-axis version (`F = fft`, `Finv = ifft`, `c = M`).

Inverse, adjoint relation and linearity are *proved* there (root-of-unity orthogonality
`Fft.char_sum_range` at `Complex.exp`), so the theorems below carry no hypothesis on the transform; the
internal grid is `μ = Fin My × Fin Mx` (index `(iy, ix)`), any `My, Mx > 0`, and `e : ι → Fin My × Fin Mx`
is the cut-out. -/

section dft
variable (My Mx : ℕ) (hMy : 0 < My) (hMx : 0 < Mx)

theorem filter_linear_dft (e : ι → Fin My × Fin Mx) (D : Fin My × Fin Mx → ℂ) (a b : ℂ) (x y : ι → ℂ) :
    filter (dftPair2 My Mx hMy hMx) e D (a • x + b • y)
      = a • filter (dftPair2 My Mx hMy hMx) e D x + b • filter (dftPair2 My Mx hMy hMx) e D y :=
  filter_linear _ e D a b x y

theorem filter_adjoint_dft (e : ι → Fin My × Fin Mx) (D : Fin My × Fin Mx → ℂ) (x y : ι → ℂ) :
    ip y (filter (dftPair2 My Mx hMy hMx) e D x) = ip (filterBackward (dftPair2 My Mx hMy hMx) e D y) x :=
  filter_adjoint _ e D x y

theorem filter_adjoint_weighted_dft (e : ι → Fin My × Fin Mx) (D : Fin My × Fin Mx → ℂ) (w : ℝ)
    (x y : ι → ℂ) :
    (w : ℂ) * ip y (filter (dftPair2 My Mx hMy hMx) e D x)
      = (w : ℂ) * ip (filterBackward (dftPair2 My Mx hMy hMx) e D y) x :=
  filter_adjoint_weighted _ e D w x y

theorem filterT_adjoint_dft (e : ι → Fin My × Fin Mx) (D : Fin My × Fin Mx → ℂ) (x y : τ → ι → ℂ) :
    ∑ t, ip (y t) (filterT (dftPair2 My Mx hMy hMx) e D x t)
      = ∑ t, ip (filterT (dftPair2 My Mx hMy hMx) e (fun m => conj (D m)) y t) (x t) :=
  filterT_adjoint _ e D x y

theorem power_nonincreasing_dft {e : ι → Fin My × Fin Mx} (he : Function.Injective e)
    {D : Fin My × Fin Mx → ℂ} (hD : ∀ m, ‖D m‖ ≤ 1) (x : ι → ℂ) :
    nsq (filter (dftPair2 My Mx hMy hMx) e D x) ≤ nsq x :=
  power_nonincreasing _ he hD x

theorem power_nonincreasing_tensor_dft {e : ι → Fin My × Fin Mx} (he : Function.Injective e)
    {D : Fin My × Fin Mx → ℂ} (hD : ∀ m, ‖D m‖ ≤ 1) (x : τ → ι → ℂ) :
    ∑ t, nsq (filterT (dftPair2 My Mx hMy hMx) e D x t) ≤ ∑ t, nsq (x t) :=
  power_nonincreasing_tensor _ he hD x

theorem fresnel_power_nonincreasing_dft {e : ι → Fin My × Fin Mx} (he : Function.Injective e)
    {σ : Type*} (S : Fin My × Fin Mx → Finset σ) (k z : ℝ) (kx ky : Fin My × Fin Mx → σ → ℝ)
    (x : ι → ℂ) :
    nsq (filter (dftPair2 My Mx hMy hMx) e
      (fun m => meanOver (S m) (fun s => fresnelD k z (kx m s) (ky m s))) x) ≤ nsq x :=
  fresnel_power_nonincreasing _ he S k z kx ky x

theorem angular_power_nonincreasing_dft {e : ι → Fin My × Fin Mx} (he : Function.Injective e)
    {σ : Type*} (S : Fin My × Fin Mx → Finset σ) (k z : ℝ) (κ2 : Fin My × Fin Mx → σ → ℝ) (x : ι → ℂ) :
    nsq (filter (dftPair2 My Mx hMy hMx) e
      (fun m => meanOver (S m) (fun s => angularD k z (κ2 m s))) x) ≤ nsq x :=
  angular_power_nonincreasing _ he S k z κ2 x

theorem fresnel_neg_z_forward_eq_backward_dft (e : ι → Fin My × Fin Mx) {σ : Type*}
    (S : Fin My × Fin Mx → Finset σ) (k z : ℝ) (kx ky : Fin My × Fin Mx → σ → ℝ) (x : ι → ℂ) :
    filter (dftPair2 My Mx hMy hMx) e
        (fun m => meanOver (S m) (fun s => fresnelD k (-z) (kx m s) (ky m s))) x
      = filterBackward (dftPair2 My Mx hMy hMx) e
        (fun m => meanOver (S m) (fun s => fresnelD k z (kx m s) (ky m s))) x :=
  fresnel_neg_z_forward_eq_backward _ e S k z kx ky x

theorem angular_neg_z_forward_eq_backward_dft (e : ι → Fin My × Fin Mx) {σ : Type*}
    (S : Fin My × Fin Mx → Finset σ) (k z : ℝ) (κ2 : Fin My × Fin Mx → σ → ℝ) (x : ι → ℂ) :
    filter (dftPair2 My Mx hMy hMx) e (fun m => meanOver (S m) (fun s => angularD k (-z) (κ2 m s))) x
      = filterBackward (dftPair2 My Mx hMy hMx) e
        (fun m => meanOver (S m) (fun s => angularD k z (κ2 m s))) x :=
  angular_neg_z_forward_eq_backward _ e S k z κ2 x

theorem filter_unitary_dft {e : ι → Fin My × Fin Mx} (he : Function.Bijective e)
    {D : Fin My × Fin Mx → ℂ} (hD : ∀ m, ‖D m‖ = 1) (x : ι → ℂ) :
    nsq (filter (dftPair2 My Mx hMy hMx) e D x) = nsq x :=
  filter_unitary _ he hD x

theorem filter_backward_inverse_dft {e : ι → Fin My × Fin Mx} (he : Function.Bijective e)
    {D : Fin My × Fin Mx → ℂ} (hD : ∀ m, ‖D m‖ = 1) (x : ι → ℂ) :
    filterBackward (dftPair2 My Mx hMy hMx) e D (filter (dftPair2 My Mx hMy hMx) e D x) = x :=
  filter_backward_inverse _ he hD x

theorem fresnel_unitary_dft {e : ι → Fin My × Fin Mx} (he : Function.Bijective e) (k z : ℝ)
    (kx ky : Fin My × Fin Mx → ℝ) (x : ι → ℂ) :
    nsq (filter (dftPair2 My Mx hMy hMx) e (fun m => fresnelD k z (kx m) (ky m)) x) = nsq x :=
  fresnel_unitary _ he k z kx ky x

theorem fresnel_backward_inverse_dft {e : ι → Fin My × Fin Mx} (he : Function.Bijective e) (k z : ℝ)
    (kx ky : Fin My × Fin Mx → ℝ) (x : ι → ℂ) :
    filterBackward (dftPair2 My Mx hMy hMx) e (fun m => fresnelD k z (kx m) (ky m))
      (filter (dftPair2 My Mx hMy hMx) e (fun m => fresnelD k z (kx m) (ky m)) x) = x :=
  fresnel_backward_inverse _ he k z kx ky x

theorem fresnel_additive_dft {e : ι → Fin My × Fin Mx} (he : Function.Bijective e) (k z₁ z₂ : ℝ)
    (kx ky : Fin My × Fin Mx → ℝ) (x : ι → ℂ) :
    filter (dftPair2 My Mx hMy hMx) e (fun m => fresnelD k z₂ (kx m) (ky m))
        (filter (dftPair2 My Mx hMy hMx) e (fun m => fresnelD k z₁ (kx m) (ky m)) x)
      = filter (dftPair2 My Mx hMy hMx) e (fun m => fresnelD k (z₁ + z₂) (kx m) (ky m)) x :=
  fresnel_additive _ he k z₁ z₂ kx ky x

/-- The unpadded 2-D case with the identity cut-out: `fftn`-based Fresnel propagation on the grid itself is
unitary (Parseval for `Fft.dft2`, through the filter). -/
theorem fresnel_unitary_dft_id (k z : ℝ) (kx ky : Fin My × Fin Mx → ℝ) (x : Fin My × Fin Mx → ℂ) :
    nsq (filter (dftPair2 My Mx hMy hMx) id (fun m => fresnelD k z (kx m) (ky m)) x) = nsq x :=
  fresnel_unitary _ Function.bijective_id k z kx ky x

end dft

theorem impulseBranch_of_same_sign (p : Params) (z₁ z₂ : ℚ) (hs : 0 ≤ z₁ * z₂) (hlam : 0 ≤ p.lam)
    (hL : 0 < lmax p)
    (h : impulseBranch { p with z := z₁ + z₂ } = false) :
    impulseBranch { p with z := z₁ } = false ∧ impulseBranch { p with z := z₂ } = false := by
  have key : ∀ z' : ℚ, |z'| ≤ |z₁ + z₂| → impulseBranch { p with z := z' } = false := by
    intro z' hz'
    have hthr : threshold { p with z := z' } ≤ threshold { p with z := z₁ + z₂ } := by
      unfold threshold
      simp only [ratAbs_eq_abs]
      have hl : lmax { p with z := z' } = lmax p := rfl
      have hl' : lmax { p with z := z₁ + z₂ } = lmax p := rfl
      rw [hl, hl']
      apply div_le_div_of_nonneg_right _ hL.le
      exact mul_le_mul_of_nonneg_left hz' hlam
    unfold impulseBranch at h ⊢
    simp only [Bool.or_eq_false_iff, decide_eq_false_iff_not, not_lt] at h ⊢
    exact ⟨hthr.trans h.1, hthr.trans h.2⟩
  have h1 : |z₁| ≤ |z₁ + z₂| := sq_le_sq.mp (by nlinarith [sq_nonneg z₂])
  have h2 : |z₂| ≤ |z₁ + z₂| := sq_le_sq.mp (by nlinarith [sq_nonneg z₁])
  exact ⟨key z₁ h1, key z₂ h2⟩


section exec
variable (p : Params) (h : padOK p = true)

/-- Bridge (ii): with `num_oversampling = 1` the sub-pixel mean has one term — the `meanOver` of the
`fresnel_*` theorems is the un-averaged `fresnelD` of `fresnel_unitary`. -/
theorem meanOver_one_subsample {σ : Type*} (s : σ) (f : σ → ℂ) : meanOver {s} f = f s :=
  meanOver_singleton s f

/-- Bridge (iv): in the regime the property names, the array the filter multiplies with is the sub-pixel mean of
the native transfer function over the executable sample points — and nothing else. -/
theorem regime_selects_sampled_transfer_function (hr : statedRegime p = true)
    (Dir : Fin (my p) × Fin (mx p) → ℂ) (m : Fin (my p) × Fin (mx p)) :
    modelD p Dir m = sampledTF p (ifftshiftIdx (my p) m.1) (ifftshiftIdx (mx p) m.2) :=
  modelD_of_tf (statedRegime_tf hr) Dir m

/-- … which for a Fresnel propagator without oversampling is the un-averaged `fresnelD` at the pixel's own
frequency `2πν`, `k = 2πn/λ` (the `D` of `fresnel_unitary` / `fresnel_additive`). -/
theorem regime_selects_fresnelD (hr : statedRegime p = true) (hk : p.kind = .fresnel) (hx : p.sx = 1)
    (hy : p.sy = 1) (Dir : Fin (my p) × Fin (mx p) → ℂ) (m : Fin (my p) × Fin (mx p)) :
    modelD p Dir m = fresnelD (waveK p) (p.z : ℝ)
      (2 * Real.pi * ((nu p.dx (mx p) (ifftshiftIdx (mx p) m.2) 0 : ℚ) : ℝ))
      (2 * Real.pi * ((nu p.dy (my p) (ifftshiftIdx (my p) m.1) 0 : ℚ) : ℝ)) := by
  rw [modelD_of_tf (statedRegime_tf hr), sampledTF_of_no_oversampling hx hy]
  unfold nativeAt
  rw [hk]
  rfl

/-- Under-sampled transfer function: the filter multiplies with the impulse-response transfer function. -/
theorem impulse_branch_selects_Dir (hb : impulseBranch p = true) (Dir : Fin (my p) × Fin (mx p) → ℂ) :
    modelD p Dir = Dir := modelD_of_ir hb Dir

/-- Every regime (either branch, any `Dir`): linear. -/
theorem propagate_linear (Dir : Fin (my p) × Fin (mx p) → ℂ) (a b : ℂ) (x y : Fin p.ny × Fin p.nx → ℂ) :
    propagate p h Dir (a • x + b • y) = a • propagate p h Dir x + b • propagate p h Dir y :=
  filter_linear _ _ _ a b x y

/-- Every regime: `backward` is the exact adjoint of `forward`. -/
theorem propagate_adjoint (Dir : Fin (my p) × Fin (mx p) → ℂ) (x y : Fin p.ny × Fin p.nx → ℂ) :
    ip y (propagate p h Dir x) = ip (propagateBack p h Dir y) x :=
  filter_adjoint _ _ _ x y

/-- Transfer-function branch (in particular the regime the property names, `statedRegime_tf`): power never
increases — Fresnel or (repaired) angular spectrum, any padding, any oversampling, either sign of `z`. -/
theorem propagate_power_nonincreasing (hb : impulseBranch p = false) (Dir : Fin (my p) × Fin (mx p) → ℂ)
    (x : Fin p.ny × Fin p.nx → ℂ) : nsq (propagate p h Dir x) ≤ nsq x :=
  power_nonincreasing _ (cutoutEmb_injective p h) (norm_modelD_le_one hb Dir) x

theorem propagate_power_nonincreasing_of_statedRegime (hr : statedRegime p = true)
    (Dir : Fin (my p) × Fin (mx p) → ℂ) (x : Fin p.ny × Fin p.nx → ℂ) :
    nsq (propagate p h Dir x) ≤ nsq x :=
  propagate_power_nonincreasing p h (statedRegime_tf hr) Dir x

/-- Transfer-function branch: the propagator built for `-z`, forward, is the propagator built for `+z`,
backward (both are on the same branch by `impulseBranch_symmetric_in_z`). -/
theorem propagate_neg_z_eq_backward (hb : impulseBranch p = false)
    (Dir Dir' : Fin (my p) × Fin (mx p) → ℂ) (x : Fin p.ny × Fin p.nx → ℂ) :
    propagate (withParam p (.distance (-p.z))) h Dir' x = propagateBack p h Dir x := by
  rw [propagate_withZ]
  show filter _ (cutoutEmb p h) (modelDz p (-p.z) Dir') x
    = filter _ (cutoutEmb p h) (fun m => conj (modelD p Dir m)) x
  congr 1
  funext m
  rw [modelDz_of_tf (by rw [impulseBranch_neg_z]; exact hb), modelD_of_tf hb]
  exact sampledTF_neg_z p _ _

/-- Fresnel, `zero_padding = 1` (`cutout p = none`), `num_oversampling = 1`, transfer-function branch: unitary. -/
theorem propagate_unitary (hk : p.kind = .fresnel) (hx : p.sx = 1) (hy : p.sy = 1) (hc : cutout p = none)
    (hb : impulseBranch p = false) (Dir : Fin (my p) × Fin (mx p) → ℂ) (x : Fin p.ny × Fin p.nx → ℂ) :
    nsq (propagate p h Dir x) = nsq x :=
  filter_unitary _ (cutoutEmb_bijective p h hc) (norm_modelD_fresnel_unpadded hk hx hy hb Dir) x

/-- … `backward` inverts `forward`. -/
theorem propagate_backward_inverse (hk : p.kind = .fresnel) (hx : p.sx = 1) (hy : p.sy = 1)
    (hc : cutout p = none) (hb : impulseBranch p = false) (Dir : Fin (my p) × Fin (mx p) → ℂ)
    (x : Fin p.ny × Fin p.nx → ℂ) :
    propagateBack p h Dir (propagate p h Dir x) = x :=
  filter_backward_inverse _ (cutoutEmb_bijective p h hc) (norm_modelD_fresnel_unpadded hk hx hy hb Dir) x

/-- … and the propagator built for `z₁` followed by the one built for `z₂` (same sign) is the one built for
`z₁ + z₂`, provided the *sum* is adequately sampled (then all three are on the transfer-function branch,
`same_sign_same_branch`). -/
theorem propagate_additive (hk : p.kind = .fresnel) (hx : p.sx = 1) (hy : p.sy = 1) (hc : cutout p = none)
    (z₁ z₂ : ℚ) (hs : 0 ≤ z₁ * z₂) (hlam : 0 ≤ p.lam) (hL : 0 < lmax p)
    (hb : impulseBranch (withParam p (.distance (z₁ + z₂))) = false)
    (Dir₁ Dir₂ Dir₁₂ : Fin (my p) × Fin (mx p) → ℂ) (x : Fin p.ny × Fin p.nx → ℂ) :
    propagate (withParam p (.distance z₂)) h Dir₂ (propagate (withParam p (.distance z₁)) h Dir₁ x)
      = propagate (withParam p (.distance (z₁ + z₂))) h Dir₁₂ x := by
  obtain ⟨hb1, hb2⟩ := impulseBranch_of_same_sign p z₁ z₂ hs hlam hL hb
  rw [propagate_withZ, propagate_withZ, propagate_withZ, filter_comp _ (cutoutEmb_bijective p h hc)]
  congr 1
  funext m
  rw [modelDz_of_tf hb1, modelDz_of_tf hb2, modelDz_of_tf hb, sampledTF_withZ_of_no_oversampling hx hy,
    sampledTF_withZ_of_no_oversampling hx hy, sampledTF_withZ_of_no_oversampling hx hy,
    nativeAt_withZ_fresnel hk, nativeAt_withZ_fresnel hk, nativeAt_withZ_fresnel hk]
  exact fresnelAt_mul p z₁ z₂ _

theorem exp_turns_frac (t : ℚ) :
    cexp (((2 * Real.pi * ((frac t : ℚ) : ℝ) : ℝ) : ℂ) * I) = cexp (((2 * Real.pi * ((t : ℚ) : ℝ) : ℝ) : ℂ) * I) := by
  unfold frac
  have h : (((2 * Real.pi * ((t - (t.floor : ℚ) : ℚ) : ℝ) : ℝ) : ℂ) * I)
      = ((2 * Real.pi * (t : ℝ) : ℝ) : ℂ) * I - (t.floor : ℂ) * (2 * Real.pi * I) := by
    push_cast; ring
  rw [h, Complex.exp_sub, Complex.exp_int_mul_two_pi_mul_I, div_one]

/-- Fresnel: `sampledTF` is the mean of `exp(2πi t)` over the phases `fresnelSubTurns` the driver prints. -/
theorem sampledTF_fresnel_eq_turns (p : Params) (hk : p.kind = .fresnel) (hn : p.n ≠ 0) (hl : p.lam ≠ 0)
    (iy ix : ℕ) :
    sampledTF p iy ix
      = listMean ((fresnelSubTurns p ix iy).map fun t => cexp (((2 * Real.pi * ((t : ℚ) : ℝ) : ℝ) : ℂ) * I)) := by
  unfold sampledTF fresnelSubTurns
  rw [List.map_map]
  congr 1
  apply List.map_congr_left
  rintro ⟨a, b⟩ _
  have hnat : nativeAt p = fresnelAt p := by unfold nativeAt; rw [hk]
  rw [hnat]
  simp only [Function.comp]
  rw [exp_turns_frac]
  exact fresnelD_eq_turns p a b hn hl

end exec

theorem filter_add_smul (P : FourierPair μ) (e : ι → μ) (D : μ → ℂ) (γ : ℂ) (u v : ι → ℂ) :
    filter P e D (u + γ • v) = filter P e D u + γ • filter P e D v := by
  have h := filter_linear P e D 1 γ u v
  simpa using h

/-- **Passivity in the Stokes-`I` form**: a Jones-matrix wavefront with a physical input Stokes vector
(`0 ≤ S0`, `S1² + S2² + S3² ≤ S0²`, i.e. degree of polarisation `≤ 1`) does not gain total power when every
component is filtered with `|D| ≤ 1` — although `I` mixes the components (`M13`, `M14` terms). -/
theorem stokes_power_nonincreasing (P : FourierPair μ) {e : ι → μ} (he : Function.Injective e) {D : μ → ℂ}
    (hD : ∀ m, ‖D m‖ ≤ 1) (w : ℝ) (hw : 0 ≤ w) (S : Fin 4 → ℝ) (hS0 : 0 ≤ S 0)
    (hphys : S 1 ^ 2 + S 2 ^ 2 + S 3 ^ 2 ≤ S 0 ^ 2) (E : Fin 2 × Fin 2 → ι → ℂ) :
    stokesPower w S (filterT P e D E) ≤ stokesPower w S E :=
  stokesPower_contraction w hw S hS0 hphys (filter P e D) (filter_add_smul P e D)
    (power_nonincreasing P he hD) E

/-- The same with the hypothesis written as `S0 ≥ √(S1² + S2² + S3²)`. -/
theorem stokes_power_nonincreasing_sqrt (P : FourierPair μ) {e : ι → μ} (he : Function.Injective e) {D : μ → ℂ}
    (hD : ∀ m, ‖D m‖ ≤ 1) (w : ℝ) (hw : 0 ≤ w) (S : Fin 4 → ℝ)
    (hS : Real.sqrt (S 1 ^ 2 + S 2 ^ 2 + S 3 ^ 2) ≤ S 0) (E : Fin 2 × Fin 2 → ι → ℂ) :
    stokesPower w S (filterT P e D E) ≤ stokesPower w S E := by
  have h0 : 0 ≤ S 0 := le_trans (Real.sqrt_nonneg _) hS
  have h1 : S 1 ^ 2 + S 2 ^ 2 + S 3 ^ 2 ≤ S 0 ^ 2 := by
    exact (Real.sqrt_le_left h0).mp hS
  exact stokes_power_nonincreasing P he hD w hw S h0 h1 E

/-- On the propagator the code builds (transfer-function branch; Fresnel or repaired angular spectrum). -/
theorem propagate_stokes_power_nonincreasing (p : Params) (h : padOK p = true) (hb : impulseBranch p = false)
    (Dir : Fin (my p) × Fin (mx p) → ℂ) (w : ℝ) (hw : 0 ≤ w) (S : Fin 4 → ℝ) (hS0 : 0 ≤ S 0)
    (hphys : S 1 ^ 2 + S 2 ^ 2 + S 3 ^ 2 ≤ S 0 ^ 2) (E : Fin 2 × Fin 2 → Fin p.ny × Fin p.nx → ℂ) :
    stokesPower w S (fun t => propagate p h Dir (E t)) ≤ stokesPower w S E :=
  stokes_power_nonincreasing _ (cutoutEmb_injective p h) (norm_modelD_le_one hb Dir) w hw S hS0 hphys E

/-- **Matrix-valued transfer function**: `backward` (conjugate transpose at every sample) is the exact adjoint
of `forward`, for every family of matrices, every padding — vector fields of any length `n`. -/
theorem filterM_adjoint {n : ℕ} (P : FourierPair μ) (e : ι → μ) (D : μ → Fin n → Fin n → ℂ)
    (x y : Fin n → ι → ℂ) :
    ∑ t, ip (y t) (filterM P e D x t) = ∑ t, ip (filterMBackward P e D y t) (x t) :=
  filterM_adjoint_sum P e D x y

/-- Jones-matrix fields (`field_dot(D, E)` is a matrix product at every sample): column by column. -/
theorem filterM_adjoint_matrix_field {n k : ℕ} (P : FourierPair μ) (e : ι → μ) (D : μ → Fin n → Fin n → ℂ)
    (x y : Fin n → Fin k → ι → ℂ) :
    ∑ l, ∑ t, ip (y t l) (filterM P e D (fun j => x j l) t)
      = ∑ l, ∑ t, ip (filterMBackward P e D (fun j => y j l) t) (x t l) :=
  Finset.sum_congr rfl fun l _ => filterM_adjoint_sum P e D (fun j => x j l) (fun j => y j l)

/-- A scalar transfer function is the special case `D m = d m · 1`. -/
theorem filterM_of_scalar {n : ℕ} (P : FourierPair μ) (e : ι → μ) (d : μ → ℂ) (x : Fin n → ι → ℂ) (t : Fin n) :
    filterM P e (fun m i j => if i = j then d m else 0) x t = filter P e d (x t) :=
  filterM_scalar P e d x t

/-- Hypothesis-free, with the executable cut-out: the real `FourierFilter(grid, tensor tf, q)` on the internal
grid `my p × mx p` of the model. -/
theorem filterM_adjoint_exec {n : ℕ} (p : Params) (h : padOK p = true)
    (D : Fin (my p) × Fin (mx p) → Fin n → Fin n → ℂ) (x y : Fin n → Fin p.ny × Fin p.nx → ℂ) :
    ∑ t, ip (y t) (filterM (dftPair2 (my p) (mx p) (my_pos h) (mx_pos h)) (cutoutEmb p h) D x t)
      = ∑ t, ip (filterMBackward (dftPair2 (my p) (mx p) (my_pos h) (mx_pos h)) (cutoutEmb p h) D y t) (x t) :=
  filterM_adjoint_sum _ _ D x y

section pipeline
variable (p : Params) (h : padOK p = true)
include h

local notation "runF" => filterP p (kF (my p)) (kF (mx p)) (kB (my p)) (kB (mx p)) (((my p * mx p : ℕ) : ℂ)⁻¹)
local notation "runB" => filterPBackward (starRingEnd ℂ) p (kF (my p)) (kF (mx p)) (kB (my p)) (kB (mx p))
  (((my p * mx p : ℕ) : ℂ)⁻¹)

/-- **Bridge**: the abstract `FourierFilter` operator with the DFT of C01/C02 and the executable cut-out is the
executable pipeline. -/
theorem filter_dft2_eq_filterP (D : Fin (my p) × Fin (mx p) → ℂ) (x : Fin p.ny × Fin p.nx → ℂ) :
    filter (dftPair2 (my p) (mx p) (my_pos h) (mx_pos h)) (cutoutEmb p h) D x
      = fun j => runF (ext2 D) (ext2 x) (j.1 : ℕ) (j.2 : ℕ) :=
  funext fun j => filter_dft2_apply p h D x j

/-- **Bridge**, `backward`: the pipeline with the conjugated transfer function. -/
theorem filterBackward_dft2_eq_filterPBackward (D : Fin (my p) × Fin (mx p) → ℂ) (x : Fin p.ny × Fin p.nx → ℂ) :
    filterBackward (dftPair2 (my p) (mx p) (my_pos h) (mx_pos h)) (cutoutEmb p h) D x
      = fun j => runB (ext2 D) (ext2 x) (j.1 : ℕ) (j.2 : ℕ) :=
  funext fun j => filterBackward_dft2_apply p h D x j

/-- The propagators are the executed pipeline with the transfer function `make_instance` selects. -/
theorem propagate_eq_filterP (Dir : Fin (my p) × Fin (mx p) → ℂ) (x : Fin p.ny × Fin p.nx → ℂ) :
    propagate p h Dir x = fun j => runF (ext2 (modelD p Dir)) (ext2 x) (j.1 : ℕ) (j.2 : ℕ) :=
  filter_dft2_eq_filterP p h _ x

theorem propagateBack_eq_filterPBackward (Dir : Fin (my p) × Fin (mx p) → ℂ) (x : Fin p.ny × Fin p.nx → ℂ) :
    propagateBack p h Dir x = fun j => runB (ext2 (modelD p Dir)) (ext2 x) (j.1 : ℕ) (j.2 : ℕ) :=
  filterBackward_dft2_eq_filterPBackward p h _ x

end pipeline

/-- On the transfer-function branch that array is the executable `shiftD` (= `np.fft.ifftshift`, what the driver
applies to the centred transfer function it is given) of the sampled transfer function. -/
theorem transfer_function_is_ifftshifted {p : Params} (hb : impulseBranch p = false)
    (Dir : Fin (my p) × Fin (mx p) → ℂ) (m : Fin (my p) × Fin (mx p)) :
    modelD p Dir m = shiftD (my p) (mx p) (sampledTF p) (m.1 : ℕ) (m.2 : ℕ) := modelD_eq_shiftD hb Dir m

section pipelineM
variable (p : Params) (h : padOK p = true) {n : ℕ}
include h

local notation "runMF" => filterMP p (kF (my p)) (kF (mx p)) (kB (my p)) (kB (mx p)) (((my p * mx p : ℕ) : ℂ)⁻¹)
local notation "runMB" => filterMPBackward (starRingEnd ℂ) p (kF (my p)) (kF (mx p)) (kB (my p)) (kB (mx p))
  (((my p * mx p : ℕ) : ℂ)⁻¹)

/-- **Bridge**: `filterM` with the DFT of C01/C02 and the executable cut-out is the executable pipeline `filterMP`. -/
theorem filterM_dft2_eq_filterMP (D : Fin (my p) × Fin (mx p) → Fin n → Fin n → ℂ)
    (x : Fin n → Fin p.ny × Fin p.nx → ℂ) :
    filterM (dftPair2 (my p) (mx p) (my_pos h) (mx_pos h)) (cutoutEmb p h) D x
      = fun t j => runMF (fun py px i k => ext2 (fun m => D m i k) py px) (fun k => ext2 (x k)) t (j.1 : ℕ) (j.2 : ℕ) :=
  funext fun t => funext fun j => filterM_dft2_apply p h D x t j

theorem filterMBackward_dft2_eq_filterMPBackward (D : Fin (my p) × Fin (mx p) → Fin n → Fin n → ℂ)
    (x : Fin n → Fin p.ny × Fin p.nx → ℂ) :
    filterMBackward (dftPair2 (my p) (mx p) (my_pos h) (mx_pos h)) (cutoutEmb p h) D x
      = fun t j => runMB (fun py px i k => ext2 (fun m => D m i k) py px) (fun k => ext2 (x k)) t (j.1 : ℕ) (j.2 : ℕ) :=
  funext fun t => funext fun j => filterMBackward_dft2_apply p h D x t j

end pipelineM

section dft1
variable (M : ℕ) (hM : 0 < M)

theorem filter_linear_dft1 (e : ι → Fin M) (D : Fin M → ℂ) (a b : ℂ) (x y : ι → ℂ) :
    filter (dftPair M hM) e D (a • x + b • y)
      = a • filter (dftPair M hM) e D x + b • filter (dftPair M hM) e D y :=
  filter_linear _ e D a b x y

theorem filter_adjoint_dft1 (e : ι → Fin M) (D : Fin M → ℂ) (x y : ι → ℂ) :
    ip y (filter (dftPair M hM) e D x) = ip (filterBackward (dftPair M hM) e D y) x :=
  filter_adjoint _ e D x y

theorem power_nonincreasing_dft1 {e : ι → Fin M} (he : Function.Injective e) {D : Fin M → ℂ}
    (hD : ∀ m, ‖D m‖ ≤ 1) (x : ι → ℂ) : nsq (filter (dftPair M hM) e D x) ≤ nsq x :=
  power_nonincreasing _ he hD x

theorem filter_unitary_dft1 {e : ι → Fin M} (he : Function.Bijective e) {D : Fin M → ℂ}
    (hD : ∀ m, ‖D m‖ = 1) (x : ι → ℂ) : nsq (filter (dftPair M hM) e D x) = nsq x :=
  filter_unitary _ he hD x

theorem filter_backward_inverse_dft1 {e : ι → Fin M} (he : Function.Bijective e) {D : Fin M → ℂ}
    (hD : ∀ m, ‖D m‖ = 1) (x : ι → ℂ) :
    filterBackward (dftPair M hM) e D (filter (dftPair M hM) e D x) = x :=
  filter_backward_inverse _ he hD x

end dft1

end HcipyVerif.NearField
