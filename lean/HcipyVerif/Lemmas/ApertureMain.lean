import HcipyVerif.Lemmas.Aperture
import HcipyVerif.Lemmas.ApertureList

/-!
# C12 — the separated code path of every shape equals the point semantics

`evalSep_eq_val` by structural induction over `Shape`, assembling the per-maker fast-path lemmas of
`Lemmas/Aperture.lean` and the list lemmas of `Lemmas/ApertureList.lean`.
-/
set_option linter.unusedSimpArgs false
set_option linter.unusedVariables false

namespace HcipyVerif.Aperture

/-- every regular polygon occurring in the shape has a non-negative circum-radius
(needed for `x² ≤ R² ↔ |x| ≤ R`, i.e. for the two spellings of the bounding box to agree) -/
def WF : Shape → Prop
  | .regpoly _ r _ _ _ _ => 0 ≤ r
  | .compl a => WF a
  | .mul a b => WF a ∧ WF b
  | .sub a b => WF a ∧ WF b
  | .rot _ _ a => WF a
  | .shift _ _ a => WF a
  | .seg _ a => WF a
  | _ => True

theorem sepPoints_map_shift (dx dy : Rat) (xs ys : List Rat) :
    sepPoints (xs.map (· - dx)) (ys.map (· - dy)) = (sepPoints xs ys).map (shiftPt dx dy) := by
  simp [sepPoints, List.map_flatMap, List.flatMap_map, shiftPt, Function.comp_def]

theorem zipWith_map_same {α β γ δ : Type} (k : β → γ → δ) (f : α → β) (g : α → γ) (l : List α) :
    List.zipWith k (l.map f) (l.map g) = l.map fun x => k (f x) (g x) := by
  induction l with
  | nil => simp
  | cons x l ih => simp [ih]

theorem b2r_ne_zero (b : Bool) : decide (b2r b ≠ 0) = b := by
  cases b <;> simp [b2r]

theorem evalSep_eq_val : ∀ (s : Shape) (xs ys : List Rat), WF s →
    evalSep s xs ys = (sepPoints xs ys).map (val s) := by
  intro s
  induction s with
  | circle r cx cy => intro xs ys _; rw [evalSep]; exact circleFast_eq r cx cy xs ys
  | disk r => intro xs ys _; rw [evalSep]; exact circleFast_eq r 0 0 xs ys
  | halfplane gt a b c => intro xs ys _; rw [evalSep]; exact halfFast_eq gt a b c xs ys
  | ellipse cM sM cm sm cx cy mn => intro xs ys _; rw [evalSep]; exact ellipseFast_eq cM sM cm sm cx cy mn xs ys
  | rect hx hy cx cy => intro xs ys _; rw [evalSep]; exact rectFast_eq hx hy cx cy xs ys
  | regpoly even r a dirs cx cy =>
    intro xs ys h; rw [evalSep]; exact regpolyFast_eq h even a dirs cx cy xs ys
  | irrpoly vs hx hy bx by_ =>
    intro xs ys _
    rw [evalSep]
    have hm : (rectFast hx hy bx by_ xs ys).map (fun v => decide (v ≠ 0))
        = (sepPoints xs ys).map fun p => inRect hx hy bx by_ p := by
      rw [rectFast_eq, List.map_map]
      apply List.map_congr_left
      intro p _
      simp only [Function.comp_def, val]
      exact b2r_ne_zero _
    show scatter ((rectFast hx hy bx by_ xs ys).map (fun v => decide (v ≠ 0)))
      ((sepPoints xs ys).map fun _ => 0)
      ((compress ((rectFast hx hy bx by_ xs ys).map (fun v => decide (v ≠ 0))) (sepPoints xs ys)).map
        fun p => b2r (containsPt vs p)) = _
    rw [hm, scatter_mask_eq_map]
    apply List.map_congr_left
    intro p _
    cases h : inRect hx hy bx by_ p <;> simp [val, h, b2r]
  | spider sx sy c s hl hw => intro xs ys _; rw [evalSep]; exact spiderFast_eq sx sy c s hl hw xs ys
  | spiderInf px py c s hw => intro xs ys _; rw [evalSep]; exact spiderInfFast_eq px py c s hw xs ys
  | const v => intro xs ys _; rw [evalSep]; simp [val]
  | compl a ih => intro xs ys h; rw [evalSep, ih xs ys h]; simp [val]
  | mul a b iha ihb =>
    intro xs ys h; rw [evalSep, iha xs ys h.1, ihb xs ys h.2, zipWith_map_same]; simp [val]
  | sub a b iha ihb =>
    intro xs ys h; rw [evalSep, iha xs ys h.1, ihb xs ys h.2, zipWith_map_same]; simp [val]
  | rot c s a ih =>
    intro xs ys _; rw [evalSep, evalPts_eq_val, List.map_map]; simp [val, Function.comp_def]
  | shift dx dy a ih =>
    intro xs ys h
    rw [evalSep, ih _ _ h, sepPoints_map_shift, List.map_map]; simp [val, Function.comp_def]
  | seg segs a ih =>
    intro xs ys h
    have generic : (∀ (even : Bool) (r a_1 : Rat) (dirs : List (Rat × Rat)) (cx cy : Rat),
        a = Shape.regpoly even r a_1 dirs cx cy → False) →
        evalSep (.seg segs a) xs ys = (sepPoints xs ys).map (val (.seg segs a)) := by
      intro hne
      rw [evalSep.eq_17 _ _ _ _ hne]
      rw [segFold_map_foldl (sepPoints xs ys) segs _ (val a)]
      · simp [val]
      · intro res s
        rw [ih _ _ h, sepPoints_map_shift, List.map_map, List.map_map, setMask_map]
        simp [Function.comp_def]
    cases a with
    | regpoly even r a dirs cx cy =>
      rw [evalSep]
      exact segFast_eq h even a dirs cx cy xs ys segs
    | circle => exact generic (by intros; simp_all)
    | disk => exact generic (by intros; simp_all)
    | halfplane => exact generic (by intros; simp_all)
    | ellipse => exact generic (by intros; simp_all)
    | rect => exact generic (by intros; simp_all)
    | irrpoly => exact generic (by intros; simp_all)
    | spider => exact generic (by intros; simp_all)
    | spiderInf => exact generic (by intros; simp_all)
    | const => exact generic (by intros; simp_all)
    | compl => exact generic (by intros; simp_all)
    | mul => exact generic (by intros; simp_all)
    | sub => exact generic (by intros; simp_all)
    | rot => exact generic (by intros; simp_all)
    | shift => exact generic (by intros; simp_all)
    | seg => exact generic (by intros; simp_all)

/-- both code paths give the same field on the same points -/
theorem evalSep_eq_evalPts (s : Shape) (xs ys : List Rat) (h : WF s) :
    evalSep s xs ys = evalPts s (sepPoints xs ys) := by
  rw [evalSep_eq_val s xs ys h, evalPts_eq_val]

theorem binary_seg_unit_transmissions {segs : List (Pt × Rat)} {a : Shape} {p : Pt}
    (h : ∀ s ∈ segs, 0 ≤ s.2 ∧ s.2 ≤ 1) :
    0 ≤ val (.seg segs a) p ∧ val (.seg segs a) p ≤ 1 :=
  seg_val_in_unit_interval h

theorem evalSep_length (s : Shape) (xs ys : List Rat) (h : WF s) :
    (evalSep s xs ys).length = xs.length * ys.length := by
  rw [evalSep_eq_val s xs ys h, List.length_map, sepPoints_length, Nat.mul_comm]

theorem deltas_length {x d : List Rat} (h : deltas x = some d) : d.length = x.length := by
  match x, h with
  | x0 :: x1 :: rest, h =>
    simp only [deltas, Option.some.injEq] at h
    subst h
    simp
    omega

theorem ditherGrids_lengths {nx ny : Nat} {xs ys : List Rat} {gs : List (List Rat × List Rat)}
    (h : ditherGrids nx ny xs ys = some gs) :
    ∀ g ∈ gs, g.1.length = xs.length ∧ g.2.length = ys.length := by
  unfold ditherGrids at h
  match hx : deltas xs, hy : deltas ys, h with
  | some dx, some dy, h =>
    simp only [hx, hy, Option.some.injEq] at h
    subst h
    intro g hg
    simp only [List.mem_flatMap, List.mem_map] at hg
    obtain ⟨ey, _, ex, _, rfl⟩ := hg
    simp [deltas_length hx, deltas_length hy]

theorem deltas_isSome_iff (x : List Rat) : (deltas x).isSome = true ↔ 2 ≤ x.length := by
  match x with
  | [] => simp [deltas]
  | [_] => simp [deltas]
  | _ :: _ :: _ => simp [deltas]

theorem dithers_length (n : Nat) : (dithers n).length = n := by simp [dithers]

theorem ditherGrids_isSome_iff (nx ny : Nat) (xs ys : List Rat) :
    (ditherGrids nx ny xs ys).isSome = true ↔ 2 ≤ xs.length ∧ 2 ≤ ys.length := by
  rw [← deltas_isSome_iff, ← deltas_isSome_iff]
  unfold ditherGrids
  cases deltas xs <;> cases deltas ys <;> simp

theorem ditherGrids_length {nx ny : Nat} {xs ys : List Rat} {gs : List (List Rat × List Rat)}
    (h : ditherGrids nx ny xs ys = some gs) : gs.length = ny * nx := by
  unfold ditherGrids at h
  match hx : deltas xs, hy : deltas ys, h with
  | some dx, some dy, h =>
    simp only [hx, hy, Option.some.injEq] at h
    subst h
    rw [flatMap_length_of_length _ _ nx (by intro ey _; simp [dithers_length]), dithers_length]

/-- what a successful `evaluate_supersampled` is made of -/
theorem supersampled_ok {s : Shape} {nx ny : Nat} {xs ys f : List Rat}
    (h : supersampled s nx ny xs ys = .ok f) :
    ∃ gs, ditherGrids nx ny xs ys = some gs ∧ 1 ≤ nx ∧ 1 ≤ ny ∧
      f = meanFields (xs.length * ys.length) (gs.map fun g => evalSep s g.1 g.2) := by
  unfold supersampled at h
  split at h
  · cases h
  · rename_i gs hg
    split at h
    · cases h
    · rename_i hn
      injection h with h
      exact ⟨gs, hg, by omega, by omega, h.symm⟩

/-- **when `evaluate_supersampled` is defined**: every axis has at least two points and both
oversampling factors are at least 1 -/
theorem supersampled_isOk_iff (s : Shape) (nx ny : Nat) (xs ys : List Rat) :
    (∃ f, supersampled s nx ny xs ys = .ok f) ↔
      (2 ≤ xs.length ∧ 2 ≤ ys.length ∧ 1 ≤ nx ∧ 1 ≤ ny) := by
  constructor
  · rintro ⟨f, h⟩
    obtain ⟨gs, hg, h1, h2, _⟩ := supersampled_ok h
    have := (ditherGrids_isSome_iff nx ny xs ys).mp (by simp [hg])
    exact ⟨this.1, this.2, h1, h2⟩
  · rintro ⟨hx, hy, h1, h2⟩
    have := (ditherGrids_isSome_iff nx ny xs ys).mpr ⟨hx, hy⟩
    obtain ⟨gs, hg⟩ := Option.isSome_iff_exists.mp this
    refine ⟨meanFields (xs.length * ys.length) (gs.map fun g => evalSep s g.1 g.2), ?_⟩
    unfold supersampled
    rw [hg]
    simp only
    rw [if_neg (by omega)]

/-- … and which error it raises otherwise: IndexError (a one-point axis) takes precedence over
ZeroDivisionError (an oversampling factor 0) -/
theorem supersampled_error_iff (s : Shape) (nx ny : Nat) (xs ys : List Rat) :
    (supersampled s nx ny xs ys = .error .index ↔ (xs.length < 2 ∨ ys.length < 2)) ∧
    (supersampled s nx ny xs ys = .error .zeroDiv ↔
      (2 ≤ xs.length ∧ 2 ≤ ys.length ∧ (nx = 0 ∨ ny = 0))) := by
  have hiff := ditherGrids_isSome_iff nx ny xs ys
  unfold supersampled
  cases hg : ditherGrids nx ny xs ys with
  | none =>
    rw [hg] at hiff
    simp only [Option.isSome_none, Bool.false_eq_true, false_iff, not_and, not_le] at hiff
    constructor
    · simp only [true_iff]
      by_cases hx : 2 ≤ xs.length
      · exact Or.inr (hiff hx)
      · exact Or.inl (by omega)
    · constructor
      · intro h; cases h
      · rintro ⟨hx, hy, _⟩
        have := hiff hx
        omega
  | some gs =>
    rw [hg] at hiff
    simp only [Option.isSome_some, true_iff] at hiff
    constructor
    · by_cases hn : nx = 0 ∨ ny = 0
      · simp only [if_pos hn, reduceCtorEq, Except.error.injEq, false_iff]; omega
      · simp only [if_neg hn, reduceCtorEq, false_iff]; omega
    · by_cases hn : nx = 0 ∨ ny = 0
      · simp only [if_pos hn, true_iff]; exact ⟨hiff.1, hiff.2, hn⟩
      · simp only [if_neg hn, reduceCtorEq, false_iff]; tauto

/-- **supersampled binary apertures stay in [0,1]** (`evaluate_supersampled`, statistic 'mean') -/
theorem supersampled_mem_unit {s : Shape} (hb : Binary s) (hw : WF s) {nx ny : Nat} {xs ys f : List Rat}
    (h : supersampled s nx ny xs ys = .ok f) : ∀ v ∈ f, 0 ≤ v ∧ v ≤ 1 := by
  obtain ⟨gs, hg, h1, h2, rfl⟩ := supersampled_ok h
  have hlen := ditherGrids_length hg
  apply meanFields_mem_unit
  · intro he
    have : gs = [] := by simpa using he
    rw [this] at hlen
    have : 0 < ny * nx := Nat.mul_pos h2 h1
    simp at hlen
    omega
  · intro fl hfl
    simp only [List.mem_map] at hfl
    obtain ⟨g, hgm, rfl⟩ := hfl
    have := ditherGrids_lengths hg g hgm
    rw [evalSep_length s _ _ hw, this.1, this.2]
  · intro fl hfl v hv
    simp only [List.mem_map] at hfl
    obtain ⟨g, hgm, rfl⟩ := hfl
    rw [evalSep_eq_val s _ _ hw] at hv
    simp only [List.mem_map] at hv
    obtain ⟨p, _, rfl⟩ := hv
    exact values_in_unit_interval hb p

theorem supersampled_length {s : Shape} (hw : WF s) {nx ny : Nat} {xs ys f : List Rat}
    (h : supersampled s nx ny xs ys = .ok f) : f.length = xs.length * ys.length := by
  obtain ⟨gs, hg, _, _, rfl⟩ := supersampled_ok h
  apply meanFields_length
  intro fl hfl
  simp only [List.mem_map] at hfl
  obtain ⟨g, hgm, rfl⟩ := hfl
  have := ditherGrids_lengths hg g hgm
  rw [evalSep_length s _ _ hw, this.1, this.2]

/-- a later segment overwrites the earlier ones exactly where it covers the point -/
theorem seg_snoc (segs : List (Pt × Rat)) (s : Pt × Rat) (a : Shape) (p : Pt) :
    val (.seg (segs ++ [s]) a) p =
      if val a (shiftPt s.1.1 s.1.2 p) > 1/2 then s.2 else val (.seg segs a) p := by
  simp [val, segFold, List.foldl_append]

end HcipyVerif.Aperture
