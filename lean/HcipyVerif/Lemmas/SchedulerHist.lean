import HcipyVerif.Lemmas.SchedulerCount
import HcipyVerif.Lemmas.SchedulerTile
import Mathlib.Data.List.Induction

/-! Helper lemmas for C20, histories of interface calls (`add_callback` / `evolve_until`). -/
set_option linter.unusedSimpArgs false
set_option linter.unusedVariables false

namespace HcipyVerif.Scheduler

theorem loop_status (kids : Entry → List (Rat × Nat)) (T : Rat) (fuel : Nat) (s : Sys) :
    (loop kids T fuel s).status = .ok ∨ (loop kids T fuel s).status = .outOfFuel := by
  induction fuel generalizing s with
  | zero => right; rfl
  | succ fuel ih =>
    match hq : s.queue with
    | [] => rw [loop_stop (Or.inl hq)]; left; rfl
    | e :: rest =>
      by_cases ht : e.time < T
      · rw [loop_cons_status hq ht]; exact ih _
      · rw [loop_stop (Or.inr ⟨e, rest, hq, ht⟩)]; left; rfl

theorem mem_fired {tr : List Event} {e : Entry} : e ∈ fired tr ↔ ∃ clk, Event.fire e clk ∈ tr := by
  induction tr with
  | nil => simp [fired]
  | cons x xs ih =>
    cases x with
    | integrate dt => simp [fired, ih]
    | fire e' clk' =>
      simp only [fired, List.mem_cons, ih, Event.fire.injEq]
      constructor
      · rintro (rfl | ⟨clk, h⟩)
        · exact ⟨clk', Or.inl ⟨rfl, rfl⟩⟩
        · exact ⟨clk, Or.inr h⟩
      · rintro ⟨clk, (⟨rfl, rfl⟩ | h)⟩
        · exact Or.inl rfl
        · exact Or.inr ⟨clk, h⟩

/-- nothing is due and the remaining stretch is below the threshold: the evolution does nothing -/
theorem loop_idle (kids : Entry → List (Rat × Nat)) (T : Rat) (fuel : Nat) (s : Sys)
    (hq : ∀ q ∈ s.queue, T ≤ q.time) (ht : T - s.t ≤ eps) :
    loop kids T (fuel + 1) s = ⟨.ok, s, []⟩ := by
  have hadv : advance s (T - s.t) = (s, []) := by
    unfold advance; rw [if_neg (not_lt.mpr ht)]
  match hs : s.queue with
  | [] => rw [loop_stop (Or.inl hs), hadv]
  | e :: rest =>
    have : ¬ e.time < T := not_lt.mpr (hq e (by simp [hs]))
    rw [loop_stop (Or.inr ⟨e, rest, hs, this⟩), hadv]

/-- the invariant survives the loop whatever its status (even when the fuel runs out) -/
theorem loop_inv {kids : Entry → List (Rat × Nat)} (hk : WF kids) (T : Rat) (fuel : Nat) (s : Sys)
    (hi : Inv s) (hT : s.t ≤ T) : Inv (loop kids T fuel s).s := by
  induction fuel generalizing s with
  | zero => exact hi
  | succ fuel ih =>
    match hq : s.queue with
    | [] =>
      rw [loop_stop (Or.inl hq)]
      refine ⟨?_, ?_, ?_⟩ <;> simp [advance_queue, hq, Sorted]
    | e :: rest =>
      by_cases ht : e.time < T
      · rw [loop_cons_s hq ht]
        obtain ⟨hi', h1, -⟩ := next_inv hk hi hq
        exact ih _ hi' (le_trans h1 (le_of_lt ht))
      · rw [loop_stop (Or.inr ⟨e, rest, hq, ht⟩)]
        have hl := advance_lag s T hT
        refine ⟨?_, ?_, ?_⟩
        · rw [advance_queue]; exact hi.sorted
        · rw [advance_queue, advance_ctr]; exact hi.ctr
        · rw [advance_queue]; intro q hq'
          have hs := hi.sorted; rw [hq] at hs
          unfold Sorted at hs; rw [List.pairwise_cons] at hs
          rw [hq] at hq'
          have : e.time ≤ q.time := by
            rcases List.mem_cons.mp hq' with rfl | h
            · exact le_refl _
            · exact Entry.time_le_of_lt (hs.1 q h)
          push Not at ht
          exact le_trans hl.1 (le_trans ht this)

theorem spawned_ctr_lt {kids : Entry → List (Rat × Nat)} {c : Nat} {l : List Entry} {q : Entry}
    (h : q ∈ spawned kids c l) : q.ctr < c + nKids kids l := by
  have : q.ctr ∈ (spawned kids c l).map (·.ctr) := List.mem_map.mpr ⟨q, h, rfl⟩
  rw [spawned_ctr] at this
  have := List.mem_range'_1.mp this
  omega

/-- every executed entry carries a counter below the final counter (given that the queued ones do) -/
theorem fired_ctr_lt (kids : Entry → List (Rat × Nat)) (T : Rat) (fuel : Nat) (s : Sys)
    (hc : ∀ q ∈ s.queue, q.ctr < s.ctr) :
    ∀ f ∈ fired (loop kids T fuel s).trace, f.ctr < (loop kids T fuel s).s.ctr := by
  intro f hf
  have hp := (loop_perm kids T fuel s).subset (List.mem_append_left _ hf)
  rw [loop_ctr]
  rcases List.mem_append.mp hp with h | h
  · have := hc f h; omega
  · exact spawned_ctr_lt h

/-! ### one interface call -/

theorem runOps_nil (kids : Entry → List (Rat × Nat)) (fuel : Nat) (h : Hist) :
    runOps kids fuel h [] = h := rfl

theorem runOps_snoc (kids : Entry → List (Rat × Nat)) (fuel : Nat) (h : Hist) (ops : List Op) (op : Op) :
    runOps kids fuel h (ops ++ [op]) = stepOp kids fuel (runOps kids fuel h ops) op := by
  simp [runOps, List.foldl_append]

theorem runOps_append (kids : Entry → List (Rat × Nat)) (fuel : Nat) (h : Hist) (a b : List Op) :
    runOps kids fuel h (a ++ b) = runOps kids fuel (runOps kids fuel h a) b := by
  simp [runOps, List.foldl_append]

/-- **A refused (backwards) `evolve_until` changes nothing.** -/
theorem stepOp_backwards (kids : Entry → List (Rat × Nat)) (fuel : Nat) (h : Hist) (T : Rat)
    (hT : T < h.s.t) : stepOp kids fuel h (.evolve T) = h := by
  simp [stepOp, evolveUntil, hT, fired, spawned]

theorem stepOp_forward (kids : Entry → List (Rat × Nat)) (fuel : Nat) (h : Hist) (T : Rat)
    (hT : ¬ T < h.s.t) : stepOp kids fuel h (.evolve T) =
      { s := (loop kids T fuel h.s).s, hz := if h.hz < T then T else h.hz,
        trace := h.trace ++ (loop kids T fuel h.s).trace,
        created := h.created ++ spawned kids h.s.ctr (fired (loop kids T fuel h.s).trace) } := by
  have : (loop kids T fuel h.s).status ≠ .backwards := by
    rcases loop_status kids T fuel h.s with h' | h' <;> rw [h'] <;> decide
  simp [stepOp, evolveUntil, hT, this]

theorem stepOp_add (kids : Entry → List (Rat × Nat)) (fuel : Nat) (h : Hist) (t : Rat) (id : Nat) :
    stepOp kids fuel h (.add t id) =
      { h with s := addCallback h.s t id, created := h.created ++ [⟨t, h.s.ctr, id⟩] } := rfl

/-! ### the hypothesis-free history invariant: conservation, counters, tiling -/

structure HCons (h : Hist) : Prop where
  /-- executed + pending is a rearrangement of everything ever created -/
  perm : (fired h.trace ++ h.s.queue).Perm h.created
  /-- the created entries carry the counters `0, 1, …, ctr - 1` in creation order -/
  ctrs : h.created.map (·.ctr) = List.range h.s.ctr
  /-- the whole event history is clock-consistent from time 0 to the current clock -/
  tiles : Consistent 0 h.trace h.s.t

theorem hcons_init : HCons hinit := ⟨by simp [hinit, fired, init], by simp [hinit, init], rfl⟩

theorem hcons_step (kids : Entry → List (Rat × Nat)) (fuel : Nat) {h : Hist} (hc : HCons h) (op : Op) :
    HCons (stepOp kids fuel h op) := by
  cases op with
  | add t id =>
    rw [stepOp_add]
    refine ⟨?_, ?_, hc.tiles⟩
    · simp only [addCallback]
      refine ((insert_perm _ _).append_left _).trans ?_
      refine List.perm_middle.trans ?_
      exact (List.perm_append_singleton _ _).symm.trans (hc.perm.append_right _)
    · simp only [addCallback, List.map_append, hc.ctrs, List.map_cons, List.map_nil, List.range_succ]
  | evolve T =>
    by_cases hT : T < h.s.t
    · rw [stepOp_backwards kids fuel h T hT]; exact hc
    · rw [stepOp_forward kids fuel h T hT]
      refine ⟨?_, ?_, ?_⟩
      · simp only [fired_append, List.append_assoc]
        refine ((loop_perm kids T fuel h.s).append_left _).trans ?_
        rw [← List.append_assoc]
        exact hc.perm.append_right _
      · simp only [List.map_append, hc.ctrs, spawned_ctr, loop_ctr, List.range_eq_range']
        have := @List.range'_append_1 0 h.s.ctr (nKids kids (fired (loop kids T fuel h.s).trace))
        simpa using this
      · exact hc.tiles.append (loop_consistent kids T fuel h.s)

theorem hcons_run (kids : Entry → List (Rat × Nat)) (fuel : Nat) (ops : List Op) :
    HCons (runOps kids fuel hinit ops) := by
  induction ops using List.reverseRecOn with
  | nil => exact hcons_init
  | append_singleton ops op ih => rw [runOps_snoc]; exact hcons_step kids fuel ih op

theorem HCons.created_nodup {h : Hist} (hc : HCons h) : h.created.Nodup :=
  nodup_of_ctr_nodup (by rw [hc.ctrs]; exact List.nodup_range)

/-- nothing runs twice, and nothing that ran is still queued -/
theorem HCons.nodup {h : Hist} (hc : HCons h) : (fired h.trace ++ h.s.queue).Nodup :=
  hc.perm.nodup_iff.mpr hc.created_nodup

/-! ### where the created entries come from -/

/-- every created entry stems from an `add_callback` of the history or is a child of an executed
callback; every `add_callback` of the history has its entry -/
structure HOrigin (kids : Entry → List (Rat × Nat)) (ops : List Op) (h : Hist) : Prop where
  sound : ∀ c ∈ h.created, Op.add c.time c.id ∈ ops ∨ ∃ e ∈ fired h.trace, (c.time, c.id) ∈ kids e
  adds : ∀ t id, Op.add t id ∈ ops → ∃ c ∈ h.created, c.time = t ∧ c.id = id
  kids : ∀ e ∈ fired h.trace, ∀ k ∈ kids e, ∃ c ∈ h.created, c.time = k.1 ∧ c.id = k.2

theorem horigin_run (kids : Entry → List (Rat × Nat)) (fuel : Nat) (ops : List Op) :
    HOrigin kids ops (runOps kids fuel hinit ops) := by
  induction ops using List.reverseRecOn with
  | nil => exact ⟨by simp [runOps_nil, hinit], by simp, by simp [runOps_nil, hinit, fired]⟩
  | append_singleton ops op ih =>
    rw [runOps_snoc]
    set h := runOps kids fuel hinit ops with hh
    cases op with
    | add t id =>
      rw [stepOp_add]
      refine ⟨?_, ?_, ?_⟩
      · intro c hc
        simp only [List.mem_append, List.mem_singleton] at hc
        rcases hc with hc | rfl
        · rcases ih.sound c hc with h1 | h1
          · left; simp [h1]
          · right; exact h1
        · left; simp
      · intro t' id' hm
        simp only [List.mem_append, List.mem_singleton] at hm
        rcases hm with hm | hm
        · obtain ⟨c, hc, h1⟩ := ih.adds t' id' hm
          exact ⟨c, by simp [hc], h1⟩
        · injection hm with h1 h2
          subst h1 h2
          exact ⟨⟨t', h.s.ctr, id'⟩, by simp, rfl, rfl⟩
      · intro e he k hk
        obtain ⟨c, hc, h1⟩ := ih.kids e he k hk
        exact ⟨c, by simp [hc], h1⟩
    | evolve T =>
      by_cases hT : T < h.s.t
      · rw [stepOp_backwards kids fuel h T hT]
        refine ⟨?_, ?_, ih.kids⟩
        · intro c hc
          rcases ih.sound c hc with h1 | h1
          · left; simp [h1]
          · right; exact h1
        · intro t' id' hm
          simp only [List.mem_append, List.mem_singleton] at hm
          rcases hm with hm | hm
          · exact ih.adds t' id' hm
          · cases hm
      · rw [stepOp_forward kids fuel h T hT]
        refine ⟨?_, ?_, ?_⟩
        · intro c hc
          simp only [List.mem_append] at hc
          rcases hc with hc | hc
          · rcases ih.sound c hc with h1 | ⟨e, he, h1⟩
            · left; simp [h1]
            · right; exact ⟨e, by simp [fired_append, he], h1⟩
          · obtain ⟨⟨e, he, h1⟩, -⟩ := mem_spawned hc
            right; exact ⟨e, by simp [fired_append, he], h1⟩
        · intro t' id' hm
          simp only [List.mem_append, List.mem_singleton] at hm
          rcases hm with hm | hm
          · obtain ⟨c, hc, h1⟩ := ih.adds t' id' hm
            exact ⟨c, by simp [hc], h1⟩
          · cases hm
        · intro e he k hk
          simp only [fired_append, List.mem_append] at he
          rcases he with he | he
          · obtain ⟨c, hc, h1⟩ := ih.kids e he k hk
            exact ⟨c, by simp [hc], h1⟩
          · obtain ⟨q, hq, h1⟩ := spawned_of_kid (c := h.s.ctr) he hk
            exact ⟨q, by simp [hq], h1⟩

/-! ### hypotheses on a history, stated at the state each call runs in -/

/-- Every `add_callback(t, ·)` of the history is issued at a state `h` with `f h ≤ t`
(`f = (·.s.t)`: not before the clock; `f = (·.hz)`: not before the time already evolved to). -/
def AddsFrom (f : Hist → Rat) (kids : Entry → List (Rat × Nat)) (fuel : Nat) (ops : List Op) : Prop :=
  ∀ pre t id post, ops = pre ++ Op.add t id :: post → f (runOps kids fuel hinit pre) ≤ t

/-- No `evolve_until` of the history exhausts the fuel (i.e. every one of them returns). -/
def NoFuelOut (kids : Entry → List (Rat × Nat)) (fuel : Nat) (ops : List Op) : Prop :=
  ∀ pre T post, ops = pre ++ Op.evolve T :: post →
    (evolveUntil kids fuel (runOps kids fuel hinit pre).s T).status ≠ .outOfFuel

theorem snoc_eq_split {α} {ops pre post : List α} {op x : α} (h : ops ++ [op] = pre ++ x :: post) :
    (post = [] ∧ ops = pre ∧ op = x) ∨ ∃ post', post = post' ++ [op] ∧ ops = pre ++ x :: post' := by
  rcases List.eq_nil_or_concat post with rfl | ⟨post', y, hp⟩
  on_goal 2 => rw [List.concat_eq_append] at hp; subst hp
  · left
    have : ops ++ [op] = pre ++ [x] := h
    obtain ⟨h1, h2⟩ := List.append_inj' this rfl
    exact ⟨rfl, h1, by simpa using h2⟩
  · right
    have : ops ++ [op] = (pre ++ x :: post') ++ [y] := by simpa using h
    obtain ⟨h1, h2⟩ := List.append_inj' this rfl
    have : op = y := by simpa using h2
    subst this
    exact ⟨post', rfl, h1⟩

theorem addsFrom_nil (f : Hist → Rat) (kids : Entry → List (Rat × Nat)) (fuel : Nat) :
    AddsFrom f kids fuel [] := by
  intro pre t id post h; simp at h

theorem addsFrom_snoc_add {f : Hist → Rat} {kids : Entry → List (Rat × Nat)} {fuel : Nat}
    {ops : List Op} {t : Rat} {id : Nat} :
    AddsFrom f kids fuel (ops ++ [Op.add t id]) ↔
      AddsFrom f kids fuel ops ∧ f (runOps kids fuel hinit ops) ≤ t := by
  constructor
  · intro h
    refine ⟨?_, h ops t id [] rfl⟩
    intro pre t' id' post he
    exact h pre t' id' (post ++ [Op.add t id]) (by simp [he])
  · rintro ⟨h1, h2⟩ pre t' id' post he
    rcases snoc_eq_split he with ⟨-, rfl, h3⟩ | ⟨post', -, h3⟩
    · injection h3 with h4 h5; subst h4; exact h2
    · exact h1 pre t' id' post' h3

theorem addsFrom_snoc_evolve {f : Hist → Rat} {kids : Entry → List (Rat × Nat)} {fuel : Nat}
    {ops : List Op} {T : Rat} :
    AddsFrom f kids fuel (ops ++ [Op.evolve T]) ↔ AddsFrom f kids fuel ops := by
  constructor
  · intro h pre t' id' post he
    exact h pre t' id' (post ++ [Op.evolve T]) (by simp [he])
  · intro h1 pre t' id' post he
    rcases snoc_eq_split he with ⟨-, -, h3⟩ | ⟨post', -, h3⟩
    · cases h3
    · exact h1 pre t' id' post' h3

theorem noFuelOut_nil (kids : Entry → List (Rat × Nat)) (fuel : Nat) : NoFuelOut kids fuel [] := by
  intro pre T post h; simp at h

theorem noFuelOut_snoc_add {kids : Entry → List (Rat × Nat)} {fuel : Nat}
    {ops : List Op} {t : Rat} {id : Nat} :
    NoFuelOut kids fuel (ops ++ [Op.add t id]) ↔ NoFuelOut kids fuel ops := by
  constructor
  · intro h pre T post he
    exact h pre T (post ++ [Op.add t id]) (by simp [he])
  · intro h1 pre T post he
    rcases snoc_eq_split he with ⟨-, -, h3⟩ | ⟨post', -, h3⟩
    · cases h3
    · exact h1 pre T post' h3

theorem noFuelOut_snoc_evolve {kids : Entry → List (Rat × Nat)} {fuel : Nat}
    {ops : List Op} {T : Rat} :
    NoFuelOut kids fuel (ops ++ [Op.evolve T]) ↔ NoFuelOut kids fuel ops ∧
      (evolveUntil kids fuel (runOps kids fuel hinit ops).s T).status ≠ .outOfFuel := by
  constructor
  · intro h
    refine ⟨?_, h ops T [] rfl⟩
    intro pre T' post he
    exact h pre T' (post ++ [Op.evolve T]) (by simp [he])
  · rintro ⟨h1, h2⟩ pre T' post he
    rcases snoc_eq_split he with ⟨-, rfl, h3⟩ | ⟨post', -, h3⟩
    · injection h3 with h4; subst h4; exact h2
    · exact h1 pre T' post' h3

/-- The history invariant under the hypotheses of the history theorem. -/
structure HInv (h : Hist) : Prop where
  inv : Inv h.s
  /-- the clock never passes the time evolved to … -/
  t_le : h.s.t ≤ h.hz
  /-- … and lags it by at most the coalescing threshold -/
  lag : h.hz - h.s.t ≤ eps
  /-- whatever is still queued is due at or after the time evolved to -/
  pending : ∀ q ∈ h.s.queue, h.hz ≤ q.time
  /-- everything executed so far, over all evolutions, ran in strict `(time, counter)` order -/
  sorted : Sorted (fired h.trace)
  /-- everything executed so far was due strictly before the time evolved to -/
  below : ∀ f ∈ fired h.trace, f.time < h.hz ∧ f.ctr < h.s.ctr
  /-- every callback ever executed ran with the clock at most `eps` behind its time -/
  clock : ∀ e clk, Event.fire e clk ∈ h.trace → clk ≤ e.time ∧ e.time - clk ≤ eps

theorem hinv_init : HInv hinit :=
  ⟨inv_init, le_refl _, by simp only [hinit, init, eps]; norm_num, by simp [hinit, init],
   by simp [hinit, fired, Sorted], by simp [hinit, fired], by simp [hinit]⟩

end HcipyVerif.Scheduler
