import Mathlib.Analysis.SpecialFunctions.Trigonometric.Basic
import HcipyVerif.Lemmas.NearFieldExec

/-!
# C04 — the Gaussian-rational run of the pipeline denotes the complex pipeline of the theorems

The driver op `filt` runs `filterP` / `filterPBackward` (`Model/NearField.lean`) at the scalar type `GRat` with the
kernels `gKerF`, `gKerB` (powers of `i`).  Here:

* `filterN_map` — the pipeline commutes with every map of scalars preserving `0`, `+`, `·`;
* `GRat.toC` (the complex number a Gaussian rational denotes) is such a map, and maps `GRat.conj` to `conj`;
* `toC_gKerF`, `toC_gKerB` — for the sizes 1, 2, 4 the driver's kernels are `exp(∓2πi n/M)`.
-/

set_option linter.unusedSimpArgs false
set_option linter.unusedVariables false
set_option linter.unusedSectionVars false
set_option linter.unnecessarySeqFocus false

open Finset Complex ComplexConjugate

namespace HcipyVerif.NearField

open HcipyVerif.Fft (expT expT_isChar expT_period)

section map
variable {C C' : Type} [Zero C] [Add C] [Mul C] [Zero C'] [Add C'] [Mul C']
  (φ : C → C') (h0 : φ 0 = 0) (hadd : ∀ a b, φ (a + b) = φ a + φ b) (hmul : ∀ a b, φ (a * b) = φ a * φ b)
include h0 hadd

theorem sumRange_map (n : ℕ) (g : ℕ → C) : φ (Fft.sumRange n g) = Fft.sumRange n (fun i => φ (g i)) := by
  induction n with
  | zero => exact h0
  | succ n ih => rw [Fft.sumRange, Fft.sumRange, hadd, ih]

include hmul

theorem dft2_map (My Mx : ℕ) (kY kX : ℤ → C) (a : ℕ → ℕ → C) (qy qx : ℕ) :
    φ (Fft.dft2 My Mx kY kX a qy qx)
      = Fft.dft2 My Mx (fun n => φ (kY n)) (fun n => φ (kX n)) (fun y x => φ (a y x)) qy qx := by
  unfold Fft.dft2
  rw [sumRange_map φ h0 hadd]
  congr 1
  funext py
  rw [sumRange_map φ h0 hadd]
  congr 1
  funext px
  rw [hmul, hmul]

omit hadd hmul in
theorem padAt_map (sy sx ny nx : ℕ) (f : ℕ → ℕ → C) (py px : ℕ) :
    φ (padAt sy sx ny nx f py px) = padAt sy sx ny nx (fun y x => φ (f y x)) py px := by
  unfold padAt
  split_ifs
  · rfl
  · exact h0

/-- The pipeline commutes with any map of scalars that preserves `0`, `+`, `·`: running it on Gaussian rationals
(the driver) is running it on the complex numbers they denote. -/
theorem filterN_map (My Mx : ℕ) (kFy kFx kBy kBx : ℤ → C) (sc : C) (sy sx ny nx : ℕ) (D x : ℕ → ℕ → C) (ky kx : ℕ) :
    φ (filterN My Mx kFy kFx kBy kBx sc sy sx ny nx D x ky kx)
      = filterN My Mx (fun n => φ (kFy n)) (fun n => φ (kFx n)) (fun n => φ (kBy n)) (fun n => φ (kBx n)) (φ sc)
          sy sx ny nx (fun a b => φ (D a b)) (fun a b => φ (x a b)) ky kx := by
  unfold filterN cropAt
  rw [hmul, dft2_map φ h0 hadd hmul]
  congr 2
  funext py px
  rw [hmul, dft2_map φ h0 hadd hmul]
  congr 2
  funext a b
  exact padAt_map φ h0 sy sx ny nx x a b

end map

/-- The complex number a Gaussian rational denotes. -/
noncomputable def GRat.toC (a : GRat) : ℂ := ⟨(a.re : ℝ), (a.im : ℝ)⟩

theorem GRat.toC_zero : GRat.toC 0 = 0 := by
  apply Complex.ext <;> simp [GRat.toC] <;> rfl

theorem GRat.toC_add (a b : GRat) : GRat.toC (a + b) = GRat.toC a + GRat.toC b := by
  apply Complex.ext
  · show (((a.re + b.re : ℚ)) : ℝ) = _
    simp [GRat.toC]
  · show (((a.im + b.im : ℚ)) : ℝ) = _
    simp [GRat.toC]

theorem GRat.toC_mul (a b : GRat) : GRat.toC (a * b) = GRat.toC a * GRat.toC b := by
  apply Complex.ext
  · show (((a.re * b.re - a.im * b.im : ℚ)) : ℝ) = _
    simp [GRat.toC]
  · show (((a.re * b.im + a.im * b.re : ℚ)) : ℝ) = _
    simp [GRat.toC]

theorem GRat.toC_conj (a : GRat) : GRat.toC (GRat.conj a) = conj (GRat.toC a) := by
  apply Complex.ext
  · rfl
  · show (((-a.im : ℚ)) : ℝ) = _
    simp [GRat.toC]

theorem expT_quarter : expT (1 / 4) = I := by
  unfold expT
  have h : (2 * (Real.pi : ℂ) * ((1 / 4 : ℝ) : ℂ) * I) = ((Real.pi / 2 : ℝ) : ℂ) * I := by
    push_cast
    ring
  rw [h, Complex.exp_mul_I, ← Complex.ofReal_cos, ← Complex.ofReal_sin, Real.cos_pi_div_two, Real.sin_pi_div_two]
  simp

theorem toC_gPowI (k : ℤ) : GRat.toC (gPowI k) = expT ((k : ℝ) / 4) := by
  have hk : (k : ℝ) / 4 = ((k / 4 : ℤ) : ℝ) + ((k % 4 : ℤ) : ℝ) / 4 := by
    have := Int.emod_add_mul_ediv k 4
    have h2 : (k : ℝ) = ((k % 4 : ℤ) : ℝ) + 4 * ((k / 4 : ℤ) : ℝ) := by exact_mod_cast this.symm
    rw [h2]
    ring_nf
  rw [hk, expT_isChar.add, expT_period, one_mul]
  have hr : k % 4 = 0 ∨ k % 4 = 1 ∨ k % 4 = 2 ∨ k % 4 = 3 := by omega
  have h2 : expT (2 / 4) = -1 := by
    have : (2 / 4 : ℝ) = 1 / 4 + 1 / 4 := by norm_num
    rw [this, expT_isChar.add, expT_quarter, Complex.I_mul_I]
  have h3 : expT (3 / 4) = -I := by
    have : (3 / 4 : ℝ) = 2 / 4 + 1 / 4 := by norm_num
    rw [this, expT_isChar.add, h2, expT_quarter]
    ring
  unfold gPowI
  rcases hr with h | h | h | h <;> rw [h]
  · show GRat.toC ⟨1, 0⟩ = _
    rw [show (((0 : ℤ) : ℝ) / 4) = 0 by norm_num, expT_isChar.zero]
    apply Complex.ext <;> simp [GRat.toC]
  · show GRat.toC ⟨0, 1⟩ = _
    rw [show (((1 : ℤ) : ℝ) / 4) = 1 / 4 by norm_num, expT_quarter]
    apply Complex.ext <;> simp [GRat.toC]
  · show GRat.toC ⟨-1, 0⟩ = _
    rw [show (((2 : ℤ) : ℝ) / 4) = 2 / 4 by norm_num, h2]
    apply Complex.ext <;> simp [GRat.toC]
  · show GRat.toC ⟨0, -1⟩ = _
    rw [show (((3 : ℤ) : ℝ) / 4) = 3 / 4 by norm_num, h3]
    apply Complex.ext <;> simp [GRat.toC]

/-- The exact kernels the driver uses are the DFT kernels of the theorems, for the sizes 1, 2, 4. -/
theorem toC_gKerB {M : ℕ} (hM : M = 1 ∨ M = 2 ∨ M = 4) (n : ℤ) : GRat.toC (gKerB M n) = kB M n := by
  unfold gKerB kB
  rw [toC_gPowI]
  congr 1
  rcases hM with rfl | rfl | rfl <;> norm_num <;> ring

theorem toC_gKerF {M : ℕ} (hM : M = 1 ∨ M = 2 ∨ M = 4) (n : ℤ) : GRat.toC (gKerF M n) = kF M n := by
  unfold gKerF kF
  rw [toC_gPowI]
  congr 1
  rcases hM with rfl | rfl | rfl <;> norm_num <;> ring


theorem toC_scale (N : ℕ) : GRat.toC ⟨1 / ((N : ℕ) : ℚ), 0⟩ = ((N : ℕ) : ℂ)⁻¹ := by
  have h : ((N : ℕ) : ℂ)⁻¹ = ((((N : ℝ))⁻¹ : ℝ) : ℂ) := by push_cast; rfl
  rw [h]
  apply Complex.ext
  · simp [GRat.toC]
  · simp [GRat.toC]

end HcipyVerif.NearField
