import Mathlib.Analysis.SpecialFunctions.Trigonometric.Basic
import HcipyVerif.Lemmas.NearFieldExec

/-!
# C04 — the Gaussian-rational run of the pipeline denotes the complex pipeline of the theorems

The driver op `filt` runs `filterP` / `filterPBackward` (`Model/NearField.lean`) at the scalar type `GRat` with the
kernels `gKerF`, `gKerB` (powers of `i`).  Here:

* `filterN_map` — the pipeline commutes with every map of scalars preserving `0`, `+`, `·`;
* `GRat.toC` (the complex number a Gaussian rational denotes) is such a map, and maps `GRat.conj` to `conj`;
* `toC_gKerF`, `toC_gKerB` — for the sizes 1, 2, 4 the driver's kernels are `exp(∓2πi n/M)`;
* `PSum.ev` — the complex number a formal phase sum (`Fft.PSum`, the scalar type of the driver op `filtp`) denotes —
  preserves `0`, `+`, `·` (`PSum.ev_add`, `PSum.ev_mul`: induction over the list representation), maps `psumConj` to `conj`,
  `psumScalar.kerF M n`, `psumScalar.kerB M n` to `exp(∓2πi n/M)` for *every* `M`, and `psumOfGRat g` to `GRat.toC g`.
-/

set_option linter.unusedSimpArgs false
set_option linter.unusedVariables false
set_option linter.unusedSectionVars false
set_option linter.unnecessarySeqFocus false

open Finset Complex ComplexConjugate

namespace HcipyVerif.NearField

open HcipyVerif.Fft (expT expE expT_isChar expE_isChar expT_period expT_conj expE_conj PSum Term fracPart)

section map
variable {C C' : Type} [Zero C] [Add C] [Mul C] [Zero C'] [Add C'] [Mul C']
  (φ : C → C') (h0 : φ 0 = 0) (hadd : ∀ a b, φ (a + b) = φ a + φ b) (hmul : ∀ a b, φ (a * b) = φ a * φ b)
include h0 hadd

theorem sumRange_map (n : ℕ) (g : ℕ → C) : φ (Fft.sumRange n g) = Fft.sumRange n (fun i => φ (g i)) := by
  induction n with
  | zero => exact h0
  | succ n ih => rw [Fft.sumRange, Fft.sumRange, hadd, ih]

include hmul

theorem dft2_map (My Mx : ℕ) (kY kX : ℤ → C) (a : ℕ → ℕ → C) (qy qx : ℕ) :
    φ (Fft.dft2 My Mx kY kX a qy qx)
      = Fft.dft2 My Mx (fun n => φ (kY n)) (fun n => φ (kX n)) (fun y x => φ (a y x)) qy qx := by
  unfold Fft.dft2
  rw [sumRange_map φ h0 hadd]
  congr 1
  funext py
  rw [sumRange_map φ h0 hadd]
  congr 1
  funext px
  rw [hmul, hmul]

omit hadd hmul in
theorem padAt_map (sy sx ny nx : ℕ) (f : ℕ → ℕ → C) (py px : ℕ) :
    φ (padAt sy sx ny nx f py px) = padAt sy sx ny nx (fun y x => φ (f y x)) py px := by
  unfold padAt
  split_ifs
  · rfl
  · exact h0

/-- The pipeline commutes with any map of scalars that preserves `0`, `+`, `·`: running it on Gaussian rationals
(the driver) is running it on the complex numbers they denote. -/
theorem filterN_map (My Mx : ℕ) (kFy kFx kBy kBx : ℤ → C) (sc : C) (sy sx ny nx : ℕ) (D x : ℕ → ℕ → C) (ky kx : ℕ) :
    φ (filterN My Mx kFy kFx kBy kBx sc sy sx ny nx D x ky kx)
      = filterN My Mx (fun n => φ (kFy n)) (fun n => φ (kFx n)) (fun n => φ (kBy n)) (fun n => φ (kBx n)) (φ sc)
          sy sx ny nx (fun a b => φ (D a b)) (fun a b => φ (x a b)) ky kx := by
  unfold filterN cropAt
  rw [hmul, dft2_map φ h0 hadd hmul]
  congr 2
  funext py px
  rw [hmul, dft2_map φ h0 hadd hmul]
  congr 2
  funext a b
  exact padAt_map φ h0 sy sx ny nx x a b

end map

/-- The complex number a Gaussian rational denotes. -/
noncomputable def GRat.toC (a : GRat) : ℂ := ⟨(a.re : ℝ), (a.im : ℝ)⟩

theorem GRat.toC_zero : GRat.toC 0 = 0 := by
  apply Complex.ext <;> simp [GRat.toC] <;> rfl

theorem GRat.toC_add (a b : GRat) : GRat.toC (a + b) = GRat.toC a + GRat.toC b := by
  apply Complex.ext
  · show (((a.re + b.re : ℚ)) : ℝ) = _
    simp [GRat.toC]
  · show (((a.im + b.im : ℚ)) : ℝ) = _
    simp [GRat.toC]

theorem GRat.toC_mul (a b : GRat) : GRat.toC (a * b) = GRat.toC a * GRat.toC b := by
  apply Complex.ext
  · show (((a.re * b.re - a.im * b.im : ℚ)) : ℝ) = _
    simp [GRat.toC]
  · show (((a.re * b.im + a.im * b.re : ℚ)) : ℝ) = _
    simp [GRat.toC]

theorem GRat.toC_conj (a : GRat) : GRat.toC (GRat.conj a) = conj (GRat.toC a) := by
  apply Complex.ext
  · rfl
  · show (((-a.im : ℚ)) : ℝ) = _
    simp [GRat.toC]

theorem expT_quarter : expT (1 / 4) = I := by
  unfold expT
  have h : (2 * (Real.pi : ℂ) * ((1 / 4 : ℝ) : ℂ) * I) = ((Real.pi / 2 : ℝ) : ℂ) * I := by
    push_cast
    ring
  rw [h, Complex.exp_mul_I, ← Complex.ofReal_cos, ← Complex.ofReal_sin, Real.cos_pi_div_two, Real.sin_pi_div_two]
  simp

theorem toC_gPowI (k : ℤ) : GRat.toC (gPowI k) = expT ((k : ℝ) / 4) := by
  have hk : (k : ℝ) / 4 = ((k / 4 : ℤ) : ℝ) + ((k % 4 : ℤ) : ℝ) / 4 := by
    have := Int.emod_add_mul_ediv k 4
    have h2 : (k : ℝ) = ((k % 4 : ℤ) : ℝ) + 4 * ((k / 4 : ℤ) : ℝ) := by exact_mod_cast this.symm
    rw [h2]
    ring_nf
  rw [hk, expT_isChar.add, expT_period, one_mul]
  have hr : k % 4 = 0 ∨ k % 4 = 1 ∨ k % 4 = 2 ∨ k % 4 = 3 := by omega
  have h2 : expT (2 / 4) = -1 := by
    have : (2 / 4 : ℝ) = 1 / 4 + 1 / 4 := by norm_num
    rw [this, expT_isChar.add, expT_quarter, Complex.I_mul_I]
  have h3 : expT (3 / 4) = -I := by
    have : (3 / 4 : ℝ) = 2 / 4 + 1 / 4 := by norm_num
    rw [this, expT_isChar.add, h2, expT_quarter]
    ring
  unfold gPowI
  rcases hr with h | h | h | h <;> rw [h]
  · show GRat.toC ⟨1, 0⟩ = _
    rw [show (((0 : ℤ) : ℝ) / 4) = 0 by norm_num, expT_isChar.zero]
    apply Complex.ext <;> simp [GRat.toC]
  · show GRat.toC ⟨0, 1⟩ = _
    rw [show (((1 : ℤ) : ℝ) / 4) = 1 / 4 by norm_num, expT_quarter]
    apply Complex.ext <;> simp [GRat.toC]
  · show GRat.toC ⟨-1, 0⟩ = _
    rw [show (((2 : ℤ) : ℝ) / 4) = 2 / 4 by norm_num, h2]
    apply Complex.ext <;> simp [GRat.toC]
  · show GRat.toC ⟨0, -1⟩ = _
    rw [show (((3 : ℤ) : ℝ) / 4) = 3 / 4 by norm_num, h3]
    apply Complex.ext <;> simp [GRat.toC]

/-- The exact kernels the driver uses are the DFT kernels of the theorems, for the sizes 1, 2, 4. -/
theorem toC_gKerB {M : ℕ} (hM : M = 1 ∨ M = 2 ∨ M = 4) (n : ℤ) : GRat.toC (gKerB M n) = kB M n := by
  unfold gKerB kB
  rw [toC_gPowI]
  congr 1
  rcases hM with rfl | rfl | rfl <;> norm_num <;> ring

theorem toC_gKerF {M : ℕ} (hM : M = 1 ∨ M = 2 ∨ M = 4) (n : ℤ) : GRat.toC (gKerF M n) = kF M n := by
  unfold gKerF kF
  rw [toC_gPowI]
  congr 1
  rcases hM with rfl | rfl | rfl <;> norm_num <;> ring


theorem toC_scale (N : ℕ) : GRat.toC ⟨1 / ((N : ℕ) : ℚ), 0⟩ = ((N : ℕ) : ℂ)⁻¹ := by
  have h : ((N : ℕ) : ℂ)⁻¹ = ((((N : ℝ))⁻¹ : ℝ) : ℂ) := by push_cast; rfl
  rw [h]
  apply Complex.ext
  · simp [GRat.toC]
  · simp [GRat.toC]

/-! ## formal phase sums -/

/-- the complex number a term `c·exp(i(2πt + r))` denotes -/
noncomputable def evT (x : Term) : ℂ := ((x.c : ℚ) : ℂ) * (expT ((x.t : ℚ) : ℝ) * expE ((x.r : ℚ) : ℝ))

noncomputable def evL (l : List Term) : ℂ := (l.map evT).sum

/-- the complex number a formal phase sum denotes -/
noncomputable def PSum.ev (a : PSum) : ℂ := evL a.terms

theorem evL_nil : evL [] = 0 := rfl
theorem evL_cons (x : Term) (l : List Term) : evL (x :: l) = evT x + evL l := by
  unfold evL
  rw [List.map_cons, List.sum_cons]

theorem evL_append (l₁ l₂ : List Term) : evL (l₁ ++ l₂) = evL l₁ + evL l₂ := by
  unfold evL
  rw [List.map_append, List.sum_append]

theorem expT_fracPart (t : ℚ) : expT ((fracPart t : ℚ) : ℝ) = expT ((t : ℚ) : ℝ) := by
  unfold fracPart
  have h : (((t - (t.floor : ℚ)) : ℚ) : ℝ) = ((t : ℚ) : ℝ) + (((-t.floor : ℤ)) : ℝ) := by
    push_cast
    ring
  rw [h, expT_isChar.add, expT_period, mul_one]

theorem evT_of_c_zero {x : Term} (h : x.c = 0) : evT x = 0 := by
  unfold evT
  rw [h]
  simp

theorem evL_addTerm (l : List Term) (x : Term) : evL (PSum.addTerm l x) = evL l + evT x := by
  induction l with
  | nil =>
    unfold PSum.addTerm
    split_ifs with hc
    · rw [evT_of_c_zero hc, add_zero]
    · rw [evL_cons, evL_nil, add_zero, zero_add]
  | cons y ys ih =>
    rw [PSum.addTerm]
    split_ifs with hc hp hs
    · rw [evT_of_c_zero hc, add_zero]
    · rw [evL_cons]
      have : evT y + evT x = 0 := by
        unfold evT
        rw [hp.1, hp.2, ← add_mul]
        have : ((y.c : ℚ) : ℂ) + ((x.c : ℚ) : ℂ) = 0 := by exact_mod_cast congrArg (fun q : ℚ => (q : ℂ)) hs
        rw [this, zero_mul]
      rw [add_right_comm, this, zero_add]
    · rw [evL_cons, evL_cons]
      have : evT { y with c := y.c + x.c } = evT y + evT x := by
        unfold evT
        simp only
        rw [hp.1, hp.2]
        push_cast
        ring
      rw [this]
      ring
    · rw [evL_cons, evL_cons, ih]
      ring

theorem evL_foldl (l a : List Term) : evL (l.foldl PSum.addTerm a) = evL a + evL l := by
  induction l generalizing a with
  | nil => rw [List.foldl_nil, evL_nil, add_zero]
  | cons x xs ih => rw [List.foldl_cons, ih, evL_addTerm, evL_cons, add_assoc]

theorem PSum.ev_zero : PSum.ev 0 = 0 := rfl

theorem PSum.ev_add (a b : PSum) : PSum.ev (a + b) = PSum.ev a + PSum.ev b := by
  show evL (b.terms.foldl PSum.addTerm a.terms) = _
  rw [evL_foldl]
  rfl

theorem evT_mulTerm (x y : Term) : evT (PSum.mulTerm x y) = evT x * evT y := by
  unfold evT PSum.mulTerm
  simp only
  rw [expT_fracPart]
  push_cast
  rw [expT_isChar.add, expE_isChar.add]
  ring

theorem evL_map_mulTerm (x : Term) (l : List Term) : evL (l.map fun y => PSum.mulTerm x y) = evT x * evL l := by
  induction l with
  | nil => rw [List.map_nil, evL_nil, mul_zero]
  | cons y ys ih => rw [List.map_cons, evL_cons, evL_cons, ih, evT_mulTerm, mul_add]

theorem PSum.ev_mul (a b : PSum) : PSum.ev (a * b) = PSum.ev a * PSum.ev b := by
  show evL ((a.terms.flatMap fun x => b.terms.map fun y => PSum.mulTerm x y).foldl PSum.addTerm []) = _
  rw [evL_foldl, evL_nil, zero_add]
  unfold PSum.ev
  induction a.terms with
  | nil => rw [List.flatMap_nil, evL_nil, zero_mul]
  | cons x xs ih => rw [List.flatMap_cons, evL_append, ih, evL_map_mulTerm, evL_cons, add_mul]


theorem PSum.ev_turns (t : ℚ) : PSum.ev (PSum.turns t) = expT ((t : ℚ) : ℝ) := by
  show evL [⟨1, fracPart t, 0⟩] = _
  rw [evL_cons, evL_nil, add_zero]
  unfold evT
  simp only
  rw [expT_fracPart]
  simp [expE_isChar.zero]

theorem PSum.ev_ofRat (c : ℚ) : PSum.ev (PSum.ofRat c) = ((c : ℚ) : ℂ) := by
  unfold PSum.ofRat
  split_ifs with h
  · rw [h]
    simp [PSum.ev, evL]
  · show evL [⟨c, 0, 0⟩] = _
    rw [evL_cons, evL_nil, add_zero]
    unfold evT
    simp [expE_isChar.zero, expT_isChar.zero]

theorem ev_psumOfGRat (g : GRat) : PSum.ev (psumOfGRat g) = GRat.toC g := by
  unfold psumOfGRat
  rw [PSum.ev_add, PSum.ev_mul, PSum.ev_ofRat, PSum.ev_ofRat, PSum.ev_turns]
  have h : (((1 / 4 : ℚ)) : ℝ) = 1 / 4 := by norm_num
  rw [h, expT_quarter]
  apply Complex.ext <;> simp [GRat.toC]

theorem evL_conj (l : List Term) :
    evL (l.map fun x => (⟨x.c, fracPart (-x.t), -x.r⟩ : Term)) = conj (evL l) := by
  induction l with
  | nil => simp [evL]
  | cons x xs ih =>
    rw [List.map_cons, evL_cons, evL_cons, ih, map_add]
    congr 1
    unfold evT
    simp only
    rw [expT_fracPart, map_mul, map_mul, expT_conj, expE_conj]
    push_cast
    simp

theorem ev_psumConj (a : PSum) : PSum.ev (psumConj a) = conj (PSum.ev a) := evL_conj a.terms

theorem ev_pKerF (M : ℕ) (n : ℤ) : PSum.ev (psumScalar.kerF M n) = kF M n := by
  unfold Scalar.kerF kF
  show PSum.ev (PSum.turns _) = _
  rw [PSum.ev_turns]
  congr 1
  push_cast
  rfl

theorem ev_pKerB (M : ℕ) (n : ℤ) : PSum.ev (psumScalar.kerB M n) = kB M n := by
  unfold Scalar.kerB kB
  show PSum.ev (PSum.turns _) = _
  rw [PSum.ev_turns]
  congr 1
  push_cast
  rfl

theorem ev_scale (N : ℕ) : PSum.ev (PSum.ofRat (1 / ((N : ℕ) : ℚ))) = ((N : ℕ) : ℂ)⁻¹ := by
  rw [PSum.ev_ofRat]
  push_cast
  rw [one_div]

end HcipyVerif.NearField
