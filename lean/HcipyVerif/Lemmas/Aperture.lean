import HcipyVerif.Model.Aperture
import Mathlib.Tactic.Linarith
import Mathlib.Tactic.Ring
import Mathlib.Algebra.Order.Field.Rat
import Mathlib.Algebra.Order.AbsoluteValue.Basic
import Mathlib.Data.List.Basic

/-! Array-side lemmas for C12 (separated-grid code path = point semantics). -/
set_option linter.unusedSimpArgs false
set_option linter.unusedVariables false

namespace HcipyVerif.Aperture

/-! ## A. generic list / array facts -/

theorem flatMap_length_of_length {ι α : Type} (l : List ι) (f : ι → List α) (c : Nat)
    (h : ∀ a ∈ l, (f a).length = c) : (l.flatMap f).length = l.length * c := by
  induction l with
  | nil => simp
  | cons a l ih =>
    have ha : (f a).length = c := h a (by simp)
    rw [List.flatMap_cons, List.length_append, ha,
      ih (fun b hb => h b (List.mem_cons_of_mem _ hb)), List.length_cons, Nat.succ_mul]
    omega

theorem flatMap_getElem?_of_length {ι α : Type} (l : List ι) (f : ι → List α) (c : Nat)
    (h : ∀ a ∈ l, (f a).length = c) (i j : Nat) (hj : j < c) :
    (l.flatMap f)[i * c + j]? = (l[i]?).bind (fun a => (f a)[j]?) := by
  induction l generalizing i with
  | nil => simp
  | cons a l ih =>
    have ha : (f a).length = c := h a (by simp)
    rw [List.flatMap_cons]
    cases i with
    | zero =>
      simp only [Nat.zero_mul, Nat.zero_add, List.getElem?_cons_zero, Option.bind_some]
      exact List.getElem?_append_left (by omega)
    | succ i =>
      have e : (i + 1) * c + j = (f a).length + (i * c + j) := by
        rw [ha, Nat.succ_mul]; omega
      rw [e, List.getElem?_append_right (by omega)]
      simp only [Nat.add_sub_cancel_left, List.getElem?_cons_succ]
      exact ih (fun b hb => h b (List.mem_cons_of_mem _ hb)) i

theorem Arr.ravel_length {α : Type} (A : Arr α) : A.ravel.length = A.nr * A.nc := by
  unfold Arr.ravel
  rw [flatMap_length_of_length _ _ A.nc (by intro a _; simp)]
  simp

theorem Arr.ravel_getElem? {α : Type} (A : Arr α) {i j : Nat} (hi : i < A.nr) (hj : j < A.nc) :
    A.ravel[i * A.nc + j]? = some (A.get i j) := by
  unfold Arr.ravel
  rw [flatMap_getElem?_of_length _ _ A.nc (by intro a _; simp) i j hj]
  simp [hi, hj]

theorem sepPoints_length (xs ys : List Rat) : (sepPoints xs ys).length = ys.length * xs.length := by
  unfold sepPoints
  rw [flatMap_length_of_length _ _ xs.length (by intro a _; simp)]

theorem sepPoints_getElem? (xs ys : List Rat) {ix iy : Nat} (hx : ix < xs.length)
    (hy : iy < ys.length) :
    (sepPoints xs ys)[iy * xs.length + ix]? = some (xs.getD ix 0, ys.getD iy 0) := by
  unfold sepPoints
  rw [flatMap_getElem?_of_length _ _ xs.length (by intro a _; simp) iy ix hx]
  simp [hx, hy, List.getD_eq_getElem?_getD]

theorem map_eq_range_map {α β : Type} (xs : List α) (d : α) (f : α → β) :
    xs.map f = (List.range xs.length).map (fun j => f (xs.getD j d)) := by
  apply List.ext_getElem
  · simp
  · intro i h1 h2
    simp at h1
    simp [h1, List.getD_eq_getElem?_getD]

theorem flatMap_eq_range_flatMap {α β : Type} (ys : List α) (d : α) (F : α → List β) :
    ys.flatMap F = (List.range ys.length).flatMap (fun i => F (ys.getD i d)) := by
  rw [List.flatMap_def, map_eq_range_map ys d F, ← List.flatMap_def]

theorem Arr.ravel_eq_map_sepPoints {β : Type} (A : Arr β) (xs ys : List Rat) (g : Pt → β)
    (hr : A.nr = ys.length) (hc : A.nc = xs.length)
    (hg : ∀ i j, i < ys.length → j < xs.length → A.get i j = g (xs.getD j 0, ys.getD i 0)) :
    A.ravel = (sepPoints xs ys).map g := by
  unfold Arr.ravel sepPoints
  rw [List.map_flatMap, flatMap_eq_range_flatMap ys 0, hr, hc]
  apply List.flatMap_congr
  intro i hi
  rw [List.map_map, map_eq_range_map xs 0]
  apply List.map_congr_left
  intro j hj
  simp only [List.mem_range] at hi hj
  simp [hg i j hi hj]

theorem Arr.ravel_map {α β : Type} (k : α → β) (A : Arr α) :
    (Arr.map k A).ravel = A.ravel.map k := by
  unfold Arr.ravel Arr.map
  simp [List.map_flatMap, Function.comp_def]

/-! ## broadcasting representation predicates -/

/-- `A` is broadcast-compatible with shape `(R, C)` and, stretched to that shape, has the
entries `f i j`. -/
structure Bc {α : Type} (A : Arr α) (R C : Nat) (f : Nat → Nat → α) : Prop where
  nr : A.nr = R ∨ A.nr = 1
  nc : A.nc = C ∨ A.nc = 1
  get : ∀ i j, i < R → j < C →
    A.get (if A.nr = 1 then 0 else i) (if A.nc = 1 then 0 else j) = f i j

/-- `A` has exactly the shape `(R, C)` and entries `f i j`. -/
structure Full {α : Type} (A : Arr α) (R C : Nat) (f : Nat → Nat → α) : Prop where
  nr : A.nr = R
  nc : A.nc = C
  get : ∀ i j, i < R → j < C → A.get i j = f i j

theorem Full.bc {α : Type} {A : Arr α} {R C : Nat} {f : Nat → Nat → α} (h : Full A R C f) :
    Bc A R C f := by
  refine ⟨Or.inl h.nr, Or.inl h.nc, ?_⟩
  intro i j hi hj
  have e1 : (if A.nr = 1 then 0 else i) = i := by
    have := h.nr; split <;> omega
  have e2 : (if A.nc = 1 then 0 else j) = j := by
    have := h.nc; split <;> omega
  rw [e1, e2]; exact h.get i j hi hj

theorem Bc.full {α : Type} {A : Arr α} {R C : Nat} {f : Nat → Nat → α} (h : Bc A R C f)
    (hr : A.nr = R) (hc : A.nc = C) : Full A R C f := by
  refine ⟨hr, hc, ?_⟩
  intro i j hi hj
  have e1 : (if A.nr = 1 then 0 else i) = i := by split <;> omega
  have e2 : (if A.nc = 1 then 0 else j) = j := by split <;> omega
  have := h.get i j hi hj
  rwa [e1, e2] at this

theorem Bc.congr {α : Type} {A : Arr α} {R C : Nat} {f g : Nat → Nat → α} (h : Bc A R C f)
    (hfg : ∀ i j, i < R → j < C → f i j = g i j) : Bc A R C g :=
  ⟨h.nr, h.nc, fun i j hi hj => (h.get i j hi hj).trans (hfg i j hi hj)⟩

theorem Full.congr {α : Type} {A : Arr α} {R C : Nat} {f g : Nat → Nat → α} (h : Full A R C f)
    (hfg : ∀ i j, i < R → j < C → f i j = g i j) : Full A R C g :=
  ⟨h.nr, h.nc, fun i j hi hj => (h.get i j hi hj).trans (hfg i j hi hj)⟩

theorem Bc.map {α β : Type} {A : Arr α} {R C : Nat} {f : Nat → Nat → α} (h : Bc A R C f)
    (k : α → β) : Bc (Arr.map k A) R C (fun i j => k (f i j)) :=
  ⟨h.nr, h.nc, fun i j hi hj => by
    show k (A.get (if A.nr = 1 then 0 else i) (if A.nc = 1 then 0 else j)) = _
    rw [h.get i j hi hj]⟩

theorem Full.map {α β : Type} {A : Arr α} {R C : Nat} {f : Nat → Nat → α} (h : Full A R C f)
    (k : α → β) : Full (Arr.map k A) R C (fun i j => k (f i j)) :=
  ⟨h.nr, h.nc, fun i j hi hj => by
    show k (A.get i j) = _
    rw [h.get i j hi hj]⟩

theorem bc_idx (a b R i : Nat) (ha : a = R ∨ a = 1) (hb : b = R ∨ b = 1) :
    (if a = 1 then 0 else (if (if a = 1 then b else a) = 1 then 0 else i))
      = (if a = 1 then 0 else i) ∧
    (if b = 1 then 0 else (if (if a = 1 then b else a) = 1 then 0 else i))
      = (if b = 1 then 0 else i) := by
  constructor <;> split_ifs <;> omega

theorem Bc.zip {α β γ : Type} {A : Arr α} {B : Arr β} {R C : Nat} {f : Nat → Nat → α}
    {g : Nat → Nat → β} (hA : Bc A R C f) (hB : Bc B R C g) (k : α → β → γ) :
    Bc (Arr.zip k A B) R C (fun i j => k (f i j) (g i j)) := by
  refine ⟨?_, ?_, ?_⟩
  · show (if A.nr = 1 then B.nr else A.nr) = R ∨ (if A.nr = 1 then B.nr else A.nr) = 1
    have := hA.nr; have := hB.nr; split <;> omega
  · show (if A.nc = 1 then B.nc else A.nc) = C ∨ (if A.nc = 1 then B.nc else A.nc) = 1
    have := hA.nc; have := hB.nc; split <;> omega
  · intro i j hi hj
    show k (A.get (if A.nr = 1 then 0 else
              (if (if A.nr = 1 then B.nr else A.nr) = 1 then 0 else i))
            (if A.nc = 1 then 0 else (if (if A.nc = 1 then B.nc else A.nc) = 1 then 0 else j)))
          (B.get (if B.nr = 1 then 0 else
              (if (if A.nr = 1 then B.nr else A.nr) = 1 then 0 else i))
            (if B.nc = 1 then 0 else (if (if A.nc = 1 then B.nc else A.nc) = 1 then 0 else j)))
        = _
    obtain ⟨e1, e2⟩ := bc_idx A.nr B.nr R i hA.nr hB.nr
    obtain ⟨e3, e4⟩ := bc_idx A.nc B.nc C j hA.nc hB.nc
    rw [e1, e2, e3, e4, hA.get i j hi hj, hB.get i j hi hj]

theorem zip_nr_of_left {α β γ : Type} {A : Arr α} {B : Arr β} {R : Nat} (k : α → β → γ)
    (hA : A.nr = R) (hB : B.nr = R ∨ B.nr = 1) : (Arr.zip k A B).nr = R := by
  show (if A.nr = 1 then B.nr else A.nr) = R
  split <;> omega

theorem zip_nr_of_right {α β γ : Type} {A : Arr α} {B : Arr β} {R : Nat} (k : α → β → γ)
    (hA : A.nr = R ∨ A.nr = 1) (hB : B.nr = R) : (Arr.zip k A B).nr = R := by
  show (if A.nr = 1 then B.nr else A.nr) = R
  split <;> omega

theorem zip_nc_of_left {α β γ : Type} {A : Arr α} {B : Arr β} {C : Nat} (k : α → β → γ)
    (hA : A.nc = C) (hB : B.nc = C ∨ B.nc = 1) : (Arr.zip k A B).nc = C := by
  show (if A.nc = 1 then B.nc else A.nc) = C
  split <;> omega

theorem zip_nc_of_right {α β γ : Type} {A : Arr α} {B : Arr β} {C : Nat} (k : α → β → γ)
    (hA : A.nc = C ∨ A.nc = 1) (hB : B.nc = C) : (Arr.zip k A B).nc = C := by
  show (if A.nc = 1 then B.nc else A.nc) = C
  split <;> omega

/-- a row against a column (either order) fills the whole shape -/
theorem Bc.zip_row_col {α β γ : Type} {A : Arr α} {B : Arr β} {R C : Nat} {f : Nat → Nat → α}
    {g : Nat → Nat → β} (hA : Bc A R C f) (hB : Bc B R C g) (k : α → β → γ)
    (hAr : A.nr = 1) (hAc : A.nc = C) (hBr : B.nr = R) (hBc : B.nc = 1) :
    Full (Arr.zip k A B) R C (fun i j => k (f i j) (g i j)) :=
  (hA.zip hB k).full (zip_nr_of_right k (Or.inr hAr) hBr) (zip_nc_of_left k hAc (Or.inr hBc))

theorem Bc.zip_col_row {α β γ : Type} {A : Arr α} {B : Arr β} {R C : Nat} {f : Nat → Nat → α}
    {g : Nat → Nat → β} (hA : Bc A R C f) (hB : Bc B R C g) (k : α → β → γ)
    (hAr : A.nr = R) (hAc : A.nc = 1) (hBr : B.nr = 1) (hBc : B.nc = C) :
    Full (Arr.zip k A B) R C (fun i j => k (f i j) (g i j)) :=
  (hA.zip hB k).full (zip_nr_of_left k hAr (Or.inr hBr)) (zip_nc_of_right k (Or.inr hAc) hBc)

theorem Full.zip {α β γ : Type} {A : Arr α} {B : Arr β} {R C : Nat} {f : Nat → Nat → α}
    {g : Nat → Nat → β} (hA : Full A R C f) (hB : Full B R C g) (k : α → β → γ) :
    Full (Arr.zip k A B) R C (fun i j => k (f i j) (g i j)) :=
  (hA.bc.zip hB.bc k).full (zip_nr_of_left k hA.nr (Or.inl hB.nr))
    (zip_nc_of_left k hA.nc (Or.inl hB.nc))

theorem getD_map_lt {α β : Type} (xs : List α) (f : α → β) (d : α) (e : β) {j : Nat}
    (hj : j < xs.length) : (xs.map f).getD j e = f (xs.getD j d) := by
  simp [List.getD_eq_getElem?_getD, hj]

/-- `x[newaxis, :]` -/
theorem Bc.row (xs : List Rat) (R : Nat) : Bc (Arr.row xs) R xs.length (fun _ j => xs.getD j 0) := by
  refine ⟨Or.inr rfl, Or.inl rfl, ?_⟩
  intro i j hi hj
  show xs.getD (if xs.length = 1 then 0 else j) 0 = _
  have : (if xs.length = 1 then 0 else j) = j := by split <;> omega
  rw [this]

/-- `y[:, newaxis]` -/
theorem Bc.col (ys : List Rat) (C : Nat) : Bc (Arr.col ys) ys.length C (fun i _ => ys.getD i 0) := by
  refine ⟨Or.inl rfl, Or.inr rfl, ?_⟩
  intro i j hi hj
  show ys.getD (if ys.length = 1 then 0 else i) 0 = _
  have : (if ys.length = 1 then 0 else i) = i := by split <;> omega
  rw [this]

theorem Bc.row_map (xs : List Rat) (k : Rat → Rat) (R : Nat) :
    Bc (Arr.row (xs.map k)) R xs.length (fun _ j => k (xs.getD j 0)) := by
  have h := Bc.row (xs.map k) R
  rw [List.length_map] at h
  exact h.congr (fun i j _ hj => getD_map_lt xs k 0 0 hj)

theorem Bc.col_map (ys : List Rat) (k : Rat → Rat) (C : Nat) :
    Bc (Arr.col (ys.map k)) ys.length C (fun i _ => k (ys.getD i 0)) := by
  have h := Bc.col (ys.map k) C
  rw [List.length_map] at h
  exact h.congr (fun i j hi _ => getD_map_lt ys k 0 0 hi)

/-- a fully represented array, ravelled and mapped, is the map over the grid points -/
theorem Full.ravel_map_eq {α β : Type} {A : Arr α} {xs ys : List Rat} {f : Nat → Nat → α}
    (h : Full A ys.length xs.length f) (k : α → β) (g : Pt → β)
    (hg : ∀ i j, i < ys.length → j < xs.length → k (f i j) = g (xs.getD j 0, ys.getD i 0)) :
    A.ravel.map k = (sepPoints xs ys).map g := by
  rw [← Arr.ravel_map]
  exact Arr.ravel_eq_map_sepPoints _ xs ys g h.nr h.nc (fun i j hi hj => by
    rw [(h.map k).get i j hi hj]; exact hg i j hi hj)

theorem Full.ravel_eq {α : Type} {A : Arr α} {xs ys : List Rat} {f : Nat → Nat → α}
    (h : Full A ys.length xs.length f) (g : Pt → α)
    (hg : ∀ i j, i < ys.length → j < xs.length → f i j = g (xs.getD j 0, ys.getD i 0)) :
    A.ravel = (sepPoints xs ys).map g :=
  Arr.ravel_eq_map_sepPoints _ xs ys g h.nr h.nc (fun i j hi hj => by
    rw [h.get i j hi hj]; exact hg i j hi hj)

/-! ## B. the pure-broadcast makers -/

theorem circleFast_eq (r cx cy : Rat) (xs ys : List Rat) :
    circleFast r cx cy xs ys = (sepPoints xs ys).map (val (.circle r cx cy)) := by
  unfold circleFast
  have hX := (Bc.row xs ys.length).map (fun x => sq (x - cx))
  have hY := (Bc.col ys xs.length).map (fun y => sq (y - cy))
  have hZ := (hX.zip_row_col hY (· + ·) rfl rfl rfl rfl).map (fun v => decide (v ≤ sq r))
  exact hZ.ravel_map_eq b2r _ (fun i j hi hj => rfl)

theorem halfFast_eq (gt : Bool) (a b c : Rat) (xs ys : List Rat) :
    halfFast gt a b c xs ys = (sepPoints xs ys).map (val (.halfplane gt a b c)) := by
  unfold halfFast
  have hX := (Bc.row xs ys.length).map (fun x => a * x)
  have hY := (Bc.col ys xs.length).map (fun y => b * y)
  have hZ := (hX.zip_row_col hY (· + ·) rfl rfl rfl rfl).map
    (fun v => if gt then decide (v > c) else decide (v < c))
  exact hZ.ravel_map_eq b2r _ (fun i j hi hj => by cases gt <;> rfl)

theorem rectFast_eq (hx hy cx cy : Rat) (xs ys : List Rat) :
    rectFast hx hy cx cy xs ys = (sepPoints xs ys).map (val (.rect hx hy cx cy)) := by
  unfold rectFast
  have hX := (Bc.row xs ys.length).map (fun x => decide (rabs (x - cx) ≤ hx))
  have hY := (Bc.col ys xs.length).map (fun y => decide (rabs (y - cy) ≤ hy))
  have hZ := hX.zip_row_col hY (fun a b => a && b) rfl rfl rfl rfl
  exact hZ.ravel_map_eq b2r _ (fun i j hi hj => rfl)

theorem ellipseFast_eq (cM sM cm sm cx cy mn : Rat) (xs ys : List Rat) :
    ellipseFast cM sM cm sm cx cy xs ys
      = (sepPoints xs ys).map (val (.ellipse cM sM cm sm cx cy mn)) := by
  unfold ellipseFast
  have hX := Bc.row_map xs (· + cx) ys.length
  have hY := Bc.col_map ys (· + cy) xs.length
  have hXr : (Arr.row (xs.map (· + cx))).nc = xs.length := by simp [Arr.row]
  have hYr : (Arr.col (ys.map (· + cy))).nr = ys.length := by simp [Arr.col]
  have h1 := ((hX.map (· * cM)).zip_row_col (hY.map (· * sM)) (· - ·) rfl hXr hYr rfl).map sq
  have h2 := ((hX.map (· * sm)).zip_row_col (hY.map (· * cm)) (· + ·) rfl hXr hYr rfl).map sq
  have hZ := (h1.zip h2 (· + ·)).map (fun v => decide (v ≤ 1))
  exact hZ.ravel_map_eq b2r _ (fun i j hi hj => rfl)

theorem spiderFast_eq (sx sy c s hl hw : Rat) (xs ys : List Rat) :
    spiderFast sx sy c s hl hw xs ys = (sepPoints xs ys).map (val (.spider sx sy c s hl hw)) := by
  unfold spiderFast
  have hX := (Bc.row xs ys.length).map (· - sx)
  have hY := (Bc.col ys xs.length).map (· - sy)
  have hxn := (hX.map (· * c)).zip_row_col (hY.map (· * s)) (· + ·) rfl rfl rfl rfl
  have hyn := (hY.map (· * c)).zip_col_row (hX.map (· * s)) (· - ·) rfl rfl rfl rfl
  have h1 := hxn.map (fun v => decide (v ≤ hl))
  have h2 := h1.zip (hxn.map (fun v => decide (v ≥ -hl))) (fun a b => a && b)
  have h3 := h2.zip (hyn.map (fun v => decide (v ≤ hw))) (fun a b => a && b)
  have h4 := h3.zip (hyn.map (fun v => decide (v ≥ -hw))) (fun a b => a && b)
  exact h4.ravel_map_eq (fun b => 1 - b2r b) _ (fun i j hi hj => rfl)

theorem spiderInfFast_eq (px py c s hw : Rat) (xs ys : List Rat) :
    spiderInfFast px py c s hw xs ys = (sepPoints xs ys).map (val (.spiderInf px py c s hw)) := by
  unfold spiderInfFast
  have hX := (Bc.row xs ys.length).map (· + px)
  have hY := (Bc.col ys xs.length).map (· + py)
  have hxn := (hX.map (· * c)).zip_row_col (hY.map (· * s)) (· + ·) rfl rfl rfl rfl
  have hyn := (hY.map (· * c)).zip_col_row (hX.map (· * s)) (· - ·) rfl rfl rfl rfl
  have h1 := hyn.map (fun v => decide (v ≤ hw))
  have h2 := h1.zip (hyn.map (fun v => decide (v ≥ -hw))) (fun a b => a && b)
  have h3 := h2.zip (hxn.map (fun v => decide (v ≥ 0))) (fun a b => a && b)
  exact h3.ravel_map_eq (fun b => 1 - b2r b) _ (fun i j hi hj => rfl)

/-! ## C. bounding indices -/

theorem firstTrue_eq_none_iff (b : List Bool) :
    firstTrue b = none ↔ ∀ j, b.getD j false = false := by
  induction b with
  | nil => simp [firstTrue]
  | cons a t ih =>
    cases a with
    | true =>
      simp only [firstTrue, if_true]
      constructor
      · intro h; cases h
      · intro h; have := h 0; simp at this
    | false =>
      simp only [firstTrue, Bool.false_eq_true, if_false, Option.map_eq_none_iff, ih]
      constructor
      · intro h j
        cases j with
        | zero => simp
        | succ j => simpa using h j
      · intro h j
        simpa using h (j + 1)

theorem firstTrue_some {b : List Bool} {k : Nat} (h : firstTrue b = some k) :
    k < b.length ∧ b.getD k false = true ∧ ∀ j, j < k → b.getD j false = false := by
  induction b generalizing k with
  | nil => simp [firstTrue] at h
  | cons a t ih =>
    cases a with
    | true =>
      simp only [firstTrue, if_true, Option.some.injEq] at h
      subst h
      simp
    | false =>
      simp only [firstTrue, Bool.false_eq_true, if_false, Option.map_eq_some_iff] at h
      obtain ⟨k', hk', rfl⟩ := h
      obtain ⟨h1, h2, h3⟩ := ih hk'
      refine ⟨by simp; omega, by simpa using h2, ?_⟩
      intro j hj
      cases j with
      | zero => simp
      | succ j => simpa using h3 j (by omega)

theorem lastTrue_eq_none_iff' (b : List Bool) :
    lastTrue b = none ↔ ∀ j, b.getD j false = false := by
  induction b with
  | nil => simp [lastTrue]
  | cons a t ih =>
    constructor
    · intro h j
      simp only [lastTrue] at h
      cases ht : lastTrue t with
      | some k => rw [ht] at h; cases h
      | none =>
        rw [ht] at h
        cases a with
        | true => simp at h
        | false =>
          cases j with
          | zero => simp
          | succ j => simpa using (ih.mp ht) j
    · intro h
      have ht : lastTrue t = none := ih.mpr (fun j => by simpa using h (j + 1))
      have ha : a = false := by simpa using h 0
      simp [lastTrue, ht, ha]

theorem lastTrue_eq_none_iff (b : List Bool) : lastTrue b = none ↔ firstTrue b = none := by
  rw [lastTrue_eq_none_iff', firstTrue_eq_none_iff]

theorem lastTrue_some {b : List Bool} {k : Nat} (h : lastTrue b = some k) :
    k < b.length ∧ b.getD k false = true ∧ ∀ j, k < j → b.getD j false = false := by
  induction b generalizing k with
  | nil => simp [lastTrue] at h
  | cons a t ih =>
    simp only [lastTrue] at h
    cases ht : lastTrue t with
    | some k' =>
      rw [ht] at h
      simp only [Option.some.injEq] at h
      subst h
      obtain ⟨h1, h2, h3⟩ := ih ht
      refine ⟨by simp; omega, by simpa using h2, ?_⟩
      intro j hj
      cases j with
      | zero => omega
      | succ j => simpa using h3 j (by omega)
    | none =>
      rw [ht] at h
      cases a with
      | false => simp at h
      | true =>
        simp only [if_true, Option.some.injEq] at h
        subst h
        refine ⟨by simp, by simp, ?_⟩
        intro j hj
        cases j with
        | zero => omega
        | succ j => simpa using (lastTrue_eq_none_iff' t).mp ht j

theorem firstTrue_le_lastTrue {b : List Bool} {k l : Nat} (hk : firstTrue b = some k)
    (hl : lastTrue b = some l) : k ≤ l := by
  obtain ⟨_, h2, _⟩ := firstTrue_some hk
  obtain ⟨_, _, h3⟩ := lastTrue_some hl
  by_contra hlt
  have := h3 k (by omega)
  rw [h2] at this; cases this

/-! ## C. regular polygon: the sliced sub-array -/

theorem b2r_mul_and (a b : Bool) : b2r a * b2r b = b2r (a && b) := by
  cases a <;> cases b <;> simp [b2r]


theorem b2r_gt_half_iff_true (b : Bool) : b2r b > 1/2 ↔ b = true := by
  cases b
  · simp [b2r]
  · simp [b2r]; norm_num

theorem Bc.rowSlice (xs : List Rat) (a b R : Nat) :
    Bc (Arr.rowSlice xs a b) R (b - a) (fun _ j => xs.getD (a + j) 0) := by
  refine ⟨Or.inr rfl, Or.inl rfl, ?_⟩
  intro i j hi hj
  show xs.getD (a + if b - a = 1 then 0 else j) 0 = _
  have : (if b - a = 1 then 0 else j) = j := by split <;> omega
  rw [this]

theorem Bc.colSlice (ys : List Rat) (a b C : Nat) :
    Bc (Arr.colSlice ys a b) (b - a) C (fun i _ => ys.getD (a + i) 0) := by
  refine ⟨Or.inl rfl, Or.inr rfl, ?_⟩
  intro i j hi hj
  show ys.getD (a + if b - a = 1 then 0 else i) 0 = _
  have : (if b - a = 1 then 0 else i) = i := by split <;> omega
  rw [this]

theorem hpArr_full (even : Bool) (a : Rat) (d : Rat × Rat) (xs ys : List Rat) (x0 x1 y0 y1 : Nat) :
    Full (hpArr even a d xs ys x0 x1 y0 y1) (y1 - y0) (x1 - x0)
      (fun i j => b2r (hp even a d (xs.getD (x0 + j) 0) (ys.getD (y0 + i) 0))) := by
  have hX := Bc.rowSlice xs x0 x1 (y1 - y0)
  have hY := Bc.colSlice ys y0 y1 (x1 - x0)
  cases even with
  | true =>
    have h := ((hX.map (fun x => d.1 * x)).zip_row_col (hY.map (fun y => d.2 * y)) (· + ·)
      rfl rfl rfl rfl).map (fun v => b2r (decide (sq v ≤ sq a)))
    exact h.congr (fun i j _ _ => by simp [hp])
  | false =>
    have h := ((hX.map (fun x => rabs (d.2 * x))).zip_row_col (hY.map (fun y => d.1 * y)) (· - ·)
      rfl rfl rfl rfl).map (fun v => b2r (decide (v ≤ a)))
    exact h.congr (fun i j _ _ => by simp [hp])

theorem regpoly_fold_full (even : Bool) (a : Rat) (xs ys : List Rat) (x0 x1 y0 y1 : Nat)
    (dirs : List (Rat × Rat)) (F : Arr Rat) (p : Nat → Nat → Bool)
    (hF : Full F (y1 - y0) (x1 - x0) (fun i j => b2r (p i j))) :
    Full (dirs.foldl (fun F d => Arr.zip (· * ·) F (hpArr even a d xs ys x0 x1 y0 y1)) F)
      (y1 - y0) (x1 - x0)
      (fun i j => b2r (p i j && allHp even a dirs (xs.getD (x0 + j) 0) (ys.getD (y0 + i) 0))) := by
  induction dirs generalizing F p with
  | nil => exact hF.congr (fun i j _ _ => by simp [allHp])
  | cons d ds ih =>
    rw [List.foldl_cons]
    have h1 := (hF.zip (hpArr_full even a d xs ys x0 x1 y0 y1) (· * ·)).congr
      (g := fun i j => b2r (p i j && hp even a d (xs.getD (x0 + j) 0) (ys.getD (y0 + i) 0)))
      (fun i j _ _ => b2r_mul_and _ _)
    exact (ih _ _ h1).congr (fun i j _ _ => by simp [allHp, Bool.and_assoc])

theorem boxMask_getD (r : Rat) (xs : List Rat) {j : Nat} (hj : j < xs.length) :
    (xs.map fun x => decide (sq x ≤ sq r)).getD j false = decide (sq (xs.getD j 0) ≤ sq r) :=
  getD_map_lt xs _ 0 false hj

/-- the only place where the `match` of `regpolySub` is taken apart -/
theorem regpolySub_cases (even : Bool) (r a : Rat) (dirs : List (Rat × Rat)) (xs ys : List Rat) :
    (regpolySub even r a dirs xs ys = none ∧
      (firstTrue (xs.map fun x => decide (sq x ≤ sq r)) = none ∨
       firstTrue (ys.map fun y => decide (sq y ≤ sq r)) = none)) ∨
    ∃ x0 x1 y0 y1,
      firstTrue (xs.map fun x => decide (sq x ≤ sq r)) = some x0 ∧
      lastTrue (xs.map fun x => decide (sq x ≤ sq r)) = some x1 ∧
      firstTrue (ys.map fun y => decide (sq y ≤ sq r)) = some y0 ∧
      lastTrue (ys.map fun y => decide (sq y ≤ sq r)) = some y1 ∧
      regpolySub even r a dirs xs ys = some ⟨y0, x0,
        dirs.foldl (fun F d => Arr.zip (· * ·) F (hpArr even a d xs ys x0 (x1 + 1) y0 (y1 + 1)))
          (Arr.zip (· * ·)
            (Arr.map (fun y => b2r (decide (sq y ≤ sq r))) (Arr.colSlice ys y0 (y1 + 1)))
            (Arr.map (fun x => b2r (decide (sq x ≤ sq r))) (Arr.rowSlice xs x0 (x1 + 1))))⟩ := by
  rcases hfx : firstTrue (xs.map fun x => decide (sq x ≤ sq r)) with _ | x0
  · left
    have hlx := (lastTrue_eq_none_iff _).mpr hfx
    exact ⟨by simp only [regpolySub, hfx, hlx], Or.inl rfl⟩
  · rcases hlx : lastTrue (xs.map fun x => decide (sq x ≤ sq r)) with _ | x1
    · rw [(lastTrue_eq_none_iff _).mp hlx] at hfx; cases hfx
    · rcases hfy : firstTrue (ys.map fun y => decide (sq y ≤ sq r)) with _ | y0
      · left
        have hly := (lastTrue_eq_none_iff _).mpr hfy
        exact ⟨by simp only [regpolySub, hfx, hlx, hfy, hly], Or.inr rfl⟩
      · rcases hly : lastTrue (ys.map fun y => decide (sq y ≤ sq r)) with _ | y1
        · rw [(lastTrue_eq_none_iff _).mp hly] at hfy; cases hfy
        · right
          exact ⟨x0, x1, y0, y1, rfl, rfl, rfl, rfl, by
            simp only [regpolySub, hfx, hlx, hfy, hly]⟩

theorem regpolySub_none {even : Bool} {r a : Rat} {dirs : List (Rat × Rat)} {xs ys : List Rat}
    (h : regpolySub even r a dirs xs ys = none) (i j : Nat) (hi : i < ys.length)
    (hj : j < xs.length) :
    (decide (sq (xs.getD j 0) ≤ sq r) && decide (sq (ys.getD i 0) ≤ sq r)) = false := by
  rcases regpolySub_cases even r a dirs xs ys with ⟨_, hx | hy⟩ | ⟨x0, x1, y0, y1, _, _, _, _, h'⟩
  · have := (firstTrue_eq_none_iff _).mp hx j
    rw [boxMask_getD r xs hj] at this
    rw [this]; rfl
  · have := (firstTrue_eq_none_iff _).mp hy i
    rw [boxMask_getD r ys hi] at this
    rw [this, Bool.and_false]
  · rw [h] at h'; cases h'

theorem regpolySub_some {even : Bool} {r a : Rat} {dirs : List (Rat × Rat)} {xs ys : List Rat}
    {sub : Sub} (h : regpolySub even r a dirs xs ys = some sub) :
    sub.y0 + sub.F.nr ≤ ys.length ∧ sub.x0 + sub.F.nc ≤ xs.length ∧
    (∀ i j, sub.y0 ≤ i → i < sub.y0 + sub.F.nr → sub.x0 ≤ j → j < sub.x0 + sub.F.nc →
      sub.F.get (i - sub.y0) (j - sub.x0)
        = b2r (decide (sq (xs.getD j 0) ≤ sq r) && decide (sq (ys.getD i 0) ≤ sq r)
            && allHp even a dirs (xs.getD j 0) (ys.getD i 0))) ∧
    (∀ i j, i < ys.length → j < xs.length →
      ¬ (sub.y0 ≤ i ∧ i < sub.y0 + sub.F.nr ∧ sub.x0 ≤ j ∧ j < sub.x0 + sub.F.nc) →
      (decide (sq (xs.getD j 0) ≤ sq r) && decide (sq (ys.getD i 0) ≤ sq r)) = false) := by
  rcases regpolySub_cases even r a dirs xs ys with ⟨h', _⟩ | ⟨x0, x1, y0, y1, hfx, hlx, hfy, hly, h'⟩
  · rw [h] at h'; cases h'
  rw [h] at h'
  obtain rfl := Option.some.inj h'
  have hX := (Bc.rowSlice xs x0 (x1 + 1) (y1 + 1 - y0)).map (fun x => b2r (decide (sq x ≤ sq r)))
  have hY := (Bc.colSlice ys y0 (y1 + 1) (x1 + 1 - x0)).map (fun y => b2r (decide (sq y ≤ sq r)))
  have hinit := (hY.zip_col_row hX (· * ·) rfl rfl rfl rfl).congr
    (g := fun i j => b2r (decide (sq (xs.getD (x0 + j) 0) ≤ sq r)
      && decide (sq (ys.getD (y0 + i) 0) ≤ sq r)))
    (fun i j _ _ => by rw [b2r_mul_and, Bool.and_comm])
  have hF := regpoly_fold_full even a xs ys x0 (x1 + 1) y0 (y1 + 1) dirs _ _ hinit
  have hxle := firstTrue_le_lastTrue hfx hlx
  have hyle := firstTrue_le_lastTrue hfy hly
  obtain ⟨_, _, hx0⟩ := firstTrue_some hfx
  obtain ⟨hx1, _, hx1'⟩ := lastTrue_some hlx
  obtain ⟨_, _, hy0⟩ := firstTrue_some hfy
  obtain ⟨hy1, _, hy1'⟩ := lastTrue_some hly
  rw [List.length_map] at hx1 hy1
  have enr := hF.nr
  have enc := hF.nc
  dsimp only at enr enc ⊢
  rw [enr, enc]
  refine ⟨by omega, by omega, ?_, ?_⟩
  · intro i j h1 h2 h3 h4
    have := hF.get (i - y0) (j - x0) (by omega) (by omega)
    rw [Nat.add_sub_of_le h1, Nat.add_sub_of_le h3] at this
    exact this
  · intro i j hi hj hout
    by_cases hjx : x0 ≤ j ∧ j ≤ x1
    · have hiy : i < y0 ∨ y1 < i := by omega
      have : decide (sq (ys.getD i 0) ≤ sq r) = false := by
        rw [← boxMask_getD r ys hi]
        rcases hiy with hiy | hiy
        · exact hy0 i hiy
        · exact hy1' i hiy
      rw [this, Bool.and_false]
    · have hjx' : j < x0 ∨ x1 < j := by omega
      have : decide (sq (xs.getD j 0) ≤ sq r) = false := by
        rw [← boxMask_getD r xs hj]
        rcases hjx' with hjx' | hjx'
        · exact hx0 j hjx'
        · exact hx1' j hjx'
      rw [this]; rfl

theorem sq_le_sq_iff_rabs {x r : Rat} (h : 0 ≤ r) : sq x ≤ sq r ↔ rabs x ≤ r := by
  unfold sq rabs
  split
  · constructor
    · intro hx; nlinarith
    · intro hx; nlinarith
  · constructor
    · intro hx; nlinarith
    · intro hx; nlinarith

theorem rabs_eq_abs (x : Rat) : rabs x = |x| := by
  unfold rabs
  split
  · rename_i h; rw [abs_of_nonneg h]
  · rename_i h; rw [abs_of_neg (not_le.mp h)]

theorem inRegpoly_eq {r : Rat} (h : 0 ≤ r) (even : Bool) (a : Rat) (dirs : List (Rat × Rat))
    (cx cy : Rat) (p : Pt) :
    inRegpoly even r a dirs cx cy p
      = (decide (sq (p.1 - cx) ≤ sq r) && decide (sq (p.2 - cy) ≤ sq r)
          && allHp even a dirs (p.1 - cx) (p.2 - cy)) := by
  simp only [inRegpoly, sq_le_sq_iff_rabs h]

theorem regpolyFast_eq {r : Rat} (h : 0 ≤ r) (even : Bool) (a : Rat) (dirs : List (Rat × Rat))
    (cx cy : Rat) (xs ys : List Rat) :
    regpolyFast even r a dirs cx cy xs ys
      = (sepPoints xs ys).map (val (.regpoly even r a dirs cx cy)) := by
  unfold regpolyFast
  have hxg : ∀ j, j < xs.length → (xs.map (· - cx)).getD j 0 = xs.getD j 0 - cx :=
    fun j hj => getD_map_lt xs _ 0 0 hj
  have hyg : ∀ i, i < ys.length → (ys.map (· - cy)).getD i 0 = ys.getD i 0 - cy :=
    fun i hi => getD_map_lt ys _ 0 0 hi
  cases hsub : regpolySub even r a dirs (xs.map (· - cx)) (ys.map (· - cy)) with
  | none =>
    dsimp only
    refine Arr.ravel_eq_map_sepPoints _ xs ys _ rfl rfl ?_
    intro i j hi hj
    have := regpolySub_none hsub i j (by simpa using hi) (by simpa using hj)
    rw [hxg j hj, hyg i hi] at this
    show (0 : Rat) = b2r (inRegpoly even r a dirs cx cy (xs.getD j 0, ys.getD i 0))
    rw [inRegpoly_eq h]
    dsimp only
    rw [this]; rfl
  | some sub =>
    dsimp only
    obtain ⟨h1, h2, h3, h4⟩ := regpolySub_some hsub
    refine Arr.ravel_eq_map_sepPoints _ xs ys _ rfl rfl ?_
    intro i j hi hj
    show (if sub.y0 ≤ i ∧ i < sub.y0 + sub.F.nr ∧ sub.x0 ≤ j ∧ j < sub.x0 + sub.F.nc
          then sub.F.get (i - sub.y0) (j - sub.x0) else 0)
        = b2r (inRegpoly even r a dirs cx cy (xs.getD j 0, ys.getD i 0))
    rw [inRegpoly_eq h]
    dsimp only
    split
    · rename_i hin
      obtain ⟨a1, a2, a3, a4⟩ := hin
      rw [h3 i j a1 a2 a3 a4, hxg j hj, hyg i hi]
    · rename_i hout
      have := h4 i j (by simpa using hi) (by simpa using hj) hout
      rw [hxg j hj, hyg i hi] at this
      rw [this]; rfl

/-! ## D. segmented aperture -/

theorem Arr.setWhere_get {α : Type} (A : Arr α) (r0 c0 : Nat) (M : Arr Bool) (t : α) (i j : Nat) :
    (A.setWhere r0 c0 M t).get i j
      = if r0 ≤ i ∧ i < r0 + M.nr ∧ c0 ≤ j ∧ j < c0 + M.nc ∧ M.get (i - r0) (j - c0) = true then t
        else A.get i j := rfl

theorem Arr.setWhere_nr {α : Type} (A : Arr α) (r0 c0 : Nat) (M : Arr Bool) (t : α) :
    (A.setWhere r0 c0 M t).nr = A.nr := rfl

theorem Arr.setWhere_nc {α : Type} (A : Arr α) (r0 c0 : Nat) (M : Arr Bool) (t : α) :
    (A.setWhere r0 c0 M t).nc = A.nc := rfl

/-- one iteration of the loop over the segments -/
def segStep (even : Bool) (r a : Rat) (dirs : List (Rat × Rat)) (cx cy : Rat)
    (xs ys : List Rat) (res : Arr Rat) (s : Pt × Rat) : Arr Rat :=
  match regpolySub even r a dirs ((xs.map (· - s.1.1)).map (· - cx))
      ((ys.map (· - s.1.2)).map (· - cy)) with
  | none => res
  | some sub => Arr.setWhere res sub.y0 sub.x0 (Arr.map (fun v => decide (v > 1/2)) sub.F) s.2

theorem segFastArr_eq_foldl (even : Bool) (r a : Rat) (dirs : List (Rat × Rat)) (cx cy : Rat)
    (xs ys : List Rat) (segs : List (Pt × Rat)) :
    segFastArr even r a dirs cx cy xs ys segs
      = segs.foldl (segStep even r a dirs cx cy xs ys) (Arr.full ys.length xs.length (0 : Rat)) :=
  rfl

theorem segStep_spec {r : Rat} (h : 0 ≤ r) (even : Bool) (a : Rat) (dirs : List (Rat × Rat))
    (cx cy : Rat) (xs ys : List Rat) (res : Arr Rat) (s : Pt × Rat) :
    (segStep even r a dirs cx cy xs ys res s).nr = res.nr ∧
    (segStep even r a dirs cx cy xs ys res s).nc = res.nc ∧
    ∀ i j, i < ys.length → j < xs.length →
      (segStep even r a dirs cx cy xs ys res s).get i j
        = if val (.regpoly even r a dirs cx cy) (shiftPt s.1.1 s.1.2 (xs.getD j 0, ys.getD i 0)) > 1/2
          then s.2 else res.get i j := by
  have hxg : ∀ j, j < xs.length →
      ((xs.map (· - s.1.1)).map (· - cx)).getD j 0 = xs.getD j 0 - s.1.1 - cx := by
    intro j hj
    rw [getD_map_lt _ _ 0 0 (by simpa using hj), getD_map_lt xs _ 0 0 hj]
  have hyg : ∀ i, i < ys.length →
      ((ys.map (· - s.1.2)).map (· - cy)).getD i 0 = ys.getD i 0 - s.1.2 - cy := by
    intro i hi
    rw [getD_map_lt _ _ 0 0 (by simpa using hi), getD_map_lt ys _ 0 0 hi]
  have hval : ∀ i j, val (.regpoly even r a dirs cx cy)
        (shiftPt s.1.1 s.1.2 (xs.getD j 0, ys.getD i 0))
      = b2r (decide (sq (xs.getD j 0 - s.1.1 - cx) ≤ sq r)
          && decide (sq (ys.getD i 0 - s.1.2 - cy) ≤ sq r)
          && allHp even a dirs (xs.getD j 0 - s.1.1 - cx) (ys.getD i 0 - s.1.2 - cy)) := by
    intro i j
    show b2r (inRegpoly even r a dirs cx cy _) = _
    rw [inRegpoly_eq h]; rfl
  unfold segStep
  cases hsub : regpolySub even r a dirs ((xs.map (· - s.1.1)).map (· - cx))
      ((ys.map (· - s.1.2)).map (· - cy)) with
  | none =>
    dsimp only
    refine ⟨rfl, rfl, ?_⟩
    intro i j hi hj
    have := regpolySub_none hsub i j (by simpa using hi) (by simpa using hj)
    rw [hxg j hj, hyg i hi] at this
    rw [hval, this, Bool.false_and, if_neg]
    simp [b2r]
  | some sub =>
    dsimp only
    obtain ⟨h1, h2, h3, h4⟩ := regpolySub_some hsub
    refine ⟨rfl, rfl, ?_⟩
    intro i j hi hj
    rw [Arr.setWhere_get, hval]
    show (if sub.y0 ≤ i ∧ i < sub.y0 + sub.F.nr ∧ sub.x0 ≤ j ∧ j < sub.x0 + sub.F.nc ∧
          decide (sub.F.get (i - sub.y0) (j - sub.x0) > 1/2) = true then s.2 else res.get i j) = _
    by_cases hin : sub.y0 ≤ i ∧ i < sub.y0 + sub.F.nr ∧ sub.x0 ≤ j ∧ j < sub.x0 + sub.F.nc
    · obtain ⟨a1, a2, a3, a4⟩ := hin
      have hF := h3 i j a1 a2 a3 a4
      rw [hxg j hj, hyg i hi] at hF
      rw [hF]
      apply if_congr _ rfl rfl
      simp only [a1, a2, a3, a4, true_and, decide_eq_true_eq]
    · have := h4 i j (by simpa using hi) (by simpa using hj) hin
      rw [hxg j hj, hyg i hi] at this
      rw [this, Bool.false_and, if_neg, if_neg]
      · simp [b2r]
      · intro hc; exact hin ⟨hc.1, hc.2.1, hc.2.2.1, hc.2.2.2.1⟩

theorem segFold_foldl {r : Rat} (h : 0 ≤ r) (even : Bool) (a : Rat) (dirs : List (Rat × Rat))
    (cx cy : Rat) (xs ys : List Rat) (segs : List (Pt × Rat)) (res0 : Arr Rat)
    (hr : res0.nr = ys.length) (hc : res0.nc = xs.length) :
    (segs.foldl (segStep even r a dirs cx cy xs ys) res0).nr = ys.length ∧
    (segs.foldl (segStep even r a dirs cx cy xs ys) res0).nc = xs.length ∧
    ∀ i j, i < ys.length → j < xs.length →
      (segs.foldl (segStep even r a dirs cx cy xs ys) res0).get i j
        = segFold (val (.regpoly even r a dirs cx cy)) (xs.getD j 0, ys.getD i 0) segs
            (res0.get i j) := by
  induction segs generalizing res0 with
  | nil => exact ⟨hr, hc, fun i j _ _ => rfl⟩
  | cons s segs ih =>
    obtain ⟨s1, s2, s3⟩ := segStep_spec h even a dirs cx cy xs ys res0 s
    obtain ⟨t1, t2, t3⟩ := ih (segStep even r a dirs cx cy xs ys res0 s) (s1.trans hr) (s2.trans hc)
    rw [List.foldl_cons]
    refine ⟨t1, t2, ?_⟩
    intro i j hi hj
    rw [t3 i j hi hj, s3 i j hi hj]
    rfl

theorem segFastArr_get {r : Rat} (h : 0 ≤ r) (even : Bool) (a : Rat) (dirs : List (Rat × Rat))
    (cx cy : Rat) (xs ys : List Rat) (segs : List (Pt × Rat)) :
    (segFastArr even r a dirs cx cy xs ys segs).nr = ys.length ∧
    (segFastArr even r a dirs cx cy xs ys segs).nc = xs.length ∧
    ∀ i j, i < ys.length → j < xs.length →
      (segFastArr even r a dirs cx cy xs ys segs).get i j
        = segFold (val (.regpoly even r a dirs cx cy)) (xs.getD j 0, ys.getD i 0) segs 0 := by
  rw [segFastArr_eq_foldl]
  exact segFold_foldl h even a dirs cx cy xs ys segs _ rfl rfl

theorem segFast_eq {r : Rat} (h : 0 ≤ r) (even : Bool) (a : Rat) (dirs : List (Rat × Rat))
    (cx cy : Rat) (xs ys : List Rat) (segs : List (Pt × Rat)) :
    (segFastArr even r a dirs cx cy xs ys segs).ravel
      = (sepPoints xs ys).map (val (.seg segs (.regpoly even r a dirs cx cy))) := by
  obtain ⟨h1, h2, h3⟩ := segFastArr_get h even a dirs cx cy xs ys segs
  exact Arr.ravel_eq_map_sepPoints _ xs ys _ h1 h2 (fun i j hi hj => by rw [h3 i j hi hj]; rfl)

end HcipyVerif.Aperture
