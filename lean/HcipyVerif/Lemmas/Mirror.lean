import HcipyVerif.Model.Mirror
import Mathlib.Tactic.Ring

/-! Helper lemmas for the mirror half of C14: the cache invariant and its preservation. -/
set_option linter.unusedSimpArgs false
set_option linter.unusedVariables false
set_option linter.unusedSectionVars false

namespace HcipyVerif.Mirror
open HcipyVerif.ModeBasis
variable {K : Type} [Zero K] [Add K] [Mul K] [DecidableEq K]

/-- The cache invariant: whatever actuator vector the cache claims to belong to, the cached
surface is the linear combination for *that* vector (with the current influence functions). -/
def Inv (m : Mirror K) : Prop := ∀ a, m.cached = some a → m.surface = matvec m.infl a

theorem inv_init (infl : List (List K)) (n : Nat) : Inv (init infl n) := by
  intro a h; simp [init] at h

theorem read_fst_spec (m : Mirror K) : spec (read m).1 = spec m := by
  unfold read; split <;> rfl

theorem read_snd (m : Mirror K) (h : Inv m) : (read m).2 = matvec m.infl (acts m) := by
  unfold read
  split
  · next hc => exact h _ hc
  · rfl

theorem read_inv (m : Mirror K) (h : Inv m) : Inv (read m).1 := by
  unfold read
  split
  · exact h
  · intro a ha
    simp at ha
    subst ha; rfl

theorem step_inv (m : Mirror K) (op : Op K) (h : Inv m) : Inv (step m op).1 := by
  cases op with
  | read => exact read_inv m h
  | setInfl i n => intro a ha; simp [step] at ha
  | reassign j =>
    simp only [step]
    split
    · exact h
    · exact h
  | _ => exact h

theorem step_spec (m : Mirror K) (op : Op K) (h : Inv m) :
    spec (step m op).1 = ((spec m).step op).1 ∧ (step m op).2 = ((spec m).step op).2 := by
  cases op with
  | read =>
    refine ⟨read_fst_spec m, ?_⟩
    simp only [step, Spec.step]
    rw [read_snd m h]; rfl
  | reassign j =>
    simp only [step, Spec.step, spec]
    by_cases hj : j < m.heap.length <;> simp [hj]
  | _ => simp [step, Spec.step, spec]

theorem run_spec (m : Mirror K) (ops : List (Op K)) (h : Inv m) :
    (run m ops).2 = (spec m).run ops := by
  induction ops generalizing m with
  | nil => rfl
  | cons op rest ih =>
    simp only [run, Spec.run]
    obtain ⟨h1, h2⟩ := step_spec m op h
    rw [ih _ (step_inv m op h), h1, h2]

end HcipyVerif.Mirror
