import HcipyVerif.Model.Mirror
import Mathlib.Tactic.Ring

/-! Helper lemmas for the mirror half of C14: the cache invariant and its preservation. -/
set_option linter.unusedSimpArgs false
set_option linter.unusedVariables false
set_option linter.unusedSectionVars false

namespace HcipyVerif.Mirror
open HcipyVerif.ModeBasis
variable {K : Type} [Zero K] [Add K] [Mul K] [DecidableEq K]

/-- The cache invariant.
* `cache`: whatever actuator vector the cache claims to belong to, the cached surface array
  holds the linear combination for *that* vector (with the current influence functions);
* `surf_lt`, `outs_lt`: handles point into the heap of surface arrays;
* `outs_ne`: **no array the caller holds is the cached array** — the clause the repair
  (pending_fixes/D22f) establishes, and the one `Old.readAlias` breaks. -/
structure Inv (m : Mirror K) : Prop where
  cache : ∀ a, m.cached = some a → surface m = matvec m.infl a
  surf_lt : m.surf < m.sheap.length
  outs_lt : ∀ h ∈ m.outs, h < m.sheap.length
  outs_ne : ∀ h ∈ m.outs, h ≠ m.surf

theorem inv_init (infl : List (List K)) (n : Nat) : Inv (init infl n) :=
  ⟨by intro a h; simp [init] at h, by simp [init], by simp [init], by simp [init]⟩

/-! ### the three building blocks of a read -/

theorem getD_append_lt {α} (l l' : List α) (d : α) (i : Nat) (h : i < l.length) :
    (l ++ l').getD i d = l.getD i d := by
  simp [List.getD_eq_getElem?_getD, List.getElem?_append_left h]

theorem getD_append_length {α} (l : List α) (x d : α) : (l ++ [x]).getD l.length d = x := by
  simp [List.getD_eq_getElem?_getD]

theorem getD_modify_ne {α} (l : List α) (f : α → α) (d : α) (h i : Nat) (hne : h ≠ i) :
    (l.modify h f).getD i d = l.getD i d := by
  simp [List.getD_eq_getElem?_getD, List.getElem?_modify, hne]

theorem spec_recompute (m : Mirror K) : spec (recompute m) = spec m := rfl
theorem acts_recompute (m : Mirror K) : acts (recompute m) = acts m := rfl

theorem surface_recompute (m : Mirror K) : surface (recompute m) = matvec m.infl (acts m) := by
  simp only [surface, recompute]
  exact getD_append_length _ _ _

theorem recompute_inv (m : Mirror K) (h : Inv m) : Inv (recompute m) := by
  refine ⟨?_, ?_, ?_, ?_⟩
  · intro a ha
    rw [surface_recompute]
    simp only [recompute, Option.some.injEq] at ha
    subst ha; rfl
  · simp [recompute]
  · intro x hx
    have := h.outs_lt x hx
    simp only [recompute, List.length_append, List.length_cons, List.length_nil]
    omega
  · intro x hx
    have := h.outs_lt x hx
    simp only [recompute]
    omega

theorem spec_handCopy (m : Mirror K) : spec (handCopy m).1 = spec m := rfl
theorem handCopy_snd (m : Mirror K) : (handCopy m).2 = surface m := rfl

theorem surface_handCopy (m : Mirror K) (h : m.surf < m.sheap.length) :
    surface (handCopy m).1 = surface m := by
  simp only [surface, handCopy]
  exact getD_append_lt _ _ _ _ h

theorem handCopy_inv (m : Mirror K) (h : Inv m) : Inv (handCopy m).1 := by
  refine ⟨?_, ?_, ?_, ?_⟩
  · intro a ha
    rw [surface_handCopy m h.surf_lt]
    exact h.cache a ha
  · have := h.surf_lt
    simp only [handCopy, List.length_append, List.length_cons, List.length_nil]
    omega
  · intro x hx
    simp only [handCopy, List.mem_append, List.mem_singleton] at hx
    simp only [handCopy, List.length_append, List.length_cons, List.length_nil]
    rcases hx with hx | rfl
    · have := h.outs_lt x hx; omega
    · omega
  · intro x hx
    simp only [handCopy, List.mem_append, List.mem_singleton] at hx
    simp only [handCopy]
    rcases hx with hx | rfl
    · exact h.outs_ne x hx
    · have := h.surf_lt; omega

theorem spec_editOut (m : Mirror K) (k i : Nat) (v : K) : spec (editOut m k i v) = spec m := by
  unfold editOut; split <;> rfl

/-- An in-place edit of an array the caller received leaves the cached surface alone — because
that array is never the cached one (`outs_ne`). -/
theorem surface_editOut (m : Mirror K) (h : Inv m) (k i : Nat) (v : K) :
    surface (editOut m k i v) = surface m := by
  unfold editOut
  split
  · next x hx =>
    simp only [surface]
    exact getD_modify_ne _ _ _ _ _ (h.outs_ne x (List.mem_of_getElem? hx))
  · rfl

theorem editOut_inv (m : Mirror K) (h : Inv m) (k i : Nat) (v : K) : Inv (editOut m k i v) := by
  have hs := surface_editOut m h k i v
  unfold editOut at hs ⊢
  split
  · next x hx =>
    rw [hx] at hs
    refine ⟨?_, ?_, ?_, ?_⟩
    · intro a ha; rw [hs]; exact h.cache a ha
    · simpa using h.surf_lt
    · intro y hy; simpa using h.outs_lt y hy
    · exact h.outs_ne
  · exact h

/-! ### the `surface` property -/

theorem read_fst_spec (m : Mirror K) : spec (read m).1 = spec m := by
  unfold read; split <;> rfl

theorem read_snd (m : Mirror K) (h : Inv m) : (read m).2 = matvec m.infl (acts m) := by
  unfold read
  split
  · next hc => rw [handCopy_snd]; exact h.cache _ hc
  · rw [handCopy_snd, surface_recompute]

theorem read_inv (m : Mirror K) (h : Inv m) : Inv (read m).1 := by
  unfold read
  split
  · exact handCopy_inv m h
  · exact handCopy_inv _ (recompute_inv m h)

/-- a change of state that does not touch the surface arrays, the influence functions or the
cache record keeps the invariant -/
theorem inv_of_same (m m' : Mirror K) (h : Inv m) (h1 : m'.sheap = m.sheap) (h2 : m'.surf = m.surf)
    (h3 : m'.outs = m.outs) (h4 : m'.infl = m.infl) (h5 : m'.cached = m.cached) : Inv m' := by
  refine ⟨?_, ?_, ?_, ?_⟩
  · intro a ha
    have := h.cache a (h5 ▸ ha)
    simpa only [surface, h1, h2, h4] using this
  · rw [h1, h2]; exact h.surf_lt
  · rw [h1, h3]; exact h.outs_lt
  · rw [h2, h3]; exact h.outs_ne

theorem step_inv (m : Mirror K) (op : Op K) (h : Inv m) : Inv (step m op).1 := by
  cases op with
  | read => exact read_inv m h
  | editSurface k i v => exact editOut_inv m h k i v
  | setInfl i n =>
    exact ⟨by intro a ha; simp [step] at ha, h.surf_lt, h.outs_lt, h.outs_ne⟩
  | reassign j =>
    simp only [step]
    split
    · exact inv_of_same m _ h rfl rfl rfl rfl rfl
    · exact h
  | _ => exact inv_of_same m _ h rfl rfl rfl rfl rfl

theorem step_spec (m : Mirror K) (op : Op K) (h : Inv m) :
    spec (step m op).1 = ((spec m).step op).1 ∧ (step m op).2 = ((spec m).step op).2 := by
  cases op with
  | read =>
    refine ⟨read_fst_spec m, ?_⟩
    simp only [step, Spec.step]
    rw [read_snd m h]; rfl
  | editSurface k i v => exact ⟨spec_editOut m k i v, rfl⟩
  | reassign j =>
    simp only [step, Spec.step, spec]
    by_cases hj : j < m.heap.length <;> simp [hj]
  | _ => simp [step, Spec.step, spec]

/-- the driver's lockstep: stepping the specification alongside the cached mirror is the same as
projecting the cached mirror's state -/
theorem run_spec_state (m : Mirror K) (ops : List (Op K)) (h : Inv m) :
    spec (run m ops).1 = (spec m).after ops := by
  induction ops generalizing m with
  | nil => rfl
  | cons op rest ih =>
    simp only [run, Spec.after]
    rw [ih _ (step_inv m op h), (step_spec m op h).1]

theorem run_inv (m : Mirror K) (ops : List (Op K)) (h : Inv m) : Inv (run m ops).1 := by
  induction ops generalizing m with
  | nil => exact h
  | cons op rest ih => exact ih _ (step_inv m op h)

theorem run_spec (m : Mirror K) (ops : List (Op K)) (h : Inv m) :
    (run m ops).2 = (spec m).run ops := by
  induction ops generalizing m with
  | nil => rfl
  | cons op rest ih =>
    simp only [run, Spec.run]
    obtain ⟨h1, h2⟩ := step_spec m op h
    rw [ih _ (step_inv m op h), h1, h2]

end HcipyVerif.Mirror
