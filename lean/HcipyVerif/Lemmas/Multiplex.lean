import Mathlib.Tactic.Ring
import Mathlib.Tactic.Linarith
import HcipyVerif.Model.Multiplex

/-!
# `multiplex_for_tensor_fields`: layout of the tensor components in the raveled array
-/
set_option linter.unusedSimpArgs false
set_option linter.unusedVariables false

namespace HcipyVerif.Fft

/-- a valid tensor multi-index: one entry per tensor axis, each below its extent -/
def TensorIdx : List Nat → List Nat → Prop
  | [], [] => True
  | t :: ts, i :: is => i < t ∧ TensorIdx ts is
  | _, _ => False

theorem tensorRavel_lt : ∀ (ts idx : List Nat), TensorIdx ts idx → tensorRavel ts idx < tensorSize ts
  | [], [], _ => by simp [tensorRavel, tensorSize]
  | [], _ :: _, h => by simp [TensorIdx] at h
  | _ :: _, [], h => by simp [TensorIdx] at h
  | t :: ts, i :: is, h => by
    obtain ⟨hi, hrest⟩ := h
    have ih := tensorRavel_lt ts is hrest
    simp only [tensorRavel, tensorSize]
    calc i * tensorSize ts + tensorRavel ts is < i * tensorSize ts + tensorSize ts := by omega
      _ = (i + 1) * tensorSize ts := by ring
      _ ≤ t * tensorSize ts := Nat.mul_le_mul_right _ hi

/-- block `t` of the raveled output is `func` of block `t` of the raveled input -/
theorem multiplexTensor_block {C : Type} (func : (ℕ → C) → ℕ → C) (ts : List ℕ) (hts : ts ≠ [])
    (n m : ℕ) (X : ℕ → C) (t k : ℕ) (hk : k < m) :
    multiplexTensor func ts n m X (t * m + k) = func (fun j => X (t * n + j)) k := by
  have hm : 0 < m := by omega
  have hne : ts.isEmpty = false := by cases ts <;> simp_all
  have h1 : (t * m + k) / m = t := by
    rw [Nat.mul_comm, Nat.mul_add_div hm, Nat.div_eq_of_lt hk, Nat.add_zero]
  have h2 : (t * m + k) % m = k := by
    rw [Nat.mul_comm, Nat.mul_add_mod, Nat.mod_eq_of_lt hk]
  simp only [multiplexTensor, hne, Bool.false_eq_true, if_false, h1, h2]

theorem multiplexTensor_scalar {C : Type} (func : (ℕ → C) → ℕ → C) (n m : ℕ) (X : ℕ → C) :
    multiplexTensor func [] n m X = func X := rfl

end HcipyVerif.Fft
