import Mathlib.Data.Rat.Floor
import Mathlib.Data.Fintype.Card
import Mathlib.Data.Fintype.Prod
import HcipyVerif.Lemmas.NearField
import HcipyVerif.Lemmas.FourierLinkC04

/-!
# C04 — the executable bookkeeping (`Model/NearField.lean`) as the data of the `FourierFilter` operator

`Lemmas/NearField.lean` proves the clauses for `filter P e D` with an abstract cut-out `e` and an abstract
transfer function `D`.  Here both are *built from the definitions the driver runs*:

* `cutoutEmb p h` — the cut-out as the product of `embY p`, `embX p` (= `cutStart` + index, what the driver op
  `emb` prints and the harness lays the input out with), injective, bijective when `cutout p = none`;
* `sampledTF p iy ix` — the mean over the executable `subFreqs p ix iy` of `fresnelD` / `angularD` at the
  wavenumber `2πn/λ` and the spatial frequencies `2πν` (the same `subFreqs` whose phases the driver op `tf`
  prints), `modelD p Dir` — what `make_instance` selects: `Dir` (the impulse-response transfer function,
  left arbitrary) when `impulseBranch p`, the sampled transfer function (at the `ifftshift`ed index) otherwise;
* `propagate p h Dir = filter (dftPair2 (my p) (mx p)) (cutoutEmb p h) (modelD p Dir)`.
-/

set_option linter.unusedSimpArgs false
set_option linter.unusedVariables false
set_option linter.unusedSectionVars false

open Finset Complex ComplexConjugate

namespace HcipyVerif.NearField

open HcipyVerif.Fft (sumRange_eq)

/-! ## padded sizes and the cut-out embedding -/

theorem roundHalfEven_ge_floor (q : ℚ) : q.floor ≤ roundHalfEven q := by
  unfold roundHalfEven
  simp only
  split_ifs <;> omega

/-- A padding factor `≥ 1` never shrinks the axis. -/
theorem padded_ge {q : ℚ} (hq : 1 ≤ q) (N : ℕ) : N ≤ padded q N := by
  unfold padded
  have h1 : (N : ℤ) ≤ (q * (N : ℚ)).floor := by
    show (N : ℤ) ≤ ⌊q * (N : ℚ)⌋
    rw [Int.le_floor]
    have : (0 : ℚ) ≤ (N : ℚ) := Nat.cast_nonneg N
    push_cast
    nlinarith
  have h2 := roundHalfEven_ge_floor (q * (N : ℚ))
  omega

theorem padOK_iff (p : Params) :
    padOK p = true ↔ 0 < p.nx ∧ 0 < p.ny ∧ 1 ≤ effQx p ∧ 1 ≤ effQy p := by
  unfold padOK
  simp only [Bool.and_eq_true, decide_eq_true_eq, and_assoc]

theorem nx_le_mx {p : Params} (h : padOK p = true) : p.nx ≤ mx p :=
  padded_ge ((padOK_iff p).mp h).2.2.1 p.nx

theorem ny_le_my {p : Params} (h : padOK p = true) : p.ny ≤ my p :=
  padded_ge ((padOK_iff p).mp h).2.2.2 p.ny

theorem mx_pos {p : Params} (h : padOK p = true) : 0 < mx p :=
  lt_of_lt_of_le ((padOK_iff p).mp h).1 (nx_le_mx h)

theorem my_pos {p : Params} (h : padOK p = true) : 0 < my p :=
  lt_of_lt_of_le ((padOK_iff p).mp h).2.1 (ny_le_my h)

/-- The slice `start : start+N` stays inside the padded axis. -/
theorem embAxis_lt {M N i : ℕ} (hNM : N ≤ M) (hi : i < N) : embAxis M N i < M := by
  unfold embAxis cutStart
  omega

theorem embAxis_injective (M N : ℕ) : Function.Injective (embAxis M N) := by
  intro a b h
  unfold embAxis at h
  omega

/-- **The executable cut-out as an embedding of the input grid into the internal grid**: input pixel
`(iy, ix)` is written to (and read back from) internal pixel `(embY p iy, embX p ix)`. -/
def cutoutEmb (p : Params) (h : padOK p = true) : Fin p.ny × Fin p.nx → Fin (my p) × Fin (mx p) :=
  fun j => (⟨embY p j.1, embAxis_lt (ny_le_my h) j.1.2⟩, ⟨embX p j.2, embAxis_lt (nx_le_mx h) j.2.2⟩)

theorem cutoutEmb_val (p : Params) (h : padOK p = true) (j : Fin p.ny × Fin p.nx) :
    ((cutoutEmb p h j).1 : ℕ) = cutStart (my p) p.ny + j.1 ∧ ((cutoutEmb p h j).2 : ℕ) = cutStart (mx p) p.nx + j.2 :=
  ⟨rfl, rfl⟩

theorem cutoutEmb_injective (p : Params) (h : padOK p = true) : Function.Injective (cutoutEmb p h) := by
  intro a b hab
  have h1 := congrArg (fun t => (t.1 : ℕ)) hab
  have h2 := congrArg (fun t => (t.2 : ℕ)) hab
  simp only [cutoutEmb, embY, embX] at h1 h2
  exact Prod.ext (Fin.ext (embAxis_injective _ _ h1)) (Fin.ext (embAxis_injective _ _ h2))

theorem cutout_eq_none_iff (p : Params) : cutout p = none ↔ mx p = p.nx ∧ my p = p.ny := by
  unfold cutout
  split_ifs with h
  · simp [h]
  · simp [h]

/-- With nothing padded the cut-out is a bijection (it is the identity on indices). -/
theorem cutoutEmb_bijective (p : Params) (h : padOK p = true) (hc : cutout p = none) :
    Function.Bijective (cutoutEmb p h) := by
  rw [Fintype.bijective_iff_injective_and_card]
  refine ⟨cutoutEmb_injective p h, ?_⟩
  obtain ⟨hx, hy⟩ := (cutout_eq_none_iff p).mp hc
  simp only [Fintype.card_prod, Fintype.card_fin, hx, hy]

theorem cutoutEmb_val_of_none (p : Params) (h : padOK p = true) (hc : cutout p = none)
    (j : Fin p.ny × Fin p.nx) :
    ((cutoutEmb p h j).1 : ℕ) = j.1 ∧ ((cutoutEmb p h j).2 : ℕ) = j.2 := by
  obtain ⟨hx, hy⟩ := (cutout_eq_none_iff p).mp hc
  simp only [cutoutEmb, embY, embX, embAxis, cutStart, hx, hy]
  omega

/-- The slices `cutout p` reports are the image of the embedding: rows `y0 … y1`, columns `x0 … x1`. -/
theorem cutoutEmb_of_cutout (p : Params) (h : padOK p = true) {y0 y1 x0 x1 : ℕ}
    (hc : cutout p = some (y0, y1, x0, x1)) (j : Fin p.ny × Fin p.nx) :
    ((cutoutEmb p h j).1 : ℕ) = y0 + j.1 ∧ ((cutoutEmb p h j).2 : ℕ) = x0 + j.2 ∧
      y1 = y0 + p.ny ∧ x1 = x0 + p.nx := by
  unfold cutout at hc
  split_ifs at hc with hh
  simp only [Option.some.injEq, Prod.mk.injEq] at hc
  obtain ⟨rfl, rfl, rfl, rfl⟩ := hc
  exact ⟨rfl, rfl, rfl, rfl⟩

/-- What the driver prints (`emb`): the rows / columns of the embedding, in order. -/
theorem embRows_getElem (p : Params) (h : padOK p = true) (j : Fin p.ny × Fin p.nx) :
    (embRows p)[(j.1 : ℕ)]? = some ((cutoutEmb p h j).1 : ℕ) ∧
      (embCols p)[(j.2 : ℕ)]? = some ((cutoutEmb p h j).2 : ℕ) := by
  unfold embRows embCols
  simp [cutoutEmb, j.1.2, j.2.2]

/-! ## list means (sub-pixel averages over the executable `subFreqs`) -/

noncomputable def listMean (l : List ℂ) : ℂ := l.sum / (l.length : ℂ)

theorem listMean_singleton (a : ℂ) : listMean [a] = a := by
  simp [listMean]

/-- Bridge (ii): the mean over a single sub-sample is that sub-sample (`num_oversampling = 1`). -/
theorem meanOver_singleton {σ : Type*} (s : σ) (f : σ → ℂ) : meanOver {s} f = f s := by
  simp [meanOver]

theorem norm_list_sum_le (l : List ℂ) (h : ∀ a ∈ l, ‖a‖ ≤ 1) : ‖l.sum‖ ≤ (l.length : ℝ) := by
  induction l with
  | nil => simp
  | cons a l ih =>
    rw [List.sum_cons, List.length_cons]
    have h1 : ‖a‖ ≤ 1 := h a (List.mem_cons_self)
    have h2 := ih (fun b hb => h b (List.mem_cons_of_mem _ hb))
    have := norm_add_le a l.sum
    push_cast
    linarith

theorem norm_listMean_le_one (l : List ℂ) (h : ∀ a ∈ l, ‖a‖ ≤ 1) : ‖listMean l‖ ≤ 1 := by
  unfold listMean
  by_cases hl : l.length = 0
  · simp [hl]
  have hpos : (0 : ℝ) < l.length := by exact_mod_cast Nat.pos_of_ne_zero hl
  rw [norm_div, Complex.norm_natCast, div_le_one hpos]
  exact norm_list_sum_le l h

theorem conj_list_sum (l : List ℂ) : conj l.sum = (l.map conj).sum := by
  induction l with
  | nil => simp
  | cons a l ih => simp [ih]

theorem conj_listMean (l : List ℂ) : conj (listMean l) = listMean (l.map conj) := by
  unfold listMean
  rw [map_div₀, conj_list_sum, Complex.conj_natCast, List.length_map]

/-- A list mean is a `meanOver` (over the positions of the list), so the `meanOver` theorems apply to it. -/
theorem listMean_map_eq_meanOver {α : Type*} (l : List α) (f : α → ℂ) :
    listMean (l.map f) = meanOver (Finset.univ : Finset (Fin l.length)) (fun i => f l[i]) := by
  unfold listMean meanOver
  rw [← Fin.sum_univ_fun_getElem l f]
  simp

/-! ## the transfer function `make_instance` builds, from the executable sample points -/

/-- `k = 2π n / λ`. -/
noncomputable def waveK (p : Params) : ℝ := 2 * Real.pi * (p.n : ℝ) / (p.lam : ℝ)

/-- `transfer_function_native` of `FresnelPropagator` at the spatial frequency `ν` (cycles per unit). -/
noncomputable def fresnelAt (p : Params) (ν : ℚ × ℚ) : ℂ :=
  fresnelD (waveK p) (p.z : ℝ) (2 * Real.pi * (ν.1 : ℝ)) (2 * Real.pi * (ν.2 : ℝ))

/-- `transfer_function_native` of `AngularSpectrumPropagator` (repaired) at the spatial frequency `ν`. -/
noncomputable def angularAt (p : Params) (ν : ℚ × ℚ) : ℂ :=
  angularD (waveK p) (p.z : ℝ) ((2 * Real.pi * (ν.1 : ℝ)) ^ 2 + (2 * Real.pi * (ν.2 : ℝ)) ^ 2)

noncomputable def nativeAt (p : Params) : ℚ × ℚ → ℂ :=
  match p.kind with
  | .fresnel => fresnelAt p
  | .angular => angularAt p

/-- `evaluate_supersampled(transfer_function_native, internal_grid, s)` at the centred internal pixel
`(iy, ix)`: the mean over the executable sub-sample frequencies. -/
noncomputable def sampledTF (p : Params) (iy ix : ℕ) : ℂ :=
  listMean ((subFreqs p ix iy).map (nativeAt p))

/-- The array `FourierFilter` multiplies the FFT with (after its `ifftshift`), as `make_instance` selects it:
the impulse-response transfer function `Dir` (not modelled over `ℂ`: any function) when the transfer function
would be under-sampled, the sampled transfer function otherwise. -/
noncomputable def modelD (p : Params) (Dir : Fin (my p) × Fin (mx p) → ℂ) : Fin (my p) × Fin (mx p) → ℂ :=
  fun m => if impulseBranch p = true then Dir m
    else sampledTF p (ifftshiftIdx (my p) m.1) (ifftshiftIdx (mx p) m.2)

/-- Bridge (iv): on the transfer-function branch `D` *is* the sub-pixel mean of the native transfer function. -/
theorem modelD_of_tf {p : Params} (hb : impulseBranch p = false) (Dir : Fin (my p) × Fin (mx p) → ℂ)
    (m : Fin (my p) × Fin (mx p)) :
    modelD p Dir m = sampledTF p (ifftshiftIdx (my p) m.1) (ifftshiftIdx (mx p) m.2) := by
  unfold modelD
  rw [if_neg (by rw [hb]; exact Bool.false_ne_true)]

theorem modelD_of_ir {p : Params} (hb : impulseBranch p = true) (Dir : Fin (my p) × Fin (mx p) → ℂ) :
    modelD p Dir = Dir := by
  funext m
  unfold modelD
  rw [if_pos hb]

/-- The regime as the property words it lies on the transfer-function branch. -/
theorem statedRegime_tf {p : Params} (h : statedRegime p = true) : impulseBranch p = false := by
  unfold statedRegime at h
  simp only [Bool.and_eq_true, Bool.not_eq_true'] at h
  exact h.1.1

theorem norm_nativeAt_le_one (p : Params) (ν : ℚ × ℚ) : ‖nativeAt p ν‖ ≤ 1 := by
  unfold nativeAt
  cases p.kind with
  | fresnel => exact (norm_fresnelD _ _ _ _).le
  | angular =>
    show ‖angularD _ _ _‖ ≤ 1
    by_cases h : ((2 * Real.pi * (ν.1 : ℝ)) ^ 2 + (2 * Real.pi * (ν.2 : ℝ)) ^ 2) ≤ (waveK p) ^ 2
    · rw [angularD_of_propagating h, Complex.norm_exp_ofReal_mul_I]
    · rw [angularD_of_evanescent h, Complex.norm_exp_ofReal, Real.exp_le_one_iff]
      have := Real.sqrt_nonneg (((2 * Real.pi * (ν.1 : ℝ)) ^ 2 + (2 * Real.pi * (ν.2 : ℝ)) ^ 2) - (waveK p) ^ 2)
      have := abs_nonneg (p.z : ℝ)
      nlinarith

theorem norm_sampledTF_le_one (p : Params) (iy ix : ℕ) : ‖sampledTF p iy ix‖ ≤ 1 := by
  unfold sampledTF
  apply norm_listMean_le_one
  intro a ha
  rw [List.mem_map] at ha
  obtain ⟨ν, _, rfl⟩ := ha
  exact norm_nativeAt_le_one p ν

theorem norm_modelD_le_one {p : Params} (hb : impulseBranch p = false) (Dir : Fin (my p) × Fin (mx p) → ℂ)
    (m : Fin (my p) × Fin (mx p)) : ‖modelD p Dir m‖ ≤ 1 := by
  rw [modelD_of_tf hb]
  exact norm_sampledTF_le_one p _ _

/-! ## no oversampling: one sub-sample, the un-averaged transfer function -/

theorem dithers_one : dithers 1 = [0] := by
  unfold dithers
  simp [List.range_succ]

theorem subFreqs_of_no_oversampling {p : Params} (hx : p.sx = 1) (hy : p.sy = 1) (ix iy : ℕ) :
    subFreqs p ix iy = [(nu p.dx (mx p) ix 0, nu p.dy (my p) iy 0)] := by
  unfold subFreqs
  rw [hx, hy, dithers_one]
  simp

/-- Bridge (ii) for the executable model: with `num_oversampling = 1` the sampled transfer function is the
native transfer function at the pixel's own frequency. -/
theorem sampledTF_of_no_oversampling {p : Params} (hx : p.sx = 1) (hy : p.sy = 1) (iy ix : ℕ) :
    sampledTF p iy ix = nativeAt p (nu p.dx (mx p) ix 0, nu p.dy (my p) iy 0) := by
  unfold sampledTF
  rw [subFreqs_of_no_oversampling hx hy, List.map_singleton, listMean_singleton]

theorem norm_modelD_fresnel_unpadded {p : Params} (hk : p.kind = .fresnel) (hx : p.sx = 1) (hy : p.sy = 1)
    (hb : impulseBranch p = false) (Dir : Fin (my p) × Fin (mx p) → ℂ) (m : Fin (my p) × Fin (mx p)) :
    ‖modelD p Dir m‖ = 1 := by
  rw [modelD_of_tf hb, sampledTF_of_no_oversampling hx hy]
  unfold nativeAt
  rw [hk]
  exact norm_fresnelD _ _ _ _

/-! ## the distance enters through `withParam p (.distance z)` only -/

/-- Bridge (iii): the branch decision depends on `|z|` only. -/
theorem impulseBranch_neg_z (p : Params) :
    impulseBranch (withParam p (.distance (-p.z))) = impulseBranch p := by
  unfold impulseBranch threshold withParam lmax
  simp only [ratAbs_eq_abs, abs_neg]

theorem withParam_distance_self (p : Params) : withParam p (.distance p.z) = p := rfl

theorem nativeAt_neg_z (p : Params) (ν : ℚ × ℚ) :
    nativeAt (withParam p (.distance (-p.z))) ν = conj (nativeAt p ν) := by
  unfold nativeAt
  show (match p.kind with
      | .fresnel => fresnelAt (withParam p (.distance (-p.z)))
      | .angular => angularAt (withParam p (.distance (-p.z)))) ν = _
  cases hk : p.kind with
  | fresnel =>
    show fresnelD (waveK p) (((-p.z : ℚ)) : ℝ) _ _ = conj (fresnelD (waveK p) (p.z : ℝ) _ _)
    rw [Rat.cast_neg, fresnelD_neg]
  | angular =>
    show angularD (waveK p) (((-p.z : ℚ)) : ℝ) _ = conj (angularD (waveK p) (p.z : ℝ) _)
    rw [Rat.cast_neg]
    set κ2 := (2 * Real.pi * (ν.1 : ℝ)) ^ 2 + (2 * Real.pi * (ν.2 : ℝ)) ^ 2
    by_cases h : κ2 ≤ (waveK p) ^ 2
    · rw [angularD_of_propagating h, angularD_of_propagating h, conj_exp_ofReal_mul_I]
      congr 3; ring
    · rw [angularD_of_evanescent h, angularD_of_evanescent h, abs_neg, ← Complex.exp_conj,
        Complex.conj_ofReal]

theorem sampledTF_neg_z (p : Params) (iy ix : ℕ) :
    sampledTF (withParam p (.distance (-p.z))) iy ix = conj (sampledTF p iy ix) := by
  unfold sampledTF
  rw [conj_listMean, List.map_map]
  show listMean ((subFreqs p ix iy).map (nativeAt (withParam p (.distance (-p.z))))) = _
  congr 1
  apply List.map_congr_left
  intro ν _
  exact nativeAt_neg_z p ν

theorem fresnelAt_mul (p : Params) (z₁ z₂ : ℚ) (ν : ℚ × ℚ) :
    fresnelAt (withParam p (.distance z₂)) ν * fresnelAt (withParam p (.distance z₁)) ν
      = fresnelAt (withParam p (.distance (z₁ + z₂))) ν := by
  show fresnelD (waveK p) (z₂ : ℝ) _ _ * fresnelD (waveK p) (z₁ : ℝ) _ _
      = fresnelD (waveK p) ((z₁ + z₂ : ℚ) : ℝ) _ _
  rw [mul_comm, fresnelD_add, Rat.cast_add]

/-! ## the propagator the code builds -/

/-- `FresnelPropagator.forward` / `AngularSpectrumPropagator.forward` on a scalar field: the `FourierFilter`
with the executable cut-out, the DFT of C01/C02 on the internal grid and the transfer function `modelD`. -/
noncomputable def propagate (p : Params) (h : padOK p = true) (Dir : Fin (my p) × Fin (mx p) → ℂ)
    (x : Fin p.ny × Fin p.nx → ℂ) : Fin p.ny × Fin p.nx → ℂ :=
  filter (dftPair2 (my p) (mx p) (my_pos h) (mx_pos h)) (cutoutEmb p h) (modelD p Dir) x

/-- `.backward`: the same with the conjugated transfer function. -/
noncomputable def propagateBack (p : Params) (h : padOK p = true) (Dir : Fin (my p) × Fin (mx p) → ℂ)
    (x : Fin p.ny × Fin p.nx → ℂ) : Fin p.ny × Fin p.nx → ℂ :=
  filterBackward (dftPair2 (my p) (mx p) (my_pos h) (mx_pos h)) (cutoutEmb p h) (modelD p Dir) x

/-- The transfer function of the propagator built for distance `z` (other parameters as in `p`), on `p`'s own
index types (the padded sizes do not depend on the distance). -/
noncomputable def modelDz (p : Params) (z : ℚ) (Dir : Fin (my p) × Fin (mx p) → ℂ) :
    Fin (my p) × Fin (mx p) → ℂ :=
  modelD (withParam p (.distance z)) Dir

theorem propagate_withZ (p : Params) (h : padOK p = true) (z : ℚ) (Dir : Fin (my p) × Fin (mx p) → ℂ)
    (x : Fin p.ny × Fin p.nx → ℂ) :
    propagate (withParam p (.distance z)) h Dir x
      = filter (dftPair2 (my p) (mx p) (my_pos h) (mx_pos h)) (cutoutEmb p h) (modelDz p z Dir) x := rfl

theorem modelDz_of_tf {p : Params} {z : ℚ} (hb : impulseBranch (withParam p (.distance z)) = false)
    (Dir : Fin (my p) × Fin (mx p) → ℂ) (m : Fin (my p) × Fin (mx p)) :
    modelDz p z Dir m
      = sampledTF (withParam p (.distance z)) (ifftshiftIdx (my p) m.1) (ifftshiftIdx (mx p) m.2) :=
  modelD_of_tf (p := withParam p (.distance z)) hb Dir m

theorem sampledTF_withZ_of_no_oversampling {p : Params} (hx : p.sx = 1) (hy : p.sy = 1) (z : ℚ) (iy ix : ℕ) :
    sampledTF (withParam p (.distance z)) iy ix
      = nativeAt (withParam p (.distance z)) (nu p.dx (mx p) ix 0, nu p.dy (my p) iy 0) :=
  sampledTF_of_no_oversampling (p := withParam p (.distance z)) hx hy iy ix

theorem nativeAt_withZ_fresnel {p : Params} (hk : p.kind = .fresnel) (z : ℚ) :
    nativeAt (withParam p (.distance z)) = fresnelAt (withParam p (.distance z)) := by
  unfold nativeAt
  show (match p.kind with
    | .fresnel => fresnelAt (withParam p (.distance z))
    | .angular => angularAt (withParam p (.distance z))) = _
  rw [hk]

/-! ## the operator of the theorems is the executable pipeline `filterP` (what the driver op `filt` runs) -/

/-- `Fft.dft2` reads its array only on `[0,My) × [0,Mx)`: the double sum over `Fin My`, `Fin Mx`. -/
theorem dft2_fin (My Mx : ℕ) (kerY kerX : ℤ → ℂ) (a : ℕ → ℕ → ℂ) (qy qx : ℕ) :
    Fft.dft2 My Mx kerY kerX a qy qx
      = ∑ py : Fin My, ∑ px : Fin Mx,
          a (py : ℕ) (px : ℕ) * (kerY ((py : ℕ) * (qy : ℤ)) * kerX ((px : ℕ) * (qx : ℤ))) := by
  unfold Fft.dft2
  rw [sumRange_eq]
  simp only [sumRange_eq]
  let G : ℕ → ℂ := fun py => ∑ px ∈ range Mx,
    a py px * (kerY ((py : ℤ) * (qy : ℤ)) * kerX ((px : ℤ) * (qx : ℤ)))
  show ∑ py ∈ range My, G py = _
  rw [← Fin.sum_univ_eq_sum_range G My]
  apply Finset.sum_congr rfl
  intro py _
  let H : ℕ → ℂ := fun px =>
    a (py : ℕ) px * (kerY (((py : ℕ) : ℤ) * (qy : ℤ)) * kerX ((px : ℤ) * (qx : ℤ)))
  show ∑ px ∈ range Mx, H px = _
  rw [← Fin.sum_univ_eq_sum_range H Mx]

/-- Zero-padding through the embedding `cutoutEmb` is the executable `padAt` at `cutStart`. -/
theorem pad_cutoutEmb (p : Params) (h : padOK p = true) (x : Fin p.ny × Fin p.nx → ℂ)
    (m : Fin (my p) × Fin (mx p)) :
    pad (cutoutEmb p h) x m
      = padAt (cutStart (my p) p.ny) (cutStart (mx p) p.nx) p.ny p.nx (ext2 x) (m.1 : ℕ) (m.2 : ℕ) := by
  unfold pad padAt
  by_cases hc : (cutStart (my p) p.ny ≤ (m.1 : ℕ) ∧ (m.1 : ℕ) < cutStart (my p) p.ny + p.ny) ∧
      (cutStart (mx p) p.nx ≤ (m.2 : ℕ) ∧ (m.2 : ℕ) < cutStart (mx p) p.nx + p.nx)
  · rw [if_pos hc]
    obtain ⟨⟨h1, h2⟩, h3, h4⟩ := hc
    let j : Fin p.ny × Fin p.nx := (⟨(m.1 : ℕ) - cutStart (my p) p.ny, by omega⟩, ⟨(m.2 : ℕ) - cutStart (mx p) p.nx, by omega⟩)
    have hj : cutoutEmb p h j = m := by
      apply Prod.ext <;> apply Fin.ext
      · show cutStart (my p) p.ny + ((m.1 : ℕ) - cutStart (my p) p.ny) = (m.1 : ℕ)
        omega
      · show cutStart (mx p) p.nx + ((m.2 : ℕ) - cutStart (mx p) p.nx) = (m.2 : ℕ)
        omega
    rw [Finset.sum_eq_single j]
    · rw [if_pos hj]
      exact (ext2_fin x j.1 j.2).symm
    · intro b _ hb
      rw [if_neg]
      intro hbm
      exact hb (cutoutEmb_injective p h (hbm.trans hj.symm))
    · intro hn
      exact absurd (Finset.mem_univ j) hn
  · rw [if_neg hc]
    apply Finset.sum_eq_zero
    intro b _
    rw [if_neg]
    intro hbm
    apply hc
    have h1 : ((cutoutEmb p h b).1 : ℕ) = (m.1 : ℕ) := by rw [hbm]
    have h2 : ((cutoutEmb p h b).2 : ℕ) = (m.2 : ℕ) := by rw [hbm]
    have hv := cutoutEmb_val p h b
    have hb1 := b.1.2
    have hb2 := b.2.2
    omega

/-- **The operator of the theorems is the pipeline the driver runs**: `filter` with the DFT of C01/C02 and the
executable cut-out, at `ℂ`, equals `filterP` (`padAt`, `Fft.dft2`, multiply, `Fft.dft2`, `cropAt`) with the kernels
`exp(∓2πi n/M)` and the scale `1/(My·Mx)`. -/
theorem filter_dft2_apply (p : Params) (h : padOK p = true) (D : Fin (my p) × Fin (mx p) → ℂ)
    (x : Fin p.ny × Fin p.nx → ℂ) (j : Fin p.ny × Fin p.nx) :
    filter (dftPair2 (my p) (mx p) (my_pos h) (mx_pos h)) (cutoutEmb p h) D x j
      = filterP p (kF (my p)) (kF (mx p)) (kB (my p)) (kB (mx p)) (((my p * mx p : ℕ) : ℂ)⁻¹)
          (ext2 D) (ext2 x) (j.1 : ℕ) (j.2 : ℕ) := by
  unfold filter crop filterP filterN cropAt
  show (dftPair2 (my p) (mx p) (my_pos h) (mx_pos h)).Finv _ ((cutoutEmb p h j).1, (cutoutEmb p h j).2) = _
  rw [dftPair2_Finv_eq_dft2]
  show _ * Fft.dft2 _ _ _ _ _ (cutStart (my p) p.ny + (j.1 : ℕ)) (cutStart (mx p) p.nx + (j.2 : ℕ)) = _
  congr 1
  rw [dft2_fin, dft2_fin]
  apply Finset.sum_congr rfl
  intro py _
  apply Finset.sum_congr rfl
  intro px _
  congr 1
  rw [ext2_fin, ext2_fin]
  unfold mulD
  congr 1
  rw [dftPair2_F_eq_dft2, dft2_fin, dft2_fin]
  apply Finset.sum_congr rfl
  intro qy _
  apply Finset.sum_congr rfl
  intro qx _
  congr 1
  rw [ext2_fin]
  exact pad_cutoutEmb p h x (qy, qx)


theorem ext2_conj {My Mx : ℕ} (D : Fin My × Fin Mx → ℂ) (py px : ℕ) :
    ext2 (fun m => conj (D m)) py px = conj (ext2 D py px) := by
  unfold ext2
  split_ifs
  · rfl
  · exact (map_zero _).symm

theorem filterBackward_dft2_apply (p : Params) (h : padOK p = true) (D : Fin (my p) × Fin (mx p) → ℂ)
    (x : Fin p.ny × Fin p.nx → ℂ) (j : Fin p.ny × Fin p.nx) :
    filterBackward (dftPair2 (my p) (mx p) (my_pos h) (mx_pos h)) (cutoutEmb p h) D x j
      = filterPBackward (starRingEnd ℂ) p (kF (my p)) (kF (mx p)) (kB (my p)) (kB (mx p)) (((my p * mx p : ℕ) : ℂ)⁻¹)
          (ext2 D) (ext2 x) (j.1 : ℕ) (j.2 : ℕ) := by
  unfold filterBackward
  rw [filter_dft2_apply]
  unfold filterPBackward filterNBackward filterP
  have hc : (ext2 fun m => conj (D m)) = fun py px => conj (ext2 D py px) := by
    funext py px
    exact ext2_conj D py px
  rw [hc]

/-- On the transfer-function branch the array that multiplies the FFT is the executable `shiftD` (`np.fft.ifftshift`)
of the sampled transfer function. -/
theorem modelD_eq_shiftD {p : Params} (hb : impulseBranch p = false) (Dir : Fin (my p) × Fin (mx p) → ℂ)
    (m : Fin (my p) × Fin (mx p)) :
    modelD p Dir m = shiftD (my p) (mx p) (sampledTF p) (m.1 : ℕ) (m.2 : ℕ) := modelD_of_tf hb Dir m

end HcipyVerif.NearField
