import HcipyVerif.Lemmas.ZernikeRadialGen
import HcipyVerif.Lemmas.ZernikeIntegral
import Mathlib.Topology.Instances.Rat

/-! Helper lemma for C13: for **every** radial order the polynomial produced by the q-recursion is, as a real
function, the factorial definition.  Both sides are continuous and agree at every rational point
(`radialEval_eq_sum`, proved by induction on the recursion), and `ℚ` is dense in `ℝ`. -/

set_option linter.unusedSimpArgs false
set_option linter.unusedVariables false

namespace HcipyVerif.Zernike

theorem pevalR_radialPoly_eq_radialR (n m : Nat) (hm : m ≤ n) (hpar : (n - m) % 2 = 0) (x : ℝ) :
    pevalR (radialPoly n m) x = radialR n m x := by
  have h : pevalR (radialPoly n m) = radialR n m := by
    refine Rat.isDenseEmbedding_coe_real.dense.equalizer (continuous_pevalR _) (continuous_radialR n m) ?_
    funext q
    simp only [Function.comp]
    rw [pevalR_cast, peval_radialPoly, radialEval_eq_sum n m hm hpar]
    unfold radialR
    push_cast
    rfl
  rw [h]

end HcipyVerif.Zernike
