import HcipyVerif.Lemmas.ZernikeRadialGen
import HcipyVerif.Lemmas.ZernikeIntegral
import HcipyVerif.Lemmas.ZernikeTrig
import Mathlib.Topology.Instances.Rat

/-! Helper lemma for C13: for **every** radial order the polynomial produced by the q-recursion is, as a real
function, the factorial definition.  Both sides are continuous and agree at every rational point
(`radialEval_eq_sum`, proved by induction on the recursion), and `ℚ` is dense in `ℝ`. -/

set_option linter.unusedSimpArgs false
set_option linter.unusedVariables false

namespace HcipyVerif.Zernike

theorem pevalR_radialPoly_eq_radialR (n m : Nat) (hm : m ≤ n) (hpar : (n - m) % 2 = 0) (x : ℝ) :
    pevalR (radialPoly n m) x = radialR n m x := by
  have h : pevalR (radialPoly n m) = radialR n m := by
    refine Rat.isDenseEmbedding_coe_real.dense.equalizer (continuous_pevalR _) (continuous_radialR n m) ?_
    funext q
    simp only [Function.comp]
    rw [pevalR_cast, peval_radialPoly, radialEval_eq_sum n m hm hpar]
    unfold radialR
    push_cast
    rfl
  rw [h]

theorem pevalR_pspread (p : Poly) (x : ℝ) : pevalR (pspread p) x = pevalR p (x * x) := by
  induction p with
  | nil => rfl
  | cons a p ih =>
    cases p with
    | nil => simp [pspread]
    | cons b p =>
      have : pspread (a :: b :: p) = a :: 0 :: pspread (b :: p) := rfl
      rw [this, pevalR_cons, pevalR_cons, ih, pevalR_cons, pevalR_cons, pevalR_cons]; push_cast; ring

theorem cisPow_scale_real (ρ c s : ℝ) : ∀ k, cisPow (ρ * c) (ρ * s) k = (ρ ^ k * (cisPow c s k).1, ρ ^ k * (cisPow c s k).2)
  | 0 => by simp [cisPow]
  | k + 1 => by
    have ih := cisPow_scale_real ρ c s k
    simp only [cisPow, ih, Prod.mk.injEq]
    constructor <;> ring

/-- the Cartesian device `modeQXY` at a rational point `(x, y) = (r cos θ, r sin θ)` (`r`, `θ` real, in general irrational) is
the polar formula: recursion polynomial at `2r/D` times the azimuthal factor at `θ` -/
theorem modeQXY_real (n : Nat) (m : Int) (D x y : Rat) (r θ : ℝ)
    (hx : (x : ℝ) = r * Real.cos θ) (hy : (y : ℝ) = r * Real.sin θ) :
    ((modeQXY n m D x y : Rat) : ℝ) =
      pevalR (radialPoly n m.natAbs) (2 * r / (D : ℝ)) * azimQ m (Real.cos θ) (Real.sin θ) := by
  set ρ : ℝ := 2 * r / (D : ℝ) with hρ
  have hX : ((2 * x / D : Rat) : ℝ) = ρ * Real.cos θ := by push_cast; rw [hx, hρ]; ring
  have hY : ((2 * y / D : Rat) : ℝ) = ρ * Real.sin θ := by push_cast; rw [hy, hρ]; ring
  have ht : ((2 * x / D * (2 * x / D) + 2 * y / D * (2 * y / D) : Rat) : ℝ) = ρ * ρ := by
    rw [Rat.cast_add, Rat.cast_mul, Rat.cast_mul, hX, hY]
    have := Real.cos_sq_add_sin_sq θ
    nlinarith
  unfold modeQXY radialPoly
  simp only
  rw [pevalR_pshift, pevalR_pspread, ← ht, pevalR_cast, peval_reducedPoly, Rat.cast_mul]
  have hc := cisPow_cast (2 * x / D) (2 * y / D) m.natAbs
  rw [hX, hY, cisPow_scale_real] at hc
  simp only at hc
  unfold azimQ
  by_cases h0 : m = 0
  · subst h0; simp
  · by_cases hp : 0 < m
    · simp only [h0, hp, if_false, if_true]
      rw [hc.1]; ring
    · simp only [h0, hp, if_false]
      rw [hc.2]; ring

end HcipyVerif.Zernike
