import HcipyVerif.Lemmas.ZernikeRadialGen
import HcipyVerif.Lemmas.ZernikeRadialReal
import HcipyVerif.Lemmas.ZernikeTables
import HcipyVerif.Lemmas.ZernikeIntegral
import Mathlib.Tactic.Linarith
import Mathlib.Tactic.FieldSimp

/-! Helper lemmas for C13 (round 5):

* the three coefficients `h1, h2, h3` of the q-recursive step add up to one, hence the recursion of
  `zernike_radial` gives `R_n^m(1) = 1` for **every** order (value on the rim of the aperture);
* pure-mathematics orthogonality statements about the *specification* functions (`radialR`, `cos`, `sin`) that used
  to live in `Properties/C13.lean`; the property file instantiates them at the executed definitions. -/

set_option linter.unusedSimpArgs false
set_option linter.unusedVariables false

namespace HcipyVerif.Zernike

open Finset

/-- `h1 + h2 + h3 = 1` wherever the code's divisions are divisions by non-zero numbers -/
theorem h_sum_one (p q : Rat) (h1' : p + q - 2 ≠ 0) (h2' : p - q + 4 ≠ 0) (h3' : q - 1 ≠ 0) :
    h1 p q + h2 p q + h3 p q = 1 := by
  unfold h1 h2 h3
  field_simp
  ring

/-- `_zernike_radial_reduced(n, n-2k, 1) = 1` for every `n` and every `k` with `2k ≤ n` -/
theorem reducedEval_one (n : Nat) : ∀ k, 2 * k ≤ n → reducedEval n 1 k = 1
  | 0, _ => rfl
  | 1, _ => by simp [reducedEval]
  | k + 2, h => by
    have a := reducedEval_one n k (by omega)
    have b := reducedEval_one n (k + 1) (by omega)
    obtain ⟨d, hd⟩ : ∃ d, n = 2 * k + 4 + d := ⟨n - (2 * k + 4), by omega⟩
    have hq : ((n - 2 * k : Nat) : Rat) = (d : Rat) + 4 := by
      rw [show n - 2 * k = d + 4 by omega]; push_cast; ring
    have hp : (n : Rat) = 2 * (k : Rat) + d + 4 := by rw [hd]; push_cast; ring
    simp only [reducedEval]
    rw [a, b, hq, hp]
    have hk : (0 : Rat) ≤ k := by positivity
    have hdd : (0 : Rat) ≤ d := by positivity
    have := h_sum_one (2 * (k : Rat) + d + 4) ((d : Rat) + 4) (by intro h; nlinarith) (by intro h; nlinarith)
      (by intro h; nlinarith)
    linarith

theorem radialEval_one (n m : Nat) (hm : m ≤ n) (hpar : (n - m) % 2 = 0) : radialEval n m 1 = 1 := by
  unfold radialEval
  rw [one_pow, one_mul, one_mul, reducedEval_one n _ (by omega)]

section Integrals
open intervalIntegral Real

/-- radial orthonormality of the factorial definition over `ℝ` (specification function `radialR`), `n, n' ≤ 20` -/
theorem integral_radialR_mul (n n' m : Nat) (hn : n ≤ 20) (hn' : n' ≤ 20) (hm : m ≤ n) (hm' : m ≤ n')
    (hpar : (n - m) % 2 = 0) (hpar' : (n' - m) % 2 = 0) :
    ∫ r in (0:ℝ)..1, radialR n m r * radialR n' m r * r = if n = n' then 1 / (2 * ((n : ℝ) + 1)) else 0 := by
  have h : ∫ r in (0:ℝ)..1, pevalR (pmul (radialPoly n m) (radialPoly n' m)) r * r
      = (pint01 (pshift 1 (pmul (radialPoly n m) (radialPoly n' m))) : ℝ) := by
    rw [← integral_pevalR]
    congr 1; funext r
    rw [pevalR_pshift]; ring
  have ht := orthoOK_all n m n' hn hm hpar hn'
  unfold orthoOK at ht
  have ht' : pint01 (pshift 1 (pmul (radialPoly n m) (radialPoly n' m))) = if n = n' then 1 / (2 * ((n : Rat) + 1)) else 0 := by
    simpa [hm', hpar'] using ht
  rw [ht'] at h
  have e : (fun r : ℝ => radialR n m r * radialR n' m r * r)
      = fun r => pevalR (pmul (radialPoly n m) (radialPoly n' m)) r * r := by
    funext r
    rw [pevalR_pmul, pevalR_radialPoly_eq_radialR n m hm hpar, pevalR_radialPoly_eq_radialR n' m hm' hpar']
  rw [e, h]
  split <;> simp

theorem integral_cos_mul_cos_pos (a b : ℤ) (ha : 0 < a) (hb : 0 < b) :
    ∫ θ in (0:ℝ)..(2 * π), cos ((a : ℝ) * θ) * cos ((b : ℝ) * θ) = if a = b then π else 0 := by
  rw [integral_cos_mul_cos_int, if_neg (show a + b ≠ 0 by omega)]
  by_cases e : a = b
  · rw [if_pos e, if_pos (by omega)]; ring
  · rw [if_neg e, if_neg (by omega)]; ring

theorem integral_sin_mul_sin_pos (a b : ℤ) (ha : 0 < a) (hb : 0 < b) :
    ∫ θ in (0:ℝ)..(2 * π), sin ((a : ℝ) * θ) * sin ((b : ℝ) * θ) = if a = b then π else 0 := by
  rw [integral_sin_mul_sin_int, if_neg (show a + b ≠ 0 by omega)]
  by_cases e : a = b
  · rw [if_pos e, if_pos (by omega)]; ring
  · rw [if_neg e, if_neg (by omega)]; ring

end Integrals

end HcipyVerif.Zernike
