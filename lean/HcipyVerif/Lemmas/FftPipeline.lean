import HcipyVerif.Lemmas.FftIndex
import HcipyVerif.Lemmas.FftChar

/-!
# The FastFourierTransform pipeline equals the defining sum (one axis)

`fastForward_eq_sumForward`, `fastBackward_eq_sumBackward`: for every configuration
(`emulate_fftshifts` on or off), all sizes `N ≤ M`, `Mo ≤ M`, `0 < M`, all grid parameters with
the consistency `dT·M·δ = 1` (i.e. `Δ·M·δ = 2π`), all characters `T` (1-periodic), `E`.
-/
set_option linter.unusedSimpArgs false
set_option linter.unusedVariables false
set_option linter.unusedSectionVars false

namespace HcipyVerif.Fft
open Finset

variable {K C : Type} [Field K] [Field C] {T E : K → C}

/-- the forward DFT kernel `n ↦ T(-(n/M))` is an `M`-periodic character -/
def kerFChar (hT : IsChar T) (hper : ∀ n : ℤ, T (n : K) = 1) (g : Cfg K C) (hM : (g.M : K) ≠ 0) :
    PChar C g.M where
  χ := g.kerF T
  add a b := by
    unfold Cfg.kerF
    rw [← hT.add]; congr 1; push_cast; ring
  period n := by
    unfold Cfg.kerF
    have : -(((((g.M : ℕ) : ℤ) * n : ℤ) : K) / (g.M : K)) = ((-n : ℤ) : K) := by
      push_cast; field_simp
    rw [this, hper]

/-- the backward DFT kernel `n ↦ T(n/M)` is an `M`-periodic character -/
def kerBChar (hT : IsChar T) (hper : ∀ n : ℤ, T (n : K) = 1) (g : Cfg K C) (hM : (g.M : K) ≠ 0) :
    PChar C g.M where
  χ := g.kerB T
  add a b := by
    unfold Cfg.kerB
    rw [← hT.add]; congr 1; push_cast; ring
  period n := by
    unfold Cfg.kerB
    have : ((((g.M : ℕ) : ℤ) * n : ℤ) : K) / (g.M : K) = ((n : ℤ) : K) := by
      push_cast; field_simp
    rw [this, hper]

theorem natCast_M_ne_zero (g : Cfg K C) (hcons : g.dT * (g.M : K) * g.δ = 1) : (g.M : K) ≠ 0 := by
  intro h
  rw [h] at hcons
  simp at hcons

theorem a_centre (g : Cfg K C) : g.a (g.Mo / 2) = 0 := by
  unfold Cfg.a; ring

/-- `1/M = dT·δ` -/
theorem div_M (g : Cfg K C) (hcons : g.dT * (g.M : K) * g.δ = 1) (n : K) :
    n / (g.M : K) = n * (g.dT * g.δ) := by
  have hM := natCast_M_ne_zero g hcons
  field_simp
  linear_combination (-n) * hcons

/-- the output multiplier without the emulated shift: the piston cancels -/
theorem centre_ratio (hT : IsChar T) (hE : IsChar E) (g : Cfg K C) (k : ℕ) :
    g.centrePhase T E k * (g.centrePhase T E (g.Mo / 2))⁻¹ = T (-(g.centre * g.a k)) := by
  unfold Cfg.centrePhase
  rw [a_centre, mul_zero, neg_zero, hT.zero, one_mul]
  have := hE.ne_zero (-(g.centre * g.s))
  field_simp

/-- The phase identity behind both configurations: the product of all multipliers and the DFT
kernel at `(j, k)` is the Fourier kernel `T(-(a_k·x_j))·E(-(s·x_j))` times the weight. -/
theorem forward_phase (hT : IsChar T) (hE : IsChar E) (hper : ∀ n : ℤ, T (n : K) = 1)
    (g : Cfg K C) (hN : g.N ≤ g.M) (hMo : g.Mo ≤ g.M) (hcons : g.dT * (g.M : K) * g.δ = 1)
    (j k : ℕ) :
    g.inMult T E j *
      (if g.emu then g.kerF T (((j + padStart g.N g.M : ℕ) : ℤ) * ((k + padStart g.Mo g.M : ℕ) : ℤ))
       else g.kerF T (((j : ℤ) - (g.N / 2 : ℕ)) * ((k : ℤ) - (g.Mo / 2 : ℕ)))) *
      g.outMult T E k
    = g.w * (T (-(g.a k * g.x j)) * E (-(g.s * g.x j))) := by
  have hNh : g.N / 2 ≤ g.M / 2 := Nat.div_le_div_right hN
  have hMoh : g.Mo / 2 ≤ g.M / 2 := Nat.div_le_div_right hMo
  unfold Cfg.outMult Cfg.inMult
  rw [centre_ratio hT hE]
  unfold Cfg.emuIn Cfg.emuOut Cfg.kerF
  by_cases he : g.emu = true
  · simp only [he, if_true]
    rw [div_M g hcons]
    have key : T (-(g.a k * g.x j)) =
        T (g.fShift * g.aInt (j + padStart g.N g.M)) * T (-(g.fShift * g.aInt 0)) *
        T (-(((((j + padStart g.N g.M : ℕ) : ℤ) * ((k + padStart g.Mo g.M : ℕ) : ℤ) : ℤ) : K) * (g.dT * g.δ))) *
        T (-(g.centre * g.a k)) * T (g.fShift * g.aInt (k + padStart g.Mo g.M)) := by
      rw [← hT.add, ← hT.add, ← hT.add, ← hT.add]
      congr 1
      unfold Cfg.a Cfg.x Cfg.fShift Cfg.aInt Cfg.centre padStart
      generalize g.N / 2 = nh at hNh ⊢
      generalize g.Mo / 2 = oh at hMoh ⊢
      generalize g.M / 2 = mh at hNh hMoh ⊢
      push_cast [Nat.cast_add, Nat.cast_sub hNh, Nat.cast_sub hMoh]
      ring
    rw [key]; ring
  · simp only [he, if_false, Bool.false_eq_true]
    rw [div_M g hcons]
    have key : T (-(g.a k * g.x j)) =
        T (-((((((j : ℤ) - (g.N / 2 : ℕ)) * ((k : ℤ) - (g.Mo / 2 : ℕ)) : ℤ)) : K) * (g.dT * g.δ))) *
        T (-(g.centre * g.a k)) := by
      rw [← hT.add]
      congr 1
      unfold Cfg.a Cfg.x Cfg.centre
      generalize g.N / 2 = nh
      generalize g.Mo / 2 = oh
      push_cast
      ring
    rw [key]; ring

/-- **`FastFourierTransform.forward` evaluates the defining sum** (one axis, both
configurations of `emulate_fftshifts`). -/
theorem fastForward_eq_sumForward (hT : IsChar T) (hE : IsChar E) (hper : ∀ n : ℤ, T (n : K) = 1)
    (g : Cfg K C) (hN : g.N ≤ g.M) (hMo : g.Mo ≤ g.M) (hcons : g.dT * (g.M : K) * g.δ = 1)
    (f : ℕ → C) (k : ℕ) (hk : k < g.Mo) :
    fastForward T E g f k = sumForward T E g f k := by
  have hMK := natCast_M_ne_zero g hcons
  have hM : 0 < g.M := by
    rcases Nat.eq_zero_or_pos g.M with h | h
    · rw [h] at hMK; simp at hMK
    · exact h
  unfold fastForward sumForward
  rw [sumRange_eq]
  have hph := forward_phase hT hE hper g hN hMo hcons
  by_cases he : g.emu = true
  · have hcore := core_noshift_eq_sum g.M g.N g.Mo hN (g.kerF T) (fun j => f j * g.inMult T E j) k
    simp only [he, Bool.not_true] at hcore ⊢
    rw [hcore, Finset.sum_mul]
    apply Finset.sum_congr rfl
    intro j _
    have := hph j k
    simp only [he, if_true] at this
    calc f j * g.inMult T E j * g.kerF T (((j + padStart g.N g.M : ℕ) : ℤ) * ((k + padStart g.Mo g.M : ℕ) : ℤ)) * g.outMult T E k
        = f j * (g.inMult T E j * g.kerF T (((j + padStart g.N g.M : ℕ) : ℤ) * ((k + padStart g.Mo g.M : ℕ) : ℤ)) * g.outMult T E k) := by ring
      _ = _ := by rw [this]; ring
  · have he' : g.emu = false := by simpa using he
    have hcore := fft_core_eq_sum (kerFChar hT hper g hMK) g.N g.Mo hM hN hMo
      (fun j => f j * g.inMult T E j) k hk
    simp only [he', Bool.not_false] at hcore ⊢
    have hχ : (kerFChar hT hper g hMK).χ = g.kerF T := rfl
    rw [hχ] at hcore
    rw [hcore, Finset.sum_mul]
    apply Finset.sum_congr rfl
    intro j _
    have := hph j k
    simp only [he', if_false, Bool.false_eq_true] at this
    calc f j * g.inMult T E j * g.kerF T (((j : ℤ) - (g.N / 2 : ℕ)) * ((k : ℤ) - (g.Mo / 2 : ℕ))) * g.outMult T E k
        = f j * (g.inMult T E j * g.kerF T (((j : ℤ) - (g.N / 2 : ℕ)) * ((k : ℤ) - (g.Mo / 2 : ℕ))) * g.outMult T E k) := by ring
      _ = _ := by rw [this]; ring

/-- the backward phase identity: everything the forward multiplied is divided out again -/
theorem backward_phase (hT : IsChar T) (hE : IsChar E) (hper : ∀ n : ℤ, T (n : K) = 1)
    (g : Cfg K C) (hN : g.N ≤ g.M) (hMo : g.Mo ≤ g.M) (hcons : g.dT * (g.M : K) * g.δ = 1)
    (hw : g.w ≠ 0) (j k : ℕ) :
    (g.outMult T E k)⁻¹ *
      (if g.emu then g.kerB T (((k + padStart g.Mo g.M : ℕ) : ℤ) * ((j + padStart g.N g.M : ℕ) : ℤ))
       else g.kerB T (((k : ℤ) - (g.Mo / 2 : ℕ)) * ((j : ℤ) - (g.N / 2 : ℕ)))) *
      (g.inMult T E j)⁻¹
    = (g.w)⁻¹ * (T (g.a k * g.x j) * E (g.s * g.x j)) := by
  have hf := forward_phase hT hE hper g hN hMo hcons j k
  -- the backward kernel is the inverse of the forward kernel at the same indices
  have hkB : ∀ n : ℤ, g.kerB T n = (g.kerF T n)⁻¹ := by
    intro n; unfold Cfg.kerB Cfg.kerF; rw [hT.inv, neg_neg]
  have hin : g.inMult T E j ≠ 0 := by
    unfold Cfg.inMult Cfg.emuIn
    split
    · exact mul_ne_zero (hE.ne_zero _) (mul_ne_zero (hT.ne_zero _) (hT.ne_zero _))
    · exact mul_ne_zero (hE.ne_zero _) one_ne_zero
  have hout : g.outMult T E k ≠ 0 := by
    unfold Cfg.outMult
    rw [centre_ratio hT hE]
    unfold Cfg.emuOut
    split
    · exact mul_ne_zero (mul_ne_zero (hT.ne_zero _) (hT.ne_zero _)) hw
    · exact mul_ne_zero (mul_ne_zero (hT.ne_zero _) one_ne_zero) hw
  have hrhs : T (g.a k * g.x j) * E (g.s * g.x j)
      = (T (-(g.a k * g.x j)) * E (-(g.s * g.x j)))⁻¹ := by
    rw [mul_inv, hT.inv, hE.inv, neg_neg, neg_neg]
  rw [hrhs, ← mul_inv, ← hf]
  by_cases he : g.emu = true
  · simp only [he, if_true]
    have e : ((k + padStart g.Mo g.M : ℕ) : ℤ) * ((j + padStart g.N g.M : ℕ) : ℤ)
        = ((j + padStart g.N g.M : ℕ) : ℤ) * ((k + padStart g.Mo g.M : ℕ) : ℤ) := by ring
    rw [hkB, e, mul_inv, mul_inv]
    ring
  · simp only [he, if_false, Bool.false_eq_true]
    have e : ((k : ℤ) - (g.Mo / 2 : ℕ)) * ((j : ℤ) - (g.N / 2 : ℕ))
        = ((j : ℤ) - (g.N / 2 : ℕ)) * ((k : ℤ) - (g.Mo / 2 : ℕ)) := by ring
    rw [hkB, e, mul_inv, mul_inv]
    ring

/-- **`FastFourierTransform.backward` evaluates the defining backward sum** with the weight
`wOut = Δ/(2π)`: the hypothesis `wOut·M·w = 1` is `Δ/(2π)·M·δ = 1`. -/
theorem fastBackward_eq_sumBackward (hT : IsChar T) (hE : IsChar E) (hper : ∀ n : ℤ, T (n : K) = 1)
    (g : Cfg K C) (hN : g.N ≤ g.M) (hMo : g.Mo ≤ g.M) (hcons : g.dT * (g.M : K) * g.δ = 1)
    (wOut : C) (hw : wOut * (g.M : C) * g.w = 1)
    (F : ℕ → C) (j : ℕ) (hj : j < g.N) :
    fastBackward T E g F j = sumBackward T E g wOut F j := by
  have hMK := natCast_M_ne_zero g hcons
  have hM : 0 < g.M := by
    rcases Nat.eq_zero_or_pos g.M with h | h
    · rw [h] at hMK; simp at hMK
    · exact h
  have hw0 : g.w ≠ 0 := by
    intro h; rw [h, mul_zero] at hw; exact zero_ne_one hw
  have hMC : (g.M : C) ≠ 0 := by
    intro h; rw [h, mul_zero, zero_mul] at hw; exact zero_ne_one hw
  have hwOut : wOut = ((g.M : C))⁻¹ * (g.w)⁻¹ := by
    field_simp
    linear_combination hw
  unfold fastBackward sumBackward
  rw [sumRange_eq]
  have hph := backward_phase hT hE hper g hN hMo hcons hw0
  by_cases he : g.emu = true
  · have hcore := core_noshift_eq_sum g.M g.Mo g.N hMo (g.kerB T) (fun k => F k * (g.outMult T E k)⁻¹) j
    simp only [he, Bool.not_true] at hcore ⊢
    rw [hcore, Finset.mul_sum, Finset.sum_mul]
    apply Finset.sum_congr rfl
    intro k _
    have := hph j k
    simp only [he, if_true] at this
    calc (g.M : C)⁻¹ * (F k * (g.outMult T E k)⁻¹ * g.kerB T (((k + padStart g.Mo g.M : ℕ) : ℤ) * ((j + padStart g.N g.M : ℕ) : ℤ))) * (g.inMult T E j)⁻¹
        = (g.M : C)⁻¹ * F k * ((g.outMult T E k)⁻¹ * g.kerB T (((k + padStart g.Mo g.M : ℕ) : ℤ) * ((j + padStart g.N g.M : ℕ) : ℤ)) * (g.inMult T E j)⁻¹) := by ring
      _ = _ := by rw [this, hwOut]; ring
  · have he' : g.emu = false := by simpa using he
    have hcore := fft_core_eq_sum (kerBChar hT hper g hMK) g.Mo g.N hM hMo hN
      (fun k => F k * (g.outMult T E k)⁻¹) j hj
    simp only [he', Bool.not_false] at hcore ⊢
    have hχ : (kerBChar hT hper g hMK).χ = g.kerB T := rfl
    rw [hχ] at hcore
    rw [hcore, Finset.mul_sum, Finset.sum_mul]
    apply Finset.sum_congr rfl
    intro k _
    have := hph j k
    simp only [he', if_false, Bool.false_eq_true] at this
    calc (g.M : C)⁻¹ * (F k * (g.outMult T E k)⁻¹ * g.kerB T (((k : ℤ) - (g.Mo / 2 : ℕ)) * ((j : ℤ) - (g.N / 2 : ℕ)))) * (g.inMult T E j)⁻¹
        = (g.M : C)⁻¹ * F k * ((g.outMult T E k)⁻¹ * g.kerB T (((k : ℤ) - (g.Mo / 2 : ℕ)) * ((j : ℤ) - (g.N / 2 : ℕ))) * (g.inMult T E j)⁻¹) := by ring
      _ = _ := by rw [this, hwOut]; ring

end HcipyVerif.Fft
