import Mathlib.Analysis.Complex.Trigonometric
import Mathlib.Analysis.Complex.Basic
import Mathlib.Analysis.SpecialFunctions.Trigonometric.Basic
import Mathlib.Algebra.Module.LinearMap.Defs
import Mathlib.Algebra.Module.Pi
import Mathlib.Algebra.Order.Field.Rat
import Mathlib.Tactic.Ring
import Mathlib.Tactic.Linarith
import Mathlib.Tactic.FieldSimp
import HcipyVerif.Model.Fraunhofer

/-!
# C03 — `FraunhoferPropagator` over an abstract Fourier transform

`make_instance` builds, per wavelength `λ`, `uv = focal.scaled(2π/(fλ))`, a Fourier transform object
`ft = make_fourier_transform(pupil, uv)` and `norm = 1/(i f λ)`; `forward E = ft.forward(E)·norm`,
`backward E = ft.backward(E)/norm`, wavelength and Stokes vector copied.

The Fourier transform is abstract: a pair of linear maps `fwd`, `bwd`.  What C01/C02 prove about the real
implementations enters as three named hypotheses:

* `EvaluatesFourierSum` — C01 (`fast_forward_eq_sum`, `mft_eq_sum_2d`, `naive`): `fwd` evaluates the weighted
  Fourier sum `Σ_j E_j w_j exp(-i ξ_k·u_j)` on the output grid it was built for (whatever its kind);
* `ParsevalOn` — C02 `parseval_full` (inner-product form) on a full FFT conjugate grid:
  `Σ_k conj(F E)_k (F G)_k w_uv,k = (2π)^d Σ_j conj(E_j) G_j w_j`;
* `InverseOn` — C02 `full_grid_inverse`: `bwd (fwd E) = E` on such a grid.
-/

set_option linter.unusedSimpArgs false
set_option linter.unusedVariables false
set_option linter.unusedSectionVars false

open Finset Complex ComplexConjugate

namespace HcipyVerif.Fraunhofer

variable {ι κ τ : Type*} [Fintype ι] [Fintype κ] [Fintype τ] {d : ℕ}

/-- Euclidean dot product of two points. -/
def dot (x u : Fin d → ℝ) : ℝ := ∑ i, x i * u i

/-- A grid as far as Fourier optics needs it: coordinates and quadrature weights. -/
structure Grid (κ : Type*) (d : ℕ) where
  pts : κ → Fin d → ℝ
  weights : κ → ℝ

/-- `Grid.scaled(s)` for a scalar `s`: coordinates `· s`, weights `· |s|^ndim`
(hcipy/field/cartesian_grid.py `scale`). -/
def Grid.scaled (g : Grid κ d) (s : ℝ) : Grid κ d :=
  { pts := fun k i => s * g.pts k i, weights := fun k => |s| ^ d * g.weights k }

/-- The weighted Fourier sum at angular frequency `ξ`: `Σ_j E_j w_j exp(-i ξ·u_j)`. -/
noncomputable def fourierSum (g : Grid ι d) (ξ : Fin d → ℝ) (E : ι → ℂ) : ℂ :=
  ∑ j, E j * (g.weights j : ℂ) * cexp (-(I * ((dot ξ (g.pts j) : ℝ) : ℂ)))

/-- A Fourier transform object (`FastFourierTransform`, `MatrixFourierTransform`, `NaiveFourierTransform`,
… — whichever `make_fourier_transform` selects): two linear maps. -/
structure FourierTransform (ι κ : Type*) where
  fwd : (ι → ℂ) →ₗ[ℂ] (κ → ℂ)
  bwd : (κ → ℂ) →ₗ[ℂ] (ι → ℂ)

/-- **Hypothesis (C01).** `fwd` evaluates the weighted Fourier sum of the input grid at every point of the
output grid. -/
def EvaluatesFourierSum (T : FourierTransform ι κ) (pupil : Grid ι d) (uv : Grid κ d) : Prop :=
  ∀ E k, T.fwd E k = fourierSum pupil (uv.pts k) E

/-- Weighted inner product `Σ conj(x) y w`. -/
noncomputable def wip {α : Type*} [Fintype α] (w : α → ℝ) (x y : α → ℂ) : ℂ :=
  ∑ i, conj (x i) * y i * (w i : ℂ)

/-- Power of one scalar component: `Σ |x|² w` (`Wavefront.power`). -/
noncomputable def power {α : Type*} [Fintype α] (w : α → ℝ) (x : α → ℂ) : ℝ := ∑ i, ‖x i‖ ^ 2 * w i

/-- **Hypothesis (C02, Parseval on the full conjugate grid)**, inner-product form, `d` dimensions. -/
def ParsevalOn (T : FourierTransform ι κ) (pupil : Grid ι d) (uv : Grid κ d) : Prop :=
  ∀ E G, wip uv.weights (T.fwd E) (T.fwd G) = ((2 * Real.pi) ^ d : ℝ) * wip pupil.weights E G

/-- **Hypothesis (C02 `adjoint_sum`).** `bwd` evaluates the adjoint sum with the output-grid weights:
`(B G)_j = (2π)^{-d} Σ_k G_k w_uv,k exp(+i ξ_k·u_j)` (FFT with zero fill outside the crop, MFT, naive). -/
def EvaluatesAdjointSum (T : FourierTransform ι κ) (pupil : Grid ι d) (uv : Grid κ d) : Prop :=
  ∀ G j, T.bwd G j = (((2 * Real.pi) ^ d : ℝ) : ℂ)⁻¹ *
    ∑ k, G k * (uv.weights k : ℂ) * cexp (I * ((dot (uv.pts k) (pupil.pts j) : ℝ) : ℂ))

/-- **Hypothesis (C02, inverse on the full conjugate grid).** -/
def InverseOn (T : FourierTransform ι κ) : Prop := ∀ E, T.bwd (T.fwd E) = E

theorem wip_self {α : Type*} [Fintype α] (w : α → ℝ) (x : α → ℂ) : wip w x x = ((power w x : ℝ) : ℂ) := by
  unfold wip power
  rw [Complex.ofReal_sum]
  apply Finset.sum_congr rfl
  intro i _
  rw [Complex.conj_mul']; push_cast; ring

theorem wip_smul_smul {α : Type*} [Fintype α] (w : α → ℝ) (c : ℂ) (x y : α → ℂ) :
    wip w (c • x) (c • y) = ((‖c‖ ^ 2 : ℝ) : ℂ) * wip w x y := by
  unfold wip
  rw [Finset.mul_sum]
  apply Finset.sum_congr rfl
  intro i _
  simp only [Pi.smul_apply, smul_eq_mul, map_mul]
  have : conj c * c = ((‖c‖ ^ 2 : ℝ) : ℂ) := by rw [Complex.conj_mul']; push_cast; ring
  linear_combination (conj (x i) * y i * (w i : ℂ)) * this

theorem wip_scale_weights {α : Type*} [Fintype α] (w : α → ℝ) (a : ℝ) (x y : α → ℂ) :
    wip (fun i => a * w i) x y = (a : ℂ) * wip w x y := by
  unfold wip
  rw [Finset.mul_sum]
  apply Finset.sum_congr rfl
  intro i _
  push_cast; ring

theorem dot_smul_left (s : ℝ) (x u : Fin d → ℝ) : dot (fun i => s * x i) u = s * dot x u := by
  unfold dot
  rw [Finset.mul_sum]
  apply Finset.sum_congr rfl
  intro i _
  ring

/-- `norm_factor = 1/(1j · focal_length · wavelength)`. -/
noncomputable def normFactorC (lam f : ℝ) : ℂ := 1 / (I * (f : ℂ) * (lam : ℂ))

/-- The factor of `output_grid.scaled(2π/(focal_length · wavelength))`. -/
noncomputable def uvScaleR (lam f : ℝ) : ℝ := 2 * Real.pi / (f * lam)

theorem normFactorC_ne_zero {lam f : ℝ} (h : lam * f ≠ 0) : normFactorC lam f ≠ 0 := by
  unfold normFactorC
  have hl : (lam : ℂ) ≠ 0 := by exact_mod_cast left_ne_zero_of_mul h
  have hf : (f : ℂ) ≠ 0 := by exact_mod_cast right_ne_zero_of_mul h
  exact one_div_ne_zero (mul_ne_zero (mul_ne_zero Complex.I_ne_zero hf) hl)

theorem norm_normFactorC_sq (lam f : ℝ) : ‖normFactorC lam f‖ ^ 2 = 1 / (lam * f) ^ 2 := by
  unfold normFactorC
  rw [norm_div, norm_one, norm_mul, norm_mul, Complex.norm_I, Complex.norm_real, Complex.norm_real, one_mul,
    div_pow, one_pow, mul_pow, Real.norm_eq_abs, Real.norm_eq_abs, sq_abs, sq_abs, mul_pow, mul_comm]

theorem uvScaleR_pos {lam f : ℝ} (h : 0 < lam * f) : 0 < uvScaleR lam f := by
  unfold uvScaleR
  have : 0 < f * lam := by rwa [mul_comm]
  positivity

/-- The executable model's exact data agree with the real-number definitions:
`normFactorC = 0 + (-(1/(λf)))·i`. -/
theorem normFactorC_eq (lam f : ℝ) : normFactorC lam f = ((-(1 / (lam * f)) : ℝ) : ℂ) * I := by
  unfold normFactorC
  by_cases h : lam * f = 0
  · rcases mul_eq_zero.mp h with h0 | h0 <;> simp [h0]
  have hl : (lam : ℂ) ≠ 0 := by exact_mod_cast left_ne_zero_of_mul h
  have hf : (f : ℂ) ≠ 0 := by exact_mod_cast right_ne_zero_of_mul h
  push_cast
  field_simp
  rw [Complex.I_sq]
  ring

end HcipyVerif.Fraunhofer
