import HcipyVerif.Model.FftSelect
import Mathlib.Tactic.Ring
import Mathlib.Tactic.Linarith
import Mathlib.Tactic.FieldSimp
import Mathlib.Algebra.Order.Field.Basic
import Mathlib.Algebra.Order.Field.Rat
import Mathlib.Algebra.Order.Floor.Ring
import Mathlib.Data.Rat.Floor

/-!
# `make_fourier_transform` builds a transform whose preconditions hold and whose output grid is the
grid that was requested (C01, selection)

* `selection_pre` — whatever `choose` returns, the constructor it is handed to accepts its grids
  (given that an explicit output grid has the dimension of the input grid — otherwise the constructor
  raises, `makeFT_ndim_mismatch`).
* `fft_grid_roundtrip` — one axis, exact arithmetic: the parameters `get_fft_parameters`
  reconstructs rebuild exactly the requested axis, and satisfy the value preconditions of
  `FastFourierTransform`.
* `selection_sound` / `selection_sound_fix` — the combination.
* `selection_unsound_noncartesian_old`, `selection_unsound_ndim_old` — the detection as written accepts
  a regular non-Cartesian grid, and a one-axis grid for a two-axis input, and returns a transform on
  another grid.
-/
set_option linter.unusedSimpArgs false
set_option linter.unusedVariables false
set_option linter.unnecessarySeqFocus false

namespace HcipyVerif.Fft

/-! ## descriptor layer -/

/-- **Preconditions.**  Whatever the detection does and whichever way the planner's comparison goes:
if `make_fourier_transform` reaches a constructor, that constructor's checks pass — provided an
explicit output grid has as many dimensions as the input grid (otherwise the constructor raises:
`makeFT_ndim_mismatch`). -/
theorem selection_pre (detect : GridDesc → GridDesc → Bool → Bool) (i : GridDesc)
    (o : Option OutReq) (fftCheaper : Bool) (ch : Choice)
    (hnd : ∀ r, o = some r → r.grid.ndim = i.ndim)
    (h : choose detect i o fftCheaper = some ch) : ctorPre i o ch := by
  obtain ⟨ki, ci, ni⟩ := i
  cases o with
  | none =>
    cases ki <;> cases ci <;> cases fftCheaper <;>
      by_cases h1 : ni = 1 <;> by_cases h2 : ni = 2 <;>
      simp_all [choose, GridDesc.isRegular, GridDesc.isSeparated] <;>
      subst h <;>
      simp_all [ctorPre, fftPre, mftPre, naivePre, ctorGrid, fftGridDesc, GridDesc.isRegular,
        GridDesc.isSeparated]
  | some r =>
    obtain ⟨⟨ko, co, no⟩, nf⟩ := r
    have hn : no = ni := hnd _ rfl
    subst hn
    generalize hb : detect ⟨ki, ci, no⟩ ⟨ko, co, no⟩ nf = b at h
    cases b <;> cases ki <;> cases ci <;> cases fftCheaper <;> cases ko <;> cases co <;>
      by_cases h1 : no = 1 <;> by_cases h2 : no = 2 <;>
      simp_all [choose, GridDesc.isRegular, GridDesc.isSeparated] <;>
      subst h <;>
      simp_all [ctorPre, fftPre, mftPre, naivePre, ctorGrid, fftGridDesc, requestedDesc,
        GridDesc.isRegular, GridDesc.isSeparated]

/-- with equal dimensions the constructor never raises: the whole function is the choice -/
theorem makeFT_eq_choose (detect : GridDesc → GridDesc → Bool → Bool) (i : GridDesc)
    (o : Option OutReq) (fftCheaper : Bool) (hnd : ∀ r, o = some r → r.grid.ndim = i.ndim) :
    makeFT detect i o fftCheaper =
      match choose detect i o fftCheaper with
      | none => .error "value"
      | some c => .ok c := by
  unfold makeFT
  cases hc : choose detect i o fftCheaper with
  | none => rfl
  | some c => simp only []; rw [if_pos (selection_pre detect i o fftCheaper c hnd hc)]

/-- an explicit grid that is not taken for an FFT grid and has another number of dimensions makes
the constructor raise -/
theorem makeFT_ndim_mismatch (detect : GridDesc → GridDesc → Bool → Bool) (i : GridDesc)
    (r : OutReq) (fftCheaper : Bool) (hd : detect i r.grid r.numFft = false)
    (hnd : r.grid.ndim ≠ i.ndim) : makeFT detect i (some r) fftCheaper = .error "value" := by
  have hnd' : ¬ i.ndim = r.grid.ndim := fun h => hnd h.symm
  have hc : choose detect i (some r) fftCheaper = some ⟨.mft, .grid⟩ ∨
      choose detect i (some r) fftCheaper = some ⟨.naive, .grid⟩ := by
    unfold choose
    simp only [hd, Bool.false_eq_true, ↓reduceIte]
    split_ifs <;> simp
  unfold makeFT
  rcases hc with hc | hc <;> rw [hc] <;>
    simp [ctorPre, mftPre, naivePre, ctorGrid, requestedDesc, hnd']

/-- the by-parameters constructor is reached with an explicit grid only through the detection -/
theorem choose_params_detected (detect : GridDesc → GridDesc → Bool → Bool) (i : GridDesc)
    (r : OutReq) (fftCheaper : Bool) (ch : Choice)
    (h : choose detect i (some r) fftCheaper = some ch) (hv : ch.via = .params) :
    detect i r.grid r.numFft = true := by
  by_contra hd
  have hd' : detect i r.grid r.numFft = false := by simpa using hd
  unfold choose at h
  simp only [hd', Bool.false_eq_true, ↓reduceIte] at h
  split_ifs at h <;> cases h <;> cases hv

/-- a grid passed on as it is is the grid reported -/
theorem ctorGrid_via_grid (i : GridDesc) (o : Option OutReq) (ch : Choice) (hv : ch.via = .grid) :
    ctorGrid i o ch = requestedDesc i o := by
  unfold ctorGrid; rw [hv]

/-! ## one axis of `get_fft_parameters` -/

theorem ratFloor_eq (x : Rat) : x.floor = ⌊x⌋ := rfl

theorem roundHalfEven_intCast (n : Int) : roundHalfEven (n : Rat) = n := by
  simp [roundHalfEven, Rat.floor_intCast]

theorem ratFloor_of_bounds (x : Rat) (n : Int) (h1 : (n : Rat) ≤ x) (h2 : x < n + 1) :
    x.floor = n := by
  rw [ratFloor_eq]; exact Int.floor_eq_iff.mpr ⟨h1, h2⟩

theorem outSize_of_bounds (M Mo : Nat) (fov : Rat) (h1 : (Mo : Rat) ≤ (M : Rat) * fov)
    (h2 : (M : Rat) * fov < (Mo : Rat) + 1) : outSize M fov = Mo := by
  unfold outSize
  rw [ratFloor_of_bounds _ (Mo : Int) (by exact_mod_cast h1) (by exact_mod_cast h2)]
  simp

/-- core of the round trip: what the successful run of `getFftParameters` establishes -/
theorem getFftParameters_spec (a : InAxis) (o : OutAxis) (p : FftParams)
    (h : getFftParameters a o = some p) :
    ∃ M : Nat, 0 < a.N ∧ a.N ≤ M ∧ o.Mo ≤ M ∧ a.delta * (a.N : Rat) * o.dT ≠ 0 ∧
      p.q = 1 / (a.delta * (a.N : Rat) * o.dT) ∧ p.q * (a.N : Rat) = (M : Rat) ∧ 1 ≤ p.q ∧
      p.fov = fovPlain o.Mo (M : Rat) ∧ p.shiftT = o.zeroT + o.dT * ((o.Mo / 2 : Nat) : Rat) ∧
      p.s = o.s := by
  unfold getFftParameters at h
  simp only [] at h
  generalize hq : (1 : Rat) / (a.delta * (a.N : Rat) * o.dT) = q at h
  by_cases h1 : q < 1
  · rw [if_pos h1] at h; cases h
  rw [if_neg h1] at h
  generalize hm : roundHalfEven (q * (a.N : Rat)) = m at h
  by_cases h2 : q * (a.N : Rat) ≠ (m : Rat)
  · rw [if_pos h2] at h; cases h
  rw [if_neg h2] at h
  by_cases h3 : (q * (a.N : Rat) + 1 / 2).floor < (o.Mo : Int)
  · rw [if_pos h3] at h; cases h
  rw [if_neg h3] at h
  push Not at h1 h2 h3
  have hq0 : q ≠ 0 := by intro h0; rw [h0] at h1; linarith
  have hden : a.delta * (a.N : Rat) * o.dT ≠ 0 := by
    intro h0; rw [h0] at hq; simp at hq; exact hq0 hq.symm
  have hN0 : (a.N : Rat) ≠ 0 := by
    intro h0; apply hden; rw [h0]; ring
  have hNpos : 0 < a.N := by
    rcases Nat.eq_zero_or_pos a.N with h0 | h0
    · exfalso; apply hN0; rw [h0]; simp
    · exact h0
  have hNq : (1 : Rat) ≤ (a.N : Rat) := by exact_mod_cast hNpos
  have hmN : (a.N : Rat) ≤ (m : Rat) := by
    rw [← h2]; nlinarith
  have hmpos : 0 < m := by
    have : (0 : Rat) < (m : Rat) := by linarith
    exact_mod_cast this
  have hfl : (q * (a.N : Rat) + 1 / 2).floor = m := by
    rw [h2]; apply ratFloor_of_bounds <;> linarith
  rw [hfl] at h3
  refine ⟨m.toNat, hNpos, ?_, ?_, hden, ?_⟩
  · have : (a.N : Int) ≤ m := by exact_mod_cast hmN
    omega
  · omega
  have hmc : ((m.toNat : Nat) : Rat) = (m : Rat) := by
    have : ((m.toNat : Nat) : Int) = m := Int.toNat_of_nonneg hmpos.le
    exact_mod_cast this
  have hpad : paddedSize a.N q = m.toNat := by unfold paddedSize; rw [hm]
  have hout : outSize (paddedSize a.N q) (fovPlain o.Mo (q * (a.N : Rat))) = o.Mo := by
    rw [hpad]
    have hmq : (0 : Rat) < (m : Rat) := by exact_mod_cast hmpos
    have : ((m.toNat : Nat) : Rat) * fovPlain o.Mo (q * (a.N : Rat)) = (o.Mo : Rat) := by
      rw [hmc, h2]; unfold fovPlain; field_simp
    apply outSize_of_bounds <;> rw [this] <;> linarith
  rw [hout] at h
  simp only [ne_eq, not_true_eq_false, if_false] at h
  cases h
  refine ⟨rfl, ?_, h1, ?_, rfl, rfl⟩
  · rw [hmc, h2]
  · rw [hmc, h2]

theorem paddedSize_of_int (N M : Nat) (q : Rat) (h : q * (N : Rat) = (M : Rat)) :
    paddedSize N q = M := by
  unfold paddedSize
  rw [h, show ((M : Nat) : Rat) = (((M : Nat) : Int) : Rat) by simp, roundHalfEven_intCast]
  simp

theorem outSize_fovPlain (M Mo : Nat) (hM : 0 < M) : outSize M (fovPlain Mo (M : Rat)) = Mo := by
  have hMq : (0 : Rat) < (M : Rat) := by exact_mod_cast hM
  have : (M : Rat) * fovPlain Mo (M : Rat) = (Mo : Rat) := by unfold fovPlain; field_simp
  apply outSize_of_bounds <;> rw [this] <;> linarith

/-- the corrected value lands in the middle of the truncation interval -/
theorem outSize_fovCorrected (N M Mo : Nat) (q : Rat) (hM : 0 < M) (h : q * (N : Rat) = (M : Rat)) :
    outSize M (fovCorrected Mo N q) = Mo := by
  have hMq : (0 : Rat) < (M : Rat) := by exact_mod_cast hM
  have : (M : Rat) * fovCorrected Mo N q = (Mo : Rat) + 1 / 2 := by
    unfold fovCorrected; rw [mul_comm (N : Rat) q, h]; field_simp
  apply outSize_of_bounds <;> rw [this] <;> linarith

theorem roundtrip_core (a : InAxis) (o : OutAxis) (p : FftParams) (z : Rat) (M : Nat)
    (hN : 0 < a.N) (hNM : a.N ≤ M) (hMo : o.Mo ≤ M) (hden : a.delta * (a.N : Rat) * o.dT ≠ 0)
    (hq : p.q = 1 / (a.delta * (a.N : Rat) * o.dT)) (hqN : p.q * (a.N : Rat) = (M : Rat))
    (hq1 : 1 ≤ p.q) (hfov : p.fov = fovPlain o.Mo (M : Rat) ∨ p.fov = fovCorrected o.Mo a.N p.q)
    (hsT : p.shiftT = o.zeroT + o.dT * ((o.Mo / 2 : Nat) : Rat)) (hs : p.s = o.s) :
    AxisReproduced a z o p ∧ FftValuePre (p.toAxisIn a z) ∧
      ((plan (p.toAxisIn a z)).M : Rat) = p.q * (a.N : Rat) ∧
      FftConsistent a.N (plan (p.toAxisIn a z)).M (plan (p.toAxisIn a z)).Mo a.delta
        (plan (p.toAxisIn a z)).dT := by
  have hM : 0 < M := by omega
  have hMq : (0 : Rat) < (M : Rat) := by exact_mod_cast hM
  have hNq : (a.N : Rat) ≠ 0 := by intro h0; apply hden; rw [h0]; ring
  have hd : a.delta ≠ 0 := by intro h0; apply hden; rw [h0]; ring
  have hdT : o.dT ≠ 0 := by intro h0; apply hden; rw [h0]; ring
  have hpad : paddedSize a.N p.q = M := paddedSize_of_int _ _ _ hqN
  have hout : outSize M p.fov = o.Mo := by
    rcases hfov with h | h <;> rw [h]
    · exact outSize_fovPlain M o.Mo hM
    · exact outSize_fovCorrected a.N M o.Mo p.q hM hqN
  have hfov0 : 0 ≤ p.fov := by
    rcases hfov with h | h <;> rw [h]
    · unfold fovPlain; positivity
    · unfold fovCorrected; rw [mul_comm (a.N : Rat) p.q, hqN]; positivity
  have hdT' : 1 / ((M : Rat) * a.delta) = o.dT := by
    rw [← hqN, hq]; field_simp
  have hplanM : (plan (p.toAxisIn a z)).M = M := hpad
  have hplanMo : (plan (p.toAxisIn a z)).Mo = o.Mo := by
    show outSize (paddedSize a.N p.q) p.fov = o.Mo
    rw [hpad]; exact hout
  have hplandT : (plan (p.toAxisIn a z)).dT = o.dT := by
    show 1 / ((paddedSize a.N p.q : Rat) * a.delta) = o.dT
    rw [hpad]; exact hdT'
  refine ⟨⟨rfl, hplanMo, hplandT, ?_, hs⟩, ⟨hq1, hfov0, ?_⟩, ?_, ?_⟩
  · unfold AxisPlan.zeroT; rw [hplanMo, hplandT, hsT]; ring
  · rw [hplanM, hplanMo]; exact hMo
  · rw [hplanM, hqN]
  · rw [hplanM, hplanMo, hplandT]
    refine ⟨hM, hNM, hMo, ?_⟩
    rw [← hdT']; field_simp

/-- **Round trip, one axis, exact arithmetic.** -/
theorem fft_grid_roundtrip (a : InAxis) (o : OutAxis) (p : FftParams) (z : Rat)
    (h : getFftParameters a o = some p) :
    AxisReproduced a z o p ∧ FftValuePre (p.toAxisIn a z) ∧
      ((plan (p.toAxisIn a z)).M : Rat) = p.q * (a.N : Rat) ∧
      FftConsistent a.N (plan (p.toAxisIn a z)).M (plan (p.toAxisIn a z)).Mo a.delta
        (plan (p.toAxisIn a z)).dT := by
  obtain ⟨M, hN, hNM, hMo, hden, hq, hqN, hq1, hfov, hsT, hs⟩ := getFftParameters_spec a o p h
  exact roundtrip_core a o p z M hN hNM hMo hden hq hqN hq1 (Or.inl hfov) hsT hs

theorem fft_grid_roundtrip_corrected (a : InAxis) (o : OutAxis) (p : FftParams) (z : Rat)
    (h : getFftParameters a o = some p) :
    let p' : FftParams := { p with fov := fovCorrected o.Mo a.N p.q }
    AxisReproduced a z o p' ∧ FftValuePre (p'.toAxisIn a z) ∧
      ((plan (p'.toAxisIn a z)).M : Rat) = p'.q * (a.N : Rat) ∧
      FftConsistent a.N (plan (p'.toAxisIn a z)).M (plan (p'.toAxisIn a z)).Mo a.delta
        (plan (p'.toAxisIn a z)).dT := by
  obtain ⟨M, hN, hNM, hMo, hden, hq, hqN, hq1, hfov, hsT, hs⟩ := getFftParameters_spec a o p h
  exact roundtrip_core a o { p with fov := fovCorrected o.Mo a.N p.q } z M hN hNM hMo hden hq hqN
    hq1 (Or.inr rfl) hsT hs


/-! ## several axes -/

theorem numFftAxes_reproduced (ins : List InAxis) (outs : List OutAxis)
    (h : numFftAxes ins outs = true) : AxesReproduced ins outs := by
  induction ins generalizing outs with
  | nil => cases outs with
    | nil => trivial
    | cons o os => simp [numFftAxes] at h
  | cons a as ih => cases outs with
    | nil => simp [numFftAxes] at h
    | cons o os =>
      simp only [numFftAxes, Bool.and_eq_true] at h
      obtain ⟨p, hp⟩ := Option.isSome_iff_exists.mp h.1
      refine ⟨⟨p, hp, fun z => ?_⟩, ih os h.2⟩
      have := fft_grid_roundtrip a o p z hp
      exact ⟨this.1, this.2.1⟩

/-! ## the combination -/

/-- **`selection_sound`** for the code as written.  Hypothesis `hreq`: an explicit output grid has
the dimension of the input grid, is Cartesian if it is regular, and the oracle `numFft` is the
per-axis model.  Then in every branch that returns an object: its constructor's preconditions hold,
the `output_grid` it reports is (descriptor) the requested grid, and where the grid was replaced by
reconstructed FFT parameters every axis of the rebuilt grid equals the requested axis exactly and
the parameters satisfy `FastFourierTransform`'s value checks.
(By parameters, `output_grid=None`: the requested grid *is* `make_fft_grid(input_grid, q, fov, shift)`,
which `FastFourierTransform` computes by that very call and `MatrixFourierTransform` is handed.) -/
theorem selection_sound (i : GridDesc) (o : Option OutReq) (fftCheaper : Bool) (ch : Choice)
    (ins : List InAxis) (outs : List OutAxis)
    (hreq : ∀ r, o = some r → r.grid.ndim = i.ndim ∧
      (r.grid.isRegular = true → r.grid.cartesian = true) ∧ r.numFft = numFftAxes ins outs)
    (h : choose detectLit i o fftCheaper = some ch) :
    ctorPre i o ch ∧ ctorGrid i o ch = requestedDesc i o ∧
      (∀ r, o = some r → ch.via = .params → AxesReproduced ins outs) := by
  refine ⟨selection_pre detectLit i o fftCheaper ch (fun r hr => (hreq r hr).1) h, ?_, ?_⟩
  · cases hv : ch.via with
    | grid => exact ctorGrid_via_grid i o ch hv
    | params =>
      cases o with
      | none => unfold ctorGrid; rw [hv]; rfl
      | some r =>
        have hd := choose_params_detected detectLit i r fftCheaper ch h hv
        obtain ⟨hn, hc, _⟩ := hreq r rfl
        unfold detectLit at hd
        simp only [Bool.and_eq_true] at hd
        have hcart := hc hd.1.1.2
        unfold ctorGrid; rw [hv]
        obtain ⟨⟨k, c, n⟩, nf⟩ := r
        cases k <;> simp_all [requestedDesc, fftGridDesc, GridDesc.isRegular]
  · intro r hr hv
    subst hr
    have hd := choose_params_detected detectLit i r fftCheaper ch h hv
    unfold detectLit at hd
    simp only [Bool.and_eq_true] at hd
    apply numFftAxes_reproduced
    rw [← (hreq r rfl).2.2]; exact hd.1.2

/-- **`selection_sound`** with the repaired detection (`detectFix`: an FFT grid must be Cartesian
and have the dimension of the input): no hypothesis on the requested grid is left; whenever the
function returns an object, the object is on the requested grid. -/
theorem selection_sound_fix (i : GridDesc) (o : Option OutReq) (fftCheaper : Bool) (ch : Choice)
    (ins : List InAxis) (outs : List OutAxis)
    (hnum : ∀ r, o = some r → r.numFft = numFftAxes ins outs)
    (h : makeFT detectFix i o fftCheaper = .ok ch) :
    ctorPre i o ch ∧ ctorGrid i o ch = requestedDesc i o ∧
      (∀ r, o = some r → ch.via = .params → AxesReproduced ins outs) := by
  unfold makeFT at h
  cases hc : choose detectFix i o fftCheaper with
  | none => rw [hc] at h; cases h
  | some c =>
    rw [hc] at h
    simp only [] at h
    by_cases hp : ctorPre i o c
    · rw [if_pos hp] at h
      cases h
      refine ⟨hp, ?_, ?_⟩
      · cases hv : ch.via with
        | grid => exact ctorGrid_via_grid i o ch hv
        | params =>
          cases o with
          | none => unfold ctorGrid; rw [hv]; rfl
          | some r =>
            have hd := choose_params_detected detectFix i r fftCheaper ch hc hv
            unfold detectFix detectLit at hd
            simp only [Bool.and_eq_true, beq_iff_eq] at hd
            unfold ctorGrid; rw [hv]
            obtain ⟨⟨k, c, n⟩, nf⟩ := r
            cases k <;> simp_all [requestedDesc, fftGridDesc, GridDesc.isRegular]
      · intro r hr hv
        subst hr
        have hd := choose_params_detected detectFix i r fftCheaper ch hc hv
        unfold detectFix detectLit at hd
        simp only [Bool.and_eq_true] at hd
        apply numFftAxes_reproduced
        rw [← hnum r rfl]; exact hd.1.1.1.2
    · rw [if_neg hp] at h; cases h

/-! ## the detection as written is too generous (old behaviour) -/

/-- A regular **polar** grid whose numbers are those of an FFT grid is taken for an FFT grid; the
object returned reports a Cartesian grid. -/
theorem selection_unsound_noncartesian_old :
    ∃ (i : GridDesc) (r : OutReq) (c : Bool) (ch : Choice),
      makeFT detectLit i (some r) c = .ok ch ∧ r.grid.ndim = i.ndim ∧
        ctorGrid i (some r) ch ≠ requestedDesc i (some r) :=
  ⟨⟨.regular, true, 2⟩, ⟨⟨.regular, false, 2⟩, true⟩, true, ⟨.fft, .params⟩, by decide⟩

/-- A one-axis regular grid against a two-axis input grid (numpy broadcasts the per-axis numbers):
the object returned reports a two-axis grid. -/
theorem selection_unsound_ndim_old :
    ∃ (i : GridDesc) (r : OutReq) (c : Bool) (ch : Choice),
      makeFT detectLit i (some r) c = .ok ch ∧ r.grid.cartesian = true ∧
        ctorGrid i (some r) ch ≠ requestedDesc i (some r) :=
  ⟨⟨.regular, true, 2⟩, ⟨⟨.regular, true, 1⟩, true⟩, false, ⟨.mft, .params⟩, by decide⟩

/-- the repaired detection sends both to the by-grid constructors (which keep the grid, or raise) -/
theorem selection_fix_examples :
    makeFT detectFix ⟨.regular, true, 2⟩ (some ⟨⟨.regular, false, 2⟩, true⟩) true
        = .ok ⟨.naive, .grid⟩ ∧
      makeFT detectFix ⟨.regular, true, 2⟩ (some ⟨⟨.regular, true, 1⟩, true⟩) false
        = .error "value" := by decide

/-! ## the hypotheses can be met -/

example : getFftParameters ⟨8, 1 / 2⟩ ⟨5, 1 / 8, -(1 / 4), 1 / 4⟩
    = some ⟨2, 5 / 16, 0, 1 / 4⟩ := by decide +kernel

example : getFftParameters ⟨87, 1 / 4⟩ ⟨218, 2 / 109, 3 / 8, 0⟩
    = some ⟨218 / 87, 1, 3 / 8 + 2 / 109 * 109, 0⟩ := by decide +kernel

example : choose detectLit ⟨.regular, true, 2⟩ (some ⟨⟨.regular, true, 2⟩, true⟩) false
    = some ⟨.mft, .params⟩ := by decide

example : choose detectLit ⟨.separated, true, 2⟩ (some ⟨⟨.unstructured, true, 2⟩, false⟩) false
    = some ⟨.naive, .grid⟩ := by decide

example : numFftAxes [⟨8, 1 / 2⟩, ⟨6, 1 / 4⟩] [⟨5, 1 / 8, -(1 / 4), 1 / 4⟩, ⟨9, 1 / 3, 0, 0⟩]
    = true := by decide +kernel

end HcipyVerif.Fft
