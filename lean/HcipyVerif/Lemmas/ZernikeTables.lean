import HcipyVerif.Lemmas.Zernike

/-! Finite tables for C13 (bounded by the property itself: radial orders `n ≤ 20`), checked by kernel
evaluation of exact rational arithmetic. The orthonormality table is split into four blocks of
azimuthal orders so that they are checked in parallel. -/

set_option linter.unusedSimpArgs false
set_option linter.unusedVariables false

namespace HcipyVerif.Zernike

/-- `∫₀¹ R_n^m R_{n'}^m r dr = δ_{nn'} / (2(n+1))` on coefficients (vacuous if `(n', m)` is not valid) -/
def orthoOK (n m n' : Nat) : Bool :=
  !(decide (m ≤ n') && (n' - m) % 2 == 0) ||
    pint01 (pshift 1 (pmul (radialPoly n m) (radialPoly n' m))) == (if n = n' then 1 / (2 * ((n : Rat) + 1)) else 0)

def orthoBlock (lo hi : Nat) : Bool :=
  (pairs 20).all fun (n, m) => !(decide (lo ≤ m) && decide (m < hi)) || (List.range 21).all fun n' => orthoOK n m n'

theorem orthoBlock_a : orthoBlock 0 1 = true := by decide +kernel
theorem orthoBlock_b : orthoBlock 1 3 = true := by decide +kernel
theorem orthoBlock_c : orthoBlock 3 6 = true := by decide +kernel
theorem orthoBlock_d : orthoBlock 6 21 = true := by decide +kernel

theorem orthoBlock_elim {lo hi : Nat} (h : orthoBlock lo hi = true) (n m n' : Nat) (hn : n ≤ 20) (hm : m ≤ n)
    (hpar : (n - m) % 2 = 0) (hn' : n' ≤ 20) (h1 : lo ≤ m) (h2 : m < hi) : orthoOK n m n' = true := by
  unfold orthoBlock at h
  rw [List.all_eq_true] at h
  have := h (n, m) ((mem_pairs 20 n m).mpr ⟨hn, hm, hpar⟩)
  simp only [h1, h2, decide_true, Bool.and_self, Bool.not_true, Bool.false_or, List.all_eq_true, List.mem_range] at this
  exact this n' (by omega)

theorem orthoOK_all (n m n' : Nat) (hn : n ≤ 20) (hm : m ≤ n) (hpar : (n - m) % 2 = 0) (hn' : n' ≤ 20) :
    orthoOK n m n' = true := by
  by_cases h1 : m < 1
  · exact orthoBlock_elim orthoBlock_a n m n' hn hm hpar hn' (by omega) h1
  by_cases h2 : m < 3
  · exact orthoBlock_elim orthoBlock_b n m n' hn hm hpar hn' (by omega) h2
  by_cases h3 : m < 6
  · exact orthoBlock_elim orthoBlock_c n m n' hn hm hpar hn' (by omega) h3
  · exact orthoBlock_elim orthoBlock_d n m n' hn hm hpar hn' (by omega) (by omega)

end HcipyVerif.Zernike
