import Mathlib.Analysis.SpecialFunctions.Complex.Arg

/-!
Real-number specification of the coordinate-system conversions of `hcipy/field/polar_grid.py`:
`_cartesian_to_polar` computes `(np.hypot(x, y), np.arctan2(y, x))`, `_polar_to_cartesian`
computes `(r cos θ, r sin θ)`.  `np.hypot` is `√(x²+y²)` and `np.arctan2(y, x)` is the principal
argument of `x + iy` in `(-π, π]` (NumPy specifications, assumed).
-/
namespace HcipyVerif.Grid

noncomputable def toPolar (p : ℝ × ℝ) : ℝ × ℝ :=
  (Real.sqrt (p.1 * p.1 + p.2 * p.2), Complex.arg ⟨p.1, p.2⟩)

noncomputable def toCart (q : ℝ × ℝ) : ℝ × ℝ := (q.1 * Real.cos q.2, q.1 * Real.sin q.2)

theorem norm_mk (x y : ℝ) : ‖(⟨x, y⟩ : ℂ)‖ = Real.sqrt (x * x + y * y) := by
  rw [Complex.norm_def, Complex.normSq_apply]

end HcipyVerif.Grid
