import Mathlib.Analysis.SpecialFunctions.Complex.Arg
import HcipyVerif.Model.Grid
import Mathlib.Tactic.Linarith
import Mathlib.Tactic.FieldSimp
import Mathlib.Algebra.Order.Field.Rat
import Mathlib.Data.Rat.Lemmas
import Mathlib.Data.Nat.Sqrt

/-!
Real-number specification of the coordinate-system conversions of `hcipy/field/polar_grid.py`:
`_cartesian_to_polar` computes `(np.hypot(x, y), np.arctan2(y, x))`, `_polar_to_cartesian`
computes `(r cos θ, r sin θ)`.  `np.hypot` is `√(x²+y²)` and `np.arctan2(y, x)` is the principal
argument of `x + iy` in `(-π, π]` (NumPy specifications, assumed).
-/
set_option linter.unusedSimpArgs false
set_option linter.unusedVariables false

namespace HcipyVerif.Grid

noncomputable def toPolar (p : ℝ × ℝ) : ℝ × ℝ :=
  (Real.sqrt (p.1 * p.1 + p.2 * p.2), Complex.arg ⟨p.1, p.2⟩)

noncomputable def toCart (q : ℝ × ℝ) : ℝ × ℝ := (q.1 * Real.cos q.2, q.1 * Real.sin q.2)

theorem norm_mk (x y : ℝ) : ‖(⟨x, y⟩ : ℂ)‖ = Real.sqrt (x * x + y * y) := by
  rw [Complex.norm_def, Complex.normSq_apply]

/-! ### the exact executable conversion (`cartToPolar?`, `polarToCart` of Model/Grid.lean) -/

theorem ratSqrt?_spec (q r : Rat) (h : ratSqrt? q = some r) : 0 ≤ r ∧ r * r = q := by
  unfold ratSqrt? at h
  split at h
  · simp at h
  · rename_i hq
    split at h
    · rename_i hsq
      simp only [Option.some.injEq] at h
      subst h
      have hd : (q.den.sqrt : Rat) ≠ 0 := by
        intro e
        have e' : q.den.sqrt = 0 := by exact_mod_cast e
        have := hsq.2
        rw [e'] at this
        exact q.den_nz this.symm
      refine ⟨by positivity, ?_⟩
      obtain ⟨m, hm⟩ := Int.eq_ofNat_of_zero_le (Rat.num_nonneg.mpr (not_lt.mp hq))
      have hna : q.num.natAbs = m := by rw [hm]; rfl
      have h1 : ((q.num.natAbs.sqrt : Rat) * (q.num.natAbs.sqrt : Rat)) = (q.num : Rat) := by
        have : ((q.num.natAbs.sqrt * q.num.natAbs.sqrt : Nat) : Rat) = ((q.num.natAbs : Nat) : Rat) := by rw [hsq.1]
        rw [Nat.cast_mul] at this
        rw [this, hna, hm]; simp
      have h2 : ((q.den.sqrt : Rat) * (q.den.sqrt : Rat)) = (q.den : Rat) := by
        have : ((q.den.sqrt * q.den.sqrt : Nat) : Rat) = ((q.den : Nat) : Rat) := by rw [hsq.2]
        push_cast at this; exact this
      rw [div_mul_div_comm, h1, h2]
      exact Rat.num_div_den q
    · simp at h

theorem ratSqrt?_sq (r : Rat) (hr : 0 ≤ r) : ratSqrt? (r * r) = some r := by
  unfold ratSqrt?
  have h0 : ¬ (r * r < 0) := not_lt.mpr (mul_self_nonneg r)
  have hn : (r * r).num = r.num * r.num := Rat.mul_self_num r
  have hd : (r * r).den = r.den * r.den := Rat.mul_self_den r
  have hna : (r * r).num.natAbs = r.num.natAbs * r.num.natAbs := by rw [hn, Int.natAbs_mul]
  simp only [h0, if_false, hna, hd, Nat.sqrt_eq, and_self, if_true, Option.some.injEq]
  obtain ⟨m, hm⟩ := Int.eq_ofNat_of_zero_le (Rat.num_nonneg.mpr hr)
  have hna : r.num.natAbs = m := by rw [hm]; rfl
  have h2 : ((r.num.natAbs : Nat) : Rat) = (r.num : Rat) := by rw [hna, hm]; simp
  rw [h2]; exact Rat.num_div_den r


theorem sq_sum_zero {x y : Rat} (h : x * x + y * y = 0) : x = 0 ∧ y = 0 := by
  have hx := mul_self_nonneg x
  have hy := mul_self_nonneg y
  exact ⟨mul_self_eq_zero.mp (by linarith), mul_self_eq_zero.mp (by linarith)⟩

/-- what `cartToPolar?` returns: `[r, c, s]` with `r ≥ 0`, `r² = x² + y²`, `(c, s)` on the unit circle,
and `(x, y) = (r c, r s)` -/
theorem cartToPolar?_spec (x y : Rat) (q : List Rat) (h : cartToPolar? [x, y] = some q) :
    ∃ r c s, q = [r, c, s] ∧ 0 ≤ r ∧ r * r = x * x + y * y ∧ c * c + s * s = 1 ∧ x = r * c ∧ y = r * s := by
  simp only [cartToPolar?, Option.map_eq_some_iff] at h
  obtain ⟨r, hr, rfl⟩ := h
  obtain ⟨h0, hsq⟩ := ratSqrt?_spec _ _ hr
  by_cases hz : r = 0
  · subst hz
    obtain ⟨rfl, rfl⟩ := sq_sum_zero (by linarith : x * x + y * y = 0)
    exact ⟨0, 1, 0, by simp, le_refl _, by ring, by ring, by ring, by ring⟩
  · refine ⟨r, x / r, y / r, by simp [hz], h0, hsq, ?_, by field_simp, by field_simp⟩
    have : r * r ≠ 0 := mul_ne_zero hz hz
    field_simp
    linarith

theorem cartToPolar?_complete (r c s : Rat) (hr : 0 ≤ r) (hcs : c * c + s * s = 1) :
    cartToPolar? [r * c, r * s] = some (if r = 0 then [0, 1, 0] else [r, c, s]) := by
  have : r * c * (r * c) + r * s * (r * s) = r * r := by
    have : r * c * (r * c) + r * s * (r * s) = r * r * (c * c + s * s) := by ring
    rw [this, hcs, mul_one]
  simp only [cartToPolar?, this, ratSqrt?_sq r hr, Option.map_some, Option.some.injEq]
  by_cases hz : r = 0
  · simp [hz]
  · simp only [hz, if_false, List.cons.injEq, and_true, true_and]
    constructor <;> field_simp

/-- bridge to the real-number specification `toPolar` (`hypot`, `arctan2`) -/
theorem cartToPolar?_toPolar (x y r c s : Rat) (h : cartToPolar? [x, y] = some [r, c, s]) :
    (toPolar ((x : ℝ), (y : ℝ))).1 = (r : ℝ) ∧ Real.cos (toPolar ((x : ℝ), (y : ℝ))).2 = (c : ℝ) ∧
      Real.sin (toPolar ((x : ℝ), (y : ℝ))).2 = (s : ℝ) := by
  obtain ⟨r', c', s', hq, h0, hsq, _, hx, hy⟩ := cartToPolar?_spec x y _ h
  simp only [List.cons.injEq, and_true] at hq
  obtain ⟨rfl, rfl, rfl⟩ := hq
  have hsqR : ((x : ℝ) * x + y * y) = (r : ℝ) * r := by exact_mod_cast hsq.symm
  have h0R : (0 : ℝ) ≤ r := by exact_mod_cast h0
  have hnorm : ‖(⟨(x : ℝ), (y : ℝ)⟩ : ℂ)‖ = (r : ℝ) := by rw [norm_mk, hsqR, Real.sqrt_mul_self h0R]
  refine ⟨by simp only [toPolar]; rw [hsqR, Real.sqrt_mul_self h0R], ?_, ?_⟩
  · simp only [toPolar]
    by_cases hz : r = 0
    · subst hz
      obtain ⟨rfl, rfl⟩ := sq_sum_zero (by linarith : x * x + y * y = 0)
      simp only [cartToPolar?] at h
      have : (⟨((0 : ℚ) : ℝ), ((0 : ℚ) : ℝ)⟩ : ℂ) = 0 := by simp [Complex.ext_iff]
      rw [this, Complex.arg_zero, Real.cos_zero]
      have h' := h
      simp [ratSqrt?] at h'
      exact_mod_cast h'.1
    · have hne : (⟨(x : ℝ), (y : ℝ)⟩ : ℂ) ≠ 0 := by
        intro e; rw [e, norm_zero] at hnorm; exact hz (by exact_mod_cast hnorm.symm)
      rw [Complex.cos_arg hne, hnorm]
      have hrR : (r : ℝ) ≠ 0 := by exact_mod_cast hz
      simp only
      rw [hx]; push_cast; field_simp
  · simp only [toPolar]
    by_cases hz : r = 0
    · subst hz
      obtain ⟨rfl, rfl⟩ := sq_sum_zero (by linarith : x * x + y * y = 0)
      have : (⟨((0 : ℚ) : ℝ), ((0 : ℚ) : ℝ)⟩ : ℂ) = 0 := by simp [Complex.ext_iff]
      rw [this, Complex.arg_zero, Real.sin_zero]
      have h' := h
      simp [cartToPolar?, ratSqrt?] at h'
      exact_mod_cast h'.2
    · rw [Complex.sin_arg, hnorm]
      have hrR : (r : ℝ) ≠ 0 := by exact_mod_cast hz
      simp only
      rw [hy]; push_cast; field_simp

/-! ### the specification functions over `ℝ` (pure mathematics; cited by Properties/C11.lean) -/

theorem toCart_toPolar (p : ℝ × ℝ) : toCart (toPolar p) = p := by
  obtain ⟨x, y⟩ := p
  have h1 := Complex.norm_mul_cos_arg (⟨x, y⟩ : ℂ)
  have h2 := Complex.norm_mul_sin_arg (⟨x, y⟩ : ℂ)
  rw [norm_mk] at h1 h2
  simp only [toCart, toPolar, Prod.mk.injEq]
  exact ⟨h1, h2⟩

theorem toPolar_radius (p : ℝ × ℝ) : 0 ≤ (toPolar p).1 ∧ (toPolar p).1 * (toPolar p).1 = p.1 * p.1 + p.2 * p.2 := by
  refine ⟨Real.sqrt_nonneg _, Real.mul_self_sqrt (by nlinarith [mul_self_nonneg p.1, mul_self_nonneg p.2])⟩

theorem toCart_rotate (r θ α : ℝ) :
    toCart (r, θ + α) =
      (Real.cos α * (toCart (r, θ)).1 - Real.sin α * (toCart (r, θ)).2,
       Real.sin α * (toCart (r, θ)).1 + Real.cos α * (toCart (r, θ)).2) := by
  simp only [toCart, Real.cos_add, Real.sin_add, Prod.mk.injEq]
  constructor <;> ring

theorem toCart_scale (r θ k : ℝ) :
    toCart (r * k, θ) = ((toCart (r, θ)).1 * k, (toCart (r, θ)).2 * k) := by
  simp only [toCart, Prod.mk.injEq]
  constructor <;> ring

/-- a point of the executable model as a pair of reals -/
def ptR (p : List Rat) : ℝ × ℝ := (((p.getD 0 0 : Rat) : ℝ), ((p.getD 1 0 : Rat) : ℝ))

end HcipyVerif.Grid
