import Mathlib.Data.Matrix.Mul
import Mathlib.LinearAlgebra.Matrix.ConjTranspose
import Mathlib.Algebra.BigOperators.Fin
import HcipyVerif.Lemmas.NearField

/-!
# C04 — tensor fields through the `FourierFilter`: Stokes-`I` power, matrix-valued transfer functions

* `stokesPower w S E` — `Wavefront.total_power` of a Jones-matrix wavefront `E` with input Stokes vector `S` on a
  regular grid (`Σ_k I_k · w`), with `I` the executable `stokesI` of `Model/NearField.lean` (the polynomial
  `Wavefront.I` evaluates; the driver runs it at `Rat`).  `herm_contraction`: the Hermitian form behind it is
  positive semi-definite for a physical Stokes vector, hence non-increasing under any linear contraction.
* `filterM P e D` — `FourierFilter._operation` with a matrix-valued transfer function: the point-wise product is
  the executable `matVec (D m)` (`field_dot`), the adjoint uses `conjT conj (D m)` (`field_conjugate_transpose`).
-/

set_option linter.unusedSimpArgs false
set_option linter.unusedVariables false
set_option linter.unusedSectionVars false

open Finset Complex ComplexConjugate

namespace HcipyVerif.NearField

variable {ι μ : Type*} [Fintype ι] [Fintype μ] [DecidableEq μ]

/-- The trivial Fourier pair (`F = F⁻¹ = id`, `c = 1`), for counterexamples. -/
noncomputable def FourierPair.idPair (α : Type*) [Fintype α] : FourierPair α :=
  { F := LinearMap.id, Finv := LinearMap.id, c := 1, c_pos := one_pos,
    Finv_F := fun _ => rfl, F_Finv := fun _ => rfl, adj := fun x y => by simp }

/-! ## Stokes-`I` power -/

/-- `Wavefront.total_power` for a partially polarised (Jones-matrix + Stokes vector) wavefront on a regular
grid with pixel weight `w`: `Σ_k stokesI(S; E_k) · w`. Components `(0,0)=x, (0,1)=y, (1,0)=z, (1,1)=w`. -/
noncomputable def stokesPower (w : ℝ) (S : Fin 4 → ℝ) (E : Fin 2 × Fin 2 → ι → ℂ) : ℝ :=
  ∑ i, stokesI (S 0) (S 1) (S 2) (S 3) (E (0, 0) i).re (E (0, 0) i).im (E (0, 1) i).re (E (0, 1) i).im
    (E (1, 0) i).re (E (1, 0) i).im (E (1, 1) i).re (E (1, 1) i).im * w

/-- The Hermitian form of one row `(u, v)` of the Jones matrix field: `(u v)ᴴ C (u v)` summed over the grid,
`C = [[S0+S1, S2+iS3], [S2-iS3, S0-S1]]` (twice the coherency matrix). -/
noncomputable def herm (S : Fin 4 → ℝ) (u v : ι → ℂ) : ℝ :=
  (S 0 + S 1) * nsq u + (S 0 - S 1) * nsq v + 2 * (((S 2 : ℂ) - (S 3 : ℂ) * I) * ip v u).re

theorem stokesPower_eq_herm (w : ℝ) (S : Fin 4 → ℝ) (E : Fin 2 × Fin 2 → ι → ℂ) :
    stokesPower w S E = w / 2 * (herm S (E (0, 0)) (E (0, 1)) + herm S (E (1, 0)) (E (1, 1))) := by
  unfold stokesPower herm nsq ip
  simp only [Finset.mul_sum, Complex.re_sum, ← Finset.sum_add_distrib]
  apply Finset.sum_congr rfl
  intro i _
  simp only [stokesI, Complex.sq_norm, Complex.normSq_apply, Complex.mul_re, Complex.mul_im, Complex.sub_re,
    Complex.sub_im, Complex.conj_re, Complex.conj_im, Complex.ofReal_re, Complex.ofReal_im, Complex.I_re,
    Complex.I_im]
  ring

theorem nsq_add_smul (u v : ι → ℂ) (γ : ℂ) :
    nsq (u + γ • v) = nsq u + ‖γ‖ ^ 2 * nsq v + 2 * (conj γ * ip v u).re := by
  unfold nsq ip
  simp only [Finset.mul_sum, Complex.re_sum, ← Finset.sum_add_distrib]
  apply Finset.sum_congr rfl
  intro i _
  simp only [Pi.add_apply, Pi.smul_apply, smul_eq_mul]
  rw [Complex.sq_norm, Complex.sq_norm, Complex.sq_norm, Complex.sq_norm, Complex.normSq_add,
    Complex.normSq_mul]
  have h : u i * conj (γ * v i) = conj γ * (conj (v i) * u i) := by rw [map_mul]; ring
  rw [h]

/-- **A positive semi-definite Stokes form does not increase under a linear contraction**: for a physical
Stokes vector (`0 ≤ S0`, `S1² + S2² + S3² ≤ S0²`), `T` linear with `‖T x‖² ≤ ‖x‖²`. -/
theorem herm_contraction (S : Fin 4 → ℝ) (hS0 : 0 ≤ S 0) (hphys : S 1 ^ 2 + S 2 ^ 2 + S 3 ^ 2 ≤ S 0 ^ 2)
    (T : (ι → ℂ) → (ι → ℂ)) (hlin : ∀ (γ : ℂ) (u v : ι → ℂ), T (u + γ • v) = T u + γ • T v)
    (hcon : ∀ x, nsq (T x) ≤ nsq x) (u v : ι → ℂ) : herm S (T u) (T v) ≤ herm S u v := by
  have hp : 0 ≤ S 0 + S 1 := by nlinarith [sq_nonneg (S 2), sq_nonneg (S 3), sq_nonneg (S 0 + S 1)]
  have hq : 0 ≤ S 0 - S 1 := by nlinarith [sq_nonneg (S 2), sq_nonneg (S 3), sq_nonneg (S 0 - S 1)]
  have hc : S 2 ^ 2 + S 3 ^ 2 ≤ (S 0 + S 1) * (S 0 - S 1) := by nlinarith
  rcases hp.lt_or_eq with hpos | hzero
  · -- complete the square: herm = p ‖u + γ v‖² + (q - |c|²/p) ‖v‖²
    set p := S 0 + S 1 with hpdef
    set γ : ℂ := ((S 2 : ℂ) + (S 3 : ℂ) * I) / (p : ℂ) with hγ
    have hpc : (p : ℂ) ≠ 0 := by exact_mod_cast hpos.ne'
    have hγn : ‖γ‖ ^ 2 = (S 2 ^ 2 + S 3 ^ 2) / p ^ 2 := by
      rw [hγ, norm_div, div_pow, Complex.sq_norm, Complex.sq_norm, Complex.normSq_ofReal]
      congr 1
      · simp [Complex.normSq_apply]; ring
      · ring
    have hγc : (p : ℂ) * conj γ = (S 2 : ℂ) - (S 3 : ℂ) * I := by
      rw [hγ, map_div₀, Complex.conj_ofReal, map_add, map_mul, Complex.conj_ofReal, Complex.conj_ofReal,
        Complex.conj_I]
      field_simp
      ring
    have key : ∀ a b : ι → ℂ, herm S a b
        = p * nsq (a + γ • b) + ((S 0 - S 1) - (S 2 ^ 2 + S 3 ^ 2) / p) * nsq b := by
      intro a b
      unfold herm
      rw [nsq_add_smul, hγn, ← hγc]
      have : ((p : ℂ) * conj γ * ip b a).re = p * (conj γ * ip b a).re := by
        rw [mul_assoc, Complex.re_ofReal_mul]
      rw [this]
      field_simp
      ring
    have hr : 0 ≤ (S 0 - S 1) - (S 2 ^ 2 + S 3 ^ 2) / p := by
      rw [sub_nonneg, div_le_iff₀ hpos]
      linarith
    rw [key (T u) (T v), key u v, ← hlin]
    have h1 := hcon (u + γ • v)
    have h2 := hcon v
    have := mul_le_mul_of_nonneg_left h1 hpos.le
    have := mul_le_mul_of_nonneg_left h2 hr
    linarith
  · -- p = 0 forces S2 = S3 = 0
    have h23 : S 2 ^ 2 + S 3 ^ 2 ≤ 0 := by rw [← hzero] at hc; simpa using hc
    have h2 : S 2 = 0 := by nlinarith [sq_nonneg (S 2), sq_nonneg (S 3)]
    have h3 : S 3 = 0 := by nlinarith [sq_nonneg (S 2), sq_nonneg (S 3)]
    unfold herm
    rw [← hzero, h2, h3]
    simp only [Complex.ofReal_zero, zero_mul, sub_zero, Complex.zero_re, mul_zero, add_zero, zero_add]
    exact mul_le_mul_of_nonneg_left (hcon v) hq

theorem stokesPower_contraction (w : ℝ) (hw : 0 ≤ w) (S : Fin 4 → ℝ) (hS0 : 0 ≤ S 0)
    (hphys : S 1 ^ 2 + S 2 ^ 2 + S 3 ^ 2 ≤ S 0 ^ 2)
    (T : (ι → ℂ) → (ι → ℂ)) (hlin : ∀ (γ : ℂ) (u v : ι → ℂ), T (u + γ • v) = T u + γ • T v)
    (hcon : ∀ x, nsq (T x) ≤ nsq x) (E : Fin 2 × Fin 2 → ι → ℂ) :
    stokesPower w S (fun t => T (E t)) ≤ stokesPower w S E := by
  rw [stokesPower_eq_herm, stokesPower_eq_herm]
  have h1 := herm_contraction S hS0 hphys T hlin hcon (E (0, 0)) (E (0, 1))
  have h2 := herm_contraction S hS0 hphys T hlin hcon (E (1, 0)) (E (1, 1))
  apply mul_le_mul_of_nonneg_left _ (by linarith)
  linarith

/-! ## matrix-valued transfer function -/

variable {n : ℕ}

theorem sumFin_eq_sum (f : Fin n → ℂ) : sumFin n f = ∑ j, f j := by
  unfold sumFin
  rw [Fin.sum_univ_def]

theorem matVec_apply (D : Fin n → Fin n → ℂ) (v : Fin n → ℂ) (i : Fin n) :
    matVec D v i = ∑ j, D i j * v j := sumFin_eq_sum _

/-- The executable `matVec` is `Matrix.mulVec`, `conjT conj` is the conjugate transpose `ᴴ`. -/
theorem matVec_eq_mulVec (D : Fin n → Fin n → ℂ) (v : Fin n → ℂ) :
    matVec D v = Matrix.mulVec (Matrix.of D) v := by
  funext i
  rw [matVec_apply]
  rfl

theorem conjT_eq_conjTranspose (D : Fin n → Fin n → ℂ) :
    Matrix.of (conjT (fun z => conj z) D) = (Matrix.of D).conjTranspose := by
  ext i j
  rfl

/-- `field_dot(D, ·)` on the internal grid: at every sample the matrix `D m` times the vector of components. -/
def mulDM (D : μ → Fin n → Fin n → ℂ) (y : Fin n → μ → ℂ) : Fin n → μ → ℂ :=
  fun t m => matVec (D m) (fun j => y j m) t

/-- `FourierFilter.forward` with a matrix-valued transfer function on a vector field:
`crop ∘ ifftn ∘ field_dot(D, ·) ∘ fftn ∘ pad`, the transforms acting on every component. -/
noncomputable def filterM (P : FourierPair μ) (e : ι → μ) (D : μ → Fin n → Fin n → ℂ) (x : Fin n → ι → ℂ) :
    Fin n → ι → ℂ :=
  fun t => crop e (P.Finv (mulDM D (fun j => P.F (pad e (x j))) t))

/-- `FourierFilter.backward`: the same with `field_conjugate_transpose(D)`. -/
noncomputable def filterMBackward (P : FourierPair μ) (e : ι → μ) (D : μ → Fin n → Fin n → ℂ)
    (x : Fin n → ι → ℂ) : Fin n → ι → ℂ :=
  filterM P e (fun m => conjT (fun z => conj z) (D m)) x

theorem ip_crop_Finv_right (P : FourierPair μ) (e : ι → μ) (y : ι → ℂ) (Z : μ → ℂ) :
    ip y (crop e (P.Finv Z)) = (P.c : ℂ)⁻¹ * ip (P.F (pad e y)) Z := by
  rw [← ip_pad_left, P.ip_Finv_right]

theorem ip_crop_Finv_left (P : FourierPair μ) (e : ι → μ) (W : μ → ℂ) (x : ι → ℂ) :
    ip (crop e (P.Finv W)) x = (P.c : ℂ)⁻¹ * ip W (P.F (pad e x)) := by
  have hc : (P.c : ℂ) ≠ 0 := by exact_mod_cast P.c_pos.ne'
  rw [← ip_pad_right, P.adj, ← mul_assoc, inv_mul_cancel₀ hc, one_mul]

/-- **`backward` is the exact adjoint of `forward` for a matrix-valued transfer function** (any matrices, any
padding): `Σ_t ⟨y_t, (T_D x)_t⟩ = Σ_t ⟨(T_{Dᴴ} y)_t, x_t⟩`. -/
theorem filterM_adjoint_sum (P : FourierPair μ) (e : ι → μ) (D : μ → Fin n → Fin n → ℂ)
    (x y : Fin n → ι → ℂ) :
    ∑ t, ip (y t) (filterM P e D x t) = ∑ t, ip (filterMBackward P e D y t) (x t) := by
  unfold filterMBackward filterM
  simp only [ip_crop_Finv_right, ip_crop_Finv_left]
  rw [← Finset.mul_sum, ← Finset.mul_sum]
  congr 1
  unfold ip mulDM
  simp only [matVec_apply, conjT, map_sum, map_mul, Complex.conj_conj, Finset.mul_sum, Finset.sum_mul]
  -- LHS: Σ_t Σ_m Σ_j ;  RHS: Σ_j Σ_m Σ_t
  calc ∑ t, ∑ m, ∑ j, conj (P.F (pad e (y t)) m) * (D m t j * P.F (pad e (x j)) m)
      = ∑ t, ∑ j, ∑ m, conj (P.F (pad e (y t)) m) * (D m t j * P.F (pad e (x j)) m) := by
        apply Finset.sum_congr rfl; intro t _; rw [Finset.sum_comm]
    _ = ∑ j, ∑ t, ∑ m, conj (P.F (pad e (y t)) m) * (D m t j * P.F (pad e (x j)) m) := Finset.sum_comm
    _ = ∑ j, ∑ m, ∑ t, D m t j * conj (P.F (pad e (y t)) m) * P.F (pad e (x j)) m := by
        apply Finset.sum_congr rfl; intro j _; rw [Finset.sum_comm]
        apply Finset.sum_congr rfl; intro m _
        apply Finset.sum_congr rfl; intro t _
        ring

/-- A scalar transfer function is the matrix-valued one with `d·1`. -/
theorem filterM_scalar (P : FourierPair μ) (e : ι → μ) (d : μ → ℂ) (x : Fin n → ι → ℂ) (t : Fin n) :
    filterM P e (fun m i j => if i = j then d m else 0) x t = filter P e d (x t) := by
  unfold filterM filter
  congr 2
  funext m
  unfold mulDM mulD
  rw [matVec_apply]
  simp

end HcipyVerif.NearField
