import HcipyVerif.Lemmas.CoronagraphMat

/-!
# Lemmas for the multi-scale construction (C09, round 4): the masks the constructor's recursion
arrives at on the exact design, and the telescoping of `forward`.
-/
set_option linter.unusedSimpArgs false
set_option linter.unusedVariables false
set_option linter.unusedSectionVars false
namespace HcipyVerif.Coronagraph
open Finset
section Ring
variable {K : Type} [CommRing K] {d n : ℕ}

/-- Side conditions of the telescoping theorem (the `Prop` behind `nestedOK`): `u` — the window of
the previous level, all ones before level 0 — and the level's own window vanish outside the
level's support. -/
def Nested : (Fin d → K) → List (Vector Bool d × Vector K d) → Prop
  | _, [] => True
  | u, sp :: sps => (∀ p : Fin d, sp.1[p] = false → u p = 0 ∧ toFn sp.2 p = 0) ∧ Nested (toFn sp.2) sps

/-- the masks the constructor must arrive at: `m (w_{i-1} − w_i)`, and `m w_{L-2}` on the last level -/
def expMasks (m : Fin d → K) : (Fin d → K) → List (Vector Bool d × Vector K d) → List (Fin d → K)
  | _, [] => []
  | u, [_] => [m * u]
  | u, sp :: sp' :: sps => (m * (u - toFn sp.2)) :: expMasks m (toFn sp.2) (sp' :: sps)

theorem dot_zeroVec' {n : ℕ} (v : Vector K n) : dot (zeroVec K n) v = 0 := by
  rw [dot_eq_ip, ip_comm, ← dot_eq_ip, dot_zeroVec]

theorem toFn_matVec_idMat (M : Vector K d) : toFn (matVec (idMat K d) M) = toFn M := by
  rw [toFn_matVec]
  funext p
  simp [toFn2, idMat, Finset.sum_ite_eq]

theorem toFn_subCorrections_id (Ms : List (Vector K d)) : ∀ (acc : Vector K d),
    toFn (subCorrections acc (List.replicate Ms.length (idMat K d)) Ms) = toFn acc - (Ms.map toFn).sum := by
  induction Ms with
  | nil => intro acc; simp [subCorrections]
  | cons M Ms ih =>
    intro acc
    simp only [List.length_cons, List.replicate_succ, subCorrections, List.map_cons, List.sum_cons]
    rw [ih, toFn_ofFn]
    have h := toFn_matVec_idMat M
    funext p
    have hp := congrFun h p
    simp only [toFn] at hp
    simp only [Pi.sub_apply, Pi.add_apply, toFn, hp]
    ring

theorem exactLevelsFrom_isEmpty (m : Vector K d) (F : Vector (Vector K n) d) (B : Vector (Vector K d) n) (i : ℕ)
    (sps : List (Vector Bool d × Vector K d)) : (exactLevelsFrom m F B i sps).isEmpty = sps.isEmpty := by
  cases sps <;> rfl

theorem toFn_msMask_exact (m : Vector K d) (F : Vector (Vector K n) d) (B : Vector (Vector K d) n)
    (sp : Vector Bool d × Vector K d) (last : Bool) (prev : List (Vector K d)) :
    toFn (msMask (exactLevel m F B prev.length sp) last prev) =
      (if last then toFn m else toFn m * (1 - toFn sp.2)) - (prev.map toFn).sum := by
  unfold msMask exactLevel
  simp only
  rw [toFn_subCorrections_id]
  cases last
  · simp only [Bool.false_eq_true, if_false, toFn_ofFn]
    rfl
  · simp only [if_true]

theorem msMasksAux_exact (m : Vector K d) (F : Vector (Vector K n) d) (B : Vector (Vector K d) n) :
    ∀ (sps : List (Vector Bool d × Vector K d)) (prev : List (Vector K d)) (u : Fin d → K),
      (prev.map toFn).sum = toFn m * (1 - u) →
      (msMasksAux prev (exactLevelsFrom m F B prev.length sps)).map toFn =
        prev.map toFn ++ expMasks (toFn m) u sps := by
  intro sps
  induction sps with
  | nil => intro prev u _; simp [exactLevelsFrom, msMasksAux, expMasks]
  | cons sp sps ih =>
    intro prev u hsum
    simp only [exactLevelsFrom, msMasksAux, exactLevelsFrom_isEmpty]
    have hlen : (prev ++ [msMask (exactLevel m F B prev.length sp) sps.isEmpty prev]).length = prev.length + 1 := by simp
    cases sps with
    | nil =>
      simp only [exactLevelsFrom, msMasksAux, List.isEmpty_nil, List.map_append, List.map_cons, List.map_nil, expMasks]
      rw [toFn_msMask_exact, hsum]
      simp only [if_true]
      congr 2
      funext p; simp only [Pi.sub_apply, Pi.mul_apply, Pi.one_apply]; ring
    | cons sp' sps' =>
      have := ih (prev ++ [msMask (exactLevel m F B prev.length sp) (sp' :: sps').isEmpty prev]) (toFn sp.2) (by
        rw [List.map_append, List.sum_append, hsum]
        simp only [List.map_cons, List.map_nil, List.sum_cons, List.sum_nil, add_zero, List.isEmpty_cons]
        rw [toFn_msMask_exact, hsum]
        simp only [Bool.false_eq_true, if_false]
        funext p; simp only [Pi.add_apply, Pi.sub_apply, Pi.mul_apply, Pi.one_apply]; ring)
      rw [hlen] at this
      rw [this]
      simp only [List.map_append, List.map_cons, List.map_nil, List.isEmpty_cons, expMasks, List.append_assoc, List.singleton_append]
      rw [toFn_msMask_exact, hsum]
      simp only [Bool.false_eq_true, if_false]
      congr 2
      funext p; simp only [Pi.sub_apply, Pi.mul_apply, Pi.one_apply]; ring

/-- `B (FE · g)` at function level -/
def backF (B : Vector (Vector K d) n) (g : Fin d → K) : Fin n → K := fun r => ∑ p, toFn2 B r p * g p

theorem backF_add (B : Vector (Vector K d) n) (g h : Fin d → K) : backF B (g + h) = backF B g + backF B h := by
  funext r; simp only [backF, Pi.add_apply, mul_add, Finset.sum_add_distrib]

theorem toFn_idealForward (m : Vector K d) (F : Vector (Vector K n) d) (B : Vector (Vector K d) n) (E : Vector K n) :
    toFn (idealForward m F B E) = backF B (toFn (matVec F E) * toFn m) := by
  unfold idealForward
  simp only
  rw [toFn_matVec]
  funext r
  simp only [backF, toFn_ofFn, Pi.mul_apply]
  rfl

theorem toFn_matVec_restrictRows (F : Vector (Vector K n) d) (S : Vector Bool d) (E : Vector K n) :
    toFn (matVec (restrictRows F S) E) = fun p => if S[p] then toFn (matVec F E) p else 0 := by
  funext p
  unfold matVec restrictRows
  simp only [toFn, Vector.getElem_ofFn, Fin.getElem_fin]
  split
  · rfl
  · exact dot_zeroVec' _

theorem toFn2_restrictCols (B : Vector (Vector K d) n) (S : Vector Bool d) (r : Fin n) (p : Fin d) :
    toFn2 (restrictCols B S) r p = if S[p] then toFn2 B r p else 0 := by
  unfold restrictCols
  simp only [toFn2, Vector.getElem_ofFn, Fin.getElem_fin]

theorem toFn_msTerm_exact (m : Vector K d) (F : Vector (Vector K n) d) (B : Vector (Vector K d) n) (i : ℕ)
    (sp : Vector Bool d × Vector K d) (M : Vector K d) (E : Vector K n)
    (hM : ∀ p : Fin d, sp.1[p] = false → toFn M p = 0) :
    toFn (msTerm (exactLevel m F B i sp) M E) = backF B (toFn (matVec F E) * toFn M) := by
  unfold msTerm exactLevel
  simp only
  rw [toFn_matVec]
  funext r
  simp only [backF, toFn_ofFn, Pi.mul_apply]
  refine Finset.sum_congr rfl fun p _ => ?_
  have hF := congrFun (toFn_matVec_restrictRows F sp.1 E) p
  rw [toFn2_restrictCols]
  change (if sp.1[p] = true then toFn2 B r p else 0) * (toFn (matVec (restrictRows F sp.1) E) p * toFn M p) = _
  rw [hF]
  by_cases hs : sp.1[p] = true
  · simp only [hs, if_true]
  · have hs' : sp.1[p] = false := by simpa using hs
    rw [hM p hs']
    simp

theorem msSum_exact (m : Vector K d) (mm : Fin d → K) (F : Vector (Vector K n) d) (B : Vector (Vector K d) n) (E : Vector K n) :
    ∀ (sps : List (Vector Bool d × Vector K d)) (i : ℕ) (u : Fin d → K) (Ms : List (Vector K d)),
      sps ≠ [] → Nested u sps → Ms.map toFn = expMasks mm u sps →
      toFn (msSum (exactLevelsFrom m F B i sps) Ms E) = backF B (toFn (matVec F E) * (mm * u)) := by
  intro sps
  induction sps with
  | nil => intro i u Ms h; exact absurd rfl h
  | cons sp sps ih =>
    intro i u Ms _ hN hMs
    obtain ⟨hsupp, hN'⟩ := hN
    cases sps with
    | nil =>
      simp only [expMasks] at hMs
      obtain ⟨M, rfl, hM⟩ : ∃ M, Ms = [M] ∧ toFn M = mm * u := by
        obtain ⟨M, Ms', rfl, h1, h2⟩ := List.map_eq_cons_iff.1 hMs
        rw [List.map_eq_nil_iff] at h2
        subst h2
        exact ⟨M, rfl, h1⟩
      simp only [exactLevelsFrom, msSum]
      rw [toFn_ofFn]
      have ht := toFn_msTerm_exact m F B i sp M E (by
        intro p hp; rw [hM]; simp [(hsupp p hp).1])
      funext r
      have := congrFun ht r
      simp only [toFn] at this
      simp only [this, toFn_zeroVec, ← hM]
      have hz := congrFun (toFn_zeroVec (K := K) (n := n)) r
      simp only [toFn, Pi.zero_apply] at hz
      rw [hz, add_zero]
    | cons sp' sps' =>
      simp only [expMasks] at hMs
      obtain ⟨M, Ms', rfl, hM, hMs'⟩ : ∃ M Ms', Ms = M :: Ms' ∧ toFn M = mm * (u - toFn sp.2) ∧
          Ms'.map toFn = expMasks mm (toFn sp.2) (sp' :: sps') := by
        obtain ⟨M, Ms', rfl, h1, h2⟩ := List.map_eq_cons_iff.1 hMs
        exact ⟨M, Ms', rfl, h1, h2⟩
      simp only [exactLevelsFrom, msSum]
      rw [toFn_ofFn]
      have ht := toFn_msTerm_exact m F B i sp M E (by
        intro p hp; rw [hM]; simp [(hsupp p hp).1, (hsupp p hp).2])
      have hr := ih (i + 1) (toFn sp.2) Ms' (by simp) hN' hMs'
      simp only [exactLevelsFrom] at hr
      funext r
      have h1 := congrFun ht r
      have h2 := congrFun hr r
      simp only [toFn] at h1 h2
      simp only [h1, h2, hM]
      rw [← Pi.add_apply, ← backF_add]
      congr 1
      funext p
      simp only [Pi.add_apply, Pi.mul_apply, Pi.sub_apply]
      ring

theorem nested_of_nestedOK [BEq K] [LawfulBEq K] : ∀ (sps : List (Vector Bool d × Vector K d)) (u : Vector K d),
    nestedOK u sps = true → Nested (toFn u) sps := by
  intro sps
  induction sps with
  | nil => intro u _; trivial
  | cons sp sps ih =>
    intro u h
    simp only [nestedOK, Bool.and_eq_true, List.all_eq_true, List.mem_finRange, true_implies,
      Bool.or_eq_true, beq_iff_eq] at h
    refine ⟨fun p hp => ?_, ih sp.2 h.2⟩
    rcases h.1 p with h1 | h1
    · rw [hp] at h1; exact absurd h1 (by simp)
    · exact h1

theorem toFn_msForward_exact [BEq K] [LawfulBEq K] (m : Vector K d) (F : Vector (Vector K n) d) (B : Vector (Vector K d) n)
    (sps : List (Vector Bool d × Vector K d)) (hne : sps ≠ []) (hok : nestedOK (onesVec K d) sps = true)
    (E : Vector K n) :
    toFn (msSum (exactLevels m F B sps) (msMasks (exactLevels m F B sps)) E) = toFn (idealForward m F B E) := by
  have hN := nested_of_nestedOK sps (onesVec K d) hok
  have hmasks := msMasksAux_exact m F B sps [] (toFn (onesVec K d)) (by
    rw [toFn_onesVec]; funext p; simp)
  simp only [List.length_nil, List.map_nil, List.nil_append] at hmasks
  have := msSum_exact m (toFn m) F B E sps 0 (toFn (onesVec K d)) (msMasks (exactLevels m F B sps)) hne hN hmasks
  unfold exactLevels at this ⊢
  rw [this, toFn_idealForward, toFn_onesVec]
  congr 1
  funext p; simp

end Ring
/-! ### `backward`: the conjugated masks telescope in the same way (windows real or not) -/
section RingC
variable {K : Type} [CommRing K] {d n : ℕ}

/-- the specs with conjugated windows -/
def conjSpecs (cj : K → K) (sps : List (Vector Bool d × Vector K d)) : List (Vector Bool d × Vector K d) :=
  sps.map fun sp => (sp.1, Vector.ofFn fun p => cj sp.2[p])

/-- `msSum` sees a level only through its operators: the windows do not matter -/
theorem msSum_conjSpecs (cj : K → K) (m : Vector K d) (F : Vector (Vector K n) d) (B : Vector (Vector K d) n) (E : Vector K n) :
    ∀ (sps : List (Vector Bool d × Vector K d)) (i : ℕ) (Ms : List (Vector K d)),
      msSum (exactLevelsFrom m F B i (conjSpecs cj sps)) Ms E = msSum (exactLevelsFrom m F B i sps) Ms E := by
  intro sps
  induction sps with
  | nil => intro i Ms; rfl
  | cons sp sps ih =>
    intro i Ms
    cases Ms with
    | nil => simp [conjSpecs, exactLevelsFrom, msSum]
    | cons M Ms =>
      simp only [conjSpecs, List.map_cons, exactLevelsFrom, msSum]
      have := ih (i + 1) Ms
      simp only [conjSpecs] at this
      rw [this]
      rfl

theorem nested_conjSpecs (cj : K →+* K) : ∀ (sps : List (Vector Bool d × Vector K d)) (u : Fin d → K),
    Nested u sps → Nested (fun p => cj (u p)) (conjSpecs cj sps) := by
  intro sps
  induction sps with
  | nil => intro u _; trivial
  | cons sp sps ih =>
    intro u h
    obtain ⟨h1, h2⟩ := h
    refine ⟨fun p hp => ?_, ?_⟩
    · have := h1 p hp
      simp only [toFn_ofFn]
      refine ⟨by rw [this.1, map_zero], ?_⟩
      have h2' := this.2
      simp only [toFn] at h2'
      rw [h2', map_zero]
    · have := ih (toFn sp.2) h2
      simpa [conjSpecs, toFn_ofFn, toFn] using this

theorem expMasks_map_conj (cj : K →+* K) (mm : Fin d → K) :
    ∀ (sps : List (Vector Bool d × Vector K d)) (u : Fin d → K),
      (expMasks mm u sps).map (fun g p => cj (g p)) =
        expMasks (fun p => cj (mm p)) (fun p => cj (u p)) (conjSpecs cj sps) := by
  intro sps
  induction sps with
  | nil => intro u; rfl
  | cons sp sps ih =>
    intro u
    cases sps with
    | nil =>
      simp only [conjSpecs, expMasks, List.map_cons, List.map_nil]
      congr 1
      funext p; simp
    | cons sp' sps' =>
      simp only [conjSpecs, expMasks, List.map_cons]
      congr 1
      · funext p; simp [toFn]
      · have := ih (toFn sp.2)
        simp only [conjSpecs, List.map_cons] at this
        rw [this]
        congr 1
        rw [toFn_ofFn]; rfl

theorem toFn_msBackward_exact [BEq K] [LawfulBEq K] (cj : K →+* K) (m : Vector K d) (F : Vector (Vector K n) d)
    (B : Vector (Vector K d) n) (sps : List (Vector Bool d × Vector K d)) (hne : sps ≠ [])
    (hok : nestedOK (onesVec K d) sps = true) (y : Vector K n) :
    toFn (msBackward cj (exactLevels m F B sps) none y) =
      toFn (idealForward (Vector.ofFn fun p => cj m[p]) F B y) := by
  have hN := nested_conjSpecs cj sps _ (nested_of_nestedOK sps (onesVec K d) hok)
  have hmasks := msMasksAux_exact m F B sps [] (toFn (onesVec K d)) (by
    rw [toFn_onesVec]; funext p; simp)
  simp only [List.length_nil, List.map_nil, List.nil_append] at hmasks
  have hc : ((msMasks (exactLevels m F B sps)).map fun M => Vector.ofFn fun p => cj M[p]).map toFn =
      expMasks (fun p => cj (toFn m p)) (fun p => cj (toFn (onesVec K d) p)) (conjSpecs cj sps) := by
    have h1 : ((msMasks (exactLevels m F B sps)).map fun M => Vector.ofFn fun p => cj M[p]).map toFn =
        ((msMasks (exactLevels m F B sps)).map toFn).map (fun g p => cj (g p)) := by
      simp only [List.map_map]
      congr 1
      funext M
      simp only [Function.comp, toFn_ofFn]
      rfl
    unfold msMasks exactLevels at h1 ⊢
    rw [h1, hmasks, expMasks_map_conj cj (toFn m) sps _]
  have hne' : conjSpecs cj sps ≠ [] := by
    cases sps with
    | nil => exact absurd rfl hne
    | cons a b => simp [conjSpecs]
  have := msSum_exact m (fun p => cj (toFn m p)) F B y (conjSpecs cj sps) 0 _ _ hne' hN hc
  rw [msSum_conjSpecs] at this
  unfold msBackward
  unfold exactLevels at this ⊢
  simp only
  rw [this, toFn_idealForward, toFn_onesVec, toFn_ofFn]
  congr 1
  funext p; simp [toFn]

end RingC
end HcipyVerif.Coronagraph
