import HcipyVerif.Model.PassiveOptics
import HcipyVerif.Lemmas.Jones
import HcipyVerif.Lemmas.FftIndex
import HcipyVerif.Lemmas.FourierLinkC04
import HcipyVerif.Lemmas.NearFieldGRat
import Mathlib.Tactic.Ring
import Mathlib.Tactic.Linarith
import Mathlib.Analysis.SpecialFunctions.Trigonometric.Basic
import Mathlib.Tactic.IntervalCases

/-!
# Helper lemmas for the passive-optics model (C07)

* sums of the pair model are sums in `ℂ` (`toComplex_sumRange`), so the Finset theorems apply to the executable model;
* `knifeRow` with the DFT kernels `kF M`, `kB M` *is* the `FourierFilter` pipeline `crop ∘ F⁻¹ ∘ D ∘ F ∘ pad` of
  `Lemmas/NearField.lean` for the FFT pair `dftPair M` built from C01/C02's DFT specification.
-/
set_option linter.unusedSimpArgs false
set_option linter.unusedVariables false
set_option linter.unusedSectionVars false

namespace HcipyVerif.Passive
open HcipyVerif.Jones HcipyVerif.Fft HcipyVerif.NearField

theorem Cx.normSq_mul' (a b : Cx ℝ) : (a * b).normSq = a.normSq * b.normSq := by
  simp only [Cx.normSq, Cx.mul_re, Cx.mul_im]; ring

theorem Cx.normSq_conj' (a : Cx ℝ) : a.conj.normSq = a.normSq := by
  simp only [Cx.normSq, Cx.conj_re, Cx.conj_im]; ring

theorem Cx.normSq_nonneg' (a : Cx ℝ) : 0 ≤ a.normSq := by
  simp only [Cx.normSq]; nlinarith [mul_self_nonneg a.re, mul_self_nonneg a.im]

theorem power_eq_sum (E : ℕ → Cx ℝ) (w : ℕ → ℝ) (n : ℕ) :
    power E w n = ∑ i ∈ Finset.range n, (E i).normSq * w i := by
  unfold power; rw [sumRange_eq]

theorem toComplex_zero : (0 : Cx ℝ).toComplex = 0 := rfl

theorem toComplex_sumRange (f : ℕ → Cx ℝ) (n : ℕ) :
    (sumRange n f).toComplex = ∑ i ∈ Finset.range n, (f i).toComplex := by
  induction n with
  | zero => simp [sumRange, toComplex_zero]
  | succ k ih => rw [sumRange, Cx.toComplex_add, ih, Finset.sum_range_succ]

theorem toComplex_smul (k : ℝ) (a : Cx ℝ) : (Cx.smul k a).toComplex = (k : ℂ) * a.toComplex := by
  apply Complex.ext <;> simp [Cx.toComplex, Cx.smul_re, Cx.smul_im]

theorem fibreAmp_toComplex (E m : ℕ → Cx ℝ) (w : ℕ → ℝ) (n : ℕ) :
    (fibreAmp E m w n).toComplex
      = ∑ i ∈ Finset.range n, (starRingEnd ℂ) (E i).toComplex * (w i : ℂ) * (m i).toComplex := by
  unfold fibreAmp
  rw [toComplex_sumRange]
  apply Finset.sum_congr rfl
  intro i _
  rw [Cx.toComplex_mul, toComplex_smul, Cx.toComplex_conj]; ring

/-! ### knife edge = FourierFilter pipeline on one axis -/

/-- the cut-out as an embedding `Fin N → Fin M` -/
def cut (N M start : ℕ) (h : start + N ≤ M) : Fin N → Fin M := fun j => ⟨j.1 + start, by omega⟩

theorem cut_injective (N M start : ℕ) (h : start + N ≤ M) : Function.Injective (cut N M start h) := by
  intro a b hab
  simp only [cut, Fin.mk.injEq] at hab
  exact Fin.ext (by omega)

theorem dft_congr {M : ℕ} (ker : ℤ → ℂ) (a b : ℕ → ℂ) (h : ∀ p, p < M → a p = b p) (q : ℕ) :
    dft M ker a q = dft M ker b q := by
  unfold dft
  rw [sumRange_eq, sumRange_eq]
  apply Finset.sum_congr rfl
  intro p hp
  rw [h p (Finset.mem_range.mp hp)]

theorem padAt_eq_pad (N M start : ℕ) (h : start + N ≤ M) (x : ℕ → ℂ) (p : ℕ) (hp : p < M) :
    padAt N start x p = ext (NearField.pad (cut N M start h) fun j : Fin N => x j.1) p := by
  unfold padAt ext NearField.pad
  rw [dif_pos hp]
  by_cases hc : start ≤ p ∧ p < start + N
  · rw [if_pos hc]
    have hj : p - start < N := by omega
    rw [Finset.sum_eq_single (⟨p - start, hj⟩ : Fin N)]
    · rw [if_pos]; simp only [cut, Fin.mk.injEq]; omega
    · intro b _ hb
      rw [if_neg]
      intro he
      apply hb
      simp only [cut, Fin.mk.injEq] at he
      exact Fin.ext (by simp only; omega)
    · intro hn; exact absurd (Finset.mem_univ _) hn
  · rw [if_neg hc]
    symm
    apply Finset.sum_eq_zero
    intro j _
    rw [if_neg]
    intro he
    simp only [cut, Fin.mk.injEq] at he
    apply hc
    have := j.2
    omega

/-- The executable knife-edge row, with the DFT kernels of C01/C02, is the `FourierFilter` pipeline. -/
theorem knifeRow_eq_filter (N M start : ℕ) (hM : 0 < M) (h : start + N ≤ M) (mask x : ℕ → ℂ) (j : Fin N) :
    knifeRow N M start (kF M) (kB M) ((M : ℂ)⁻¹) mask x j.1
      = filter (dftPair M hM) (cut N M start h) (fun q : Fin M => mask q.1) (fun j : Fin N => x j.1) j := by
  unfold knifeRow filter NearField.crop
  rw [dftPair_Finv_apply]
  congr 1
  show dft M (kB M) _ (j.1 + start) = dft M (kB M) _ (j.1 + start)
  apply dft_congr
  intro q hq
  unfold ext
  rw [dif_pos hq]
  unfold mulD
  rw [dftPair_F_apply]
  congr 1
  apply dft_congr
  intro p hp
  exact padAt_eq_pad N M start h x p hp

/-- `nsq (filter …) ≤ nsq x` for `|D| ≤ 1` (the calc of C04's `power_nonincreasing`, from the lemmas of
`Lemmas/NearField.lean`). -/
theorem filter_contracts {ι μ : Type*} [Fintype ι] [Fintype μ] [DecidableEq μ] (P : FourierPair μ) {e : ι → μ}
    (he : Function.Injective e) {D : μ → ℂ} (hD : ∀ m, ‖D m‖ ≤ 1) (x : ι → ℂ) : nsq (filter P e D x) ≤ nsq x := by
  unfold filter
  calc nsq (NearField.crop e (P.Finv (mulD D (P.F (NearField.pad e x)))))
      ≤ nsq (P.Finv (mulD D (P.F (NearField.pad e x)))) := nsq_crop_le he _
    _ = P.c⁻¹ * nsq (mulD D (P.F (NearField.pad e x))) := P.nsq_Finv _
    _ ≤ P.c⁻¹ * nsq (P.F (NearField.pad e x)) :=
        mul_le_mul_of_nonneg_left (nsq_mulD_le hD _) (inv_nonneg.mpr P.c_pos.le)
    _ = P.c⁻¹ * (P.c * nsq (NearField.pad e x)) := by rw [P.nsq_F]
    _ = nsq (NearField.pad e x) := by have := P.c_pos.ne'; field_simp
    _ = nsq x := nsq_pad he x

/-! ### the Gaussian-integer kernels run by the driver are the DFT kernels for `M ∣ 4` -/

theorem expT_quarter : expT (1 / 4) = Complex.I := by
  unfold expT
  have : (2 * (Real.pi : ℂ) * ((1 / 4 : ℝ) : ℂ) * Complex.I) = ((Real.pi / 2 : ℝ) : ℂ) * Complex.I := by
    push_cast; ring
  rw [this, Complex.exp_mul_I, ← Complex.ofReal_cos, ← Complex.ofReal_sin, Real.cos_pi_div_two, Real.sin_pi_div_two]
  simp

theorem expT_add' (a b : ℝ) : expT (a + b) = expT a * expT b := expT_isChar.add a b

theorem iPow_eq (k : ℤ) : (iPow ((k % 4).toNat) : Cx ℝ).toComplex = expT ((k : ℝ) / 4) := by
  have hk : (k : ℝ) / 4 = ((k / 4 : ℤ) : ℝ) + ((k % 4 : ℤ) : ℝ) * (1 / 4) := by
    have := Int.mul_ediv_add_emod k 4
    have h2 : (k : ℝ) = 4 * ((k / 4 : ℤ) : ℝ) + ((k % 4 : ℤ) : ℝ) := by exact_mod_cast this.symm
    rw [h2]; ring_nf
  rw [hk, expT_add', expT_period, one_mul]
  have h0 : 0 ≤ k % 4 := Int.emod_nonneg k (by norm_num)
  have h4 : k % 4 < 4 := Int.emod_lt_of_pos k (by norm_num)
  generalize k % 4 = r at h0 h4
  have q1 := expT_quarter
  have q2 : expT (2 * (1 / 4)) = -1 := by
    rw [two_mul, expT_add', q1, Complex.I_mul_I]
  have q3 : expT (3 * (1 / 4)) = -Complex.I := by
    have : (3 : ℝ) * (1 / 4) = 2 * (1 / 4) + 1 / 4 := by ring
    rw [this, expT_add', q2, q1]; ring
  have q1' : expT (4⁻¹ : ℝ) = Complex.I := by rw [← one_div]; exact q1
  have q2' : expT (2 * (4⁻¹ : ℝ)) = -1 := by rw [← one_div]; exact q2
  have q3' : expT (3 * (4⁻¹ : ℝ)) = -Complex.I := by rw [← one_div]; exact q3
  interval_cases r
  · simp [iPow, Cx.toComplex, expT_isChar.zero]; rfl
  · simp [iPow, Cx.toComplex, q1']; rfl
  · simp [iPow, Cx.toComplex, q2']; apply Complex.ext <;> simp
  · simp [iPow, Cx.toComplex, q3']; apply Complex.ext <;> simp

theorem gaussKerF_eq (M : ℕ) (hM : M = 1 ∨ M = 2 ∨ M = 4) (n : ℤ) :
    (gaussKerF M n : Cx ℝ).toComplex = kF M n := by
  unfold gaussKerF kF
  rw [iPow_eq]
  congr 1
  rcases hM with h | h | h <;> subst h <;> push_cast <;> ring

theorem gaussKerB_eq (M : ℕ) (hM : M = 1 ∨ M = 2 ∨ M = 4) (n : ℤ) :
    (gaussKerB M n : Cx ℝ).toComplex = kB M n := by
  unfold gaussKerB kB
  rw [iPow_eq]
  congr 1
  rcases hM with h | h | h <;> subst h <;> push_cast <;> ring

/-! ### Round 5: `knifeRow` commutes with every map of scalars preserving `0`, `+`, `·` (so running it at the formal phase sums is
running it at the complex numbers they denote) -/
section map
variable {C C' : Type} [Zero C] [Add C] [Mul C] [Zero C'] [Add C'] [Mul C']
  (φ : C → C') (h0 : φ 0 = 0) (hadd : ∀ a b, φ (a + b) = φ a + φ b) (hmul : ∀ a b, φ (a * b) = φ a * φ b)
include h0 hadd hmul

theorem dft_map (M : ℕ) (ker : ℤ → C) (a : ℕ → C) (q : ℕ) :
    φ (Fft.dft M ker a q) = Fft.dft M (fun n => φ (ker n)) (fun p => φ (a p)) q := by
  unfold Fft.dft
  rw [NearField.sumRange_map φ h0 hadd]
  congr 1
  funext p
  rw [hmul]

theorem knifeRow_map (N M start : ℕ) (kF kB : ℤ → C) (sc : C) (mask x : ℕ → C) (j : ℕ) :
    φ (knifeRow N M start kF kB sc mask x j)
      = knifeRow N M start (fun n => φ (kF n)) (fun n => φ (kB n)) (φ sc) (fun q => φ (mask q)) (fun i => φ (x i)) j := by
  unfold knifeRow
  rw [hmul, dft_map φ h0 hadd hmul]
  congr 2
  funext q
  rw [hmul, dft_map φ h0 hadd hmul]
  congr 2
  funext p
  unfold padAt
  split_ifs
  · rfl
  · exact h0

end map

/-- the complex number a pair of rationals (the exact value of a pair of floats) denotes -/
noncomputable def cxC (z : Cx Rat) : ℂ := NearField.GRat.toC ⟨z.re, z.im⟩

end HcipyVerif.Passive
