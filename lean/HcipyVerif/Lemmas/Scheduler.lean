import HcipyVerif.Model.Scheduler
import Mathlib.Tactic.Linarith
import Mathlib.Tactic.Ring
import Mathlib.Algebra.Order.Field.Rat

/-! Helper lemmas for C20 (sorted insertion, `addAll`, the loop invariant). -/
set_option linter.unusedSimpArgs false
set_option linter.unusedVariables false

namespace HcipyVerif.Scheduler

theorem Entry.lt_irrefl (a : Entry) : ¬ a.lt a := by
  unfold Entry.lt; rintro (h | ⟨_, h⟩)
  · exact _root_.lt_irrefl _ h
  · exact Nat.lt_irrefl _ h

theorem Entry.lt_trans {a b c : Entry} (h1 : a.lt b) (h2 : b.lt c) : a.lt c := by
  unfold Entry.lt at *
  rcases h1 with h1 | ⟨h1, h1'⟩ <;> rcases h2 with h2 | ⟨h2, h2'⟩
  · left; linarith
  · left; linarith
  · left; linarith
  · right; exact ⟨by rw [h1, h2], Nat.lt_trans h1' h2'⟩

theorem Entry.lt_of_not_lt {a b : Entry} (h : ¬ a.lt b) (hc : a.ctr ≠ b.ctr) : b.lt a := by
  unfold Entry.lt at *
  push Not at h
  obtain ⟨h1, h2⟩ := h
  rcases lt_or_eq_of_le h1 with h3 | h3
  · left; exact h3
  · right; refine ⟨h3, ?_⟩
    have := h2 h3.symm
    omega

theorem Entry.time_le_of_lt {a b : Entry} (h : a.lt b) : a.time ≤ b.time := by
  rcases h with h | ⟨h, _⟩ <;> linarith

theorem mem_insert {e q : Entry} {l : List Entry} : q ∈ insert e l ↔ q = e ∨ q ∈ l := by
  induction l with
  | nil => simp [insert]
  | cons x xs ih =>
    unfold insert
    split
    · simp
    · simp [ih]; tauto

/-- the queue invariant: sorted by the strict key order -/
def Sorted (l : List Entry) : Prop := l.Pairwise Entry.lt

theorem sorted_insert {e : Entry} {l : List Entry} (hs : Sorted l) (hc : ∀ q ∈ l, q.ctr ≠ e.ctr) :
    Sorted (insert e l) := by
  induction l with
  | nil => simp [insert, Sorted]
  | cons x xs ih =>
    unfold Sorted at hs
    rw [List.pairwise_cons] at hs
    unfold insert
    split
    · rename_i h
      unfold Sorted
      rw [List.pairwise_cons]
      refine ⟨?_, List.pairwise_cons.mpr hs⟩
      intro q hq
      rcases List.mem_cons.mp hq with rfl | hq
      · exact h
      · exact Entry.lt_trans h (hs.1 q hq)
    · rename_i h
      have hx : x.lt e := Entry.lt_of_not_lt h (fun h' => hc x (by simp) h'.symm)
      unfold Sorted
      rw [List.pairwise_cons]
      refine ⟨?_, ih hs.2 (fun q hq => hc q (by simp [hq]))⟩
      intro q hq
      rcases mem_insert.mp hq with rfl | hq
      · exact hx
      · exact hs.1 q hq

/-- State invariant: sorted queue, counters below the next counter, nothing scheduled in the past. -/
structure Inv (s : Sys) : Prop where
  sorted : Sorted s.queue
  ctr : ∀ q ∈ s.queue, q.ctr < s.ctr
  future : ∀ q ∈ s.queue, s.t ≤ q.time

theorem inv_init : Inv init := ⟨by simp [init, Sorted], by simp [init], by simp [init]⟩

theorem inv_addCallback {s : Sys} (h : Inv s) (time : Rat) (id : Nat) (ht : s.t ≤ time) :
    Inv (addCallback s time id) := by
  refine ⟨?_, ?_, ?_⟩
  · exact sorted_insert h.sorted (fun q hq => by have := h.ctr q hq; simp; omega)
  · intro q hq
    rcases mem_insert.mp hq with rfl | hq
    · simp [addCallback]
    · have := h.ctr q hq; simp [addCallback]; omega
  · intro q hq
    rcases mem_insert.mp hq with rfl | hq
    · exact ht
    · exact h.future q hq

@[simp] theorem addAll_t (s : Sys) (l : List (Rat × Nat)) : (addAll s l).t = s.t := by
  induction l generalizing s with
  | nil => rfl
  | cons c cs ih => obtain ⟨a, b⟩ := c; simp [addAll, ih, addCallback]

theorem addAll_ctr (s : Sys) (l : List (Rat × Nat)) : (addAll s l).ctr = s.ctr + l.length := by
  induction l generalizing s with
  | nil => rfl
  | cons c cs ih => obtain ⟨a, b⟩ := c; simp [addAll, ih, addCallback]; omega

theorem inv_addAll {s : Sys} (h : Inv s) (l : List (Rat × Nat)) (ht : ∀ c ∈ l, s.t ≤ c.1) :
    Inv (addAll s l) := by
  induction l generalizing s with
  | nil => exact h
  | cons c cs ih =>
    obtain ⟨a, b⟩ := c
    simp only [addAll]
    apply ih (inv_addCallback h a b (ht (a, b) (by simp)))
    intro c hc
    simp only [addCallback]
    exact ht c (by simp [hc])

/-- every entry of the new queue is an old one or a freshly numbered child -/
theorem mem_addAll {s : Sys} {l : List (Rat × Nat)} {q : Entry} (hq : q ∈ (addAll s l).queue) :
    q ∈ s.queue ∨ (s.ctr ≤ q.ctr ∧ (q.time, q.id) ∈ l) := by
  induction l generalizing s with
  | nil => left; exact hq
  | cons c cs ih =>
    obtain ⟨a, b⟩ := c
    simp only [addAll] at hq
    rcases ih hq with h | ⟨h1, h2⟩
    · rcases mem_insert.mp h with rfl | h
      · right; simp
      · left; exact h
    · right; simp only [addCallback] at h1; exact ⟨by omega, by simp [h2]⟩

theorem mem_addAll_of_mem {s : Sys} {l : List (Rat × Nat)} {q : Entry} (hq : q ∈ s.queue) :
    q ∈ (addAll s l).queue := by
  induction l generalizing s with
  | nil => exact hq
  | cons c cs ih =>
    obtain ⟨a, b⟩ := c
    simp only [addAll]
    exact ih (mem_insert.mpr (Or.inr hq))

theorem mem_addAll_of_kid {s : Sys} {l : List (Rat × Nat)} {c : Rat × Nat} (hc : c ∈ l) :
    ∃ q ∈ (addAll s l).queue, q.time = c.1 ∧ q.id = c.2 ∧ s.ctr ≤ q.ctr := by
  induction l generalizing s with
  | nil => simp at hc
  | cons d ds ih =>
    obtain ⟨a, b⟩ := d
    simp only [addAll]
    rcases List.mem_cons.mp hc with rfl | hc
    · exact ⟨⟨a, s.ctr, b⟩, mem_addAll_of_mem (mem_insert.mpr (Or.inl rfl)), rfl, rfl, le_refl _⟩
    · obtain ⟨q, hq, h1, h2, h3⟩ := ih (s := addCallback s a b) hc
      exact ⟨q, hq, h1, h2, by simp only [addCallback] at h3; omega⟩

theorem advance_queue (s : Sys) (dt : Rat) : (advance s dt).1.queue = s.queue := by
  unfold advance; split <;> rfl

theorem advance_ctr (s : Sys) (dt : Rat) : (advance s dt).1.ctr = s.ctr := by
  unfold advance; split <;> rfl

theorem advance_sumDt (s : Sys) (dt : Rat) : sumDt (advance s dt).2 = (advance s dt).1.t - s.t := by
  unfold advance; split <;> simp [sumDt]

theorem advance_fired (s : Sys) (dt : Rat) : fired (advance s dt).2 = [] := by
  unfold advance; split <;> simp [fired]

theorem sumDt_append (a b : List Event) : sumDt (a ++ b) = sumDt a + sumDt b := by
  induction a with
  | nil => simp [sumDt]
  | cons x xs ih =>
    cases x with
    | integrate dt => simp only [List.cons_append, sumDt, ih]; ring
    | fire => simp only [List.cons_append, sumDt, ih]

theorem fired_append (a b : List Event) : fired (a ++ b) = fired a ++ fired b := by
  induction a with
  | nil => simp [fired]
  | cons x xs ih => cases x <;> simp [fired, ih]

/-- after `advance s (τ - s.t)` with `s.t ≤ τ` the clock lags `τ` by at most `eps` -/
theorem advance_lag (s : Sys) (τ : Rat) (h : s.t ≤ τ) :
    (advance s (τ - s.t)).1.t ≤ τ ∧ τ - (advance s (τ - s.t)).1.t ≤ eps := by
  unfold advance; split
  · simp
    have : (0 : Rat) ≤ eps := by unfold eps; norm_num
    linarith
  · rename_i h'; simp at h' ⊢; exact ⟨h, h'⟩

theorem advance_t_ge (s : Sys) (dt : Rat) : s.t ≤ (advance s dt).1.t := by
  unfold advance; split
  · rename_i h
    have : (0 : Rat) ≤ eps := by unfold eps; norm_num
    simp; linarith
  · simp

/-- callbacks only schedule at or after their own scheduled time -/
def WF (kids : Entry → List (Rat × Nat)) : Prop := ∀ e, ∀ c ∈ kids e, e.time ≤ c.1

/-- the state the loop continues from after popping `e` -/
def next (kids : Entry → List (Rat × Nat)) (s : Sys) (e : Entry) (rest : List Entry) : Sys :=
  addAll (advance { s with queue := rest } (e.time - s.t)).1 (kids e)

theorem loop_cons_status {kids T fuel s e rest} (hq : s.queue = e :: rest) (ht : e.time < T) :
    (loop kids T (fuel + 1) s).status = (loop kids T fuel (next kids s e rest)).status := by
  simp only [loop, hq, ht, if_true, next]

theorem loop_cons_s {kids T fuel s e rest} (hq : s.queue = e :: rest) (ht : e.time < T) :
    (loop kids T (fuel + 1) s).s = (loop kids T fuel (next kids s e rest)).s := by
  simp only [loop, hq, ht, if_true, next]

theorem loop_cons_trace {kids T fuel s e rest} (hq : s.queue = e :: rest) (ht : e.time < T) :
    (loop kids T (fuel + 1) s).trace =
      (advance { s with queue := rest } (e.time - s.t)).2 ++
        Event.fire e (advance { s with queue := rest } (e.time - s.t)).1.t ::
        (loop kids T fuel (next kids s e rest)).trace := by
  simp only [loop, hq, ht, if_true, next]

theorem loop_stop {kids T fuel s} (h : s.queue = [] ∨ ∃ e rest, s.queue = e :: rest ∧ ¬ e.time < T) :
    loop kids T (fuel + 1) s = ⟨.ok, (advance s (T - s.t)).1, (advance s (T - s.t)).2⟩ := by
  rcases h with h | ⟨e, rest, h, ht⟩
  · simp only [loop, h]
  · simp only [loop, h, ht, if_false]

theorem next_inv {kids s e rest} (hk : WF kids) (hi : Inv s) (hq : s.queue = e :: rest) :
    Inv (next kids s e rest) ∧ (next kids s e rest).t ≤ e.time ∧
      e.time - (next kids s e rest).t ≤ eps ∧ s.t ≤ (next kids s e rest).t := by
  have hs := hi.sorted; rw [hq] at hs
  unfold Sorted at hs; rw [List.pairwise_cons] at hs
  have het : s.t ≤ e.time := hi.future e (by simp [hq])
  have hlag := advance_lag { s with queue := rest } e.time het
  have hge := advance_t_ge { s with queue := rest } (e.time - s.t)
  set a := advance { s with queue := rest } (e.time - s.t) with ha
  have hia : Inv a.1 := by
    refine ⟨?_, ?_, ?_⟩
    · rw [ha, advance_queue]; exact hs.2
    · rw [ha, advance_queue, advance_ctr]; intro q hq'; exact hi.ctr q (by simp [hq, hq'])
    · rw [ha, advance_queue]; intro q hq'
      have := Entry.time_le_of_lt (hs.1 q hq')
      exact le_trans hlag.1 this
  refine ⟨?_, ?_, ?_, ?_⟩
  · exact inv_addAll hia _ (fun c hc => le_trans hlag.1 (hk e c hc))
  · simp only [next, addAll_t]; exact hlag.1
  · simp only [next, addAll_t]; exact hlag.2
  · simp only [next, addAll_t]; exact hge


/-- `b` is strictly below everything that is or can still get into the queue of `s` -/
def Below (b : Entry) (s : Sys) : Prop := (∀ q ∈ s.queue, b.lt q) ∧ b.ctr < s.ctr

theorem below_next {kids s e rest b} (hk : WF kids) (hq : s.queue = e :: rest)
    (hb : (∀ q ∈ rest, b.lt q) ∧ b.ctr < s.ctr ∧ b.time ≤ e.time) : Below b (next kids s e rest) := by
  obtain ⟨hb1, hb2, hb3⟩ := hb
  refine ⟨?_, ?_⟩
  · intro q hq'
    rcases mem_addAll hq' with h | ⟨h1, h2⟩
    · rw [advance_queue] at h; exact hb1 q h
    · rw [advance_ctr] at h1
      have := hk e _ h2
      simp only at this h1
      rcases lt_or_eq_of_le (le_trans hb3 this) with h3 | h3
      · left; exact h3
      · right; exact ⟨h3, by omega⟩
  · simp only [next, addAll_ctr, advance_ctr]; omega


end HcipyVerif.Scheduler
