import HcipyVerif.Lemmas.GridEq
import Mathlib.Algebra.Order.AbsoluteValue.Basic
import Mathlib.Tactic.FieldSimp

/-! Helper lemmas for C11: points of transformed coordinates. -/
set_option linter.unusedSimpArgs false
set_option linter.unusedVariables false
set_option linter.dupNamespace false

namespace HcipyVerif.Grid

/-- apply one function per axis to a point -/
def applyAx (gs : List (Rat → Rat)) (p : List Rat) : List Rat := List.zipWith (fun g x => g x) gs p

theorem applyAx_cons (g : Rat → Rat) (gs) (x : Rat) (p) : applyAx (g :: gs) (x :: p) = g x :: applyAx gs p := rfl

theorem tensorPoints_map : ∀ (axes : List (List Rat)) (gs : List (Rat → Rat)), gs.length = axes.length →
    tensorPoints (List.zipWith (fun ax g => ax.map g) axes gs) = (tensorPoints axes).map (applyAx gs)
  | [], [], _ => by simp [tensorPoints, applyAx]
  | [], _ :: _, h => by simp at h
  | _ :: _, [], h => by simp at h
  | ax :: rest, g :: gs, h => by
    have ih := tensorPoints_map rest gs (by simpa using h)
    simp only [List.zipWith_cons_cons, tensorPoints, ih, List.flatMap_map, List.map_flatMap, List.map_map]
    congr 1

theorem pointsOfCols_map (n : Nat) : ∀ (cols : List (List Rat)) (gs : List (Rat → Rat)), gs.length = cols.length →
    pointsOfCols n (List.zipWith (fun col g => col.map g) cols gs) = (pointsOfCols n cols).map (applyAx gs)
  | [], [], _ => by simp [pointsOfCols, applyAx]
  | [], _ :: _, h => by simp at h
  | _ :: _, [], h => by simp at h
  | c :: cs, g :: gs, h => by
    have ih := pointsOfCols_map n cs gs (by simpa using h)
    simp only [List.zipWith_cons_cons, pointsOfCols, ih, List.map_zipWith, List.zipWith_map_left,
      List.zipWith_map_right, applyAx_cons]

theorem applyAx_mul (f p : List Rat) : applyAx (f.map fun fi x => x * fi) p = scalePt f p := by
  simp [applyAx, scalePt, List.zipWith_map_left]

theorem applyAx_add (b p : List Rat) : applyAx (b.map fun bi x => x + bi) p = shiftPt b p := by
  simp [applyAx, shiftPt, List.zipWith_map_left]

theorem zipWith_fun_map {α} (l : List (List α)) (f : List Rat) (k : Rat → α → α) :
    List.zipWith (fun ax fi => ax.map (k fi)) l f = List.zipWith (fun ax g => ax.map g) l (f.map k) := by
  simp [List.zipWith_map_right]


/-! ### regular axes -/

theorem values_scale (a : RegAxis) (f : Rat) :
    RegAxis.values { a with delta := a.delta * f, zero := a.zero * f } = a.values.map (· * f) := by
  simp only [RegAxis.values, List.map_map]
  apply List.map_congr_left
  intro i _
  simp only [Function.comp]
  ring

theorem values_shift (a : RegAxis) (b : Rat) :
    RegAxis.values { a with zero := a.zero + b } = a.values.map (· + b) := by
  simp only [RegAxis.values, List.map_map]
  apply List.map_congr_left
  intro i _
  simp only [Function.comp]
  ring

theorem regular_scale_values : ∀ (a : List RegAxis) (f : List Rat),
    (List.zipWith (fun x fi => ({ x with delta := x.delta * fi, zero := x.zero * fi } : RegAxis)) a f).map RegAxis.values =
      List.zipWith (fun ax g => ax.map g) (a.map RegAxis.values) (f.map fun fi x => x * fi)
  | [], _ => by simp
  | _ :: _, [] => by simp
  | x :: xs, fi :: fs => by
    simp only [List.zipWith_cons_cons, List.map_cons, regular_scale_values xs fs, values_scale]

theorem regular_shift_values : ∀ (a : List RegAxis) (b : List Rat),
    (List.zipWith (fun x bi => ({ x with zero := x.zero + bi } : RegAxis)) a b).map RegAxis.values =
      List.zipWith (fun ax g => ax.map g) (a.map RegAxis.values) (b.map fun bi x => x + bi)
  | [], _ => by simp
  | _ :: _, [] => by simp
  | x :: xs, bi :: bs => by
    simp only [List.zipWith_cons_cons, List.map_cons, regular_shift_values xs bs, values_shift]

theorem headD_zipWith_map_length (cols : List (List Rat)) (gs : List (Rat → Rat)) (h : gs.length = cols.length) :
    ((List.zipWith (fun col g => col.map g) cols gs).headD []).length = (cols.headD []).length := by
  cases cols with
  | nil => simp
  | cons c cs =>
    cases gs with
    | nil => simp at h
    | cons g gs => simp

/-- the points of scaled coordinates are the scaled points (all three kinds) -/
theorem Coords.points_scale (c : Coords) (f : List Rat) (h : f.length = c.ndim) :
    (c.scale f).points = c.points.map (scalePt f) := by
  cases c with
  | regular a =>
    simp only [Coords.scale, Coords.points, regular_scale_values]
    rw [tensorPoints_map _ _ (by simpa [Coords.ndim] using h)]
    congr 1; funext p; exact applyAx_mul f p
  | separated a =>
    simp only [Coords.scale, Coords.points]
    rw [zipWith_fun_map a f (fun fi x => x * fi), tensorPoints_map _ _ (by simpa [Coords.ndim] using h)]
    congr 1; funext p; exact applyAx_mul f p
  | unstructured c =>
    simp only [Coords.scale, Coords.points]
    rw [zipWith_fun_map c f (fun fi x => x * fi), headD_zipWith_map_length _ _ (by simpa [Coords.ndim] using h),
      pointsOfCols_map _ _ _ (by simpa [Coords.ndim] using h)]
    congr 1; funext p; exact applyAx_mul f p

theorem Coords.points_shift (c : Coords) (b : List Rat) (h : b.length = c.ndim) :
    (c.shift b).points = c.points.map (shiftPt b) := by
  cases c with
  | regular a =>
    simp only [Coords.shift, Coords.points, regular_shift_values]
    rw [tensorPoints_map _ _ (by simpa [Coords.ndim] using h)]
    congr 1; funext p; exact applyAx_add b p
  | separated a =>
    simp only [Coords.shift, Coords.points]
    rw [zipWith_fun_map a b (fun bi x => x + bi), tensorPoints_map _ _ (by simpa [Coords.ndim] using h)]
    congr 1; funext p; exact applyAx_add b p
  | unstructured c =>
    simp only [Coords.shift, Coords.points]
    rw [zipWith_fun_map c b (fun bi x => x + bi), headD_zipWith_map_length _ _ (by simpa [Coords.ndim] using h),
      pointsOfCols_map _ _ _ (by simpa [Coords.ndim] using h)]
    congr 1; funext p; exact applyAx_add b p


/-! ### reverse -/

theorem tensorPoints_reverse : ∀ (axes : List (List Rat)),
    tensorPoints (axes.map List.reverse) = (tensorPoints axes).reverse
  | [] => by simp [tensorPoints]
  | ax :: rest => by
    simp only [List.map_cons, tensorPoints, tensorPoints_reverse rest, List.reverse_flatMap, List.map_reverse]
    rfl

theorem pointsOfCols_length (n : Nat) : ∀ (cols : List (List Rat)), (∀ c ∈ cols, c.length = n) →
    (pointsOfCols n cols).length = n
  | [], _ => by simp [pointsOfCols]
  | c :: cs, h => by
    simp only [pointsOfCols, List.length_zipWith, pointsOfCols_length n cs (fun d hd => h d (by simp [hd])),
      h c (by simp), Nat.min_self]

theorem pointsOfCols_reverse (n : Nat) : ∀ (cols : List (List Rat)), (∀ c ∈ cols, c.length = n) →
    pointsOfCols n (cols.map List.reverse) = (pointsOfCols n cols).reverse
  | [], _ => by simp [pointsOfCols]
  | c :: cs, h => by
    have ih := pointsOfCols_reverse n cs (fun d hd => h d (by simp [hd]))
    have hl := pointsOfCols_length n cs (fun d hd => h d (by simp [hd]))
    simp only [List.map_cons, pointsOfCols, ih]
    rw [List.reverse_zipWith (by rw [hl, h c (by simp)])]

theorem values_reverse (a : RegAxis) : a.reverse.values = a.values.reverse := by
  apply List.ext_getElem
  · simp [RegAxis.values, RegAxis.reverse]
  · intro i h1 h2
    simp only [RegAxis.values, RegAxis.reverse, List.length_map, List.length_range] at h1
    simp only [RegAxis.values, RegAxis.reverse, List.getElem_map, List.getElem_range, List.getElem_reverse,
      List.length_map, List.length_range]
    have : ((a.dim - 1 - i : Nat) : Rat) = (a.dim : Rat) - 1 - (i : Rat) := by
      rw [Nat.cast_sub (by omega), Nat.cast_sub (by omega)]; simp
    rw [this]; ring

theorem rect_iff (c : List Rat) (cs : List (List Rat)) :
    rect (c :: cs) = true ↔ ∀ d ∈ cs, d.length = c.length := by
  simp [rect]

theorem Coords.points_reverse (c : Coords) (h : c.WF) : c.reverse.points = c.points.reverse := by
  cases c with
  | regular a =>
    simp only [Coords.reverse, Coords.points, List.map_map]
    rw [← tensorPoints_reverse, List.map_map]
    congr 1
    apply List.map_congr_left
    intro x _; exact values_reverse x
  | separated a => exact tensorPoints_reverse a
  | unstructured c =>
    simp only [Coords.reverse, Coords.points]
    cases c with
    | nil => simp [pointsOfCols]
    | cons c0 cs =>
      have hr := (rect_iff c0 cs).mp h.2
      simp only [List.map_cons, List.headD_cons, List.length_reverse]
      rw [← List.map_cons]
      exact pointsOfCols_reverse _ _ (by intro d hd; rcases List.mem_cons.mp hd with rfl | hd; rfl; exact hr d hd)

/-! ### linear maps (rotation) -/

theorem pointsOfCols_linmap (pts : List (List Rat)) : ∀ (M : List (List Rat)),
    pointsOfCols pts.length (M.map fun r => pts.map (dot r)) = pts.map (linPt M)
  | [] => by
    have : linPt [] = fun _ => ([] : List Rat) := by funext p; rfl
    simp [pointsOfCols, this, List.map_const']
  | r :: M => by
    simp only [List.map_cons, pointsOfCols, pointsOfCols_linmap pts M, List.zipWith_map_left,
      List.zipWith_map_right, List.zipWith_self]
    rfl

theorem Coords.points_linmap (c : Coords) (M : List (List Rat)) (hM : M ≠ []) :
    (c.linmap M).points = c.points.map (linPt M) := by
  cases M with
  | nil => exact absurd rfl hM
  | cons r M =>
    have := pointsOfCols_linmap c.points (r :: M)
    simp only [List.map_cons] at this
    simp only [Coords.linmap, List.map_cons]
    rw [← this]
    simp [Coords.points]

/-! ### the operations preserve well-formedness, dimension and kind (needed to chain the single-step theorems) -/

theorem Coords.ndim_scale (c : Coords) (f : List Rat) (h : f.length = c.ndim) : (c.scale f).ndim = c.ndim := by
  cases c <;> simp_all [Coords.scale, Coords.ndim]

theorem Coords.ndim_shift (c : Coords) (b : List Rat) (h : b.length = c.ndim) : (c.shift b).ndim = c.ndim := by
  cases c <;> simp_all [Coords.shift, Coords.ndim]

theorem Coords.ndim_reverse (c : Coords) : c.reverse.ndim = c.ndim := by
  cases c <;> simp [Coords.reverse, Coords.ndim]

theorem Coords.ndim_linmap (c : Coords) (M : List (List Rat)) : (c.linmap M).ndim = M.length := by
  simp [Coords.linmap, Coords.ndim]

theorem Coords.kind_scale (c : Coords) (f : List Rat) : (c.scale f).kind = c.kind := by
  cases c <;> rfl
theorem Coords.kind_shift (c : Coords) (f : List Rat) : (c.shift f).kind = c.kind := by
  cases c <;> rfl
theorem Coords.kind_reverse (c : Coords) : c.reverse.kind = c.kind := by
  cases c <;> rfl

theorem zipWith_ne_nil {α β γ} (k : α → β → γ) : ∀ (a : List α) (f : List β), a ≠ [] → f.length = a.length →
    List.zipWith k a f ≠ []
  | [], _, h, _ => absurd rfl h
  | _ :: _, [], _, h => by simp at h
  | _ :: _, _ :: _, _, _ => by simp

theorem rect_zipWith_map (k : Rat → Rat → Rat) : ∀ (c : List (List Rat)) (f : List Rat), f.length = c.length →
    rect c = true → rect (List.zipWith (fun col fi => col.map (k fi)) c f) = true
  | [], _, _, _ => by simp [rect]
  | c0 :: cs, [], h, _ => by simp at h
  | c0 :: cs, f0 :: fs, h, hr => by
    rw [rect_iff] at hr
    simp only [List.zipWith_cons_cons, rect_iff, List.length_map]
    intro d hd
    obtain ⟨i, hi, rfl⟩ := List.getElem_of_mem hd
    simp only [List.getElem_zipWith, List.length_map]
    exact hr _ (List.getElem_mem _)

theorem Coords.WF_scale (c : Coords) (f : List Rat) (h : f.length = c.ndim) (hw : c.WF) : (c.scale f).WF := by
  cases c with
  | regular a =>
    simp only [Coords.WF, Coords.scale, Coords.ndim] at *
    exact zipWith_ne_nil _ _ _ hw h
  | separated a =>
    simp only [Coords.WF, Coords.scale, Coords.ndim] at *
    exact zipWith_ne_nil _ _ _ hw h
  | unstructured a =>
    simp only [Coords.WF, Coords.scale, Coords.ndim] at *
    refine ⟨?_, rect_zipWith_map (fun fi x => x * fi) a f h hw.2⟩
    exact zipWith_ne_nil _ _ _ hw.1 h

theorem Coords.WF_shift (c : Coords) (b : List Rat) (h : b.length = c.ndim) (hw : c.WF) : (c.shift b).WF := by
  cases c with
  | regular a =>
    simp only [Coords.WF, Coords.shift, Coords.ndim] at *
    exact zipWith_ne_nil _ _ _ hw h
  | separated a =>
    simp only [Coords.WF, Coords.shift, Coords.ndim] at *
    exact zipWith_ne_nil _ _ _ hw h
  | unstructured a =>
    simp only [Coords.WF, Coords.shift, Coords.ndim] at *
    refine ⟨?_, rect_zipWith_map (fun bi x => x + bi) a b h hw.2⟩
    exact zipWith_ne_nil _ _ _ hw.1 h

theorem Coords.WF_reverse (c : Coords) (hw : c.WF) : c.reverse.WF := by
  cases c with
  | regular a => simpa [Coords.WF, Coords.reverse] using hw
  | separated a => simpa [Coords.WF, Coords.reverse] using hw
  | unstructured a =>
    simp only [Coords.WF, Coords.reverse] at *
    refine ⟨by simpa using hw.1, ?_⟩
    cases a with
    | nil => simp [rect]
    | cons c0 cs =>
      have := (rect_iff c0 cs).mp hw.2
      simp only [List.map_cons, rect_iff, List.length_reverse]
      intro d hd
      obtain ⟨d', hd', rfl⟩ := List.mem_map.mp hd
      simpa using this d' hd'

theorem Coords.WF_linmap (c : Coords) (M : List (List Rat)) (hM : M ≠ []) : (c.linmap M).WF := by
  simp only [Coords.WF, Coords.linmap]
  refine ⟨by simpa using hM, ?_⟩
  cases M with
  | nil => exact absurd rfl hM
  | cons r M => simp [rect]

/-- the points of two unstructured columns given as maps over one list -/
theorem pointsOfCols_two {α : Type} (xs : List α) (f g : α → Rat) :
    pointsOfCols xs.length [xs.map f, xs.map g] = xs.map fun p => [f p, g p] := by
  simp only [pointsOfCols]
  induction xs with
  | nil => simp
  | cons x xs ih => simp [List.replicate_succ, ih]

end HcipyVerif.Grid
