import HcipyVerif.Model.GridLayout
import Mathlib.Tactic.Ring
import Mathlib.Tactic.Linarith

set_option linter.unusedSimpArgs false
set_option linter.unusedVariables false

namespace HcipyVerif.Grid

/-- every element lies at a non-negative offset (a valid view) -/
def LArr.Valid (a : LArr) : Prop := ∀ k, k < a.len → 0 ≤ (a.start : Int) + (k : Int) * a.stride

theorem LArr.values_ofList (v : List Rat) : (LArr.ofList v).values = v := by
  apply List.ext_getElem
  · simp [LArr.values, LArr.ofList]
  · intro k h1 h2
    simp [LArr.values, LArr.ofList, LArr.get, List.getD_eq_getElem?_getD]
    simp [LArr.values, LArr.ofList] at h1
    simp [h1]

theorem LArr.valid_ofList (v : List Rat) : (LArr.ofList v).Valid := by
  intro k _; simp only [LArr.ofList]; omega

theorem LArr.values_rev (a : LArr) (hv : a.Valid) : a.rev.values = a.values.reverse := by
  apply List.ext_getElem
  · simp [LArr.values, LArr.rev]
  · intro k h1 h2
    have hk : k < a.len := by simpa [LArr.values, LArr.rev] using h1
    simp only [LArr.values, List.getElem_map, List.getElem_range, List.getElem_reverse, List.length_map, List.length_range]
    simp only [LArr.get, LArr.rev]
    have h0 := hv (a.len - 1) (by omega)
    have e1 : (((a.start : Int) + ((a.len - 1 : Nat) : Int) * a.stride).toNat : Int) = (a.start : Int) + ((a.len - 1 : Nat) : Int) * a.stride :=
      Int.toNat_of_nonneg h0
    rw [e1]
    have e2 : (a.start : Int) + ((a.len - 1 : Nat) : Int) * a.stride + (k : Int) * -a.stride =
        (a.start : Int) + ((a.len - 1 - k : Nat) : Int) * a.stride := by
      have : ((a.len - 1 - k : Nat) : Int) = ((a.len - 1 : Nat) : Int) - (k : Int) := by omega
      rw [this]; ring
    rw [e2]

theorem interleave_getD (v : List Rat) (j : Nat) (hj : j < v.length) : (interleave v).getD (2 * j) 0 = v.getD j 0 := by
  induction v generalizing j with
  | nil => simp at hj
  | cons x xs ih =>
    cases j with
    | zero => simp [interleave]
    | succ j =>
      have : 2 * (j + 1) = (2 * j) + 1 + 1 := by ring
      rw [this]
      have hj' : j < xs.length := by simpa using hj
      have := ih j hj'
      simpa [interleave, List.getD_eq_getElem?_getD] using this

theorem interleave_length (v : List Rat) : (interleave v).length = 2 * v.length := by
  induction v with
  | nil => rfl
  | cons x xs ih => simp [interleave] at ih ⊢; omega

/-- **whatever the layout, the view denotes the same values** -/
theorem LArr.values_make (m : Nat) (v : List Rat) : (LArr.make m v).values = v := by
  unfold LArr.make
  split
  · rw [LArr.values_rev _ (LArr.valid_ofList _), LArr.values_ofList, List.reverse_reverse]
  · apply List.ext_getElem
    · simp [LArr.values, LArr.step, LArr.ofList, interleave_length]; omega
    · intro k h1 h2
      simp only [LArr.values, List.getElem_map, List.getElem_range, LArr.get, LArr.step, LArr.ofList]
      have e : ((0 : Nat) : Int) + (k : Int) * (1 * ((2 : Nat) : Int)) = ((2 * k : Nat) : Int) := by push_cast; ring
      rw [e, Int.toNat_natCast, interleave_getD v k h2]
      simp [List.getD_eq_getElem?_getD, h2]
  · apply List.ext_getElem
    · simp [LArr.values, LArr.drop, LArr.ofList]
    · intro k h1 h2
      simp only [LArr.values, List.getElem_map, List.getElem_range, LArr.get, LArr.drop, LArr.ofList]
      have e : ((((0 : Nat) : Int) + ((1 : Nat) : Int) * 1).toNat : Int) + (k : Int) * 1 = ((k + 1 : Nat) : Int) := by
        simp; ring
      rw [e, Int.toNat_natCast]
      simp [List.getD_eq_getElem?_getD, h2]
  · exact LArr.values_ofList v

theorem map_values_zipWith_make (modes : List Nat) (arrays : List (List Rat)) (h : modes.length = arrays.length) :
    (List.zipWith LArr.make modes arrays).map LArr.values = arrays := by
  induction modes generalizing arrays with
  | nil => cases arrays <;> simp_all
  | cons m ms ih =>
    cases arrays with
    | nil => simp at h
    | cons a as => simp [LArr.values_make, ih as (by simpa using h)]

end HcipyVerif.Grid
