import HcipyVerif.Model.AperturePupil
import HcipyVerif.Lemmas.ApertureMain
import HcipyVerif.Lemmas.ApertureKeck
import HcipyVerif.Lemmas.AperturePolar

/-!
# C12 — the hexagonally segmented pupils (`HexCfg`, `HicatCfg`): helper lemmas

* which lattice sites `Grid.subset` keeps is a pointwise predicate (`selKeeps`): `applySel = filter`;
* value of the composed pupil and of a returned segment as a product
  (segmented part) × (obscuration factor) × (spider factor);
* well-formedness of the composed trees (so that the general path theorems apply).
-/
set_option linter.unusedSimpArgs false
set_option linter.unusedVariables false

namespace HcipyVerif.Aperture

/-! ## `subset` -/

/-- does `subset` keep a segment centre? (a property of that centre alone) -/
def selKeeps : Sel → Pt → Bool
  | .nonzero s, p => decide (val s p ≠ 0)
  | .notPos s, p => !decide (val s p > 0)
  | .complPos s, p => decide (1 - val s p > 0)
  | .pos s, p => decide (val s p > 0)
  | .strips l, p => l.all fun t => decide (rabs (t.1 * p.1 + t.2.1 * p.2) < t.2.2)

theorem compress_map_eq_filter {α : Type} (f : α → Bool) (l : List α) :
    compress (l.map f) l = l.filter f := by
  induction l with
  | nil => simp [compress]
  | cons x l ih =>
    by_cases h : f x = true
    · simp [compress, h, ih]
    · simp [compress, h, ih]

theorem selMask_eq (s : Sel) (pos : List Pt) : selMask s pos = pos.map (selKeeps s) := by
  cases s <;> simp [selMask, selKeeps, evalPts_eq_val, List.map_map, Function.comp_def]

theorem applySel_eq_filter' (s : Sel) (pos : List Pt) : applySel s pos = pos.filter (selKeeps s) := by
  rw [applySel, selMask_eq, compress_map_eq_filter]

theorem selectPositions_eq_filter' (sels : List Sel) (pos : List Pt) :
    selectPositions sels pos = pos.filter fun p => sels.all fun s => selKeeps s p := by
  induction sels generalizing pos with
  | nil => simp [selectPositions]
  | cons s sels ih =>
    have : selectPositions (s :: sels) pos = selectPositions sels (applySel s pos) := by
      simp [selectPositions]
    rw [this, ih, applySel_eq_filter', List.filter_filter]
    congr 1
    funext p
    simp [Bool.and_comm]

/-! ## value of the composition -/

/-- product of the spiders' values at `p` -/
def spFactor (hw : Rat) (p : Pt) : List SpiderI → Rat
  | [] => 1
  | q :: r => val (spiderI hw q) p * spFactor hw p r

/-- `1 − circular(obs)` at `p` (1 when there is no obscuration) -/
def obsFactor (obs : Option Rat) (p : Pt) : Rat :=
  match obs with
  | none => 1
  | some R => 1 - val (.disk R) p

theorem val_spiderChain (hw : Rat) (sp : List SpiderI) (acc : Shape) (p : Pt) :
    val (spiderChain hw sp acc) p = val acc p * spFactor hw p sp := by
  induction sp generalizing acc with
  | nil => simp [spiderChain, spFactor]
  | cons q r ih =>
    have : spiderChain hw (q :: r) acc = spiderChain hw r (.mul acc (spiderI hw q)) := by
      simp [spiderChain]
    rw [this, ih]
    simp only [val, spFactor]
    ring

theorem val_withSpiders (loop : Bool) (hw : Rat) (sp : List SpiderI) (body : Shape) (p : Pt) :
    val (withSpiders loop hw sp body) p = val body p * spFactor hw p sp := by
  cases loop with
  | true => simp [withSpiders, val_spiderChain]
  | false =>
    cases sp with
    | nil => simp [withSpiders, spFactor]
    | cons q0 rest =>
      simp only [withSpiders, Bool.false_eq_true, if_false, val, val_spiderChain, spFactor]

theorem val_body (c : HexCfg) (p : Pt) :
    val c.body p = segFold (val c.segment) p c.segs 0 * obsFactor c.obs p := by
  unfold HexCfg.body obsFactor
  cases c.obs with
  | none => simp [val]
  | some R => simp [val]

theorem val_shape (c : HexCfg) (p : Pt) :
    val c.shape p = segFold (val c.segment) p c.segs 0 * obsFactor c.obs p * spFactor c.hw p c.spiders := by
  rw [HexCfg.shape, val_withSpiders, val_body]

theorem val_spiderDecor (c : HexCfg) (b : Shape) (p : Pt) :
    val (spiderDecor c b) p = val b p * spFactor c.hw p c.spiders := by
  unfold spiderDecor
  cases c.spiders with
  | nil => simp [spFactor]
  | cons q0 rest =>
    cases c.loop with
    | true => simp only [if_true, val, val_spiderChain]; ring
    | false => simp only [Bool.false_eq_true, if_false, val_spiderChain]

theorem val_decorateSegment (c : HexCfg) (b : Shape) (p : Pt) :
    val (decorateSegment c b) p = val b p * spFactor c.hw p c.spiders * obsFactor c.obs p := by
  unfold decorateSegment obsFactor
  cases c.obs with
  | none => simp only [val_spiderDecor]; ring
  | some R => simp only [val, val_spiderDecor]

theorem val_baseSegment (seg : Shape) (pt : Pt × Rat) (p : Pt) :
    val (baseSegment seg pt) p = val seg (shiftPt pt.1.1 pt.1.2 p) * pt.2 := by
  simp [baseSegment, val]

theorem spiderI_val_cases (hw : Rat) (q : SpiderI) (p : Pt) :
    val (spiderI hw q) p = 0 ∨ val (spiderI hw q) p = 1 :=
  binary_val (Binary.spiderInf ..) p

theorem spFactor_cases (hw : Rat) (p : Pt) (sp : List SpiderI) :
    spFactor hw p sp = 0 ∨ spFactor hw p sp = 1 := by
  induction sp with
  | nil => right; rfl
  | cons q r ih =>
    simp only [spFactor]
    rcases spiderI_val_cases hw q p with h | h <;> rcases ih with h' | h' <;> simp [h, h']

theorem obsFactor_cases (obs : Option Rat) (p : Pt) : obsFactor obs p = 0 ∨ obsFactor obs p = 1 := by
  cases obs with
  | none => right; rfl
  | some R => exact binary_val (Binary.compl (Binary.disk R)) p

/-! ## which segment decides the value of a segmented aperture -/

/-- the fold over the segments: either no segment covers the point (value `init`) or the value is the
transmission of a segment that covers it -/
theorem segFold_cover (f : Pt → Rat) (p : Pt) (segs : List (Pt × Rat)) (init : Rat) :
    ((∀ s ∈ segs, ¬ f (shiftPt s.1.1 s.1.2 p) > 1/2) ∧ segFold f p segs init = init) ∨
      ∃ s ∈ segs, f (shiftPt s.1.1 s.1.2 p) > 1/2 ∧ segFold f p segs init = s.2 := by
  induction segs generalizing init with
  | nil => left; simp [segFold]
  | cons s segs ih =>
    have hstep : segFold f p (s :: segs) init
        = segFold f p segs (if f (shiftPt s.1.1 s.1.2 p) > 1/2 then s.2 else init) := by
      simp [segFold]
    rw [hstep]
    rcases ih (if f (shiftPt s.1.1 s.1.2 p) > 1/2 then s.2 else init) with ⟨hno, hv⟩ | ⟨s', hs', hc, hv⟩
    · by_cases hcov : f (shiftPt s.1.1 s.1.2 p) > 1/2
      · right
        exact ⟨s, List.mem_cons_self, hcov, by rw [hv, if_pos hcov]⟩
      · left
        refine ⟨?_, by rw [hv, if_neg hcov]⟩
        intro t ht
        rcases List.mem_cons.mp ht with rfl | ht
        · exact hcov
        · exact hno t ht
    · right
      exact ⟨s', List.mem_cons_of_mem _ hs', hc, hv⟩

/-! ## well-formedness of the composed trees -/

theorem spiderChain_wf (hw : Rat) (sp : List SpiderI) (acc : Shape) (h : WF acc) :
    WF (spiderChain hw sp acc) := by
  induction sp generalizing acc with
  | nil => simpa [spiderChain] using h
  | cons q r ih => exact ih _ ⟨h, trivial⟩

theorem withSpiders_wf (loop : Bool) (hw : Rat) (sp : List SpiderI) (body : Shape) (h : WF body) :
    WF (withSpiders loop hw sp body) := by
  cases loop with
  | true => exact spiderChain_wf hw sp body h
  | false =>
    cases sp with
    | nil => exact h
    | cons q0 rest => exact ⟨h, spiderChain_wf hw rest _ trivial⟩

theorem hexcfg_wf (c : HexCfg) (h : WF c.segment) : WF c.shape := by
  refine withSpiders_wf _ _ _ _ ?_
  unfold HexCfg.body
  cases c.obs with
  | none => exact h
  | some R => exact ⟨h, trivial⟩

theorem spiderDecor_wf (c : HexCfg) (b : Shape) (h : WF b) : WF (spiderDecor c b) := by
  unfold spiderDecor
  cases c.spiders with
  | nil => exact h
  | cons q0 rest =>
    cases c.loop with
    | true => exact ⟨h, spiderChain_wf _ _ _ trivial⟩
    | false => exact spiderChain_wf _ _ _ h

theorem decorateSegment_wf (c : HexCfg) (b : Shape) (h : WF b) : WF (decorateSegment c b) := by
  unfold decorateSegment
  cases c.obs with
  | none => exact spiderDecor_wf c b h
  | some R => exact ⟨spiderDecor_wf c b h, trivial⟩

theorem hexcfg_segment_wf (c : HexCfg) (h : WF c.segment) : ∀ s ∈ c.segmentShapes, WF s := by
  intro s hs
  obtain ⟨pt, _, rfl⟩ := List.mem_map.mp hs
  exact decorateSegment_wf c _ ⟨h, trivial⟩

theorem spiderChain_polarWF (hw : Rat) (sp : List SpiderI) (acc : Shape) (h : PolarWF acc) :
    PolarWF (spiderChain hw sp acc) := by
  induction sp generalizing acc with
  | nil => simpa [spiderChain] using h
  | cons q r ih => exact ih _ ⟨h, trivial⟩

theorem hexcfg_polarWF (c : HexCfg) (h : ∀ R, c.obs = some R → 0 ≤ R) : PolarWF c.shape := by
  have hb : PolarWF c.body := by
    unfold HexCfg.body
    cases hc : c.obs with
    | none => trivial
    | some R => exact ⟨trivial, h R hc⟩
  unfold HexCfg.shape withSpiders
  cases c.loop with
  | true => exact spiderChain_polarWF _ _ _ hb
  | false =>
    cases c.spiders with
    | nil => exact hb
    | cons q0 rest => exact ⟨hb, spiderChain_polarWF _ _ _ trivial⟩

theorem hicat_wf (c : HicatCfg) (hA : WF c.segA) (hB : WF c.segB) (hC : WF c.central) : WF c.shape := by
  unfold HicatCfg.shape
  refine withSpiders_wf _ _ _ _ ?_
  cases c.gaps with
  | true => exact ⟨⟨hB, hC⟩, hA⟩
  | false => exact ⟨hB, hC⟩

end HcipyVerif.Aperture
