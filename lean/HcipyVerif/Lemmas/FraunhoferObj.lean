import HcipyVerif.Lemmas.FraunhoferBridge
import HcipyVerif.Lemmas.FraunhoferAbstract
import HcipyVerif.Lemmas.Nft
import HcipyVerif.Model.FraunhoferObj

/-!
# C03 — the executed propagator object (`Model/FraunhoferObj.lean`) at `ℝ`/`ℂ`

`scalarsR` is the instance of `Scalars` the theorems use (`expT`, `expE`, `unit = 2π`, `norm_factor = 1/(i f λ)`);
the driver runs the same `LensProp.forward/backward` with `scalarsQ`.  Helper lemmas: what the object's field is on
each kind of focal grid, C01's naive transform on the raveled pupil grid as a sum over `Fin Ny × Fin Nx`, the
soundness of the executable plan, the setter fold, and the allocation invariant of `runCalls`.
-/
set_option linter.unusedSimpArgs false
set_option linter.unusedVariables false
set_option linter.unusedSectionVars false

namespace HcipyVerif.FourierLink
open HcipyVerif.Fft HcipyVerif.Fraunhofer Finset Complex ComplexConjugate

/-- the scalars of the proofs: characters `exp(2πi t)` / `exp(i r)`, `unit = 2π`, `norm_factor = 1/(i f λ)` -/
noncomputable def scalarsR : Scalars ℝ ℂ :=
  { T := expT, E := expE, cj := starRingEnd ℂ, unit := 2 * Real.pi, ofK := Complex.ofReal, absK := fun r => |r|,
    norm := normFactorC }

/-- the propagator object between two regular Cartesian grids -/
@[reducible] def regObj (py px Fy Fx : RegAxis) (f : ℝ → ℝ) (plan : ℝ → Plan) (emu : Bool) : LensProp ℝ :=
  ⟨axOf py, axOf px, .regular (axOf Fy) (axOf Fx), f, plan, emu⟩

/-- the propagator object onto an arbitrary list of `n` focal points (unstructured / polar grid) -/
@[reducible] def ptsObj (py px : RegAxis) (n : ℕ) (X Y w : ℕ → ℝ) (f : ℝ → ℝ) (plan : ℝ → Plan) (emu : Bool) :
    LensProp ℝ :=
  ⟨axOf py, axOf px, .points n X Y w, f, plan, emu⟩

/-- a wavefront record on an `(n, m)` grid: arrays zero outside their shape -/
noncomputable def wfOf {τ : Type} {n m : ℕ} (E : τ → Fin n × Fin m → ℂ) (lam : ℝ) (S : Option (ℝ × ℝ × ℝ × ℝ)) :
    Wf τ ℝ ℂ :=
  ⟨fun t => ext2 (E t), lam, S⟩

theorem clip2_eq_ext2 (n m : ℕ) (F : ℕ → ℕ → ℂ) : clip2 n m F = ext2 (fun k : Fin n × Fin m => F k.1 k.2) := by
  funext i j
  by_cases h : i < n ∧ j < m <;> simp [clip2, ext2, h]

theorem clip2_apply (n m : ℕ) (F : ℕ → ℕ → ℂ) (k : Fin n × Fin m) : clip2 n m F k.1 k.2 = F k.1 k.2 := by
  simp [clip2, k.1.2, k.2.2]

/-- **The plan is what the modelled `make_fourier_transform` can return from sound inputs** at `lf = λ f`: its method
is a result of `choose detectFix` for two regular Cartesian 2-D grids, and if the numerical part of
`get_fft_parameters` succeeded the padded sizes are those of the native grid. -/
def PlanSound (py px Fy Fx : RegAxis) (lf : ℝ) (pl : Plan) : Prop :=
  ∃ numFft cheaper : Bool,
    (Fft.choose detectFix regDesc (some ⟨regDesc, numFft⟩) cheaper).map (·.method) = some pl.m ∧
    (numFft = true → lf ≠ 0 ∧ NativeAxis py Fy lf pl.My ∧ NativeAxis px Fx lf pl.Mx)

/-- the MFT plan is always sound -/
theorem planSound_mft (py px Fy Fx : RegAxis) (lf : ℝ) (My Mx : ℕ) (mat : Bool) :
    PlanSound py px Fy Fx lf ⟨.mft, My, Mx, mat⟩ :=
  ⟨false, false, by simp [Fft.choose, detectFix, detectLit, regDesc, GridDesc.isRegular, GridDesc.isSeparated], fun h => by simp at h⟩

/-! ## what the object computes on each kind of focal grid -/

theorem regObj_forward_field {τ : Type} (py px Fy Fx : RegAxis) (f : ℝ → ℝ) (plan : ℝ → Plan) (emu : Bool)
    (wf : Wf τ ℝ ℂ) (t : τ) :
    ((regObj py px Fy Fx f plan emu).forward scalarsR wf).field t
      = clip2 Fy.n Fx.n (lensForward expT expE (2 * Real.pi) Complex.ofReal (normFactorC wf.wavelength (f wf.wavelength))
          (plan wf.wavelength).m emu (axOf py) (axOf px) (axOf Fy) (axOf Fx) (wf.wavelength * f wf.wavelength)
          (plan wf.wavelength).My (plan wf.wavelength).Mx (wf.field t)) := rfl

theorem regObj_backward_field {τ : Type} (py px Fy Fx : RegAxis) (f : ℝ → ℝ) (plan : ℝ → Plan) (emu : Bool)
    (wf : Wf τ ℝ ℂ) (t : τ) :
    ((regObj py px Fy Fx f plan emu).backward scalarsR wf).field t
      = clip2 py.n px.n (lensBackward expT expE (starRingEnd ℂ) (2 * Real.pi) Complex.ofReal (fun r => |r|)
          (normFactorC wf.wavelength (f wf.wavelength))
          (plan wf.wavelength).m emu (axOf py) (axOf px) (axOf Fy) (axOf Fx) (wf.wavelength * f wf.wavelength)
          (plan wf.wavelength).My (plan wf.wavelength).Mx (wf.field t)) := rfl

theorem ptsObj_forward_field {τ : Type} (py px : RegAxis) (n : ℕ) (X Y w : ℕ → ℝ) (f : ℝ → ℝ) (plan : ℝ → Plan)
    (emu : Bool) (wf : Wf τ ℝ ℂ) (t : τ) :
    ((ptsObj py px n X Y w f plan emu).forward scalarsR wf).field t
      = clip2 1 n (fun _ k => lensNaiveForward expT (plan wf.wavelength).mat Complex.ofReal (axOf py) (axOf px) X Y
          (wf.wavelength * f wf.wavelength) (wf.field t) k * normFactorC wf.wavelength (f wf.wavelength)) := rfl

theorem ptsObj_backward_field {τ : Type} (py px : RegAxis) (n : ℕ) (X Y w : ℕ → ℝ) (f : ℝ → ℝ) (plan : ℝ → Plan)
    (emu : Bool) (wf : Wf τ ℝ ℂ) (t : τ) :
    ((ptsObj py px n X Y w f plan emu).backward scalarsR wf).field t
      = clip2 py.n px.n (fun jy jx => lensNaiveBackward expT (plan wf.wavelength).mat Complex.ofReal (axOf py) (axOf px)
          n X Y w (wf.wavelength * f wf.wavelength) (wf.field t 0) (jy * px.n + jx)
          * (normFactorC wf.wavelength (f wf.wavelength))⁻¹) := rfl

/-! ## the setter on the object -/

/-- any history of `focal_length` assignments on a regular-grid object leaves the object of the last assignment -/
theorem regObj_sets (py px Fy Fx : RegAxis) (emu : Bool) (sets : List ((ℝ → ℝ) × (ℝ → Plan))) (f : ℝ → ℝ)
    (plan : ℝ → Plan) (g : ℝ → ℝ) (pl : ℝ → Plan) :
    ((sets ++ [(g, pl)]).foldl (fun P s => P.setFocalLength s.1 s.2) (regObj py px Fy Fx f plan emu))
      = regObj py px Fy Fx g pl emu := by
  rw [List.foldl_append]
  simp only [List.foldl_cons, List.foldl_nil]
  induction sets generalizing f plan with
  | nil => rfl
  | cons s ss ih => exact ih s.1 s.2

/-! ## C01's naive transform on the raveled pupil grid -/

theorem sum_flat2 (M N : ℕ) (G : ℕ → ℂ) :
    ∑ k ∈ range (M * N), G k = ∑ i ∈ range M, ∑ j ∈ range N, G (i * N + j) := by
  induction M with
  | zero => simp
  | succ M ih => rw [Nat.succ_mul, Finset.sum_range_add, ih, Finset.sum_range_succ]

/-- both code paths of `NaiveFourierTransform.forward` on the raveled regular pupil grid are the weighted sum over
the pupil samples (C01 `nft_forward_fly_eq_sum`, `nft_forward_mat_eq_sum`) -/
theorem lensNaiveForward_eq_sum (mat : Bool) (py px : RegAxis) (X Y : ℕ → ℝ) (lf : ℝ)
    (E : Fin py.n × Fin px.n → ℂ) (k : ℕ) :
    lensNaiveForward expT mat Complex.ofReal (axOf py) (axOf px) X Y lf (ext2 E) k
      = ∑ j : Fin py.n × Fin px.n, E j * ((py.δ * px.δ : ℝ) : ℂ)
          * expT (-(X k / lf * px.x j.2 + Y k / lf * py.x j.1)) := by
  have key : ∑ i ∈ range (py.n * px.n), ext2 E (i / px.n) (i % px.n) * ((py.δ * px.δ : ℝ) : ℂ)
        * expT (-(X k / lf * px.x (i % px.n) + Y k / lf * py.x (i / px.n)))
      = ∑ j : Fin py.n × Fin px.n, E j * ((py.δ * px.δ : ℝ) : ℂ)
          * expT (-(X k / lf * px.x j.2 + Y k / lf * py.x j.1)) := by
    rw [sum_flat2]
    have hR : ∀ j : Fin py.n × Fin px.n, E j * ((py.δ * px.δ : ℝ) : ℂ)
          * expT (-(X k / lf * px.x j.2 + Y k / lf * py.x j.1))
        = (fun iy ix => ext2 E iy ix * ((py.δ * px.δ : ℝ) : ℂ)
          * expT (-(X k / lf * px.x ix + Y k / lf * py.x iy))) j.1 j.2 := by
      intro j; simp only [ext2_apply]
    rw [Finset.sum_congr rfl (fun j _ => hR j), sum_fin2 py.n px.n (fun iy ix => ext2 E iy ix * ((py.δ * px.δ : ℝ) : ℂ)
          * expT (-(X k / lf * px.x ix + Y k / lf * py.x iy)))]
    apply Finset.sum_congr rfl; intro iy _
    apply Finset.sum_congr rfl; intro ix hix
    rw [flat_div (mem_range.mp hix), flat_mod (mem_range.mp hix)]
  unfold lensNaiveForward
  cases mat
  · simp only [Bool.false_eq_true, if_false]
    rw [nft_forward_fly_eq_sum, ← key]
    apply Finset.sum_congr rfl; intro i _
    rw [dotCoords_two]; rfl
  · simp only [if_true]
    rw [nft_forward_mat_eq_sum, ← key]
    apply Finset.sum_congr rfl; intro i _
    rw [dotCoords_two]; rfl

/-- … and of `backward`: the sum over the `n` focal points with `weights_output = w_k/lf²` -/
theorem lensNaiveBackward_eq_sum (mat : Bool) (py px : RegAxis) (n : ℕ) (X Y w : ℕ → ℝ) (lf : ℝ)
    (G : ℕ → ℂ) (j : Fin py.n × Fin px.n) :
    lensNaiveBackward expT mat Complex.ofReal (axOf py) (axOf px) n X Y w lf G (j.1 * px.n + j.2)
      = ∑ k ∈ range n, G k * ((1 / lf * (1 / lf) * w k : ℝ) : ℂ)
          * expT (X k / lf * px.x j.2 + Y k / lf * py.x j.1) := by
  have hx : pupilX (axOf px) (j.1 * px.n + j.2) = px.x j.2 := by
    show px.x ((j.1 * px.n + j.2) % px.n) = _
    rw [flat_mod j.2.2]
  have hy : pupilY (axOf py) (axOf px) (j.1 * px.n + j.2) = py.x j.1 := by
    show py.x ((j.1 * px.n + j.2) / px.n) = _
    rw [flat_div j.2.2]
  unfold lensNaiveBackward
  cases mat
  · simp only [Bool.false_eq_true, if_false]
    rw [nft_backward_fly_eq_sum]
    apply Finset.sum_congr rfl; intro k _
    rw [dotCoords_two, hx, hy]
  · simp only [if_true]
    rw [nft_backward_mat_eq_sum]
    apply Finset.sum_congr rfl; intro k _
    rw [dotCoords_two, hx, hy]

/-! ## object identity: the allocation invariant of `runCalls` -/

/-- every id of every logged wavefront is below the allocation counter, and the ids of the log are pairwise
distinct -/
def HeapOk (h : Heap) (log : List WfRef) : Prop :=
  (log.flatMap WfRef.ids).Nodup ∧ ∀ i ∈ log.flatMap WfRef.ids, i < h.next

theorem flatMap_ids_snoc (log : List WfRef) (w : WfRef) :
    List.flatMap WfRef.ids (log ++ [w]) = List.flatMap WfRef.ids log ++ w.ids := by
  rw [List.flatMap_append]; simp

/-- appending a wavefront whose arrays are all newly allocated keeps the invariant -/
theorem heapOk_snoc {h h' : Heap} {log : List WfRef} (ok : HeapOk h log) (w : WfRef) (hnd : w.ids.Nodup)
    (hnew : ∀ i ∈ w.ids, h.next ≤ i ∧ i < h'.next) (hle : h.next ≤ h'.next) : HeapOk h' (log ++ [w]) := by
  obtain ⟨hn, hlt⟩ := ok
  unfold HeapOk
  rw [flatMap_ids_snoc]
  refine ⟨List.nodup_append.mpr ⟨hn, hnd, ?_⟩, ?_⟩
  · intro a ha b hb hab
    have h1 := hlt a ha
    have h2 := (hnew b hb).1
    omega
  · intro i hi
    rcases List.mem_append.mp hi with hi | hi
    · exact lt_of_lt_of_le (hlt i hi) hle
    · exact (hnew i hi).2

theorem heapOk_newWavefront {h : Heap} {log : List WfRef} (ok : HeapOk h log) (s : Bool) :
    HeapOk (h.newWavefront s).1 (log ++ [(h.newWavefront s).2]) := by
  cases s
  · exact heapOk_snoc ok _ (by simp [Heap.newWavefront, WfRef.ids])
      (by intro i hi; simp [Heap.newWavefront, WfRef.ids] at hi ⊢; omega) (by simp [Heap.newWavefront])
  · exact heapOk_snoc ok _ (by simp [Heap.newWavefront, WfRef.ids])
      (by intro i hi; simp [Heap.newWavefront, WfRef.ids] at hi ⊢; omega) (by simp [Heap.newWavefront])

theorem heapOk_propagate {h : Heap} {log : List WfRef} (ok : HeapOk h log) (w : WfRef) :
    HeapOk (h.propagate w).1 (log ++ [(h.propagate w).2]) := by
  cases hw : w.stokes
  · exact heapOk_snoc ok _ (by simp [Heap.propagate, hw, WfRef.ids])
      (by intro i hi; simp [Heap.propagate, hw, WfRef.ids] at hi ⊢; omega) (by simp [Heap.propagate, hw])
  · exact heapOk_snoc ok _ (by simp [Heap.propagate, hw, WfRef.ids])
      (by intro i hi; simp [Heap.propagate, hw, WfRef.ids] at hi ⊢; omega) (by simp [Heap.propagate, hw])

theorem heapOk_runCalls (cs : List Call) : ∀ (h : Heap) (log : List WfRef), HeapOk h log →
    HeapOk (runCalls h log cs).1 (runCalls h log cs).2 := by
  induction cs with
  | nil => intro h log ok; exact ok
  | cons c cs ih =>
    intro h log ok
    cases c with
    | fresh s =>
      have h1 := heapOk_newWavefront ok s
      have h2 := heapOk_propagate h1 (h.newWavefront s).2
      have := ih _ _ h2
      simpa [runCalls, List.append_assoc] using this
    | chain i =>
      unfold runCalls
      cases hi : log[i]? with
      | none => simpa [hi] using ih _ _ ok
      | some w =>
        have h2 := heapOk_propagate ok w
        simpa [hi] using ih _ _ h2

end HcipyVerif.FourierLink

namespace HcipyVerif.Fraunhofer

/-- **`Bad` variant** (not the code's behaviour): a `forward` of the object that builds `Wavefront(field, wavelength)` and
forgets `input_stokes_vector`. -/
def Bad.objForwardDropStokes {σ K C : Type} [Zero K] [Add K] [Sub K] [Mul K] [Neg K] [Div K] [One K] [NatCast K]
    [IntCast K] [Zero C] [One C] [Add C] [Mul C] [Inv C] [NatCast C] (S : Scalars K C) (P : LensProp K) (wf : Wf σ K C) :
    Wf σ K C :=
  { P.forward S wf with stokes := none }

/-- `Wavefront.I` of a Jones-matrix record: `stokesI` of its Stokes vector, without one the unpolarised `(1,0,0,0)` -/
noncomputable def recordI (S : Option (ℝ × ℝ × ℝ × ℝ)) (x y z w : ℂ) : ℝ :=
  stokesI (match S with
    | some (a, b, c, d) => ![a, b, c, d]
    | none => ![1, 0, 0, 0]) x y z w

end HcipyVerif.Fraunhofer
