import HcipyVerif.Lemmas.Coronagraph

/-!
# Lemmas for the literal operator `E − T (c ∘ (T⁺ E))` of `PerfectCoronagraph.forward` (C09, round 4)

Function-level version `perfectMatF`, its algebra under `T⁺ T = I`, the weighted Pythagoras
inequality, and the refinement lemmas from the executable `perfectMat` on `Vector`s.
-/
set_option linter.unusedSimpArgs false
set_option linter.unusedVariables false
set_option linter.unusedSectionVars false

namespace HcipyVerif.Coronagraph
open Finset

section Ring
variable {K : Type} [CommRing K] {n k : ℕ}

/-- function-level `E − T (c ∘ (T⁺ E))` -/
def perfectMatF (T : Fin n → Fin k → K) (Ti : Fin k → Fin n → K) (c : Fin k → K) (E : Fin n → K) : Fin n → K :=
  fun i => E i - ∑ j, T i j * (c j * ∑ i', Ti j i' * E i')

/-- `T⁺ T = I` -/
def LeftInvF (T : Fin n → Fin k → K) (Ti : Fin k → Fin n → K) : Prop :=
  ∀ j l, ∑ i, Ti j i * T i l = if j = l then 1 else 0

theorem perfectMatF_add (T : Fin n → Fin k → K) (Ti : Fin k → Fin n → K) (c : Fin k → K) (x y : Fin n → K) :
    perfectMatF T Ti c (x + y) = perfectMatF T Ti c x + perfectMatF T Ti c y := by
  funext i
  simp only [perfectMatF, Pi.add_apply, mul_add, Finset.sum_add_distrib]
  ring

theorem perfectMatF_smul (T : Fin n → Fin k → K) (Ti : Fin k → Fin n → K) (c : Fin k → K) (a : K) (x : Fin n → K) :
    perfectMatF T Ti c (a • x) = a • perfectMatF T Ti c x := by
  funext i
  simp only [perfectMatF, Pi.smul_apply, smul_eq_mul, mul_sub, Finset.mul_sum]
  congr 1
  refine Finset.sum_congr rfl fun j _ => ?_
  refine Finset.sum_congr rfl fun i' _ => ?_
  ring

theorem perfectMatF_zero (T : Fin n → Fin k → K) (Ti : Fin k → Fin n → K) (c : Fin k → K) :
    perfectMatF T Ti c 0 = 0 := by
  funext i; simp [perfectMatF]

theorem sum_TiT (T : Fin n → Fin k → K) (Ti : Fin k → Fin n → K) (h : LeftInvF T Ti) (A : Fin k → K) (j : Fin k) :
    ∑ i, Ti j i * ∑ l, T i l * A l = A j := by
  calc ∑ i, Ti j i * ∑ l, T i l * A l = ∑ i, ∑ l, Ti j i * T i l * A l := by
        refine Finset.sum_congr rfl fun i _ => ?_
        rw [Finset.mul_sum]; refine Finset.sum_congr rfl fun l _ => ?_; ring
    _ = ∑ l, ∑ i, Ti j i * T i l * A l := Finset.sum_comm
    _ = ∑ l, (∑ i, Ti j i * T i l) * A l := by
        refine Finset.sum_congr rfl fun l _ => ?_; rw [Finset.sum_mul]
    _ = A j := by
        simp only [h j, ite_mul, one_mul, zero_mul, Finset.sum_ite_eq, Finset.mem_univ, if_true]

/-- the coefficients of the output vanish: `T⁺ (P E) = 0` -/
theorem coef_perfectMatF (T : Fin n → Fin k → K) (Ti : Fin k → Fin n → K) (h : LeftInvF T Ti)
    (E : Fin n → K) (j : Fin k) : ∑ i, Ti j i * perfectMatF T Ti (fun _ => 1) E i = 0 := by
  simp only [perfectMatF, one_mul, mul_sub, Finset.sum_sub_distrib]
  rw [sum_TiT T Ti h (fun l => ∑ i', Ti l i' * E i') j, sub_self]

theorem perfectMatF_of_coef_zero (T : Fin n → Fin k → K) (Ti : Fin k → Fin n → K) (c : Fin k → K) (x : Fin n → K)
    (hx : ∀ j, ∑ i, Ti j i * x i = 0) : perfectMatF T Ti c x = x := by
  funext i
  simp only [perfectMatF, hx, mul_zero, Finset.sum_const_zero, sub_zero]

theorem perfectMatF_idem (T : Fin n → Fin k → K) (Ti : Fin k → Fin n → K) (h : LeftInvF T Ti) (E : Fin n → K) :
    perfectMatF T Ti (fun _ => 1) (perfectMatF T Ti (fun _ => 1) E) = perfectMatF T Ti (fun _ => 1) E :=
  perfectMatF_of_coef_zero T Ti _ _ (coef_perfectMatF T Ti h E)

theorem perfectMatF_range (T : Fin n → Fin k → K) (Ti : Fin k → Fin n → K) (h : LeftInvF T Ti) (b : Fin k → K) :
    perfectMatF T Ti (fun _ => 1) (fun i => ∑ l, T i l * b l) = 0 := by
  funext i
  simp only [perfectMatF, one_mul, Pi.zero_apply, sum_TiT T Ti h b, sub_self]

/-- user-supplied coefficients: the `l`-th orthogonalised mode is attenuated by `1 − c_l` -/
theorem perfectMatF_range_coeffs (T : Fin n → Fin k → K) (Ti : Fin k → Fin n → K) (h : LeftInvF T Ti)
    (c b : Fin k → K) :
    perfectMatF T Ti c (fun i => ∑ l, T i l * b l) = fun i => ∑ l, T i l * ((1 - c l) * b l) := by
  funext i
  simp only [perfectMatF, sum_TiT T Ti h b]
  rw [← Finset.sum_sub_distrib]
  refine Finset.sum_congr rfl fun l _ => ?_
  ring

/-- entries of a matrix given by rows -/
def toFn2 {m n : ℕ} (M : Vector (Vector K n) m) : Fin m → Fin n → K := fun r i => M[r][i]

theorem toFn_matVec {m n : ℕ} (M : Vector (Vector K n) m) (v : Vector K n) :
    toFn (matVec M v) = fun r => ∑ i : Fin n, toFn2 M r i * toFn v i := by
  funext r
  unfold matVec
  simp [dot_eq_ip, ip, toFn, toFn2]

theorem toFn_perfectMat (T : Vector (Vector K k) n) (Tinv : Vector (Vector K n) k) (c : Vector K k)
    (E : Vector K n) :
    toFn (perfectMat T Tinv c E) = perfectMatF (toFn2 T) (toFn2 Tinv) (toFn c) (toFn E) := by
  unfold perfectMat
  simp only [toFn_ofFn]
  funext i
  have h1 := congrFun (toFn_matVec Tinv E)
  have h2 := fun v => congrFun (toFn_matVec T v) i
  simp only [toFn] at h1 h2 ⊢
  rw [h2]
  unfold perfectMatF
  simp [toFn, toFn2, h1]

theorem toFn2_perfectMatrix (T : Vector (Vector K k) n) (Tinv : Vector (Vector K n) k) (c : Vector K k)
    (i i' : Fin n) :
    toFn2 (perfectMatrix T Tinv c) i i' =
      (if i = i' then 1 else 0) - ∑ j, toFn2 T i j * (toFn c j * toFn2 Tinv j i') := by
  unfold perfectMatrix toFn2
  simp [dot_eq_ip, ip, toFn]

/-- the reported matrix applied to a field is what `forward` computes -/
theorem toFn_matVec_perfectMatrix (T : Vector (Vector K k) n) (Tinv : Vector (Vector K n) k) (c : Vector K k)
    (E : Vector K n) :
    toFn (matVec (perfectMatrix T Tinv c) E) = toFn (perfectMat T Tinv c E) := by
  rw [toFn_matVec, toFn_perfectMat]
  funext i
  simp only [toFn2_perfectMatrix, perfectMatF, sub_mul, Finset.sum_sub_distrib, ite_mul, one_mul, zero_mul,
    Finset.sum_ite_eq, Finset.mem_univ, if_true]
  congr 1
  simp only [Finset.sum_mul, Finset.mul_sum]
  rw [Finset.sum_comm]
  refine Finset.sum_congr rfl fun j _ => Finset.sum_congr rfl fun i' _ => ?_
  ring

/-! ### the decidable hypotheses, on the executable objects -/

/-- `T⁺ T = I`: every entry of the defect the driver reports is zero. -/
def LeftInv (T : Vector (Vector K k) n) (Tinv : Vector (Vector K n) k) : Prop :=
  ∀ j l : Fin k, leftInvDefect T Tinv j l = 0

/-- `T⁺ = μ Tᵀ W`. -/
def WAdjoint (T : Vector (Vector K k) n) (Tinv : Vector (Vector K n) k) (w : Vector K n) (mu : K) : Prop :=
  ∀ (j : Fin k) (i : Fin n), adjointDefect T Tinv w mu j i = 0

/-- every mode `aperture · x^j · y^k` of the order is mapped to zero. -/
def NullsModes (T : Vector (Vector K k) n) (Tinv : Vector (Vector K n) k) (c : Vector K k)
    (a x y : Vector K n) (order : ℕ) : Prop :=
  ∀ e ∈ modeExps order, perfectMat T Tinv c (mode a x y e) = zeroVec K n

instance [DecidableEq K] (T : Vector (Vector K k) n) (Tinv : Vector (Vector K n) k) : Decidable (LeftInv T Tinv) := by
  unfold LeftInv; infer_instance

instance [DecidableEq K] (T : Vector (Vector K k) n) (Tinv : Vector (Vector K n) k) (w : Vector K n) (mu : K) :
    Decidable (WAdjoint T Tinv w mu) := by
  unfold WAdjoint; infer_instance

instance [DecidableEq K] (T : Vector (Vector K k) n) (Tinv : Vector (Vector K n) k) (c : Vector K k)
    (a x y : Vector K n) (order : ℕ) : Decidable (NullsModes T Tinv c a x y order) := by
  unfold NullsModes; infer_instance

theorem toFn_mode' (a x y : Vector K n) (e : ℕ × ℕ) :
    toFn (mode a x y e) = fun i => toFn a i * toFn x i ^ e.1 * toFn y i ^ e.2 := by
  unfold mode; rw [toFn_ofFn]; rfl

theorem toFn_onesVec : toFn (onesVec K k) = fun _ => 1 := by
  unfold onesVec; rw [toFn_ofFn]

theorem leftInv_iff (T : Vector (Vector K k) n) (Tinv : Vector (Vector K n) k) :
    LeftInv T Tinv ↔ LeftInvF (toFn2 T) (toFn2 Tinv) := by
  unfold LeftInv LeftInvF leftInvDefect
  refine forall_congr' fun j => forall_congr' fun l => ?_
  rw [dot_eq_ip, sub_eq_zero]
  unfold ip col
  simp only [toFn_ofFn]
  rfl

theorem wAdjoint_iff (T : Vector (Vector K k) n) (Tinv : Vector (Vector K n) k) (w : Vector K n) (mu : K) :
    WAdjoint T Tinv w mu ↔ ∀ j i, toFn2 Tinv j i = mu * (toFn2 T i j * toFn w i) := by
  unfold WAdjoint adjointDefect
  refine forall_congr' fun j => forall_congr' fun i => ?_
  rw [sub_eq_zero]; rfl

theorem powerW_eq (w E : Vector K n) : powerW w E = ∑ i, toFn w i * (toFn E i * toFn E i) := by
  unfold powerW
  exact foldl_eq_sum n fun i => w[i] * (E[i] * E[i])

end Ring

section Ordered
variable {K : Type} [Field K] [LinearOrder K] [IsStrictOrderedRing K] {n k : ℕ}

/-- weighted power `Σ w_i x_i²` -/
def pw (w x : Fin n → K) : K := ∑ i, w i * (x i * x i)

theorem perfectMatF_pw_le (T : Fin n → Fin k → K) (Ti : Fin k → Fin n → K) (w : Fin n → K) (mu : K)
    (h : LeftInvF T Ti) (hadj : ∀ j i, Ti j i = mu * (T i j * w i)) (hmu : 0 < mu) (hw : ∀ i, 0 ≤ w i)
    (E : Fin n → K) : pw w (perfectMatF T Ti (fun _ => 1) E) ≤ pw w E := by
  set P := perfectMatF T Ti (fun _ => 1) E with hP
  set a : Fin k → K := fun j => ∑ i', Ti j i' * E i' with ha
  set y : Fin n → K := fun i => ∑ j, T i j * a j with hy
  have hE : ∀ i, E i = P i + y i := by
    intro i
    simp only [hP, perfectMatF, one_mul, hy, ha]; ring
  -- μ ⟨y, P⟩_w = Σ_j a_j (T⁺ P)_j = 0
  have hcross : mu * ∑ i, w i * (y i * P i) = 0 := by
    have : mu * ∑ i, w i * (y i * P i) = ∑ j, a j * ∑ i, Ti j i * P i := by
      simp only [hy, Finset.mul_sum, Finset.sum_mul]
      rw [Finset.sum_comm]
      refine Finset.sum_congr rfl fun j _ => Finset.sum_congr rfl fun i _ => ?_
      rw [hadj j i]; ring
    rw [this]
    simp only [hP, coef_perfectMatF T Ti h E, mul_zero, Finset.sum_const_zero]
  have hcross' : ∑ i, w i * (y i * P i) = 0 := by
    rcases mul_eq_zero.1 hcross with h0 | h0
    · exact absurd h0 hmu.ne'
    · exact h0
  have hsplit : pw w E = pw w P + pw w y + 2 * ∑ i, w i * (y i * P i) := by
    unfold pw
    rw [Finset.mul_sum, ← Finset.sum_add_distrib, ← Finset.sum_add_distrib]
    refine Finset.sum_congr rfl fun i _ => ?_
    rw [hE i]; ring
  have hy0 : 0 ≤ pw w y := Finset.sum_nonneg fun i _ => mul_nonneg (hw i) (mul_self_nonneg _)
  rw [hsplit, hcross']
  linarith

end Ordered
end HcipyVerif.Coronagraph
