import HcipyVerif.Model.DetectorOld
import HcipyVerif.Lemmas.Detector
import Mathlib.Algebra.Order.Field.Rat

/-! Counterexamples on the models of the unrepaired tree (D15, D29, D170) and of a detector that aliases.
Documentation, **not evidence**: these are not property theorems, nothing here is executed by the driver. -/
set_option linter.unusedSimpArgs false
set_option linter.unusedVariables false

namespace HcipyVerif.Detector.Old
open HcipyVerif.Binning HcipyVerif.Detector

/-- D15: on the unrepaired tree a read-out with nothing integrated fails. -/
theorem Old_readOut_fails_when_empty (g : Geom) :
    ∃ o, (runOld g ({} : St Rat) [.readOut]).2 = [o] ∧ (match o with | .failed => True | _ => False) :=
  ⟨.failed, rfl, trivial⟩

/-- D29: on the unrepaired tree a detector of 1 pixel with subsampling 2 (one axis) returns a
2-pixel image. -/
theorem Old_integrate_ignores_subsampling :
    images (runOld (Geom.uniform [1] 2) ({} : St Rat) [.integrate [1, 2] 1 1, .readOut]).2
      = [[1, 2]] ∧
    images (run (Geom.uniform [1] 2) ({} : St Rat) [.integrate [1, 2] 1 1, .readOut]).2
      = [[3]] := by
  constructor <;> decide +kernel

/-- Old (D170, documentation): on the unrepaired subsampling-1 path a Field on a foreign grid makes the image live
on that foreign grid — the label model can express the defect -/
theorem Old_image_on_foreign_grid :
    tRunWith relabelOld {} [.integrate .onForeign, .integrate .onInput, .readOut, .readOut] = [.foreign, .detector] ∧
    tRunWith relabel {} [.integrate .onForeign, .integrate .onInput, .readOut, .readOut] = [.detector, .detector] := by
  decide

/-- **Bad** (in-place accumulation into the caller's buffer, read-out without copy): the array the caller passed
in changes without the caller writing to it, and the image handed out *is* that array — on the same history the
model of the real code leaves the buffer alone and hands out a new array.  (`caller_arrays_untouched` is
therefore not true of every step function.) -/
theorem Bad_detector_aliases :
    let g : Geom := Geom.uniform [2] 1
    let ops : List (ROp Rat) := [.alloc [1, 2], .integrate 0 2 1, .readOut]
    (rRunBad g {} ops).1.at 0 = [2, 4] ∧ (rRunBad g {} ops).2 = [.ref 0, .done, .ref 0] ∧
    (rRun g {} ops).1.at 0 = [1, 2] ∧ (rRun g {} ops).2 = [.ref 0, .done, .ref 2] := by
  decide +kernel

end HcipyVerif.Detector.Old
