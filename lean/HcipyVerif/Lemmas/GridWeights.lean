import HcipyVerif.Lemmas.GridGeom
import Mathlib.Algebra.Order.Field.Basic
import Mathlib.Tactic.LinearCombination

/-! Helper lemmas for C11: weights under scale / shift / reverse. -/
set_option linter.unusedSimpArgs false
set_option linter.unusedVariables false
set_option linter.dupNamespace false

namespace HcipyVerif.Grid

theorem absQ_eq_abs (x : Rat) : absQ x = |x| := by
  unfold absQ
  split
  · rw [abs_of_nonneg ‹_›]
  · rw [abs_of_neg (by linarith)]

theorem absQ_mul (x y : Rat) : absQ (x * y) = absQ x * absQ y := by simp [absQ_eq_abs, abs_mul]
theorem absQ_neg (x : Rat) : absQ (-x) = absQ x := by simp [absQ_eq_abs]
theorem absQ_nonneg (x : Rat) : 0 ≤ absQ x := by simp [absQ_eq_abs]
theorem absQ_div_nat (x : Rat) (n : Nat) : absQ (x / (n : Rat)) = absQ x / (n : Rat) := by
  simp [absQ_eq_abs, abs_div]

theorem ratProd_map_absQ (l : List Rat) : ratProd (l.map absQ) = absQ (ratProd l) := by
  induction l with
  | nil => simp [ratProd, absQ]
  | cons x xs ih => simp [ratProd, ih, absQ_mul]

theorem jac_replicate (n : Nat) (s : Rat) : jac (List.replicate n s) = absQ s ^ n := by
  induction n with
  | zero => simp [jac, ratProd]
  | succ n ih =>
    simp only [jac, List.replicate_succ, List.map_cons, ratProd] at ih ⊢
    rw [ih]; ring

/-- the scalar and the vector branch of `CartesianGrid.scale` apply the same factor -/
theorem weightFactor_eq_jac (s : ScaleArg) (n : Nat) : s.weightFactor n = jac (s.factors n) := by
  cases s <;> simp [ScaleArg.weightFactor, ScaleArg.factors, jac_replicate]

/-! ### per-axis weights -/

theorem getR_map (g : Rat → Rat) (hg : g 0 = 0) (x : List Rat) (i : Nat) : getR (x.map g) i = g (getR x i) := by
  unfold getR
  rcases Nat.lt_or_ge i x.length with h | h
  · simp [List.getD_eq_getElem?_getD, List.getElem?_eq_getElem h]
  · simp [List.getD_eq_getElem?_getD, List.getElem?_eq_none h, hg]

theorem getR_map_lt (g : Rat → Rat) (x : List Rat) (i : Nat) (h : i < x.length) : getR (x.map g) i = g (getR x i) := by
  unfold getR
  simp [List.getD_eq_getElem?_getD, List.getElem?_eq_getElem h]

theorem axisWSigned_scale (x : List Rat) (f : Rat) : axisWSigned (x.map (· * f)) = (axisWSigned x).map (· * f) := by
  simp only [axisWSigned, List.length_map, List.map_map]
  apply List.map_congr_left
  intro k _
  simp only [Function.comp, getR_map (· * f) (by simp)]
  ring

theorem axisW_scale (x : List Rat) (f : Rat) : axisW (x.map (· * f)) = (axisW x).map (· * absQ f) := by
  simp only [axisW, axisWSigned_scale, List.map_map]
  apply List.map_congr_left
  intro w _
  simp [absQ_mul]

theorem axisWSigned_shift (x : List Rat) (b : Rat) : axisWSigned (x.map (· + b)) = axisWSigned x := by
  simp only [axisWSigned, List.length_map]
  apply List.map_congr_left
  intro k hk
  have hk' : k < x.length := by simpa using hk
  rw [getR_map_lt _ _ _ (by omega), getR_map_lt _ _ _ (by omega)]
  ring

theorem axisW_shift (x : List Rat) (b : Rat) : axisW (x.map (· + b)) = axisW x := by
  simp [axisW, axisWSigned_shift]

theorem getR_reverse (x : List Rat) (i : Nat) (h : i < x.length) : getR x.reverse i = getR x (x.length - 1 - i) := by
  unfold getR
  simp [List.getD_eq_getElem?_getD, List.getElem?_reverse h]

theorem axisWSigned_reverse (x : List Rat) : axisWSigned x.reverse = ((axisWSigned x).map (fun w => -w)).reverse := by
  apply List.ext_getElem
  · simp [axisWSigned]
  · intro k h1 h2
    have hk : k < x.length := by simpa [axisWSigned] using h1
    simp only [axisWSigned, List.length_reverse, List.getElem_map, List.getElem_range, List.getElem_reverse,
      List.length_map, List.length_range, List.map_map]
    rw [getR_reverse _ _ (by omega), getR_reverse _ _ (by omega)]
    have e1 : x.length - 1 - min (k + 1) (x.length - 1) = x.length - 1 - k - 1 := by omega
    have e2 : x.length - 1 - (k - 1) = min (x.length - 1 - k + 1) (x.length - 1) := by omega
    have e3 : min (k + 1) (x.length - 1) - (k - 1) =
        min (x.length - 1 - k + 1) (x.length - 1) - (x.length - 1 - k - 1) := by omega
    rw [e1, e2, e3]
    simp only [Function.comp]
    ring

theorem axisW_reverse (x : List Rat) : axisW x.reverse = (axisW x).reverse := by
  simp only [axisW, axisWSigned_reverse, List.map_reverse, List.map_map]
  congr 1
  apply List.map_congr_left
  intro w _
  simp [absQ_neg]


/-! ### tensor products of per-axis weights -/

theorem tensorPoints_length_mem : ∀ (axes : List (List Rat)) (p : List Rat), p ∈ tensorPoints axes → p.length = axes.length
  | [], p, h => by simp [tensorPoints] at h; simp [h]
  | ax :: rest, p, h => by
    simp only [tensorPoints, List.mem_flatMap, List.mem_map] at h
    obtain ⟨q, hq, x, _, rfl⟩ := h
    simp [tensorPoints_length_mem rest q hq]

theorem ratProd_applyAx_mul : ∀ (f p : List Rat), p.length = f.length →
    ratProd (applyAx (f.map fun fi x => x * fi) p) = ratProd p * ratProd f
  | [], [], _ => by simp [applyAx, ratProd]
  | [], _ :: _, h => by simp at h
  | _ :: _, [], h => by simp at h
  | fi :: f, x :: p, h => by
    simp only [List.map_cons, applyAx_cons, ratProd, ratProd_applyAx_mul f p (by simpa using h)]
    ring

theorem tensorW_scale (ws : List (List Rat)) (f : List Rat) (h : f.length = ws.length) :
    tensorW (List.zipWith (fun w fi => w.map (· * fi)) ws f) = (tensorW ws).map (· * ratProd f) := by
  unfold tensorW
  rw [zipWith_fun_map ws f (fun fi x => x * fi), tensorPoints_map _ _ (by simpa using h), List.map_map, List.map_map]
  apply List.map_congr_left
  intro p hp
  simp only [Function.comp]
  exact ratProd_applyAx_mul f p (by rw [tensorPoints_length_mem ws p hp, h])

theorem tensorW_reverse (ws : List (List Rat)) : tensorW (ws.map List.reverse) = (tensorW ws).reverse := by
  simp [tensorW, tensorPoints_reverse]

theorem tensorPoints_length : ∀ (axes : List (List Rat)), (tensorPoints axes).length = natProd (axes.map List.length)
  | [] => by simp [tensorPoints, natProd]
  | ax :: rest => by
    simp only [tensorPoints, List.length_flatMap, List.length_map, List.map_cons, natProd]
    rw [List.map_const', List.sum_replicate, tensorPoints_length rest]
    simp [Nat.mul_comm]

/-! ### automatic weights -/

theorem map_axisW_scale : ∀ (a : List (List Rat)) (f : List Rat),
    (List.zipWith (fun ax fi => ax.map (· * fi)) a f).map axisW =
      List.zipWith (fun w fi => w.map (· * fi)) (a.map axisW) (f.map absQ)
  | [], _ => by simp
  | _ :: _, [] => by simp
  | ax :: a, fi :: f => by simp [map_axisW_scale a f, axisW_scale]

theorem all_len_scale : ∀ (a : List (List Rat)) (f : List Rat), f.length = a.length →
    (List.zipWith (fun ax fi => ax.map (· * fi)) a f).all (fun ax => decide (2 ≤ ax.length)) =
      a.all (fun ax => decide (2 ≤ ax.length))
  | [], [], _ => rfl
  | [], _ :: _, h => by simp at h
  | _ :: _, [], h => by simp at h
  | ax :: a, fi :: f, h => by simp [all_len_scale a f (by simpa using h)]

theorem all_len_shift : ∀ (a : List (List Rat)) (b : List Rat), b.length = a.length →
    (List.zipWith (fun ax bi => ax.map (· + bi)) a b).all (fun ax => decide (2 ≤ ax.length)) =
      a.all (fun ax => decide (2 ≤ ax.length))
  | [], [], _ => rfl
  | [], _ :: _, h => by simp at h
  | _ :: _, [], h => by simp at h
  | ax :: a, bi :: b, h => by simp [all_len_shift a b (by simpa using h)]

theorem map_axisW_shift : ∀ (a : List (List Rat)) (b : List Rat), b.length = a.length →
    (List.zipWith (fun ax bi => ax.map (· + bi)) a b).map axisW = a.map axisW
  | [], [], _ => rfl
  | [], _ :: _, h => by simp at h
  | _ :: _, [], h => by simp at h
  | ax :: a, bi :: b, h => by simp [map_axisW_shift a b (by simpa using h), axisW_shift]

theorem ratProd_delta_scale : ∀ (a : List RegAxis) (f : List Rat), f.length = a.length →
    ratProd ((List.zipWith (fun x fi => ({ x with delta := x.delta * fi, zero := x.zero * fi } : RegAxis)) a f).map (·.delta)) =
      ratProd (a.map (·.delta)) * ratProd f
  | [], [], _ => by simp [ratProd]
  | [], _ :: _, h => by simp at h
  | _ :: _, [], h => by simp at h
  | x :: a, fi :: f, h => by
    simp only [List.zipWith_cons_cons, List.map_cons, ratProd, ratProd_delta_scale a f (by simpa using h)]
    ring

theorem delta_shift : ∀ (a : List RegAxis) (b : List Rat), b.length = a.length →
    (List.zipWith (fun x bi => ({ x with zero := x.zero + bi } : RegAxis)) a b).map (·.delta) = a.map (·.delta)
  | [], [], _ => rfl
  | [], _ :: _, h => by simp at h
  | _ :: _, [], h => by simp at h
  | x :: a, bi :: b, h => by simp [delta_shift a b (by simpa using h)]

theorem ratProd_delta_reverse : ∀ (a : List RegAxis),
    absQ (ratProd ((a.map RegAxis.reverse).map (·.delta))) = absQ (ratProd (a.map (·.delta)))
  | [] => rfl
  | x :: a => by
    simp only [List.map_cons, ratProd, absQ_mul, ratProd_delta_reverse a, RegAxis.reverse, absQ_neg]

/-- **History independence, scale**: computing the automatic weights of the scaled coordinates gives
the automatic weights times `Π|f_i|` (regular and separated Cartesian coordinates). -/
theorem autoWeights_scale (c : Coords) (f : List Rat) (h : f.length = c.ndim) (hk : c.kind ≠ 2) :
    autoWeights .cartesian (c.scale f) = (autoWeights .cartesian c).map (Weights.mul (jac f)) := by
  cases c with
  | regular a =>
    simp only [Coords.scale, autoWeights, Option.map_some, Weights.mul, jac, ratProd_map_absQ]
    rw [ratProd_delta_scale a f (by simpa [Coords.ndim] using h), absQ_mul]
  | separated a =>
    have hl : f.length = a.length := by simpa [Coords.ndim] using h
    simp only [Coords.scale, autoWeights, all_len_scale a f hl]
    split
    · simp only [Option.map_some, Weights.mul, map_axisW_scale, jac]
      rw [tensorW_scale _ _ (by simp [hl])]
    · rfl
  | unstructured c => exact absurd rfl hk

theorem autoWeights_shift (s : System) (c : Coords) (b : List Rat) (h : b.length = c.ndim) :
    autoWeights s (c.shift b) = autoWeights s c := by
  cases s with
  | polar => rfl
  | cartesian =>
    cases c with
    | regular a =>
      simp only [Coords.shift, autoWeights, delta_shift a b (by simpa [Coords.ndim] using h)]
    | separated a =>
      have hl : b.length = a.length := by simpa [Coords.ndim] using h
      simp only [Coords.shift, autoWeights, all_len_shift a b hl, map_axisW_shift a b hl]
    | unstructured c => rfl

theorem autoWeights_reverse (s : System) (c : Coords) :
    autoWeights s c.reverse = (autoWeights s c).map Weights.reverse := by
  cases s with
  | polar => rfl
  | cartesian =>
    cases c with
    | regular a =>
      have := ratProd_delta_reverse a
      rw [List.map_map] at this
      simp [Coords.reverse, autoWeights, this, Weights.reverse]
    | separated a =>
      simp only [Coords.reverse, autoWeights, List.all_map]
      have : (fun ax : List Rat => decide (2 ≤ ax.length)) ∘ List.reverse = fun ax => decide (2 ≤ ax.length) := by
        funext ax; simp
      rw [this]
      split
      · simp only [Option.map_some, Weights.reverse, List.map_map]
        have : axisW ∘ List.reverse = List.reverse ∘ axisW := by funext ax; simp [axisW_reverse]
        rw [this, ← List.map_map, tensorW_reverse]
      · rfl
    | unstructured c => rfl


/-! ### sizes are preserved -/

theorem dims_scale : ∀ (a : List RegAxis) (f : List Rat), f.length = a.length →
    (List.zipWith (fun x fi => ({ x with delta := x.delta * fi, zero := x.zero * fi } : RegAxis)) a f).map (·.dim) = a.map (·.dim)
  | [], [], _ => rfl
  | [], _ :: _, h => by simp at h
  | _ :: _, [], h => by simp at h
  | x :: a, fi :: f, h => by simp [dims_scale a f (by simpa using h)]

theorem dims_shift : ∀ (a : List RegAxis) (b : List Rat), b.length = a.length →
    (List.zipWith (fun x bi => ({ x with zero := x.zero + bi } : RegAxis)) a b).map (·.dim) = a.map (·.dim)
  | [], [], _ => rfl
  | [], _ :: _, h => by simp at h
  | _ :: _, [], h => by simp at h
  | x :: a, bi :: b, h => by simp [dims_shift a b (by simpa using h)]

theorem lens_zipWith_map (k : Rat → Rat → Rat) : ∀ (a : List (List Rat)) (f : List Rat), f.length = a.length →
    (List.zipWith (fun ax fi => ax.map (k fi)) a f).map List.length = a.map List.length
  | [], [], _ => rfl
  | [], _ :: _, h => by simp at h
  | _ :: _, [], h => by simp at h
  | x :: a, fi :: f, h => by simp [lens_zipWith_map k a f (by simpa using h)]

theorem Coords.size_scale (c : Coords) (f : List Rat) (h : f.length = c.ndim) : (c.scale f).size = c.size := by
  cases c with
  | regular a => simp only [Coords.scale, Coords.size, dims_scale a f (by simpa [Coords.ndim] using h)]
  | separated a =>
    simp only [Coords.scale, Coords.size]
    rw [lens_zipWith_map (fun fi x => x * fi) a f (by simpa [Coords.ndim] using h)]
  | unstructured c =>
    simp only [Coords.scale, Coords.size]
    rw [zipWith_fun_map c f (fun fi x => x * fi), headD_zipWith_map_length _ _ (by simpa [Coords.ndim] using h)]

theorem Coords.size_shift (c : Coords) (b : List Rat) (h : b.length = c.ndim) : (c.shift b).size = c.size := by
  cases c with
  | regular a => simp only [Coords.shift, Coords.size, dims_shift a b (by simpa [Coords.ndim] using h)]
  | separated a =>
    simp only [Coords.shift, Coords.size]
    rw [lens_zipWith_map (fun bi x => x + bi) a b (by simpa [Coords.ndim] using h)]
  | unstructured c =>
    simp only [Coords.shift, Coords.size]
    rw [zipWith_fun_map c b (fun bi x => x + bi), headD_zipWith_map_length _ _ (by simpa [Coords.ndim] using h)]

theorem Coords.size_reverse (c : Coords) : c.reverse.size = c.size := by
  cases c with
  | regular a => simp [Coords.reverse, Coords.size, RegAxis.reverse, Function.comp_def]
  | separated a => simp [Coords.reverse, Coords.size, Function.comp_def]
  | unstructured c => cases c <;> simp [Coords.reverse, Coords.size]

theorem Weights.toList_mul (n : Nat) (k : Rat) (w : Weights) : (w.mul k).toList n = (w.toList n).map (· * k) := by
  cases w <;> simp [Weights.mul, Weights.toList]

theorem Weights.toList_reverse (n : Nat) (w : Weights) : w.reverse.toList n = (w.toList n).reverse := by
  cases w <;> simp [Weights.reverse, Weights.toList]

theorem autoWeights_ne_none (s : System) (c : Coords) (w : Weights) (h : autoWeights s c = some w) : w ≠ .none := by
  cases s <;> cases c <;> simp only [autoWeights] at h
  all_goals first
    | (injection h with h; subst h; simp)
    | (split at h
       · injection h with h; subst h; simp
       · simp at h)


/-! ### moved from the property file: weights getter, area, sampling, origin -/

theorem Grid.getWeights_ne_none (g : Grid) (w : Weights) (h : g.getWeights = some w) : w ≠ .none := by
  unfold Grid.getWeights at h
  cases hw : g.weights with
  | none => rw [hw] at h; exact autoWeights_ne_none _ _ _ h
  | scalar x => rw [hw] at h; injection h with h; subst h; simp
  | array x => rw [hw] at h; injection h with h; subst h; simp

theorem Grid.getWeights_stored (g : Grid) (h : g.weights ≠ .none) : g.getWeights = some g.weights := by
  unfold Grid.getWeights
  cases hw : g.weights with
  | none => exact absurd hw h
  | scalar x => rfl
  | array x => rfl

theorem ratSum_replicate (n : Nat) (w : Rat) : ratSum (List.replicate n w) = (n : Rat) * w := by
  induction n with
  | zero => simp [ratSum]
  | succ n ih => simp only [List.replicate_succ, ratSum, ih]; push_cast; ring

theorem area_prod : ∀ (a : List RegAxis),
    ((natProd (a.map (·.dim)) : Nat) : Rat) * ratProd ((a.map (·.delta)).map absQ) =
      ratProd (a.map fun x => (x.dim : Rat) * absQ x.delta)
  | [] => by simp [natProd, ratProd]
  | x :: a => by
    have ih := area_prod a
    simp only [List.map_cons, natProd, ratProd] at ih ⊢
    rw [← ih]; push_cast; ring

theorem sub_super_axis (k : Nat) (hk : 1 ≤ k) (a : RegAxis) : (a.supersample k).subsample k = a := by
  have hk0 : (k : Rat) ≠ 0 := by exact_mod_cast (by omega : k ≠ 0)
  cases a with
  | mk d n z =>
    simp only [RegAxis.supersample, RegAxis.subsample, RegAxis.mk.injEq]
    refine ⟨by field_simp, Nat.mul_div_cancel n (by omega), by field_simp; ring⟩

theorem centred_zero_mem (δ : Rat) (n : Nat) (hn : 1 ≤ n) : (0 : Rat) ∈ (centredAxis δ n 0).values := by
  simp only [RegAxis.values, centredAxis, List.mem_map, List.mem_range]
  refine ⟨n / 2, Nat.div_lt_self (by omega) (by omega), ?_⟩
  have hn2 : (n : Rat) = 2 * ((n / 2 : Nat) : Rat) + ((n % 2 : Nat) : Rat) := by
    exact_mod_cast (Nat.div_add_mod n 2).symm
  linear_combination (-δ / 2) * hn2

theorem origin_mem : ∀ (axes : List (List Rat)), (∀ ax ∈ axes, (0 : Rat) ∈ ax) →
    List.replicate axes.length 0 ∈ tensorPoints axes
  | [], _ => by simp [tensorPoints]
  | ax :: rest, h => by
    simp only [tensorPoints, List.length_cons, List.replicate_succ, List.mem_flatMap, List.mem_map]
    exact ⟨_, origin_mem rest (fun a ha => h a (by simp [ha])), 0, h ax (by simp), rfl⟩

theorem truncNat_pos (x : Rat) (h : 1 ≤ x) : 1 ≤ truncNat x := by
  unfold truncNat
  have : (1 : Int) ≤ x.floor := Rat.le_floor_iff.mpr (by simpa using h)
  omega

theorem ratSum_append (a b : List Rat) : ratSum (a ++ b) = ratSum a + ratSum b := by
  induction a with
  | nil => simp [ratSum]
  | cons x xs ih => simp only [List.cons_append, ratSum, ih]; ring

theorem ratSum_map_mul (l : List Rat) (k : Rat) : ratSum (l.map (· * k)) = ratSum l * k := by
  induction l with
  | nil => simp [ratSum]
  | cons x xs ih => simp only [List.map_cons, ratSum, ih]; ring

theorem uniform_center_mem (n : Nat) (e c : Rat) (hn : 1 ≤ n) : c ∈ (uniformAxis n e c true).values := by
  have hn0 : (n : Rat) ≠ 0 := by exact_mod_cast (by omega : n ≠ 0)
  simp only [RegAxis.values, uniformAxis, List.mem_map, List.mem_range, if_true]
  refine ⟨n / 2, Nat.div_lt_self (by omega) (by omega), ?_⟩
  have hn2 : (n : Rat) = 2 * ((n / 2 : Nat) : Rat) + ((n % 2 : Nat) : Rat) := by
    exact_mod_cast (Nat.div_add_mod n 2).symm
  field_simp
  linear_combination (-e) * hn2

/-- a point whose `i`-th coordinate lies on axis `i` is a point of the tensor grid -/
theorem tensor_mem : ∀ (axes : List (List Rat)) (p : List Rat), List.Forall₂ (fun x ax => x ∈ ax) p axes →
    p ∈ tensorPoints axes
  | [], _, h => by cases h; simp [tensorPoints]
  | ax :: rest, _, h => by
    cases h with
    | cons hx hrest =>
      simp only [tensorPoints, List.mem_flatMap, List.mem_map]
      exact ⟨_, tensor_mem rest _ hrest, _, hx, rfl⟩

end HcipyVerif.Grid
