import HcipyVerif.Lemmas.SchedulerHist
import HcipyVerif.Lemmas.SchedulerTerm

/-! Helper lemmas for C20, round 4: the weak queue invariant `InvQ` (reachable by *every* history),
fuel independence, divergence, the exact final clock, `sortedB`. -/
set_option linter.unusedSimpArgs false
set_option linter.unusedVariables false

namespace HcipyVerif.Scheduler

/-! ### `InvQ`: what `add_callback` guarantees whatever times it is given -/

/-- The queue invariant that needs no assumption on the scheduled times: sorted by `(time, counter)`
and every counter below the next one.  (`Inv` adds "nothing is queued before the clock".) -/
structure InvQ (s : Sys) : Prop where
  sorted : Sorted s.queue
  ctr : ∀ q ∈ s.queue, q.ctr < s.ctr

theorem Inv.toQ {s : Sys} (h : Inv s) : InvQ s := ⟨h.sorted, h.ctr⟩

theorem invQ_init : InvQ init := ⟨by simp [init, Sorted], by simp [init]⟩

theorem invQ_addCallback {s : Sys} (h : InvQ s) (time : Rat) (id : Nat) :
    InvQ (addCallback s time id) := by
  refine ⟨?_, ?_⟩
  · exact sorted_insert h.sorted (fun q hq => by have := h.ctr q hq; simp; omega)
  · intro q hq
    rcases mem_insert.mp hq with rfl | hq
    · simp [addCallback]
    · have := h.ctr q hq; simp [addCallback]; omega

theorem invQ_addAll {s : Sys} (h : InvQ s) (l : List (Rat × Nat)) : InvQ (addAll s l) := by
  induction l generalizing s with
  | nil => exact h
  | cons c cs ih => obtain ⟨a, b⟩ := c; exact ih (invQ_addCallback h a b)

theorem next_invQ {kids : Entry → List (Rat × Nat)} {s : Sys} {e : Entry} {rest : List Entry}
    (hi : InvQ s) (hq : s.queue = e :: rest) : InvQ (next kids s e rest) := by
  have hs := hi.sorted; rw [hq] at hs
  unfold Sorted at hs; rw [List.pairwise_cons] at hs
  apply invQ_addAll
  refine ⟨?_, ?_⟩
  · rw [advance_queue]; exact hs.2
  · rw [advance_queue, advance_ctr]; intro q hq'; exact hi.ctr q (by simp [hq, hq'])

/-- `InvQ` survives the loop whatever the callbacks do and whatever its status. -/
theorem loop_invQ (kids : Entry → List (Rat × Nat)) (T : Rat) (fuel : Nat) (s : Sys) (hi : InvQ s) :
    InvQ (loop kids T fuel s).s := by
  induction fuel generalizing s with
  | zero => exact hi
  | succ fuel ih =>
    match hq : s.queue with
    | [] =>
      rw [loop_stop (Or.inl hq)]
      exact ⟨by rw [advance_queue]; exact hi.sorted, by rw [advance_queue, advance_ctr]; exact hi.ctr⟩
    | e :: rest =>
      by_cases ht : e.time < T
      · rw [loop_cons_s hq ht]; exact ih _ (next_invQ hi hq)
      · rw [loop_stop (Or.inr ⟨e, rest, hq, ht⟩)]
        exact ⟨by rw [advance_queue]; exact hi.sorted, by rw [advance_queue, advance_ctr]; exact hi.ctr⟩

/-- With a sorted queue and status ok, whatever is left in the queue is due at or after the horizon
(the probe of the audit: no `WF`, no `.future`, no `s.t ≤ T`). -/
theorem loop_queue_ge (kids : Entry → List (Rat × Nat)) (T : Rat) (fuel : Nat) (s : Sys) (hi : InvQ s)
    (hok : (loop kids T fuel s).status = .ok) : ∀ q ∈ (loop kids T fuel s).s.queue, T ≤ q.time := by
  induction fuel generalizing s with
  | zero => simp [loop] at hok
  | succ fuel ih =>
    match hq : s.queue with
    | [] => rw [loop_stop (Or.inl hq)]; simp [advance_queue, hq]
    | e :: rest =>
      by_cases ht : e.time < T
      · simp only [loop_cons_status hq ht, loop_cons_s hq ht] at hok ⊢
        exact ih _ (next_invQ hi hq) hok
      · rw [loop_stop (Or.inr ⟨e, rest, hq, ht⟩)]
        rw [advance_queue]; intro q hq'
        have hs := hi.sorted; rw [hq] at hs
        unfold Sorted at hs; rw [List.pairwise_cons] at hs
        rw [hq] at hq'
        push Not at ht
        rcases List.mem_cons.mp hq' with rfl | h
        · exact ht
        · exact le_trans ht (Entry.time_le_of_lt (hs.1 q h))

/-- Whatever runs was due strictly before the horizon — no hypothesis. -/
theorem fired_lt_horizon (kids : Entry → List (Rat × Nat)) (T : Rat) (fuel : Nat) (s : Sys) :
    ∀ f ∈ fired (loop kids T fuel s).trace, f.time < T := by
  induction fuel generalizing s with
  | zero => simp [loop, fired]
  | succ fuel ih =>
    match hq : s.queue with
    | [] => rw [loop_stop (Or.inl hq)]; simp [advance_fired]
    | e :: rest =>
      by_cases ht : e.time < T
      · simp only [loop_cons_trace hq ht, fired_append, advance_fired, fired, List.nil_append,
          List.mem_cons]
        rintro f (rfl | hf)
        · exact ht
        · exact ih _ f hf
      · rw [loop_stop (Or.inr ⟨e, rest, hq, ht⟩)]; simp [advance_fired]

theorem nodup_queue_spawnedQ {kids : Entry → List (Rat × Nat)} {s : Sys} (hi : InvQ s) (l : List Entry) :
    (s.queue ++ spawned kids s.ctr l).Nodup := by
  rw [List.nodup_append]
  refine ⟨hi.sorted.nodup, ?_, ?_⟩
  · apply nodup_of_ctr_nodup; rw [spawned_ctr]; exact List.nodup_range'
  · intro a ha b hb hab
    subst hab
    have h1 := hi.ctr a ha
    have h2 := (mem_spawned hb).2
    omega

/-- the clock never passes the target, and with status ok it ends within `eps` below it — only
`s.t ≤ T` is needed (entries may lie in the past, callbacks may schedule into the past) -/
theorem loop_clock_end (kids : Entry → List (Rat × Nat)) (T : Rat) (fuel : Nat) (s : Sys) (hT : s.t ≤ T) :
    (loop kids T fuel s).s.t ≤ T ∧
      ((loop kids T fuel s).status = .ok → T - (loop kids T fuel s).s.t ≤ eps) := by
  induction fuel generalizing s with
  | zero => exact ⟨hT, by simp [loop]⟩
  | succ fuel ih =>
    match hq : s.queue with
    | [] => rw [loop_stop (Or.inl hq)]; exact ⟨(advance_lag s T hT).1, fun _ => (advance_lag s T hT).2⟩
    | e :: rest =>
      by_cases ht : e.time < T
      · simp only [loop_cons_status hq ht, loop_cons_s hq ht]
        apply ih
        simp only [next, addAll_t]
        unfold advance; split
        · simp; linarith
        · exact hT
      · rw [loop_stop (Or.inr ⟨e, rest, hq, ht⟩)]
        exact ⟨(advance_lag s T hT).1, fun _ => (advance_lag s T hT).2⟩

/-! ### fuel independence -/

theorem loop_cons {kids T fuel s e rest} (hq : s.queue = e :: rest) (ht : e.time < T) :
    loop kids T (fuel + 1) s =
      { loop kids T fuel (next kids s e rest) with
        trace := (advance { s with queue := rest } (e.time - s.t)).2 ++
          Event.fire e (advance { s with queue := rest } (e.time - s.t)).1.t ::
          (loop kids T fuel (next kids s e rest)).trace } := by
  simp only [loop, hq, ht, if_true, next]

/-- **Fuel independence**: once the fuel suffices, more fuel changes nothing — status, state and
trace are the same. -/
theorem loop_fuel_mono' (kids : Entry → List (Rat × Nat)) (T : Rat) (f : Nat) (s : Sys)
    (hok : (loop kids T f s).status = .ok) : ∀ k, loop kids T (f + k) s = loop kids T f s := by
  induction f generalizing s with
  | zero => simp [loop] at hok
  | succ f ih =>
    intro k
    have hk : f + 1 + k = (f + k) + 1 := by omega
    rw [hk]
    match hq : s.queue with
    | [] => rw [loop_stop (Or.inl hq), loop_stop (Or.inl hq)]
    | e :: rest =>
      by_cases ht : e.time < T
      · rw [loop_cons_status hq ht] at hok
        rw [loop_cons hq ht, loop_cons hq ht, ih _ hok k]
      · rw [loop_stop (Or.inr ⟨e, rest, hq, ht⟩), loop_stop (Or.inr ⟨e, rest, hq, ht⟩)]

theorem evolveUntil_fuel_mono' (kids : Entry → List (Rat × Nat)) (f : Nat) (s : Sys) (T : Rat)
    (hf : (evolveUntil kids f s T).status ≠ .outOfFuel) :
    ∀ k, evolveUntil kids (f + k) s T = evolveUntil kids f s T := by
  intro k
  by_cases hT : T < s.t
  · simp [evolveUntil, hT]
  · simp only [evolveUntil, hT, if_false] at hf ⊢
    rcases loop_status kids T f s with h | h
    · exact loop_fuel_mono' kids T f s h k
    · exact absurd h hf

theorem stepOp_fuel_mono' (kids : Entry → List (Rat × Nat)) (f : Nat) (h : Hist) (op : Op)
    (hf : ∀ T, op = .evolve T → (evolveUntil kids f h.s T).status ≠ .outOfFuel) :
    ∀ k, stepOp kids (f + k) h op = stepOp kids f h op := by
  intro k
  cases op with
  | add t id => rfl
  | evolve T => simp only [stepOp, evolveUntil_fuel_mono' kids f h.s T (hf T rfl) k]

theorem noFuelOut_prefix {kids : Entry → List (Rat × Nat)} {f : Nat} {a b : List Op}
    (h : NoFuelOut kids f (a ++ b)) : NoFuelOut kids f a := by
  intro pre T post he
  exact h pre T (post ++ b) (by simp [he])

/-- a history all of whose evolutions return with fuel `f` is, step for step, the same history with
any larger fuel — and all its evolutions still return -/
theorem runOps_fuel_mono' (kids : Entry → List (Rat × Nat)) (f : Nat) (ops : List Op)
    (hf : NoFuelOut kids f ops) :
    ∀ k, runOps kids (f + k) hinit ops = runOps kids f hinit ops ∧ NoFuelOut kids (f + k) ops := by
  intro k
  induction ops using List.reverseRecOn with
  | nil => exact ⟨rfl, noFuelOut_nil _ _⟩
  | append_singleton ops op ih =>
    cases op with
    | add t id =>
      obtain ⟨h1, h2⟩ := ih (noFuelOut_snoc_add.mp hf)
      refine ⟨?_, noFuelOut_snoc_add.mpr h2⟩
      rw [runOps_snoc, runOps_snoc, h1]; rfl
    | evolve T =>
      obtain ⟨hf1, hf2⟩ := noFuelOut_snoc_evolve.mp hf
      obtain ⟨h1, h2⟩ := ih hf1
      have h3 := evolveUntil_fuel_mono' kids f (runOps kids f hinit ops).s T hf2 k
      refine ⟨?_, noFuelOut_snoc_evolve.mpr ⟨h2, ?_⟩⟩
      · rw [runOps_snoc, runOps_snoc, h1]
        exact stepOp_fuel_mono' kids f _ _ (fun T' hT' => by cases hT'; exact hf2) k
      · rw [h1, h3]; exact hf2

/-- enough fuel for every evolution of a history exists as soon as each single evolution, from the
state it starts in, returns for *some* fuel -/
theorem exists_fuel_of_each (kids : Entry → List (Rat × Nat))
    (hterm : ∀ (s : Sys) (T : Rat), ∃ f, (loop kids T f s).status = .ok) (ops : List Op) :
    ∃ fuel, NoFuelOut kids fuel ops := by
  induction ops using List.reverseRecOn with
  | nil => exact ⟨0, noFuelOut_nil _ _⟩
  | append_singleton ops op ih =>
    obtain ⟨f, hf⟩ := ih
    cases op with
    | add t id => exact ⟨f, noFuelOut_snoc_add.mpr hf⟩
    | evolve T =>
      obtain ⟨f', hf'⟩ := hterm (runOps kids f hinit ops).s T
      refine ⟨f + f', noFuelOut_snoc_evolve.mpr ?_⟩
      obtain ⟨h1, h2⟩ := runOps_fuel_mono' kids f ops hf f'
      refine ⟨h2, ?_⟩
      rw [h1]
      by_cases hT : T < (runOps kids f hinit ops).s.t
      · simp [evolveUntil, hT]
      · simp only [evolveUntil, hT, if_false]
        have := loop_fuel_mono' kids T f' _ hf' f
        rw [Nat.add_comm f f', this, hf']
        decide

/-! ### divergence -/

/-- the callback behaviour "re-insert yourself for the very same instant" -/
def selfNow : Entry → List (Rat × Nat) := fun e => [(e.time, e.id)]

/-- a single queued callback due before the horizon that re-inserts itself at zero delay exhausts
every fuel -/
theorem selfNow_diverges (T : Rat) (fuel : Nat) (s : Sys) (e : Entry) (hq : s.queue = [e])
    (ht : e.time < T) : (loop selfNow T fuel s).status = .outOfFuel ∧
      (fired (loop selfNow T fuel s).trace).length = fuel := by
  induction fuel generalizing s e with
  | zero => simp [loop, fired]
  | succ fuel ih =>
    have hn : (next selfNow s e []).queue = [⟨e.time, s.ctr, e.id⟩] := by
      simp [next, selfNow, addAll, addCallback, advance_queue, advance_ctr, insert]
    obtain ⟨h1, h2⟩ := ih (next selfNow s e []) ⟨e.time, s.ctr, e.id⟩ hn ht
    refine ⟨by rw [loop_cons_status hq ht]; exact h1, ?_⟩
    rw [loop_cons_trace hq ht]
    simp only [fired_append, advance_fired, fired, List.nil_append, List.length_cons, h2]

/-! ### the exact final clock -/

theorem lastFireClock_append_fire (t : Rat) (a b : List Event) (e : Entry) (clk : Rat) :
    lastFireClock t (a ++ Event.fire e clk :: b) = lastFireClock clk b := by
  induction a generalizing t with
  | nil => rfl
  | cons x xs ih => cases x <;> simp [lastFireClock, ih]

theorem lastFireClock_advance (s : Sys) (dt : Rat) : lastFireClock s.t (advance s dt).2 = s.t := by
  unfold advance; split <;> simp [lastFireClock]

/-- **The final clock, exactly**: with `c` the clock shown to the last callback that ran (the initial
clock if none ran), the evolution ends at `T` if the remaining stretch `T - c` exceeds the
threshold, and at `c` otherwise.  No hypothesis beyond status ok. -/
theorem loop_final_clock (kids : Entry → List (Rat × Nat)) (T : Rat) (fuel : Nat) (s : Sys)
    (hok : (loop kids T fuel s).status = .ok) :
    (loop kids T fuel s).s.t =
      if eps < T - lastFireClock s.t (loop kids T fuel s).trace then T
      else lastFireClock s.t (loop kids T fuel s).trace := by
  induction fuel generalizing s with
  | zero => simp [loop] at hok
  | succ fuel ih =>
    have hstop : ((advance s (T - s.t)).1.t =
        if eps < T - lastFireClock s.t (advance s (T - s.t)).2 then T
        else lastFireClock s.t (advance s (T - s.t)).2) := by
      rw [lastFireClock_advance]
      unfold advance
      by_cases h : T - s.t > eps
      · rw [if_pos h, if_pos h]; simp
      · rw [if_neg h, if_neg h]
    match hq : s.queue with
    | [] => rw [loop_stop (Or.inl hq)]; exact hstop
    | e :: rest =>
      by_cases ht : e.time < T
      · rw [loop_cons_status hq ht] at hok
        rw [loop_cons_s hq ht, loop_cons_trace hq ht, lastFireClock_append_fire]
        have := ih _ hok
        simp only [next, addAll_t] at this
        exact this
      · rw [loop_stop (Or.inr ⟨e, rest, hq, ht⟩)]; exact hstop

/-! ### `sortedB` decides `Sorted` -/

theorem sortedB_iff (l : List Entry) : sortedB l = true ↔ Sorted l := by
  unfold Sorted
  induction l with
  | nil => simp [sortedB]
  | cons x xs ih =>
    cases xs with
    | nil => simp [sortedB]
    | cons y ys =>
      simp only [sortedB, Bool.and_eq_true, decide_eq_true_eq, ih]
      constructor
      · rintro ⟨hxy, hp⟩
        rw [List.pairwise_cons]
        refine ⟨?_, hp⟩
        intro q hq
        rcases List.mem_cons.mp hq with rfl | hq
        · exact hxy
        · exact Entry.lt_trans hxy ((List.pairwise_cons.mp hp).1 q hq)
      · intro hp
        rw [List.pairwise_cons] at hp
        exact ⟨hp.1 y (by simp), hp.2⟩

/-! ### `InvQ` for every history -/

/-- **Every** history of interface calls (adds in the past, callbacks scheduling into the past, fuel
running out, refused calls) leaves a state satisfying `InvQ`. -/
theorem history_invQ' (kids : Entry → List (Rat × Nat)) (fuel : Nat) (ops : List Op) :
    InvQ (runOps kids fuel hinit ops).s := by
  induction ops using List.reverseRecOn with
  | nil => exact invQ_init
  | append_singleton ops op ih =>
    rw [runOps_snoc]
    cases op with
    | add t id => exact invQ_addCallback ih t id
    | evolve T =>
      by_cases hT : T < (runOps kids fuel hinit ops).s.t
      · rw [stepOp_backwards kids fuel _ T hT]; exact ih
      · rw [stepOp_forward kids fuel _ T hT]; exact loop_invQ kids T fuel _ ih

/-! ### the threshold as a double -/

/-- a (generalised) IEEE-754 binary64 number: `m · 2^k` with `|m| < 2^53` (any exponent, so
subnormals and numbers beyond the exponent range are included) -/
def IsDouble (x : Rat) : Prop := ∃ (m : Int) (k : Int), m.natAbs < 2 ^ 53 ∧ x = m * (2 : Rat) ^ k

theorem eps_lt_decimal : eps < 1 / 1000000 := by unfold eps; norm_num

end HcipyVerif.Scheduler
