import Mathlib.Data.Fintype.BigOperators
import Mathlib.Algebra.BigOperators.Fin
import HcipyVerif.Lemmas.NearField
import HcipyVerif.Lemmas.FourierC02
import HcipyVerif.Model.FftIndex2

/-!
# C04 ← C01/C02: the `FourierPair` hypotheses hold for the DFT of the model

`Lemmas/NearField.lean` proves everything about `FourierFilter` from the structure `FourierPair`
(`F`, `Finv` linear, mutually inverse, `⟨y, F x⟩ = c ⟨F⁻¹ y, x⟩`).  Here that structure is *constructed*
from the specification of the FFT kernel used by C01/C02:

* `dftPair M hM : FourierPair (Fin M)` — `F = fft` (`Fft.dft M (kF M)`), `Finv = ifft`
  (`(1/M)·Fft.dft M (kB M)`), `c = M`;
* `FourierPair.prod` — the tensor product of two pairs (first axis, then second axis), `c = c₁·c₂`;
* `dftPair2 My Mx : FourierPair (Fin My × Fin Mx)` — `F = fftn` (`Fft.dft2`), `Finv = ifftn`, `c = My·Mx`
  (`dftPair2_F_eq_dft2`, `dftPair2_Finv_eq_dft2`).
-/

set_option linter.unusedSimpArgs false
set_option linter.unusedVariables false
set_option linter.unusedSectionVars false

open Finset Complex ComplexConjugate

namespace HcipyVerif.NearField

open HcipyVerif.Fft (expT expT_isChar expT_conj expT_period expT_prim char_sum_range sumRange_eq)

/-! ## one axis -/

/-- forward FFT kernel `exp(-2πi·n/M)` (`Cfg.kerF` at `T = expT`). -/
noncomputable def kF (M : ℕ) (n : ℤ) : ℂ := expT (-((n : ℝ) / (M : ℝ)))

/-- inverse FFT kernel `exp(+2πi·n/M)` (`Cfg.kerB` at `T = expT`). -/
noncomputable def kB (M : ℕ) (n : ℤ) : ℂ := expT ((n : ℝ) / (M : ℝ))

theorem kF_eq_kerF (g : Fft.Cfg ℝ ℂ) (n : ℤ) : g.kerF expT n = kF g.M n := rfl
theorem kB_eq_kerB (g : Fft.Cfg ℝ ℂ) (n : ℤ) : g.kerB expT n = kB g.M n := rfl

/-- An array of length `M` as a function on `ℕ` (value `0` outside; never read by `dft`). -/
noncomputable def ext {M : ℕ} (x : Fin M → ℂ) (n : ℕ) : ℂ := if h : n < M then x ⟨n, h⟩ else 0

theorem ext_fin {M : ℕ} (x : Fin M → ℂ) (p : Fin M) : ext x (p : ℕ) = x p := by
  unfold ext
  rw [dif_pos p.2]

/-- The DFT specification on an array of length `M`, as a sum over `Fin M`. -/
theorem dft_ext {M : ℕ} (ker : ℤ → ℂ) (x : Fin M → ℂ) (q : ℕ) :
    Fft.dft M ker (ext x) q = ∑ p : Fin M, x p * ker ((p : ℕ) * (q : ℤ)) := by
  unfold Fft.dft
  rw [sumRange_eq]
  let G : ℕ → ℂ := fun n => ext x n * ker ((n : ℤ) * (q : ℤ))
  have h := Fin.sum_univ_eq_sum_range G M
  show ∑ p ∈ range M, G p = _
  rw [← h]
  apply Finset.sum_congr rfl
  intro p _
  show ext x (p : ℕ) * _ = _
  rw [ext_fin]

theorem conj_kF (M : ℕ) (n : ℤ) : conj (kF M n) = kB M n := by
  unfold kF kB
  rw [expT_conj, neg_neg]

theorem conj_kB (M : ℕ) (n : ℤ) : conj (kB M n) = kF M n := by
  unfold kF kB
  rw [expT_conj]

/-- Root-of-unity orthogonality over `Fin M`. -/
theorem sum_expT_fin (M : ℕ) (hM : 0 < M) (d : ℤ) :
    ∑ q : Fin M, expT (((q : ℕ) : ℝ) * (d : ℝ) / (M : ℝ)) = if (M : ℤ) ∣ d then (M : ℂ) else 0 := by
  have hM0 : (M : ℝ) ≠ 0 := by exact_mod_cast hM.ne'
  have h := char_sum_range (T := expT) expT_isChar expT_period M (expT_prim M hM0) hM0 d
  rw [← h]
  exact Fin.sum_univ_eq_sum_range (fun k => expT ((k : ℝ) * (d : ℝ) / (M : ℝ))) M

theorem fin_dvd_sub_iff {M : ℕ} (a b : Fin M) : (M : ℤ) ∣ ((a : ℕ) : ℤ) - ((b : ℕ) : ℤ) ↔ a = b := by
  constructor
  · intro h
    have ha := a.2
    have hb := b.2
    have hz := Int.eq_zero_of_abs_lt_dvd h (by rw [abs_lt]; constructor <;> omega)
    apply Fin.ext
    omega
  · rintro rfl
    simp

/-- `Σ_q kF(a·q)·kB(q·b) = M·[a = b]`. -/
theorem sum_kF_kB {M : ℕ} (hM : 0 < M) (a b : Fin M) :
    ∑ q : Fin M, kF M ((a : ℕ) * ((q : ℕ) : ℤ)) * kB M ((q : ℕ) * ((b : ℕ) : ℤ))
      = if a = b then (M : ℂ) else 0 := by
  have hM0 : (M : ℝ) ≠ 0 := by exact_mod_cast hM.ne'
  have h := sum_expT_fin M hM (((b : ℕ) : ℤ) - ((a : ℕ) : ℤ))
  simp only [fin_dvd_sub_iff, eq_comm (a := b)] at h
  rw [← h]
  apply Finset.sum_congr rfl
  intro q _
  unfold kF kB
  rw [← expT_isChar.add]
  congr 1
  push_cast
  field_simp
  ring

/-- `Σ_q kB(a·q)·kF(q·b) = M·[a = b]`. -/
theorem sum_kB_kF {M : ℕ} (hM : 0 < M) (a b : Fin M) :
    ∑ q : Fin M, kB M ((a : ℕ) * ((q : ℕ) : ℤ)) * kF M ((q : ℕ) * ((b : ℕ) : ℤ))
      = if a = b then (M : ℂ) else 0 := by
  have hM0 : (M : ℝ) ≠ 0 := by exact_mod_cast hM.ne'
  have h := sum_expT_fin M hM (((a : ℕ) : ℤ) - ((b : ℕ) : ℤ))
  simp only [fin_dvd_sub_iff] at h
  rw [← h]
  apply Finset.sum_congr rfl
  intro q _
  unfold kF kB
  rw [← expT_isChar.add]
  congr 1
  push_cast
  field_simp
  ring

/-- `fft` on arrays of length `M`, as a linear map. -/
noncomputable def dftF (M : ℕ) : (Fin M → ℂ) →ₗ[ℂ] (Fin M → ℂ) where
  toFun x := fun q => Fft.dft M (kF M) (ext x) (q : ℕ)
  map_add' x y := by
    funext q
    simp only [dft_ext, Pi.add_apply]
    rw [← Finset.sum_add_distrib]
    exact Finset.sum_congr rfl fun p _ => by ring
  map_smul' a x := by
    funext q
    simp only [dft_ext, Pi.smul_apply, smul_eq_mul, RingHom.id_apply]
    rw [Finset.mul_sum]
    exact Finset.sum_congr rfl fun p _ => by ring

/-- `ifft` on arrays of length `M` (`1/M` times the DFT with the inverse kernel), as a linear map. -/
noncomputable def dftFinv (M : ℕ) : (Fin M → ℂ) →ₗ[ℂ] (Fin M → ℂ) where
  toFun y := fun p => (M : ℂ)⁻¹ * Fft.dft M (kB M) (ext y) (p : ℕ)
  map_add' x y := by
    funext q
    simp only [dft_ext, Pi.add_apply]
    rw [← mul_add, ← Finset.sum_add_distrib]
    congr 1
    exact Finset.sum_congr rfl fun p _ => by ring
  map_smul' a x := by
    funext q
    simp only [dft_ext, Pi.smul_apply, smul_eq_mul, RingHom.id_apply]
    rw [Finset.mul_sum, Finset.mul_sum, Finset.mul_sum]
    exact Finset.sum_congr rfl fun p _ => by ring

theorem dftF_apply (M : ℕ) (x : Fin M → ℂ) (q : Fin M) :
    dftF M x q = ∑ p : Fin M, x p * kF M ((p : ℕ) * ((q : ℕ) : ℤ)) := dft_ext _ x q

theorem dftFinv_apply (M : ℕ) (y : Fin M → ℂ) (p : Fin M) :
    dftFinv M y p = (M : ℂ)⁻¹ * ∑ q : Fin M, y q * kB M ((q : ℕ) * ((p : ℕ) : ℤ)) := by
  show (M : ℂ)⁻¹ * Fft.dft M (kB M) (ext y) (p : ℕ) = _
  rw [dft_ext]

theorem dftFinv_dftF {M : ℕ} (hM : 0 < M) (x : Fin M → ℂ) : dftFinv M (dftF M x) = x := by
  have hMc : (M : ℂ) ≠ 0 := by exact_mod_cast hM.ne'
  funext p
  rw [dftFinv_apply]
  simp only [dftF_apply, Finset.sum_mul]
  rw [Finset.sum_comm]
  have step : ∀ p' ∈ (Finset.univ : Finset (Fin M)),
      ∑ q : Fin M, x p' * kF M ((p' : ℕ) * ((q : ℕ) : ℤ)) * kB M ((q : ℕ) * ((p : ℕ) : ℤ))
        = if p' = p then x p * (M : ℂ) else 0 := by
    intro p' _
    simp only [mul_assoc]
    rw [← Finset.mul_sum, sum_kF_kB hM]
    by_cases e : p' = p
    · subst e; simp
    · simp [e]
  rw [Finset.sum_congr rfl step, Finset.sum_ite_eq' Finset.univ p, if_pos (Finset.mem_univ _)]
  field_simp

theorem dftF_dftFinv {M : ℕ} (hM : 0 < M) (y : Fin M → ℂ) : dftF M (dftFinv M y) = y := by
  have hMc : (M : ℂ) ≠ 0 := by exact_mod_cast hM.ne'
  funext q
  rw [dftF_apply]
  simp only [dftFinv_apply, Finset.mul_sum, Finset.sum_mul]
  rw [Finset.sum_comm]
  have step : ∀ q' ∈ (Finset.univ : Finset (Fin M)),
      ∑ p : Fin M, (M : ℂ)⁻¹ * (y q' * kB M ((q' : ℕ) * ((p : ℕ) : ℤ))) * kF M ((p : ℕ) * ((q : ℕ) : ℤ))
        = if q' = q then (M : ℂ)⁻¹ * y q * (M : ℂ) else 0 := by
    intro q' _
    simp only [mul_assoc]
    rw [← Finset.mul_sum, ← Finset.mul_sum, sum_kB_kF hM]
    by_cases e : q' = q
    · subst e; simp
    · simp [e]
  rw [Finset.sum_congr rfl step, Finset.sum_ite_eq' Finset.univ q, if_pos (Finset.mem_univ _)]
  field_simp

theorem dft_adj (M : ℕ) (hM : 0 < M) (x y : Fin M → ℂ) :
    ip y (dftF M x) = ((M : ℝ) : ℂ) * ip (dftFinv M y) x := by
  have hMc : (M : ℂ) ≠ 0 := by exact_mod_cast hM.ne'
  unfold ip
  simp only [dftF_apply, dftFinv_apply, map_mul, map_sum, map_inv₀, Complex.conj_natCast, conj_kB,
    Finset.mul_sum, Finset.sum_mul, Complex.ofReal_natCast]
  rw [Finset.sum_comm]
  apply Finset.sum_congr rfl
  intro p _
  apply Finset.sum_congr rfl
  intro q _
  rw [mul_comm (((q : ℕ) : ℤ)) (((p : ℕ) : ℤ))]
  field_simp

/-- **The 1-D DFT is a `FourierPair`** with `c = M`. -/
noncomputable def dftPair (M : ℕ) (hM : 0 < M) : FourierPair (Fin M) where
  F := dftF M
  Finv := dftFinv M
  c := (M : ℝ)
  c_pos := by exact_mod_cast hM
  Finv_F := dftFinv_dftF hM
  F_Finv := dftF_dftFinv hM
  adj := dft_adj M hM

theorem dftPair_F_apply (M : ℕ) (hM : 0 < M) (x : Fin M → ℂ) (q : Fin M) :
    (dftPair M hM).F x q = Fft.dft M (kF M) (ext x) (q : ℕ) := rfl

theorem dftPair_Finv_apply (M : ℕ) (hM : 0 < M) (y : Fin M → ℂ) (p : Fin M) :
    (dftPair M hM).Finv y p = (M : ℂ)⁻¹ * Fft.dft M (kB M) (ext y) (p : ℕ) := rfl

theorem dftPair_c (M : ℕ) (hM : 0 < M) : (dftPair M hM).c = (M : ℝ) := rfl

/-! ## the tensor product of two Fourier pairs -/

section prod
variable {α β : Type*} [Fintype α] [Fintype β]

/-- Apply `L` along the first index, for every fixed second index. -/
def liftL (L : (α → ℂ) →ₗ[ℂ] (α → ℂ)) : (α × β → ℂ) →ₗ[ℂ] (α × β → ℂ) where
  toFun x := fun ab => L (fun a' => x (a', ab.2)) ab.1
  map_add' x y := by
    funext ab
    show L ((fun a' => x (a', ab.2)) + (fun a' => y (a', ab.2))) ab.1 = _
    rw [map_add]
    rfl
  map_smul' a x := by
    funext ab
    show L (a • (fun a' => x (a', ab.2))) ab.1 = _
    rw [map_smul]
    rfl

/-- Apply `L` along the second index, for every fixed first index. -/
def liftR (L : (β → ℂ) →ₗ[ℂ] (β → ℂ)) : (α × β → ℂ) →ₗ[ℂ] (α × β → ℂ) where
  toFun x := fun ab => L (fun b' => x (ab.1, b')) ab.2
  map_add' x y := by
    funext ab
    show L ((fun b' => x (ab.1, b')) + (fun b' => y (ab.1, b'))) ab.2 = _
    rw [map_add]
    rfl
  map_smul' a x := by
    funext ab
    show L (a • (fun b' => x (ab.1, b'))) ab.2 = _
    rw [map_smul]
    rfl

theorem liftL_apply (L : (α → ℂ) →ₗ[ℂ] (α → ℂ)) (x : α × β → ℂ) (a : α) (b : β) :
    liftL L x (a, b) = L (fun a' => x (a', b)) a := rfl

theorem liftR_apply (L : (β → ℂ) →ₗ[ℂ] (β → ℂ)) (x : α × β → ℂ) (a : α) (b : β) :
    liftR L x (a, b) = L (fun b' => x (a, b')) b := rfl

theorem liftL_comp_id {L L' : (α → ℂ) →ₗ[ℂ] (α → ℂ)} (h : ∀ x, L' (L x) = x) (x : α × β → ℂ) :
    liftL (β := β) L' (liftL L x) = x := by
  funext ⟨a, b⟩
  rw [liftL_apply]
  have : (fun a' => liftL (β := β) L x (a', b)) = L (fun a' => x (a', b)) := rfl
  rw [this, h]

theorem liftR_comp_id {L L' : (β → ℂ) →ₗ[ℂ] (β → ℂ)} (h : ∀ x, L' (L x) = x) (x : α × β → ℂ) :
    liftR (α := α) L' (liftR L x) = x := by
  funext ⟨a, b⟩
  rw [liftR_apply]
  have : (fun b' => liftR (α := α) L x (a, b')) = L (fun b' => x (a, b')) := rfl
  rw [this, h]

theorem ip_prod (x y : α × β → ℂ) :
    ip x y = ∑ b, ip (fun a => x (a, b)) (fun a => y (a, b)) := by
  unfold ip
  rw [Fintype.sum_prod_type, Finset.sum_comm]

theorem ip_prod' (x y : α × β → ℂ) :
    ip x y = ∑ a, ip (fun b => x (a, b)) (fun b => y (a, b)) := by
  unfold ip
  rw [Fintype.sum_prod_type]

theorem liftL_adj {L L' : (α → ℂ) →ₗ[ℂ] (α → ℂ)} {c : ℂ}
    (h : ∀ x y, ip y (L x) = c * ip (L' y) x) (x y : α × β → ℂ) :
    ip y (liftL (β := β) L x) = c * ip (liftL (β := β) L' y) x := by
  rw [ip_prod, ip_prod, Finset.mul_sum]
  apply Finset.sum_congr rfl
  intro b _
  exact h (fun a => x (a, b)) (fun a => y (a, b))

theorem liftR_adj {L L' : (β → ℂ) →ₗ[ℂ] (β → ℂ)} {c : ℂ}
    (h : ∀ x y, ip y (L x) = c * ip (L' y) x) (x y : α × β → ℂ) :
    ip y (liftR (α := α) L x) = c * ip (liftR (α := α) L' y) x := by
  rw [ip_prod', ip_prod', Finset.mul_sum]
  apply Finset.sum_congr rfl
  intro a _
  exact h (fun b => x (a, b)) (fun b => y (a, b))

/-- **Product construction.** `P` along the first index, then `Q` along the second; the inverse undoes
them in the opposite order; `c = c_P · c_Q`. -/
noncomputable def FourierPair.prod (P : FourierPair α) (Q : FourierPair β) : FourierPair (α × β) where
  F := (liftR Q.F).comp (liftL P.F)
  Finv := (liftL P.Finv).comp (liftR Q.Finv)
  c := P.c * Q.c
  c_pos := mul_pos P.c_pos Q.c_pos
  Finv_F x := by
    simp only [LinearMap.comp_apply]
    rw [liftR_comp_id Q.Finv_F, liftL_comp_id P.Finv_F]
  F_Finv y := by
    simp only [LinearMap.comp_apply]
    rw [liftL_comp_id P.F_Finv, liftR_comp_id Q.F_Finv]
  adj x y := by
    simp only [LinearMap.comp_apply]
    rw [liftR_adj Q.adj, liftL_adj P.adj]
    push_cast
    ring

theorem FourierPair.prod_F_apply (P : FourierPair α) (Q : FourierPair β) (x : α × β → ℂ) (a : α) (b : β) :
    (P.prod Q).F x (a, b) = Q.F (fun b' => P.F (fun a' => x (a', b')) a) b := rfl

theorem FourierPair.prod_Finv_apply (P : FourierPair α) (Q : FourierPair β) (y : α × β → ℂ) (a : α) (b : β) :
    (P.prod Q).Finv y (a, b) = P.Finv (fun a' => Q.Finv (fun b' => y (a', b')) b) a := rfl

theorem FourierPair.prod_c (P : FourierPair α) (Q : FourierPair β) : (P.prod Q).c = P.c * Q.c := rfl

end prod

/-! ## two axes: `fftn` / `ifftn` -/

/-- A `My × Mx` array (indices `(iy, ix)`) as a function on `ℕ × ℕ` (value `0` outside). -/
noncomputable def ext2 {My Mx : ℕ} (x : Fin My × Fin Mx → ℂ) (py px : ℕ) : ℂ :=
  if h : py < My ∧ px < Mx then x (⟨py, h.1⟩, ⟨px, h.2⟩) else 0

theorem ext2_fin {My Mx : ℕ} (x : Fin My × Fin Mx → ℂ) (py : Fin My) (px : Fin Mx) :
    ext2 x (py : ℕ) (px : ℕ) = x (py, px) := by
  unfold ext2
  rw [dif_pos ⟨py.2, px.2⟩]

/-- The 2-D DFT specification on a `My × Mx` array, as a double sum over `Fin My`, `Fin Mx`. -/
theorem dft2_ext2 {My Mx : ℕ} (kerY kerX : ℤ → ℂ) (x : Fin My × Fin Mx → ℂ) (qy qx : ℕ) :
    Fft.dft2 My Mx kerY kerX (ext2 x) qy qx
      = ∑ py : Fin My, ∑ px : Fin Mx,
          x (py, px) * (kerY ((py : ℕ) * (qy : ℤ)) * kerX ((px : ℕ) * (qx : ℤ))) := by
  unfold Fft.dft2
  rw [sumRange_eq]
  simp only [sumRange_eq]
  let G : ℕ → ℂ := fun py => ∑ px ∈ range Mx,
    ext2 x py px * (kerY ((py : ℤ) * (qy : ℤ)) * kerX ((px : ℤ) * (qx : ℤ)))
  show ∑ py ∈ range My, G py = _
  rw [← Fin.sum_univ_eq_sum_range G My]
  apply Finset.sum_congr rfl
  intro py _
  let H : ℕ → ℂ := fun px =>
    ext2 x (py : ℕ) px * (kerY (((py : ℕ) : ℤ) * (qy : ℤ)) * kerX ((px : ℤ) * (qx : ℤ)))
  show ∑ px ∈ range Mx, H px = _
  rw [← Fin.sum_univ_eq_sum_range H Mx]
  apply Finset.sum_congr rfl
  intro px _
  show ext2 x (py : ℕ) (px : ℕ) * _ = _
  rw [ext2_fin]

/-- **The 2-D DFT is a `FourierPair`** with `c = My·Mx`: the product of the two 1-D pairs. -/
noncomputable def dftPair2 (My Mx : ℕ) (hMy : 0 < My) (hMx : 0 < Mx) : FourierPair (Fin My × Fin Mx) :=
  (dftPair My hMy).prod (dftPair Mx hMx)

/-- `dftPair2.F` is `fftn` of `Model/FftIndex2.lean`. -/
theorem dftPair2_F_eq_dft2 (My Mx : ℕ) (hMy : 0 < My) (hMx : 0 < Mx) (x : Fin My × Fin Mx → ℂ)
    (qy : Fin My) (qx : Fin Mx) :
    (dftPair2 My Mx hMy hMx).F x (qy, qx)
      = Fft.dft2 My Mx (kF My) (kF Mx) (ext2 x) (qy : ℕ) (qx : ℕ) := by
  rw [dft2_ext2]
  show dftF Mx (fun b' => dftF My (fun a' => x (a', b')) qy) qx = _
  rw [dftF_apply]
  simp only [dftF_apply, Finset.sum_mul]
  rw [Finset.sum_comm]
  apply Finset.sum_congr rfl
  intro py _
  apply Finset.sum_congr rfl
  intro px _
  ring

/-- `dftPair2.Finv` is `ifftn`: `1/(My·Mx)` times the 2-D DFT with the inverse kernels. -/
theorem dftPair2_Finv_eq_dft2 (My Mx : ℕ) (hMy : 0 < My) (hMx : 0 < Mx) (y : Fin My × Fin Mx → ℂ)
    (py : Fin My) (px : Fin Mx) :
    (dftPair2 My Mx hMy hMx).Finv y (py, px)
      = ((My * Mx : ℕ) : ℂ)⁻¹ * Fft.dft2 My Mx (kB My) (kB Mx) (ext2 y) (py : ℕ) (px : ℕ) := by
  rw [dft2_ext2]
  show dftFinv My (fun a' => dftFinv Mx (fun b' => y (a', b')) px) py = _
  rw [dftFinv_apply]
  simp only [dftFinv_apply, Finset.mul_sum, Finset.sum_mul]
  apply Finset.sum_congr rfl
  intro qy _
  apply Finset.sum_congr rfl
  intro qx _
  push_cast
  rw [mul_inv]
  ring

theorem dftPair2_c (My Mx : ℕ) (hMy : 0 < My) (hMx : 0 < Mx) :
    (dftPair2 My Mx hMy hMx).c = ((My * Mx : ℕ) : ℝ) := by
  show (My : ℝ) * (Mx : ℝ) = _
  push_cast
  rfl

end HcipyVerif.NearField
