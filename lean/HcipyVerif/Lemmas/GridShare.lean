import HcipyVerif.Model.GridShare
import Mathlib.Tactic.Linarith

/-! The defect class "memoised hash with incomplete invalidation" as definitions (documentation for the proved
counterexample `Bad.memo_hash_stale` in Properties/C10.lean; not a model of the code, no driver runs it). -/
set_option linter.unusedSimpArgs false
set_option linter.unusedVariables false
namespace HcipyVerif.Grid

namespace Bad
/-- The defect class of a *memoised* hash: a grid remembers the hash input it computed and drops it
only when its own API changes the coordinates. -/
structure MGrid where
  grid : Grid
  memo : Option (List Tok) := none

/-- `hash(g)`: the remembered value if there is one -/
def MGrid.hash (m : MGrid) : List Tok × MGrid :=
  match m.memo with
  | some h => (h, m)
  | none => (m.grid.hashInput, { m with memo := some m.grid.hashInput })

/-- another holder wrote through the shared `Coords` object: the coordinates follow, the memo stays -/
def MGrid.follow (m : MGrid) (co : Coords) : MGrid := { m with grid := { m.grid with coords := co } }
end Bad


/-! ## Helper lemmas for the invariant of `stepShare` (Properties/C10.lean: `share_step_inv`, `share_reachable_coherent`) -/

theorem shareCoords_getElem? (grids : Store) (cell : List Nat) (c : Nat) (co : Coords) (j : Nat) :
    (shareCoords grids cell c co)[j]? =
      (grids[j]?).map fun h => if cell[j]? = some c then { h with coords := co } else h := by
  simp [shareCoords, List.getElem?_mapIdx]

/-- coherent except possibly for slot `i` -/
def CohEx (i : Option Nat) (grids : Store) (cell : List Nat) : Prop :=
  ∀ (j k : Nat) (g h : Grid), some j ≠ i → some k ≠ i → cell[j]? = cell[k]? → cell[j]? ≠ none →
    grids[j]? = some g → grids[k]? = some h → g.coords = h.coords

theorem cohEx_none (grids : Store) (cell : List Nat) : CohEx none grids cell ↔ Coherent grids cell := by
  constructor
  · intro h j k g g' a b c d; exact h j k g g' (by simp) (by simp) a b c d
  · intro h j k g g' _ _ a b c d; exact h j k g g' a b c d

theorem changedSlot_some (old new : Store) (i : Nat) (h : changedSlot old new = some i) :
    i < old.length ∧ new[i]? ≠ old[i]? := by
  unfold changedSlot at h
  have := List.find?_some h
  have hm := List.mem_of_find?_eq_some h
  simp at this hm
  exact ⟨hm, this⟩

theorem changedSlot_none (old new : Store) (h : changedSlot old new = none) (j : Nat) (hj : j < old.length) :
    new[j]? = old[j]? := by
  unfold changedSlot at h
  rw [List.find?_eq_none] at h
  have := h j (by simp [hj])
  simpa using this

/-- frame + which slot: every existing slot other than the changed one is as it was -/
theorem frame_changed (old new : Store) (hf : ∃ i, ∀ j, j < old.length → j ≠ i → new[j]? = old[j]?)
    (j : Nat) (hj : j < old.length) (hne : some j ≠ changedSlot old new) : new[j]? = old[j]? := by
  cases hc : changedSlot old new with
  | none => exact changedSlot_none old new hc j hj
  | some i =>
    obtain ⟨hi, hd⟩ := changedSlot_some old new i hc
    obtain ⟨i0, hf⟩ := hf
    by_cases h0 : i = i0
    · subst h0; exact hf j hj (by rw [hc] at hne; intro e; exact hne (by rw [e]))
    · exact absurd (hf i hi h0) hd

theorem cohEx_of_frame (old new : Store) (cell : List Nat) (hl : cell.length = old.length)
    (hco : Coherent old cell) (hf : ∃ i, ∀ j, j < old.length → j ≠ i → new[j]? = old[j]?) :
    CohEx (changedSlot old new) new cell := by
  intro j k g h hj hk hjk hn hg hh
  have hjl : j < old.length := by
    rw [← hl]; by_contra hc; exact hn (List.getElem?_eq_none (by omega))
  have hkl : k < old.length := by
    rw [← hl]; by_contra hc; rw [hjk] at hn; exact hn (List.getElem?_eq_none (by omega))
  rw [frame_changed old new hf j hjl hj] at hg
  rw [frame_changed old new hf k hkl hk] at hh
  exact hco j k g h hjk hn hg hh


theorem sync_cell_get (cell : List Nat) (next n j : Nat) (hj : j < n) :
    (cell.take n ++ List.range' next (n - cell.length))[j]? =
      if j < cell.length then cell[j]? else some (next + (j - cell.length)) := by
  by_cases h : j < cell.length
  · rw [if_pos h, List.getElem?_append_left (by simp [List.length_take]; omega), List.getElem?_take]
    simp [hj]
  · rw [if_neg h]
    have hl : (cell.take n).length = cell.length := by simp [List.length_take]; omega
    rw [List.getElem?_append_right (by omega), hl, List.getElem?_range' (by omega)]
    simp

theorem sync_inv (grids : Store) (cell : List Nat) (next : Nat) (i : Option Nat)
    (hlt : ∀ c ∈ cell, c < next) (hco : CohEx i grids cell) :
    let cell' := cell.take grids.length ++ List.range' next (grids.length - cell.length)
    cell'.length = grids.length ∧ (∀ c ∈ cell', c < next + (grids.length - cell.length)) ∧ CohEx i grids cell' := by
  intro cell'
  refine ⟨?_, ?_, ?_⟩
  · simp [cell', List.length_take]; omega
  · intro c hc
    simp only [cell', List.mem_append, List.mem_range'_1] at hc
    rcases hc with hc | hc
    · have := hlt c (List.mem_of_mem_take hc); omega
    · omega
  · intro j k g h hj hk hjk hn hg hh
    have hjn : j < grids.length := by
      by_contra hc; rw [List.getElem?_eq_none (by omega)] at hg; exact absurd hg (by simp)
    have hkn : k < grids.length := by
      by_contra hc; rw [List.getElem?_eq_none (by omega)] at hh; exact absurd hh (by simp)
    simp only [cell'] at hjk hn
    rw [sync_cell_get cell next _ j hjn] at hjk hn
    rw [sync_cell_get cell next _ k hkn] at hjk
    by_cases h1 : j < cell.length <;> by_cases h2 : k < cell.length
    · rw [if_pos h1] at hjk hn; rw [if_pos h2] at hjk
      exact hco j k g h hj hk hjk hn hg hh
    · rw [if_pos h1, if_neg h2] at hjk
      have hm : cell[j] ∈ cell := List.getElem_mem h1
      have := hlt _ hm
      rw [List.getElem?_eq_getElem h1] at hjk
      simp at hjk; omega
    · rw [if_neg h1, if_pos h2] at hjk
      have hm : cell[k] ∈ cell := List.getElem_mem h2
      have := hlt _ hm
      rw [List.getElem?_eq_getElem h2] at hjk
      simp at hjk; omega
    · rw [if_neg h1, if_neg h2] at hjk
      simp at hjk
      have : j = k := by omega
      subst this
      rw [hg] at hh; simp at hh; rw [hh]

/-- all holders of cell `c` get `co`: coherence is kept (a write to the `Coords` object itself) -/
theorem shareCoords_keeps_coherent (grids : Store) (cell : List Nat) (c : Nat) (co : Coords)
    (hco : Coherent grids cell) : Coherent (shareCoords grids cell c co) cell := by
  intro j k g h hjk hn hg hh
  rw [shareCoords_getElem?] at hg hh
  cases hgj : grids[j]? with
  | none => simp [hgj] at hg
  | some g0 =>
    cases hgk : grids[k]? with
    | none => simp [hgk] at hh
    | some h0 =>
      simp only [hgj, hgk, Option.map_some, Option.some.injEq] at hg hh
      by_cases hc : cell[j]? = some c
      · have hc' : cell[k]? = some c := hjk ▸ hc
        rw [if_pos hc] at hg; rw [if_pos hc'] at hh
        rw [← hg, ← hh]
      · have hc' : ¬ cell[k]? = some c := hjk ▸ hc
        rw [if_neg hc] at hg; rw [if_neg hc'] at hh
        subst hg; subst hh
        exact hco j k _ _ hjk hn hgj hgk

theorem shareCoords_length (grids : Store) (cell : List Nat) (c : Nat) (co : Coords) :
    (shareCoords grids cell c co).length = grids.length := by simp [shareCoords]



theorem inv_empty : ({} : SWorld).Inv :=
  ⟨rfl, by intro c hc; simp at hc, by intro j k g h _ hn; simp at hn⟩

end HcipyVerif.Grid
