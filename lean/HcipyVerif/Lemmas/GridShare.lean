import HcipyVerif.Model.GridShare

/-! The defect class "memoised hash with incomplete invalidation" as definitions (documentation for the proved
counterexample `Bad.memo_hash_stale` in Properties/C10.lean; not a model of the code, no driver runs it). -/
namespace HcipyVerif.Grid

namespace Bad
/-- The defect class of a *memoised* hash: a grid remembers the hash input it computed and drops it
only when its own API changes the coordinates. -/
structure MGrid where
  grid : Grid
  memo : Option (List Tok) := none

/-- `hash(g)`: the remembered value if there is one -/
def MGrid.hash (m : MGrid) : List Tok × MGrid :=
  match m.memo with
  | some h => (h, m)
  | none => (m.grid.hashInput, { m with memo := some m.grid.hashInput })

/-- another holder wrote through the shared `Coords` object: the coordinates follow, the memo stays -/
def MGrid.follow (m : MGrid) (co : Coords) : MGrid := { m with grid := { m.grid with coords := co } }
end Bad

end HcipyVerif.Grid
