import HcipyVerif.Lemmas.SchedulerStrong

/-! Helper lemmas for C20, round 4: callbacks that read the clock (`loopC`) and their replay through
`loop` with the table of what each executed callback scheduled. -/
set_option linter.unusedSimpArgs false
set_option linter.unusedVariables false

namespace HcipyVerif.Scheduler

theorem loopC_cons {kidsC : Rat → Entry → List (Rat × Nat)} {T : Rat} {fuel : Nat} {s : Sys} {e : Entry}
    {rest : List Entry} (hq : s.queue = e :: rest) (ht : e.time < T) :
    loopC kidsC T (fuel + 1) s =
      { loopC kidsC T fuel
          (next (fun _ => kidsC (advance { s with queue := rest } (e.time - s.t)).1.t e) s e rest) with
        trace := (advance { s with queue := rest } (e.time - s.t)).2 ++
          Event.fire e (advance { s with queue := rest } (e.time - s.t)).1.t ::
          (loopC kidsC T fuel
            (next (fun _ => kidsC (advance { s with queue := rest } (e.time - s.t)).1.t e) s e rest)).trace } := by
  simp only [loopC, hq, ht, if_true, next]

theorem loopC_stop {kidsC : Rat → Entry → List (Rat × Nat)} {T : Rat} {fuel : Nat} {s : Sys}
    (h : s.queue = [] ∨ ∃ e rest, s.queue = e :: rest ∧ ¬ e.time < T) :
    loopC kidsC T (fuel + 1) s = ⟨.ok, (advance s (T - s.t)).1, (advance s (T - s.t)).2⟩ := by
  rcases h with h | ⟨e, rest, h, ht⟩
  · simp only [loopC, h]
  · simp only [loopC, h, ht, if_false]

theorem next_congr {K K' : Entry → List (Rat × Nat)} {s : Sys} {e : Entry} {rest : List Entry}
    (h : K e = K' e) : next K s e rest = next K' s e rest := by
  simp only [next, h]

/-- An entry-only `kids` that agrees with the clock-reading callbacks on every callback the run
executes (at the clock it saw) produces the very same run. -/
theorem loopC_eq_loop_of_agree' (kidsC : Rat → Entry → List (Rat × Nat)) (kids : Entry → List (Rat × Nat))
    (T : Rat) (fuel : Nat) (s : Sys)
    (h : ∀ e clk, Event.fire e clk ∈ (loopC kidsC T fuel s).trace → kids e = kidsC clk e) :
    loop kids T fuel s = loopC kidsC T fuel s := by
  induction fuel generalizing s with
  | zero => rfl
  | succ fuel ih =>
    match hq : s.queue with
    | [] => rw [loop_stop (Or.inl hq), loopC_stop (Or.inl hq)]
    | e :: rest =>
      by_cases ht : e.time < T
      · have hC := loopC_cons (kidsC := kidsC) (fuel := fuel) hq ht
        rw [hC] at h
        have he : kids e = kidsC (advance { s with queue := rest } (e.time - s.t)).1.t e :=
          h e _ (by simp)
        have hn : next kids s e rest =
            next (fun _ => kidsC (advance { s with queue := rest } (e.time - s.t)).1.t e) s e rest :=
          next_congr he
        rw [loop_cons hq ht, hC, hn, ih _ (fun e' clk' hm => h e' clk' (by simp [hm]))]
      · rw [loop_stop (Or.inr ⟨e, rest, hq, ht⟩), loopC_stop (Or.inr ⟨e, rest, hq, ht⟩)]

/-- the old model is the special case of callbacks that ignore the clock -/
theorem loopC_const' (kids : Entry → List (Rat × Nat)) (T : Rat) (fuel : Nat) (s : Sys) :
    loopC (fun _ => kids) T fuel s = loop kids T fuel s :=
  (loopC_eq_loop_of_agree' (fun _ => kids) kids T fuel s (fun _ _ _ => rfl)).symm

/-- `loop` consults `kids` only at the entries it executes. -/
theorem loop_congr_fired (K K' : Entry → List (Rat × Nat)) (T : Rat) (fuel : Nat) (s : Sys)
    (h : ∀ x ∈ fired (loop K' T fuel s).trace, K x = K' x) : loop K T fuel s = loop K' T fuel s := by
  rw [← loopC_const' K']
  apply loopC_eq_loop_of_agree'
  intro e clk hm
  rw [loopC_const'] at hm
  exact h e (mem_fired_of_fire hm)
where
  mem_fired_of_fire {tr : List Event} {e : Entry} {clk : Rat} (hm : Event.fire e clk ∈ tr) : e ∈ fired tr := by
    induction tr with
    | nil => simp at hm
    | cons x xs ih =>
      cases x with
      | integrate dt => simp at hm; simp [fired, ih hm]
      | fire e' c' =>
        simp at hm
        rcases hm with ⟨rfl, -⟩ | hm
        · simp [fired]
        · simp [fired, ih hm]

theorem mem_fired_of_fire {tr : List Event} {e : Entry} {clk : Rat} (hm : Event.fire e clk ∈ tr) :
    e ∈ fired tr := loop_congr_fired.mem_fired_of_fire hm

/-- In a trace that executes no entry twice, the table of what was scheduled, read as an
entry-only function, returns for each executed callback what it scheduled at the clock it saw. -/
theorem tableKids_fireTable (kidsC : Rat → Entry → List (Rat × Nat)) (tr : List Event)
    (hnd : (fired tr).Nodup) :
    ∀ e clk, Event.fire e clk ∈ tr → tableKids (fireTable kidsC tr) e = kidsC clk e := by
  induction tr with
  | nil => intro e clk hm; simp at hm
  | cons x xs ih =>
    intro e clk hm
    cases x with
    | integrate dt =>
      simp at hm
      simp only [fired] at hnd
      simpa [fireTable] using ih hnd e clk hm
    | fire e' c' =>
      simp only [fired, List.nodup_cons] at hnd
      simp at hm
      rcases hm with ⟨rfl, rfl⟩ | hm
      · simp [tableKids, fireTable]
      · have hne : e' ≠ e := fun hh => hnd.1 (hh ▸ mem_fired_of_fire hm)
        have := ih hnd.2 e clk hm
        simp only [tableKids, fireTable, List.find?_cons] at this ⊢
        simp [hne, this]

/-- as `tableKids_fireTable`, with a table that starts with entries of callbacks executed earlier
(the driver accumulates the table over a history) -/
theorem tableKids_append (pre : List (Entry × List (Rat × Nat))) (tbl : List (Entry × List (Rat × Nat)))
    (e : Entry) (hpre : ∀ p ∈ pre, p.1 ≠ e) : tableKids (pre ++ tbl) e = tableKids tbl e := by
  have hnone : pre.find? (fun p => decide (p.1 = e)) = none := by
    rw [List.find?_eq_none]; intro p hp; simpa using hpre p hp
  simp [tableKids, List.find?_append, hnone]

theorem fired_nodup' (kids : Entry → List (Rat × Nat)) (T : Rat) (fuel : Nat)
    (s : Sys) (hi : InvQ s) : (fired (loop kids T fuel s).trace).Nodup := by
  have hnd : (fired (loop kids T fuel s).trace ++ (loop kids T fuel s).s.queue).Nodup :=
    (loop_perm kids T fuel s).nodup_iff.mpr (nodup_queue_spawnedQ hi _)
  exact (List.nodup_append.mp hnd).1

/-- an entry that is neither queued nor numbered at or above the counter is never executed -/
theorem not_fired_of_old (K : Entry → List (Rat × Nat)) (T : Rat) (fuel : Nat) (s : Sys) (e : Entry)
    (h1 : e ∉ s.queue) (h2 : e.ctr < s.ctr) : e ∉ fired (loop K T fuel s).trace := by
  intro hf
  have hp := (loop_perm K T fuel s).subset (List.mem_append_left _ hf)
  rcases List.mem_append.mp hp with h | h
  · exact h1 h
  · have := (mem_spawned h).2; omega

/-- **Every run with clock-reading callbacks is a run of `loop`** for some entry-only `kids`:
from any state a history can reach (`InvQ`). -/
theorem loopC_exists_kids' (kidsC : Rat → Entry → List (Rat × Nat)) (T : Rat) (fuel : Nat) (s : Sys)
    (hi : InvQ s) : ∃ kids : Entry → List (Rat × Nat), loop kids T fuel s = loopC kidsC T fuel s := by
  induction fuel generalizing s with
  | zero => exact ⟨fun _ => [], rfl⟩
  | succ fuel ih =>
    match hq : s.queue with
    | [] => exact ⟨fun _ => [], by rw [loop_stop (Or.inl hq), loopC_stop (Or.inl hq)]⟩
    | e :: rest =>
      by_cases ht : e.time < T
      · have hi' : InvQ (next (fun _ => kidsC (advance { s with queue := rest } (e.time - s.t)).1.t e) s e rest) :=
          next_invQ hi hq
        obtain ⟨K', hK'⟩ := ih _ hi'
        refine ⟨fun x => if x = e then kidsC (advance { s with queue := rest } (e.time - s.t)).1.t e else K' x, ?_⟩
        have hn : next (fun x => if x = e then kidsC (advance { s with queue := rest } (e.time - s.t)).1.t e else K' x)
            s e rest = next (fun _ => kidsC (advance { s with queue := rest } (e.time - s.t)).1.t e) s e rest :=
          next_congr (by simp)
        have hs := hi.sorted; rw [hq] at hs
        unfold Sorted at hs; rw [List.pairwise_cons] at hs
        have hnf : e ∉ fired (loop K' T fuel
            (next (fun _ => kidsC (advance { s with queue := rest } (e.time - s.t)).1.t e) s e rest)).trace := by
          apply not_fired_of_old
          · intro hm
            rcases mem_addAll hm with h | ⟨h, -⟩
            · rw [advance_queue] at h
              exact Entry.lt_irrefl e (hs.1 e h)
            · rw [advance_ctr] at h
              have := hi.ctr e (by simp [hq])
              simp at h; omega
          · have := hi.ctr e (by simp [hq])
            simp only [next, addAll_ctr, advance_ctr]; omega
        rw [loop_cons hq ht, loopC_cons hq ht, hn,
          loop_congr_fired _ K' T fuel _ (fun x hx => by
            have : x ≠ e := fun hh => hnf (hh ▸ hx)
            simp [this]), hK']
      · exact ⟨fun _ => [], by
          rw [loop_stop (Or.inr ⟨e, rest, hq, ht⟩), loopC_stop (Or.inr ⟨e, rest, hq, ht⟩)]⟩

theorem loopC_fired_nodup' (kidsC : Rat → Entry → List (Rat × Nat)) (T : Rat) (fuel : Nat) (s : Sys)
    (hi : InvQ s) : (fired (loopC kidsC T fuel s).trace).Nodup := by
  obtain ⟨K, hK⟩ := loopC_exists_kids' kidsC T fuel s hi
  rw [← hK]; exact fired_nodup' K T fuel s hi

/-- **Replay**: the table of what each executed callback scheduled (preceded by any table `pre` of
callbacks that this run does not execute), read as an entry-only `kids`, makes `loop` reproduce the
run of the clock-reading callbacks: status, state, trace. -/
theorem loopC_eq_loop_table' (kidsC : Rat → Entry → List (Rat × Nat)) (T : Rat) (fuel : Nat) (s : Sys)
    (hi : InvQ s) (pre : List (Entry × List (Rat × Nat)))
    (hpre : ∀ p ∈ pre, p.1 ∉ fired (loopC kidsC T fuel s).trace) :
    loop (tableKids (pre ++ fireTable kidsC (loopC kidsC T fuel s).trace)) T fuel s =
      loopC kidsC T fuel s := by
  apply loopC_eq_loop_of_agree'
  intro e clk hm
  rw [tableKids_append pre _ e (fun p hp hh => hpre p hp (hh ▸ mem_fired_of_fire hm))]
  exact tableKids_fireTable kidsC _ (loopC_fired_nodup' kidsC T fuel s hi) e clk hm

/-! ### whole histories with clock-reading callbacks -/

theorem fireTable_keys (kidsC : Rat → Entry → List (Rat × Nat)) (tr : List Event) :
    (fireTable kidsC tr).map (·.1) = fired tr := by
  induction tr with
  | nil => rfl
  | cons x xs ih => cases x <;> simp [fireTable, fired, ih]

/-- an entry with a row in the table keeps its row when the table is extended -/
theorem tableKids_append_of_key (tbl ext : List (Entry × List (Rat × Nat))) (e : Entry)
    (h : e ∈ tbl.map (·.1)) : tableKids (tbl ++ ext) e = tableKids tbl e := by
  obtain ⟨p, hp, rfl⟩ := List.mem_map.mp h
  have hs : (tbl.find? (fun q => decide (q.1 = p.1))).isSome := by
    rw [List.find?_isSome]; exact ⟨p, hp, by simp⟩
  obtain ⟨r, hr⟩ := Option.isSome_iff_exists.mp hs
  simp [tableKids, List.find?_append, hr]

theorem spawned_congr {K K' : Entry → List (Rat × Nat)} (c : Nat) (l : List Entry)
    (h : ∀ x ∈ l, K x = K' x) : spawned K c l = spawned K' c l := by
  induction l generalizing c with
  | nil => rfl
  | cons e es ih =>
    simp only [spawned, h e (by simp)]
    rw [ih _ (fun x hx => h x (by simp [hx]))]

theorem evolveUntil_congr_fired (K K' : Entry → List (Rat × Nat)) (fuel : Nat) (s : Sys) (T : Rat)
    (h : ∀ x ∈ fired (evolveUntil K' fuel s T).trace, K x = K' x) :
    evolveUntil K fuel s T = evolveUntil K' fuel s T := by
  unfold evolveUntil at h ⊢
  by_cases hT : T < s.t
  · simp [hT]
  · simp only [hT, if_false] at h ⊢
    exact loop_congr_fired K K' T fuel s h

/-- `stepOp` consults `kids` only at the entries the call executes. -/
theorem stepOp_congr_fired (K K' : Entry → List (Rat × Nat)) (fuel : Nat) (h : Hist) (T : Rat)
    (hk : ∀ x ∈ fired (evolveUntil K' fuel h.s T).trace, K x = K' x) :
    stepOp K fuel h (.evolve T) = stepOp K' fuel h (.evolve T) := by
  simp only [stepOp, evolveUntil_congr_fired K K' fuel h.s T hk]
  rw [spawned_congr _ _ hk]

theorem evolveUntilC_eq_table' (kidsC : Rat → Entry → List (Rat × Nat)) (fuel : Nat) (s : Sys) (T : Rat)
    (hi : InvQ s) (pre : List (Entry × List (Rat × Nat)))
    (hpre : ∀ p ∈ pre, p.1 ∉ fired (evolveUntilC kidsC fuel s T).trace) :
    evolveUntil (tableKids (pre ++ fireTable kidsC (evolveUntilC kidsC fuel s T).trace)) fuel s T =
      evolveUntilC kidsC fuel s T := by
  unfold evolveUntil evolveUntilC at *
  by_cases hT : T < s.t
  · simp [hT]
  · simp only [hT, if_false] at hpre ⊢
    exact loopC_eq_loop_table' kidsC T fuel s hi pre hpre

/-- what a run leaves behind: an executed entry, and an entry that was neither queued nor numbered
at or above the counter, is afterwards not queued and numbered below the counter -/
theorem loop_old (K : Entry → List (Rat × Nat)) (T : Rat) (fuel : Nat) (s : Sys) (hi : InvQ s) (x : Entry)
    (hx : x ∈ fired (loop K T fuel s).trace ∨ (x ∉ s.queue ∧ x.ctr < s.ctr)) :
    x ∉ (loop K T fuel s).s.queue ∧ x.ctr < (loop K T fuel s).s.ctr := by
  have hperm := loop_perm K T fuel s
  have hnd : (fired (loop K T fuel s).trace ++ (loop K T fuel s).s.queue).Nodup :=
    hperm.nodup_iff.mpr (nodup_queue_spawnedQ hi _)
  have hctr := loop_ctr K T fuel s
  rcases hx with hx | ⟨h1, h2⟩
  · refine ⟨fun hq => (List.nodup_append.mp hnd).2.2 x hx x hq rfl, ?_⟩
    rcases List.mem_append.mp (hperm.subset (List.mem_append_left _ hx)) with h | h
    · have := hi.ctr x h; omega
    · have hm : x.ctr ∈ (spawned K s.ctr (fired (loop K T fuel s).trace)).map (·.ctr) :=
        List.mem_map.mpr ⟨x, h, rfl⟩
      rw [spawned_ctr, List.mem_range'_1] at hm
      omega
  · refine ⟨fun hq => ?_, by omega⟩
    rcases List.mem_append.mp (hperm.subset (List.mem_append_right _ hq)) with h | h
    · exact h1 h
    · have := (mem_spawned h).2; omega

/-- the invariant of a history with clock-reading callbacks: the queue invariant, and every entry
with a row in the table has been executed — it is not queued and its counter is used up -/
structure InvC (hc : HistC) : Prop where
  q : InvQ hc.h.s
  old : ∀ p ∈ hc.tbl, p.1 ∉ hc.h.s.queue ∧ p.1.ctr < hc.h.s.ctr

theorem invC_init : InvC hinitC := ⟨invQ_init, by simp [hinitC]⟩

theorem invC_pre {kidsC : Rat → Entry → List (Rat × Nat)} {fuel : Nat} {hc : HistC} (hi : InvC hc) (T : Rat) :
    ∀ p ∈ hc.tbl, p.1 ∉ fired (evolveUntilC kidsC fuel hc.h.s T).trace := by
  intro p hp hf
  unfold evolveUntilC at hf
  by_cases hT : T < hc.h.s.t
  · simp [hT, fired] at hf
  · simp only [hT, if_false] at hf
    obtain ⟨K, hK⟩ := loopC_exists_kids' kidsC T fuel hc.h.s hi.q
    rw [← hK] at hf
    exact not_fired_of_old K T fuel hc.h.s p.1 (hi.old p hp).1 (hi.old p hp).2 hf

/-- **One call**: the history step taken by `stepOp` with the table read as entry-only callbacks is
the run of the clock-reading callbacks — state and trace. -/
theorem stepOpC_evolve' (kidsC : Rat → Entry → List (Rat × Nat)) (fuel : Nat) (hc : HistC) (hi : InvC hc)
    (T : Rat) :
    (stepOpC kidsC fuel hc (.evolve T)).h.s = (evolveUntilC kidsC fuel hc.h.s T).s ∧
    (stepOpC kidsC fuel hc (.evolve T)).h.trace = hc.h.trace ++ (evolveUntilC kidsC fuel hc.h.s T).trace := by
  have h := evolveUntilC_eq_table' kidsC fuel hc.h.s T hi.q hc.tbl (invC_pre hi T)
  constructor
  · simp only [stepOpC, stepOp, h]
  · simp only [stepOpC, stepOp, h]

theorem invC_step (kidsC : Rat → Entry → List (Rat × Nat)) (fuel : Nat) (hc : HistC) (hi : InvC hc)
    (op : Op) : InvC (stepOpC kidsC fuel hc op) := by
  cases op with
  | add time id =>
    refine ⟨invQ_addCallback hi.q time id, ?_⟩
    intro p hp
    have := hi.old p hp
    simp only [stepOpC, stepOp, addCallback] at hp ⊢
    refine ⟨fun hm => ?_, by omega⟩
    rcases mem_insert.mp hm with h | h
    · rw [h] at this; simp at this
    · exact this.1 h
  | evolve T =>
    have hs := (stepOpC_evolve' kidsC fuel hc hi T).1
    by_cases hT : T < hc.h.s.t
    · have hr : evolveUntilC kidsC fuel hc.h.s T = ⟨.backwards, hc.h.s, []⟩ := by simp [evolveUntilC, hT]
      rw [hr] at hs
      refine ⟨by rw [hs]; exact hi.q, ?_⟩
      intro p hp
      rw [hs]
      simp only [stepOpC, hr, fireTable, List.append_nil] at hp
      exact hi.old p hp
    · have hr : evolveUntilC kidsC fuel hc.h.s T = loopC kidsC T fuel hc.h.s := by simp [evolveUntilC, hT]
      obtain ⟨K, hK⟩ := loopC_exists_kids' kidsC T fuel hc.h.s hi.q
      rw [hr, ← hK] at hs
      refine ⟨by rw [hs]; exact loop_invQ K T fuel _ hi.q, ?_⟩
      intro p hp
      rw [hs]
      simp only [stepOpC, hr, ← hK, List.mem_append] at hp
      rcases hp with hp | hp
      · exact loop_old K T fuel _ hi.q p.1 (Or.inr (hi.old p hp))
      · have : p.1 ∈ fired (loop K T fuel hc.h.s).trace := by
          rw [← fireTable_keys kidsC]; exact List.mem_map.mpr ⟨p, hp, rfl⟩
        exact loop_old K T fuel _ hi.q p.1 (Or.inl this)

/-- **Whole histories**: the history a sequence of calls with clock-reading callbacks produces is
the history `runOps` produces with ONE entry-only `kids` function — the final table. -/
theorem runOpsC_eq_runOps' (kidsC : Rat → Entry → List (Rat × Nat)) (fuel : Nat) (ops : List Op) :
    ∀ hc, InvC hc →
      (∃ ext, (runOpsC kidsC fuel hc ops).tbl = hc.tbl ++ ext) ∧
      runOps (tableKids (runOpsC kidsC fuel hc ops).tbl) fuel hc.h ops = (runOpsC kidsC fuel hc ops).h ∧
      InvC (runOpsC kidsC fuel hc ops) := by
  induction ops with
  | nil => intro hc hi; exact ⟨⟨[], by simp [runOpsC]⟩, rfl, hi⟩
  | cons op ops ih =>
    intro hc hi
    have hi1 := invC_step kidsC fuel hc hi op
    obtain ⟨⟨ext, hext⟩, hrun, hinv⟩ := ih _ hi1
    have hfold : runOpsC kidsC fuel hc (op :: ops) = runOpsC kidsC fuel (stepOpC kidsC fuel hc op) ops := rfl
    rw [hfold]
    refine ⟨?_, ?_, hinv⟩
    · cases op with
      | add time id => exact ⟨ext, by rw [hext]; rfl⟩
      | evolve T =>
        exact ⟨fireTable kidsC (evolveUntilC kidsC fuel hc.h.s T).trace ++ ext, by
          rw [hext]; simp [stepOpC, List.append_assoc]⟩
    · have hstep : stepOp (tableKids (runOpsC kidsC fuel (stepOpC kidsC fuel hc op) ops).tbl) fuel hc.h op =
          (stepOpC kidsC fuel hc op).h := by
        cases op with
        | add time id => simp [stepOpC, stepOp]
        | evolve T =>
          rw [hext]
          have hrunC := evolveUntilC_eq_table' kidsC fuel hc.h.s T hi.q hc.tbl (invC_pre hi T)
          show stepOp (tableKids ((stepOpC kidsC fuel hc (.evolve T)).tbl ++ ext)) fuel hc.h (.evolve T) =
            stepOp (tableKids (stepOpC kidsC fuel hc (.evolve T)).tbl) fuel hc.h (.evolve T)
          apply stepOp_congr_fired
          intro x hx
          apply tableKids_append_of_key
          have htbl : (stepOpC kidsC fuel hc (.evolve T)).tbl =
              hc.tbl ++ fireTable kidsC (evolveUntilC kidsC fuel hc.h.s T).trace := rfl
          rw [htbl] at hx ⊢
          rw [hrunC] at hx
          rw [List.map_append, fireTable_keys]
          exact List.mem_append_right _ hx
      show runOps _ fuel hc.h (op :: ops) = _
      have : runOps (tableKids (runOpsC kidsC fuel (stepOpC kidsC fuel hc op) ops).tbl) fuel hc.h (op :: ops) =
          runOps (tableKids (runOpsC kidsC fuel (stepOpC kidsC fuel hc op) ops).tbl) fuel
            (stepOp (tableKids (runOpsC kidsC fuel (stepOpC kidsC fuel hc op) ops).tbl) fuel hc.h op) ops := rfl
      rw [this, hstep, hrun]

/-! ### a witness that reading the clock matters -/

/-- the docstring idiom: re-insert a quarter after the *clock* -/
def everyQuarterOfClock : Rat → Entry → List (Rat × Nat) := fun clk e => [(clk + 1/4, e.id)]

/-- ... and its entry-only reading: a quarter after the callback's own time -/
def everyQuarter : Entry → List (Rat × Nat) := fun e => [(e.time + 1/4, e.id)]

/-- two callbacks half a threshold apart: the second runs with the clock resting at the first's time -/
def twoClose : Sys := addCallback (addCallback init 1 0) (1 + eps / 2) 1

/-! ### the hypotheses of the history theorems, decided by walking the history -/

theorem runOps_cons (kids : Entry → List (Rat × Nat)) (fuel : Nat) (h : Hist) (op : Op) (ops : List Op) :
    runOps kids fuel h (op :: ops) = runOps kids fuel (stepOp kids fuel h op) ops := rfl

theorem addsFromB_iff' (f : Hist → Rat) (kids : Entry → List (Rat × Nat)) (fuel : Nat) (ops : List Op) :
    ∀ h, addsFromB f kids fuel h ops = true ↔
      ∀ pre t id post, ops = pre ++ Op.add t id :: post → f (runOps kids fuel h pre) ≤ t := by
  induction ops with
  | nil => intro h; simp [addsFromB]
  | cons op ops ih =>
    intro h
    have key : (∀ pre t id post, op :: ops = pre ++ Op.add t id :: post → f (runOps kids fuel h pre) ≤ t) ↔
        ((∀ t id, op = Op.add t id → f h ≤ t) ∧
         ∀ pre t id post, ops = pre ++ Op.add t id :: post →
           f (runOps kids fuel (stepOp kids fuel h op) pre) ≤ t) := by
      constructor
      · intro H
        refine ⟨fun t id ho => ?_, fun pre t id post ho => ?_⟩
        · exact H [] t id ops (by simp [ho])
        · have := H (op :: pre) t id post (by simp [ho])
          rwa [runOps_cons] at this
      · rintro ⟨H1, H2⟩ pre t id post ho
        cases pre with
        | nil =>
          simp at ho
          exact H1 t id ho.1
        | cons p pre' =>
          simp at ho
          obtain ⟨rfl, ho⟩ := ho
          rw [runOps_cons]; exact H2 pre' t id post ho
    rw [key]
    cases op with
    | add t id =>
      simp only [addsFromB, Bool.and_eq_true, decide_eq_true_eq, ih]
      constructor
      · rintro ⟨h1, h2⟩
        exact ⟨fun t' id' ho => by cases ho; exact h1, h2⟩
      · rintro ⟨h1, h2⟩
        exact ⟨h1 t id rfl, h2⟩
    | evolve T =>
      simp only [addsFromB, ih]
      constructor
      · intro h2
        exact ⟨fun t' id' ho => (nomatch ho), h2⟩
      · rintro ⟨-, h2⟩; exact h2

theorem noFuelOutB_iff' (kids : Entry → List (Rat × Nat)) (fuel : Nat) (ops : List Op) :
    ∀ h, noFuelOutB kids fuel h ops = true ↔
      ∀ pre T post, ops = pre ++ Op.evolve T :: post →
        (evolveUntil kids fuel (runOps kids fuel h pre).s T).status ≠ .outOfFuel := by
  induction ops with
  | nil => intro h; simp [noFuelOutB]
  | cons op ops ih =>
    intro h
    have key : (∀ pre T post, op :: ops = pre ++ Op.evolve T :: post →
          (evolveUntil kids fuel (runOps kids fuel h pre).s T).status ≠ .outOfFuel) ↔
        ((∀ T, op = Op.evolve T → (evolveUntil kids fuel h.s T).status ≠ .outOfFuel) ∧
         ∀ pre T post, ops = pre ++ Op.evolve T :: post →
           (evolveUntil kids fuel (runOps kids fuel (stepOp kids fuel h op) pre).s T).status ≠ .outOfFuel) := by
      constructor
      · intro H
        refine ⟨fun T ho => ?_, fun pre T post ho => ?_⟩
        · exact H [] T ops (by simp [ho])
        · have := H (op :: pre) T post (by simp [ho])
          rwa [runOps_cons] at this
      · rintro ⟨H1, H2⟩ pre T post ho
        cases pre with
        | nil =>
          simp at ho
          exact H1 T ho.1
        | cons p pre' =>
          simp at ho
          obtain ⟨rfl, ho⟩ := ho
          rw [runOps_cons]; exact H2 pre' T post ho
    rw [key]
    cases op with
    | add t id =>
      simp only [noFuelOutB, ih]
      constructor
      · intro h2
        exact ⟨fun T ho => (nomatch ho), h2⟩
      · rintro ⟨-, h2⟩; exact h2
    | evolve T =>
      simp only [noFuelOutB, Bool.and_eq_true, decide_eq_true_eq, ih]
      constructor
      · rintro ⟨h1, h2⟩
        exact ⟨fun T' ho => by cases ho; exact h1, h2⟩
      · rintro ⟨h1, h2⟩
        exact ⟨h1 T rfl, h2⟩

theorem addsFromB_iff (f : Hist → Rat) (kids : Entry → List (Rat × Nat)) (fuel : Nat) (ops : List Op) :
    addsFromB f kids fuel hinit ops = true ↔ AddsFrom f kids fuel ops := addsFromB_iff' f kids fuel ops hinit

theorem noFuelOutB_iff (kids : Entry → List (Rat × Nat)) (fuel : Nat) (ops : List Op) :
    noFuelOutB kids fuel hinit ops = true ↔ NoFuelOut kids fuel ops := noFuelOutB_iff' kids fuel ops hinit

end HcipyVerif.Scheduler
