import HcipyVerif.Lemmas.Zernike
import Mathlib.Analysis.SpecialFunctions.Integrals.Basic

/-! Helper lemmas for C13: coefficient integration `pint01` is the interval integral over `[0, 1]`;
orthogonality of `cos mθ`, `sin mθ` on `[0, 2π]`; the radial polynomial and the mode as real functions. -/

set_option linter.unusedSimpArgs false
set_option linter.unusedVariables false

namespace HcipyVerif.Zernike
open intervalIntegral Real

/-- evaluation of a rational-coefficient polynomial at a real point -/
noncomputable def pevalR (p : Poly) (x : ℝ) : ℝ := p.foldr (fun a acc => (a : ℝ) + x * acc) 0

@[simp] theorem pevalR_nil (x : ℝ) : pevalR [] x = 0 := rfl
@[simp] theorem pevalR_cons (a : Rat) (p : Poly) (x : ℝ) : pevalR (a :: p) x = (a : ℝ) + x * pevalR p x := rfl

theorem pevalR_cast (p : Poly) (r : Rat) : pevalR p (r : ℝ) = ((peval p r : Rat) : ℝ) := by
  induction p with
  | nil => simp
  | cons a p ih => rw [pevalR_cons, peval_cons, ih]; push_cast; ring

theorem continuous_pevalR (p : Poly) : Continuous (pevalR p) := by
  induction p with
  | nil => exact continuous_const
  | cons a p ih =>
    show Continuous fun x => (a : ℝ) + x * pevalR p x
    exact continuous_const.add (continuous_id.mul ih)

theorem pevalR_padd (p q : Poly) (x : ℝ) : pevalR (padd p q) x = pevalR p x + pevalR q x := by
  induction p generalizing q with
  | nil => simp [padd]
  | cons a p ih =>
    cases q with
    | nil => simp [padd]
    | cons b q => simp only [padd, pevalR_cons, ih]; push_cast; ring

theorem pevalR_pscale (c : Rat) (p : Poly) (x : ℝ) : pevalR (pscale c p) x = (c : ℝ) * pevalR p x := by
  induction p with
  | nil => simp [pscale]
  | cons a p ih =>
    have : pscale c (a :: p) = (c * a) :: pscale c p := rfl
    rw [this, pevalR_cons, pevalR_cons, ih]; push_cast; ring

theorem pevalR_pshift (k : Nat) (p : Poly) (x : ℝ) : pevalR (pshift k p) x = x ^ k * pevalR p x := by
  induction k with
  | zero => simp [pshift]
  | succ k ih =>
    have : pshift (k + 1) p = 0 :: pshift k p := by simp [pshift, List.replicate_succ]
    rw [this, pevalR_cons, ih]; push_cast; ring

theorem pevalR_pmul (p q : Poly) (x : ℝ) : pevalR (pmul p q) x = pevalR p x * pevalR q x := by
  induction p with
  | nil => simp [pmul]
  | cons a p ih => simp only [pmul, pevalR_padd, pevalR_pscale, pevalR_pshift, ih, pevalR_cons]; ring

/-- coefficient integration with the exponent offset `k` made explicit -/
def pintFrom (k : Nat) (p : Poly) : Rat :=
  ((p.zipIdx k).map fun (a, i) => a / ((i : Rat) + 1)).foldr (· + ·) 0

theorem pint01_eq_pintFrom (p : Poly) : pint01 p = pintFrom 0 p := rfl

theorem integral_pow_mul_pevalR (p : Poly) : ∀ k : Nat,
    ∫ x in (0:ℝ)..1, x ^ k * pevalR p x = (pintFrom k p : ℝ) := by
  induction p with
  | nil => intro k; simp [pintFrom]
  | cons a p ih =>
    intro k
    have hsplit : ∀ x : ℝ, x ^ k * pevalR (a :: p) x = (a : ℝ) * x ^ k + x ^ (k + 1) * pevalR p x := by
      intro x; rw [pevalR_cons]; ring
    simp_rw [hsplit]
    rw [integral_add, integral_const_mul, integral_pow, ih (k + 1)]
    · have : pintFrom k (a :: p) = a / ((k : Rat) + 1) + pintFrom (k + 1) p := by
        simp [pintFrom, List.zipIdx_cons]
      rw [this]; push_cast; simp; ring
    · exact (continuous_const.mul (continuous_pow k)).intervalIntegrable _ _
    · exact ((continuous_pow (k + 1)).mul (continuous_pevalR p)).intervalIntegrable _ _

/-- `pint01` *is* the integral over `[0, 1]` -/
theorem integral_pevalR (p : Poly) : ∫ x in (0:ℝ)..1, pevalR p x = (pint01 p : ℝ) := by
  have := integral_pow_mul_pevalR p 0
  simpa [pint01_eq_pintFrom] using this


/-! ### azimuthal integrals -/


theorem integral_cos_int (k : ℤ) :
    ∫ θ in (0:ℝ)..(2 * π), cos ((k : ℝ) * θ) = if k = 0 then 2 * π else 0 := by
  by_cases hk : k = 0
  · subst hk; simp
  · rw [if_neg hk]
    have hk' : (k : ℝ) ≠ 0 := by exact_mod_cast hk
    rw [integral_comp_mul_left (fun x => cos x) hk', integral_cos]
    have : (k : ℝ) * (2 * π) = ((2 * k : ℤ) : ℝ) * π := by push_cast; ring
    rw [this, sin_int_mul_pi]
    simp

theorem integral_sin_int (k : ℤ) :
    ∫ θ in (0:ℝ)..(2 * π), sin ((k : ℝ) * θ) = 0 := by
  by_cases hk : k = 0
  · subst hk; simp
  · have hk' : (k : ℝ) ≠ 0 := by exact_mod_cast hk
    rw [integral_comp_mul_left (fun x => sin x) hk', integral_sin]
    rw [cos_int_mul_two_pi]
    simp

private theorem ii_cos (k : ℤ) : IntervalIntegrable (fun θ : ℝ => cos ((k : ℝ) * θ)) MeasureTheory.volume 0 (2 * π) :=
  (continuous_cos.comp (continuous_const.mul continuous_id)).intervalIntegrable _ _
private theorem ii_sin (k : ℤ) : IntervalIntegrable (fun θ : ℝ => sin ((k : ℝ) * θ)) MeasureTheory.volume 0 (2 * π) :=
  (continuous_sin.comp (continuous_const.mul continuous_id)).intervalIntegrable _ _

theorem integral_cos_mul_cos_int (a b : ℤ) :
    ∫ θ in (0:ℝ)..(2 * π), cos ((a : ℝ) * θ) * cos ((b : ℝ) * θ)
      = ((if a - b = 0 then 2 * π else 0) + (if a + b = 0 then 2 * π else 0)) / 2 := by
  have h : ∀ θ : ℝ, cos ((a : ℝ) * θ) * cos ((b : ℝ) * θ)
      = (cos (((a - b : ℤ) : ℝ) * θ) + cos (((a + b : ℤ) : ℝ) * θ)) / 2 := by
    intro θ
    have e1 : ((a - b : ℤ) : ℝ) * θ = a * θ - b * θ := by push_cast; ring
    have e2 : ((a + b : ℤ) : ℝ) * θ = a * θ + b * θ := by push_cast; ring
    rw [e1, e2, cos_sub, cos_add]; ring
  simp_rw [h]
  rw [integral_div, integral_add (ii_cos _) (ii_cos _), integral_cos_int, integral_cos_int]

theorem integral_sin_mul_sin_int (a b : ℤ) :
    ∫ θ in (0:ℝ)..(2 * π), sin ((a : ℝ) * θ) * sin ((b : ℝ) * θ)
      = ((if a - b = 0 then 2 * π else 0) - (if a + b = 0 then 2 * π else 0)) / 2 := by
  have h : ∀ θ : ℝ, sin ((a : ℝ) * θ) * sin ((b : ℝ) * θ)
      = (cos (((a - b : ℤ) : ℝ) * θ) - cos (((a + b : ℤ) : ℝ) * θ)) / 2 := by
    intro θ
    have e1 : ((a - b : ℤ) : ℝ) * θ = a * θ - b * θ := by push_cast; ring
    have e2 : ((a + b : ℤ) : ℝ) * θ = a * θ + b * θ := by push_cast; ring
    rw [e1, e2, cos_sub, cos_add]; ring
  simp_rw [h]
  rw [integral_div, integral_sub (ii_cos _) (ii_cos _), integral_cos_int, integral_cos_int]

theorem integral_cos_mul_sin_int (a b : ℤ) :
    ∫ θ in (0:ℝ)..(2 * π), cos ((a : ℝ) * θ) * sin ((b : ℝ) * θ) = 0 := by
  have h : ∀ θ : ℝ, cos ((a : ℝ) * θ) * sin ((b : ℝ) * θ)
      = (sin (((a + b : ℤ) : ℝ) * θ) - sin (((a - b : ℤ) : ℝ) * θ)) / 2 := by
    intro θ
    have e1 : ((a - b : ℤ) : ℝ) * θ = a * θ - b * θ := by push_cast; ring
    have e2 : ((a + b : ℤ) : ℝ) * θ = a * θ + b * θ := by push_cast; ring
    rw [e1, e2, sin_sub, sin_add]; ring
  simp_rw [h]
  rw [integral_div, integral_sub (ii_sin _) (ii_sin _), integral_sin_int, integral_sin_int]
  simp


/-- `zernike_azimuthal(m, θ)` over the reals -/
noncomputable def azimR (m : ℤ) (θ : ℝ) : ℝ :=
  if m = 0 then 1 else if 0 < m then √2 * cos ((m : ℝ) * θ) else √2 * sin (((-m : ℤ) : ℝ) * θ)

/-- the azimuthal factors are orthogonal on `[0, 2π]` with squared norm `2π` -/
theorem integral_azimR_mul (m m' : ℤ) :
    ∫ θ in (0:ℝ)..(2 * π), azimR m θ * azimR m' θ = if m = m' then 2 * π else 0 := by
  have h2 : (√2 : ℝ) * √2 = 2 := Real.mul_self_sqrt (by norm_num)
  have hmul : ∀ x y : ℝ, (√2 * x) * (√2 * y) = 2 * (x * y) := by
    intro x y; rw [show (√2 * x) * (√2 * y) = (√2 * √2) * (x * y) by ring, h2]
  have hmul' : ∀ x y : ℝ, (√2 * x) * (√2 * y) = 2 * (y * x) := by
    intro x y; rw [hmul]; ring
  unfold azimR
  by_cases h0 : m = 0 <;> by_cases h0' : m' = 0
  · subst h0; subst h0'; simp
  · subst h0
    simp only [if_true, one_mul, h0', if_false]
    try rw [if_neg (Ne.symm h0')]
    by_cases hp : 0 < m'
    · simp only [hp, if_true]; rw [integral_const_mul, integral_cos_int, if_neg h0', mul_zero]
    · simp only [hp, if_false]; rw [integral_const_mul, integral_sin_int, mul_zero]
  · subst h0'
    simp only [if_true, mul_one, h0, if_false]
    try rw [if_neg h0]
    by_cases hp : 0 < m
    · simp only [hp, if_true]; rw [integral_const_mul, integral_cos_int, if_neg h0, mul_zero]
    · simp only [hp, if_false]; rw [integral_const_mul, integral_sin_int, mul_zero]
  · simp only [h0, h0', if_false]
    by_cases hp : 0 < m <;> by_cases hp' : 0 < m'
    · simp only [hp, hp', if_true, hmul]
      rw [integral_const_mul, integral_cos_mul_cos_int]
      have : m + m' ≠ 0 := by omega
      rw [if_neg this]
      by_cases e : m = m'
      · rw [if_pos e, if_pos (by omega)]; ring
      · rw [if_neg e, if_neg (by omega)]; ring
    · simp only [hp, hp', if_true, if_false, hmul]
      rw [integral_const_mul, integral_cos_mul_sin_int, if_neg (by omega), mul_zero]
    · simp only [hp, hp', if_true, if_false, hmul']
      rw [integral_const_mul, integral_cos_mul_sin_int, if_neg (by omega), mul_zero]
    · simp only [hp, hp', if_false, hmul]
      rw [integral_const_mul, integral_sin_mul_sin_int]
      have : -m + -m' ≠ 0 := by omega
      rw [if_neg this]
      by_cases e : m = m'
      · rw [if_pos e, if_pos (by omega)]; ring
      · rw [if_neg e, if_neg (by omega)]; ring

theorem continuous_azimR (m : ℤ) : Continuous (azimR m) := by
  unfold azimR
  split
  · exact continuous_const
  · split
    · exact continuous_const.mul (continuous_cos.comp (continuous_const.mul continuous_id))
    · exact continuous_const.mul (continuous_sin.comp (continuous_const.mul continuous_id))


/-! ### the radial polynomial as a real function, and the complete mode -/

theorem pevalR_monomial (n : Nat) (x : ℝ) : pevalR (monomial n) x = x ^ n := by
  unfold monomial; rw [pevalR_pshift]; simp

/-- `R_n^m(x) = Σ_k (-1)^k (n-k)! / (k! ((n+m)/2-k)! ((n-m)/2-k)!) x^(n-2k)` for real `x` -/
noncomputable def radialR (n m : Nat) (x : ℝ) : ℝ :=
  ∑ k ∈ Finset.range ((n - m) / 2 + 1),
    ((-1) ^ k * ((n - k).factorial : ℝ) /
      ((k.factorial : ℝ) * (((n + m) / 2 - k).factorial : ℝ) * (((n - m) / 2 - k).factorial : ℝ))) * x ^ (n - 2 * k)

theorem defCoeff_cast (n m k : Nat) : ((defCoeff n m k : Rat) : ℝ) =
    (-1) ^ k * ((n - k).factorial : ℝ) /
      ((k.factorial : ℝ) * (((n + m) / 2 - k).factorial : ℝ) * (((n - m) / 2 - k).factorial : ℝ)) := by
  unfold defCoeff
  simp only [fact_eq_factorial]
  push_cast
  ring

theorem pevalR_radialDef (n m : Nat) (x : ℝ) : pevalR (radialDef n m) x = radialR n m x := by
  unfold radialDef radialR
  generalize (n - m) / 2 + 1 = K
  induction K with
  | zero => simp
  | succ K ih =>
    rw [List.range_succ, List.foldr_append, Finset.sum_range_succ]
    simp only [List.foldr_cons, List.foldr_nil]
    have key : ∀ (l : List Nat) (acc : Poly),
        pevalR (l.foldr (fun k acc => padd (pscale (defCoeff n m k) (monomial (n - 2 * k))) acc) acc) x
          = pevalR (l.foldr (fun k acc => padd (pscale (defCoeff n m k) (monomial (n - 2 * k))) acc) []) x + pevalR acc x := by
      intro l acc
      induction l with
      | nil => simp
      | cons a l ihl => simp only [List.foldr_cons, pevalR_padd, ihl]; ring
    rw [key, ih, pevalR_padd, pevalR_pscale, pevalR_monomial, defCoeff_cast]
    simp

theorem continuous_radialR (n m : Nat) : Continuous (radialR n m) := by
  unfold radialR
  exact continuous_finsetSum _ fun k _ => continuous_const.mul (continuous_pow _)

/-- `zernike(n, m)` at the normalised polar point `(ρ, θ)`, without cut-off -/
noncomputable def zernikeR (n : Nat) (m : ℤ) (ρ θ : ℝ) : ℝ :=
  √((n : ℝ) + 1) * radialR n m.natAbs ρ * azimR m θ

end HcipyVerif.Zernike
