import HcipyVerif.Model.MftState

/-!
# MFT switches: the invariant that makes every call independent of the call history
-/
set_option linter.unusedSimpArgs false
set_option linter.unusedVariables false

namespace HcipyVerif.Fft

variable {α : Type}

/-- the stored objects are what their tags say: the matrices were built for `matrices_dtype` by `build`,
the buffer has the precision `intermediate_dtype`; absent tags mean nothing is relied upon -/
def MftSt.Good (build : Prec → α) (s : MftSt α) : Prop :=
  (∀ d, s.matricesDtype = some d → s.matrices = some (d, build d)) ∧
  (∀ d, s.interDtype = some d → s.inter = some d)

theorem MftSt.init_good (build : Prec → α) : (MftSt.init (α := α)).Good build := by
  constructor <;> intro d h <;> simp [MftSt.init] at h

theorem mftCompute_good (c : MftCfg) (build : Prec → α) (s : MftSt α) (d : Prec) (hs : s.Good build) :
    (mftCompute c build s d).1.Good build ∧
    (mftCompute c build s d).1.matricesDtype = some d ∧
    (mftCompute c build s d).1.matrices = some (d, build d) ∧
    (c.ndim = 2 → (mftCompute c build s d).1.inter = some d) := by
  obtain ⟨md, m, idt, it⟩ := s
  obtain ⟨hm, hi⟩ := hs
  simp only [MftSt.Good, mftCompute] at *
  by_cases h1 : md = some d <;> by_cases h2 : idt = some d <;> by_cases h3 : c.ndim = 2 <;>
    simp_all <;> grind

theorem mftRemove_good (c : MftCfg) (build : Prec → α) (s : MftSt α) (hs : s.Good build) :
    (mftRemove c s).Good build := by
  obtain ⟨md, m, idt, it⟩ := s
  obtain ⟨hm, hi⟩ := hs
  simp only [MftSt.Good, mftRemove] at *
  by_cases hp : c.pre = true <;> by_cases ha : c.alloc = true <;> by_cases h3 : c.ndim = 2 <;>
    simp_all

/-- every entry of a history from a good state: at use the matrices are the ones a fresh object would
build for this call's precision, and on two axes the buffer has this call's precision -/
theorem mftHistory_at_use (c : MftCfg) (build : Prec → α) :
    ∀ (ds : List Prec) (s : MftSt α), s.Good build →
      ∀ (k : Nat) (hk : k < ds.length),
        ∃ r, (mftHistory c build s ds)[k]? = some r ∧
          r.1.matrices = some (ds[k], build ds[k]) ∧ (c.ndim = 2 → r.1.inter = some ds[k])
  | [], _, _, k, hk => by simp at hk
  | d :: ds, s, hs, 0, _ => by
    obtain ⟨_, _, h3, h4⟩ := mftCompute_good c build s d hs
    exact ⟨mftCall c build s d, by simp [mftHistory], by simpa [mftCall] using h3, by simpa [mftCall] using h4⟩
  | d :: ds, s, hs, k + 1, hk => by
    obtain ⟨h1, _, _, _⟩ := mftCompute_good c build s d hs
    have hg : (mftCall c build s d).2.1.Good build := by
      simpa [mftCall] using mftRemove_good c build _ h1
    obtain ⟨r, hr, h3, h4⟩ := mftHistory_at_use c build ds _ hg k (by simpa using hk)
    exact ⟨r, by simpa [mftHistory] using hr, by simpa using h3, by simpa using h4⟩

end HcipyVerif.Fft
