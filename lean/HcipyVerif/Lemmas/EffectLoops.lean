import HcipyVerif.Lemmas.Effects
import HcipyVerif.Model.Elements

/-!
C06 — the shipped programs with a loop: the checker's state after one round of the loop body is a
fixpoint of the body, on the field heap and on the grid / Stokes heaps (`LoopProg.FixAll`), and the
programs with zero and one round are accepted (`baseAll`, by evaluation).  With
`Effects.loop_safeAll` every unrolling is accepted.
-/
set_option linter.unusedSimpArgs false
set_option linter.unusedVariables false

namespace HcipyVerif.Elements
open HcipyVerif.Effects

macro "fix_tac" : tactic => `(tactic| (
  simp [LoopProg.Fix, stateAfter, check, checkStep, upd, Abs.init]
  <;> (repeat' apply And.intro) <;> (funext i; simp only [upd]; split <;> simp_all)))

macro "fixall_tac" : tactic => `(tactic| (
  refine ⟨by fix_tac, fun a L' h => ?_⟩
  cases a <;> simp [LoopProg.view, viewList, viewInstr] at h <;> (subst h; fix_tac)))

theorem multiscaleFwdL_fix : multiscaleFwdL.FixAll := by unfold multiscaleFwdL msBody; fixall_tac
theorem multiscaleFwdStopL_fix : multiscaleFwdStopL.FixAll := by unfold multiscaleFwdStopL multiscaleFwdL msBody stopPost; fixall_tac
theorem multiscaleBwdStopL_fix : multiscaleBwdStopL.FixAll := by unfold multiscaleBwdStopL msBody; fixall_tac
theorem vvcFwdScalarL_fix : vvcFwdScalarL.FixAll := by unfold vvcFwdScalarL; fixall_tac
theorem vvcFwdPolL_fix : vvcFwdPolL.FixAll := by unfold vvcFwdPolL vvcBodyPol; fixall_tac
theorem vvcFwdScalarStopL_fix : vvcFwdScalarStopL.FixAll := by unfold vvcFwdScalarStopL vvcFwdScalarL stopPost; fixall_tac
theorem vvcFwdPolStopL_fix : vvcFwdPolStopL.FixAll := by unfold vvcFwdPolStopL vvcFwdPolL vvcBodyPol stopPost; fixall_tac
theorem vvcBwdScalarL_fix : vvcBwdScalarL.FixAll := by unfold vvcBwdScalarL vvcBodyPol; fixall_tac
theorem vvcBwdPolL_fix : vvcBwdPolL.FixAll := by unfold vvcBwdPolL vvcBodyPol; fixall_tac
theorem vvcBwdStopScalarL_fix : vvcBwdStopScalarL.FixAll := by unfold vvcBwdStopScalarL vvcBwdScalarL vvcBodyPol; fixall_tac
theorem vvcBwdStopPolL_fix : vvcBwdStopPolL.FixAll := by unfold vvcBwdStopPolL vvcBwdPolL vvcBodyPol; fixall_tac
theorem layersL_fix : layersL.FixAll := by unfold layersL; fixall_tac

theorem loopPrograms_base : ∀ np ∈ loopPrograms, np.2.baseAll = true := by decide

theorem loopPrograms_fix : ∀ np ∈ loopPrograms, np.2.FixAll := by
  intro np h
  simp only [loopPrograms, List.mem_cons, List.mem_nil_iff, or_false] at h
  rcases h with h | h | h | h | h | h | h | h | h | h | h | h | h <;> subst h
  · exact multiscaleFwdL_fix
  · exact multiscaleFwdStopL_fix
  · exact multiscaleFwdL_fix
  · exact multiscaleBwdStopL_fix
  · exact vvcFwdScalarL_fix
  · exact vvcFwdPolL_fix
  · exact vvcFwdScalarStopL_fix
  · exact vvcFwdPolStopL_fix
  · exact vvcBwdScalarL_fix
  · exact vvcBwdPolL_fix
  · exact vvcBwdStopScalarL_fix
  · exact vvcBwdStopPolL_fix
  · exact layersL_fix


end HcipyVerif.Elements
