import HcipyVerif.Lemmas.FraunhoferSelect
import HcipyVerif.Model.FraunhoferPipe
import Mathlib.Algebra.Order.Field.Rat
import Mathlib.Data.Rat.Cast.Order
import Mathlib.Tactic.Ring
import Mathlib.Tactic.Linarith
import Mathlib.Tactic.FieldSimp
import Mathlib.Tactic.NormNum
import Mathlib.Tactic.Positivity
import Mathlib.Algebra.Order.Floor.Ring

/-!
# C03 — bridges from the executable ℚ model (`Model/Fraunhofer.lean`, `Model/FraunhoferPipe.lean`) to the
hypotheses of the ℝ/ℂ theorems

* `rows_origin`, `makeFocalGrid_origin`, `focalFromPupil_origin` — both focal-grid constructors contain the origin
  (sample `⌊M/2⌋` on every axis), any number of axes;
* `paddedSize_some` — what `paddedSize … = some M` means; `classify_full_2d` / `classify_native_2d` — what the
  executable classification (compared with the running code on every run) means in exact arithmetic;
* `powerGain_of_full` — the executable `powerGain` is `1` on every grid classified `full`;
* `fullAt_of_classify`, `nativeAt_of_classify` — the classification implies the predicates `FullAt`/`NativeAt`
  that the theorems about `lensPropagator` assume, for the real-number casts of the rational grids;
* `axisCfg_eq_lensAxisCfg`, `mftLens_fwd`, `fftLens …` — the objects in the theorems are the functions the driver
  runs (`lensAxisCfg`, `lensMftForward`), at `unit = 2π`, `T = expT`.
-/
set_option linter.unusedSimpArgs false
set_option linter.unusedVariables false

namespace HcipyVerif.Fraunhofer
open HcipyVerif.Fft HcipyVerif.FourierLink

/-! ## the constructors contain the origin -/

/-- the grid both constructors build from their per-axis rows `(Δ, M, slack)` -/
def gridOfRows (rows : List (Rat × Nat × Rat)) : RegGrid :=
  { delta := rows.map (·.1), dims := rows.map (·.2.1), zero := rows.map fun (Δ, M, _) => centredZero Δ M }

/-- **Sample `⌊M/2⌋` of every axis is the origin** (`zero = -Δ·⌊M/2⌋`), any number of axes. -/
theorem rows_origin (rows : List (Rat × Nat × Rat)) :
    (gridOfRows rows).point ((gridOfRows rows).dims.map (· / 2)) = rows.map fun _ => 0 := by
  induction rows with
  | nil => rfl
  | cons r rs ih =>
    obtain ⟨Δ, M, sl⟩ := r
    simp only [gridOfRows, RegGrid.point, List.map_cons, List.zip_cons_cons, List.cons.injEq] at ih ⊢
    refine ⟨?_, ih⟩
    unfold centredZero
    ring

/-- the index `⌊M/2⌋` is a sample of the grid whenever the axis is not empty -/
theorem half_lt {M : ℕ} (h : 0 < M) : M / 2 < M := Nat.div_lt_self h (by norm_num)

theorem makeFocalGrid_eq (q a sr : List Rat) :
    (makeFocalGrid q a sr).1 = gridOfRows ((q.zip (a.zip sr)).map fun (q, a, r) =>
      (r / q, (2 * a * q).floor.toNat, truncSlack (2 * a * q))) := rfl

/-- **`make_focal_grid` contains the origin.** -/
theorem makeFocalGrid_origin (q a sr : List Rat) :
    (makeFocalGrid q a sr).1.point ((makeFocalGrid q a sr).1.dims.map (· / 2))
      = (makeFocalGrid q a sr).1.dims.map fun _ => 0 := by
  rw [makeFocalGrid_eq, rows_origin]
  simp [gridOfRows, List.map_map]

theorem focalFromPupil_eq (pupil : RegGrid) (q : Rat) (na : Option Rat) (lf : Rat) :
    ∃ rows, (focalFromPupil pupil q na lf).1 = gridOfRows rows := ⟨_, rfl⟩

/-- **`make_focal_grid_from_pupil_grid` contains the origin.** -/
theorem focalFromPupil_origin (pupil : RegGrid) (q : Rat) (na : Option Rat) (lf : Rat) :
    (focalFromPupil pupil q na lf).1.point ((focalFromPupil pupil q na lf).1.dims.map (· / 2))
      = (focalFromPupil pupil q na lf).1.dims.map fun _ => 0 := by
  obtain ⟨rows, h⟩ := focalFromPupil_eq pupil q na lf
  rw [h, rows_origin]
  simp only [gridOfRows, List.map_map]
  rfl

/-! ## what the classification means -/

theorem paddedSize_some {lf δ Δ : ℚ} {N M : ℕ} (h : paddedSize lf δ Δ N = some M) :
    N ≤ M ∧ (M : ℚ) * (δ * Δ) = lf ∧ 0 < M := by
  unfold paddedSize at h
  dsimp only at h
  by_cases h0 : δ * Δ = 0
  · rw [if_pos h0] at h; cases h
  rw [if_neg h0] at h
  by_cases h1 : (lf / (δ * Δ)).den = 1 ∧ 0 < (lf / (δ * Δ)).num ∧ (N : ℤ) ≤ (lf / (δ * Δ)).num
  swap
  · rw [if_neg h1] at h; cases h
  rw [if_pos h1] at h
  obtain ⟨hden, hpos, hN⟩ := h1
  have hM : (lf / (δ * Δ)).num.toNat = M := by simpa using h
  have hcast : ((M : ℕ) : ℤ) = (lf / (δ * Δ)).num := by rw [← hM]; exact Int.toNat_of_nonneg hpos.le
  have hq : ((M : ℕ) : ℚ) = lf / (δ * Δ) := by
    have h1 := Rat.num_div_den (lf / (δ * Δ))
    rw [hden] at h1
    rw [← h1]
    have : ((M : ℕ) : ℚ) = (((M : ℕ) : ℤ) : ℚ) := by push_cast; rfl
    rw [this, hcast]; simp
  refine ⟨?_, ?_, ?_⟩
  · have : ((N : ℕ) : ℤ) ≤ ((M : ℕ) : ℤ) := by rw [hcast]; exact hN
    exact_mod_cast this
  · rw [hq]; exact div_mul_cancel₀ _ h0
  · have : (0 : ℤ) < ((M : ℕ) : ℤ) := by rw [hcast]; exact hpos
    exact_mod_cast this

/-- **`classify … = (full, Ms)` in two dimensions**: the padded sizes are the focal sizes, on both axes
`N ≤ Mo`, `Mo·δ·Δ = λ f`, and the grid is centred (`zero = -Δ⌊Mo/2⌋`). -/
theorem classify_full_2d {s : Setup} {focal : RegGrid} {δx δy Δx Δy zx zy Zx Zy : ℚ} {Nx Ny Mox Moy : ℕ}
    {Ms : List ℕ} (hp : s.pupil = ⟨[δx, δy], [Nx, Ny], [zx, zy]⟩) (hf : focal = ⟨[Δx, Δy], [Mox, Moy], [Zx, Zy]⟩)
    (h : classify s focal = (.full, Ms)) :
    Ms = [Mox, Moy] ∧ (Nx ≤ Mox ∧ (Mox : ℚ) * (δx * Δx) = lamf s ∧ 0 < Mox) ∧
      (Ny ≤ Moy ∧ (Moy : ℚ) * (δy * Δy) = lamf s ∧ 0 < Moy) ∧ Zx = nativeZero Δx Mox ∧ Zy = nativeZero Δy Moy := by
  subst hf
  unfold classify paddedSizes at h
  rw [hp] at h
  cases hx : paddedSize (lamf s) δx Δx Nx with
  | none => simp [hx] at h
  | some Mx =>
    cases hy : paddedSize (lamf s) δy Δy Ny with
    | none => simp [hx, hy] at h
    | some My =>
      simp only [List.length_cons, List.length_nil, ne_eq, not_true_eq_false, ↓reduceIte, List.zip_cons_cons,
        List.zip_nil_right, List.mapM_cons, List.mapM_nil, hx, hy, Option.pure_def, Option.bind_eq_bind,
        Option.bind_some, List.all_cons, List.all_nil, Bool.and_true] at h
      split_ifs at h with hle hfull
      · simp only [Prod.mk.injEq, true_and] at h
        simp only [Bool.and_eq_true, beq_iff_eq, List.cons.injEq, and_true, decide_eq_true_eq] at hfull
        obtain ⟨⟨hMx, hMy⟩, hZx, hZy⟩ := hfull
        subst hMx hMy
        exact ⟨h.symm, paddedSize_some hx, paddedSize_some hy, hZx, hZy⟩
      · simp at h
      · simp at h

/-- **`classify … ≠ other` in two dimensions**: padded sizes exist and the focal grid fits. -/
theorem classify_native_2d {s : Setup} {focal : RegGrid} {δx δy Δx Δy zx zy Zx Zy : ℚ} {Nx Ny Mox Moy : ℕ}
    (hp : s.pupil = ⟨[δx, δy], [Nx, Ny], [zx, zy]⟩) (hf : focal = ⟨[Δx, Δy], [Mox, Moy], [Zx, Zy]⟩)
    (h : (classify s focal).1 ≠ .other) :
    ∃ Mx My, (classify s focal).2 = [Mx, My] ∧ (Nx ≤ Mx ∧ Mox ≤ Mx ∧ (Mx : ℚ) * (δx * Δx) = lamf s) ∧
      (Ny ≤ My ∧ Moy ≤ My ∧ (My : ℚ) * (δy * Δy) = lamf s) := by
  subst hf
  unfold classify paddedSizes at h ⊢
  rw [hp] at h ⊢
  cases hx : paddedSize (lamf s) δx Δx Nx with
  | none => simp [hx] at h
  | some Mx =>
    cases hy : paddedSize (lamf s) δy Δy Ny with
    | none => simp [hx, hy] at h
    | some My =>
      simp only [List.length_cons, List.length_nil, ne_eq, not_true_eq_false, ↓reduceIte, List.zip_cons_cons,
        List.zip_nil_right, List.mapM_cons, List.mapM_nil, hx, hy, Option.pure_def, Option.bind_eq_bind,
        Option.bind_some, List.all_cons, List.all_nil, Bool.and_true] at h ⊢
      split_ifs at h ⊢ with hle hfull
      all_goals first
        | (simp only [Bool.and_eq_true, decide_eq_true_eq] at hle
           exact ⟨Mx, My, rfl, ⟨(paddedSize_some hx).1, hle.1, (paddedSize_some hx).2.1⟩,
             ⟨(paddedSize_some hy).1, hle.2, (paddedSize_some hy).2.1⟩⟩)
        | (exfalso; exact h rfl)

theorem ratAbs_eq_abs (q : ℚ) : ratAbs q = |q| := by
  unfold ratAbs
  split_ifs with h
  · exact (abs_of_neg h).symm
  · exact (abs_of_nonneg (not_lt.mp h)).symm

/-- **The executable `powerGain` is exactly `1` on every focal grid classified `full`** (two dimensions, any
signs of the spacings): `|1/λf|²·|δxδy|·MxMy·|ΔxΔy| = 1` because `M·δ·Δ = λf` on both axes. -/
theorem powerGain_of_full {s : Setup} {focal : RegGrid} {δx δy Δx Δy zx zy Zx Zy : ℚ} {Nx Ny Mox Moy : ℕ}
    {Ms : List ℕ} (hp : s.pupil = ⟨[δx, δy], [Nx, Ny], [zx, zy]⟩) (hf : focal = ⟨[Δx, Δy], [Mox, Moy], [Zx, Zy]⟩)
    (h : classify s focal = (.full, Ms)) (hlf : lamf s ≠ 0) : powerGain s focal Ms = 1 := by
  obtain ⟨hMs, ⟨_, hx, _⟩, ⟨_, hy, _⟩, _, _⟩ := classify_full_2d hp hf h
  subst hf hMs
  unfold powerGain normFactorSq RegGrid.weight prodRat prodNat
  rw [hp]
  simp only [List.map_cons, List.map_nil, List.foldl_cons, List.foldl_nil, ratAbs_eq_abs, one_mul]
  have h1 : |δx| * |Δx| * (Mox : ℚ) = |lamf s| := by
    rw [← hx, abs_mul, abs_mul, Nat.abs_cast]; ring
  have h2 : |δy| * |Δy| * (Moy : ℚ) = |lamf s| := by
    rw [← hy, abs_mul, abs_mul, Nat.abs_cast]; ring
  have h3 : |lamf s| * |lamf s| = lamf s * lamf s := abs_mul_abs_self _
  push_cast
  calc 1 / lamf s * (1 / lamf s) * (|δx| * |δy|) * ((Mox : ℚ) * (Moy : ℚ)) * (|Δx| * |Δy|)
      = (1 / lamf s * (1 / lamf s)) * ((|δx| * |Δx| * (Mox : ℚ)) * (|δy| * |Δy| * (Moy : ℚ))) := by ring
    _ = 1 := by rw [h1, h2, h3]; field_simp

/-- a concrete full conjugate pair (pupil `2×2`, `δ = 1`; focal `4×4`, `Δ = 1`, centred; `λ f = 4`) -/
theorem classify_example_full :
    classify ⟨4, 1, ⟨[1, 1], [2, 2], [0, 0]⟩⟩ ⟨[1, 1], [4, 4], [-2, -2]⟩ = (.full, [4, 4]) := by
  have h : paddedSize 4 1 1 2 = some 4 := by
    unfold paddedSize
    norm_num
    rfl
  simp [classify, paddedSizes, lamf, h, nativeZero]

/-! ## mirrored uv grids (negative focal spacing or negative `λ f` on an axis) are not FFT grids -/

theorem paddedSize_none_of_neg {lf δ Δ : ℚ} (N : ℕ) (h : lf / (δ * Δ) < 0) : paddedSize lf δ Δ N = none := by
  unfold paddedSize
  dsimp only
  split_ifs with h0 h1
  · rfl
  · exfalso
    have : (0 : ℚ) < lf / (δ * Δ) := Rat.num_pos.mp h1.2.1
    linarith
  · rfl

/-- a uv grid mirrored on the x axis (`λf/(δx·Δx) < 0`) is never classified as an FFT grid -/
theorem classify_other_of_mirrored_x {s : Setup} {focal : RegGrid} {δx δy Δx Δy zx zy Zx Zy : ℚ} {Nx Ny Mox Moy : ℕ}
    (hp : s.pupil = ⟨[δx, δy], [Nx, Ny], [zx, zy]⟩) (hf : focal = ⟨[Δx, Δy], [Mox, Moy], [Zx, Zy]⟩)
    (h : lamf s / (δx * Δx) < 0) : (classify s focal).1 = .other := by
  subst hf
  unfold classify paddedSizes
  rw [hp]
  simp [paddedSize_none_of_neg Nx h]

theorem classify_other_of_mirrored_y {s : Setup} {focal : RegGrid} {δx δy Δx Δy zx zy Zx Zy : ℚ} {Nx Ny Mox Moy : ℕ}
    (hp : s.pupil = ⟨[δx, δy], [Nx, Ny], [zx, zy]⟩) (hf : focal = ⟨[Δx, Δy], [Mox, Moy], [Zx, Zy]⟩)
    (h : lamf s / (δy * Δy) < 0) : (classify s focal).1 = .other := by
  subst hf
  unfold classify paddedSizes
  rw [hp]
  cases hx : paddedSize (lamf s) δx Δx Nx <;> simp [hx, paddedSize_none_of_neg Ny h]

/-! ## `make_focal_grid_from_pupil_grid` builds a full conjugate -/

theorem floor_le_roundHalfEven (q : ℚ) : q.floor ≤ roundHalfEven q := by
  unfold roundHalfEven
  dsimp only
  split_ifs <;> omega

theorem natCast_le_roundHalfEven {N : ℕ} {q : ℚ} (h : (N : ℚ) ≤ q) : (N : ℤ) ≤ roundHalfEven q := by
  have h1 : (N : ℤ) ≤ q.floor := by
    rw [Rat.le_floor_iff]; exact_mod_cast h
  exact h1.trans (floor_le_roundHalfEven q)

theorem paddedSize_of_conj {lf δ : ℚ} {N M : ℕ} (hlf : lf ≠ 0) (hδ : δ ≠ 0) (hM : 0 < M) (hN : N ≤ M) :
    paddedSize lf δ (lf / (δ * (M : ℚ))) N = some M := by
  have hMq : (M : ℚ) ≠ 0 := by exact_mod_cast hM.ne'
  have h0 : δ * (lf / (δ * (M : ℚ))) ≠ 0 := by
    field_simp
    exact div_ne_zero hlf hMq
  have hm : lf / (δ * (lf / (δ * (M : ℚ)))) = ((M : ℕ) : ℚ) := by
    field_simp
  unfold paddedSize
  rw [if_neg h0]
  dsimp only
  rw [hm]
  have : ((M : ℕ) : ℚ).den = 1 ∧ 0 < ((M : ℕ) : ℚ).num ∧ (N : ℤ) ≤ ((M : ℕ) : ℚ).num := by
    refine ⟨Rat.den_natCast M, ?_, ?_⟩
    · rw [Rat.num_natCast]; exact_mod_cast hM
    · rw [Rat.num_natCast]; exact_mod_cast hN
  rw [if_pos this, Rat.num_natCast]
  simp


/-- `make_focal_grid_from_pupil_grid(pupil, q)` (full field of view) in two dimensions, explicitly -/
theorem focalFromPupil_2d (δx δy zx zy : ℚ) (Nx Ny : ℕ) (q lf : ℚ) :
    (focalFromPupil ⟨[δx, δy], [Nx, Ny], [zx, zy]⟩ q none lf).1
      = ⟨[lf / (δx * ((roundHalfEven (q * (Nx : ℚ))).toNat : ℚ)), lf / (δy * ((roundHalfEven (q * (Ny : ℚ))).toNat : ℚ))],
          [(roundHalfEven (q * (Nx : ℚ))).toNat, (roundHalfEven (q * (Ny : ℚ))).toNat],
          [centredZero (lf / (δx * ((roundHalfEven (q * (Nx : ℚ))).toNat : ℚ))) (roundHalfEven (q * (Nx : ℚ))).toNat,
           centredZero (lf / (δy * ((roundHalfEven (q * (Ny : ℚ))).toNat : ℚ))) (roundHalfEven (q * (Ny : ℚ))).toNat]⟩ := by
  have hfl : ∀ M : ℕ, ((M : ℚ) * 1).floor.toNat = M := by
    intro M
    have : ((M : ℚ)).floor = (M : ℤ) := by
      have := Rat.floor_intCast (M : ℤ)
      simpa using this
    rw [mul_one, this]; simp
  simp only [focalFromPupil, List.reverse_cons, List.reverse_nil, List.nil_append, List.cons_append,
    List.zip_cons_cons, List.zip_nil_right, List.map_cons, List.map_nil, hfl]

theorem le_round_of_one_le {q : ℚ} (hq : 1 ≤ q) {N : ℕ} : N ≤ (roundHalfEven (q * (N : ℚ))).toNat := by
  have h1 : (N : ℚ) ≤ q * (N : ℚ) := by
    have : (0 : ℚ) ≤ (N : ℚ) := by positivity
    nlinarith
  have h2 := natCast_le_roundHalfEven h1
  omega

/-- **`make_focal_grid_from_pupil_grid(pupil, q)` (full field of view, `q ≥ 1`) is a full conjugate of the pupil
grid at the `λ f` it was made for** — two dimensions, any non-zero spacings, non-empty axes. -/
theorem classify_focalFromPupil_full {s : Setup} {δx δy zx zy : ℚ} {Nx Ny : ℕ} {q : ℚ}
    (hp : s.pupil = ⟨[δx, δy], [Nx, Ny], [zx, zy]⟩) (hlf : lamf s ≠ 0) (hδx : δx ≠ 0) (hδy : δy ≠ 0)
    (hNx : 0 < Nx) (hNy : 0 < Ny) (hq : 1 ≤ q) :
    classify s (focalFromPupil s.pupil q none (lamf s)).1
      = (.full, [(roundHalfEven (q * (Nx : ℚ))).toNat, (roundHalfEven (q * (Ny : ℚ))).toNat]) := by
  have hx : Nx ≤ (roundHalfEven (q * (Nx : ℚ))).toNat := le_round_of_one_le hq
  have hy : Ny ≤ (roundHalfEven (q * (Ny : ℚ))).toNat := le_round_of_one_le hq
  rw [hp, focalFromPupil_2d]
  unfold classify paddedSizes
  rw [hp]
  simp only [List.length_cons, List.length_nil, ne_eq, not_true_eq_false, ↓reduceIte, List.zip_cons_cons,
    List.zip_nil_right, List.mapM_cons, List.mapM_nil,
    paddedSize_of_conj hlf hδx (lt_of_lt_of_le hNx hx) hx, paddedSize_of_conj hlf hδy (lt_of_lt_of_le hNy hy) hy,
    Option.pure_def, Option.bind_eq_bind, Option.bind_some, List.all_cons, List.all_nil, Bool.and_true]
  simp [centredZero, nativeZero]

/-! ## … and implies the hypotheses of the real-number theorems -/

/-- the real-number axis of a rational one -/
def axisR (n : ℕ) (δ z : ℚ) : RegAxis := ⟨n, (δ : ℝ), (z : ℝ)⟩

theorem nativeAxis_cast {n Mo M : ℕ} {δ z Δ Z lf : ℚ} (hN : n ≤ M) (hMo : Mo ≤ M) (hc : (M : ℚ) * (δ * Δ) = lf) :
    NativeAxis (axisR n δ z) (axisR Mo Δ Z) ((lf : ℚ) : ℝ) M := by
  refine ⟨hN, hMo, ?_⟩
  show (M : ℝ) * (((δ : ℚ) : ℝ) * ((Δ : ℚ) : ℝ)) = ((lf : ℚ) : ℝ)
  exact_mod_cast hc

/-- **`classify = full` ⇒ `FullAt`**: the hypothesis of `fraunhofer_power_sel` / `fraunhofer_inverse_sel` for the
grids and `λ f` of the executable model (which the harness compares with the running code). -/
theorem fullAt_of_classify {s : Setup} {focal : RegGrid} {δx δy Δx Δy zx zy Zx Zy : ℚ} {Nx Ny Mox Moy : ℕ}
    {Ms : List ℕ} (hp : s.pupil = ⟨[δx, δy], [Nx, Ny], [zx, zy]⟩) (hf : focal = ⟨[Δx, Δy], [Mox, Moy], [Zx, Zy]⟩)
    (h : classify s focal = (.full, Ms)) (hlf : lamf s ≠ 0) :
    FullAt (axisR Ny δy zy) (axisR Nx δx zx) (axisR Moy Δy Zy) (axisR Mox Δx Zx) ((lamf s : ℚ) : ℝ) := by
  obtain ⟨_, ⟨hNx, hx, _⟩, ⟨hNy, hy, _⟩, _, _⟩ := classify_full_2d hp hf h
  exact ⟨by exact_mod_cast hlf, nativeAxis_cast hNy le_rfl hy, nativeAxis_cast hNx le_rfl hx⟩

/-- **`classify ≠ other` ⇒ `NativeAt`**: the `numFft` of the executable selection (`lensMethod`) is the `numFft` of
the selection in the theorems (`lensChoice`). -/
theorem nativeAt_of_classify {s : Setup} {focal : RegGrid} {δx δy Δx Δy zx zy Zx Zy : ℚ} {Nx Ny Mox Moy : ℕ}
    (hp : s.pupil = ⟨[δx, δy], [Nx, Ny], [zx, zy]⟩) (hf : focal = ⟨[Δx, Δy], [Mox, Moy], [Zx, Zy]⟩)
    (h : (classify s focal).1 ≠ .other) (hlf : lamf s ≠ 0) :
    NativeAt (axisR Ny δy zy) (axisR Nx δx zx) (axisR Moy Δy Zy) (axisR Mox Δx Zx) ((lamf s : ℚ) : ℝ) := by
  obtain ⟨Mx, My, _, ⟨hNx, hMox, hx⟩, ⟨hNy, hMoy, hy⟩⟩ := classify_native_2d hp hf h
  exact ⟨by exact_mod_cast hlf, My, Mx, nativeAxis_cast hNy hMoy hy, nativeAxis_cast hNx hMox hx⟩

/-! ## the objects of the theorems are the functions the driver runs -/

/-- `axisCfg` (ℝ, radians) is `lensAxisCfg` with `unit = 2π` -/
theorem axisCfg_eq_lensAxisCfg (p F : RegAxis) (lf : ℝ) (M : ℕ) (emu : Bool) :
    axisCfg p F lf M emu = lensAxisCfg (2 * Real.pi) p.n p.δ p.z F.n F.δ F.z lf M ((p.δ : ℝ) : ℂ) emu := rfl

/-- `RegAxis.x` is `regCoord` -/
theorem regAxis_x_eq (a : RegAxis) : a.x = regCoord a.z a.δ := rfl

/-- the forward map of `mftLens` is `lensMftForward expT` on the flat field -/
theorem mftLens_fwd (py px Fy Fx : RegAxis) (lf : ℝ) (E : Fin py.n × Fin px.n → ℂ) (k : Fin Fy.n × Fin Fx.n) :
    (mftLens py px Fy Fx lf).fwd E k
      = lensMftForward expT px.n py.n Fx.n Fy.n (regCoord px.z px.δ) (regCoord py.z py.δ) (regCoord Fx.z Fx.δ)
          (regCoord Fy.z Fy.δ) lf (.scalar ((py.δ * px.δ : ℝ) : ℂ)) (flat2 E) (k.1 * Fx.n + k.2) := rfl

/-- … and the backward map `lensMftBackward expT conj` -/
theorem mftLens_bwd (py px Fy Fx : RegAxis) (lf : ℝ) (G : Fin Fy.n × Fin Fx.n → ℂ) (j : Fin py.n × Fin px.n) :
    (mftLens py px Fy Fx lf).bwd G j
      = lensMftBackward expT (starRingEnd ℂ) px.n py.n Fx.n Fy.n (regCoord px.z px.δ) (regCoord py.z py.δ)
          (regCoord Fx.z Fx.δ) (regCoord Fy.z Fy.δ) lf (.scalar (((1 / lf) ^ 2 * (Fy.δ * Fx.δ) : ℝ) : ℂ))
          (flat2 G) (j.1 * px.n + j.2) := rfl

/-! ## the executed pipeline (`lensForward`/`lensBackward`, Model/FraunhoferPipe.lean) at ℝ/ℂ

The driver runs `lensForward`/`lensBackward` at `K = Rat`, `C = PSum`, `T = E = PSum.turns`, `unit = 1`; here the same
functions at `K = ℝ`, `C = ℂ`, `T = expT`, `E = expE`, `unit = 2π`.  `lens_transform`: whatever method the modelled
selection returns from sound inputs, the executed pipeline is `norm · T.fwd` / `norm⁻¹ · T.bwd` of a Fourier
transform `T` that evaluates the Fourier sum and the adjoint sum on the scaled grid. -/

/-- a real regular axis as the polymorphic axis the pipeline takes -/
@[reducible] def axOf (a : RegAxis) : Ax ℝ := ⟨a.n, a.δ, a.z⟩

theorem lensForward_fft (py px Fy Fx : RegAxis) (lf : ℝ) (My Mx : ℕ) (emu : Bool)
    (oky : AxisOK (axisCfg py Fy lf My emu)) (okx : AxisOK (axisCfg px Fx lf Mx emu)) (norm : ℂ)
    (E : Fin py.n × Fin px.n → ℂ) (k : Fin Fy.n × Fin Fx.n) :
    lensForward expT expE (2 * Real.pi) Complex.ofReal norm .fft emu (axOf py) (axOf px) (axOf Fy) (axOf Fx) lf My Mx
        (ext2 E) k.1 k.2
      = norm * (fftTransform2 (axisCfg py Fy lf My emu) (axisCfg px Fx lf Mx emu) oky okx rfl).fwd E k := by
  rw [mul_comm norm]; rfl

theorem lensBackward_fft (py px Fy Fx : RegAxis) (lf : ℝ) (My Mx : ℕ) (emu : Bool)
    (oky : AxisOK (axisCfg py Fy lf My emu)) (okx : AxisOK (axisCfg px Fx lf Mx emu)) (norm : ℂ)
    (G : Fin Fy.n × Fin Fx.n → ℂ) (j : Fin py.n × Fin px.n) :
    lensBackward expT expE (starRingEnd ℂ) (2 * Real.pi) Complex.ofReal (fun r => |r|) norm .fft emu (axOf py) (axOf px)
        (axOf Fy) (axOf Fx) lf My Mx (ext2 G) j.1 j.2
      = norm⁻¹ * (fftTransform2 (axisCfg py Fy lf My emu) (axisCfg px Fx lf Mx emu) oky okx rfl).bwd G j := by
  rw [mul_comm norm⁻¹]; rfl

theorem lensForward_mft (py px Fy Fx : RegAxis) (lf : ℝ) (My Mx : ℕ) (emu : Bool) (norm : ℂ)
    (E : Fin py.n × Fin px.n → ℂ) (k : Fin Fy.n × Fin Fx.n) :
    lensForward expT expE (2 * Real.pi) Complex.ofReal norm .mft emu (axOf py) (axOf px) (axOf Fy) (axOf Fx) lf My Mx
        (ext2 E) k.1 k.2
      = norm * (mftLens py px Fy Fx lf).fwd E k := by
  rw [mul_comm norm]; rfl

theorem lensBackward_mft (py px Fy Fx : RegAxis) (lf : ℝ) (My Mx : ℕ) (emu : Bool) (norm : ℂ)
    (hy : 0 < Fy.δ) (hx : 0 < Fx.δ) (G : Fin Fy.n × Fin Fx.n → ℂ) (j : Fin py.n × Fin px.n) :
    lensBackward expT expE (starRingEnd ℂ) (2 * Real.pi) Complex.ofReal (fun r => |r|) norm .mft emu (axOf py) (axOf px)
        (axOf Fy) (axOf Fx) lf My Mx (ext2 G) j.1 j.2
      = norm⁻¹ * (mftLens py px Fy Fx lf).bwd G j := by
  have hw : (1 / lf) * (1 / lf) * (|Fy.δ| * |Fx.δ|) = (1 / lf) ^ 2 * (Fy.δ * Fx.δ) := by
    rw [abs_of_pos hy, abs_of_pos hx]; ring
  rw [mul_comm norm⁻¹]
  unfold lensBackward
  simp only [hw]
  rfl

/-- what the modelled `make_fourier_transform` can return for two regular Cartesian 2-D grids -/
theorem choose_regular_cases {numFft cheaper : Bool} {m : Method}
    (hm : (Fft.choose detectFix regDesc (some ⟨regDesc, numFft⟩) cheaper).map (·.method) = some m) :
    m = .mft ∨ (m = .fft ∧ numFft = true) := by
  cases numFft <;> cases cheaper <;>
    simp [Fft.choose, detectFix, detectLit, regDesc, GridDesc.isRegular, GridDesc.isSeparated] at hm <;>
    simp [← hm]

/-- **The executed pipeline is a Fourier transform of the theorems.**  `numFft`/`My Mx` are the inputs the executable
selection gets from `classify` (`classify_native_2d`: they satisfy `hn`); `cheaper` is the planner's outcome. -/
theorem lens_transform (py px Fy Fx : RegAxis) (lf : ℝ) (My Mx : ℕ) (emu numFft cheaper : Bool) (m : Method)
    (hm : (Fft.choose detectFix regDesc (some ⟨regDesc, numFft⟩) cheaper).map (·.method) = some m)
    (hn : numFft = true → lf ≠ 0 ∧ NativeAxis py Fy lf My ∧ NativeAxis px Fx lf Mx) :
    ∃ T : FourierTransform (Fin py.n × Fin px.n) (Fin Fy.n × Fin Fx.n),
      EvaluatesFourierSum T (regGrid2 py px) ((regGrid2 Fy Fx).scaled (2 * Real.pi / lf)) ∧
      EvaluatesAdjointSum T (regGrid2 py px) ((regGrid2 Fy Fx).scaled (2 * Real.pi / lf)) ∧
      (∀ (norm : ℂ) E k, lensForward expT expE (2 * Real.pi) Complex.ofReal norm m emu (axOf py) (axOf px) (axOf Fy)
          (axOf Fx) lf My Mx (ext2 E) k.1 k.2 = norm * T.fwd E k) ∧
      (0 < Fy.δ → 0 < Fx.δ → ∀ (norm : ℂ) G j, lensBackward expT expE (starRingEnd ℂ) (2 * Real.pi) Complex.ofReal
          (fun r => |r|) norm m emu (axOf py) (axOf px) (axOf Fy) (axOf Fx) lf My Mx (ext2 G) j.1 j.2
            = norm⁻¹ * T.bwd G j) := by
  rcases choose_regular_cases hm with rfl | ⟨rfl, hnum⟩
  · exact ⟨mftLens py px Fy Fx lf, mftLens_evaluates _ _ _ _ _, mftLens_adjoint _ _ _ _ _,
      fun norm E k => lensForward_mft py px Fy Fx lf My Mx emu norm E k,
      fun hy hx norm G j => lensBackward_mft py px Fy Fx lf My Mx emu norm hy hx G j⟩
  · obtain ⟨hlf, hy, hx⟩ := hn hnum
    refine ⟨fftTransform2 (axisCfg py Fy lf My emu) (axisCfg px Fx lf Mx emu) (axisCfg_ok hy hlf emu)
      (axisCfg_ok hx hlf emu) rfl, ?_, ?_, fun norm E k => lensForward_fft py px Fy Fx lf My Mx emu _ _ norm E k,
      fun _ _ norm G j => lensBackward_fft py px Fy Fx lf My Mx emu _ _ norm G j⟩
    · rw [← uvGrid2_axisCfg py px Fy Fx lf My Mx emu, ← pupilGrid2_axisCfg py px Fy Fx lf My Mx emu]
      exact fft2_evaluates _ _ _ _ _
    · rw [← uvGrid2_axisCfg py px Fy Fx lf My Mx emu, ← pupilGrid2_axisCfg py px Fy Fx lf My Mx emu]
      exact fft2_adjoint _ _ _ _ _

/-- Parseval on a full conjugate pair for **any** transform that evaluates the Fourier sum there -/
theorem parseval_of_full {py px Fy Fx : RegAxis} {lf : ℝ} (h : FullAt py px Fy Fx lf)
    {T : FourierTransform (Fin py.n × Fin px.n) (Fin Fy.n × Fin Fx.n)}
    (hT : EvaluatesFourierSum T (regGrid2 py px) ((regGrid2 Fy Fx).scaled (2 * Real.pi / lf))) :
    ParsevalOn T (regGrid2 py px) ((regGrid2 Fy Fx).scaled (2 * Real.pi / lf)) := by
  have hE : EvaluatesFourierSum (fftFull py px Fy Fx lf h) (regGrid2 py px)
      ((regGrid2 Fy Fx).scaled (2 * Real.pi / lf)) := by
    rw [← uvGrid2_axisCfg py px Fy Fx lf Fy.n Fx.n false, ← pupilGrid2_axisCfg py px Fy Fx lf Fy.n Fx.n false]
    exact fft2_evaluates _ _ _ _ _
  refine parsevalOn_of_evaluates hT hE ?_
  rw [← uvGrid2_axisCfg py px Fy Fx lf Fy.n Fx.n false, ← pupilGrid2_axisCfg py px Fy Fx lf Fy.n Fx.n false]
  exact fft2_parseval _ _ _ _ _ rfl rfl

/-- … and `backward ∘ forward = id` for any transform that evaluates both sums -/
theorem inverse_of_full {py px Fy Fx : RegAxis} {lf : ℝ} (h : FullAt py px Fy Fx lf)
    {T : FourierTransform (Fin py.n × Fin px.n) (Fin Fy.n × Fin Fx.n)}
    (hT : EvaluatesFourierSum T (regGrid2 py px) ((regGrid2 Fy Fx).scaled (2 * Real.pi / lf)))
    (hA : EvaluatesAdjointSum T (regGrid2 py px) ((regGrid2 Fy Fx).scaled (2 * Real.pi / lf))) :
    InverseOn T := by
  have hE : EvaluatesFourierSum (fftFull py px Fy Fx lf h) (regGrid2 py px)
      ((regGrid2 Fy Fx).scaled (2 * Real.pi / lf)) := by
    rw [← uvGrid2_axisCfg py px Fy Fx lf Fy.n Fx.n false, ← pupilGrid2_axisCfg py px Fy Fx lf Fy.n Fx.n false]
    exact fft2_evaluates _ _ _ _ _
  have hA' : EvaluatesAdjointSum (fftFull py px Fy Fx lf h) (regGrid2 py px)
      ((regGrid2 Fy Fx).scaled (2 * Real.pi / lf)) := by
    rw [← uvGrid2_axisCfg py px Fy Fx lf Fy.n Fx.n false, ← pupilGrid2_axisCfg py px Fy Fx lf Fy.n Fx.n false]
    exact fft2_adjoint _ _ _ _ _
  exact inverseOn_of_evaluates hT hE hA hA' (fft2_inverse _ _ _ _ _ rfl rfl)

/-! ## the character in turns: periodicity, `exp(-2πi/4) = -i` (for `impulseResponse`) -/

open Complex in
theorem expT_int (n : ℤ) : expT (n : ℝ) = 1 := by
  unfold expT
  have : (2 * (Real.pi : ℂ) * ((n : ℝ) : ℂ) * I) = (n : ℂ) * (2 * (Real.pi : ℂ) * I) := by push_cast; ring
  rw [this, Complex.exp_int_mul_two_pi_mul_I]

open Complex in
theorem expT_frac (q : ℚ) : expT ((frac q : ℚ) : ℝ) = expT ((q : ℚ) : ℝ) := by
  unfold frac
  have h : (((q - (q.floor : ℚ) : ℚ)) : ℝ) = (q : ℝ) + ((-q.floor : ℤ) : ℝ) := by push_cast; ring
  rw [h, expT_isChar.add, expT_int, mul_one]

open Complex in
theorem expT_neg_quarter : expT (-(1 / 4)) = -I := by
  unfold expT
  have : (2 * (Real.pi : ℂ) * ((-(1 / 4) : ℝ) : ℂ) * I) = -((Real.pi : ℂ) / 2 * I) := by push_cast; ring
  rw [this, Complex.exp_neg, Complex.exp_mul_I]
  have h1 : Complex.cos ((Real.pi : ℂ) / 2) = 0 := by
    have := Complex.ofReal_cos (Real.pi / 2); rw [Real.cos_pi_div_two] at this; push_cast at this; exact this.symm
  have h2 : Complex.sin ((Real.pi : ℂ) / 2) = 1 := by
    have := Complex.ofReal_sin (Real.pi / 2); rw [Real.sin_pi_div_two] at this; push_cast at this; exact this.symm
  rw [h1, h2]; simp


theorem ratAbs_of_pos {q : ℚ} (h : 0 < q) : ratAbs q = q := by
  unfold ratAbs; rw [if_neg (not_lt.mpr h.le)]


/-! ## near-miss grids: the classification is exact -/

theorem truncSlack_intCast (n : ℤ) : truncSlack (n : ℚ) = 0 := by
  unfold truncSlack frac
  rw [Rat.floor_intCast]
  simp

theorem truncSlack_eq_zero_of_den {q : ℚ} (h : q.den = 1) : truncSlack q = 0 := by
  rw [← Rat.coe_int_num_of_den_eq_one h]
  exact truncSlack_intCast _

theorem paddedSize_none_of_slack {lf δ Δ : ℚ} (N : ℕ) (h : truncSlack (lf / (δ * Δ)) ≠ 0) :
    paddedSize lf δ Δ N = none := by
  unfold paddedSize
  dsimp only
  split_ifs with h0 h1
  · rfl
  · exact absurd (truncSlack_eq_zero_of_den h1.1) h
  · rfl

theorem paddedSize_of_eq {lf δ Δ : ℚ} {N M : ℕ} (h0 : δ * Δ ≠ 0) (hM : 0 < M) (hN : N ≤ M)
    (h : (M : ℚ) * (δ * Δ) = lf) : paddedSize lf δ Δ N = some M := by
  have hm : lf / (δ * Δ) = ((M : ℕ) : ℚ) := by rw [← h]; exact mul_div_cancel_right₀ _ h0
  unfold paddedSize
  rw [if_neg h0]
  dsimp only
  rw [hm]
  have : ((M : ℕ) : ℚ).den = 1 ∧ 0 < ((M : ℕ) : ℚ).num ∧ (N : ℤ) ≤ ((M : ℕ) : ℚ).num := by
    refine ⟨Rat.den_natCast M, ?_, ?_⟩
    · rw [Rat.num_natCast]; exact_mod_cast hM
    · rw [Rat.num_natCast]; exact_mod_cast hN
  rw [if_pos this, Rat.num_natCast]
  simp

/-- the slack is zero exactly at the integers -/
theorem truncSlack_eq_zero_iff (q : ℚ) : truncSlack q = 0 ↔ q.den = 1 := by
  constructor
  · intro h
    unfold truncSlack frac at h
    dsimp only at h
    have hf1 : q - (q.floor : ℚ) < 1 := by
      have := Rat.lt_floor_add_one q
      push_cast at this
      linarith
    have hq : q = (q.floor : ℚ) := by
      split_ifs at h with hlt
      · linarith
      · linarith
    rw [hq]; exact Rat.den_intCast _
  · exact truncSlack_eq_zero_of_den

theorem classify_other_of_slack_x {s : Setup} {focal : RegGrid} {δx δy Δx Δy zx zy Zx Zy : ℚ} {Nx Ny Mox Moy : ℕ}
    (hp : s.pupil = ⟨[δx, δy], [Nx, Ny], [zx, zy]⟩) (hf : focal = ⟨[Δx, Δy], [Mox, Moy], [Zx, Zy]⟩)
    (h : truncSlack (lamf s / (δx * Δx)) ≠ 0) : (classify s focal).1 = .other := by
  subst hf
  unfold classify paddedSizes
  rw [hp]
  simp [paddedSize_none_of_slack Nx h]

theorem classify_other_of_slack_y {s : Setup} {focal : RegGrid} {δx δy Δx Δy zx zy Zx Zy : ℚ} {Nx Ny Mox Moy : ℕ}
    (hp : s.pupil = ⟨[δx, δy], [Nx, Ny], [zx, zy]⟩) (hf : focal = ⟨[Δx, Δy], [Mox, Moy], [Zx, Zy]⟩)
    (h : truncSlack (lamf s / (δy * Δy)) ≠ 0) : (classify s focal).1 = .other := by
  subst hf
  unfold classify paddedSizes
  rw [hp]
  cases hx : paddedSize (lamf s) δx Δx Nx <;> simp [hx, paddedSize_none_of_slack Ny h]

theorem commSlack_2d {s : Setup} {focal : RegGrid} {δx δy Δx Δy zx zy Zx Zy : ℚ} {Nx Ny Mox Moy : ℕ}
    (hp : s.pupil = ⟨[δx, δy], [Nx, Ny], [zx, zy]⟩) (hf : focal = ⟨[Δx, Δy], [Mox, Moy], [Zx, Zy]⟩) :
    commSlack s focal = [truncSlack (lamf s / (δx * Δx)), truncSlack (lamf s / (δy * Δy))] := by
  subst hf
  unfold commSlack
  rw [hp]
  rfl

/-- commensurate on both axes, focal sizes within the padded sizes ⇒ classified native (or full) with those sizes -/
theorem classify_of_comm {s : Setup} {focal : RegGrid} {δx δy Δx Δy zx zy Zx Zy : ℚ} {Nx Ny Mox Moy Mx My : ℕ}
    (hp : s.pupil = ⟨[δx, δy], [Nx, Ny], [zx, zy]⟩) (hf : focal = ⟨[Δx, Δy], [Mox, Moy], [Zx, Zy]⟩)
    (hx : paddedSize (lamf s) δx Δx Nx = some Mx) (hy : paddedSize (lamf s) δy Δy Ny = some My)
    (hox : Mox ≤ Mx) (hoy : Moy ≤ My) : (classify s focal).1 ≠ .other ∧ (classify s focal).2 = [Mx, My] := by
  subst hf
  unfold classify paddedSizes
  rw [hp]
  simp only [List.length_cons, List.length_nil, ne_eq, not_true_eq_false, ↓reduceIte, List.zip_cons_cons,
    List.zip_nil_right, List.mapM_cons, List.mapM_nil, hx, hy, Option.pure_def, Option.bind_eq_bind,
    Option.bind_some, List.all_cons, List.all_nil, Bool.and_true]
  have hle : (decide (Mox ≤ Mx) && decide (Moy ≤ My)) = true := by simp [hox, hoy]
  rw [if_pos hle]
  constructor
  · split_ifs <;> simp
  · rfl

/-! ## the tolerant test with zero tolerance is the exact one -/

theorem roundHalfEven_intCast (n : ℤ) : roundHalfEven (n : ℚ) = n := by
  unfold roundHalfEven
  rw [Rat.floor_intCast]
  simp

theorem paddedSizeLoose_zero (lf δ Δ : ℚ) (N : ℕ) : paddedSizeLoose 0 0 lf δ Δ N = paddedSize lf δ Δ N := by
  unfold paddedSizeLoose paddedSize
  by_cases h0 : δ * Δ = 0
  · rw [if_pos h0, if_pos h0]
  rw [if_neg h0, if_neg h0]
  dsimp only
  generalize lf / (δ * Δ) = m
  rw [ratAbs_eq_abs, zero_mul, add_zero]
  by_cases hd : m.den = 1
  · have hm : m = ((m.num : ℤ) : ℚ) := (Rat.coe_int_num_of_den_eq_one hd).symm
    have hr : roundHalfEven m = m.num := by rw [hm, roundHalfEven_intCast]; simp
    have habs : |m - ((m.num : ℤ) : ℚ)| ≤ 0 := by rw [← hm]; simp
    simp only [hd, hr, habs, true_and]
  · have hne : ¬ |m - ((roundHalfEven m : ℤ) : ℚ)| ≤ 0 := by
      intro h
      have : m = ((roundHalfEven m : ℤ) : ℚ) := by
        have := abs_nonpos_iff.mp h
        linarith
      exact hd (by rw [this]; exact Rat.den_intCast _)
    simp only [hd, hne, false_and, if_false]

end HcipyVerif.Fraunhofer
