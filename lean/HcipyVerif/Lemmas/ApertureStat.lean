import HcipyVerif.Lemmas.ApertureMain

/-!
Lemmas for the statistics 'sum', 'min', 'max' of `evaluate_supersampled` (Model/Aperture.lean,
`supersampledStat`).
-/
set_option linter.unusedSimpArgs false
set_option linter.unusedVariables false

namespace HcipyVerif.Aperture

/-- a pointwise operation that returns one of its arguments only produces values it was given -/
theorem zipWith_sel {g : Rat → Rat → Rat} (hg : ∀ u v, g u v = u ∨ g u v = v) (a b : List Rat) :
    ∀ w ∈ List.zipWith g a b, w ∈ a ∨ w ∈ b := by
  induction a generalizing b with
  | nil => simp
  | cons x a ih =>
    cases b with
    | nil => simp
    | cons y b =>
      intro w hw
      simp only [List.zipWith_cons_cons, List.mem_cons] at hw
      rcases hw with rfl | hw
      · rcases hg x y with h | h <;> rw [h] <;> simp
      · rcases ih b w hw with h | h
        · exact Or.inl (List.mem_cons_of_mem _ h)
        · exact Or.inr (List.mem_cons_of_mem _ h)

theorem foldl_zipWith_sel {g : Rat → Rat → Rat} (hg : ∀ u v, g u v = u ∨ g u v = v)
    (r : List (List Rat)) (f : List Rat) :
    ∀ w ∈ r.foldl (List.zipWith g) f, w ∈ f ∨ ∃ f' ∈ r, w ∈ f' := by
  induction r generalizing f with
  | nil => intro w hw; exact Or.inl hw
  | cons h r ih =>
    intro w hw
    rw [List.foldl_cons] at hw
    rcases ih _ w hw with h1 | ⟨f', hf', h1⟩
    · rcases zipWith_sel hg f h w h1 with h2 | h2
      · exact Or.inl h2
      · exact Or.inr ⟨h, List.mem_cons_self, h2⟩
    · exact Or.inr ⟨f', List.mem_cons_of_mem _ hf', h1⟩

theorem min_sel (u v : Rat) : (if u ≤ v then u else v) = u ∨ (if u ≤ v then u else v) = v := by
  by_cases h : u ≤ v <;> simp [h]

theorem max_sel (u v : Rat) : (if u ≤ v then v else u) = u ∨ (if u ≤ v then v else u) = v := by
  by_cases h : u ≤ v <;> simp [h]

/-- every value of the 'min' / 'max' combination is a value of one of the fields -/
theorem combineFields_minmax_sel {st : Stat} (hst : st = .min ∨ st = .max) (n : Nat)
    (fs : List (List Rat)) : ∀ w ∈ combineFields st n fs, ∃ f ∈ fs, w ∈ f := by
  intro w hw
  rcases hst with rfl | rfl
  · cases fs with
    | nil => simp [combineFields] at hw
    | cons f r =>
      simp only [combineFields] at hw
      rcases foldl_zipWith_sel min_sel r f w hw with h | ⟨f', hf', h⟩
      · exact ⟨f, List.mem_cons_self, h⟩
      · exact ⟨f', List.mem_cons_of_mem _ hf', h⟩
  · cases fs with
    | nil => simp [combineFields] at hw
    | cons f r =>
      simp only [combineFields] at hw
      rcases foldl_zipWith_sel max_sel r f w hw with h | ⟨f', hf', h⟩
      · exact ⟨f, List.mem_cons_self, h⟩
      · exact ⟨f', List.mem_cons_of_mem _ hf', h⟩

/-- what a successful `evaluate_supersampled(…, statistic=st)` is made of -/
theorem supersampledStat_ok {st : Stat} {s : Shape} {nx ny : Nat} {xs ys f : List Rat}
    (h : supersampledStat st s nx ny xs ys = .ok f) :
    ∃ gs, ditherGrids nx ny xs ys = some gs ∧ 1 ≤ nx ∧ 1 ≤ ny ∧
      f = combineFields st (xs.length * ys.length) (gs.map fun g => evalSep s g.1 g.2) := by
  unfold supersampledStat at h
  split at h
  · cases h
  · rename_i gs hg
    split at h
    · cases h
    · rename_i hn
      injection h with h
      exact ⟨gs, hg, by omega, by omega, h.symm⟩

/-- statistic 'mean' is the `supersampled` of the other theorems -/
theorem supersampledStat_mean (s : Shape) (nx ny : Nat) (xs ys : List Rat) :
    supersampledStat .mean s nx ny xs ys = supersampled s nx ny xs ys := by
  unfold supersampledStat supersampled
  cases ditherGrids nx ny xs ys with
  | none => rfl
  | some gs => simp [combineFields]

/-- a one-point axis is an IndexError whatever the statistic -/
theorem supersampledStat_index_iff (st : Stat) (s : Shape) (nx ny : Nat) (xs ys : List Rat) :
    supersampledStat st s nx ny xs ys = .error .index ↔ (xs.length < 2 ∨ ys.length < 2) := by
  rw [← (supersampled_error_iff s nx ny xs ys).1]
  unfold supersampledStat supersampled
  cases ditherGrids nx ny xs ys with
  | none => simp
  | some gs =>
    by_cases hn : nx = 0 ∨ ny = 0
    · by_cases hm : st = .mean <;> simp [if_pos hn, hm]
    · simp only [if_neg hn, reduceCtorEq]

/-- an oversampling factor 0 (on axes with ≥ 2 points): ZeroDivisionError for 'mean',
AttributeError for 'sum' / 'min' / 'max' -/
theorem supersampledStat_zero_iff (st : Stat) (s : Shape) (nx ny : Nat) (xs ys : List Rat) :
    (supersampledStat st s nx ny xs ys = .error .zeroDiv ↔
      (st = .mean ∧ 2 ≤ xs.length ∧ 2 ≤ ys.length ∧ (nx = 0 ∨ ny = 0))) ∧
    (supersampledStat st s nx ny xs ys = .error .attribute ↔
      (st ≠ .mean ∧ 2 ≤ xs.length ∧ 2 ≤ ys.length ∧ (nx = 0 ∨ ny = 0))) := by
  have hiff := ditherGrids_isSome_iff nx ny xs ys
  unfold supersampledStat
  cases hg : ditherGrids nx ny xs ys with
  | none =>
    rw [hg] at hiff
    simp only [Option.isSome_none, Bool.false_eq_true, false_iff, not_and, not_le] at hiff
    constructor
    · simp only [reduceCtorEq, Except.error.injEq, false_iff]
      rintro ⟨_, hx, hy, _⟩
      have := hiff hx
      omega
    · simp only [reduceCtorEq, Except.error.injEq, false_iff]
      rintro ⟨_, hx, hy, _⟩
      have := hiff hx
      omega
  | some gs =>
    rw [hg] at hiff
    simp only [Option.isSome_some, true_iff] at hiff
    by_cases hn : nx = 0 ∨ ny = 0
    · by_cases hm : st = .mean
      · simp [if_pos hn, hm, hiff.1, hiff.2]; exact hn
      · simp [if_pos hn, hm, hiff.1, hiff.2]; exact hn
    · simp only [if_neg hn, reduceCtorEq, false_iff]
      constructor <;> tauto

/-- **'min' and 'max' only select**: each value is the aperture's value at some physical point -/
theorem supersampledStat_minmax_val {st : Stat} (hst : st = .min ∨ st = .max) {s : Shape} (hw : WF s)
    {nx ny : Nat} {xs ys f : List Rat} (h : supersampledStat st s nx ny xs ys = .ok f) :
    ∀ v ∈ f, ∃ p, v = val s p := by
  obtain ⟨gs, hg, h1, h2, rfl⟩ := supersampledStat_ok h
  intro v hv
  obtain ⟨fl, hfl, hvf⟩ := combineFields_minmax_sel hst _ _ v hv
  simp only [List.mem_map] at hfl
  obtain ⟨g, _, rfl⟩ := hfl
  rw [evalSep_eq_val s _ _ hw] at hvf
  simp only [List.mem_map] at hvf
  obtain ⟨p, _, rfl⟩ := hvf
  exact ⟨p, rfl⟩

/-- 'mean' is 'sum' divided by the number of dithers `ny·nx` -/
theorem supersampledStat_sum_mean {s : Shape} {nx ny : Nat} {xs ys f : List Rat}
    (h : supersampledStat .sum s nx ny xs ys = .ok f) :
    supersampled s nx ny xs ys = .ok (f.map fun v => v / ((ny * nx : Nat) : Rat)) := by
  obtain ⟨gs, hg, h1, h2, rfl⟩ := supersampledStat_ok h
  have hlen := ditherGrids_length hg
  unfold supersampled
  rw [hg]
  simp only
  rw [if_neg (by omega)]
  simp only [combineFields, meanFields, sumFields, List.length_map, hlen]

/-- the 'sum' of a binary aperture counts sub-samples: between 0 and `ny·nx` -/
theorem supersampledStat_sum_bounds {s : Shape} (hb : Binary s) (hw : WF s) {nx ny : Nat}
    {xs ys f : List Rat} (h : supersampledStat .sum s nx ny xs ys = .ok f) :
    ∀ v ∈ f, 0 ≤ v ∧ v ≤ ((ny * nx : Nat) : Rat) := by
  obtain ⟨gs, hg, h1, h2, rfl⟩ := supersampledStat_ok h
  have hlen := ditherGrids_length hg
  intro v hv
  simp only [combineFields, sumFields] at hv
  have hb' := (foldl_addFields_inv (xs.length * ys.length) (gs.map fun g => evalSep s g.1 g.2)
    (List.replicate _ 0) 0 (by simp)
    (by intro v hv; rw [List.eq_of_mem_replicate hv]; constructor <;> norm_num)
    (by
      intro fl hfl
      simp only [List.mem_map] at hfl
      obtain ⟨g, hgm, rfl⟩ := hfl
      have := ditherGrids_lengths hg g hgm
      rw [evalSep_length s _ _ hw, this.1, this.2])
    (by
      intro fl hfl v hv
      simp only [List.mem_map] at hfl
      obtain ⟨g, hgm, rfl⟩ := hfl
      rw [evalSep_eq_val s _ _ hw] at hv
      simp only [List.mem_map] at hv
      obtain ⟨p, _, rfl⟩ := hv
      exact values_in_unit_interval hb p)).2 v hv
  rw [zero_add, List.length_map, hlen] at hb'
  exact hb'

theorem foldl_zipWith_length {g : Rat → Rat → Rat} (n : Nat) (r : List (List Rat)) (f : List Rat)
    (hf : f.length = n) (hr : ∀ f' ∈ r, f'.length = n) : (r.foldl (List.zipWith g) f).length = n := by
  induction r generalizing f with
  | nil => simpa using hf
  | cons h r ih =>
    rw [List.foldl_cons]
    apply ih
    · rw [List.length_zipWith, hf, hr h List.mem_cons_self, Nat.min_self]
    · intro f' hf'; exact hr f' (List.mem_cons_of_mem _ hf')

/-- every statistic returns one value per grid point -/
theorem supersampledStat_length {st : Stat} {s : Shape} (hw : WF s) {nx ny : Nat} {xs ys f : List Rat}
    (h : supersampledStat st s nx ny xs ys = .ok f) : f.length = xs.length * ys.length := by
  obtain ⟨gs, hg, h1, h2, rfl⟩ := supersampledStat_ok h
  have hlen := ditherGrids_length hg
  have hl : ∀ fl ∈ gs.map (fun g => evalSep s g.1 g.2), fl.length = xs.length * ys.length := by
    intro fl hfl
    simp only [List.mem_map] at hfl
    obtain ⟨g, hgm, rfl⟩ := hfl
    have := ditherGrids_lengths hg g hgm
    rw [evalSep_length s _ _ hw, this.1, this.2]
  have hne : gs ≠ [] := by
    intro he
    rw [he] at hlen
    have : 0 < ny * nx := Nat.mul_pos h2 h1
    simp at hlen
    omega
  cases st with
  | mean => exact meanFields_length _ _ hl
  | sum => exact foldl_addFields_length _ _ _ (by simp) hl
  | min =>
    cases gs with
    | nil => exact absurd rfl hne
    | cons g0 gr =>
      simp only [List.map_cons, combineFields, minFields]
      exact foldl_zipWith_length _ _ _ (hl _ (by simp)) (fun f' hf' => hl f' (by simp at hf' ⊢; exact Or.inr hf'))
  | max =>
    cases gs with
    | nil => exact absurd rfl hne
    | cons g0 gr =>
      simp only [List.map_cons, combineFields, maxFields]
      exact foldl_zipWith_length _ _ _ (hl _ (by simp)) (fun f' hf' => hl f' (by simp at hf' ⊢; exact Or.inr hf'))

/-- every statistic is defined exactly where 'mean' is -/
theorem supersampledStat_isOk_iff (st : Stat) (s : Shape) (nx ny : Nat) (xs ys : List Rat) :
    (∃ f, supersampledStat st s nx ny xs ys = .ok f) ↔
      (2 ≤ xs.length ∧ 2 ≤ ys.length ∧ 1 ≤ nx ∧ 1 ≤ ny) := by
  constructor
  · rintro ⟨f, h⟩
    obtain ⟨gs, hg, h1, h2, _⟩ := supersampledStat_ok h
    have := (ditherGrids_isSome_iff nx ny xs ys).mp (by simp [hg])
    exact ⟨this.1, this.2, h1, h2⟩
  · rintro ⟨hx, hy, h1, h2⟩
    have := (ditherGrids_isSome_iff nx ny xs ys).mpr ⟨hx, hy⟩
    obtain ⟨gs, hg⟩ := Option.isSome_iff_exists.mp this
    refine ⟨combineFields st (xs.length * ys.length) (gs.map fun g => evalSep s g.1 g.2), ?_⟩
    unfold supersampledStat
    rw [hg]
    simp only
    rw [if_neg (by omega)]

end HcipyVerif.Aperture

/-! ### the list form -/

namespace HcipyVerif.Aperture

/-- the list form succeeds exactly when every generator does, and then holds their fields in order -/
theorem supersampledListAux_ok_iff (st : Stat) (nx ny : Nat) (xs ys : List Rat) (ss : List Shape)
    (fs : List (List Rat)) :
    supersampledListAux st nx ny xs ys ss = .ok fs ↔
      List.Forall₂ (fun s f => supersampledStat st s nx ny xs ys = .ok f) ss fs := by
  induction ss generalizing fs with
  | nil =>
    simp only [supersampledListAux, Except.ok.injEq]
    constructor
    · intro h; subst h; exact List.Forall₂.nil
    · intro h; cases h; rfl
  | cons s rest ih =>
    simp only [supersampledListAux]
    cases h1 : supersampledStat st s nx ny xs ys with
    | error e =>
      simp only [reduceCtorEq, false_iff]
      intro h
      cases h with
      | cons ha _ => rw [h1] at ha; cases ha
    | ok f =>
      cases h2 : supersampledListAux st nx ny xs ys rest with
      | error e =>
        simp only [reduceCtorEq, false_iff]
        intro h
        cases h with
        | cons ha hb =>
          have := (ih _).mpr hb
          rw [h2] at this; cases this
      | ok fs' =>
        simp only [Except.ok.injEq]
        constructor
        · intro h; subst h
          exact List.Forall₂.cons h1 ((ih fs').mp h2)
        · intro h
          cases h with
          | cons ha hb =>
            rw [h1] at ha
            injection ha with ha
            have := (ih _).mpr hb
            rw [h2] at this
            injection this with this
            rw [ha, this]

/-- the first generator that fails decides the exception — and since failure depends on the grid
and the factors only, a non-empty list fails exactly when a single generator does -/
theorem supersampledListAux_error_iff (st : Stat) (nx ny : Nat) (xs ys : List Rat) (s : Shape)
    (rest : List Shape) (e : SuperErr) :
    supersampledListAux st nx ny xs ys (s :: rest) = .error e ↔ supersampledStat st s nx ny xs ys = .error e := by
  have key : ∀ (ss : List Shape) (s' : Shape) (f : List Rat),
      supersampledStat st s nx ny xs ys = .ok f →
      ∃ fs, supersampledListAux st nx ny xs ys ss = .ok fs := by
    intro ss
    induction ss with
    | nil => intro _ _ _; exact ⟨[], rfl⟩
    | cons t ts ih =>
      intro s' f hf
      obtain ⟨fs, hfs⟩ := ih s' f hf
      have hdef := (supersampledStat_isOk_iff st s nx ny xs ys).mp ⟨f, hf⟩
      obtain ⟨g, hg⟩ := (supersampledStat_isOk_iff st t nx ny xs ys).mpr hdef
      exact ⟨g :: fs, by simp only [supersampledListAux, hg, hfs]⟩
  simp only [supersampledListAux]
  cases h1 : supersampledStat st s nx ny xs ys with
  | error e' => simp
  | ok f =>
    obtain ⟨fs, hfs⟩ := key rest s f h1
    rw [hfs]
    simp

end HcipyVerif.Aperture

namespace HcipyVerif.Aperture

theorem forall₂_mem_right {α β : Type} {R : α → β → Prop} {as : List α} {bs : List β}
    (h : List.Forall₂ R as bs) : ∀ b ∈ bs, ∃ a ∈ as, R a b := by
  induction h with
  | nil => intro b hb; cases hb
  | cons hab _ ih =>
    intro b hb
    rcases List.mem_cons.mp hb with rfl | hb
    · exact ⟨_, List.mem_cons_self, hab⟩
    · obtain ⟨a, ha, hr⟩ := ih b hb
      exact ⟨a, List.mem_cons_of_mem _ ha, hr⟩

theorem supersampledListAux_length {st : Stat} {nx ny : Nat} {xs ys : List Rat} {ss : List Shape}
    {fs : List (List Rat)} (h : supersampledListAux st nx ny xs ys ss = .ok fs) : fs.length = ss.length :=
  ((supersampledListAux_ok_iff st nx ny xs ys ss fs).mp h).length_eq.symm

/-- every mode of a supersampled ('mean') list of binary apertures is in [0,1] -/
theorem supersampledListAux_mem_unit {nx ny : Nat} {xs ys : List Rat} {ss : List Shape}
    (hs : ∀ s ∈ ss, Binary s ∧ WF s) {fs : List (List Rat)}
    (h : supersampledListAux .mean nx ny xs ys ss = .ok fs) : ∀ f ∈ fs, ∀ v ∈ f, 0 ≤ v ∧ v ≤ 1 := by
  intro f hf
  obtain ⟨s, hsm, hr⟩ := forall₂_mem_right ((supersampledListAux_ok_iff _ nx ny xs ys ss fs).mp h) f hf
  rw [supersampledStat_mean] at hr
  exact supersampled_mem_unit (hs s hsm).1 (hs s hsm).2 hr

end HcipyVerif.Aperture

namespace HcipyVerif.Aperture

theorem supersampledList_ok_iff (st : Stat) (nx ny : Nat) (xs ys : List Rat) {ss : List Shape} (hne : ss ≠ [])
    (fs : List (List Rat)) :
    supersampledList st nx ny xs ys ss = .ok fs ↔
      List.Forall₂ (fun s f => supersampledStat st s nx ny xs ys = .ok f) ss fs := by
  cases ss with
  | nil => exact absurd rfl hne
  | cons s rest => exact supersampledListAux_ok_iff st nx ny xs ys (s :: rest) fs

end HcipyVerif.Aperture

/-! ### min ≤ mean ≤ max -/

namespace HcipyVerif.Aperture

theorem zipWith_getD (g : Rat → Rat → Rat) (a b : List Rat) (k : Nat) (ha : k < a.length) (hb : k < b.length) :
    (List.zipWith g a b).getD k 0 = g (a.getD k 0) (b.getD k 0) := by
  simp [List.getD_eq_getElem?_getD, List.getElem?_zipWith, List.getElem?_eq_getElem ha, List.getElem?_eq_getElem hb]

/-- the running minimum is below every field seen so far, at every pixel -/
theorem foldl_min_le (n : Nat) (r : List (List Rat)) (f : List Rat) (hf : f.length = n)
    (hr : ∀ g ∈ r, g.length = n) (k : Nat) (hk : k < n) :
    ∀ g ∈ f :: r, (r.foldl minFields f).getD k 0 ≤ g.getD k 0 := by
  induction r generalizing f with
  | nil => intro g hg; simp at hg; subst hg; exact le_refl _
  | cons h r ih =>
    have hh := hr h List.mem_cons_self
    have hlen : (minFields f h).length = n := by simp [minFields, hf, hh]
    have hstep : (minFields f h).getD k 0 ≤ f.getD k 0 ∧ (minFields f h).getD k 0 ≤ h.getD k 0 := by
      unfold minFields
      rw [zipWith_getD _ f h k (by omega) (by omega)]
      generalize f.getD k 0 = u
      generalize h.getD k 0 = v
      split_ifs with hle
      · exact ⟨le_refl _, hle⟩
      · exact ⟨le_of_lt (lt_of_not_ge hle), le_refl _⟩
    have := ih (minFields f h) hlen (fun g hg => hr g (List.mem_cons_of_mem _ hg))
    intro g hg
    rw [List.foldl_cons]
    have h0 := this (minFields f h) List.mem_cons_self
    rcases List.mem_cons.mp hg with rfl | hg
    · exact le_trans h0 hstep.1
    · rcases List.mem_cons.mp hg with rfl | hg
      · exact le_trans h0 hstep.2
      · exact this g (List.mem_cons_of_mem _ hg)

theorem foldl_max_ge (n : Nat) (r : List (List Rat)) (f : List Rat) (hf : f.length = n)
    (hr : ∀ g ∈ r, g.length = n) (k : Nat) (hk : k < n) :
    ∀ g ∈ f :: r, g.getD k 0 ≤ (r.foldl maxFields f).getD k 0 := by
  induction r generalizing f with
  | nil => intro g hg; simp at hg; subst hg; exact le_refl _
  | cons h r ih =>
    have hh := hr h List.mem_cons_self
    have hlen : (maxFields f h).length = n := by simp [maxFields, hf, hh]
    have hstep : f.getD k 0 ≤ (maxFields f h).getD k 0 ∧ h.getD k 0 ≤ (maxFields f h).getD k 0 := by
      unfold maxFields
      rw [zipWith_getD _ f h k (by omega) (by omega)]
      generalize f.getD k 0 = u
      generalize h.getD k 0 = v
      split_ifs with hle
      · exact ⟨hle, le_refl _⟩
      · exact ⟨le_refl _, le_of_lt (lt_of_not_ge hle)⟩
    have := ih (maxFields f h) hlen (fun g hg => hr g (List.mem_cons_of_mem _ hg))
    intro g hg
    rw [List.foldl_cons]
    have h0 := this (maxFields f h) List.mem_cons_self
    rcases List.mem_cons.mp hg with rfl | hg
    · exact le_trans hstep.1 h0
    · rcases List.mem_cons.mp hg with rfl | hg
      · exact le_trans hstep.2 h0
      · exact this g (List.mem_cons_of_mem _ hg)

/-- the running sum between `count·lo` and `count·hi` when every field is between `lo` and `hi` at pixel k -/
theorem foldl_add_between (n : Nat) (fs : List (List Rat)) (acc : List Rat) (hacc : acc.length = n)
    (hlen : ∀ g ∈ fs, g.length = n) (k : Nat) (hk : k < n) (lo hi : Rat)
    (hb : ∀ g ∈ fs, lo ≤ g.getD k 0 ∧ g.getD k 0 ≤ hi) :
    acc.getD k 0 + fs.length * lo ≤ (fs.foldl addFields acc).getD k 0 ∧
      (fs.foldl addFields acc).getD k 0 ≤ acc.getD k 0 + fs.length * hi := by
  induction fs generalizing acc with
  | nil => simp
  | cons h r ih =>
    have hh := hlen h List.mem_cons_self
    have hlen' : (addFields acc h).length = n := by simp [addFields, hacc, hh]
    have hstep : (addFields acc h).getD k 0 = acc.getD k 0 + h.getD k 0 := by
      unfold addFields; rw [zipWith_getD _ acc h k (by omega) (by omega)]
    have := ih (addFields acc h) hlen' (fun g hg => hlen g (List.mem_cons_of_mem _ hg))
      (fun g hg => hb g (List.mem_cons_of_mem _ hg))
    have hbh := hb h List.mem_cons_self
    rw [List.foldl_cons]
    rw [hstep] at this
    simp only [List.length_cons, Nat.cast_add, Nat.cast_one]
    constructor
    · nlinarith [this.1, hbh.1]
    · nlinarith [this.2, hbh.2]

/-- **min ≤ mean ≤ max at every pixel**, for fields of equal length -/
theorem combine_min_mean_max (n : Nat) (fs : List (List Rat)) (hne : fs ≠ [])
    (hlen : ∀ g ∈ fs, g.length = n) (k : Nat) (hk : k < n) :
    (combineFields .min n fs).getD k 0 ≤ (combineFields .mean n fs).getD k 0 ∧
      (combineFields .mean n fs).getD k 0 ≤ (combineFields .max n fs).getD k 0 := by
  cases fs with
  | nil => exact absurd rfl hne
  | cons f r =>
    have hf := hlen f List.mem_cons_self
    have hr : ∀ g ∈ r, g.length = n := fun g hg => hlen g (List.mem_cons_of_mem _ hg)
    have hmin := foldl_min_le n r f hf hr k hk
    have hmax := foldl_max_ge n r f hf hr k hk
    have hsum := foldl_add_between n (f :: r) (List.replicate n 0) (by simp) hlen k hk
      ((r.foldl minFields f).getD k 0) ((r.foldl maxFields f).getD k 0)
      (fun g hg => ⟨hmin g hg, hmax g hg⟩)
    have hzero : (List.replicate n (0 : Rat)).getD k 0 = 0 := by simp [List.getD_eq_getElem?_getD, hk]
    rw [hzero, zero_add, zero_add] at hsum
    have hslen : ((f :: r).foldl addFields (List.replicate n 0)).length = n :=
      foldl_addFields_length n (f :: r) _ (by simp) hlen
    have hpos : (0 : Rat) < ((f :: r).length : Rat) := by
      have : 0 < (f :: r).length := by simp
      exact_mod_cast this
    have hmean : (combineFields .mean n (f :: r)).getD k 0
        = ((f :: r).foldl addFields (List.replicate n 0)).getD k 0 / ((f :: r).length : Rat) := by
      simp only [combineFields, meanFields]
      have hk' : k < ((f :: r).foldl addFields (List.replicate n 0)).length := by omega
      rw [List.getD_eq_getElem?_getD, List.getD_eq_getElem?_getD, List.getElem?_map,
        List.getElem?_eq_getElem hk']
      rfl
    rw [hmean]
    simp only [combineFields]
    constructor
    · rw [le_div_iff₀ hpos]; linarith [hsum.1]
    · rw [div_le_iff₀ hpos]; linarith [hsum.2]

/-- **min ≤ mean ≤ max at every pixel** of `evaluate_supersampled` -/
theorem supersampledStat_order {s : Shape} (hw : WF s) {nx ny : Nat} {xs ys fmin fmean fmax : List Rat}
    (hmin : supersampledStat .min s nx ny xs ys = .ok fmin) (hmean : supersampled s nx ny xs ys = .ok fmean)
    (hmax : supersampledStat .max s nx ny xs ys = .ok fmax) (k : Nat) (hk : k < xs.length * ys.length) :
    fmin.getD k 0 ≤ fmean.getD k 0 ∧ fmean.getD k 0 ≤ fmax.getD k 0 := by
  rw [← supersampledStat_mean] at hmean
  obtain ⟨gs, hg, h1, h2, rfl⟩ := supersampledStat_ok hmin
  obtain ⟨gs', hg', _, _, rfl⟩ := supersampledStat_ok hmean
  obtain ⟨gs'', hg'', _, _, rfl⟩ := supersampledStat_ok hmax
  rw [hg] at hg' hg''
  injection hg' with hg'
  injection hg'' with hg''
  subst hg' hg''
  have hlen := ditherGrids_length hg
  apply combine_min_mean_max _ _ _ _ k hk
  · intro he
    have : gs = [] := by simpa using he
    rw [this] at hlen
    have : 0 < ny * nx := Nat.mul_pos h2 h1
    simp at hlen
    omega
  · intro fl hfl
    simp only [List.mem_map] at hfl
    obtain ⟨g, hgm, rfl⟩ := hfl
    have := ditherGrids_lengths hg g hgm
    rw [evalSep_length s _ _ hw, this.1, this.2]

end HcipyVerif.Aperture
