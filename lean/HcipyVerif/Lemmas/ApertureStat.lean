import HcipyVerif.Lemmas.ApertureMain

/-!
Lemmas for the statistics 'sum', 'min', 'max' of `evaluate_supersampled` (Model/Aperture.lean,
`supersampledStat`).
-/
set_option linter.unusedSimpArgs false
set_option linter.unusedVariables false

namespace HcipyVerif.Aperture

/-- a pointwise operation that returns one of its arguments only produces values it was given -/
theorem zipWith_sel {g : Rat → Rat → Rat} (hg : ∀ u v, g u v = u ∨ g u v = v) (a b : List Rat) :
    ∀ w ∈ List.zipWith g a b, w ∈ a ∨ w ∈ b := by
  induction a generalizing b with
  | nil => simp
  | cons x a ih =>
    cases b with
    | nil => simp
    | cons y b =>
      intro w hw
      simp only [List.zipWith_cons_cons, List.mem_cons] at hw
      rcases hw with rfl | hw
      · rcases hg x y with h | h <;> rw [h] <;> simp
      · rcases ih b w hw with h | h
        · exact Or.inl (List.mem_cons_of_mem _ h)
        · exact Or.inr (List.mem_cons_of_mem _ h)

theorem foldl_zipWith_sel {g : Rat → Rat → Rat} (hg : ∀ u v, g u v = u ∨ g u v = v)
    (r : List (List Rat)) (f : List Rat) :
    ∀ w ∈ r.foldl (List.zipWith g) f, w ∈ f ∨ ∃ f' ∈ r, w ∈ f' := by
  induction r generalizing f with
  | nil => intro w hw; exact Or.inl hw
  | cons h r ih =>
    intro w hw
    rw [List.foldl_cons] at hw
    rcases ih _ w hw with h1 | ⟨f', hf', h1⟩
    · rcases zipWith_sel hg f h w h1 with h2 | h2
      · exact Or.inl h2
      · exact Or.inr ⟨h, List.mem_cons_self, h2⟩
    · exact Or.inr ⟨f', List.mem_cons_of_mem _ hf', h1⟩

theorem min_sel (u v : Rat) : (if u ≤ v then u else v) = u ∨ (if u ≤ v then u else v) = v := by
  by_cases h : u ≤ v <;> simp [h]

theorem max_sel (u v : Rat) : (if u ≤ v then v else u) = u ∨ (if u ≤ v then v else u) = v := by
  by_cases h : u ≤ v <;> simp [h]

/-- every value of the 'min' / 'max' combination is a value of one of the fields -/
theorem combineFields_minmax_sel {st : Stat} (hst : st = .min ∨ st = .max) (n : Nat)
    (fs : List (List Rat)) : ∀ w ∈ combineFields st n fs, ∃ f ∈ fs, w ∈ f := by
  intro w hw
  rcases hst with rfl | rfl
  · cases fs with
    | nil => simp [combineFields] at hw
    | cons f r =>
      simp only [combineFields] at hw
      rcases foldl_zipWith_sel min_sel r f w hw with h | ⟨f', hf', h⟩
      · exact ⟨f, List.mem_cons_self, h⟩
      · exact ⟨f', List.mem_cons_of_mem _ hf', h⟩
  · cases fs with
    | nil => simp [combineFields] at hw
    | cons f r =>
      simp only [combineFields] at hw
      rcases foldl_zipWith_sel max_sel r f w hw with h | ⟨f', hf', h⟩
      · exact ⟨f, List.mem_cons_self, h⟩
      · exact ⟨f', List.mem_cons_of_mem _ hf', h⟩

/-- what a successful `evaluate_supersampled(…, statistic=st)` is made of -/
theorem supersampledStat_ok {st : Stat} {s : Shape} {nx ny : Nat} {xs ys f : List Rat}
    (h : supersampledStat st s nx ny xs ys = .ok f) :
    ∃ gs, ditherGrids nx ny xs ys = some gs ∧ 1 ≤ nx ∧ 1 ≤ ny ∧
      f = combineFields st (xs.length * ys.length) (gs.map fun g => evalSep s g.1 g.2) := by
  unfold supersampledStat at h
  split at h
  · cases h
  · rename_i gs hg
    split at h
    · cases h
    · rename_i hn
      injection h with h
      exact ⟨gs, hg, by omega, by omega, h.symm⟩

/-- statistic 'mean' is the `supersampled` of the other theorems -/
theorem supersampledStat_mean (s : Shape) (nx ny : Nat) (xs ys : List Rat) :
    supersampledStat .mean s nx ny xs ys = supersampled s nx ny xs ys := by
  unfold supersampledStat supersampled
  cases ditherGrids nx ny xs ys with
  | none => rfl
  | some gs => simp [combineFields]

/-- a one-point axis is an IndexError whatever the statistic -/
theorem supersampledStat_index_iff (st : Stat) (s : Shape) (nx ny : Nat) (xs ys : List Rat) :
    supersampledStat st s nx ny xs ys = .error .index ↔ (xs.length < 2 ∨ ys.length < 2) := by
  rw [← (supersampled_error_iff s nx ny xs ys).1]
  unfold supersampledStat supersampled
  cases ditherGrids nx ny xs ys with
  | none => simp
  | some gs =>
    by_cases hn : nx = 0 ∨ ny = 0
    · by_cases hm : st = .mean <;> simp [if_pos hn, hm]
    · simp only [if_neg hn, reduceCtorEq]

/-- an oversampling factor 0 (on axes with ≥ 2 points): ZeroDivisionError for 'mean',
AttributeError for 'sum' / 'min' / 'max' -/
theorem supersampledStat_zero_iff (st : Stat) (s : Shape) (nx ny : Nat) (xs ys : List Rat) :
    (supersampledStat st s nx ny xs ys = .error .zeroDiv ↔
      (st = .mean ∧ 2 ≤ xs.length ∧ 2 ≤ ys.length ∧ (nx = 0 ∨ ny = 0))) ∧
    (supersampledStat st s nx ny xs ys = .error .attribute ↔
      (st ≠ .mean ∧ 2 ≤ xs.length ∧ 2 ≤ ys.length ∧ (nx = 0 ∨ ny = 0))) := by
  have hiff := ditherGrids_isSome_iff nx ny xs ys
  unfold supersampledStat
  cases hg : ditherGrids nx ny xs ys with
  | none =>
    rw [hg] at hiff
    simp only [Option.isSome_none, Bool.false_eq_true, false_iff, not_and, not_le] at hiff
    constructor
    · simp only [reduceCtorEq, Except.error.injEq, false_iff]
      rintro ⟨_, hx, hy, _⟩
      have := hiff hx
      omega
    · simp only [reduceCtorEq, Except.error.injEq, false_iff]
      rintro ⟨_, hx, hy, _⟩
      have := hiff hx
      omega
  | some gs =>
    rw [hg] at hiff
    simp only [Option.isSome_some, true_iff] at hiff
    by_cases hn : nx = 0 ∨ ny = 0
    · by_cases hm : st = .mean
      · simp [if_pos hn, hm, hiff.1, hiff.2]; exact hn
      · simp [if_pos hn, hm, hiff.1, hiff.2]; exact hn
    · simp only [if_neg hn, reduceCtorEq, false_iff]
      constructor <;> tauto

/-- **'min' and 'max' only select**: each value is the aperture's value at some physical point -/
theorem supersampledStat_minmax_val {st : Stat} (hst : st = .min ∨ st = .max) {s : Shape} (hw : WF s)
    {nx ny : Nat} {xs ys f : List Rat} (h : supersampledStat st s nx ny xs ys = .ok f) :
    ∀ v ∈ f, ∃ p, v = val s p := by
  obtain ⟨gs, hg, h1, h2, rfl⟩ := supersampledStat_ok h
  intro v hv
  obtain ⟨fl, hfl, hvf⟩ := combineFields_minmax_sel hst _ _ v hv
  simp only [List.mem_map] at hfl
  obtain ⟨g, _, rfl⟩ := hfl
  rw [evalSep_eq_val s _ _ hw] at hvf
  simp only [List.mem_map] at hvf
  obtain ⟨p, _, rfl⟩ := hvf
  exact ⟨p, rfl⟩

/-- 'mean' is 'sum' divided by the number of dithers `ny·nx` -/
theorem supersampledStat_sum_mean {s : Shape} {nx ny : Nat} {xs ys f : List Rat}
    (h : supersampledStat .sum s nx ny xs ys = .ok f) :
    supersampled s nx ny xs ys = .ok (f.map fun v => v / ((ny * nx : Nat) : Rat)) := by
  obtain ⟨gs, hg, h1, h2, rfl⟩ := supersampledStat_ok h
  have hlen := ditherGrids_length hg
  unfold supersampled
  rw [hg]
  simp only
  rw [if_neg (by omega)]
  simp only [combineFields, meanFields, sumFields, List.length_map, hlen]

/-- the 'sum' of a binary aperture counts sub-samples: between 0 and `ny·nx` -/
theorem supersampledStat_sum_bounds {s : Shape} (hb : Binary s) (hw : WF s) {nx ny : Nat}
    {xs ys f : List Rat} (h : supersampledStat .sum s nx ny xs ys = .ok f) :
    ∀ v ∈ f, 0 ≤ v ∧ v ≤ ((ny * nx : Nat) : Rat) := by
  obtain ⟨gs, hg, h1, h2, rfl⟩ := supersampledStat_ok h
  have hlen := ditherGrids_length hg
  intro v hv
  simp only [combineFields, sumFields] at hv
  have hb' := (foldl_addFields_inv (xs.length * ys.length) (gs.map fun g => evalSep s g.1 g.2)
    (List.replicate _ 0) 0 (by simp)
    (by intro v hv; rw [List.eq_of_mem_replicate hv]; constructor <;> norm_num)
    (by
      intro fl hfl
      simp only [List.mem_map] at hfl
      obtain ⟨g, hgm, rfl⟩ := hfl
      have := ditherGrids_lengths hg g hgm
      rw [evalSep_length s _ _ hw, this.1, this.2])
    (by
      intro fl hfl v hv
      simp only [List.mem_map] at hfl
      obtain ⟨g, hgm, rfl⟩ := hfl
      rw [evalSep_eq_val s _ _ hw] at hv
      simp only [List.mem_map] at hv
      obtain ⟨p, _, rfl⟩ := hv
      exact values_in_unit_interval hb p)).2 v hv
  rw [zero_add, List.length_map, hlen] at hb'
  exact hb'

theorem foldl_zipWith_length {g : Rat → Rat → Rat} (n : Nat) (r : List (List Rat)) (f : List Rat)
    (hf : f.length = n) (hr : ∀ f' ∈ r, f'.length = n) : (r.foldl (List.zipWith g) f).length = n := by
  induction r generalizing f with
  | nil => simpa using hf
  | cons h r ih =>
    rw [List.foldl_cons]
    apply ih
    · rw [List.length_zipWith, hf, hr h List.mem_cons_self, Nat.min_self]
    · intro f' hf'; exact hr f' (List.mem_cons_of_mem _ hf')

/-- every statistic returns one value per grid point -/
theorem supersampledStat_length {st : Stat} {s : Shape} (hw : WF s) {nx ny : Nat} {xs ys f : List Rat}
    (h : supersampledStat st s nx ny xs ys = .ok f) : f.length = xs.length * ys.length := by
  obtain ⟨gs, hg, h1, h2, rfl⟩ := supersampledStat_ok h
  have hlen := ditherGrids_length hg
  have hl : ∀ fl ∈ gs.map (fun g => evalSep s g.1 g.2), fl.length = xs.length * ys.length := by
    intro fl hfl
    simp only [List.mem_map] at hfl
    obtain ⟨g, hgm, rfl⟩ := hfl
    have := ditherGrids_lengths hg g hgm
    rw [evalSep_length s _ _ hw, this.1, this.2]
  have hne : gs ≠ [] := by
    intro he
    rw [he] at hlen
    have : 0 < ny * nx := Nat.mul_pos h2 h1
    simp at hlen
    omega
  cases st with
  | mean => exact meanFields_length _ _ hl
  | sum => exact foldl_addFields_length _ _ _ (by simp) hl
  | min =>
    cases gs with
    | nil => exact absurd rfl hne
    | cons g0 gr =>
      simp only [List.map_cons, combineFields, minFields]
      exact foldl_zipWith_length _ _ _ (hl _ (by simp)) (fun f' hf' => hl f' (by simp at hf' ⊢; exact Or.inr hf'))
  | max =>
    cases gs with
    | nil => exact absurd rfl hne
    | cons g0 gr =>
      simp only [List.map_cons, combineFields, maxFields]
      exact foldl_zipWith_length _ _ _ (hl _ (by simp)) (fun f' hf' => hl f' (by simp at hf' ⊢; exact Or.inr hf'))

/-- every statistic is defined exactly where 'mean' is -/
theorem supersampledStat_isOk_iff (st : Stat) (s : Shape) (nx ny : Nat) (xs ys : List Rat) :
    (∃ f, supersampledStat st s nx ny xs ys = .ok f) ↔
      (2 ≤ xs.length ∧ 2 ≤ ys.length ∧ 1 ≤ nx ∧ 1 ≤ ny) := by
  constructor
  · rintro ⟨f, h⟩
    obtain ⟨gs, hg, h1, h2, _⟩ := supersampledStat_ok h
    have := (ditherGrids_isSome_iff nx ny xs ys).mp (by simp [hg])
    exact ⟨this.1, this.2, h1, h2⟩
  · rintro ⟨hx, hy, h1, h2⟩
    have := (ditherGrids_isSome_iff nx ny xs ys).mpr ⟨hx, hy⟩
    obtain ⟨gs, hg⟩ := Option.isSome_iff_exists.mp this
    refine ⟨combineFields st (xs.length * ys.length) (gs.map fun g => evalSep s g.1 g.2), ?_⟩
    unfold supersampledStat
    rw [hg]
    simp only
    rw [if_neg (by omega)]

end HcipyVerif.Aperture

/-! ### the list form -/

namespace HcipyVerif.Aperture

/-- the list form succeeds exactly when every generator does, and then holds their fields in order -/
theorem supersampledListAux_ok_iff (st : Stat) (nx ny : Nat) (xs ys : List Rat) (ss : List Shape)
    (fs : List (List Rat)) :
    supersampledListAux st nx ny xs ys ss = .ok fs ↔
      List.Forall₂ (fun s f => supersampledStat st s nx ny xs ys = .ok f) ss fs := by
  induction ss generalizing fs with
  | nil =>
    simp only [supersampledListAux, Except.ok.injEq]
    constructor
    · intro h; subst h; exact List.Forall₂.nil
    · intro h; cases h; rfl
  | cons s rest ih =>
    simp only [supersampledListAux]
    cases h1 : supersampledStat st s nx ny xs ys with
    | error e =>
      simp only [reduceCtorEq, false_iff]
      intro h
      cases h with
      | cons ha _ => rw [h1] at ha; cases ha
    | ok f =>
      cases h2 : supersampledListAux st nx ny xs ys rest with
      | error e =>
        simp only [reduceCtorEq, false_iff]
        intro h
        cases h with
        | cons ha hb =>
          have := (ih _).mpr hb
          rw [h2] at this; cases this
      | ok fs' =>
        simp only [Except.ok.injEq]
        constructor
        · intro h; subst h
          exact List.Forall₂.cons h1 ((ih fs').mp h2)
        · intro h
          cases h with
          | cons ha hb =>
            rw [h1] at ha
            injection ha with ha
            have := (ih _).mpr hb
            rw [h2] at this
            injection this with this
            rw [ha, this]

/-- the first generator that fails decides the exception — and since failure depends on the grid
and the factors only, a non-empty list fails exactly when a single generator does -/
theorem supersampledListAux_error_iff (st : Stat) (nx ny : Nat) (xs ys : List Rat) (s : Shape)
    (rest : List Shape) (e : SuperErr) :
    supersampledListAux st nx ny xs ys (s :: rest) = .error e ↔ supersampledStat st s nx ny xs ys = .error e := by
  have key : ∀ (ss : List Shape) (s' : Shape) (f : List Rat),
      supersampledStat st s nx ny xs ys = .ok f →
      ∃ fs, supersampledListAux st nx ny xs ys ss = .ok fs := by
    intro ss
    induction ss with
    | nil => intro _ _ _; exact ⟨[], rfl⟩
    | cons t ts ih =>
      intro s' f hf
      obtain ⟨fs, hfs⟩ := ih s' f hf
      have hdef := (supersampledStat_isOk_iff st s nx ny xs ys).mp ⟨f, hf⟩
      obtain ⟨g, hg⟩ := (supersampledStat_isOk_iff st t nx ny xs ys).mpr hdef
      exact ⟨g :: fs, by simp only [supersampledListAux, hg, hfs]⟩
  simp only [supersampledListAux]
  cases h1 : supersampledStat st s nx ny xs ys with
  | error e' => simp
  | ok f =>
    obtain ⟨fs, hfs⟩ := key rest s f h1
    rw [hfs]
    simp

end HcipyVerif.Aperture

namespace HcipyVerif.Aperture

theorem forall₂_mem_right {α β : Type} {R : α → β → Prop} {as : List α} {bs : List β}
    (h : List.Forall₂ R as bs) : ∀ b ∈ bs, ∃ a ∈ as, R a b := by
  induction h with
  | nil => intro b hb; cases hb
  | cons hab _ ih =>
    intro b hb
    rcases List.mem_cons.mp hb with rfl | hb
    · exact ⟨_, List.mem_cons_self, hab⟩
    · obtain ⟨a, ha, hr⟩ := ih b hb
      exact ⟨a, List.mem_cons_of_mem _ ha, hr⟩

theorem supersampledListAux_length {st : Stat} {nx ny : Nat} {xs ys : List Rat} {ss : List Shape}
    {fs : List (List Rat)} (h : supersampledListAux st nx ny xs ys ss = .ok fs) : fs.length = ss.length :=
  ((supersampledListAux_ok_iff st nx ny xs ys ss fs).mp h).length_eq.symm

/-- every mode of a supersampled ('mean') list of binary apertures is in [0,1] -/
theorem supersampledListAux_mem_unit {nx ny : Nat} {xs ys : List Rat} {ss : List Shape}
    (hs : ∀ s ∈ ss, Binary s ∧ WF s) {fs : List (List Rat)}
    (h : supersampledListAux .mean nx ny xs ys ss = .ok fs) : ∀ f ∈ fs, ∀ v ∈ f, 0 ≤ v ∧ v ≤ 1 := by
  intro f hf
  obtain ⟨s, hsm, hr⟩ := forall₂_mem_right ((supersampledListAux_ok_iff _ nx ny xs ys ss fs).mp h) f hf
  rw [supersampledStat_mean] at hr
  exact supersampled_mem_unit (hs s hsm).1 (hs s hsm).2 hr

end HcipyVerif.Aperture

namespace HcipyVerif.Aperture

theorem supersampledList_ok_iff (st : Stat) (nx ny : Nat) (xs ys : List Rat) {ss : List Shape} (hne : ss ≠ [])
    (fs : List (List Rat)) :
    supersampledList st nx ny xs ys ss = .ok fs ↔
      List.Forall₂ (fun s f => supersampledStat st s nx ny xs ys = .ok f) ss fs := by
  cases ss with
  | nil => exact absurd rfl hne
  | cons s rest => exact supersampledListAux_ok_iff st nx ny xs ys (s :: rest) fs

end HcipyVerif.Aperture
