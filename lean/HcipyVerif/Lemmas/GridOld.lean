import HcipyVerif.Model.Coords
import HcipyVerif.Model.GridLayout

/-!
# C10 — the hash of the code *before* the repair of D24 (documentation only)

Nothing here is executed by a driver and nothing here is evidence for the property: it is the model of code
that no longer exists in /repo, kept so that the counterexample `Old.hash_int_float` stays a checked statement.
(Moved out of `Model/Coords.lean` in round 5.)
-/
namespace HcipyVerif.Grid.Old

/-! ## The code before the repair of D24: raw bytes depend on the dtype -/

/-- a stored number with its NumPy dtype (`i64` or `f64`) -/
structure Num where
  val : Rat
  isInt : Bool
deriving DecidableEq, Repr

inductive TokOld where
  | f64 (x : Rat)
  | i64 (x : Rat)
deriving DecidableEq, Repr

def Num.tokOld (n : Num) : TokOld := if n.isInt then .i64 n.val else .f64 n.val

/-- a 1-axis-per-entry regular grid with dtype-tagged `delta`/`zero` (old code) -/
structure RegAxisOld where
  delta : Num
  dim : Nat
  zero : Num
deriving DecidableEq, Repr

/-- `np.array_equal` compares values, not dtypes -/
def regEqOld (a b : List RegAxisOld) : Bool :=
  arrEq (a.map (·.delta.val)) (b.map (·.delta.val)) && natArrEq (a.map (·.dim)) (b.map (·.dim)) &&
    arrEq (a.map (·.zero.val)) (b.map (·.zero.val))

/-- the old hash fed the raw buffers (`h.update(self.delta)` …) -/
def regHashInputOld (a : List RegAxisOld) : List TokOld :=
  a.map (·.delta.tokOld) ++ a.map (fun x => TokOld.i64 x.dim) ++ a.map (·.zero.tokOld)

/-- D26, the code before the repair: `h.update(arr)` reads the raw buffer and needs it contiguous — a view with
another stride raises `ValueError` (`none`) -/
def rawHashInput? (arrs : List LArr) : Option (List Rat) :=
  if arrs.all LArr.contiguous then some (arrs.map LArr.values).flatten else none

end HcipyVerif.Grid.Old
