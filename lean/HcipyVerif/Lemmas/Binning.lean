import HcipyVerif.Model.Binning
import Mathlib.Algebra.BigOperators.Group.List.Basic
import Mathlib.Algebra.BigOperators.Ring.List
import Mathlib.Algebra.Field.Basic
import Mathlib.Tactic.Ring
import Mathlib.Tactic.FieldSimp
import Mathlib.Tactic.Linarith

/-! Helper lemmas about `chunks`, `vadd`, `vsum`, `binND` (C17, C18). -/
set_option linter.unusedSimpArgs false
set_option linter.unusedVariables false
set_option linter.unusedSectionVars false

namespace HcipyVerif.Binning

section chunks
variable {α : Type}

theorem chunks_length (m k : Nat) (v : List α) : (chunks m k v).length = k := by
  induction k generalizing v with
  | zero => simp [chunks]
  | succ k ih => simp [chunks, ih]

theorem chunks_flatten (m k : Nat) (v : List α) (h : v.length = k * m) :
    (chunks m k v).flatten = v := by
  induction k generalizing v with
  | zero => simp at h; simp [chunks, h]
  | succ k ih =>
    have : (v.drop m).length = k * m := by simp [List.length_drop, h]; ring_nf; omega
    simp [chunks, ih _ this]

theorem chunks_mem_length (m k : Nat) (v : List α) (h : v.length = k * m) :
    ∀ c ∈ chunks m k v, c.length = m := by
  induction k generalizing v with
  | zero => simp [chunks]
  | succ k ih =>
    have hd : (v.drop m).length = k * m := by simp [List.length_drop, h]; ring_nf; omega
    have hm : m ≤ v.length := by rw [h]; nlinarith
    intro c hc
    simp only [chunks, List.mem_cons] at hc
    rcases hc with rfl | hc
    · simp [List.length_take, hm]
    · exact ih _ hd c hc

/-- the chunks of a concatenation of blocks of equal length are the blocks -/
theorem chunks_flatten_eq (m : Nat) (l : List (List α)) (h : ∀ c ∈ l, c.length = m) :
    chunks m l.length l.flatten = l := by
  induction l with
  | nil => simp [chunks]
  | cons c l ih =>
    have hc : c.length = m := h c (by simp)
    have hl : ∀ c ∈ l, c.length = m := fun c hc' => h c (by simp [hc'])
    simp only [List.length_cons, chunks, List.flatten_cons]
    rw [List.take_left' hc, List.drop_left' hc, ih hl]

end chunks

section sums
variable {K : Type} [Field K]

theorem vzero_length (n : Nat) : (vzero n : List K).length = n := by simp [vzero]

theorem vzero_sum (n : Nat) : (vzero n : List K).sum = 0 := by simp [vzero]

theorem vadd_length (a b : List K) : (vadd a b).length = min a.length b.length := by
  simp [vadd]

theorem vadd_sum (a b : List K) (h : a.length = b.length) : (vadd a b).sum = a.sum + b.sum := by
  induction a generalizing b with
  | nil => cases b <;> simp_all [vadd]
  | cons x a ih =>
    cases b with
    | nil => simp at h
    | cons y b =>
      simp only [List.length_cons, Nat.add_right_cancel_iff] at h
      have := ih b h
      simp only [vadd] at this
      simp only [vadd, List.zipWith_cons_cons, List.sum_cons, this]
      ring

theorem vadd_vzero_left (n : Nat) (a : List K) (h : a.length = n) : vadd (vzero n) a = a := by
  induction a generalizing n with
  | nil => simp [vadd]
  | cons x a ih =>
    cases n with
    | zero => simp at h
    | succ n =>
      simp only [List.length_cons, Nat.add_right_cancel_iff] at h
      have := ih n h
      simp only [vadd, vzero] at this
      simp [vadd, vzero, List.replicate_succ, this]

theorem vsum_length (m : Nat) (l : List (List K)) (h : ∀ c ∈ l, c.length = m) :
    (vsum m l).length = m := by
  induction l with
  | nil => simp [vsum, vzero]
  | cons c l ih =>
    have hc : c.length = m := h c (by simp)
    have := ih (fun c hc' => h c (by simp [hc']))
    simp only [vsum] at this
    simp [vsum, vadd_length, hc, this]

theorem vsum_sum (m : Nat) (l : List (List K)) (h : ∀ c ∈ l, c.length = m) :
    (vsum m l).sum = (l.map List.sum).sum := by
  induction l with
  | nil => simp [vsum, vzero]
  | cons c l ih =>
    have hc : c.length = m := h c (by simp)
    have hl : ∀ c ∈ l, c.length = m := fun c hc' => h c (by simp [hc'])
    have h1 := ih hl
    have h2 := vsum_length m l hl
    simp only [vsum] at h1 h2
    simp only [vsum, List.foldr_cons, List.map_cons, List.sum_cons]
    rw [vadd_sum _ _ (by rw [hc, h2]), h1]

theorem sum_flatten' (l : List (List K)) : l.flatten.sum = (l.map List.sum).sum := by
  induction l with
  | nil => simp
  | cons c l ih => simp [ih]

theorem fineSize_cons (s n : Nat) (rest : List Nat) :
    fineSize s (n :: rest) = n * s * fineSize s rest := by
  simp [fineSize]

theorem size_cons (n : Nat) (rest : List Nat) : size (n :: rest) = n * size rest := by
  simp [size]

theorem fineSize_eq (s : Nat) (dims : List Nat) : fineSize s dims = size dims * s ^ dims.length := by
  induction dims with
  | nil => simp [fineSize, size]
  | cons n rest ih => rw [fineSize_cons, size_cons, ih, List.length_cons, pow_succ]; ring

/-- the rows of a fine array, grouped -/
theorem groups_rows_flatten (s n m : Nat) (v : List K) (h : v.length = n * s * m) :
    (chunks s n (chunks m (n * s) v)).flatten = chunks m (n * s) v :=
  chunks_flatten s n _ (by rw [chunks_length])

theorem binND_length (s : Nat) (dims : List Nat) (v : List K) (h : v.length = fineSize s dims) :
    (binND s dims v).length = size dims := by
  induction dims generalizing v with
  | nil => simpa [binND, size, fineSize] using h
  | cons n rest ih =>
    rw [fineSize_cons] at h
    have hrows := chunks_mem_length (fineSize s rest) (n * s) v h
    have hgl : (chunks s n (chunks (fineSize s rest) (n * s) v)).length = n := chunks_length _ _ _
    have hg : ∀ g ∈ chunks s n (chunks (fineSize s rest) (n * s) v), ∀ c ∈ g, c.length = fineSize s rest := by
      intro g hg c hc
      apply hrows
      rw [← groups_rows_flatten s n _ v h]
      exact List.mem_flatten.mpr ⟨g, hg, hc⟩
    simp only [binND, size_cons, List.length_flatMap]
    have : ∀ g ∈ chunks s n (chunks (fineSize s rest) (n * s) v),
        (binND s rest (vsum (fineSize s rest) g)).length = size rest := by
      intro g hg'
      exact ih _ (vsum_length _ _ (hg g hg'))
    rw [List.map_congr_left this]
    simp [hgl]

theorem binND_sum (s : Nat) (dims : List Nat) (v : List K) (h : v.length = fineSize s dims) :
    (binND s dims v).sum = v.sum := by
  induction dims generalizing v with
  | nil => simp [binND]
  | cons n rest ih =>
    rw [fineSize_cons] at h
    have hrows := chunks_mem_length (fineSize s rest) (n * s) v h
    have hflat := groups_rows_flatten s n _ v h
    have hg : ∀ g ∈ chunks s n (chunks (fineSize s rest) (n * s) v), ∀ c ∈ g, c.length = fineSize s rest := by
      intro g hg c hc
      apply hrows
      rw [← hflat]
      exact List.mem_flatten.mpr ⟨g, hg, hc⟩
    simp only [binND, List.flatMap_def, sum_flatten', List.map_map]
    have : ∀ g ∈ chunks s n (chunks (fineSize s rest) (n * s) v),
        (List.sum ∘ fun g => binND s rest (vsum (fineSize s rest) g)) g = (g.map List.sum).sum := by
      intro g hg'
      simp only [Function.comp]
      rw [ih _ (vsum_length _ _ (hg g hg')), vsum_sum _ _ (hg g hg')]
    rw [List.map_congr_left this]
    -- Σ_g Σ_{c∈g} c.sum = Σ_rows c.sum = v.sum
    have e1 : ((chunks s n (chunks (fineSize s rest) (n * s) v)).map fun g => (g.map List.sum).sum).sum
        = ((chunks s n (chunks (fineSize s rest) (n * s) v)).flatten.map List.sum).sum := by
      rw [List.map_flatten, sum_flatten', List.map_map]; rfl
    rw [e1, hflat, ← sum_flatten', chunks_flatten _ _ _ h]

/-! ### per-axis factors -/

theorem fineSizes_cons (s n : Nat) (ss rest : List Nat) :
    fineSizes (s :: ss) (n :: rest) = n * s * fineSizes ss rest := by
  simp [fineSizes]

theorem fineSizes_replicate (s : Nat) (dims : List Nat) :
    fineSizes (dims.map fun _ => s) dims = fineSize s dims := by
  induction dims with
  | nil => rfl
  | cons n rest ih => simp only [List.map_cons, fineSizes_cons, fineSize_cons, ih]

theorem fineSizes_eq (ss dims : List Nat) (hl : ss.length = dims.length) :
    fineSizes ss dims = size dims * ss.foldr (· * ·) 1 := by
  induction dims generalizing ss with
  | nil => cases ss with
    | nil => simp [fineSizes, size]
    | cons s ss => simp at hl
  | cons n rest ih => cases ss with
    | nil => simp at hl
    | cons s ss =>
      simp only [List.length_cons, Nat.add_right_cancel_iff] at hl
      rw [fineSizes_cons, size_cons, ih ss hl, List.foldr_cons]; ring

/-- one common factor is the special case of per-axis factors -/
theorem binNDs_replicate (s : Nat) (dims : List Nat) (v : List K) :
    binNDs (dims.map fun _ => s) dims v = binND s dims v := by
  induction dims generalizing v with
  | nil => rfl
  | cons n rest ih =>
    simp only [List.map_cons, binNDs, binND, fineSizes_replicate]
    congr 1
    funext g
    exact ih _

theorem binNDs_length (ss dims : List Nat) (hl : ss.length = dims.length) (v : List K)
    (h : v.length = fineSizes ss dims) : (binNDs ss dims v).length = size dims := by
  induction dims generalizing v ss with
  | nil =>
    cases ss with
    | nil => simpa [binNDs, size, fineSizes] using h
    | cons s ss => simp at hl
  | cons n rest ih =>
    cases ss with
    | nil => simp at hl
    | cons s ss =>
    simp only [List.length_cons, Nat.add_right_cancel_iff] at hl
    rw [fineSizes_cons] at h
    have hrows := chunks_mem_length (fineSizes ss rest) (n * s) v h
    have hgl : (chunks s n (chunks (fineSizes ss rest) (n * s) v)).length = n := chunks_length _ _ _
    have hg : ∀ g ∈ chunks s n (chunks (fineSizes ss rest) (n * s) v), ∀ c ∈ g, c.length = fineSizes ss rest := by
      intro g hg c hc
      apply hrows
      rw [← groups_rows_flatten s n _ v h]
      exact List.mem_flatten.mpr ⟨g, hg, hc⟩
    simp only [binNDs, size_cons, List.length_flatMap]
    have : ∀ g ∈ chunks s n (chunks (fineSizes ss rest) (n * s) v),
        (binNDs ss rest (vsum (fineSizes ss rest) g)).length = size rest := by
      intro g hg'
      exact ih ss hl _ (vsum_length _ _ (hg g hg'))
    rw [List.map_congr_left this]
    simp [hgl]

theorem binNDs_sum (ss dims : List Nat) (hl : ss.length = dims.length) (v : List K)
    (h : v.length = fineSizes ss dims) : (binNDs ss dims v).sum = v.sum := by
  induction dims generalizing v ss with
  | nil =>
    cases ss with
    | nil => simp [binNDs]
    | cons s ss => simp at hl
  | cons n rest ih =>
    cases ss with
    | nil => simp at hl
    | cons s ss =>
    simp only [List.length_cons, Nat.add_right_cancel_iff] at hl
    rw [fineSizes_cons] at h
    have hrows := chunks_mem_length (fineSizes ss rest) (n * s) v h
    have hflat := groups_rows_flatten s n _ v h
    have hg : ∀ g ∈ chunks s n (chunks (fineSizes ss rest) (n * s) v), ∀ c ∈ g, c.length = fineSizes ss rest := by
      intro g hg c hc
      apply hrows
      rw [← hflat]
      exact List.mem_flatten.mpr ⟨g, hg, hc⟩
    simp only [binNDs, List.flatMap_def, sum_flatten', List.map_map]
    have : ∀ g ∈ chunks s n (chunks (fineSizes ss rest) (n * s) v),
        (List.sum ∘ fun g => binNDs ss rest (vsum (fineSizes ss rest) g)) g = (g.map List.sum).sum := by
      intro g hg'
      simp only [Function.comp]
      rw [ih ss hl _ (vsum_length _ _ (hg g hg')), vsum_sum _ _ (hg g hg')]
    rw [List.map_congr_left this]
    have e1 : ((chunks s n (chunks (fineSizes ss rest) (n * s) v)).map fun g => (g.map List.sum).sum).sum
        = ((chunks s n (chunks (fineSizes ss rest) (n * s) v)).flatten.map List.sum).sum := by
      rw [List.map_flatten, sum_flatten', List.map_map]; rfl
    rw [e1, hflat, ← sum_flatten', chunks_flatten _ _ _ h]

end sums

end HcipyVerif.Binning
