import HcipyVerif.Model.Binning
import Mathlib.Algebra.BigOperators.Group.List.Basic
import Mathlib.Algebra.BigOperators.Ring.List
import Mathlib.Algebra.Field.Basic
import Mathlib.Tactic.Ring
import Mathlib.Tactic.FieldSimp
import Mathlib.Tactic.Linarith

/-! Helper lemmas about `chunks`, `vadd`, `vsum`, `binND` (C17, C18). -/
set_option linter.unusedSimpArgs false
set_option linter.unusedVariables false
set_option linter.unusedSectionVars false

namespace HcipyVerif.Binning

section chunks
variable {α : Type}

theorem chunks_length (m k : Nat) (v : List α) : (chunks m k v).length = k := by
  induction k generalizing v with
  | zero => simp [chunks]
  | succ k ih => simp [chunks, ih]

theorem chunks_flatten (m k : Nat) (v : List α) (h : v.length = k * m) :
    (chunks m k v).flatten = v := by
  induction k generalizing v with
  | zero => simp at h; simp [chunks, h]
  | succ k ih =>
    have : (v.drop m).length = k * m := by simp [List.length_drop, h]; ring_nf; omega
    simp [chunks, ih _ this]

theorem chunks_mem_length (m k : Nat) (v : List α) (h : v.length = k * m) :
    ∀ c ∈ chunks m k v, c.length = m := by
  induction k generalizing v with
  | zero => simp [chunks]
  | succ k ih =>
    have hd : (v.drop m).length = k * m := by simp [List.length_drop, h]; ring_nf; omega
    have hm : m ≤ v.length := by rw [h]; nlinarith
    intro c hc
    simp only [chunks, List.mem_cons] at hc
    rcases hc with rfl | hc
    · simp [List.length_take, hm]
    · exact ih _ hd c hc

/-- the chunks of a concatenation of blocks of equal length are the blocks -/
theorem chunks_flatten_eq (m : Nat) (l : List (List α)) (h : ∀ c ∈ l, c.length = m) :
    chunks m l.length l.flatten = l := by
  induction l with
  | nil => simp [chunks]
  | cons c l ih =>
    have hc : c.length = m := h c (by simp)
    have hl : ∀ c ∈ l, c.length = m := fun c hc' => h c (by simp [hc'])
    simp only [List.length_cons, chunks, List.flatten_cons]
    rw [List.take_left' hc, List.drop_left' hc, ih hl]

end chunks

section sums
variable {K : Type} [Field K]

theorem vzero_length (n : Nat) : (vzero n : List K).length = n := by simp [vzero]

theorem vzero_sum (n : Nat) : (vzero n : List K).sum = 0 := by simp [vzero]

theorem vadd_length (a b : List K) : (vadd a b).length = min a.length b.length := by
  simp [vadd]

theorem vadd_sum (a b : List K) (h : a.length = b.length) : (vadd a b).sum = a.sum + b.sum := by
  induction a generalizing b with
  | nil => cases b <;> simp_all [vadd]
  | cons x a ih =>
    cases b with
    | nil => simp at h
    | cons y b =>
      simp only [List.length_cons, Nat.add_right_cancel_iff] at h
      have := ih b h
      simp only [vadd] at this
      simp only [vadd, List.zipWith_cons_cons, List.sum_cons, this]
      ring

theorem vadd_vzero_left (n : Nat) (a : List K) (h : a.length = n) : vadd (vzero n) a = a := by
  induction a generalizing n with
  | nil => simp [vadd]
  | cons x a ih =>
    cases n with
    | zero => simp at h
    | succ n =>
      simp only [List.length_cons, Nat.add_right_cancel_iff] at h
      have := ih n h
      simp only [vadd, vzero] at this
      simp [vadd, vzero, List.replicate_succ, this]

theorem vsum_length (m : Nat) (l : List (List K)) (h : ∀ c ∈ l, c.length = m) :
    (vsum m l).length = m := by
  induction l with
  | nil => simp [vsum, vzero]
  | cons c l ih =>
    have hc : c.length = m := h c (by simp)
    have := ih (fun c hc' => h c (by simp [hc']))
    simp only [vsum] at this
    simp [vsum, vadd_length, hc, this]

theorem vsum_sum (m : Nat) (l : List (List K)) (h : ∀ c ∈ l, c.length = m) :
    (vsum m l).sum = (l.map List.sum).sum := by
  induction l with
  | nil => simp [vsum, vzero]
  | cons c l ih =>
    have hc : c.length = m := h c (by simp)
    have hl : ∀ c ∈ l, c.length = m := fun c hc' => h c (by simp [hc'])
    have h1 := ih hl
    have h2 := vsum_length m l hl
    simp only [vsum] at h1 h2
    simp only [vsum, List.foldr_cons, List.map_cons, List.sum_cons]
    rw [vadd_sum _ _ (by rw [hc, h2]), h1]

theorem sum_flatten' (l : List (List K)) : l.flatten.sum = (l.map List.sum).sum := by
  induction l with
  | nil => simp
  | cons c l ih => simp [ih]

theorem fineSize_cons (s n : Nat) (rest : List Nat) :
    fineSize s (n :: rest) = n * s * fineSize s rest := by
  simp [fineSize]

theorem size_cons (n : Nat) (rest : List Nat) : size (n :: rest) = n * size rest := by
  simp [size]

theorem fineSize_eq (s : Nat) (dims : List Nat) : fineSize s dims = size dims * s ^ dims.length := by
  induction dims with
  | nil => simp [fineSize, size]
  | cons n rest ih => rw [fineSize_cons, size_cons, ih, List.length_cons, pow_succ]; ring

/-- the rows of a fine array, grouped -/
theorem groups_rows_flatten (s n m : Nat) (v : List K) (h : v.length = n * s * m) :
    (chunks s n (chunks m (n * s) v)).flatten = chunks m (n * s) v :=
  chunks_flatten s n _ (by rw [chunks_length])

theorem binND_length (s : Nat) (dims : List Nat) (v : List K) (h : v.length = fineSize s dims) :
    (binND s dims v).length = size dims := by
  induction dims generalizing v with
  | nil => simpa [binND, size, fineSize] using h
  | cons n rest ih =>
    rw [fineSize_cons] at h
    have hrows := chunks_mem_length (fineSize s rest) (n * s) v h
    have hgl : (chunks s n (chunks (fineSize s rest) (n * s) v)).length = n := chunks_length _ _ _
    have hg : ∀ g ∈ chunks s n (chunks (fineSize s rest) (n * s) v), ∀ c ∈ g, c.length = fineSize s rest := by
      intro g hg c hc
      apply hrows
      rw [← groups_rows_flatten s n _ v h]
      exact List.mem_flatten.mpr ⟨g, hg, hc⟩
    simp only [binND, size_cons, List.length_flatMap]
    have : ∀ g ∈ chunks s n (chunks (fineSize s rest) (n * s) v),
        (binND s rest (vsum (fineSize s rest) g)).length = size rest := by
      intro g hg'
      exact ih _ (vsum_length _ _ (hg g hg'))
    rw [List.map_congr_left this]
    simp [hgl]

theorem binND_sum (s : Nat) (dims : List Nat) (v : List K) (h : v.length = fineSize s dims) :
    (binND s dims v).sum = v.sum := by
  induction dims generalizing v with
  | nil => simp [binND]
  | cons n rest ih =>
    rw [fineSize_cons] at h
    have hrows := chunks_mem_length (fineSize s rest) (n * s) v h
    have hflat := groups_rows_flatten s n _ v h
    have hg : ∀ g ∈ chunks s n (chunks (fineSize s rest) (n * s) v), ∀ c ∈ g, c.length = fineSize s rest := by
      intro g hg c hc
      apply hrows
      rw [← hflat]
      exact List.mem_flatten.mpr ⟨g, hg, hc⟩
    simp only [binND, List.flatMap_def, sum_flatten', List.map_map]
    have : ∀ g ∈ chunks s n (chunks (fineSize s rest) (n * s) v),
        (List.sum ∘ fun g => binND s rest (vsum (fineSize s rest) g)) g = (g.map List.sum).sum := by
      intro g hg'
      simp only [Function.comp]
      rw [ih _ (vsum_length _ _ (hg g hg')), vsum_sum _ _ (hg g hg')]
    rw [List.map_congr_left this]
    -- Σ_g Σ_{c∈g} c.sum = Σ_rows c.sum = v.sum
    have e1 : ((chunks s n (chunks (fineSize s rest) (n * s) v)).map fun g => (g.map List.sum).sum).sum
        = ((chunks s n (chunks (fineSize s rest) (n * s) v)).flatten.map List.sum).sum := by
      rw [List.map_flatten, sum_flatten', List.map_map]; rfl
    rw [e1, hflat, ← sum_flatten', chunks_flatten _ _ _ h]

/-! ### per-axis factors -/

theorem fineSizes_cons (s n : Nat) (ss rest : List Nat) :
    fineSizes (s :: ss) (n :: rest) = n * s * fineSizes ss rest := by
  simp [fineSizes]

theorem fineSizes_replicate (s : Nat) (dims : List Nat) :
    fineSizes (dims.map fun _ => s) dims = fineSize s dims := by
  induction dims with
  | nil => rfl
  | cons n rest ih => simp only [List.map_cons, fineSizes_cons, fineSize_cons, ih]

theorem fineSizes_eq (ss dims : List Nat) (hl : ss.length = dims.length) :
    fineSizes ss dims = size dims * ss.foldr (· * ·) 1 := by
  induction dims generalizing ss with
  | nil => cases ss with
    | nil => simp [fineSizes, size]
    | cons s ss => simp at hl
  | cons n rest ih => cases ss with
    | nil => simp at hl
    | cons s ss =>
      simp only [List.length_cons, Nat.add_right_cancel_iff] at hl
      rw [fineSizes_cons, size_cons, ih ss hl, List.foldr_cons]; ring

/-- one common factor is the special case of per-axis factors -/
theorem binNDs_replicate (s : Nat) (dims : List Nat) (v : List K) :
    binNDs (dims.map fun _ => s) dims v = binND s dims v := by
  induction dims generalizing v with
  | nil => rfl
  | cons n rest ih =>
    simp only [List.map_cons, binNDs, binND, fineSizes_replicate]
    congr 1
    funext g
    exact ih _

theorem binNDs_length (ss dims : List Nat) (hl : ss.length = dims.length) (v : List K)
    (h : v.length = fineSizes ss dims) : (binNDs ss dims v).length = size dims := by
  induction dims generalizing v ss with
  | nil =>
    cases ss with
    | nil => simpa [binNDs, size, fineSizes] using h
    | cons s ss => simp at hl
  | cons n rest ih =>
    cases ss with
    | nil => simp at hl
    | cons s ss =>
    simp only [List.length_cons, Nat.add_right_cancel_iff] at hl
    rw [fineSizes_cons] at h
    have hrows := chunks_mem_length (fineSizes ss rest) (n * s) v h
    have hgl : (chunks s n (chunks (fineSizes ss rest) (n * s) v)).length = n := chunks_length _ _ _
    have hg : ∀ g ∈ chunks s n (chunks (fineSizes ss rest) (n * s) v), ∀ c ∈ g, c.length = fineSizes ss rest := by
      intro g hg c hc
      apply hrows
      rw [← groups_rows_flatten s n _ v h]
      exact List.mem_flatten.mpr ⟨g, hg, hc⟩
    simp only [binNDs, size_cons, List.length_flatMap]
    have : ∀ g ∈ chunks s n (chunks (fineSizes ss rest) (n * s) v),
        (binNDs ss rest (vsum (fineSizes ss rest) g)).length = size rest := by
      intro g hg'
      exact ih ss hl _ (vsum_length _ _ (hg g hg'))
    rw [List.map_congr_left this]
    simp [hgl]

theorem binNDs_sum (ss dims : List Nat) (hl : ss.length = dims.length) (v : List K)
    (h : v.length = fineSizes ss dims) : (binNDs ss dims v).sum = v.sum := by
  induction dims generalizing v ss with
  | nil =>
    cases ss with
    | nil => simp [binNDs]
    | cons s ss => simp at hl
  | cons n rest ih =>
    cases ss with
    | nil => simp at hl
    | cons s ss =>
    simp only [List.length_cons, Nat.add_right_cancel_iff] at hl
    rw [fineSizes_cons] at h
    have hrows := chunks_mem_length (fineSizes ss rest) (n * s) v h
    have hflat := groups_rows_flatten s n _ v h
    have hg : ∀ g ∈ chunks s n (chunks (fineSizes ss rest) (n * s) v), ∀ c ∈ g, c.length = fineSizes ss rest := by
      intro g hg c hc
      apply hrows
      rw [← hflat]
      exact List.mem_flatten.mpr ⟨g, hg, hc⟩
    simp only [binNDs, List.flatMap_def, sum_flatten', List.map_map]
    have : ∀ g ∈ chunks s n (chunks (fineSizes ss rest) (n * s) v),
        (List.sum ∘ fun g => binNDs ss rest (vsum (fineSizes ss rest) g)) g = (g.map List.sum).sum := by
      intro g hg'
      simp only [Function.comp]
      rw [ih ss hl _ (vsum_length _ _ (hg g hg')), vsum_sum _ _ (hg g hg')]
    rw [List.map_congr_left this]
    have e1 : ((chunks s n (chunks (fineSizes ss rest) (n * s) v)).map fun g => (g.map List.sum).sum).sum
        = ((chunks s n (chunks (fineSizes ss rest) (n * s) v)).flatten.map List.sum).sum := by
      rw [List.map_flatten, sum_flatten', List.map_map]; rfl
    rw [e1, hflat, ← sum_flatten', chunks_flatten _ _ _ h]

/-- `(N / D) * D = N` elementwise when no denominator vanishes -/
theorem zipWith_div_mul_cancel : ∀ (N D : List K), (∀ x ∈ D, x ≠ 0) → N.length = D.length →
    List.zipWith (· * ·) (List.zipWith (· / ·) N D) D = N := by
  intro N
  induction N with
  | nil => intro D _ _; simp
  | cons n N ih =>
    intro D hD hl
    cases D with
    | nil => simp at hl
    | cons d D =>
      simp only [List.length_cons, Nat.add_right_cancel_iff] at hl
      have hd : d ≠ 0 := hD d (by simp)
      simp only [List.zipWith_cons_cons, ih D (fun x hx => hD x (by simp [hx])) hl]
      congr 1
      field_simp

end sums

/-! ### the index map of binning -/

section idx
variable {α : Type}

theorem chunks_getElem? (m k : Nat) (v : List α) (i : Nat) (hi : i < k) :
    (chunks m k v)[i]? = some ((v.drop (i * m)).take m) := by
  induction k generalizing v i with
  | zero => omega
  | succ k ih =>
    cases i with
    | zero => simp [chunks]
    | succ i =>
      simp only [chunks, List.getElem?_cons_succ]
      rw [ih _ _ (by omega), List.drop_drop]
      have : m + i * m = (i + 1) * m := by ring
      rw [this]

end idx

section index
variable {K : Type} [Field K]

theorem take_drop_getD (v : List K) (a m f : Nat) (hf : f < m) :
    ((v.drop a).take m).getD f 0 = v.getD (a + f) 0 := by
  simp [List.getD_eq_getElem?_getD, List.getElem?_take, hf]

theorem flatMap_getD_block {α : Type} (l : List α) (F : α → List K) (M : Nat)
    (h : ∀ x ∈ l, (F x).length = M) (i j : Nat) (x : α) (hx : l[i]? = some x) (hj : j < M) :
    (l.flatMap F).getD (i * M + j) 0 = (F x).getD j 0 := by
  induction l generalizing i with
  | nil => simp at hx
  | cons y l ih =>
    have hy : (F y).length = M := h y (by simp)
    cases i with
    | zero =>
      simp only [List.getElem?_cons_zero, Option.some.injEq] at hx
      subst hx
      simp only [List.flatMap_cons, Nat.zero_mul, Nat.zero_add, List.getD_eq_getElem?_getD]
      rw [List.getElem?_append_left (by omega)]
    | succ i =>
      simp only [List.getElem?_cons_succ] at hx
      have := ih (fun x hx' => h x (by simp [hx'])) i hx
      simp only [List.flatMap_cons, List.getD_eq_getElem?_getD] at this ⊢
      rw [List.getElem?_append_right (by rw [hy]; nlinarith), hy]
      have e : (i + 1) * M + j - M = i * M + j := by
        have : (i + 1) * M = i * M + M := by ring
        omega
      rw [e, this]

theorem vsum_getD (m : Nat) (g : List (List K)) (h : ∀ c ∈ g, c.length = m) (f : Nat) (hf : f < m) :
    (vsum m g).getD f 0 = (g.map fun c => c.getD f 0).sum := by
  induction g with
  | nil => simp [vsum, vzero, List.getD_eq_getElem?_getD, hf]
  | cons c g ih =>
    have hc : c.length = m := h c (by simp)
    have hl : ∀ c ∈ g, c.length = m := fun c hc' => h c (by simp [hc'])
    have h1 := ih hl
    have h2 := vsum_length m g hl
    simp only [vsum] at h1 h2
    simp only [vsum, List.foldr_cons, List.map_cons, List.sum_cons]
    have : (vadd c (List.foldr vadd (vzero m) g)).getD f 0 = c.getD f 0 + (List.foldr vadd (vzero m) g).getD f 0 := by
      simp [vadd, List.getD_eq_getElem?_getD, List.getElem?_zipWith,
        List.getElem?_eq_getElem (show f < c.length by omega),
        List.getElem?_eq_getElem (show f < (List.foldr vadd (vzero m) g).length by omega)]
    rw [this, h1]

theorem flatIdx_lt (dims c : List Nat) (h : InBounds dims c) : flatIdx dims c < size dims := by
  induction dims generalizing c with
  | nil => simp [flatIdx, size]
  | cons n rest ih =>
    obtain ⟨h0, h1⟩ := h
    have := ih _ h1
    simp only [flatIdx, size_cons]
    calc c.headD 0 * size rest + flatIdx rest c.tail < c.headD 0 * size rest + size rest := by omega
      _ = (c.headD 0 + 1) * size rest := by ring
      _ ≤ n * size rest := Nat.mul_le_mul_right _ h0

theorem boxSums_congr (dims ss c : List Nat) (hl : ss.length = dims.length) (hc : InBounds dims c) (get get' : Nat → K)
    (h : ∀ f < fineSizes ss dims, get f = get' f) : boxSums dims ss c get = boxSums dims ss c get' := by
  induction dims generalizing ss c get get' with
  | nil => simpa [boxSums] using h 0 (by simp [fineSizes])
  | cons n rest ih =>
    cases ss with
    | nil => simp at hl
    | cons s ss =>
    simp only [List.length_cons, Nat.add_right_cancel_iff] at hl
    obtain ⟨h0, h1⟩ := hc
    simp only [boxSums, List.headD_cons, List.tail_cons]
    congr 1
    apply List.map_congr_left
    intro r0 hr0
    have hr : r0 < s := List.mem_range.mp hr0
    apply ih _ _ hl h1
    intro f hf
    apply h
    rw [fineSizes_cons]
    have h2 : c.headD 0 * s + r0 + 1 ≤ n * s := by
      calc c.headD 0 * s + r0 + 1 ≤ c.headD 0 * s + s := by omega
        _ = (c.headD 0 + 1) * s := by ring
        _ ≤ n * s := Nat.mul_le_mul_right _ h0
    calc (c.headD 0 * s + r0) * fineSizes ss rest + f < (c.headD 0 * s + r0) * fineSizes ss rest + fineSizes ss rest := by omega
      _ = (c.headD 0 * s + r0 + 1) * fineSizes ss rest := by ring
      _ ≤ n * s * fineSizes ss rest := Nat.mul_le_mul_right _ h2

theorem boxSums_zero (dims ss c : List Nat) : boxSums dims ss c (fun _ => (0 : K)) = 0 := by
  induction dims generalizing ss c with
  | nil => simp [boxSums]
  | cons n rest ih => simp [boxSums, ih]

theorem boxSums_add (dims ss c : List Nat) (a b : Nat → K) :
    boxSums dims ss c (fun f => a f + b f) = boxSums dims ss c a + boxSums dims ss c b := by
  induction dims generalizing ss c a b with
  | nil => simp [boxSums]
  | cons n rest ih =>
    simp only [boxSums, ih]
    rw [List.sum_map_add]

theorem boxSums_sum (dims ss c : List Nat) (l : List Nat) (h : Nat → Nat → K) :
    boxSums dims ss c (fun f => (l.map fun r => h r f).sum) = (l.map fun r => boxSums dims ss c (h r)).sum := by
  induction l with
  | nil => simp [boxSums_zero]
  | cons r l ih => simp only [List.map_cons, List.sum_cons, boxSums_add, ih]

/-- the rows a group consists of -/
theorem group_eq (s n m : Nat) (v : List K) (c0 : Nat) (h0 : c0 < n) :
    ((chunks m (n * s) v).drop (c0 * s)).take s
      = (List.range s).map fun r0 => (v.drop ((c0 * s + r0) * m)).take m := by
  apply List.ext_getElem?
  intro i
  by_cases hi : i < s
  · have h2 : c0 * s + i < n * s := by
      calc c0 * s + i < c0 * s + s := by omega
        _ = (c0 + 1) * s := by ring
        _ ≤ n * s := Nat.mul_le_mul_right _ h0
    simp [List.getElem?_take, hi, chunks_getElem? m (n * s) v _ h2]
  · simp [List.getElem?_take, hi]

/-- **index map of binning**: pixel `flatIdx dims c` of the binned array is the sum of the fine samples over
the box of sub-pixels of `c` -/
theorem binNDs_getD (dims ss c : List Nat) (hl : ss.length = dims.length) (hc : InBounds dims c) (v : List K)
    (h : v.length = fineSizes ss dims) :
    (binNDs ss dims v).getD (flatIdx dims c) 0 = boxSums dims ss c (fun f => v.getD f 0) := by
  induction dims generalizing ss c v with
  | nil =>
    cases ss with
    | nil => simp [binNDs, flatIdx, boxSums]
    | cons s ss => simp at hl
  | cons n rest ih =>
    cases ss with
    | nil => simp at hl
    | cons s ss =>
    simp only [List.length_cons, Nat.add_right_cancel_iff] at hl
    obtain ⟨h0, h1⟩ := hc
    rw [fineSizes_cons] at h
    have hrows := chunks_mem_length (fineSizes ss rest) (n * s) v h
    have hg : ∀ g ∈ chunks s n (chunks (fineSizes ss rest) (n * s) v), ∀ c ∈ g, c.length = fineSizes ss rest := by
      intro g hg c hc
      apply hrows
      rw [← groups_rows_flatten s n _ v h]
      exact List.mem_flatten.mpr ⟨g, hg, hc⟩
    have hblk : ∀ g ∈ chunks s n (chunks (fineSizes ss rest) (n * s) v),
        (binNDs ss rest (vsum (fineSizes ss rest) g)).length = size rest := by
      intro g hg'
      exact binNDs_length ss rest hl _ (vsum_length _ _ (hg g hg'))
    have hget := chunks_getElem? s n (chunks (fineSizes ss rest) (n * s) v) (c.headD 0) h0
    have hmem := List.mem_of_getElem? hget
    simp only [binNDs, flatIdx, boxSums, List.headD_cons, List.tail_cons]
    rw [flatMap_getD_block _ _ (size rest) hblk _ _ _ hget (flatIdx_lt rest c.tail h1),
      ih ss c.tail hl h1 _ (vsum_length _ _ (hg _ hmem)), ← boxSums_sum]
    apply boxSums_congr _ _ _ hl h1
    intro f hf
    rw [vsum_getD _ _ (hg _ hmem) f hf, group_eq s n _ v _ h0, List.map_map]
    congr 1
    apply List.map_congr_left
    intro r0 _
    simp only [Function.comp]
    rw [take_drop_getD _ _ _ _ hf]

/-- one common factor: pixel `flatIdx dims c` of `binND s dims v` -/
theorem binND_getD (s : Nat) (dims c : List Nat) (hc : InBounds dims c) (v : List K)
    (h : v.length = fineSize s dims) :
    (binND s dims v).getD (flatIdx dims c) 0 = boxSums dims (dims.map fun _ => s) c (fun f => v.getD f 0) := by
  rw [← binNDs_replicate, binNDs_getD dims _ c (by simp) hc v (by rw [fineSizes_replicate]; exact h)]

end index

/-! ### tensor fields: the single reshape -/

section
variable {α : Type}

theorem chunks_one (k : Nat) (l : List α) (h : l.length = k) : chunks 1 k l = l.map fun x => [x] := by
  induction k generalizing l with
  | zero => simp at h; simp [chunks, h]
  | succ k ih =>
    cases l with
    | nil => simp at h
    | cons x l => simp at h; simp [chunks, ih l h]

theorem chunks_take (m k : Nat) (v : List α) : chunks m k (v.take (k * m)) = chunks m k v := by
  induction k generalizing v with
  | zero => simp [chunks]
  | succ k ih =>
    simp only [chunks]
    have e : (k + 1) * m = m + k * m := by ring
    rw [e, List.take_take, List.drop_take]
    congr 1
    · congr 1; omega
    · have : m + k * m - m = k * m := by omega
      rw [this, ih]

theorem chunks_add (m a b : Nat) (v : List α) :
    chunks m (a + b) v = chunks m a v ++ chunks m b (v.drop (a * m)) := by
  induction a generalizing v with
  | zero => simp [chunks]
  | succ a ih =>
    have e : a + 1 + b = (a + b) + 1 := by omega
    rw [e]
    simp only [chunks, List.cons_append]
    rw [ih, List.drop_drop]
    congr 3
    rw [Nat.add_mul, Nat.one_mul, Nat.add_comm]

theorem chunks_chunks (M k T : Nat) (v : List α) :
    (chunks (k * M) T v).flatMap (chunks M k) = chunks M (T * k) v := by
  induction T generalizing v with
  | zero => simp [chunks]
  | succ T ih =>
    simp only [chunks, List.flatMap_cons]
    rw [ih, chunks_take]
    have e : (T + 1) * k = k + T * k := by ring
    rw [e, chunks_add]

end

section
variable {K : Type} [Field K]

theorem vadd_vzero_right (n : Nat) (a : List K) (h : a.length = n) : vadd a (vzero n) = a := by
  induction a generalizing n with
  | nil => simp [vadd]
  | cons x a ih =>
    cases n with
    | zero => simp at h
    | succ n =>
      simp only [List.length_cons, Nat.add_right_cancel_iff] at h
      have := ih n h
      simp only [vadd, vzero] at this
      simp [vadd, vzero, List.replicate_succ, this]

/-- a leading axis with factor 1: the blocks along it are binned one by one -/
theorem binNDs_one_cons (ss dims : List Nat) (T : Nat) (v : List K) (hv : v.length = T * fineSizes ss dims) :
    binNDs (1 :: ss) (T :: dims) v = (chunks (fineSizes ss dims) T v).flatMap (binNDs ss dims) := by
  simp only [binNDs, Nat.mul_one]
  rw [chunks_one T _ (chunks_length _ _ _), List.flatMap_map]
  apply List.flatMap_congr
  intro row hrow
  have := chunks_mem_length (fineSizes ss dims) T v hv row hrow
  simp [vsum, vadd_vzero_right _ _ this]

theorem fineSizes_ones_append (ss dims ts : List Nat) :
    fineSizes (ts.map (fun _ => 1) ++ ss) (ts ++ dims) = size ts * fineSizes ss dims := by
  induction ts with
  | nil => simp [size]
  | cons T ts ih => simp only [List.map_cons, List.cons_append, fineSizes_cons, ih, size_cons]; ring

/-- **the single reshape with the tensor axes in front is component-wise binning** -/
theorem binTensorL_eq (ss dims : List Nat) : ∀ (ts : List Nat) (v : List K),
    v.length = size ts * fineSizes ss dims →
    binTensorL ss dims ts v = (chunks (fineSizes ss dims) (size ts) v).flatMap (binNDs ss dims) := by
  intro ts
  induction ts with
  | nil =>
    intro v hv
    simp only [size, List.foldr_nil, Nat.one_mul] at hv
    simp [binTensorL, size, chunks, List.take_of_length_le (Nat.le_of_eq hv)]
  | cons T ts ih =>
    intro v hv
    simp only [binTensorL, List.map_cons, List.cons_append] at ih ⊢
    rw [size_cons] at hv ⊢
    have hm := fineSizes_ones_append ss dims ts
    rw [binNDs_one_cons _ _ T v (by rw [hm, hv]; ring), hm]
    have : ∀ blk ∈ chunks (size ts * fineSizes ss dims) T v,
        binNDs (ts.map (fun _ => 1) ++ ss) (ts ++ dims) blk
          = (chunks (fineSizes ss dims) (size ts) blk).flatMap (binNDs ss dims) := by
      intro blk hblk
      exact ih blk (chunks_mem_length _ T v (by rw [hv]; ring) blk hblk)
    rw [List.flatMap_congr this, ← List.flatMap_assoc, chunks_chunks]

end

/-! ### binning is linear: a common factor of the samples (of the weights: another unit of length) factors out -/

section
theorem chunks_map {α β : Type} (f : α → β) (m : Nat) : ∀ (k : Nat) (v : List α),
    chunks m k (v.map f) = (chunks m k v).map (List.map f) := by
  intro k
  induction k with
  | zero => intro v; simp [chunks]
  | succ k ih => intro v; simp [chunks, List.map_take, List.map_drop, ← ih]

end

section
variable {K : Type} [Field K]


theorem vadd_smul (c : K) : ∀ (a b : List K),
    vadd (a.map (c * ·)) (b.map (c * ·)) = (vadd a b).map (c * ·) := by
  intro a
  induction a with
  | nil => intro b; simp [vadd]
  | cons x a ih =>
    intro b
    cases b with
    | nil => simp [vadd]
    | cons y b =>
      have := ih b
      simp only [vadd] at this
      simp [vadd, this, mul_add]

theorem vsum_smul (c : K) (m : Nat) (l : List (List K)) :
    vsum m (l.map (List.map (c * ·))) = (vsum m l).map (c * ·) := by
  induction l with
  | nil => simp [vsum, vzero]
  | cons g l ih =>
    simp only [vsum, List.map_cons, List.foldr_cons] at ih ⊢
    rw [ih, vadd_smul]

theorem binNDs_smul (c : K) : ∀ (ss dims : List Nat) (v : List K),
    binNDs ss dims (v.map (c * ·)) = (binNDs ss dims v).map (c * ·) := by
  intro ss
  induction ss with
  | nil => intro dims v; cases dims <;> simp [binNDs]
  | cons s ss ih =>
    intro dims v
    cases dims with
    | nil => simp [binNDs]
    | cons n rest =>
      simp only [binNDs]
      rw [chunks_map, chunks_map, List.flatMap_map, List.map_flatMap]
      congr 1
      funext g
      rw [vsum_smul, ih]

theorem zipWith_mul_smul (c : K) : ∀ (v w : List K),
    List.zipWith (· * ·) v (w.map (c * ·)) = (List.zipWith (· * ·) v w).map (c * ·) := by
  intro v
  induction v with
  | nil => intro w; simp
  | cons x v ih =>
    intro w
    cases w with
    | nil => simp
    | cons y w => simp [ih w]; ring

theorem zipWith_div_smul (c : K) (hc : c ≠ 0) : ∀ (N D : List K),
    List.zipWith (· / ·) (N.map (c * ·)) (D.map (c * ·)) = List.zipWith (· / ·) N D := by
  intro N
  induction N with
  | nil => intro D; simp
  | cons x N ih =>
    intro D
    cases D with
    | nil => simp
    | cons y D => simp [ih D, mul_div_mul_left _ _ hc]

end

end HcipyVerif.Binning
