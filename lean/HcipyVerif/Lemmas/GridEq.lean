import HcipyVerif.Model.GridOps
import Mathlib.Tactic.Linarith
import Mathlib.Tactic.Ring
import Mathlib.Algebra.Order.Field.Rat

/-! Helper lemmas for C10: the array comparisons of `Coords.__eq__` decide structural equality. -/
set_option linter.unusedSimpArgs false
set_option linter.unusedVariables false
set_option linter.dupNamespace false

namespace HcipyVerif.Grid

theorem allZip_iff {α} {p : α → α → Bool} (hp : ∀ x y, p x y = true ↔ x = y) (a b : List α) :
    allZip p a b = true ↔ a = b := by
  induction a generalizing b with
  | nil => cases b <;> simp [allZip]
  | cons x xs ih =>
    cases b with
    | nil => simp [allZip]
    | cons y ys =>
      have := ih ys
      simp only [allZip, List.length_cons, List.zipWith_cons_cons, List.all_cons, beq_iff_eq,
        Bool.and_eq_true, id] at this ⊢
      rw [List.cons.injEq, ← this, hp]
      constructor
      · rintro ⟨h1, h2, h3⟩; exact ⟨h2, by omega, h3⟩
      · rintro ⟨h1, h2, h3⟩; exact ⟨by omega, h1, h3⟩

theorem arrEq_iff (a b : List Rat) : arrEq a b = true ↔ a = b :=
  allZip_iff (fun x y => by simp) a b

theorem natArrEq_iff (a b : List Nat) : natArrEq a b = true ↔ a = b :=
  allZip_iff (fun x y => by simp) a b

theorem regAxes_ext : ∀ (a b : List RegAxis), a.map (·.delta) = b.map (·.delta) →
    a.map (·.dim) = b.map (·.dim) → a.map (·.zero) = b.map (·.zero) → a = b
  | [], [], _, _, _ => rfl
  | [], _ :: _, h, _, _ => by simp at h
  | _ :: _, [], h, _, _ => by simp at h
  | x :: xs, y :: ys, h1, h2, h3 => by
    simp only [List.map_cons, List.cons.injEq] at h1 h2 h3
    have := regAxes_ext xs ys h1.2 h2.2 h3.2
    cases x; cases y
    simp_all

theorem regEq_iff (a b : List RegAxis) : regEq a b = true ↔ a = b := by
  unfold regEq
  simp only [Bool.and_eq_true, arrEq_iff, natArrEq_iff]
  constructor
  · rintro ⟨⟨h1, h2⟩, h3⟩; exact regAxes_ext a b h1 h2 h3
  · rintro rfl; simp

theorem sepEq_iff (a b : List (List Rat)) : allZip arrEq a b = true ↔ a = b :=
  allZip_iff arrEq_iff a b

/-- `Coords.__eq__` returning `True` means the two objects hold the same data. -/
theorem Coords.eq_true_imp {a b : Coords} (h : a.eq b = true) : a = b := by
  cases a with
  | regular a =>
    cases b with
    | regular b => rw [(regEq_iff _ _).mp h]
    | separated b => simp [Coords.eq] at h
    | unstructured b => simp [Coords.eq] at h
  | separated a =>
    cases b with
    | regular b => simp [Coords.eq] at h
    | separated b => rw [(sepEq_iff _ _).mp h]
    | unstructured b => simp [Coords.eq] at h
  | unstructured a =>
    cases b with
    | regular b => simp [Coords.eq] at h
    | separated b => simp [Coords.eq] at h
    | unstructured b =>
      simp only [Coords.eq, Bool.and_eq_true] at h
      rw [(sepEq_iff _ _).mp h.2]

theorem Coords.eq_self {a : Coords} (h : a.WF) : a.eq a = true := by
  cases a with
  | regular a => exact (regEq_iff a a).mpr rfl
  | separated a => exact (sepEq_iff a a).mpr rfl
  | unstructured c =>
    simp only [Coords.eq, Bool.and_eq_true]
    exact ⟨⟨h.2, h.2⟩, (sepEq_iff c c).mpr rfl⟩

theorem Coords.eq_iff {a b : Coords} (h : a.WF) : a.eq b = true ↔ a = b :=
  ⟨Coords.eq_true_imp, fun e => e ▸ Coords.eq_self h⟩

theorem Grid.eq_true_imp {a b : Grid} (h : a.eq b = true) : a.system = b.system ∧ a.coords = b.coords := by
  simp only [Grid.eq, Bool.and_eq_true, decide_eq_true_eq] at h
  exact ⟨h.1, Coords.eq_true_imp h.2⟩

theorem Grid.eq_iff {a b : Grid} (h : a.coords.WF) :
    a.eq b = true ↔ a.system = b.system ∧ a.coords = b.coords := by
  constructor
  · exact Grid.eq_true_imp
  · rintro ⟨h1, h2⟩
    simp only [Grid.eq, Bool.and_eq_true, decide_eq_true_eq]
    exact ⟨h1, h2 ▸ Coords.eq_self h⟩

theorem zip3_maps (a : List RegAxis) :
    zip3? (a.map (·.delta)) (a.map (·.dim)) (a.map (·.zero)) = some a := by
  simp only [zip3?, List.length_map, and_self, if_true, Option.some.injEq]
  induction a with
  | nil => rfl
  | cons x xs ih => simp only [List.map_cons, List.zip_cons_cons, List.zipWith_cons_cons, ih]

end HcipyVerif.Grid
