import Mathlib.Algebra.BigOperators.Intervals
import Mathlib.Algebra.BigOperators.Ring.Finset
import Mathlib.Algebra.Field.Basic
import Mathlib.Tactic.Ring
import Mathlib.Tactic.Linarith
import Mathlib.Tactic.LinearCombination
import Mathlib.Tactic.FieldSimp
import Mathlib.Data.Int.ModEq
import Mathlib.Data.Nat.ModEq
import HcipyVerif.Model.FftIndex

/-!
# Index lemmas for the FFT pipeline (C01/C02)

`fft_core_eq_sum`: pad → ifftshift → DFT → fftshift → crop equals the centred sum, for every
`0 < M`, `N ≤ M`, `Mo ≤ M` and every `M`-periodic character; `core_noshift_eq_sum` is the same
without the two shifts (the emulated-fftshift configuration).
-/
set_option linter.unusedSimpArgs false
set_option linter.unusedVariables false

namespace HcipyVerif.Fft
open Finset

section
variable {C : Type} [CommRing C]

theorem sumRange_eq (n : ℕ) (g : ℕ → C) : sumRange n g = ∑ i ∈ range n, g i := by
  induction n with
  | zero => simp [sumRange]
  | succ n ih => rw [sumRange, ih, Finset.sum_range_succ]

/-- An abstract `M`-periodic character on the integers (the DFT kernel). -/
structure PChar (C : Type) [CommRing C] (M : ℕ) where
  χ : ℤ → C
  add : ∀ a b, χ (a + b) = χ a * χ b
  period : ∀ n : ℤ, χ (M * n) = 1

namespace PChar
variable {M : ℕ} (c : PChar C M)

theorem zero : c.χ 0 = 1 := by simpa using c.period 0

theorem mod_eq (a b : ℤ) (h : a ≡ b [ZMOD M]) : c.χ a = c.χ b := by
  obtain ⟨k, hk⟩ := (Int.modEq_iff_dvd.mp h)
  have : a = b + M * (-k) := by linarith
  rw [this, c.add, c.period, mul_one]
end PChar

theorem sum_shift_mod (M h : ℕ) (hM : 0 < M) (g : ℕ → C) :
    ∑ p ∈ range M, g ((p + h) % M) = ∑ r ∈ range M, g r := by
  apply Finset.sum_nbij' (fun p => (p + h) % M) (fun r => (r + (M - h % M)) % M)
  · intro p _; exact mem_range.mpr (Nat.mod_lt _ hM)
  · intro r _; exact mem_range.mpr (Nat.mod_lt _ hM)
  · intro p hp
    have hp := mem_range.mp hp
    have hh : h % M < M := Nat.mod_lt _ hM
    show ((p + h) % M + (M - h % M)) % M = p
    rw [Nat.mod_add_mod]
    have : p + h + (M - h % M) = p + M * (h / M + 1) := by
      have := Nat.div_add_mod h M
      have e : h = M * (h / M) + h % M := by omega
      rw [mul_add, mul_one]; omega
    rw [this, Nat.add_mul_mod_self_left, Nat.mod_eq_of_lt hp]
  · intro r hr
    have hr := mem_range.mp hr
    have hh : h % M < M := Nat.mod_lt _ hM
    show ((r + (M - h % M)) % M + h) % M = r
    rw [Nat.mod_add_mod]
    have : r + (M - h % M) + h = r + M * (h / M + 1) := by
      have e : h = M * (h / M) + h % M := by have := Nat.div_add_mod h M; omega
      rw [mul_add, mul_one]; omega
    rw [this, Nat.add_mul_mod_self_left, Nat.mod_eq_of_lt hr]
  · intro p _; rfl

/-- padding at an arbitrary offset -/
def padAt (s N : ℕ) (f : ℕ → C) (p : ℕ) : C := if s ≤ p ∧ p < s + N then f (p - s) else 0

theorem pad_eq (N M : ℕ) (f : ℕ → C) : pad N M f = padAt (padStart N M) N f := rfl

theorem sum_padAt (s N M : ℕ) (hsN : s + N ≤ M) (f : ℕ → C) (g : ℕ → C) :
    ∑ r ∈ range M, padAt s N f r * g r = ∑ j ∈ range N, f j * g (j + s) := by
  have h1 : ∑ r ∈ range M, padAt s N f r * g r
      = ∑ r ∈ (range M).filter (fun r => s ≤ r ∧ r < s + N), f (r - s) * g r := by
    rw [Finset.sum_filter]
    apply Finset.sum_congr rfl
    intro r _
    unfold padAt
    by_cases h : s ≤ r ∧ r < s + N
    · rw [if_pos h, if_pos h]
    · rw [if_neg h, if_neg h, zero_mul]
  rw [h1]
  apply Finset.sum_nbij' (fun r => r - s) (fun j => j + s)
  · intro r hr
    simp only [mem_filter, mem_range] at hr
    exact mem_range.mpr (by omega)
  · intro j hj
    have := mem_range.mp hj
    simp only [mem_filter, mem_range]
    omega
  · intro r hr
    simp only [mem_filter, mem_range] at hr
    show r - s + s = r
    omega
  · intro j _
    show j + s - s = j
    omega
  · intro r hr
    simp only [mem_filter, mem_range] at hr
    have : r - s + s = r := by omega
    rw [this]

theorem padStart_add_le {N M : ℕ} (h : N ≤ M) : padStart N M + N ≤ M := by
  unfold padStart; omega

/-- Main 1-D index theorem: pad → ifftshift → DFT → fftshift → crop equals the centred sum. -/
theorem fft_core_eq_sum {M : ℕ} (c : PChar C M) (N Mo : ℕ) (hM : 0 < M) (hNM : N ≤ M) (hMo : Mo ≤ M)
    (f : ℕ → C) (k : ℕ) (hk : k < Mo) :
    core true N M Mo c.χ f k
      = ∑ j ∈ range N, f j * c.χ (((j : ℤ) - (N / 2 : ℕ)) * ((k : ℤ) - (Mo / 2 : ℕ))) := by
  simp only [core, if_true]
  unfold crop fftshift dft ifftshift
  rw [sumRange_eq]
  unfold padStart
  set h := M / 2 with hh
  set q := (k + (h - Mo / 2) + (M - h)) % M with hq
  have hqmod : (q : ℤ) ≡ (k : ℤ) - (Mo / 2 : ℕ) [ZMOD M] := by
    have h1 : ((k + (h - Mo / 2) + (M - h)) % M : ℕ) ≡ k + (h - Mo / 2) + (M - h) [MOD M] := Nat.mod_modEq _ _
    have h2 := (Int.natCast_modEq_iff.mpr h1)
    have hle : Mo / 2 ≤ h := by omega
    have hhM : h ≤ M := by omega
    have : ((k + (h - Mo / 2) + (M - h) : ℕ) : ℤ) = (k : ℤ) - (Mo / 2 : ℕ) + M * 1 := by
      push_cast [Nat.cast_sub hle, Nat.cast_sub hhM]; ring
    rw [hq]
    refine h2.trans ?_
    rw [this]
    exact Int.modEq_iff_dvd.mpr ⟨-1, by ring⟩
  let G : ℕ → C := fun r => pad N M f r * c.χ (((r : ℤ) - h) * ((k : ℤ) - (Mo / 2 : ℕ)))
  have step1 : ∑ p ∈ range M, pad N M f ((p + h) % M) * c.χ ((p : ℤ) * q)
      = ∑ p ∈ range M, G ((p + h) % M) := by
    apply Finset.sum_congr rfl
    intro p _
    show _ = pad N M f ((p + h) % M) * c.χ (((((p + h) % M : ℕ) : ℤ) - h) * ((k : ℤ) - (Mo / 2 : ℕ)))
    congr 1
    apply c.mod_eq
    have hp : (((p + h) % M : ℕ) : ℤ) ≡ (p : ℤ) + h [ZMOD M] := by
      have := Int.natCast_modEq_iff.mpr (Nat.mod_modEq (p + h) M)
      simpa using this
    have : ((((p + h) % M : ℕ) : ℤ) - h) ≡ (p : ℤ) [ZMOD M] := by
      have := hp.sub_right (h : ℤ)
      simpa using this
    exact (Int.ModEq.mul this.symm hqmod)
  have step2 := sum_shift_mod M h hM G
  have hle : N / 2 ≤ M / 2 := Nat.div_le_div_right hNM
  have step3 : ∑ r ∈ range M, G r
      = ∑ j ∈ range N, f j * c.χ ((((j + (M / 2 - N / 2) : ℕ) : ℤ) - h) * ((k : ℤ) - (Mo / 2 : ℕ))) := by
    show ∑ r ∈ range M, pad N M f r * _ = _
    rw [pad_eq]
    exact sum_padAt (M / 2 - N / 2) N M (by omega) f
      (fun r => c.χ (((r : ℤ) - h) * ((k : ℤ) - (Mo / 2 : ℕ))))
  rw [step1, step2, step3]
  apply Finset.sum_congr rfl
  intro j _
  congr 2
  rw [Nat.cast_add, Nat.cast_sub hle, hh]
  ring

/-- The same pipeline without the two shifts (emulated-fftshift configuration): no periodicity
is needed, the kernel is simply evaluated at the un-centred indices. -/
theorem core_noshift_eq_sum (M N Mo : ℕ) (hNM : N ≤ M) (ker : ℤ → C) (f : ℕ → C) (k : ℕ) :
    core false N M Mo ker f k
      = ∑ j ∈ range N, f j * ker (((j + padStart N M : ℕ) : ℤ) * ((k + padStart Mo M : ℕ) : ℤ)) := by
  simp only [core, Bool.false_eq_true, if_false]
  unfold crop dft
  rw [sumRange_eq, pad_eq]
  exact sum_padAt (padStart N M) N M (padStart_add_le hNM) f
    (fun r => ker ((r : ℤ) * ((k + padStart Mo M : ℕ) : ℤ)))

end

end HcipyVerif.Fft
