import HcipyVerif.Lemmas.Layer
import HcipyVerif.Model.LayerHeap

/-! Helper lemmas for the heap model of C15: the heap layer simulates the value-level layer as long as the two
handles point to different cells (which every `deepcopy` establishes). -/
set_option linter.unusedSimpArgs false
set_option linter.unusedVariables false
namespace HcipyVerif.Layer
variable {σ ω : Type}

/-- the value-level meaning of a pointer operation -/
def Ptr.val (A : Access σ ω) (L : σ) : Ptr → σ
  | .rngFromOrig => A.setRng L (A.orig L)
  | .origFromRng => A.setOrig L (A.rng L)
  | .rngFresh => L

structure Access.Lawful (A : Access σ ω) : Prop where
  rng_setRng : ∀ L r, A.rng (A.setRng L r) = r
  orig_setOrig : ∀ L r, A.orig (A.setOrig L r) = r
  rng_setOrig : ∀ L r, A.rng (A.setOrig L r) = A.rng L
  orig_setRng : ∀ L r, A.orig (A.setRng L r) = A.orig L
  setRng_setRng : ∀ L a b, A.setRng (A.setRng L a) b = A.setRng L b
  setOrig_setOrig : ∀ L a b, A.setOrig (A.setOrig L a) b = A.setOrig L b
  setRng_setOrig : ∀ L a b, A.setRng (A.setOrig L a) b = A.setOrig (A.setRng L b) a
  setRng_self : ∀ L, A.setRng L (A.rng L) = L
  setOrig_self : ∀ L, A.setOrig L (A.orig L) = L
  /-- the value-level step performs the copies itself (on values) -/
  step_ptr : ∀ L o, A.step ((A.ptr L o).foldl (Ptr.val A) L) o = A.step L o
  /-- apart from those copies the step leaves the original generator alone -/
  orig_step : ∀ L o, A.orig (A.step L o) = A.orig ((A.ptr L o).foldl (Ptr.val A) L)

/-- both handles point into the heap -/
def HL.Valid (H : HL σ) : Prop := H.rngH < H.cells.length ∧ H.origH < H.cells.length

/-- cell `c` is somebody else's: in the heap and not one of the layer's two -/
def HL.Sep (c : Nat) (H : HL σ) : Prop := c < H.cells.length ∧ c ≠ H.rngH ∧ c ≠ H.origH

theorem HL.get_append_lt (H : HL σ) (x : Rng) (i : Nat) (h : i < H.cells.length) :
    (H.cells ++ [x]).getD i ⟨0, 0⟩ = H.get i := by
  simp [HL.get, List.getD_eq_getElem?_getD, List.getElem?_append_left h]

theorem HL.get_append_len (H : HL σ) (x : Rng) : (H.cells ++ [x]).getD H.cells.length ⟨0, 0⟩ = x := by
  simp [List.getD_eq_getElem?_getD]

theorem HL.view_rng (A : Access σ ω) (hA : A.Lawful) (H : HL σ) : A.rng (H.view A) = H.get H.rngH := by
  simp [HL.view, hA.rng_setOrig, hA.rng_setRng]

theorem HL.view_orig (A : Access σ ω) (hA : A.Lawful) (H : HL σ) : A.orig (H.view A) = H.get H.origH := by
  simp [HL.view, hA.orig_setOrig]

theorem HL.repoint_spec (A : Access σ ω) (hA : A.Lawful) (H : HL σ) (hv : H.Valid) (p : Ptr) :
    (H.repoint p).view A = p.val A (H.view A) ∧ (H.repoint p).Valid ∧
    (H.repoint p).cells.length = H.cells.length + 1 ∧
    ((p ≠ .rngFresh ∨ H.rngH ≠ H.origH) → (H.repoint p).rngH ≠ (H.repoint p).origH) ∧
    (∀ c, HL.Sep c H → HL.Sep c (H.repoint p)) := by
  obtain ⟨h1, h2⟩ := hv
  cases p
  · refine ⟨?_, ⟨by simp [HL.repoint], by simp [HL.repoint]; omega⟩, by simp [HL.repoint], ?_, ?_⟩
    · simp only [HL.view, HL.repoint, Ptr.val, HL.get, HL.get_append_len, HL.get_append_lt H _ _ h2]
      rw [hA.orig_setOrig, hA.setRng_setOrig, hA.setRng_setRng]
    · intro _; simp only [HL.repoint]; omega
    · intro c ⟨hc1, hc2, hc3⟩; simp only [HL.Sep, HL.repoint, List.length_append, List.length_singleton]
      exact ⟨by omega, by omega, hc3⟩
  · refine ⟨?_, ⟨by simp [HL.repoint]; omega, by simp [HL.repoint]⟩, by simp [HL.repoint], ?_, ?_⟩
    · simp only [HL.view, HL.repoint, Ptr.val, HL.get, HL.get_append_len, HL.get_append_lt H _ _ h1]
      rw [hA.rng_setOrig, hA.rng_setRng, hA.setOrig_setOrig]
    · intro _; simp only [HL.repoint]; omega
    · intro c ⟨hc1, hc2, hc3⟩; simp only [HL.Sep, HL.repoint, List.length_append, List.length_singleton]
      exact ⟨by omega, hc2, by omega⟩
  · refine ⟨?_, ⟨by simp [HL.repoint], by simp [HL.repoint]; omega⟩, by simp [HL.repoint], ?_, ?_⟩
    · simp only [HL.view, HL.repoint, Ptr.val, HL.get, HL.get_append_len, HL.get_append_lt H _ _ h2]
    · intro _; simp only [HL.repoint]; omega
    · intro c ⟨hc1, hc2, hc3⟩; simp only [HL.Sep, HL.repoint, List.length_append, List.length_singleton]
      exact ⟨by omega, by omega, hc3⟩

theorem HL.repoints_spec (A : Access σ ω) (hA : A.Lawful) (ps : List Ptr) (H : HL σ) (hv : H.Valid) :
    (ps.foldl HL.repoint H).view A = ps.foldl (Ptr.val A) (H.view A) ∧ (ps.foldl HL.repoint H).Valid ∧
    H.cells.length ≤ (ps.foldl HL.repoint H).cells.length ∧
    ((H.rngH ≠ H.origH ∨ ∃ p ∈ ps, p ≠ Ptr.rngFresh) →
      (ps.foldl HL.repoint H).rngH ≠ (ps.foldl HL.repoint H).origH) ∧
    (∀ c, HL.Sep c H → HL.Sep c (ps.foldl HL.repoint H)) := by
  induction ps generalizing H with
  | nil => exact ⟨rfl, hv, Nat.le_refl _, fun h => by simpa using h, fun c h => h⟩
  | cons p ps ih =>
    obtain ⟨e1, v1, l1, d1, s1⟩ := HL.repoint_spec A hA H hv p
    obtain ⟨e2, v2, l2, d2, s2⟩ := ih (H.repoint p) v1
    simp only [List.foldl_cons]
    refine ⟨by rw [e2, e1], v2, by omega, ?_, fun c h => s2 c (s1 c h)⟩
    intro h
    apply d2
    rcases h with h | ⟨q, hq, hne⟩
    · exact Or.inl (d1 (Or.inr h))
    · rcases List.mem_cons.mp hq with rfl | hq
      · exact Or.inl (d1 (Or.inl hne))
      · exact Or.inr ⟨q, hq, hne⟩

/-- **Simulation.** If the handles are valid and — unless the operation starts with a `deepcopy` — distinct, one step of
the heap layer is, seen through the handles, the value-level step; afterwards the handles are valid and distinct,
and a cell that was somebody else's still is. -/
theorem HL.step_view (A : Access σ ω) (hA : A.Lawful) (H : HL σ) (o : ω) (hv : H.Valid)
    (hd : H.rngH ≠ H.origH ∨ ∃ p ∈ A.ptr (H.view A) o, p ≠ Ptr.rngFresh) :
    (H.step A o).view A = A.step (H.view A) o ∧ (H.step A o).Valid ∧ (H.step A o).rngH ≠ (H.step A o).origH ∧
    (∀ c, HL.Sep c H → HL.Sep c (H.step A o)) := by
  obtain ⟨e, v, l, d, s⟩ := HL.repoints_spec A hA (A.ptr (H.view A) o) H hv
  have d := d hd
  generalize hH1 : (A.ptr (H.view A) o).foldl HL.repoint H = H1 at e v l d s
  have hL' : A.step (H1.view A) o = A.step (H.view A) o := by rw [e, hA.step_ptr]
  have horig : A.orig (A.step (H.view A) o) = H1.get H1.origH := by
    rw [hA.orig_step, ← e, HL.view_orig A hA]
  have hstep : H.step A o = { H1 with cells := H1.cells.set H1.rngH (A.rng (A.step (H.view A) o)),
                                       body := A.step (H.view A) o } := by
    simp only [HL.step, HL.stepWith, hH1, hL']
  rw [hstep]
  generalize A.step (H.view A) o = L' at horig
  refine ⟨?_, ⟨by simpa using v.1, by simpa using v.2⟩, d, ?_⟩
  · have g1 : (H1.cells.set H1.rngH (A.rng L')).getD H1.rngH ⟨0, 0⟩ = A.rng L' := by
      simp [List.getD_eq_getElem?_getD, List.getElem?_set, v.1]
    have g2 : (H1.cells.set H1.rngH (A.rng L')).getD H1.origH ⟨0, 0⟩ = H1.get H1.origH := by
      simp [HL.get, List.getD_eq_getElem?_getD, List.getElem?_set, d]
    show A.setOrig (A.setRng L' ((H1.cells.set H1.rngH (A.rng L')).getD H1.rngH ⟨0, 0⟩))
      ((H1.cells.set H1.rngH (A.rng L')).getD H1.origH ⟨0, 0⟩) = L'
    rw [g1, g2, ← horig, hA.setRng_self, hA.setOrig_self]
  · intro c hc
    obtain ⟨c1, c2, c3⟩ := s c hc
    exact ⟨by simpa using c1, c2, c3⟩

/-- a draw from a cell that is not one of the layer's is invisible to the layer -/
theorem HL.foreignDraw_view (A : Access σ ω) (H : HL σ) (c n : Nat) (hc : c ≠ H.rngH ∧ c ≠ H.origH) :
    (H.foreignDraw c n).view A = H.view A := by
  have g : ∀ i, c ≠ i → (H.cells.set c ((H.get c).draw n)).getD i ⟨0, 0⟩ = H.get i := by
    intro i hi; simp [HL.get, List.getD_eq_getElem?_getD, List.getElem?_set, hi]
  have g1 := g _ hc.1
  have g2 := g _ hc.2
  simp only [HL.get] at g1 g2
  simp only [HL.view, HL.foreignDraw, HL.get, g1, g2]

/-- the own operations of a mixed history -/
def HOp.owns : List (HOp ω) → List ω
  | [] => []
  | .own o :: h => o :: HOp.owns h
  | .foreign _ _ :: h => HOp.owns h

/-- the good states: valid distinct handles -/
def HL.WF (H : HL σ) : Prop := H.Valid ∧ H.rngH ≠ H.origH

theorem HL.run_view (A : Access σ ω) (hA : A.Lawful) (h : List ω) (H : HL σ) (hw : H.WF) :
    (H.run A h).view A = h.foldl A.step (H.view A) ∧ (H.run A h).WF := by
  induction h generalizing H with
  | nil => exact ⟨rfl, hw⟩
  | cons o h ih =>
    obtain ⟨e, v, d, _⟩ := HL.step_view A hA H o hw.1 (Or.inl hw.2)
    have := ih (H.step A o) ⟨v, d⟩
    simp only [HL.run, List.foldl_cons] at this ⊢
    rw [this.1, e]; exact ⟨rfl, this.2⟩

/-- **Foreign draws are invisible** when the foreign cell is separate from the layer's two: the view after any mixed
history is the value-level run of the layer's own operations. -/
theorem HL.runH_view (A : Access σ ω) (hA : A.Lawful) (c : Nat) (h : List (HOp ω)) (H : HL σ) (hw : H.WF)
    (hs : H.Sep c) (hc : ∀ o ∈ h, ∀ c' n, o = HOp.foreign c' n → c' = c) :
    (H.runH A h).view A = (HOp.owns h).foldl A.step (H.view A) ∧ (H.runH A h).WF ∧ (H.runH A h).Sep c := by
  induction h generalizing H with
  | nil => exact ⟨rfl, hw, hs⟩
  | cons o h ih =>
    have hc' : ∀ o ∈ h, ∀ c' n, o = HOp.foreign c' n → c' = c := fun o ho => hc o (by simp [ho])
    cases o with
    | own o =>
      obtain ⟨e, v, d, s⟩ := HL.step_view A hA H o hw.1 (Or.inl hw.2)
      have := ih (H.step A o) ⟨v, d⟩ (s c hs) hc'
      simp only [HL.runH, List.foldl_cons, HL.stepH, HOp.owns] at this ⊢
      rw [this.1, e]; exact ⟨rfl, this.2⟩
    | foreign c' n =>
      obtain rfl : c' = c := hc _ (by simp) c' n rfl
      have e := HL.foreignDraw_view A H c' n ⟨hs.2.1, hs.2.2⟩
      have hw' : (H.foreignDraw c' n).WF := by
        obtain ⟨⟨v1, v2⟩, d⟩ := hw
        exact ⟨⟨by simpa [HL.foreignDraw] using v1, by simpa [HL.foreignDraw] using v2⟩, d⟩
      have hs' : (H.foreignDraw c' n).Sep c' := by
        obtain ⟨s1, s2, s3⟩ := hs
        exact ⟨by simpa [HL.foreignDraw] using s1, s2, s3⟩
      have := ih (H.foreignDraw c' n) hw' hs' hc'
      simp only [HL.runH, List.foldl_cons, HL.stepH, HOp.owns] at this ⊢
      rw [this.1, e]; exact ⟨rfl, this.2⟩

/-! ### the two instances are lawful -/

theorem finAccess_lawful : finAccess.Lawful where
  rng_setRng _ _ := rfl
  orig_setOrig _ _ := rfl
  rng_setOrig _ _ := rfl
  orig_setRng _ _ := rfl
  setRng_setRng _ _ _ := rfl
  setOrig_setOrig _ _ _ := rfl
  setRng_setOrig _ _ _ := rfl
  setRng_self _ := rfl
  setOrig_self _ := rfl
  step_ptr C o := by
    rcases C with ⟨b, v, c⟩
    cases o with
    | op o =>
      cases o with
      | reset i => cases i <;>
          simp [finAccess, COp.ptr, Ptr.val, FinC.step, FinL.reset, FinL.pickRng, FinL.makeNoise, FinL.draws]
      | _ => simp [finAccess, COp.ptr]
    | read =>
      cases c <;> cases v <;>
        simp [finAccess, COp.ptr, Ptr.val, FinC.step, FinC.read, FinL.redraw, FinL.makeNoise, FinL.draws, FinL.screen]
  orig_step C o := by
    rcases C with ⟨b, v, c⟩
    cases o with
    | op o =>
      cases o with
      | reset i => cases i <;>
          simp [finAccess, COp.ptr, Ptr.val, FinC.step, FinL.reset, FinL.pickRng, FinL.makeNoise, FinL.draws]
      | evolve t => simp [finAccess, COp.ptr, FinC.step, FinL.evolve]
      | setCn2 t => simp [finAccess, COp.ptr, FinC.step, FinL.setCn2]
      | setL0 t => simp [finAccess, COp.ptr, FinC.step, FinL.setL0]
      | setVel t => simp [finAccess, COp.ptr, FinC.step, FinL.setVel]
    | read =>
      cases c <;> cases v <;>
        simp [finAccess, COp.ptr, Ptr.val, FinC.step, FinC.read, FinL.redraw, FinL.makeNoise, FinL.draws, FinL.screen]

theorem infAccess_lawful : infAccess.Lawful where
  rng_setRng _ _ := rfl
  orig_setOrig _ _ := rfl
  rng_setOrig _ _ := rfl
  orig_setRng _ _ := rfl
  setRng_setRng _ _ _ := rfl
  setOrig_setOrig _ _ _ := rfl
  setRng_setOrig _ _ _ := rfl
  setRng_self _ := rfl
  setOrig_self _ := rfl
  step_ptr L o := by
    cases o with
    | reset i => cases i <;>
        simp [infAccess, Op.ptrInf, Ptr.val, InfL.step, InfL.reset, InfL.pickRng, InfL.initScreen]
    | _ => simp [infAccess, Op.ptrInf]
  orig_step L o := by
    cases o with
    | reset i => cases i <;>
        simp [infAccess, Op.ptrInf, Ptr.val, InfL.step, InfL.reset, InfL.pickRng, InfL.initScreen]
    | evolve t => simpa [infAccess, Op.ptrInf] using L.step_orig (.evolve t) rfl
    | setCn2 t => simp [infAccess, Op.ptrInf, InfL.step, InfL.setCn2]
    | setL0 t => simp [infAccess, Op.ptrInf, InfL.step, InfL.setL0]
    | setVel t => simp [infAccess, Op.ptrInf, InfL.step, InfL.setVel]

/-! ### finite layer with lazy noise and cache -/

theorem FinC.reset_false_eq_fresh (C : FinC) :
    C.step (.op (.reset false)) = FinC.fresh C.base.nx C.base.ny C.base.vel C.base.par C.base.orig := by
  simp [FinC.step, FinC.fresh, FinL.reset_false_eq_fresh]

theorem FinC.step_keeps (C : FinC) (o : COp) (h : o ≠ .op (.reset true)) :
    (C.step o).base.nx = C.base.nx ∧ (C.step o).base.ny = C.base.ny ∧ (C.step o).base.orig = C.base.orig := by
  rcases C with ⟨b, v, ca⟩
  cases o with
  | op o =>
    cases o with
    | reset i => cases i <;> simp_all [FinC.step, FinL.reset, FinL.pickRng, FinL.makeNoise]
    | evolve t => simp [FinC.step, FinL.evolve]
    | setCn2 t => simp [FinC.step, FinL.setCn2]
    | setL0 t => simp [FinC.step, FinL.setL0]
    | setVel t => simp [FinC.step, FinL.setVel]
  | read => cases ca <;> cases v <;> simp [FinC.step, FinC.read, FinL.redraw, FinL.makeNoise]

theorem FinC.run_keeps (C : FinC) (h : List COp) (hh : ∀ o ∈ h, o ≠ .op (.reset true)) :
    (C.run h).base.nx = C.base.nx ∧ (C.run h).base.ny = C.base.ny ∧ (C.run h).base.orig = C.base.orig := by
  induction h generalizing C with
  | nil => exact ⟨rfl, rfl, rfl⟩
  | cons o h ih =>
    have := ih (C.step o) (fun o' ho' => hh o' (by simp [ho']))
    have hs := C.step_keeps o (hh o (by simp))
    simp only [FinC.run, List.foldl_cons] at this ⊢
    rw [this.1, this.2.1, this.2.2, hs.1, hs.2.1, hs.2.2]; exact ⟨rfl, rfl, rfl⟩

/-- the realisation is the one of `g`: the original generator is in state `g`, a present `_noise` was drawn from `g`
with the current parameters, and a cached screen is never newer than... (no condition on the cache: it may be stale) -/
def FinC.Live (C : FinC) (g : Rng) : Prop :=
  C.base.orig = g ∧ (C.valid = true → C.base.noise = g ∧ C.base.noisePar = C.base.par)

theorem FinC.fresh_live (nx ny : Nat) (vel : V2) (par : Par) (g : Rng) : (FinC.fresh nx ny vel par g).Live g := by
  simp [FinC.Live, FinC.fresh, FinL.fresh, FinL.reset, FinL.pickRng, FinL.makeNoise]

theorem FinC.step_live (C : FinC) (o : COp) (g : Rng) (hl : C.Live g) (h : o ≠ .op (.reset true)) :
    (C.step o).Live g := by
  rcases C with ⟨b, v, ca⟩
  obtain ⟨h1, h2⟩ := hl
  simp only at h1 h2
  cases o with
  | op o =>
    cases o with
    | reset i => cases i <;> simp_all [FinC.Live, FinC.step, FinL.reset, FinL.pickRng, FinL.makeNoise]
    | evolve t => simpa [FinC.Live, FinC.step, FinL.evolve] using ⟨h1, h2⟩
    | setCn2 t => simp [FinC.Live, FinC.step, FinL.setCn2, h1]
    | setL0 t => simp [FinC.Live, FinC.step, FinL.setL0, h1]
    | setVel t => simpa [FinC.Live, FinC.step, FinL.setVel] using ⟨h1, h2⟩
  | read =>
    cases ca <;> cases v <;> simp_all [FinC.Live, FinC.step, FinC.read, FinL.redraw, FinL.makeNoise]

theorem FinC.run_live (C : FinC) (h : List COp) (g : Rng) (hl : C.Live g) (hh : ∀ o ∈ h, o ≠ .op (.reset true)) :
    (C.run h).Live g := by
  induction h generalizing C with
  | nil => exact hl
  | cons o h ih =>
    exact ih (C.step o) (C.step_live o g hl (hh o (by simp))) (fun o' ho' => hh o' (by simp [ho']))

theorem FinC.shown_after_evolve (C : FinC) (g : Rng) (t : Rat) (hl : C.Live g) :
    (C.step (.op (.evolve t))).shown = (g, C.base.par, (C.base.vel.1 * t, C.base.vel.2 * t)) := by
  rcases C with ⟨b, v, ca⟩
  obtain ⟨h1, h2⟩ := hl
  simp only at h1 h2
  cases v
  · simp [FinC.step, FinC.shown, FinC.read, FinL.redraw, FinL.makeNoise, FinL.screen, FinL.evolve, h1]
  · obtain ⟨h3, h4⟩ := h2 rfl
    simp [FinC.step, FinC.shown, FinC.read, FinL.screen, FinL.evolve, h3, h4]

end HcipyVerif.Layer
