import HcipyVerif.Lemmas.Shift
import Mathlib.Data.Rat.Cast.CharZero
import Mathlib.Algebra.BigOperators.Group.List.Basic
import Mathlib.Algebra.BigOperators.Intervals
import Mathlib.Tactic.Ring
import Mathlib.Data.Rat.Floor
import Mathlib.Algebra.Order.Floor.Ring
import Mathlib.Tactic.FieldSimp
import Mathlib.Tactic.Linarith

/-! Helper lemmas for C15: the exact character of the driver op `synth`.  Evaluation of the sparse group ring `ℚ[ℤ/M]`
(`Shift.Cyc`) at a root of unity `ζ` (`ζ^M = 1`) of a field of characteristic 0 respects `0`, `+`, `*`; the printed dense
coefficient list evaluates to the same value; `synth` commutes with such a map. -/
set_option linter.unusedSimpArgs false
set_option linter.unusedVariables false
set_option linter.unusedSectionVars false

namespace HcipyVerif.Shift
variable {G : Type} [Field G] [CharZero G] {M : Nat}

/-- evaluation of a formal sum at `X = ζ` -/
def Cyc.eval (ζ : G) (a : Cyc M) : G := (a.terms.map fun t => (t.2 : G) * ζ ^ t.1).sum

theorem Cyc.eval_zero (ζ : G) : (0 : Cyc M).eval ζ = 0 := rfl

theorem Cyc.eval_add (ζ : G) (a b : Cyc M) : (a + b).eval ζ = a.eval ζ + b.eval ζ := by
  show ((a.terms ++ b.terms).map _).sum = _
  simp [Cyc.eval, List.map_append, List.sum_append]

theorem pow_mod_of_pow_eq_one (ζ : G) (hζ : ζ ^ M = 1) (n : Nat) : ζ ^ (n % M) = ζ ^ n := by
  conv_rhs => rw [← Nat.div_add_mod n M, pow_add, pow_mul, hζ, one_pow, one_mul]

theorem sum_map_mul_left' {α} (l : List α) (c : G) (f : α → G) :
    (l.map fun t => c * f t).sum = c * (l.map f).sum := by
  induction l with
  | nil => simp
  | cons a l ih => simp [ih, mul_add]

theorem Cyc.eval_mul (ζ : G) (hζ : ζ ^ M = 1) (a b : Cyc M) : (a * b).eval ζ = a.eval ζ * b.eval ζ := by
  show ((a.terms.flatMap fun s => b.terms.map fun t => ((s.1 + t.1) % M, s.2 * t.2)).map _).sum = _
  unfold Cyc.eval
  induction a.terms with
  | nil => simp
  | cons s as ih =>
    simp only [List.flatMap_cons, List.map_append, List.sum_append, ih, List.map_cons, List.sum_cons, add_mul]
    congr 1
    rw [List.map_map, ← sum_map_mul_left']
    congr 1
    apply List.map_congr_left
    intro t _
    simp only [Function.comp, pow_mod_of_pow_eq_one ζ hζ, Rat.cast_mul, pow_add]
    ring

theorem Cyc.eval_mono (ζ : G) (hζ : ζ ^ M = 1) (e : Nat) : (Cyc.mono e : Cyc M).eval ζ = ζ ^ e := by
  simp [Cyc.eval, Cyc.mono, pow_mod_of_pow_eq_one ζ hζ]

theorem Cyc.eval_ofComplex (ζ : G) (re im : Rat) :
    (Cyc.ofComplex re im : Cyc M).eval ζ = (re : G) + (im : G) * ζ ^ (M / 4) := by
  simp [Cyc.eval, Cyc.ofComplex]


theorem list_range_sum (f : Nat → G) (n : Nat) : ((List.range n).map f).sum = ∑ r ∈ Finset.range n, f r := by
  rfl

theorem foldl_add_snd (l : List (Nat × Rat)) (init : Rat) :
    l.foldl (fun acc t => acc + t.2) init = init + (l.map (·.2)).sum := by
  induction l generalizing init with
  | nil => simp
  | cons t l ih => simp [ih, add_assoc]

/-- the printed dense coefficients, evaluated at `ζ`, are the evaluation of the formal sum -/
theorem Cyc.eval_dense (ζ : G) (hζ : ζ ^ M = 1) (hM : 0 < M) (a : Cyc M) :
    ((List.range M).map fun r => (a.coeff r : G) * ζ ^ r).sum = a.eval ζ := by
  rw [list_range_sum]
  unfold Cyc.coeff Cyc.eval
  simp only [foldl_add_snd, zero_add]
  induction a.terms with
  | nil => simp
  | cons t ts ih =>
    have key : ∀ r, (((List.filter (fun t => t.1 % M == r) (t :: ts)).map (·.2)).sum : Rat)
        = (if t.1 % M = r then t.2 else 0) + ((List.filter (fun t => t.1 % M == r) ts).map (·.2)).sum := by
      intro r
      by_cases h : t.1 % M = r <;> simp [List.filter_cons, h]
    simp only [key, Rat.cast_add, add_mul, Finset.sum_add_distrib, ih, List.map_cons, List.sum_cons]
    congr 1
    have : ∀ r ∈ Finset.range M, (((if t.1 % M = r then t.2 else 0 : Rat) : G)) * ζ ^ r
        = if t.1 % M = r then (t.2 : G) * ζ ^ (t.1 % M) else 0 := by
      intro r _
      by_cases h : t.1 % M = r <;> simp [h]
    rw [Finset.sum_congr rfl this, Finset.sum_ite_eq]
    simp [Nat.mod_lt _ hM, pow_mod_of_pow_eq_one ζ hζ]

theorem zipSum3_map {F K : Type} [Add F] [Zero F] (φ : F → G) (h0 : φ 0 = 0)
    (hadd : ∀ a b, φ (a + b) = φ a + φ b) (f : F → K → K → F) (g : G → K → K → G)
    (hfg : ∀ c a b, φ (f c a b) = g (φ c) a b) :
    ∀ (C : List F) (A B : List K), φ (zipSum3 f C A B) = zipSum3 g (C.map φ) A B
  | [], _, _ => by simp [zipSum3, h0]
  | _ :: _, [], _ => by simp [zipSum3, h0]
  | _ :: _, _ :: _, [] => by simp [zipSum3, h0]
  | c :: C, a :: A, b :: B => by
    simp only [zipSum3, List.map_cons, hadd, hfg, zipSum3_map φ h0 hadd f g hfg C A B]

/-- `synth` commutes with a map that respects `0`, `+`, `*` -/
theorem synth_map {F K : Type} [Add K] [Mul K] [Add F] [Mul F] [Zero F] (φ : F → G) (h0 : φ 0 = 0)
    (hadd : ∀ a b, φ (a + b) = φ a + φ b) (hmul : ∀ a b, φ (a * b) = φ a * φ b)
    (χ : K → F) (kx ky : List K) (C : List F) (x y : K) :
    φ (synth χ kx ky C x y) = synth (fun q => φ (χ q)) kx ky (C.map φ) x y := by
  unfold synth
  exact zipSum3_map φ h0 hadd _ _ (fun c a b => by rw [hmul]) _ _ _


theorem zipSum3_congr {F K : Type} [Add F] [Zero F] (f g : F → K → K → F) :
    ∀ (C : List F) (A B : List K), (∀ c, ∀ a ∈ A, ∀ b ∈ B, f c a b = g c a b) → zipSum3 f C A B = zipSum3 g C A B
  | [], _, _, _ => by simp [zipSum3]
  | _ :: _, [], _, _ => by simp [zipSum3]
  | _ :: _, _ :: _, [], _ => by simp [zipSum3]
  | c :: C, a :: A, b :: B, h => by
    simp only [zipSum3]
    rw [h c a (by simp) b (by simp), zipSum3_congr f g C A B (fun c a ha b hb => h c a (by simp [ha]) b (by simp [hb]))]

/-- `synth` only evaluates the character at the phases `kx[m]·x + ky[n]·y` -/
theorem synth_congr {F K : Type} [Add K] [Mul K] [Add F] [Mul F] [Zero F] (χ χ' : K → F) (kx ky : List K) (C : List F) (x y : K)
    (h : ∀ a ∈ kx, ∀ b ∈ ky, χ (a * x + b * y) = χ' (a * x + b * y)) :
    synth χ kx ky C x y = synth χ' kx ky C x y := by
  unfold synth
  apply zipSum3_congr
  intro c a ha b hb
  rw [h a (mem_gridX ha) b (mem_gridY hb)]

section character
variable (E : ℚ → G) (hE : ∀ a b, E (a + b) = E a * E b) (h1 : E 1 = 1)
include hE h1

theorem char_zero_eq_one : E 0 = 1 := by
  have := hE 1 0
  rw [add_zero, h1] at this
  simpa using this.symm

theorem char_nat_mul (k : ℕ) (a : ℚ) : E (k * a) = E a ^ k := by
  induction k with
  | zero => simp [char_zero_eq_one E hE h1]
  | succ k ih => rw [Nat.cast_succ, add_mul, one_mul, hE, ih, pow_succ]

theorem char_int (d : ℤ) : E d = 1 := by
  have hn : ∀ k : ℕ, E (k : ℚ) = 1 := fun k => by
    have := char_nat_mul E hE h1 k 1
    rwa [mul_one, h1, one_pow] at this
  cases d with
  | ofNat k => simpa using hn k
  | negSucc k =>
    have h := hE (Int.negSucc k : ℚ) ((k + 1 : ℕ) : ℚ)
    have hz : ((Int.negSucc k : ℤ) : ℚ) + ((k + 1 : ℕ) : ℚ) = 0 := by
      rw [Int.cast_negSucc]; push_cast; ring
    rw [hz, char_zero_eq_one E hE h1, hn, mul_one] at h
    exact h.symm

/-- on `(1/M)ℤ` every character of period 1 is `q ↦ ζ^(⌊qM⌋ mod M)` with `ζ = E(1/M)` -/
theorem cycExp_agrees (hM : 0 < M) (q : ℚ) (hq : ∃ n : ℤ, q * M = n) : E (1 / M) ^ cycExp M q = E q := by
  obtain ⟨n, hn⟩ := hq
  have hMq : (M : ℚ) ≠ 0 := by exact_mod_cast hM.ne'
  have hMz : (0 : ℤ) < M := by exact_mod_cast hM
  unfold cycExp
  rw [hn, Rat.floor_intCast]
  have he : (((n % (M : ℤ)).toNat : ℕ) : ℤ) = n % M := Int.toNat_of_nonneg (Int.emod_nonneg _ hMz.ne')
  rw [← char_nat_mul E hE h1]
  have hq' : q = ((n / (M : ℤ) : ℤ) : ℚ) + (((n % (M : ℤ)).toNat : ℕ) : ℚ) * (1 / M) := by
    have h2 : (n : ℚ) = (M : ℚ) * ((n / (M : ℤ) : ℤ) : ℚ) + (((n % (M : ℤ)).toNat : ℕ) : ℚ) := by
      have := Int.mul_ediv_add_emod n M
      have h3 : ((((n % (M : ℤ)).toNat : ℕ) : ℤ) : ℚ) = ((n % (M : ℤ) : ℤ) : ℚ) := by rw [he]
      rw [Int.cast_natCast] at h3
      rw [h3]
      exact_mod_cast this.symm
    have : q = n / M := by rw [← hn]; field_simp
    rw [this, h2]; field_simp
  conv_rhs => rw [hq', hE, char_int E hE h1, one_mul]

end character

end HcipyVerif.Shift
