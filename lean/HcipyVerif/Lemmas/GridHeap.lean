import HcipyVerif.Model.GridHeap
import Mathlib.Data.List.Basic
import Mathlib.Data.List.Nodup
import Mathlib.Data.List.Range
import Mathlib.Tactic.Linarith

/-! Frame reasoning for the reference model of grids (`Model/GridHeap.lean`). -/
set_option linter.unusedSimpArgs false
set_option linter.unusedVariables false

namespace HcipyVerif.Grid

theorem Heap.length_modify (h : Heap) (r : Nat) (f : List Rat → List Rat) : (h.modify r f).length = h.length := by
  simp [Heap.modify]

theorem Heap.read_modify_ne (h : Heap) (r r' : Nat) (f : List Rat → List Rat) (hne : r ≠ r') :
    (h.modify r f).read r' = h.read r' := by
  simp [Heap.modify, Heap.read, List.getD_eq_getElem?_getD, List.getElem?_set_ne hne]

theorem Heap.read_modify_eq (h : Heap) (r : Nat) (f : List Rat → List Rat) (hr : r < h.length) :
    (h.modify r f).read r = f (h.read r) := by
  simp [Heap.modify, Heap.read, List.getD_eq_getElem?_getD, List.getElem?_set_self hr]

/-- the sequence of writes of an in-place operation -/
def applyAll (h : Heap) (ros : List (Nat × ArrOp)) : Heap := ros.foldl (fun h ro => h.modify ro.1 ro.2.apply) h

theorem length_applyAll (ros : List (Nat × ArrOp)) (h : Heap) : (applyAll h ros).length = h.length := by
  induction ros generalizing h with
  | nil => rfl
  | cons ro ros ih => simp [applyAll, List.foldl_cons] at ih ⊢; rw [ih, Heap.length_modify]

theorem read_applyAll_notin (ros : List (Nat × ArrOp)) (h : Heap) (r : Nat) (hr : ∀ ro ∈ ros, ro.1 ≠ r) :
    (applyAll h ros).read r = h.read r := by
  induction ros generalizing h with
  | nil => rfl
  | cons ro ros ih =>
    have := ih (h.modify ro.1 ro.2.apply) (fun x hx => hr x (List.mem_cons_of_mem _ hx))
    simp only [applyAll, List.foldl_cons] at this ⊢
    rw [this, Heap.read_modify_ne _ _ _ _ (hr ro List.mem_cons_self)]

theorem RObj.inplace_eq (h : Heap) (o : RObj) (ops : List ArrOp) : o.inplace h ops = applyAll h (List.zip o.refs ops) := rfl

/-- **frame**: an in-place operation on `o` is invisible to an object that shares no array with it -/
theorem RObj.inplace_frame (h : Heap) (o o' : RObj) (ops : List ArrOp) (hd : ∀ r ∈ o.refs, r ∉ o'.refs) :
    o'.val (o.inplace h ops) = o'.val h := by
  simp only [RObj.val, RObj.inplace_eq]
  apply List.map_congr_left
  intro r hr
  apply read_applyAll_notin
  intro ro hro e
  have := (List.of_mem_zip hro).1
  exact hd _ this (e ▸ hr)

theorem map_read_applyAll (refs : List Nat) (ops : List ArrOp) (h : Heap) (hn : refs.Nodup)
    (hr : ∀ r ∈ refs, r < h.length) (hl : ops.length = refs.length) :
    refs.map (applyAll h (List.zip refs ops)).read = List.zipWith (fun op a => op.apply a) ops (refs.map h.read) := by
  induction refs generalizing ops h with
  | nil => simp
  | cons r rs ih =>
    cases ops with
    | nil => simp at hl
    | cons op os =>
      have hnot : r ∉ rs := (List.nodup_cons.mp hn).1
      have hn' : rs.Nodup := (List.nodup_cons.mp hn).2
      simp only [List.zip_cons_cons, List.map_cons, List.zipWith_cons_cons, List.cons.injEq]
      have e : applyAll h ((r, op) :: List.zip rs os) = applyAll (h.modify r op.apply) (List.zip rs os) := rfl
      rw [e]
      constructor
      · rw [read_applyAll_notin]
        · exact Heap.read_modify_eq _ _ _ (hr r List.mem_cons_self)
        · intro ro hro e
          exact hnot (e ▸ (List.of_mem_zip hro).1)
      · rw [ih os (h.modify r op.apply) hn' (by intro x hx; rw [Heap.length_modify]; exact hr x (List.mem_cons_of_mem _ hx))
          (by simpa using hl)]
        congr 1
        apply List.map_congr_left
        intro x hx
        exact Heap.read_modify_ne _ _ _ _ (by intro e; exact hnot (e ▸ hx))

/-- **effect**: the object itself sees every array changed once, by its own operation — provided it
does not hold one array twice -/
theorem RObj.inplace_val (h : Heap) (o : RObj) (ops : List ArrOp) (hn : o.refs.Nodup)
    (hr : ∀ r ∈ o.refs, r < h.length) (hl : ops.length = o.refs.length) :
    o.val (o.inplace h ops) = List.zipWith (fun op a => op.apply a) ops (o.val h) :=
  map_read_applyAll o.refs ops h hn hr hl

theorem Heap.read_append_left (h e : Heap) (r : Nat) (hr : r < h.length) : Heap.read (h ++ e) r = h.read r := by
  simp [Heap.read, List.getD_eq_getElem?_getD, List.getElem?_append_left hr]

theorem map_read_range' (h e : Heap) : (List.range' h.length e.length).map (Heap.read (h ++ e)) = e := by
  apply List.ext_getElem
  · simp
  · intro i h1 h2
    simp only [List.getElem_map, List.getElem_range', Heap.read, List.getD_eq_getElem?_getD]
    rw [List.getElem?_append_right (by omega)]
    simp at h1
    simp [h1]

/-- a deep copy sees the same values, from fresh arrays -/
theorem RObj.deepCopy_val (h : Heap) (o : RObj) :
    (o.deepCopy h).2.val (o.deepCopy h).1 = o.val h := by
  have := map_read_range' h (o.val h)
  simpa [RObj.deepCopy, RObj.val] using this

/-! ## The world: separation invariant -/

/-- no array is held twice (by one object or by two), and every reference is valid -/
def RWorld.Sep (w : RWorld) : Prop := (∀ r ∈ w.allRefs, r < w.heap.length) ∧ w.allRefs.Nodup

instance (w : RWorld) : Decidable w.Sep := by unfold RWorld.Sep; exact inferInstance

theorem RWorld.refs_of_mem (w : RWorld) (o : RObj) (ho : o ∈ w.objs) (r : Nat) (hr : r ∈ o.refs) : r ∈ w.allRefs := by
  simp only [RWorld.allRefs, List.mem_flatten, List.mem_map]
  exact ⟨o.refs, ⟨o, ho, rfl⟩, hr⟩

theorem RWorld.val_grow (w : RWorld) (hs : ∀ r ∈ w.allRefs, r < w.heap.length) (e : Heap) (o : RObj) (ho : o ∈ w.objs) :
    o.val (w.heap ++ e) = o.val w.heap := by
  simp only [RObj.val]
  apply List.map_congr_left
  intro r hr
  exact Heap.read_append_left _ _ _ (hs r (w.refs_of_mem o ho r hr))

theorem nodup_append_range' (l : List Nat) (n k : Nat) (hl : l.Nodup) (hb : ∀ r ∈ l, r < n) : (l ++ List.range' n k).Nodup := by
  rw [List.nodup_append]
  refine ⟨hl, List.nodup_range', ?_⟩
  intro a ha b hb' e
  have := hb a ha
  rw [List.mem_range'_1] at hb'
  omega

/-- **allocation keeps the invariant** (`new`, `construct`, `copy`) -/
theorem RWorld.Sep_alloc (w : RWorld) (hs : w.Sep) (e : Heap) :
    RWorld.Sep { heap := w.heap ++ e, objs := w.objs ++ [⟨List.range' w.heap.length e.length⟩] } := by
  obtain ⟨h1, h2⟩ := hs
  constructor
  · intro r hr
    simp only [RWorld.allRefs, List.map_append, List.flatten_append, List.mem_append, List.map_cons, List.map_nil,
      List.flatten_cons, List.flatten_nil, List.append_nil, List.mem_range'_1] at hr
    simp only [List.length_append]
    rcases hr with hr | hr
    · have := h1 r hr; omega
    · omega
  · simp only [RWorld.allRefs, List.map_append, List.flatten_append, List.map_cons, List.map_nil, List.flatten_cons,
      List.flatten_nil, List.append_nil]
    exact nodup_append_range' _ _ _ h2 h1

theorem RWorld.Sep_new (w : RWorld) (hs : w.Sep) (a : List (List Rat)) : (w.new a).Sep := w.Sep_alloc hs a

theorem RWorld.Sep_construct (w : RWorld) (hs : w.Sep) (refs : List Nat) : (w.construct refs).Sep := by
  have := w.Sep_alloc hs (RObj.val w.heap ⟨refs⟩)
  simpa [RWorld.construct, RObj.deepCopy, RObj.val] using this

theorem RWorld.Sep_inplace (w : RWorld) (hs : w.Sep) (i : Nat) (ops : List ArrOp) : (w.inplace i ops).Sep := by
  obtain ⟨h1, h2⟩ := hs
  refine ⟨?_, h2⟩
  intro r hr
  simp only [RWorld.inplace, RObj.inplace_eq, length_applyAll]
  exact h1 r hr

/-- what the value store sees of an allocation: one more object, the others as they were -/
theorem RWorld.abs_alloc (w : RWorld) (hs : w.Sep) (e : Heap) :
    RWorld.abs { heap := w.heap ++ e, objs := w.objs ++ [⟨List.range' w.heap.length e.length⟩] } = w.abs ++ [e] := by
  simp only [RWorld.abs, List.map_append, List.map_cons, List.map_nil]
  congr 1
  · apply List.map_congr_left
    intro o ho
    exact w.val_grow hs.1 e o ho
  · simp [RObj.val, map_read_range']

theorem disjoint_of_nodup_flatten (L : List (List Nat)) (hn : L.flatten.Nodup) (i j : Nat) (hi : i < L.length) (hj : j < L.length)
    (hij : i ≠ j) : ∀ r ∈ L[i], r ∉ L[j] := by
  have hp := (List.nodup_flatten.mp hn).2
  rw [List.pairwise_iff_getElem] at hp
  intro r hri hrj
  rcases Nat.lt_or_gt_of_ne hij with h | h
  · exact (hp i j hi hj h) hri hrj
  · exact (hp j i hj hi h) hrj hri

/-- **an in-place operation changes the value of its target only, and there it acts once per array** -/
theorem RWorld.abs_inplace (w : RWorld) (hs : w.Sep) (i : Nat) (hi : i < w.objs.length) (ops : List ArrOp)
    (hl : ops.length = (w.objs[i]).refs.length) :
    (w.inplace i ops).abs = w.abs.set i (List.zipWith (fun op a => op.apply a) ops (w.objs[i].val w.heap)) := by
  obtain ⟨h1, h2⟩ := hs
  have hget : w.objs.getD i ⟨[]⟩ = w.objs[i] := by simp [List.getD_eq_getElem?_getD, hi]
  apply List.ext_getElem
  · simp [RWorld.abs, RWorld.inplace]
  · intro j hj1 hj2
    have hj : j < w.objs.length := by simpa [RWorld.abs, RWorld.inplace] using hj1
    simp only [RWorld.abs, RWorld.inplace, List.getElem_map, hget]
    by_cases hij : i = j
    · subst hij
      rw [List.getElem_set_self]
      apply RObj.inplace_val _ _ _ _ _ hl
      · have := (List.nodup_flatten.mp h2).1 (w.objs[i]).refs (by simp only [List.mem_map]; exact ⟨_, List.getElem_mem hi, rfl⟩)
        exact this
      · intro r hr; exact h1 r (w.refs_of_mem _ (List.getElem_mem hi) r hr)
    · rw [List.getElem_set_ne hij, List.getElem_map]
      apply RObj.inplace_frame
      have h2' : ((w.objs.map (fun o : RObj => o.refs)).flatten).Nodup := h2
      have := disjoint_of_nodup_flatten (w.objs.map (fun o : RObj => o.refs)) h2' i j (by simpa using hi) (by simpa using hj) hij
      simpa using this

theorem RWorld.abs_copy (w : RWorld) (hs : w.Sep) (i : Nat) (hi : i < w.objs.length) :
    (w.copy i).abs = w.abs ++ [w.objs[i].val w.heap] := by
  have hget : w.objs.getD i ⟨[]⟩ = w.objs[i] := by simp [List.getD_eq_getElem?_getD, hi]
  have hget' : w.objs[i]?.getD ⟨[]⟩ = w.objs[i] := by simp [hi]
  have := w.abs_alloc hs (RObj.val w.heap w.objs[i])
  simpa [RWorld.copy, RWorld.construct, RObj.deepCopy, RObj.val, hget, hget'] using this

theorem RWorld.copy_last (w : RWorld) (i : Nat) (hi : i < w.objs.length) :
    ∃ h : w.objs.length < (w.copy i).objs.length,
      (w.copy i).objs[w.objs.length] = ⟨List.range' w.heap.length (w.objs[i]).refs.length⟩ ∧
      (w.copy i).objs[w.objs.length].val (w.copy i).heap = w.objs[i].val w.heap := by
  have hget : w.objs.getD i ⟨[]⟩ = w.objs[i] := by simp [List.getD_eq_getElem?_getD, hi]
  have hget' : w.objs[i]?.getD ⟨[]⟩ = w.objs[i] := by simp [hi]
  have hn : w.objs.length < (w.copy i).objs.length := by simp [RWorld.copy, RWorld.construct]
  have hobj : (w.copy i).objs[w.objs.length] = ⟨List.range' w.heap.length (w.objs[i]).refs.length⟩ := by
    simp [RWorld.copy, RWorld.construct, RObj.deepCopy, hget, hget']
  refine ⟨hn, hobj, ?_⟩
  have := RObj.deepCopy_val w.heap w.objs[i]
  rw [hobj]
  simpa [RWorld.copy, RWorld.construct, RObj.deepCopy, hget, hget'] using this

/-- the non-mutating form: all existing objects untouched, one more object with the transformed values -/
theorem RWorld.abs_copied (w : RWorld) (hs : w.Sep) (i : Nat) (hi : i < w.objs.length) (ops : List ArrOp)
    (hl : ops.length = (w.objs[i]).refs.length) :
    (w.copied i ops).abs = w.abs ++ [List.zipWith (fun op a => op.apply a) ops (w.objs[i].val w.heap)] := by
  have hc := w.abs_copy hs i hi
  have hs' : (w.copy i).Sep := w.Sep_construct hs _
  obtain ⟨hn, hobj, hval⟩ := w.copy_last i hi
  unfold RWorld.copied
  rw [(w.copy i).abs_inplace hs' _ hn ops (by rw [hobj]; simpa using hl), hc, hval]
  have : w.objs.length = w.abs.length := by simp [RWorld.abs]
  rw [this, List.set_append_right _ _ (le_refl _)]
  simp

/-- … and a later in-place operation on the result does not reach the original either -/
theorem RWorld.abs_copied_inplace (w : RWorld) (hs : w.Sep) (i : Nat) (hi : i < w.objs.length) (ops ops2 : List ArrOp)
    (hl : ops.length = (w.objs[i]).refs.length) (hl2 : ops2.length = (w.objs[i]).refs.length) :
    ((w.copied i ops).inplace w.objs.length ops2).abs =
      w.abs ++ [List.zipWith (fun op a => op.apply a) ops2 (List.zipWith (fun op a => op.apply a) ops (w.objs[i].val w.heap))] := by
  have hs' : (w.copied i ops).Sep := RWorld.Sep_inplace _ (w.Sep_construct hs _) _ _
  obtain ⟨hn, hobj, hval⟩ := w.copy_last i hi
  have hn' : w.objs.length < (w.copied i ops).objs.length := by simpa [RWorld.copied, RWorld.inplace] using hn
  have hobj' : (w.copied i ops).objs[w.objs.length] = ⟨List.range' w.heap.length (w.objs[i]).refs.length⟩ := by
    simpa [RWorld.copied, RWorld.inplace] using hobj
  have habs := w.abs_copied hs i hi ops hl
  have hlast : (w.copied i ops).objs[w.objs.length].val (w.copied i ops).heap =
      List.zipWith (fun op a => op.apply a) ops (w.objs[i].val w.heap) := by
    have h1 : (w.copied i ops).abs[w.objs.length]'(by simpa [RWorld.abs] using hn') =
        (w.copied i ops).objs[w.objs.length].val (w.copied i ops).heap := by simp [RWorld.abs]
    rw [← h1]
    have : w.objs.length = w.abs.length := by simp [RWorld.abs]
    simp only [habs, this, List.getElem_append_right (le_refl _)]
    simp
  rw [(w.copied i ops).abs_inplace hs' _ hn' ops2 (by rw [hobj']; simpa using hl2), hlast, habs]
  have : w.objs.length = w.abs.length := by simp [RWorld.abs]
  rw [this, List.set_append_right _ _ (le_refl _)]
  simp

theorem RWorld.Sep_empty : RWorld.Sep {} := by decide

theorem RWorld.Sep_copied (w : RWorld) (hs : w.Sep) (i : Nat) (ops : List ArrOp) : (w.copied i ops).Sep :=
  RWorld.Sep_inplace _ (w.Sep_construct hs _) _ _

/-- every request of the `ref` protocol keeps the invariant -/
theorem stepRef_sep (w w' : RWorld) (toks : List String) (out : String) (hs : w.Sep)
    (h : stepRef w toks = some (w', out)) : w'.Sep := by
  unfold stepRef at h
  split at h
  · simp only [Option.some.injEq, Prod.mk.injEq] at h; rw [← h.1]; exact RWorld.Sep_empty
  · simp only [Option.map_eq_some_iff, Prod.mk.injEq] at h
    obtain ⟨a, _, rfl, _⟩ := h; exact w.Sep_new hs a
  · simp only [Option.bind_eq_bind, Option.bind_eq_some_iff, Option.pure_def] at h
    obtain ⟨idx, _, h⟩ := h
    split at h
    · simp only [Option.some.injEq, Prod.mk.injEq] at h; rw [← h.1]; exact hs
    · simp only [Option.some.injEq, Prod.mk.injEq] at h; rw [← h.1]; exact w.Sep_construct hs _
  · simp only [Option.bind_eq_bind, Option.bind_eq_some_iff, Option.pure_def] at h
    obtain ⟨i, _, h⟩ := h
    split at h
    · simp only [Option.some.injEq, Prod.mk.injEq] at h; rw [← h.1]; exact hs
    · simp only [Option.some.injEq, Prod.mk.injEq] at h; rw [← h.1]; exact w.Sep_construct hs _
  · simp only [Option.bind_eq_bind, Option.bind_eq_some_iff, Option.pure_def] at h
    obtain ⟨i, _, ops, _, h⟩ := h
    split at h
    · simp only [Option.some.injEq, Prod.mk.injEq] at h; rw [← h.1]; exact hs
    · simp only [Option.some.injEq, Prod.mk.injEq] at h; rw [← h.1]; exact w.Sep_inplace hs _ _
  · simp only [Option.bind_eq_bind, Option.bind_eq_some_iff, Option.pure_def] at h
    obtain ⟨i, _, ops, _, h⟩ := h
    split at h
    · simp only [Option.some.injEq, Prod.mk.injEq] at h; rw [← h.1]; exact hs
    · simp only [Option.some.injEq, Prod.mk.injEq] at h; rw [← h.1]; exact w.Sep_copied hs _ _
  · simp only [Option.bind_eq_bind, Option.bind_eq_some_iff, Option.pure_def] at h
    obtain ⟨i, _, h⟩ := h
    split at h <;> (simp only [Option.some.injEq, Prod.mk.injEq] at h; rw [← h.1]; exact hs)
  · simp only [Option.some.injEq, Prod.mk.injEq] at h; rw [← h.1]; exact hs
  · simp at h

/-! ## Identity arguments -/
/-- the argument of an in-place array operation is the identity of its group, in whatever spelling:
no-op, `*= 1`, `+= 0`, `*= [1,…,1]`, `+= [0,…,0]` -/
def ArrOp.IsIdentity (a : List Rat) : ArrOp → Prop
  | .keep => True
  | .mulS c => c = 1
  | .addS c => c = 0
  | .mulV v => a.length ≤ v.length ∧ ∀ x ∈ v, x = 1
  | .addV v => a.length ≤ v.length ∧ ∀ x ∈ v, x = 0

theorem zipWith_mul_ones (a v : List Rat) (hl : a.length ≤ v.length) (h1 : ∀ x ∈ v, x = 1) :
    List.zipWith (· * ·) a v = a := by
  induction a generalizing v with
  | nil => simp
  | cons x xs ih =>
    cases v with
    | nil => simp at hl
    | cons y ys =>
      have hy : y = 1 := h1 y (by simp)
      simp only [List.zipWith_cons_cons, hy, Rat.mul_one]
      rw [ih ys (by simpa using hl) (fun z hz => h1 z (by simp [hz]))]

theorem zipWith_add_zeros (a v : List Rat) (hl : a.length ≤ v.length) (h1 : ∀ x ∈ v, x = 0) :
    List.zipWith (· + ·) a v = a := by
  induction a generalizing v with
  | nil => simp
  | cons x xs ih =>
    cases v with
    | nil => simp at hl
    | cons y ys =>
      have hy : y = 0 := h1 y (by simp)
      simp only [List.zipWith_cons_cons, hy, Rat.add_zero]
      rw [ih ys (by simpa using hl) (fun z hz => h1 z (by simp [hz]))]

theorem ArrOp.apply_identity (op : ArrOp) (a : List Rat) (h : op.IsIdentity a) : op.apply a = a := by
  cases op with
  | keep => rfl
  | mulS c => simp only [ArrOp.IsIdentity] at h; simp [ArrOp.apply, h]
  | addS c => simp only [ArrOp.IsIdentity] at h; simp [ArrOp.apply, h]
  | mulV v => exact zipWith_mul_ones a v h.1 h.2
  | addV v => exact zipWith_add_zeros a v h.1 h.2

theorem zipWith_apply_identity (ops : List ArrOp) (vals : List (List Rat))
    (h : List.Forall₂ (fun op a => ArrOp.IsIdentity a op) ops vals) :
    List.zipWith (fun op a => op.apply a) ops vals = vals := by
  induction h with
  | nil => rfl
  | cons hh _ ih => simp only [List.zipWith_cons_cons, ih, ArrOp.apply_identity _ _ hh]

end HcipyVerif.Grid
