import HcipyVerif.Model.Jones
import Mathlib.Data.Complex.Basic
import Mathlib.Tactic.Ring
import Mathlib.Tactic.Linarith
import Mathlib.Tactic.LinearCombination
import Mathlib.Analysis.Real.Sqrt

/-!
# Helper lemmas for the Jones model (C08, C07)

* projection lemmas (`rfl`) that let `simp only [jones_simps]` expand the pair arithmetic of
  `Model/Jones.lean` into real polynomials, after which `ring` decides identities;
* the bridge `Cx.toComplex : Cx ℝ → ℂ`, a ring homomorphism commuting with conjugation, showing
  that the pair model *is* Mathlib's complex numbers.
-/
set_option linter.unusedSimpArgs false
set_option linter.unusedVariables false
set_option linter.unusedSectionVars false

namespace HcipyVerif.Jones

section proj
variable {K : Type} [Add K] [Sub K] [Mul K] [Neg K]

theorem Cx.add_re (a b : Cx K) : (a + b).re = a.re + b.re := rfl
theorem Cx.add_im (a b : Cx K) : (a + b).im = a.im + b.im := rfl
theorem Cx.sub_re (a b : Cx K) : (a - b).re = a.re - b.re := rfl
theorem Cx.sub_im (a b : Cx K) : (a - b).im = a.im - b.im := rfl
theorem Cx.mul_re (a b : Cx K) : (a * b).re = a.re * b.re - a.im * b.im := rfl
theorem Cx.mul_im (a b : Cx K) : (a * b).im = a.re * b.im + a.im * b.re := rfl
theorem Cx.neg_re (a : Cx K) : (-a).re = -a.re := rfl
theorem Cx.neg_im (a : Cx K) : (-a).im = -a.im := rfl
theorem Cx.conj_re (a : Cx K) : a.conj.re = a.re := rfl
theorem Cx.conj_im (a : Cx K) : a.conj.im = -a.im := rfl
theorem Cx.smul_re (k : K) (a : Cx K) : (Cx.smul k a).re = k * a.re := rfl
theorem Cx.smul_im (k : K) (a : Cx K) : (Cx.smul k a).im = k * a.im := rfl
theorem Cx.mk_re (x y : K) : (Cx.mk x y).re = x := rfl
theorem Cx.mk_im (x y : K) : (Cx.mk x y).im = y := rfl

theorem J2.mul_a11 (a b : J2 K) : (a * b).a11 = a.a11 * b.a11 + a.a12 * b.a21 := rfl
theorem J2.mul_a12 (a b : J2 K) : (a * b).a12 = a.a11 * b.a12 + a.a12 * b.a22 := rfl
theorem J2.mul_a21 (a b : J2 K) : (a * b).a21 = a.a21 * b.a11 + a.a22 * b.a21 := rfl
theorem J2.mul_a22 (a b : J2 K) : (a * b).a22 = a.a21 * b.a12 + a.a22 * b.a22 := rfl
theorem J2.add_a11 (a b : J2 K) : (a + b).a11 = a.a11 + b.a11 := rfl
theorem J2.add_a12 (a b : J2 K) : (a + b).a12 = a.a12 + b.a12 := rfl
theorem J2.add_a21 (a b : J2 K) : (a + b).a21 = a.a21 + b.a21 := rfl
theorem J2.add_a22 (a b : J2 K) : (a + b).a22 = a.a22 + b.a22 := rfl
theorem J2.adj_a11 (a : J2 K) : a.adj.a11 = a.a11.conj := rfl
theorem J2.adj_a12 (a : J2 K) : a.adj.a12 = a.a21.conj := rfl
theorem J2.adj_a21 (a : J2 K) : a.adj.a21 = a.a12.conj := rfl
theorem J2.adj_a22 (a : J2 K) : a.adj.a22 = a.a22.conj := rfl
theorem J2.apply_x (a : J2 K) (e : V2 K) : (a.apply e).x = a.a11 * e.x + a.a12 * e.y := rfl
theorem J2.apply_y (a : J2 K) (e : V2 K) : (a.apply e).y = a.a21 * e.x + a.a22 * e.y := rfl
theorem J2.scale_a11 (a : J2 K) (e : Cx K) : (a.scale e).a11 = a.a11 * e := rfl
theorem J2.scale_a12 (a : J2 K) (e : Cx K) : (a.scale e).a12 = a.a12 * e := rfl
theorem J2.scale_a21 (a : J2 K) (e : Cx K) : (a.scale e).a21 = a.a21 * e := rfl
theorem J2.scale_a22 (a : J2 K) (e : Cx K) : (a.scale e).a22 = a.a22 * e := rfl
theorem J2.det_def (a : J2 K) : a.det = a.a11 * a.a22 - a.a12 * a.a21 := rfl
theorem J2.mk_a11 (p q r s : Cx K) : (J2.mk p q r s).a11 = p := rfl
theorem J2.mk_a12 (p q r s : Cx K) : (J2.mk p q r s).a12 = q := rfl
theorem J2.mk_a21 (p q r s : Cx K) : (J2.mk p q r s).a21 = r := rfl
theorem J2.mk_a22 (p q r s : Cx K) : (J2.mk p q r s).a22 = s := rfl
end proj

/-! ### the pair model is ℂ -/

/-- The complex number denoted by a pair. -/
def Cx.toComplex (a : Cx ℝ) : ℂ := ⟨a.re, a.im⟩

theorem Cx.toComplex_add (a b : Cx ℝ) : (a + b).toComplex = a.toComplex + b.toComplex := by
  apply Complex.ext <;> simp [Cx.toComplex, Cx.add_re, Cx.add_im]

theorem Cx.toComplex_sub (a b : Cx ℝ) : (a - b).toComplex = a.toComplex - b.toComplex := by
  apply Complex.ext <;> simp [Cx.toComplex, Cx.sub_re, Cx.sub_im]

theorem Cx.toComplex_mul (a b : Cx ℝ) : (a * b).toComplex = a.toComplex * b.toComplex := by
  apply Complex.ext <;> simp [Cx.toComplex, Cx.mul_re, Cx.mul_im]

theorem Cx.toComplex_neg (a : Cx ℝ) : (-a).toComplex = -a.toComplex := by
  apply Complex.ext <;> simp [Cx.toComplex, Cx.neg_re, Cx.neg_im]

theorem Cx.toComplex_conj (a : Cx ℝ) : a.conj.toComplex = (starRingEnd ℂ) a.toComplex := by
  apply Complex.ext <;> simp [Cx.toComplex, Cx.conj_re, Cx.conj_im]

theorem Cx.toComplex_normSq (a : Cx ℝ) : a.normSq = Complex.normSq a.toComplex := by
  simp [Cx.toComplex, Cx.normSq, Complex.normSq_apply]

theorem Cx.toComplex_injective : Function.Injective Cx.toComplex := by
  intro a b h
  cases a; cases b
  simp only [Cx.toComplex, Complex.mk.injEq] at h
  obtain ⟨h1, h2⟩ := h
  subst h1; subst h2; rfl

end HcipyVerif.Jones

/-! ### intensity of a partially polarised wavefront (shared by C07 and C08) -/
namespace HcipyVerif.Jones

/-- Expand the pair arithmetic of the model into real polynomials (model definitions only). -/
macro "jones_model_expand" : tactic => `(tactic|
  simp only [jonesStokes, vecStokes, scalarStokes, cohOfVec, stokesOfCoh, coh2, S4.half, mulVec,
    polarizer, retarder,
    Cx.add_re, Cx.add_im, Cx.sub_re, Cx.sub_im, Cx.mul_re, Cx.mul_im, Cx.neg_re, Cx.neg_im,
    Cx.conj_re, Cx.conj_im, Cx.smul_re, Cx.smul_im, Cx.normSq,
    J2.mul_a11, J2.mul_a12, J2.mul_a21, J2.mul_a22, J2.add_a11, J2.add_a12, J2.add_a21, J2.add_a22,
    J2.adj_a11, J2.adj_a12, J2.adj_a21, J2.adj_a22, J2.apply_x, J2.apply_y,
    J2.scale_a11, J2.scale_a12, J2.scale_a21, J2.scale_a22, J2.det_def])

/-- One row `(p, q)` of a Jones-matrix field against a physical Stokes vector
(`0 ≤ a`, `b² + c² + d² ≤ a²`): its contribution to `2 I` is non-negative (Cauchy–Schwarz on the
Poincaré sphere). -/
theorem row_intensity_nonneg (a b c d : ℝ) (ha : 0 ≤ a) (hphys : b ^ 2 + c ^ 2 + d ^ 2 ≤ a ^ 2)
    (pr pi qr qi : ℝ) :
    0 ≤ a * (pr * pr + pi * pi + qr * qr + qi * qi) + b * (pr * pr + pi * pi - qr * qr - qi * qi)
      + c * (2 * (pr * qr + pi * qi)) + d * (2 * (pi * qr - pr * qi)) := by
  set i := pr * pr + pi * pi + qr * qr + qi * qi with hi
  set q := pr * pr + pi * pi - qr * qr - qi * qi with hq
  set u := 2 * (pr * qr + pi * qi) with hu
  set v := 2 * (pi * qr - pr * qi) with hv
  have hpure : q ^ 2 + u ^ 2 + v ^ 2 = i ^ 2 := by rw [hi, hq, hu, hv]; ring
  have hi0 : 0 ≤ i := by
    rw [hi]; nlinarith [mul_self_nonneg pr, mul_self_nonneg pi, mul_self_nonneg qr, mul_self_nonneg qi]
  have cs : (b * q + c * u + d * v) ^ 2 ≤ (b ^ 2 + c ^ 2 + d ^ 2) * (q ^ 2 + u ^ 2 + v ^ 2) := by
    nlinarith [sq_nonneg (b * u - c * q), sq_nonneg (b * v - d * q), sq_nonneg (c * v - d * u)]
  have h2 : (b * q + c * u + d * v) ^ 2 ≤ (a * i) ^ 2 := by
    have : (b ^ 2 + c ^ 2 + d ^ 2) * (q ^ 2 + u ^ 2 + v ^ 2) ≤ a ^ 2 * i ^ 2 := by
      rw [hpure]; exact mul_le_mul_of_nonneg_right hphys (sq_nonneg i)
    nlinarith
  have hai : 0 ≤ a * i := mul_nonneg ha hi0
  have := abs_le_of_sq_le_sq' h2 hai
  nlinarith [this.1]

/-- The model's intensity `(J C(S) Jᴴ)` of a Jones-matrix wavefront is non-negative for a physical
input Stokes vector. -/
theorem jonesStokes_i_nonneg (e : J2 ℝ) (sv : S4 ℝ) (ha : 0 ≤ sv.i)
    (hphys : sv.q ^ 2 + sv.u ^ 2 + sv.v ^ 2 ≤ sv.i ^ 2) : 0 ≤ (jonesStokes e sv).i := by
  obtain ⟨⟨xr, xi⟩, ⟨yr, yi⟩, ⟨zr, zi⟩, ⟨wr, wi⟩⟩ := e
  obtain ⟨a, b, c, d⟩ := sv
  simp only at ha hphys
  have h1 := row_intensity_nonneg a b c d ha hphys xr xi yr yi
  have h2 := row_intensity_nonneg a b c d ha hphys zr zi wr wi
  have : (jonesStokes (⟨⟨xr, xi⟩, ⟨yr, yi⟩, ⟨zr, zi⟩, ⟨wr, wi⟩⟩ : J2 ℝ) ⟨a, b, c, d⟩).i
      = (1 / 2) * ((a * (xr * xr + xi * xi + yr * yr + yi * yi) + b * (xr * xr + xi * xi - yr * yr - yi * yi)
        + c * (2 * (xr * yr + xi * yi)) + d * (2 * (xi * yr - xr * yi)))
        + (a * (zr * zr + zi * zi + wr * wr + wi * wi) + b * (zr * zr + zi * zi - wr * wr - wi * wi)
        + c * (2 * (zr * wr + zi * wi)) + d * (2 * (zi * wr - zr * wi)))) := by
    jones_model_expand; ring
  rw [this]; linarith

/-- The two complementary projectors `P(θ)`, `P(θ+π/2)` split the intensity of any Jones-matrix wavefront. -/
theorem polarizer_ports_split (c s : ℝ) (h : c ^ 2 + s ^ 2 = 1) (e : J2 ℝ) (sv : S4 ℝ) :
    (jonesStokes (polarizer c s * e) sv).i + (jonesStokes (polarizer (-s) c * e) sv).i
      = (jonesStokes e sv).i := by
  obtain ⟨⟨er1, ei1⟩, ⟨er2, ei2⟩, ⟨er3, ei3⟩, ⟨er4, ei4⟩⟩ := e
  obtain ⟨a, b, cc, d⟩ := sv
  have e : (jonesStokes (polarizer c s * (⟨⟨er1, ei1⟩, ⟨er2, ei2⟩, ⟨er3, ei3⟩, ⟨er4, ei4⟩⟩ : J2 ℝ)) ⟨a, b, cc, d⟩).i
        + (jonesStokes (polarizer (-s) c * (⟨⟨er1, ei1⟩, ⟨er2, ei2⟩, ⟨er3, ei3⟩, ⟨er4, ei4⟩⟩ : J2 ℝ)) ⟨a, b, cc, d⟩).i
      = (c ^ 2 + s ^ 2) ^ 2 * (jonesStokes (⟨⟨er1, ei1⟩, ⟨er2, ei2⟩, ⟨er3, ei3⟩, ⟨er4, ei4⟩⟩ : J2 ℝ) ⟨a, b, cc, d⟩).i := by
    jones_model_expand
    ring
  rw [e, h]; ring

/-- A point `c + i s` of the unit circle: non-zero, inverse = conjugate. -/
theorem unit_circle (c s : ℝ) (h : c ^ 2 + s ^ 2 = 1) :
    (⟨c, s⟩ : ℂ) ≠ 0 ∧ (⟨c, s⟩ : ℂ)⁻¹ = ⟨c, -s⟩ ∧ (starRingEnd ℂ) (⟨c, s⟩ : ℂ) = (⟨c, s⟩ : ℂ)⁻¹ := by
  have hn : Complex.normSq (⟨c, s⟩ : ℂ) = 1 := by rw [Complex.normSq_mk]; linarith
  have h0 : (⟨c, s⟩ : ℂ) ≠ 0 := by
    intro h0; rw [h0, Complex.normSq_zero] at hn; exact zero_ne_one hn
  have hinv : (⟨c, s⟩ : ℂ)⁻¹ = ⟨c, -s⟩ := by
    rw [Complex.inv_def, hn]; apply Complex.ext <;> simp
  refine ⟨h0, hinv, ?_⟩
  rw [hinv]; apply Complex.ext <;> simp

end HcipyVerif.Jones

/-! ### Pure mathematics used by `Properties/C08.lean` (moved here in round 5: helpers, not property theorems) -/
namespace HcipyVerif.C08

/-- `Jᴴ J = 1` for `J = [[x, y], [z, w]]` as four real polynomial equations (decidable over `ℚ`). -/
def IsUnitary8 (xr xi yr yi zr zi wr wi : ℝ) : Prop :=
  xr * xr + xi * xi + zr * zr + zi * zi = 1 ∧ yr * yr + yi * yi + wr * wr + wi * wi = 1 ∧
  xr * yr + xi * yi + zr * wr + zi * wi = 0 ∧ xr * yi - xi * yr + zr * wi - zi * wr = 0

/-- A unitary 2×2 matrix conserves the intensity `|E₁|² + |E₂|²` of every Jones vector
(as the complex identity `conj o₁·o₁ + conj o₂·o₂ = conj e₁·e₁ + conj e₂·e₂`). -/
theorem unitary_conserves_intensity (j11 j12 j21 j22 e1 e2 : ℂ)
    (h11 : (starRingEnd ℂ) j11 * j11 + (starRingEnd ℂ) j21 * j21 = 1)
    (h12 : (starRingEnd ℂ) j11 * j12 + (starRingEnd ℂ) j21 * j22 = 0)
    (h21 : (starRingEnd ℂ) j12 * j11 + (starRingEnd ℂ) j22 * j21 = 0)
    (h22 : (starRingEnd ℂ) j12 * j12 + (starRingEnd ℂ) j22 * j22 = 1) :
    (starRingEnd ℂ) (j11 * e1 + j12 * e2) * (j11 * e1 + j12 * e2)
      + (starRingEnd ℂ) (j21 * e1 + j22 * e2) * (j21 * e1 + j22 * e2)
      = (starRingEnd ℂ) e1 * e1 + (starRingEnd ℂ) e2 * e2 := by
  simp only [map_add, map_mul]
  linear_combination ((starRingEnd ℂ) e1 * e1) * h11 + ((starRingEnd ℂ) e1 * e2) * h12
    + ((starRingEnd ℂ) e2 * e1) * h21 + ((starRingEnd ℂ) e2 * e2) * h22

/-- The complex form of `Jᴴ J = 1` (as proved for the generated retarder matrix) gives the real form. -/
theorem unitary8_of_complex (j11 j12 j21 j22 : ℂ)
    (h11 : (starRingEnd ℂ) j11 * j11 + (starRingEnd ℂ) j21 * j21 = 1)
    (h12 : (starRingEnd ℂ) j11 * j12 + (starRingEnd ℂ) j21 * j22 = 0)
    (h22 : (starRingEnd ℂ) j12 * j12 + (starRingEnd ℂ) j22 * j22 = 1) :
    IsUnitary8 j11.re j11.im j12.re j12.im j21.re j21.im j22.re j22.im := by
  have a := congrArg Complex.re h11
  have b := congrArg Complex.re h22
  have c := congrArg Complex.re h12
  have d := congrArg Complex.im h12
  simp only [Complex.add_re, Complex.mul_re, Complex.conj_re, Complex.conj_im, Complex.one_re, Complex.zero_re,
    Complex.add_im, Complex.mul_im, Complex.zero_im] at a b c d
  refine ⟨by linarith, by linarith, by linarith, by linarith⟩

end HcipyVerif.C08
