import HcipyVerif.Model.Jones
import Mathlib.Data.Complex.Basic
import Mathlib.Tactic.Ring

/-!
# Helper lemmas for the Jones model (C08, C07)

* projection lemmas (`rfl`) that let `simp only [jones_simps]` expand the pair arithmetic of
  `Model/Jones.lean` into real polynomials, after which `ring` decides identities;
* the bridge `Cx.toComplex : Cx ℝ → ℂ`, a ring homomorphism commuting with conjugation, showing
  that the pair model *is* Mathlib's complex numbers.
-/
set_option linter.unusedSimpArgs false
set_option linter.unusedVariables false
set_option linter.unusedSectionVars false

namespace HcipyVerif.Jones

section proj
variable {K : Type} [Add K] [Sub K] [Mul K] [Neg K]

theorem Cx.add_re (a b : Cx K) : (a + b).re = a.re + b.re := rfl
theorem Cx.add_im (a b : Cx K) : (a + b).im = a.im + b.im := rfl
theorem Cx.sub_re (a b : Cx K) : (a - b).re = a.re - b.re := rfl
theorem Cx.sub_im (a b : Cx K) : (a - b).im = a.im - b.im := rfl
theorem Cx.mul_re (a b : Cx K) : (a * b).re = a.re * b.re - a.im * b.im := rfl
theorem Cx.mul_im (a b : Cx K) : (a * b).im = a.re * b.im + a.im * b.re := rfl
theorem Cx.neg_re (a : Cx K) : (-a).re = -a.re := rfl
theorem Cx.neg_im (a : Cx K) : (-a).im = -a.im := rfl
theorem Cx.conj_re (a : Cx K) : a.conj.re = a.re := rfl
theorem Cx.conj_im (a : Cx K) : a.conj.im = -a.im := rfl
theorem Cx.smul_re (k : K) (a : Cx K) : (Cx.smul k a).re = k * a.re := rfl
theorem Cx.smul_im (k : K) (a : Cx K) : (Cx.smul k a).im = k * a.im := rfl
theorem Cx.mk_re (x y : K) : (Cx.mk x y).re = x := rfl
theorem Cx.mk_im (x y : K) : (Cx.mk x y).im = y := rfl

theorem J2.mul_a11 (a b : J2 K) : (a * b).a11 = a.a11 * b.a11 + a.a12 * b.a21 := rfl
theorem J2.mul_a12 (a b : J2 K) : (a * b).a12 = a.a11 * b.a12 + a.a12 * b.a22 := rfl
theorem J2.mul_a21 (a b : J2 K) : (a * b).a21 = a.a21 * b.a11 + a.a22 * b.a21 := rfl
theorem J2.mul_a22 (a b : J2 K) : (a * b).a22 = a.a21 * b.a12 + a.a22 * b.a22 := rfl
theorem J2.add_a11 (a b : J2 K) : (a + b).a11 = a.a11 + b.a11 := rfl
theorem J2.add_a12 (a b : J2 K) : (a + b).a12 = a.a12 + b.a12 := rfl
theorem J2.add_a21 (a b : J2 K) : (a + b).a21 = a.a21 + b.a21 := rfl
theorem J2.add_a22 (a b : J2 K) : (a + b).a22 = a.a22 + b.a22 := rfl
theorem J2.adj_a11 (a : J2 K) : a.adj.a11 = a.a11.conj := rfl
theorem J2.adj_a12 (a : J2 K) : a.adj.a12 = a.a21.conj := rfl
theorem J2.adj_a21 (a : J2 K) : a.adj.a21 = a.a12.conj := rfl
theorem J2.adj_a22 (a : J2 K) : a.adj.a22 = a.a22.conj := rfl
theorem J2.apply_x (a : J2 K) (e : V2 K) : (a.apply e).x = a.a11 * e.x + a.a12 * e.y := rfl
theorem J2.apply_y (a : J2 K) (e : V2 K) : (a.apply e).y = a.a21 * e.x + a.a22 * e.y := rfl
theorem J2.scale_a11 (a : J2 K) (e : Cx K) : (a.scale e).a11 = a.a11 * e := rfl
theorem J2.scale_a12 (a : J2 K) (e : Cx K) : (a.scale e).a12 = a.a12 * e := rfl
theorem J2.scale_a21 (a : J2 K) (e : Cx K) : (a.scale e).a21 = a.a21 * e := rfl
theorem J2.scale_a22 (a : J2 K) (e : Cx K) : (a.scale e).a22 = a.a22 * e := rfl
theorem J2.det_def (a : J2 K) : a.det = a.a11 * a.a22 - a.a12 * a.a21 := rfl
theorem J2.mk_a11 (p q r s : Cx K) : (J2.mk p q r s).a11 = p := rfl
theorem J2.mk_a12 (p q r s : Cx K) : (J2.mk p q r s).a12 = q := rfl
theorem J2.mk_a21 (p q r s : Cx K) : (J2.mk p q r s).a21 = r := rfl
theorem J2.mk_a22 (p q r s : Cx K) : (J2.mk p q r s).a22 = s := rfl
end proj

/-! ### the pair model is ℂ -/

/-- The complex number denoted by a pair. -/
def Cx.toComplex (a : Cx ℝ) : ℂ := ⟨a.re, a.im⟩

theorem Cx.toComplex_add (a b : Cx ℝ) : (a + b).toComplex = a.toComplex + b.toComplex := by
  apply Complex.ext <;> simp [Cx.toComplex, Cx.add_re, Cx.add_im]

theorem Cx.toComplex_sub (a b : Cx ℝ) : (a - b).toComplex = a.toComplex - b.toComplex := by
  apply Complex.ext <;> simp [Cx.toComplex, Cx.sub_re, Cx.sub_im]

theorem Cx.toComplex_mul (a b : Cx ℝ) : (a * b).toComplex = a.toComplex * b.toComplex := by
  apply Complex.ext <;> simp [Cx.toComplex, Cx.mul_re, Cx.mul_im]

theorem Cx.toComplex_neg (a : Cx ℝ) : (-a).toComplex = -a.toComplex := by
  apply Complex.ext <;> simp [Cx.toComplex, Cx.neg_re, Cx.neg_im]

theorem Cx.toComplex_conj (a : Cx ℝ) : a.conj.toComplex = (starRingEnd ℂ) a.toComplex := by
  apply Complex.ext <;> simp [Cx.toComplex, Cx.conj_re, Cx.conj_im]

theorem Cx.toComplex_normSq (a : Cx ℝ) : a.normSq = Complex.normSq a.toComplex := by
  simp [Cx.toComplex, Cx.normSq, Complex.normSq_apply]

theorem Cx.toComplex_injective : Function.Injective Cx.toComplex := by
  intro a b h
  cases a; cases b
  simp only [Cx.toComplex, Complex.mk.injEq] at h
  obtain ⟨h1, h2⟩ := h
  subst h1; subst h2; rfl

end HcipyVerif.Jones
