import HcipyVerif.Lemmas.FftState
import HcipyVerif.Model.FftMulti

/-!
# A population of FFT objects with per-object arrays: every call has its stateless value
-/
set_option linter.unusedSimpArgs false
set_option linter.unusedVariables false
set_option linter.unusedSectionVars false

namespace HcipyVerif.Fft

variable {C : Type} [CommRing C]

/-- every object has a non-empty internal array that contains both of its windows -/
def PopOk (cfg : ℕ → ObjCfg) : Prop := ∀ i, 0 < (cfg i).M ∧ (cfg i).N ≤ (cfg i).M ∧ (cfg i).Mo ≤ (cfg i).M

theorem ObjCfg.src_le (o : ObjCfg) (h : o.N ≤ o.M ∧ o.Mo ≤ o.M) (b : Bool) : o.src b ≤ o.M := by
  unfold ObjCfg.src; cases b <;> simp [h.1, h.2]

theorem callResult_eq_fresh (cfg : ℕ → ObjCfg) (h : PopOk cfg) (ker : Bool → ℕ → ℤ → C)
    (bufs : Bufs C) (c : MCall C) : callResult cfg ker bufs c = callFresh cfg ker c := by
  funext k
  unfold callResult callFresh
  exact coreState_eq_core _ _ _ _ (h c.obj).1 ((cfg c.obj).src_le (h c.obj).2 c.back) _ _ _ k

theorem runOwn_eq_map (cfg : ℕ → ObjCfg) (h : PopOk cfg) (ker : Bool → ℕ → ℤ → C)
    (cs : List (MCall C)) : ∀ bufs : Bufs C, runOwn cfg ker bufs cs = cs.map (callFresh cfg ker) := by
  induction cs with
  | nil => intro b; rfl
  | cons c cs ih =>
    intro b
    simp only [runOwn, List.map_cons, callResult_eq_fresh cfg h, ih]

theorem callBufs_other (cfg : ℕ → ObjCfg) (bufs : Bufs C) (c : MCall C) (i : ℕ) (hi : i ≠ c.obj) :
    callBufs cfg bufs c i = bufs i := by
  unfold callBufs; rw [if_neg hi]

/-- the pooled variant: `A.forward(0)`, `B.backward(1)`, `A.forward(0)` on two objects `N = 1`, `M = Mo = 2`
with the trivial kernel: the third call returns `B`'s leftover instead of `0`. -/
theorem runPool_leftovers :
    ((runPool (fun _ => ⟨false, 1, 2, 2⟩) (fun _ _ _ => (1 : ℤ)) ⟨fun _ _ => 0, fun _ => false⟩
        [⟨0, false, fun _ => 0⟩, ⟨1, true, fun _ => 1⟩, ⟨0, false, fun _ => 0⟩]).map (fun r => r 0))
      = [0, 2, 1] := by
  decide

end HcipyVerif.Fft
