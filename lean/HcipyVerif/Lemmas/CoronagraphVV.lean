import HcipyVerif.Lemmas.Coronagraph
import HcipyVerif.Lemmas.CoronagraphMS

/-!
# Helper lemmas for C09, round 5

* `chromRunFrom_step`: the invariant of the per-wavelength instance cache.
* `expMasks_sum`: the level masks of the exact design add up to the mask.
* `residualF_eq_sub_sum`: on a pairwise-orthogonal list, successive removal = one orthogonal projection.
-/
set_option linter.unusedSimpArgs false
set_option linter.unusedVariables false
set_option linter.unusedSectionVars false

namespace HcipyVerif.Coronagraph

section Chrom
variable {K P : Type}

theorem chromRunFrom_step [BEq K] [LawfulBEq K] (param : K → P) (wls : List K) :
    ∀ cache : List (K × P), (∀ e ∈ cache, e.2 = param e.1) →
      chromRunFrom (chromStep param) cache wls = wls.map param := by
  induction wls with
  | nil => intro _ _; rfl
  | cons wl wls ih =>
    intro cache hinv
    have hstep : (chromStep param cache wl).1 = param wl ∧
        ∀ e ∈ (chromStep param cache wl).2, e.2 = param e.1 := by
      unfold chromStep chromLookup
      cases hf : cache.find? (fun e => e.1 == wl) with
      | none =>
        refine ⟨rfl, ?_⟩
        intro e he
        simp only [Option.map_none, List.mem_append, List.mem_singleton] at he
        rcases he with he | he
        · exact hinv e he
        · rw [he]
      | some e0 =>
        have hm := List.mem_of_find?_eq_some hf
        have hk := List.find?_some hf
        simp only [beq_iff_eq] at hk
        refine ⟨?_, hinv⟩
        simp only [Option.map_some]
        rw [hinv e0 hm, hk]
    simp only [chromRunFrom, List.map_cons, hstep.1, ih _ hstep.2]

end Chrom

section Partition
variable {K : Type} [CommRing K] {d : ℕ}

/-- The masks of the exact design add up to `m · u` (`u = 1` at the top): the windows
`(u − w₀), (w₀ − w₁), …, w_{L−2}` are a partition of `u`. -/
theorem expMasks_sum (m : Fin d → K) :
    ∀ (sps : List (Vector Bool d × Vector K d)) (u : Fin d → K), sps ≠ [] →
      (expMasks m u sps).sum = m * u := by
  intro sps
  induction sps with
  | nil => intro u h; exact absurd rfl h
  | cons sp sps ih =>
    intro u _
    cases sps with
    | nil => simp [expMasks]
    | cons sp' sps =>
      simp only [expMasks, List.sum_cons]
      rw [ih (toFn sp.2) (by simp)]
      ring

end Partition

section Projector
variable {K : Type} [Field K] {n : ℕ}

/-- The orthogonal projection onto the complement of a list: `x − Σ_u (⟨u,x⟩/⟨u,u⟩) u`. -/
def projOutList (us : List (Fin n → K)) (x : Fin n → K) : Fin n → K :=
  x - (us.map fun u => (ip u x / ip u u) • u).sum

theorem ip_sub_sum_orth (v : Fin n → K) (us : List (Fin n → K)) (c : (Fin n → K) → K)
    (h : ∀ u ∈ us, ip v u = 0) : ip v ((us.map fun u => c u • u).sum) = 0 := by
  induction us with
  | nil => simp [ip_zero_right]
  | cons u t ih =>
    simp only [List.map_cons, List.sum_cons, ip_add_right, ip_smul_right]
    rw [h u (by simp), ih (fun w hw => h w (by simp [hw]))]
    ring

/-- On a pairwise-orthogonal list, modified Gram–Schmidt removal (one vector after the other, each
coefficient computed from the current residual) is the orthogonal projection (all coefficients
computed from `x`). -/
theorem residualF_eq_projOutList (us : List (Fin n → K)) (hp : us.Pairwise Orth) (x : Fin n → K) :
    residualF us x = projOutList us x := by
  induction us generalizing x with
  | nil => simp [residualF, projOutList]
  | cons u t ih =>
    rw [List.pairwise_cons] at hp
    simp only [residualF]
    rw [ih hp.2]
    unfold projOutList
    have hco : ∀ v ∈ t, ip v (stepF u x) = ip v x := by
      intro v hv
      have : ip v u = 0 := by
        have := hp.1 v hv
        unfold Orth at this
        rw [ip_comm]; exact this
      unfold stepF
      rw [ip_sub_right, ip_smul_right, this]; ring
    have hmap : (t.map fun v => (ip v (stepF u x) / ip v v) • v) = t.map fun v => (ip v x / ip v v) • v := by
      apply List.map_congr_left
      intro v hv
      rw [hco v hv]
    rw [hmap]
    simp only [List.map_cons, List.sum_cons]
    unfold stepF
    abel

end Projector

end HcipyVerif.Coronagraph
