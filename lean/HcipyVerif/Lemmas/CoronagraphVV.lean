import HcipyVerif.Lemmas.Coronagraph
import HcipyVerif.Lemmas.CoronagraphMS
import HcipyVerif.Lemmas.CoronagraphMat

/-!
# Helper lemmas for C09, round 5

* `chromRunFrom_step`: the invariant of the per-wavelength instance cache.
* `expMasks_sum`: the level masks of the exact design add up to the mask.
* `residualF_eq_projOutList`: on a pairwise-orthogonal list, successive removal = one orthogonal projection.
* `toFn_msForward_comb`: the multi-scale constructor + `forward` are linear in the raw masks.
-/
set_option linter.unusedSimpArgs false
set_option linter.unusedVariables false
set_option linter.unusedSectionVars false

namespace HcipyVerif.Coronagraph

section Chrom
variable {K P : Type}

theorem chromRunFrom_step [BEq K] [LawfulBEq K] (param : K → P) (wls : List K) :
    ∀ cache : List (K × P), (∀ e ∈ cache, e.2 = param e.1) →
      chromRunFrom (chromStep param) cache wls = wls.map param := by
  induction wls with
  | nil => intro _ _; rfl
  | cons wl wls ih =>
    intro cache hinv
    have hstep : (chromStep param cache wl).1 = param wl ∧
        ∀ e ∈ (chromStep param cache wl).2, e.2 = param e.1 := by
      unfold chromStep chromLookup
      cases hf : cache.find? (fun e => e.1 == wl) with
      | none =>
        refine ⟨rfl, ?_⟩
        intro e he
        simp only [Option.map_none, List.mem_append, List.mem_singleton] at he
        rcases he with he | he
        · exact hinv e he
        · rw [he]
      | some e0 =>
        have hm := List.mem_of_find?_eq_some hf
        have hk := List.find?_some hf
        simp only [beq_iff_eq] at hk
        refine ⟨?_, hinv⟩
        simp only [Option.map_some]
        rw [hinv e0 hm, hk]
    simp only [chromRunFrom, List.map_cons, hstep.1, ih _ hstep.2]

/-- One step of the per-wavelength cache keeps the invariant "every cached instance holds the parameter
of its own wavelength" and returns the parameter of the requested wavelength. -/
theorem chromStep_inv [BEq K] [LawfulBEq K] (param : K → P) (cache : List (K × P)) (wl : K)
    (hinv : ∀ e ∈ cache, e.2 = param e.1) :
    (chromStep param cache wl).1 = param wl ∧ ∀ e ∈ (chromStep param cache wl).2, e.2 = param e.1 := by
  unfold chromStep chromLookup
  cases hf : cache.find? (fun e => e.1 == wl) with
  | none =>
    refine ⟨rfl, ?_⟩
    intro e he
    simp only [Option.map_none, List.mem_append, List.mem_singleton] at he
    rcases he with he | he
    · exact hinv e he
    · rw [he]
  | some e0 =>
    have hm := List.mem_of_find?_eq_some hf
    have hk := List.find?_some hf
    simp only [beq_iff_eq] at hk
    refine ⟨?_, hinv⟩
    simp only [Option.map_some]
    rw [hinv e0 hm, hk]

/-- Invariant of a setter history: whatever was assigned and used before, every cached instance holds the
*current* parameter at its own wavelength (an assignment empties the cache). -/
theorem setRunFrom_step [BEq K] [LawfulBEq K] (evs : List (Ev K P)) :
    ∀ st : ObjSt K P, (∀ e ∈ st.cache, e.2 = st.param.eval e.1) →
      setRunFrom setStep st evs = setSpec st.param evs := by
  induction evs with
  | nil => intro _ _; rfl
  | cons ev evs ih =>
    intro st hinv
    cases ev with
    | use wl =>
      have h := chromStep_inv st.param.eval st.cache wl hinv
      have h2 := ih ⟨st.param, (chromStep st.param.eval st.cache wl).2, st.builtConst⟩ h.2
      simp only [setRunFrom, setStep, setSpec, h.1]
      exact congrArg _ h2
    | set p =>
      have h2 := ih ⟨p, [], st.builtConst⟩ (by intro e he; cases he)
      simp only [setRunFrom, setStep, setSpec]
      exact h2

end Chrom

section Partition
variable {K : Type} [CommRing K] {d : ℕ}

/-- The masks of the exact design add up to `m · u` (`u = 1` at the top): the windows
`(u − w₀), (w₀ − w₁), …, w_{L−2}` are a partition of `u`. -/
theorem expMasks_sum (m : Fin d → K) :
    ∀ (sps : List (Vector Bool d × Vector K d)) (u : Fin d → K), sps ≠ [] →
      (expMasks m u sps).sum = m * u := by
  intro sps
  induction sps with
  | nil => intro u h; exact absurd rfl h
  | cons sp sps ih =>
    intro u _
    cases sps with
    | nil => simp [expMasks]
    | cons sp' sps =>
      simp only [expMasks, List.sum_cons]
      rw [ih (toFn sp.2) (by simp)]
      ring

end Partition

section Projector
variable {K : Type} [Field K] {n : ℕ}

/-- The orthogonal projection onto the complement of a list: `x − Σ_u (⟨u,x⟩/⟨u,u⟩) u`. -/
def projOutList (us : List (Fin n → K)) (x : Fin n → K) : Fin n → K :=
  x - (us.map fun u => (ip u x / ip u u) • u).sum

theorem ip_sub_sum_orth (v : Fin n → K) (us : List (Fin n → K)) (c : (Fin n → K) → K)
    (h : ∀ u ∈ us, ip v u = 0) : ip v ((us.map fun u => c u • u).sum) = 0 := by
  induction us with
  | nil => simp [ip_zero_right]
  | cons u t ih =>
    simp only [List.map_cons, List.sum_cons, ip_add_right, ip_smul_right]
    rw [h u (by simp), ih (fun w hw => h w (by simp [hw]))]
    ring

/-- On a pairwise-orthogonal list, modified Gram–Schmidt removal (one vector after the other, each
coefficient computed from the current residual) is the orthogonal projection (all coefficients
computed from `x`). -/
theorem residualF_eq_projOutList (us : List (Fin n → K)) (hp : us.Pairwise Orth) (x : Fin n → K) :
    residualF us x = projOutList us x := by
  induction us generalizing x with
  | nil => simp [residualF, projOutList]
  | cons u t ih =>
    rw [List.pairwise_cons] at hp
    simp only [residualF]
    rw [ih hp.2]
    unfold projOutList
    have hco : ∀ v ∈ t, ip v (stepF u x) = ip v x := by
      intro v hv
      have : ip v u = 0 := by
        have := hp.1 v hv
        unfold Orth at this
        rw [ip_comm]; exact this
      unfold stepF
      rw [ip_sub_right, ip_smul_right, this]; ring
    have hmap : (t.map fun v => (ip v (stepF u x) / ip v v) • v) = t.map fun v => (ip v x / ip v v) • v := by
      apply List.map_congr_left
      intro v hv
      rw [hco v hv]
    rw [hmap]
    simp only [List.map_cons, List.sum_cons]
    unfold stepF
    abel

end Projector

section Lin
open Finset
variable {K : Type} [CommRing K] {d n : ℕ}

/-- `a·x + b·y`, sample by sample. -/
def comb (a b : K) (x y : Vector K d) : Vector K d := Vector.ofFn fun p => a * x[p] + b * y[p]

theorem toFn_comb (a b : K) (x y : Vector K d) : toFn (comb a b x y) = a • toFn x + b • toFn y := by
  funext p; simp [comb, toFn]

theorem toFn_matVec_comb {m : ℕ} (a b : K) (R : Vector (Vector K d) m) (x y : Vector K d) :
    toFn (matVec R (comb a b x y)) = a • toFn (matVec R x) + b • toFn (matVec R y) := by
  simp only [toFn_matVec, toFn_comb]
  funext r
  simp only [Pi.add_apply, Pi.smul_apply, smul_eq_mul, mul_add, Finset.sum_add_distrib, Finset.mul_sum]
  congr 1 <;> (apply Finset.sum_congr rfl; intro i _; ring)

theorem subCorrections_comb (a b : K) : ∀ (Rs : List (Vector (Vector K d) d)) (ps : List (Vector K d × Vector K d))
    (acc1 acc2 : Vector K d),
    toFn (subCorrections (comb a b acc1 acc2) Rs (ps.map fun q => comb a b q.1 q.2)) =
      a • toFn (subCorrections acc1 Rs (ps.map (·.1))) + b • toFn (subCorrections acc2 Rs (ps.map (·.2))) := by
  intro Rs
  induction Rs with
  | nil => intro ps acc1 acc2; simp [subCorrections, toFn_comb]
  | cons R Rs ih =>
    intro ps acc1 acc2
    cases ps with
    | nil => simp [subCorrections, toFn_comb]
    | cons q ps =>
      simp only [List.map_cons, subCorrections]
      have hacc : (Vector.ofFn fun p => (comb a b acc1 acc2)[p] - (matVec R (comb a b q.1 q.2))[p]) =
          comb a b (Vector.ofFn fun p => acc1[p] - (matVec R q.1)[p]) (Vector.ofFn fun p => acc2[p] - (matVec R q.2)[p]) := by
        apply toFn_injective
        rw [toFn_comb]
        funext p
        have h1 := congrFun (toFn_matVec_comb a b R q.1 q.2) p
        have h2 := congrFun (toFn_comb a b acc1 acc2) p
        simp only [toFn, Pi.add_apply, Pi.smul_apply, smul_eq_mul] at h1 h2
        rw [toFn_ofFn]
        rw [toFn_ofFn, toFn_ofFn]
        simp only [Pi.add_apply, Pi.smul_apply, smul_eq_mul, h1, h2]
        ring
      rw [hacc, ih]

/-- the level with another raw mask -/
def withRaw (l : MSLevel K d n) (r : Vector K d) : MSLevel K d n := { l with raw := r }

abbrev Trip (K : Type) (d n : ℕ) := MSLevel K d n × Vector K d × Vector K d

def mk1 (t : Trip K d n) : MSLevel K d n := withRaw t.1 t.2.1
def mk2 (t : Trip K d n) : MSLevel K d n := withRaw t.1 t.2.2
def mkc (a b : K) (t : Trip K d n) : MSLevel K d n := withRaw t.1 (comb a b t.2.1 t.2.2)

theorem msMask_comb (a b : K) (t : Trip K d n) (last : Bool) (ps : List (Vector K d × Vector K d)) :
    msMask (mkc a b t) last (ps.map fun q => comb a b q.1 q.2) =
      comb a b (msMask (mk1 t) last (ps.map (·.1))) (msMask (mk2 t) last (ps.map (·.2))) := by
  apply toFn_injective
  rw [toFn_comb]
  unfold msMask
  have hm0 : (if last then (mkc a b t).raw else Vector.ofFn fun p => (mkc a b t).raw[p] * (1 - (mkc a b t).win[p])) =
      comb a b (if last then (mk1 t).raw else Vector.ofFn fun p => (mk1 t).raw[p] * (1 - (mk1 t).win[p]))
        (if last then (mk2 t).raw else Vector.ofFn fun p => (mk2 t).raw[p] * (1 - (mk2 t).win[p])) := by
    cases last
    · apply toFn_injective
      rw [toFn_comb]
      funext p
      have h2 := congrFun (toFn_comb a b t.2.1 t.2.2) p
      simp only [toFn, Pi.add_apply, Pi.smul_apply, smul_eq_mul] at h2
      simp only [Bool.false_eq_true, if_false, toFn_ofFn, Pi.add_apply, Pi.smul_apply, smul_eq_mul]
      show (comb a b t.2.1 t.2.2)[p] * (1 - t.1.win[p]) = a * (t.2.1[p] * (1 - t.1.win[p])) + b * (t.2.2[p] * (1 - t.1.win[p]))
      rw [h2]; ring
    · simp only [if_true]; rfl
  show toFn (subCorrections _ t.1.R _) = a • toFn (subCorrections _ t.1.R _) + b • toFn (subCorrections _ t.1.R _)
  rw [hm0, subCorrections_comb]

theorem msMasksAux_comb (a b : K) : ∀ (ts : List (Trip K d n)) (ps : List (Vector K d × Vector K d)),
    ∃ qs : List (Vector K d × Vector K d),
      msMasksAux (ps.map (·.1)) (ts.map mk1) = qs.map (·.1) ∧
      msMasksAux (ps.map (·.2)) (ts.map mk2) = qs.map (·.2) ∧
      msMasksAux (ps.map fun q => comb a b q.1 q.2) (ts.map (mkc a b)) = qs.map fun q => comb a b q.1 q.2 := by
  intro ts
  induction ts with
  | nil => intro ps; exact ⟨ps, rfl, rfl, rfl⟩
  | cons t ts ih =>
    intro ps
    obtain ⟨qs, h1, h2, h3⟩ := ih (ps ++ [(msMask (mk1 t) ts.isEmpty (ps.map (·.1)), msMask (mk2 t) ts.isEmpty (ps.map (·.2)))])
    refine ⟨qs, ?_, ?_, ?_⟩
    · simp only [List.map_cons, msMasksAux, List.isEmpty_map]
      simpa using h1
    · simp only [List.map_cons, msMasksAux, List.isEmpty_map]
      simpa using h2
    · simp only [List.map_cons, msMasksAux, List.isEmpty_map]
      rw [msMask_comb]
      simpa using h3

theorem toFn_msTerm_comb (a b : K) (l : MSLevel K d n) (M1 M2 : Vector K d) (E : Vector K n) :
    toFn (msTerm l (comb a b M1 M2) E) = a • toFn (msTerm l M1 E) + b • toFn (msTerm l M2 E) := by
  unfold msTerm
  have h : (Vector.ofFn fun p => (matVec l.F E)[p] * (comb a b M1 M2)[p]) =
      comb a b (Vector.ofFn fun p => (matVec l.F E)[p] * M1[p]) (Vector.ofFn fun p => (matVec l.F E)[p] * M2[p]) := by
    apply toFn_injective
    rw [toFn_comb]
    funext p
    have h2 := congrFun (toFn_comb a b M1 M2) p
    simp only [toFn, Pi.add_apply, Pi.smul_apply, smul_eq_mul] at h2
    simp only [toFn_ofFn, Pi.add_apply, Pi.smul_apply, smul_eq_mul, h2]
    ring
  simp only [h, toFn_matVec_comb]

theorem toFn_msSum_comb (a b : K) (E : Vector K n) : ∀ (ts : List (Trip K d n)) (qs : List (Vector K d × Vector K d)),
    toFn (msSum (ts.map (mkc a b)) (qs.map fun q => comb a b q.1 q.2) E) =
      a • toFn (msSum (ts.map mk1) (qs.map (·.1)) E) + b • toFn (msSum (ts.map mk2) (qs.map (·.2)) E) := by
  intro ts
  induction ts with
  | nil => intro qs; simp [msSum, toFn_zeroVec]
  | cons t ts ih =>
    intro qs
    cases qs with
    | nil => simp [msSum, toFn_zeroVec]
    | cons q qs =>
      simp only [List.map_cons, msSum, toFn_ofFn]
      have ht : toFn (msTerm (mkc a b t) (comb a b q.1 q.2) E) = a • toFn (msTerm (mk1 t) q.1 E) + b • toFn (msTerm (mk2 t) q.2 E) :=
        toFn_msTerm_comb a b t.1 q.1 q.2 E
      funext i
      have h1 := congrFun ht i
      have h2 := congrFun (ih qs) i
      simp only [toFn, Pi.add_apply, Pi.smul_apply, smul_eq_mul] at h1 h2
      simp only [Pi.add_apply, Pi.smul_apply, smul_eq_mul, toFn, h1, h2]
      ring

theorem toFn_msForward_comb (a b : K) (ts : List (Trip K d n)) (stop : Option (Vector K n)) (E : Vector K n) :
    toFn (msForward (ts.map (mkc a b)) stop E) =
      a • toFn (msForward (ts.map mk1) stop E) + b • toFn (msForward (ts.map mk2) stop E) := by
  obtain ⟨qs, h1, h2, h3⟩ := msMasksAux_comb a b ts ([] : List (Vector K d × Vector K d))
  have hs := toFn_msSum_comb a b E ts qs
  simp only [List.map_nil] at h1 h2 h3
  unfold msForward msMasks
  rw [h1, h2, h3]
  cases stop with
  | none => exact hs
  | some s =>
    simp only [toFn_ofFn]
    funext i
    have h := congrFun hs i
    simp only [toFn, Pi.add_apply, Pi.smul_apply, smul_eq_mul] at h
    simp only [Pi.add_apply, Pi.smul_apply, smul_eq_mul, toFn, h]
    ring
end Lin

end HcipyVerif.Coronagraph
