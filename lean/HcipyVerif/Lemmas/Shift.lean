import HcipyVerif.Model.Shift
import Mathlib.Tactic.Ring
import Mathlib.Algebra.Ring.Defs

/-! Helper lemmas for C15: the spectral phase ramp sits at the right flat index; row-major index
lemmas for `shaped` / `ravel` / `hstackNew` / `vstackNew` / `flip2`. -/
set_option linter.unusedSimpArgs false
set_option linter.unusedVariables false

namespace HcipyVerif.Shift

variable {K F : Type} 

theorem zipWith_const_right {α β γ} (f : α → β → γ) (l : List α) (b : β) :
    List.zipWith f l (l.map fun _ => b) = l.map fun a => f a b := by
  induction l with
  | nil => rfl
  | cons a l ih => simp [ih]

/-- axis order: the repaired phase array carries, at every flat index, `sx·x_j + sy·y_j`
for the grid point `(x_j, y_j)` stored at that index. -/
theorem phases_eq_grid [Add K] [Mul K] (sx sy : K) (kx ky : List K) :
    phases sx sy kx ky = List.zipWith (fun a b => sy * b + sx * a) (gridX kx ky) (gridY kx ky) := by
  unfold phases ixSumRavel gridX gridY
  induction ky with
  | nil => rfl
  | cons b ky ih =>
    simp only [List.map_cons, List.flatMap_cons]
    rw [List.zipWith_append (by simp), ← ih, zipWith_const_right]
    simp [List.map_map, Function.comp_def]

theorem zipSum3_shift [CommRing K] [CommRing F] (χ : K → F) (hχ : ∀ a b, χ (a + b) = χ a * χ b)
    (sx sy x y : K) : ∀ (C : List F) (A B : List K),
    zipSum3 (fun c a b => c * χ (a * x + b * y))
        (applyShift χ C (List.zipWith (fun a b => sy * b + sx * a) A B)) A B
      = zipSum3 (fun c a b => c * χ (a * (x - sx) + b * (y - sy))) C A B
  | [], _, _ => by simp [applyShift, zipSum3]
  | _ :: _, [], _ => by simp [applyShift, zipSum3]
  | _ :: _, _ :: _, [] => by simp [applyShift, zipSum3]
  | c :: C, a :: A, b :: B => by
    have ih := zipSum3_shift χ hχ sx sy x y C A B
    simp only [applyShift] at ih ⊢
    simp only [List.zipWith_cons_cons, zipSum3, ih]
    congr 1
    rw [mul_assoc, ← hχ]
    congr 2
    ring


variable {α : Type}

/-- element `(iy, ix)` of a list of rows -/
def at2 (rows : List (List α)) (iy ix : Nat) : Option α := rows[iy]?.bind (·[ix]?)

theorem shaped_length (W H : Nat) (s : List α) : (shaped W H s).length = H := by
  induction H generalizing s with
  | zero => rfl
  | succ H ih => simp [shaped, ih]

theorem shaped_row_length (W H : Nat) (s : List α) (hs : s.length = H * W) :
    ∀ r ∈ shaped W H s, r.length = W := by
  induction H generalizing s with
  | zero => simp [shaped]
  | succ H ih =>
    intro r hr
    simp only [shaped, List.mem_cons] at hr
    rcases hr with rfl | hr
    · simp [List.length_take]; rw [hs, Nat.succ_mul]; omega
    · exact ih (s.drop W) (by simp [hs, Nat.succ_mul]) r hr

/-- `.shaped`: row-major index theorem -/
theorem at2_shaped (W H : Nat) (s : List α) (iy ix : Nat) (hy : iy < H) (hx : ix < W) :
    at2 (shaped W H s) iy ix = s[iy * W + ix]? := by
  induction H generalizing s iy with
  | zero => omega
  | succ H ih =>
    cases iy with
    | zero => simp [at2, shaped, List.getElem?_take, hx]
    | succ iy =>
      have := ih (s.drop W) iy (by omega)
      simp only [at2, shaped, List.getElem?_cons_succ] at this ⊢
      rw [this, List.getElem?_drop]
      congr 1
      rw [Nat.succ_mul]; omega

/-- `.ravel()`: row-major index theorem -/
theorem ravel_at2 (W : Nat) (rows : List (List α)) (hr : ∀ r ∈ rows, r.length = W) (iy ix : Nat)
    (hx : ix < W) : (ravel rows)[iy * W + ix]? = at2 rows iy ix := by
  induction rows generalizing iy with
  | nil => simp [ravel, at2]
  | cons r rows ih =>
    have hrl : r.length = W := hr r (by simp)
    cases iy with
    | zero =>
      simp only [ravel, List.flatten_cons, at2, Nat.zero_mul, Nat.zero_add, List.getElem?_cons_zero, Option.bind_some]
      rw [List.getElem?_append_left (by omega)]
    | succ iy =>
      have := ih (fun r hr' => hr r (by simp [hr'])) iy
      simp only [ravel, List.flatten_cons, at2, List.getElem?_cons_succ] at this ⊢
      rw [List.getElem?_append_right (by rw [hrl, Nat.succ_mul]; omega), ← this]
      congr 1
      rw [hrl, Nat.succ_mul]; omega



theorem hstackNew_length (new : List α) (rows : List (List α)) (h : new.length = rows.length) :
    (hstackNew new rows).length = rows.length := by simp [hstackNew, h]

theorem hstackNew_row_length (W : Nat) (hW : 0 < W) (new : List α) (rows : List (List α))
    (hr : ∀ r ∈ rows, r.length = W) : ∀ r ∈ hstackNew new rows, r.length = W := by
  intro r hmem
  simp only [hstackNew] at hmem
  obtain ⟨i, hi, rfl⟩ := List.getElem_of_mem hmem
  have hi2 : i < rows.length := by simp at hi; omega
  simp only [List.getElem_zipWith, List.length_cons, List.length_dropLast]
  have : rows[i].length = W := hr _ (List.getElem_mem hi2)
  omega

theorem at2_hstackNew_zero (new : List α) (rows : List (List α)) (h : new.length = rows.length) (iy : Nat) :
    at2 (hstackNew new rows) iy 0 = new[iy]? := by
  simp only [at2, hstackNew, List.getElem?_zipWith]
  rcases hn : new[iy]? with _ | a
  · simp
  · have : iy < rows.length := by
      have := (List.getElem?_eq_some_iff.mp hn).1; omega
    simp [List.getElem?_eq_getElem this]

theorem at2_hstackNew_succ (W : Nat) (new : List α) (rows : List (List α)) (h : new.length = rows.length)
    (hr : ∀ r ∈ rows, r.length = W) (iy ix : Nat) (hx : ix + 1 < W) :
    at2 (hstackNew new rows) iy (ix + 1) = at2 rows iy ix := by
  simp only [at2, hstackNew, List.getElem?_zipWith]
  rcases hrow : rows[iy]? with _ | r
  · simp
  · have hlt := (List.getElem?_eq_some_iff.mp hrow).1
    have hrl : r.length = W := hr r (List.mem_of_getElem? hrow)
    have : iy < new.length := by omega
    simp [List.getElem?_eq_getElem this, List.getElem?_dropLast, hrl, show ix < W - 1 by omega]

theorem vstackNew_length (new : List α) (rows : List (List α)) (h : 0 < rows.length) :
    (vstackNew new rows).length = rows.length := by simp [vstackNew]; omega

theorem vstackNew_row_length (W : Nat) (new : List α) (hn : new.length = W) (rows : List (List α))
    (hr : ∀ r ∈ rows, r.length = W) : ∀ r ∈ vstackNew new rows, r.length = W := by
  intro r hmem
  simp only [vstackNew, List.mem_cons] at hmem
  rcases hmem with rfl | hmem
  · exact hn
  · exact hr r (List.dropLast_subset _ hmem)

theorem at2_vstackNew_zero (new : List α) (rows : List (List α)) (ix : Nat) :
    at2 (vstackNew new rows) 0 ix = new[ix]? := by simp [at2, vstackNew]

theorem at2_vstackNew_succ (new : List α) (rows : List (List α)) (iy ix : Nat) (hy : iy + 1 < rows.length) :
    at2 (vstackNew new rows) (iy + 1) ix = at2 rows iy ix := by
  simp [at2, vstackNew, List.getElem?_dropLast, show iy < rows.length - 1 by omega,
    List.getElem?_eq_getElem (show iy < rows.length by omega)]

theorem flip2_length (rows : List (List α)) : (flip2 rows).length = rows.length := by simp [flip2]

theorem flip2_row_length (W : Nat) (rows : List (List α)) (hr : ∀ r ∈ rows, r.length = W) :
    ∀ r ∈ flip2 rows, r.length = W := by
  intro r hmem
  simp only [flip2, List.mem_reverse, List.mem_map] at hmem
  obtain ⟨r', hr', rfl⟩ := hmem
  simp [hr r' hr']

/-- `screen[::-1, ::-1]` -/
theorem at2_flip2 (W : Nat) (rows : List (List α)) (hr : ∀ r ∈ rows, r.length = W) (iy ix : Nat)
    (hy : iy < rows.length) (hx : ix < W) :
    at2 (flip2 rows) iy ix = at2 rows (rows.length - 1 - iy) (W - 1 - ix) := by
  simp only [at2, flip2]
  rw [List.getElem?_reverse (by simpa using hy)]
  simp only [List.length_map, List.getElem?_map]
  have h2 : rows.length - 1 - iy < rows.length := by omega
  rw [List.getElem?_eq_getElem h2]
  have hrl : rows[rows.length - 1 - iy].length = W := hr _ (List.getElem_mem _)
  simp only [Option.map_some, Option.bind_some]
  rw [List.getElem?_reverse (by omega), hrl]


theorem length_ravel (W H : Nat) (rows : List (List α)) (hl : rows.length = H)
    (hr : ∀ r ∈ rows, r.length = W) : (ravel rows).length = H * W := by
  induction rows generalizing H with
  | nil => simp [ravel] at hl ⊢; subst hl; simp
  | cons r rows ih =>
    have := ih (H - 1) (by simp at hl; omega) (fun r' hr' => hr r' (by simp [hr']))
    simp only [ravel, List.flatten_cons, List.length_append] at this ⊢
    rw [this, hr r (by simp)]
    obtain ⟨p, rfl⟩ : ∃ p, H = p + 1 := ⟨rows.length, by simp at hl; omega⟩
    simp [Nat.succ_mul]; omega

/-- a retained sample at `(ix', iy')` is found at `(ix' + ox, iy' + oy)` after `_extrude(w)` -/
def Where.off : Where → Int × Int
  | .left => (1, 0) | .right => (-1, 0) | .bottom => (0, 1) | .top => (0, -1)

def Where.slice (w : Where) (W H : Nat) : Nat := if w.horizontal then H else W


theorem extrude_length (w : Where) (W H : Nat) (new s : List α) (hs : s.length = H * W)
    (hn : new.length = w.slice W H) (hW : 0 < W) (hH : 0 < H) :
    (extrude w W H new s).length = H * W := by
  have hsr : s.reverse.length = H * W := by simpa using hs
  cases w <;> simp only [extrude, Where.flipped, Where.horizontal, Where.slice, if_true, if_false,
    Bool.false_eq_true] at hn ⊢
  · exact length_ravel W H _ (by rw [hstackNew_length _ _ (by rw [shaped_length]; exact hn), shaped_length])
      (hstackNew_row_length W hW new _ (shaped_row_length W H s hs))
  · refine length_ravel W H _ ?_ (flip2_row_length W _ (hstackNew_row_length W hW new _ (shaped_row_length W H _ hsr)))
    rw [flip2_length, hstackNew_length _ _ (by rw [shaped_length]; exact hn), shaped_length]
  · refine length_ravel W H _ ?_ (flip2_row_length W _ (vstackNew_row_length W new hn _ (shaped_row_length W H _ hsr)))
    rw [flip2_length, vstackNew_length _ _ (by rw [shaped_length]; exact hH), shaped_length]
  · exact length_ravel W H _ (by rw [vstackNew_length _ _ (by rw [shaped_length]; exact hH), shaped_length])
      (vstackNew_row_length W new hn _ (shaped_row_length W H s hs))


/-- the character `n ↦ (−1)^n` of the integers -/
def parity (n : Int) : Int := if n % 2 = 0 then 1 else -1

theorem parity_add (a b : Int) : parity (a + b) = parity a * parity b := by
  unfold parity
  rcases Int.emod_two_eq_zero_or_one a with ha | ha <;> rcases Int.emod_two_eq_zero_or_one b with hb | hb <;>
    simp [Int.add_emod, ha, hb]


theorem mem_gridX {kx ky : List K} {a : K} (h : a ∈ gridX kx ky) : a ∈ kx := by
  simp only [gridX, List.mem_flatMap] at h
  obtain ⟨_, _, h⟩ := h; exact h

theorem mem_gridY {kx ky : List K} {b : K} (h : b ∈ gridY kx ky) : b ∈ ky := by
  simp only [gridY, List.mem_flatMap, List.mem_map] at h
  obtain ⟨b', hb', _, _, rfl⟩ := h; exact hb'

/-- two successive phase ramps multiply to the ramp of the summed shift (no reduction of the shift anywhere) -/
theorem applyShift_applyShift [CommRing K] [CommRing F] (χ : K → F) (hχ : ∀ a b, χ (a + b) = χ a * χ b)
    (sx sy tx ty : K) : ∀ (C : List F) (A B : List K),
    applyShift χ (applyShift χ C (List.zipWith (fun a b => sy * b + sx * a) A B))
        (List.zipWith (fun a b => ty * b + tx * a) A B)
      = applyShift χ C (List.zipWith (fun a b => (sy + ty) * b + (sx + tx) * a) A B)
  | [], _, _ => by simp [applyShift]
  | _ :: _, [], _ => by simp [applyShift]
  | _ :: _, _ :: _, [] => by simp [applyShift]
  | c :: C, a :: A, b :: B => by
    have ih := applyShift_applyShift χ hχ sx sy tx ty C A B
    simp only [applyShift] at ih ⊢
    simp only [List.zipWith_cons_cons, ih, List.cons.injEq, and_true]
    rw [mul_assoc, ← hχ]
    congr 2
    ring

/-- if the character is 1 on `P·k` for every frequency pair of the lattice, adding `P` to the shift changes nothing -/
theorem applyShift_period [CommRing K] [CommRing F] (χ : K → F) (hχ : ∀ a b, χ (a + b) = χ a * χ b)
    (sx sy px py : K) : ∀ (C : List F) (A B : List K),
    (∀ a ∈ A, ∀ b ∈ B, χ (-(py * b + px * a)) = 1) →
    applyShift χ C (List.zipWith (fun a b => (sy + py) * b + (sx + px) * a) A B)
      = applyShift χ C (List.zipWith (fun a b => sy * b + sx * a) A B)
  | [], _, _, _ => by simp [applyShift]
  | _ :: _, [], _, _ => by simp [applyShift]
  | _ :: _, _ :: _, [], _ => by simp [applyShift]
  | c :: C, a :: A, b :: B, h => by
    have ih := applyShift_period χ hχ sx sy px py C A B
      (fun a' ha' b' hb' => h a' (by simp [ha']) b' (by simp [hb']))
    simp only [applyShift] at ih ⊢
    simp only [List.zipWith_cons_cons, ih, List.cons.injEq, and_true]
    have h1 := h a (by simp) b (by simp)
    have : -((sy + py) * b + (sx + px) * a) = -(sy * b + sx * a) + -(py * b + px * a) := by ring
    rw [this, hχ, h1, mul_one]


end HcipyVerif.Shift
