import HcipyVerif.Lemmas.ZernikeIndex
import Mathlib.Analysis.SpecialFunctions.Sqrt
import Mathlib.Algebra.Order.Floor.Ring
import Mathlib.Tactic.Positivity
import Mathlib.Tactic.FieldSimp
import Mathlib.Tactic.NormNum

/-! Helper lemmas for C13: the exact integer decisions of the index-map model (`roundSqrt`, `Nat.sqrt`) are the floor of the
code's real expressions `sqrt(2i-1) + 0.5` and `(sqrt(8i+1) - 1)/2`, **with a margin**: every real `y` close enough to the
exact value has the same floor, so a floating-point evaluation with a small relative error takes the same decision. -/

set_option linter.unusedSimpArgs false
set_option linter.unusedVariables false

namespace HcipyVerif.Zernike

theorem roundSqrt_floor_robust (k : ℕ) (hk : 1 ≤ k) (y : ℝ)
    (hy : |y - (√(k : ℝ) + 1 / 2)| < 1 / (8 * (roundSqrt k : ℝ) + 4)) : ⌊y⌋₊ = roundSqrt k := by
  obtain ⟨h0, h1, h2⟩ := roundSqrt_spec k hk
  set j := roundSqrt k with hj
  have hj1 : (1 : ℝ) ≤ j := by exact_mod_cast h0
  have hlo : (j : ℝ) * j + 1 ≤ (k : ℝ) + j := by exact_mod_cast h1
  have hhi : (k : ℝ) ≤ (j : ℝ) * j + j := by exact_mod_cast h2
  have hden : (0 : ℝ) < 8 * (j : ℝ) + 4 := by linarith
  obtain ⟨ε, hε⟩ : ∃ ε : ℝ, ε = 1 / (8 * (j : ℝ) + 4) := ⟨_, rfl⟩
  have hεpos : 0 < ε := by rw [hε]; positivity
  have hεmul : ε * (8 * (j : ℝ) + 4) = 1 := by rw [hε]; field_simp
  rw [← hε] at hy
  have hs0 : 0 ≤ √(k : ℝ) := Real.sqrt_nonneg _
  have hss : √(k : ℝ) * √(k : ℝ) = k := Real.mul_self_sqrt (by positivity)
  obtain ⟨hy1, hy2⟩ := abs_lt.mp hy
  have hεle : ε ≤ 1 / 12 := by
    rw [hε, div_le_div_iff_of_pos_left (by norm_num) hden (by norm_num)]; linarith
  -- lower: j - 1/2 + ε ≤ √k
  have hA : (j : ℝ) - 1 / 2 + ε ≤ √(k : ℝ) := by
    by_contra hc
    push Not at hc
    have hpos : 0 ≤ (j : ℝ) - 1 / 2 + ε := by linarith
    have : √(k : ℝ) * √(k : ℝ) < ((j : ℝ) - 1 / 2 + ε) * ((j : ℝ) - 1 / 2 + ε) := by nlinarith
    nlinarith
  -- upper: √k ≤ j + 1/2 - ε
  have hB : √(k : ℝ) ≤ (j : ℝ) + 1 / 2 - ε := by
    by_contra hc
    push Not at hc
    have hpos : 0 ≤ (j : ℝ) + 1 / 2 - ε := by linarith
    have : ((j : ℝ) + 1 / 2 - ε) * ((j : ℝ) + 1 / 2 - ε) < √(k : ℝ) * √(k : ℝ) := by nlinarith
    nlinarith
  have hy0 : 0 ≤ y := by linarith
  rw [Nat.floor_eq_iff hy0]
  constructor <;> linarith

theorem roundSqrt_le_sqrt (k : ℕ) (hk : 1 ≤ k) : (roundSqrt k : ℝ) ≤ √(k : ℝ) + 1 / 2 := by
  obtain ⟨h0, h1, h2⟩ := roundSqrt_spec k hk
  set j := roundSqrt k with hj
  have hj1 : (1 : ℝ) ≤ j := by exact_mod_cast h0
  have hlo : (j : ℝ) * j + 1 ≤ (k : ℝ) + j := by exact_mod_cast h1
  have hs0 : 0 ≤ √(k : ℝ) := Real.sqrt_nonneg _
  have hss : √(k : ℝ) * √(k : ℝ) = k := Real.mul_self_sqrt (by positivity)
  by_contra hc
  push Not at hc
  have : √(k : ℝ) * √(k : ℝ) < ((j : ℝ) - 1 / 2) * ((j : ℝ) - 1 / 2) := by nlinarith
  nlinarith

/-- concrete float reading: relative error `2^-52`, argument below `2^48` -/
theorem nollN_float_safe (i : ℕ) (hi : 1 ≤ i) (hb : 2 * i - 1 < 2 ^ 48) (y : ℝ)
    (hy : |y - (√((2 * i - 1 : ℕ) : ℝ) + 1 / 2)| ≤ (√((2 * i - 1 : ℕ) : ℝ) + 1 / 2) / 2 ^ 52) :
    ⌊y⌋₊ - 1 = nollN i := by
  unfold nollN
  have hk : 1 ≤ 2 * i - 1 := by omega
  rw [roundSqrt_floor_robust (2 * i - 1) hk y]
  refine lt_of_le_of_lt hy ?_
  have hj := roundSqrt_le_sqrt (2 * i - 1) hk
  have hj0 : (0 : ℝ) ≤ roundSqrt (2 * i - 1) := by positivity
  have hs0 : 0 ≤ √((2 * i - 1 : ℕ) : ℝ) := Real.sqrt_nonneg _
  have hs : √((2 * i - 1 : ℕ) : ℝ) < 2 ^ 24 := by
    rw [Real.sqrt_lt' (by positivity)]
    have : ((2 * i - 1 : ℕ) : ℝ) < ((2 ^ 48 : ℕ) : ℝ) := by exact_mod_cast hb
    calc ((2 * i - 1 : ℕ) : ℝ) < ((2 ^ 48 : ℕ) : ℝ) := this
      _ = (2 ^ 24) ^ 2 := by norm_num
  rw [div_lt_div_iff₀ (by positivity) (by positivity), one_mul]
  nlinarith

theorem ansi_floor_robust (i : ℕ) (y : ℝ)
    (hexact : ∀ t : ℕ, t * t = 8 * i + 1 → y = ((t : ℝ) - 1) / 2)
    (hy : |y - (√((8 * i + 1 : ℕ) : ℝ) - 1) / 2| < 1 / (2 * ((ansiToZernike i).1 : ℝ) + 3)) :
    ⌊y⌋₊ = (ansiToZernike i).1 := by
  obtain ⟨n, T, hn, -, hnT, hT1, hT2, -⟩ := ansi_facts i
  rw [hn] at hy ⊢
  by_cases hex : i = T
  · have ht : (2 * n + 1) * (2 * n + 1) = 8 * i + 1 := by
      have : (2 * n + 1) * (2 * n + 1) = 4 * (n * (n + 1)) + 1 := by ring
      rw [this, hnT, hex]; ring
    have := hexact (2 * n + 1) ht
    rw [this]
    push_cast
    have : ((2 * (n : ℝ) + 1) - 1) / 2 = (n : ℝ) := by ring
    rw [this, Nat.floor_natCast]
  · have hi1 : T + 1 ≤ i := by omega
    have hn0 : (0 : ℝ) ≤ n := by positivity
    have hnTr : (n : ℝ) * (n + 1) = 2 * T := by exact_mod_cast hnT
    have hlo : (T : ℝ) + 1 ≤ i := by exact_mod_cast hi1
    have hhi : (i : ℝ) ≤ T + n := by exact_mod_cast hT2
    obtain ⟨ε, hε⟩ : ∃ ε : ℝ, ε = 1 / (2 * (n : ℝ) + 3) := ⟨_, rfl⟩
    have hεpos : 0 < ε := by rw [hε]; positivity
    have hεmul : ε * (2 * (n : ℝ) + 3) = 1 := by rw [hε]; field_simp
    have hεle : ε ≤ 1 / 3 := by
      rw [hε, div_le_div_iff_of_pos_left (by norm_num) (by positivity) (by norm_num)]; linarith
    rw [← hε] at hy
    have hK : ((8 * i + 1 : ℕ) : ℝ) = 8 * (i : ℝ) + 1 := by push_cast; ring
    rw [hK] at hy
    have hs0 : 0 ≤ √(8 * (i : ℝ) + 1) := Real.sqrt_nonneg _
    have hss : √(8 * (i : ℝ) + 1) * √(8 * (i : ℝ) + 1) = 8 * (i : ℝ) + 1 := Real.mul_self_sqrt (by positivity)
    obtain ⟨hy1, hy2⟩ := abs_lt.mp hy
    have hA : 2 * (n : ℝ) + 1 + 2 * ε ≤ √(8 * (i : ℝ) + 1) := by
      by_contra hc
      push Not at hc
      have : √(8 * (i : ℝ) + 1) * √(8 * (i : ℝ) + 1) < (2 * (n : ℝ) + 1 + 2 * ε) * (2 * (n : ℝ) + 1 + 2 * ε) := by nlinarith
      nlinarith
    have hB : √(8 * (i : ℝ) + 1) ≤ 2 * (n : ℝ) + 3 - 2 * ε := by
      by_contra hc
      push Not at hc
      have hpos : 0 ≤ 2 * (n : ℝ) + 3 - 2 * ε := by linarith
      have : (2 * (n : ℝ) + 3 - 2 * ε) * (2 * (n : ℝ) + 3 - 2 * ε) < √(8 * (i : ℝ) + 1) * √(8 * (i : ℝ) + 1) := by nlinarith
      nlinarith
    have hy0 : 0 ≤ y := by linarith
    rw [Nat.floor_eq_iff hy0]
    constructor <;> linarith

theorem ansiN_le_sqrt (i : ℕ) : 2 * ((ansiToZernike i).1 : ℝ) + 1 ≤ √((8 * i + 1 : ℕ) : ℝ) := by
  obtain ⟨n, T, hn, -, hnT, hT1, hT2, -⟩ := ansi_facts i
  rw [hn]
  have hnTr : (n : ℝ) * (n + 1) = 2 * T := by exact_mod_cast hnT
  have hlo : (T : ℝ) ≤ i := by exact_mod_cast hT1
  have hn0 : (0 : ℝ) ≤ n := by positivity
  rw [Real.le_sqrt' (by positivity)]
  push_cast
  nlinarith

theorem ansiN_float_safe (i : ℕ) (hb : 8 * i + 1 < 2 ^ 50) (y : ℝ)
    (hexact : ∀ t : ℕ, t * t = 8 * i + 1 → y = ((t : ℝ) - 1) / 2)
    (hy : |y - (√((8 * i + 1 : ℕ) : ℝ) - 1) / 2| ≤ √((8 * i + 1 : ℕ) : ℝ) / 2 ^ 52) :
    ⌊y⌋₊ = (ansiToZernike i).1 := by
  apply ansi_floor_robust i y hexact
  refine lt_of_le_of_lt hy ?_
  have hj := ansiN_le_sqrt i
  have hj0 : (0 : ℝ) ≤ (ansiToZernike i).1 := by positivity
  have hs0 : 0 ≤ √((8 * i + 1 : ℕ) : ℝ) := Real.sqrt_nonneg _
  have hs : √((8 * i + 1 : ℕ) : ℝ) < 2 ^ 25 := by
    rw [Real.sqrt_lt' (by positivity)]
    have : ((8 * i + 1 : ℕ) : ℝ) < ((2 ^ 50 : ℕ) : ℝ) := by exact_mod_cast hb
    calc ((8 * i + 1 : ℕ) : ℝ) < ((2 ^ 50 : ℕ) : ℝ) := this
      _ = (2 ^ 25) ^ 2 := by norm_num
  rw [div_lt_div_iff₀ (by positivity) (by positivity), one_mul]
  nlinarith

end HcipyVerif.Zernike
