import Mathlib.Algebra.BigOperators.Intervals
import Mathlib.Algebra.BigOperators.Ring.Finset
import Mathlib.Algebra.Field.Basic
import Mathlib.Tactic.Ring
import Mathlib.Data.Complex.Basic
import HcipyVerif.Model.Mft
import HcipyVerif.Lemmas.FftIndex
import HcipyVerif.Lemmas.FftChar

/-!
# MatrixFourierTransform = the defining double sum (C02)

`mft_forward_eq_sum_2d`, `mft_backward_eq_sum_2d`, `mft_forward_eq_sum_1d`,
`mft_backward_eq_sum_1d`: the two-gemm pipeline of `Model/Mft.lean` (with the BLAS transposes,
both weight branches) equals `Σ_iy Σ_ix f·w·E(∓(u·x + v·y))`, for every character `E`.
Conjugation is a parameter `cj` with `cj (E a) = E (-a)`; `…_complex` instantiate `starRingEnd ℂ`.
-/
set_option linter.unusedSimpArgs false
set_option linter.unusedVariables false

namespace HcipyVerif.Fft
open Finset

/-! ## flat index facts -/

theorem flat_div {N i j : ℕ} (hj : j < N) : (i * N + j) / N = i := by
  have hN : 0 < N := by omega
  rw [Nat.add_comm, Nat.add_mul_div_right _ _ hN, Nat.div_eq_of_lt hj, Nat.zero_add]

theorem flat_mod {N i j : ℕ} (hj : j < N) : (i * N + j) % N = j := by
  rw [Nat.add_comm, Nat.add_mul_mod_self_right, Nat.mod_eq_of_lt hj]

/-- row-major flattening is injective on in-range column indices -/
theorem flat_inj {N i j i' j' : ℕ} (hj : j < N) (hj' : j' < N)
    (h : i * N + j = i' * N + j') : i = i' ∧ j = j' := by
  constructor
  · have := congrArg (· / N) h
    simpa [flat_div hj, flat_div hj'] using this
  · have := congrArg (· % N) h
    simpa [flat_mod hj, flat_mod hj'] using this

/-- every flat index below `M*N` is `i*N + j` with `i < M`, `j < N` -/
theorem flat_surj {M N k : ℕ} (hk : k < M * N) :
    k / N < M ∧ k % N < N ∧ (k / N) * N + k % N = k := by
  have hN : 0 < N := by
    rcases Nat.eq_zero_or_pos N with h | h
    · subst h; simp at hk
    · exact h
  refine ⟨?_, Nat.mod_lt _ hN, ?_⟩
  · exact (Nat.div_lt_iff_lt_mul hN).mpr hk
  · rw [Nat.mul_comm]; exact Nat.div_add_mod k N

theorem flat_lt {M N i j : ℕ} (hi : i < M) (hj : j < N) : i * N + j < M * N := by
  have : (i + 1) * N ≤ M * N := Nat.mul_le_mul_right N hi
  rw [Nat.add_mul, Nat.one_mul] at this
  omega

section
variable {K C : Type} [Field K] [Field C] {E : K → C}

/-! ## ndim = 2 -/

/-- Both weight branches at once: `w.get` is the broadcast weights array. -/
theorem mft_forward_eq_sum_2d_get (hE : IsChar E) (Nx Ny Nu Nv : ℕ) (x y u v : ℕ → K)
    (w : Weights C) (f : ℕ → C) {iu iv : ℕ} (hiu : iu < Nu) :
    mftForward E Nx Ny Nu Nv x y u v w f (iv * Nu + iu) =
      ∑ iy ∈ range Ny, ∑ ix ∈ range Nx,
        f (iy * Nx + ix) * w.get (iy * Nx + ix) * E (-(u iu * x ix + v iv * y iy)) := by
  have key : ∀ ix iy, E (-(x ix * u iu)) * E (-(v iv * y iy)) =
      E (-(u iu * x ix + v iv * y iy)) := by
    intro ix iy; rw [← hE.add]; congr 1; ring
  cases w with
  | scalar w0 =>
    simp only [mftForward, mftOperand, flatten2, gemm, Mat.tr, mftM1, mftM2, reshape2,
      flat_div hiu, flat_mod hiu, sumRange_eq, Weights.get, one_mul]
    rw [Finset.mul_sum]
    refine Finset.sum_congr rfl fun iy _ => ?_
    rw [Finset.sum_mul, Finset.mul_sum]
    refine Finset.sum_congr rfl fun ix _ => ?_
    rw [← key ix iy]; ring
  | array wa =>
    simp only [mftForward, mftOperand, flatten2, gemm, Mat.tr, mftM1, mftM2, reshape2,
      flat_div hiu, flat_mod hiu, sumRange_eq, Weights.get, one_mul]
    refine Finset.sum_congr rfl fun iy _ => ?_
    rw [Finset.sum_mul]
    refine Finset.sum_congr rfl fun ix _ => ?_
    rw [← key ix iy]; ring

/-- **MFT forward, ndim = 2, array-weights branch** (`f = (field*weights).reshape`, `alpha = 1`). -/
theorem mft_forward_eq_sum_2d (hE : IsChar E) (Nx Ny Nu Nv : ℕ) (x y u v : ℕ → K)
    (w : ℕ → C) (f : ℕ → C) {iu iv : ℕ} (hiu : iu < Nu) (hiv : iv < Nv) :
    mftForward E Nx Ny Nu Nv x y u v (.array w) f (iv * Nu + iu) =
      ∑ iy ∈ range Ny, ∑ ix ∈ range Nx,
        f (iy * Nx + ix) * w (iy * Nx + ix) * E (-(u iu * x ix + v iv * y iy)) :=
  mft_forward_eq_sum_2d_get hE Nx Ny Nu Nv x y u v (.array w) f hiu

/-- **MFT forward, ndim = 2, scalar-weights branch** (`alpha = w0`, field unweighted), under the
condition of `_compute_matrices` that all weights equal `w0`. -/
theorem mft_forward_eq_sum_2d_scalar (hE : IsChar E) (Nx Ny Nu Nv : ℕ) (x y u v : ℕ → K)
    (w : ℕ → C) (w0 : C) (hw : ∀ i, w i = w0) (f : ℕ → C) {iu iv : ℕ} (hiu : iu < Nu)
    (hiv : iv < Nv) :
    mftForward E Nx Ny Nu Nv x y u v (.scalar w0) f (iv * Nu + iu) =
      ∑ iy ∈ range Ny, ∑ ix ∈ range Nx,
        f (iy * Nx + ix) * w (iy * Nx + ix) * E (-(u iu * x ix + v iv * y iy)) := by
  rw [mft_forward_eq_sum_2d_get hE Nx Ny Nu Nv x y u v (.scalar w0) f hiu]
  simp only [Weights.get, hw]

/-- Both output-weight branches at once. -/
theorem mft_backward_eq_sum_2d_get (hE : IsChar E) (cj : C → C) (hcj : ∀ a, cj (E a) = E (-a))
    (Nx Ny Nu Nv : ℕ) (x y u v : ℕ → K) (wOut : Weights C) (F : ℕ → C) {ix iy : ℕ}
    (hix : ix < Nx) :
    mftBackward E cj Nx Ny Nu Nv x y u v wOut F (iy * Nx + ix) =
      ∑ iv ∈ range Nv, ∑ iu ∈ range Nu,
        F (iv * Nu + iu) * wOut.get (iv * Nu + iu) * E (u iu * x ix + v iv * y iy) := by
  have key : ∀ iu iv, E (x ix * u iu) * E (v iv * y iy) =
      E (u iu * x ix + v iv * y iy) := by
    intro iu iv; rw [← hE.add]; congr 1; ring
  cases wOut with
  | scalar w0 =>
    simp only [mftBackward, mftOperand, flatten2, gemm, Mat.tr, Mat.ctr, mftM1, mftM2, reshape2,
      flat_div hix, flat_mod hix, sumRange_eq, Weights.get, one_mul, hcj, neg_neg]
    rw [Finset.mul_sum, Finset.sum_comm]
    refine Finset.sum_congr rfl fun iu _ => ?_
    rw [Finset.mul_sum, Finset.mul_sum]
    refine Finset.sum_congr rfl fun iv _ => ?_
    rw [← key iu iv]; ring
  | array wa =>
    simp only [mftBackward, mftOperand, flatten2, gemm, Mat.tr, Mat.ctr, mftM1, mftM2, reshape2,
      flat_div hix, flat_mod hix, sumRange_eq, Weights.get, one_mul, hcj, neg_neg]
    rw [Finset.sum_comm]
    refine Finset.sum_congr rfl fun iu _ => ?_
    rw [Finset.mul_sum]
    refine Finset.sum_congr rfl fun iv _ => ?_
    rw [← key iu iv]; ring

/-- **MFT backward, ndim = 2, array-weights branch.**  `wOut` is `weights_output`
(`output_grid.weights/(2π)²`), `cj` is conjugation on the matrix entries. -/
theorem mft_backward_eq_sum_2d (hE : IsChar E) (cj : C → C) (hcj : ∀ a, cj (E a) = E (-a))
    (Nx Ny Nu Nv : ℕ) (x y u v : ℕ → K) (wOut : ℕ → C) (F : ℕ → C) {ix iy : ℕ}
    (hix : ix < Nx) (hiy : iy < Ny) :
    mftBackward E cj Nx Ny Nu Nv x y u v (.array wOut) F (iy * Nx + ix) =
      ∑ iv ∈ range Nv, ∑ iu ∈ range Nu,
        F (iv * Nu + iu) * wOut (iv * Nu + iu) * E (u iu * x ix + v iv * y iy) :=
  mft_backward_eq_sum_2d_get hE cj hcj Nx Ny Nu Nv x y u v (.array wOut) F hix

/-- **MFT backward, ndim = 2, scalar-weights branch.** -/
theorem mft_backward_eq_sum_2d_scalar (hE : IsChar E) (cj : C → C)
    (hcj : ∀ a, cj (E a) = E (-a)) (Nx Ny Nu Nv : ℕ) (x y u v : ℕ → K) (wOut : ℕ → C) (w0 : C)
    (hw : ∀ i, wOut i = w0) (F : ℕ → C) {ix iy : ℕ} (hix : ix < Nx) (hiy : iy < Ny) :
    mftBackward E cj Nx Ny Nu Nv x y u v (.scalar w0) F (iy * Nx + ix) =
      ∑ iv ∈ range Nv, ∑ iu ∈ range Nu,
        F (iv * Nu + iu) * wOut (iv * Nu + iu) * E (u iu * x ix + v iv * y iy) := by
  rw [mft_backward_eq_sum_2d_get hE cj hcj Nx Ny Nu Nv x y u v (.scalar w0) F hix]
  simp only [Weights.get, hw]

/-- the executable right-hand sides are the double sums of the theorems -/
theorem mftSumForward_eq (Nx Ny Nu : ℕ) (x y u v : ℕ → K) (w : Weights C) (f : ℕ → C)
    {iu iv : ℕ} (hiu : iu < Nu) :
    mftSumForward E Nx Ny Nu x y u v w f (iv * Nu + iu) =
      ∑ iy ∈ range Ny, ∑ ix ∈ range Nx,
        f (iy * Nx + ix) * w.get (iy * Nx + ix) * E (-(u iu * x ix + v iv * y iy)) := by
  simp only [mftSumForward, sumRange_eq, flat_div hiu, flat_mod hiu]

theorem mftSumBackward_eq (Nx Nu Nv : ℕ) (x y u v : ℕ → K) (wOut : Weights C) (F : ℕ → C)
    {ix iy : ℕ} (hix : ix < Nx) :
    mftSumBackward E Nx Nu Nv x y u v wOut F (iy * Nx + ix) =
      ∑ iv ∈ range Nv, ∑ iu ∈ range Nu,
        F (iv * Nu + iu) * wOut.get (iv * Nu + iu) * E (u iu * x ix + v iv * y iy) := by
  simp only [mftSumBackward, sumRange_eq, flat_div hix, flat_mod hix]

/-- model = executable defining sum at every in-range flat output index -/
theorem mftForward_eq_mftSumForward (hE : IsChar E) (Nx Ny Nu Nv : ℕ) (x y u v : ℕ → K)
    (w : Weights C) (f : ℕ → C) {k : ℕ} (hk : k < Nv * Nu) :
    mftForward E Nx Ny Nu Nv x y u v w f k = mftSumForward E Nx Ny Nu x y u v w f k := by
  obtain ⟨_, h2, h3⟩ := flat_surj hk
  rw [← h3, mft_forward_eq_sum_2d_get hE _ _ _ _ _ _ _ _ _ _ h2, mftSumForward_eq _ _ _ _ _ _ _ _ _ h2]

theorem mftBackward_eq_mftSumBackward (hE : IsChar E) (cj : C → C)
    (hcj : ∀ a, cj (E a) = E (-a)) (Nx Ny Nu Nv : ℕ) (x y u v : ℕ → K)
    (wOut : Weights C) (F : ℕ → C) {k : ℕ} (hk : k < Ny * Nx) :
    mftBackward E cj Nx Ny Nu Nv x y u v wOut F k = mftSumBackward E Nx Nu Nv x y u v wOut F k := by
  obtain ⟨_, h2, h3⟩ := flat_surj hk
  rw [← h3, mft_backward_eq_sum_2d_get hE cj hcj _ _ _ _ _ _ _ _ _ _ h2,
    mftSumBackward_eq _ _ _ _ _ _ _ _ _ h2]

/-! ## ndim = 1 -/

/-- **MFT forward, ndim = 1**: `np.dot(M, field*weights)`. -/
theorem mft_forward_eq_sum_1d (Nx : ℕ) (x u : ℕ → K) (w : Weights C) (f : ℕ → C) (iu : ℕ) :
    mftForward1 E Nx x u w f iu = ∑ ix ∈ range Nx, f ix * w.get ix * E (-(u iu * x ix)) := by
  simp only [mftForward1, mftM, sumRange_eq]
  exact Finset.sum_congr rfl fun ix _ => by ring

/-- **MFT backward, ndim = 1**: `np.dot(M.conj().T, field*weights_output)`. -/
theorem mft_backward_eq_sum_1d (cj : C → C) (hcj : ∀ a, cj (E a) = E (-a)) (Nu : ℕ)
    (x u : ℕ → K) (wOut : Weights C) (F : ℕ → C) (ix : ℕ) :
    mftBackward1 E cj Nu x u wOut F ix = ∑ iu ∈ range Nu, F iu * wOut.get iu * E (u iu * x ix) := by
  simp only [mftBackward1, mftM, Mat.ctr, sumRange_eq, hcj, neg_neg]
  exact Finset.sum_congr rfl fun iu _ => by ring

end

/-! ## `C = ℂ`, conjugation = `starRingEnd ℂ` -/
section complex
variable {K : Type} [Field K] {E : K → ℂ}

theorem mft_backward_eq_sum_2d_complex (hE : IsChar E)
    (hcj : ∀ a, (starRingEnd ℂ) (E a) = E (-a))
    (Nx Ny Nu Nv : ℕ) (x y u v : ℕ → K) (wOut : Weights ℂ) (F : ℕ → ℂ) {ix iy : ℕ}
    (hix : ix < Nx) (hiy : iy < Ny) :
    mftBackward E (starRingEnd ℂ) Nx Ny Nu Nv x y u v wOut F (iy * Nx + ix) =
      ∑ iv ∈ range Nv, ∑ iu ∈ range Nu,
        F (iv * Nu + iu) * wOut.get (iv * Nu + iu) * E (u iu * x ix + v iv * y iy) :=
  mft_backward_eq_sum_2d_get hE _ hcj Nx Ny Nu Nv x y u v wOut F hix

theorem mft_backward_eq_sum_1d_complex (hcj : ∀ a, (starRingEnd ℂ) (E a) = E (-a)) (Nu : ℕ)
    (x u : ℕ → K) (wOut : Weights ℂ) (F : ℕ → ℂ) (ix : ℕ) :
    mftBackward1 E (starRingEnd ℂ) Nu x u wOut F ix =
      ∑ iu ∈ range Nu, F iu * wOut.get iu * E (u iu * x ix) :=
  mft_backward_eq_sum_1d _ hcj Nu x u wOut F ix

end complex

end HcipyVerif.Fft
