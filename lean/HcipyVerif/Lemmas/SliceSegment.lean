import HcipyVerif.Model.Mirror
import Mathlib.Tactic.Linarith
import Mathlib.Tactic.Ring
import Mathlib.Tactic.FieldSimp
import Mathlib.Algebra.Field.Basic
import Mathlib.Algebra.BigOperators.Group.List.Basic
import Mathlib.Analysis.SpecialFunctions.Exp
import Mathlib.Analysis.Complex.Trigonometric
import Mathlib.Analysis.SpecialFunctions.Complex.Circle

/-! Helper lemmas for C14 (round 5): the ceiling division behind `len(range(...))`, sums over
indicator vectors (segments of a segmented mirror), formal phases. -/
set_option linter.unusedSimpArgs false
set_option linter.unusedVariables false
set_option linter.unusedSectionVars false

namespace HcipyVerif.ModeBasis

/-- `k < ⌈d / st⌉ ↔ k·st < d` for a positive step -/
theorem ceil_lt (k : Nat) (d st : Int) (hst : 0 < st) :
    (k : Int) < (d + st - 1) / st ↔ (k : Int) * st < d := by
  rw [Int.lt_iff_add_one_le, Int.le_ediv_iff_mul_le hst]
  constructor <;> intro h <;> nlinarith

theorem sliceIndices_step (n : Nat) (a b c : Option Int) (s e st : Int)
    (h : sliceIndices n a b c = some (s, e, st)) : st ≠ 0 ∧ st = c.getD 1 := by
  unfold sliceIndices at h
  by_cases h0 : c.getD 1 = 0
  · simp [h0] at h
  · simp only [h0, if_false, Option.some.injEq, Prod.mk.injEq] at h
    exact ⟨by rw [← h.2.2]; exact h0, h.2.2.symm⟩

end HcipyVerif.ModeBasis

namespace HcipyVerif.Mirror
open HcipyVerif.ModeBasis
variable {K : Type} [Field K]

theorem sum_zipWith_mul_ind (s c : List K) (hs : ∀ a ∈ s, a * a = a) :
    (List.zipWith (· * ·) (List.zipWith (· * ·) s c) s).sum = (List.zipWith (· * ·) s c).sum := by
  induction s generalizing c with
  | nil => simp
  | cons a s ih =>
    cases c with
    | nil => simp
    | cons b c =>
      have ha : a * a = a := hs a (by simp)
      have := ih c (fun x hx => hs x (by simp [hx]))
      simp only [List.zipWith_cons_cons, List.sum_cons, this]
      have : a * b * a = a * b := by rw [mul_comm (a*b) a, ← mul_assoc, ha]
      rw [this]

theorem map_sq_ind (s : List K) (hs : ∀ a ∈ s, a * a = a) : (s.map fun a => a * a) = s := by
  induction s with
  | nil => rfl
  | cons a s ih =>
    simp only [List.map_cons]
    rw [hs a (by simp), ih (fun x hx => hs x (by simp [hx]))]

theorem applyPhaseConj_applyPhase (e : List (PVal K)) (d : List K) (h : e.length = d.length) :
    applyPhaseConj (applyPhase e d) d = e := by
  induction e generalizing d with
  | nil => cases d <;> rfl
  | cons x xs ih =>
    cases d with
    | nil => simp at h
    | cons t ts =>
      have := ih ts (by simpa using h)
      simp only [applyPhase, applyPhaseConj, List.zipWith_cons_cons] at this ⊢
      rw [this]
      cases x
      simp

theorem power_applyPhase (nsq : K → K) (e : List (PVal K)) (d : List K) (h : e.length = d.length) :
    power nsq (applyPhase e d) = power nsq e := by
  unfold power
  congr 1
  induction e generalizing d with
  | nil => cases d <;> rfl
  | cons x xs ih =>
    cases d with
    | nil => simp at h
    | cons t ts =>
      have := ih ts (by simpa using h)
      simp only [applyPhase, List.zipWith_cons_cons, List.map_cons] at this ⊢
      rw [this]

/-! #### over exact numbers an incremental update is a recomputation -/

theorem dot_sub_add {R : Type} [CommRing R] (r a c : List R) (h : c.length = a.length) :
    dot r c + dot r (List.zipWith (· - ·) a c) = dot r a := by
  unfold dot
  induction r generalizing a c with
  | nil => simp
  | cons x xs ih =>
    cases a with
    | nil => cases c <;> simp_all
    | cons y ys =>
      cases c with
      | nil => simp at h
      | cons z zs =>
        have := ih ys zs (by simpa using h)
        simp only [List.zipWith_cons_cons, List.sum_cons] at this ⊢
        rw [← this]
        ring

theorem matvec_sub_add {R : Type} [CommRing R] (infl : List (List R)) (a c : List R)
    (h : c.length = a.length) :
    List.zipWith (· + ·) (matvec infl c) (matvec infl (List.zipWith (· - ·) a c)) = matvec infl a := by
  unfold matvec
  induction infl with
  | nil => simp
  | cons r rs ih =>
    simp only [List.map_cons, List.zipWith_cons_cons]
    rw [ih, dot_sub_add r a c h]

/-! #### what a formal field value stands for -/

/-- `E · exp(2πi·c)`: the complex number a formal field value `(E, c)` denotes -/
noncomputable def PVal.den (x : PVal ℂ) : ℂ :=
  x.amp * Complex.exp (2 * Real.pi * x.turns * Complex.I)

theorem den_add (amp c d : ℂ) :
    PVal.den ⟨amp, c + d⟩ = PVal.den ⟨amp, c⟩ * Complex.exp (2 * Real.pi * d * Complex.I) := by
  unfold PVal.den
  rw [mul_assoc amp, ← Complex.exp_add]
  congr 2
  ring

theorem norm_den (amp : ℂ) (c : ℝ) : ‖PVal.den ⟨amp, (c : ℂ)⟩‖ = ‖amp‖ := by
  unfold PVal.den
  rw [norm_mul]
  have : (2 * (Real.pi : ℂ) * (c : ℂ) * Complex.I) = ((2 * Real.pi * c : ℝ) : ℂ) * Complex.I := by
    push_cast; ring
  rw [this, Complex.norm_exp_ofReal_mul_I, mul_one]

end HcipyVerif.Mirror
