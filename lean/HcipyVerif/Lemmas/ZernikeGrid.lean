import HcipyVerif.Model.ZernikeGrid
import Mathlib.Algebra.Order.Field.Rat
import Mathlib.Tactic.Linarith
import Mathlib.Tactic.Ring
import Mathlib.Tactic.LinearCombination

/-! helper lemmas for the grid-history / scale theorems of C13 (round 6) -/
namespace HcipyVerif.Zernike

/-- a strict inequality may be scaled by a positive factor -/
theorem lt_scale_iff (a b k : Rat) (hk : 0 < k) : k * a < k * b ↔ a < b := by
  constructor
  · intro h
    by_contra h'
    have h'' : b ≤ a := not_lt.mp h'
    have := mul_le_mul_of_nonneg_left h'' hk.le
    exact absurd h (not_lt.mpr this)
  · intro h
    exact mul_lt_mul_of_pos_left h hk

/-- the normalised coordinate `2x/D` does not see a common factor of `x` and `D` -/
theorem norm_coord_scale (x D k : Rat) (hk : k ≠ 0) : 2 * (k * x) / (k * D) = 2 * x / D := by
  rw [show 2 * (k * x) = k * (2 * x) by ring]
  exact mul_div_mul_left _ _ hk

/-- a rotation keeps `x² + y²` -/
theorem rot_norm (c s x y : Rat) (hcs : c * c + s * s = 1) :
    (c * x - s * y) * (c * x - s * y) + (s * x + c * y) * (s * x + c * y) = x * x + y * y := by
  linear_combination (x * x + y * y) * hcs

/-- … and therefore the squared normalised radius -/
theorem rot_norm_scaled (c s x y D : Rat) (hcs : c * c + s * s = 1) :
    2 * (c * x - s * y) / D * (2 * (c * x - s * y) / D) + 2 * (s * x + c * y) / D * (2 * (s * x + c * y) / D)
      = 2 * x / D * (2 * x / D) + 2 * y / D * (2 * y / D) := by
  linear_combination (4 / (D * D)) * rot_norm c s x y hcs

end HcipyVerif.Zernike
