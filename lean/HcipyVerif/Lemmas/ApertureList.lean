import HcipyVerif.Model.Aperture
import Mathlib.Tactic.Linarith
import Mathlib.Tactic.Ring
import Mathlib.Tactic.NormNum
import Mathlib.Tactic.Positivity
import Mathlib.Algebra.Order.Field.Rat
import Mathlib.Data.List.Basic

/-! C12 — the non-separated code path (`evalPts`) equals the point semantics (`val`);
masked list operations; value ranges; counterexamples for the shipped behaviour. -/
set_option linter.unusedSimpArgs false
set_option linter.unusedVariables false

namespace HcipyVerif.Aperture

/-! ## A. masked list operations -/

section Masked
variable {α β : Type}

@[simp] theorem compress_nil_left (v : List α) : compress [] v = [] := by
  simp [compress]

@[simp] theorem compress_nil_right (m : List Bool) : compress m ([] : List α) = [] := by
  cases m <;> simp [compress]

@[simp] theorem compress_cons_true (m : List Bool) (x : α) (v : List α) :
    compress (true :: m) (x :: v) = x :: compress m v := by
  simp [compress]

@[simp] theorem compress_cons_false (m : List Bool) (x : α) (v : List α) :
    compress (false :: m) (x :: v) = compress m v := by
  simp [compress]

@[simp] theorem scatter_nil_left (base sub : List α) : scatter [] base sub = base := by
  simp [scatter]

@[simp] theorem scatter_nil_base (m : List Bool) (sub : List α) : scatter m [] sub = [] := by
  cases m <;> simp [scatter]

@[simp] theorem scatter_cons_true (m : List Bool) (x s : α) (base sub : List α) :
    scatter (true :: m) (x :: base) (s :: sub) = s :: scatter m base sub := by
  simp [scatter]

@[simp] theorem scatter_cons_true_nil (m : List Bool) (x : α) (base : List α) :
    scatter (true :: m) (x :: base) [] = x :: scatter m base [] := by
  simp [scatter]

@[simp] theorem scatter_cons_false (m : List Bool) (x : α) (base sub : List α) :
    scatter (false :: m) (x :: base) sub = x :: scatter m base sub := by
  cases sub <;> simp [scatter]

@[simp] theorem scatterWhere_nil_left (sel : List Bool) (res : List α) (t : α) :
    scatterWhere [] sel res t = res := by
  simp [scatterWhere]

@[simp] theorem scatterWhere_nil_res (m sel : List Bool) (t : α) :
    scatterWhere m sel ([] : List α) t = [] := by
  cases m <;> simp [scatterWhere]

@[simp] theorem scatterWhere_cons_true (m sel : List Bool) (s : Bool) (x : α) (res : List α) (t : α) :
    scatterWhere (true :: m) (s :: sel) (x :: res) t
      = (if s then t else x) :: scatterWhere m sel res t := by
  simp [scatterWhere]

@[simp] theorem scatterWhere_cons_true_nil (m : List Bool) (x : α) (res : List α) (t : α) :
    scatterWhere (true :: m) [] (x :: res) t = x :: scatterWhere m [] res t := by
  simp [scatterWhere]

@[simp] theorem scatterWhere_cons_false (m sel : List Bool) (x : α) (res : List α) (t : α) :
    scatterWhere (false :: m) sel (x :: res) t = x :: scatterWhere m sel res t := by
  cases sel <;> simp [scatterWhere]

/-- `base[m] = g(v[m])` is the element-wise "where" -/
theorem scatter_compress_map (m : List Bool) (base : List β) (v : List α) (g : α → β)
    (h1 : m.length = v.length) (h2 : base.length = v.length) :
    scatter m base ((compress m v).map g)
      = List.zipWith (fun (bx : Bool × β) a => if bx.1 then g a else bx.2) (m.zip base) v := by
  induction m generalizing base v with
  | nil => cases v with
    | nil => cases base with
      | nil => simp
      | cons _ _ => simp at h2
    | cons _ _ => simp at h1
  | cons b m ih =>
    cases v with
    | nil => simp at h1
    | cons a v =>
      cases base with
      | nil => simp at h2
      | cons x base =>
        simp only [List.length_cons, Nat.add_right_cancel_iff] at h1 h2
        cases b <;> simp [ih base v h1 h2]

theorem compress_map_map (pts : List α) (mask : α → Bool) (h : α → β) :
    compress (pts.map mask) (pts.map h) = (compress (pts.map mask) pts).map h := by
  induction pts with
  | nil => simp
  | cons p ps ih => cases hm : mask p <;> simp [hm, ih]

theorem scatter_mask_eq_map (pts : List α) (mask : α → Bool) (g : α → Rat) :
    scatter (pts.map mask) (pts.map fun _ => (0 : Rat)) ((compress (pts.map mask) pts).map g)
      = pts.map fun p => if mask p then g p else 0 := by
  induction pts with
  | nil => simp
  | cons p ps ih =>
    cases hm : mask p <;>
      simp only [List.map_cons, hm, compress_cons_true, compress_cons_false, scatter_cons_true,
        scatter_cons_false, ih, if_true, if_false, Bool.false_eq_true]

/-- general form: the compressed array may be a mapped copy of the points -/
theorem scatterWhere_eq_gen {γ : Type} (pts : List α) (mask : α → Bool) (h : α → β) (sel : β → Bool)
    (res : α → γ) (t : γ) :
    scatterWhere (pts.map mask) ((compress (pts.map mask) (pts.map h)).map sel) (pts.map res) t
      = pts.map fun p => if mask p && sel (h p) then t else res p := by
  induction pts with
  | nil => simp
  | cons p ps ih => cases hm : mask p <;> simp [hm, ih]

/-- the masked assignment writes exactly the segment's pixels -/
theorem scatterWhere_eq (pts : List α) (mask sel : α → Bool) (res : α → Rat) (t : Rat) :
    scatterWhere (pts.map mask) ((compress (pts.map mask) pts).map sel) (pts.map res) t
      = pts.map fun p => if mask p && sel p then t else res p := by
  have := scatterWhere_eq_gen pts mask id sel res t
  simpa using this

theorem setMask_map {γ : Type} (pts : List α) (sel : α → Bool) (res : α → γ) (t : γ) :
    setMask (pts.map sel) (pts.map res) t = pts.map fun p => if sel p then t else res p := by
  unfold setMask
  induction pts with
  | nil => simp
  | cons p ps ih => simp [ih]

end Masked

theorem b2r_gt_half (b : Bool) : b2r b > 1/2 ↔ b = true := by
  cases b <;> simp [b2r]
  all_goals norm_num

theorem b2r_mul (a b : Bool) : b2r a * b2r b = b2r (a && b) := by
  cases a <;> cases b <;> simp [b2r]

theorem decide_b2r_gt_half (b : Bool) : decide (b2r b > 1/2) = b := by
  cases b <;> simp [b2r]
  all_goals norm_num

theorem hpProd_eq (even : Bool) (a : Rat) (dirs : List (Rat × Rat)) (x y : Rat) :
    hpProd even a dirs x y = b2r (allHp even a dirs x y) := by
  unfold hpProd allHp
  have key : ∀ (acc : Bool), dirs.foldl (fun acc d => acc * b2r (hp even a d x y)) (b2r acc)
      = b2r (acc && dirs.all fun d => hp even a d x y) := by
    induction dirs with
    | nil => intro acc; simp
    | cons d ds ih =>
      intro acc
      simp only [List.foldl_cons, List.all_cons]
      rw [b2r_mul, ih, Bool.and_assoc]
  have h1 : b2r true = 1 := by simp [b2r]
  rw [← h1, key, Bool.true_and]

/-! ## B. the non-separated code path equals the point semantics -/

theorem regpolySlow_eq (even : Bool) (r a : Rat) (dirs : List (Rat × Rat)) (cx cy : Rat)
    (pts : List Pt) :
    regpolySlow even r a dirs cx cy pts = pts.map (val (.regpoly even r a dirs cx cy)) := by
  show scatter (pts.map fun p => inRect r r cx cy p) (pts.map fun _ => 0)
    ((compress (pts.map fun p => inRect r r cx cy p) pts).map
      fun p => hpProd even a dirs (p.1 - cx) (p.2 - cy)) = _
  rw [scatter_mask_eq_map]
  apply List.map_congr_left
  intro p _
  simp only [val, inRegpoly, inRect, hpProd_eq]
  cases h1 : decide (rabs (p.1 - cx) ≤ r) <;> cases h2 : decide (rabs (p.2 - cy) ≤ r) <;>
    simp [b2r]

theorem segFold_map_foldl (pts : List Pt) (segs : List (Pt × Rat))
    (step : List Rat → Pt × Rat → List Rat) (f : Pt → Rat)
    (hstep : ∀ (res : Pt → Rat) (s : Pt × Rat), step (pts.map res) s
      = pts.map fun p => if f (shiftPt s.1.1 s.1.2 p) > 1/2 then s.2 else res p)
    (res : Pt → Rat) :
    segs.foldl step (pts.map res) = pts.map fun p => segFold f p segs (res p) := by
  induction segs generalizing res with
  | nil => simp [segFold]
  | cons s segs ih =>
    simp only [List.foldl_cons, hstep, ih]
    simp [segFold]

theorem evalPts_eq_val : ∀ (s : Shape) (pts : List Pt), evalPts s pts = pts.map (val s) := by
  intro s
  induction s with
  | circle r cx cy => intro pts; simp [evalPts]
  | disk r => intro pts; simp [evalPts]
  | halfplane gt a b c => intro pts; simp [evalPts]
  | ellipse cM sM cm sm cx cy mn => intro pts; simp [evalPts]
  | rect hx hy cx cy => intro pts; simp [evalPts]
  | regpoly even r a dirs cx cy => intro pts; rw [evalPts, regpolySlow_eq]
  | irrpoly vs hx hy bx by_ =>
    intro pts
    rw [evalPts]
    show scatter (pts.map fun p => inRect hx hy bx by_ p) (pts.map fun _ => 0)
      ((compress (pts.map fun p => inRect hx hy bx by_ p) pts).map
        fun p => b2r (containsPt vs p)) = _
    rw [scatter_mask_eq_map]
    apply List.map_congr_left
    intro p _
    cases h : inRect hx hy bx by_ p <;> simp [val, h, b2r]
  | spider sx sy c s hl hw => intro pts; simp [evalPts]
  | spiderInf px py c s hw => intro pts; simp [evalPts]
  | const v => intro pts; simp [evalPts]
  | compl a ih => intro pts; rw [evalPts, ih]; simp [val]
  | mul a b iha ihb =>
    intro pts; rw [evalPts, iha, ihb]
    induction pts with
    | nil => simp
    | cons p ps ih => simp [val, ih]
  | sub a b iha ihb =>
    intro pts; rw [evalPts, iha, ihb]
    induction pts with
    | nil => simp
    | cons p ps ih => simp [val, ih]
  | rot c s a ih => intro pts; rw [evalPts, ih]; simp [val, Function.comp_def]
  | shift dx dy a ih => intro pts; rw [evalPts, ih]; simp [val, Function.comp_def]
  | seg segs a ih =>
    intro pts
    have generic : (∀ (even : Bool) (r a_1 : Rat) (dirs : List (Rat × Rat)) (cx cy : Rat),
        a = Shape.regpoly even r a_1 dirs cx cy → False) →
        evalPts (.seg segs a) pts = pts.map (val (.seg segs a)) := by
      intro hne
      rw [evalPts.eq_9 _ _ _ hne]
      rw [segFold_map_foldl pts segs _ (val a)]
      · simp [val]
      · intro res s
        rw [ih, List.map_map, List.map_map, setMask_map]
        simp [Function.comp_def]
    cases a with
    | regpoly even r a dirs cx cy =>
      rw [evalPts.eq_8]
      rw [segFold_map_foldl pts segs _ (val (.regpoly even r a dirs cx cy))]
      · simp [val]
      · intro res s
        show scatterWhere ((pts.map (shiftPt s.1.1 s.1.2)).map fun p => inRect r r cx cy p)
          (((compress ((pts.map (shiftPt s.1.1 s.1.2)).map fun p => inRect r r cx cy p)
            (pts.map (shiftPt s.1.1 s.1.2))).map
              fun p => hpProd even a dirs (p.1 - cx) (p.2 - cy)).map fun v => decide (v > 1/2))
          (pts.map res) s.2 = _
        rw [List.map_map, List.map_map, scatterWhere_eq_gen]
        apply List.map_congr_left
        intro p _
        simp only [Function.comp_def, hpProd_eq, decide_b2r_gt_half, val, b2r_gt_half, inRegpoly,
          inRect, Bool.decide_eq_true]
    | _ => exact generic (by intros; simp_all)

theorem evalPts_length (s : Shape) (pts : List Pt) : (evalPts s pts).length = pts.length := by
  rw [evalPts_eq_val, List.length_map]

theorem evalPts_getElem? (s : Shape) (pts : List Pt) (k : Nat) (hk : k < pts.length) :
    (evalPts s pts)[k]? = some (val s (pts.getD k (0, 0))) := by
  rw [evalPts_eq_val, List.getElem?_map]
  simp [List.getD_eq_getElem?_getD, List.getElem?_eq_getElem hk]

/-! ## C. values -/

theorem b2r_cases (b : Bool) : b2r b = 0 ∨ b2r b = 1 := by
  cases b <;> simp [b2r]

theorem one_sub_b2r_cases (b : Bool) : 1 - b2r b = 0 ∨ 1 - b2r b = 1 := by
  cases b <;> simp [b2r]

inductive Binary : Shape → Prop
  | circle (r cx cy : Rat) : Binary (.circle r cx cy)
  | disk (r : Rat) : Binary (.disk r)
  | halfplane (gt : Bool) (a b c : Rat) : Binary (.halfplane gt a b c)
  | ellipse (cM sM cm sm cx cy mn : Rat) : Binary (.ellipse cM sM cm sm cx cy mn)
  | rect (hx hy cx cy : Rat) : Binary (.rect hx hy cx cy)
  | regpoly (even : Bool) (r a : Rat) (dirs : List (Rat × Rat)) (cx cy : Rat) :
      Binary (.regpoly even r a dirs cx cy)
  | irrpoly (vs : List Pt) (hx hy bx by_ : Rat) : Binary (.irrpoly vs hx hy bx by_)
  | spider (sx sy c s hl hw : Rat) : Binary (.spider sx sy c s hl hw)
  | spiderInf (px py c s hw : Rat) : Binary (.spiderInf px py c s hw)
  | const0 : Binary (.const 0)
  | const1 : Binary (.const 1)
  | compl {a : Shape} : Binary a → Binary (.compl a)
  | mul {a b : Shape} : Binary a → Binary b → Binary (.mul a b)
  | sub {a b : Shape} : Binary a → Binary b → (∀ p, val b p ≤ val a p) → Binary (.sub a b)
  | rot (c s : Rat) {a : Shape} : Binary a → Binary (.rot c s a)
  | shift (dx dy : Rat) {a : Shape} : Binary a → Binary (.shift dx dy a)
  | seg {segs : List (Pt × Rat)} {a : Shape} : Binary a → (∀ s ∈ segs, s.2 = 1) →
      Binary (.seg segs a)

theorem segFold_mem (f : Pt → Rat) (p : Pt) (segs : List (Pt × Rat)) (init : Rat) :
    segFold f p segs init = init ∨ ∃ s ∈ segs, segFold f p segs init = s.2 := by
  induction segs generalizing init with
  | nil => left; simp [segFold]
  | cons s segs ih =>
    have hstep : segFold f p (s :: segs) init
        = segFold f p segs (if f (shiftPt s.1.1 s.1.2 p) > 1/2 then s.2 else init) := by
      simp [segFold]
    rw [hstep]
    rcases ih (if f (shiftPt s.1.1 s.1.2 p) > 1/2 then s.2 else init) with h | ⟨s', hs', h⟩
    · rw [h]
      by_cases hc : f (shiftPt s.1.1 s.1.2 p) > 1/2
      · right; exact ⟨s, List.mem_cons_self, if_pos hc⟩
      · left; exact if_neg hc
    · right; exact ⟨s', List.mem_cons_of_mem _ hs', h⟩

theorem seg_val_mem (segs : List (Pt × Rat)) (a : Shape) (p : Pt) :
    val (.seg segs a) p = 0 ∨ ∃ s ∈ segs, val (.seg segs a) p = s.2 := by
  simpa [val] using segFold_mem (val a) p segs 0

theorem seg_val_in_unit_interval {segs : List (Pt × Rat)} {a : Shape} {p : Pt}
    (h : ∀ s ∈ segs, 0 ≤ s.2 ∧ s.2 ≤ 1) :
    0 ≤ val (.seg segs a) p ∧ val (.seg segs a) p ≤ 1 := by
  rcases seg_val_mem segs a p with h0 | ⟨s, hs, hv⟩
  · rw [h0]; constructor <;> norm_num
  · rw [hv]; exact h s hs

theorem binary_val {s : Shape} (h : Binary s) (p : Pt) : val s p = 0 ∨ val s p = 1 := by
  induction h generalizing p with
  | circle r cx cy => exact b2r_cases _
  | disk r => exact b2r_cases _
  | halfplane gt a b c => exact b2r_cases _
  | ellipse cM sM cm sm cx cy mn => exact b2r_cases _
  | rect hx hy cx cy => exact b2r_cases _
  | regpoly even r a dirs cx cy => exact b2r_cases _
  | irrpoly vs hx hy bx by_ => exact b2r_cases _
  | spider sx sy c s hl hw => exact one_sub_b2r_cases _
  | spiderInf px py c s hw => exact one_sub_b2r_cases _
  | const0 => left; rfl
  | const1 => right; rfl
  | compl _ ih =>
    rcases ih p with h | h <;> simp [val, h]
  | mul _ _ iha ihb =>
    rcases iha p with h | h <;> rcases ihb p with h' | h' <;> simp [val, h, h']
  | sub _ _ hle iha ihb =>
    have hl := hle p
    rcases iha p with h | h <;> rcases ihb p with h' | h' <;> simp [val, h, h']
    rw [h, h'] at hl
    norm_num at hl
  | rot c s _ ih => exact ih _
  | shift dx dy _ ih => exact ih _
  | @seg segs a _ hs ih =>
    rcases seg_val_mem segs a p with h0 | ⟨s, hs', hv⟩
    · left; exact h0
    · right; rw [hv]; exact hs s hs'

theorem values_in_unit_interval {s : Shape} (h : Binary s) (p : Pt) :
    0 ≤ val s p ∧ val s p ≤ 1 := by
  rcases binary_val h p with h | h <;> rw [h] <;> constructor <;> norm_num

theorem rabs_nonneg' (x : Rat) : 0 ≤ rabs x := by
  unfold rabs; split_ifs with h
  · exact h
  · linarith

theorem rabs_abs' (x : Rat) : rabs x = |x| := by
  unfold rabs; split_ifs with h
  · exact (abs_of_nonneg h).symm
  · exact (abs_of_neg (not_le.mp h)).symm

theorem sq_rabs (x : Rat) : sq (rabs x) = sq x := by
  unfold rabs sq; split_ifs <;> ring

theorem sq_le_sq_of_rabs_le {x y : Rat} (h : rabs x ≤ rabs y) : sq x ≤ sq y := by
  rw [← sq_rabs x, ← sq_rabs y]
  exact mul_self_le_mul_self (rabs_nonneg' x) h

/-- inner ⊆ outer for concentric circles -/
theorem circle_sub_le {ri ro cx cy : Rat} {p : Pt} (h : rabs ri ≤ rabs ro) :
    val (.circle ri cx cy) p ≤ val (.circle ro cx cy) p := by
  have hsq := sq_le_sq_of_rabs_le h
  simp only [val, inCircle]
  by_cases hi : sq (p.1 - cx) + sq (p.2 - cy) ≤ sq ri
  · have ho : sq (p.1 - cx) + sq (p.2 - cy) ≤ sq ro := le_trans hi hsq
    simp [b2r, hi, ho]
  · by_cases ho : sq (p.1 - cx) + sq (p.2 - cy) ≤ sq ro <;> simp [b2r, hi, ho]

/-- the obstructed circular aperture is binary -/
theorem binary_obstructed_circle {ri ro cx cy : Rat} (h : rabs ri ≤ rabs ro) :
    Binary (.sub (.circle ro cx cy) (.circle ri cx cy)) :=
  Binary.sub (Binary.circle _ _ _) (Binary.circle _ _ _) fun _ => circle_sub_le h

/-! ### supersampling -/

theorem addFields_bound (k : Rat) (a b : List Rat)
    (ha : ∀ v ∈ a, 0 ≤ v ∧ v ≤ k) (hb : ∀ v ∈ b, 0 ≤ v ∧ v ≤ 1) :
    ∀ v ∈ addFields a b, 0 ≤ v ∧ v ≤ k + 1 := by
  unfold addFields
  induction a generalizing b with
  | nil => simp
  | cons x a ih =>
    cases b with
    | nil => simp
    | cons y b =>
      intro v hv
      simp only [List.zipWith_cons_cons, List.mem_cons] at hv
      rcases hv with rfl | hv
      · have h1 := ha x List.mem_cons_self
        have h2 := hb y List.mem_cons_self
        constructor <;> linarith [h1.1, h1.2, h2.1, h2.2]
      · exact ih b (fun v hv => ha v (List.mem_cons_of_mem _ hv))
          (fun v hv => hb v (List.mem_cons_of_mem _ hv)) v hv

theorem addFields_length (a b : List Rat) (h : a.length = b.length) :
    (addFields a b).length = a.length := by
  simp [addFields, h]

theorem foldl_addFields_inv (n : Nat) (fs : List (List Rat)) (acc : List Rat) (k : Rat)
    (hacc : acc.length = n) (hk : ∀ v ∈ acc, 0 ≤ v ∧ v ≤ k)
    (hlen : ∀ f ∈ fs, f.length = n) (hu : ∀ f ∈ fs, ∀ v ∈ f, 0 ≤ v ∧ v ≤ 1) :
    (fs.foldl addFields acc).length = n ∧
      ∀ v ∈ fs.foldl addFields acc, 0 ≤ v ∧ v ≤ k + (fs.length : Rat) := by
  induction fs generalizing acc k with
  | nil => simpa [hacc] using hk
  | cons f fs ih =>
    have hf := hlen f List.mem_cons_self
    have h := ih (addFields acc f) (k + 1)
      (by rw [addFields_length _ _ (by rw [hacc, hf]), hacc])
      (addFields_bound k acc f hk (hu f List.mem_cons_self))
      (fun g hg => hlen g (List.mem_cons_of_mem _ hg))
      (fun g hg => hu g (List.mem_cons_of_mem _ hg))
    refine ⟨h.1, ?_⟩
    intro v hv
    have := h.2 v hv
    simp only [List.length_cons, Nat.cast_add, Nat.cast_one]
    constructor
    · exact this.1
    · linarith [this.2]

theorem foldl_addFields_length (n : Nat) (fs : List (List Rat)) (acc : List Rat)
    (hacc : acc.length = n) (hlen : ∀ f ∈ fs, f.length = n) :
    (fs.foldl addFields acc).length = n := by
  induction fs generalizing acc with
  | nil => simpa using hacc
  | cons f fs ih =>
    have hf := hlen f List.mem_cons_self
    exact ih (addFields acc f) (by rw [addFields_length _ _ (by rw [hacc, hf]), hacc])
      (fun g hg => hlen g (List.mem_cons_of_mem _ hg))

theorem meanFields_length (n : Nat) (fs : List (List Rat)) (hlen : ∀ f ∈ fs, f.length = n) :
    (meanFields n fs).length = n := by
  unfold meanFields
  rw [List.length_map]
  exact foldl_addFields_length n fs _ (by simp) hlen

/-- the mean of values in `[0, 1]` lies in `[0, 1]` -/
theorem meanFields_mem_unit (n : Nat) (fs : List (List Rat)) (hne : fs ≠ [])
    (hlen : ∀ f ∈ fs, f.length = n) (hu : ∀ f ∈ fs, ∀ v ∈ f, 0 ≤ v ∧ v ≤ 1) :
    ∀ v ∈ meanFields n fs, 0 ≤ v ∧ v ≤ 1 := by
  intro v hv
  unfold meanFields at hv
  rw [List.mem_map] at hv
  obtain ⟨w, hw, rfl⟩ := hv
  have hb := (foldl_addFields_inv n fs (List.replicate n 0) 0 (by simp)
    (by intro v hv; rw [List.eq_of_mem_replicate hv]; constructor <;> norm_num) hlen hu).2 w hw
  rw [zero_add] at hb
  have hpos : (0 : Rat) < (fs.length : Rat) := by
    have : 0 < fs.length := List.length_pos_iff.mpr hne
    exact_mod_cast this
  constructor
  · exact div_nonneg hb.1 hpos.le
  · rw [div_le_one hpos]; exact hb.2

/-! ### half-plane tests versus their definition -/

theorem hp_even_iff {a c s x y : Rat} (ha : 0 ≤ a) :
    hp true a (c, s) x y = true ↔ (-a ≤ c * x + s * y ∧ c * x + s * y ≤ a) := by
  show decide (sq (c * x + s * y) ≤ sq a) = true ↔ _
  rw [decide_eq_true_iff]
  unfold sq
  generalize c * x + s * y = t
  constructor
  · intro h
    constructor <;> nlinarith
  · rintro ⟨h1, h2⟩
    nlinarith

theorem hp_odd_iff {a c s x y : Rat} :
    hp false a (c, s) x y = true ↔ (s * x - c * y ≤ a ∧ -(s * x) - c * y ≤ a) := by
  show decide (rabs (s * x) - c * y ≤ a) = true ↔ _
  rw [decide_eq_true_iff]
  unfold rabs
  split_ifs with h <;> constructor
  · intro h'; constructor <;> linarith
  · rintro ⟨h1, h2⟩; linarith
  · intro h'; constructor <;> linarith
  · rintro ⟨h1, h2⟩; linarith

theorem polar_shortcut {ρ R x y : Rat} (hr : 0 ≤ ρ) (hR : 0 ≤ R) (h : sq ρ = sq x + sq y) :
    (ρ ≤ R ↔ sq x + sq y ≤ sq R) := by
  rw [← h]
  unfold sq
  exact (mul_self_le_mul_self_iff hr hR)

/-! ## D. counterexamples for the shipped behaviour -/

theorem circlePolarOld_counterexample :
    ∃ r cx cy p, circlePolarOld r cx cy p ≠ inCircle r cx cy p := by
  refine ⟨1, 3, 0, (3, 0), ?_⟩
  simp [circlePolarOld, inCircle, sq]
  norm_num

theorem regpolySlowOld_counterexample :
    ∃ even r a dirs cx cy pts,
      regpolySlowOld even r a dirs cx cy pts ≠ pts.map (val (.regpoly even r a dirs cx cy)) := by
  refine ⟨true, 1, 7/10, [(1, 0), (0, 1)], 3, 0, [((3 : Rat), (0 : Rat))], ?_⟩
  simp [regpolySlowOld, val, inRegpoly, inRect, allHp, hp, rabs, sq, b2r]
  norm_num

/-! ## E. bounding box of the irregular polygon (y direction) -/

theorem mem_of_mem_edges {vs : List Pt} {e : Pt × Pt} (he : e ∈ edges vs) :
    e.1 ∈ vs ∧ e.2 ∈ vs := by
  cases vs with
  | nil => simp [edges] at he
  | cons v vs =>
    obtain ⟨a, b⟩ := e
    have := List.of_mem_zip he
    refine ⟨this.1, ?_⟩
    have h2 := this.2
    simp only [List.mem_append, List.mem_singleton] at h2
    rcases h2 with h2 | h2
    · exact List.mem_cons_of_mem _ h2
    · rw [h2]; exact List.mem_cons_self

/-- an edge must straddle the horizontal line through an interior point -/
theorem containsPt_bbox_y_partial {vs : List Pt} {p : Pt} (h : containsPt vs p = true) :
    (∃ v ∈ vs, v.2 ≤ p.2) ∧ (∃ w ∈ vs, p.2 < w.2) := by
  unfold containsPt crossings at h
  have hpos : 0 < ((edges vs).filter fun e => edgeCross p e.1 e.2).length := by
    rcases Nat.eq_zero_or_pos ((edges vs).filter fun e => edgeCross p e.1 e.2).length with h0 | h0
    · rw [h0] at h; simp at h
    · exact h0
  obtain ⟨e, he⟩ := List.exists_mem_of_length_pos hpos
  rw [List.mem_filter] at he
  obtain ⟨hmem, hc⟩ := he
  obtain ⟨h1, h2⟩ := mem_of_mem_edges hmem
  unfold edgeCross at hc
  simp only [Bool.and_eq_true, bne_iff_ne, ne_eq, decide_eq_decide] at hc
  have hne := hc.1
  by_cases hv : e.1.2 ≤ p.2
  · have hw : ¬ e.2.2 ≤ p.2 := fun hw => hne ⟨fun _ => hw, fun _ => hv⟩
    exact ⟨⟨e.1, h1, hv⟩, ⟨e.2, h2, not_le.mp hw⟩⟩
  · have hw : e.2.2 ≤ p.2 := by
      by_contra hw
      exact hne ⟨fun h' => absurd h' hv, fun h' => absurd h' hw⟩
    exact ⟨⟨e.2, h2, hw⟩, ⟨e.1, h1, not_le.mp hv⟩⟩

end HcipyVerif.Aperture
