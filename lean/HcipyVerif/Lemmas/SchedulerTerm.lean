import HcipyVerif.Lemmas.SchedulerCount
import Mathlib.Data.Rat.Floor
import Mathlib.Algebra.Order.Floor.Semiring

/-! Helper lemmas for C20, termination: a weight (potential) on the queue that every executed
callback strictly decreases. -/
set_option linter.unusedSimpArgs false
set_option linter.unusedVariables false

namespace HcipyVerif.Scheduler

/-- total weight of a queue -/
def potential (w : Entry → Nat) (l : List Entry) : Nat := (l.map w).sum

theorem potential_cons (w : Entry → Nat) (e : Entry) (l : List Entry) :
    potential w (e :: l) = w e + potential w l := by simp [potential]

theorem potential_append (w : Entry → Nat) (a b : List Entry) :
    potential w (a ++ b) = potential w a + potential w b := by simp [potential]

theorem potential_perm (w : Entry → Nat) {a b : List Entry} (h : a.Perm b) :
    potential w a = potential w b := by
  induction h with
  | nil => rfl
  | cons x _ ih => simp only [potential_cons, ih]
  | swap x y l => simp only [potential_cons]; omega
  | trans _ _ ih1 ih2 => rw [ih1, ih2]

theorem potential_le_length_mul (w : Entry → Nat) (l : List Entry) (M : Nat) (h : ∀ q ∈ l, w q ≤ M) :
    potential w l ≤ l.length * M := by
  induction l with
  | nil => simp [potential]
  | cons x xs ih =>
    have h1 := h x (by simp)
    have h2 := ih (fun q hq => h q (by simp [hq]))
    simp only [potential_cons, List.length_cons, Nat.succ_mul]
    omega

/-- **Termination from a weight.**  If every callback due before the horizon schedules children of
total weight strictly below its own (whatever counters they receive), the loop ends normally for
every fuel above the weight of the queue. -/
theorem loop_terminates_of_weight {kids : Entry → List (Rat × Nat)} {T : Rat} (w : Entry → Nat)
    (hw : ∀ e c, e.time < T → potential w (mkEntries c (kids e)) < w e) :
    ∀ fuel s, potential w s.queue < fuel → (loop kids T fuel s).status = .ok := by
  intro fuel
  induction fuel with
  | zero => intro s h; omega
  | succ fuel ih =>
    intro s h
    match hq : s.queue with
    | [] => rw [loop_stop (Or.inl hq)]
    | e :: rest =>
      by_cases ht : e.time < T
      · rw [loop_cons_status hq ht]
        apply ih
        rw [potential_perm w (next_queue_perm kids s e rest), potential_append]
        rw [hq, potential_cons] at h
        have := hw e s.ctr ht
        omega
      · rw [loop_stop (Or.inr ⟨e, rest, hq, ht⟩)]

/-- number of nodes of the complete `B`-ary tree of depth `n`: `1 + B + … + B^(n-1)` -/
def geom (B : Nat) : Nat → Nat
  | 0 => 0
  | n + 1 => 1 + B * geom B n

theorem geom_one (n : Nat) : geom 1 n = n := by
  induction n with
  | zero => rfl
  | succ n ih => simp [geom, ih]; omega

theorem geom_le_succ (B n : Nat) : geom B n ≤ geom B (n + 1) := by
  induction n with
  | zero => simp [geom]
  | succ n ih =>
    have : B * geom B n ≤ B * geom B (n + 1) := Nat.mul_le_mul_left B ih
    simp only [geom] at this ⊢
    omega

theorem geom_mono (B : Nat) {m n : Nat} (h : m ≤ n) : geom B m ≤ geom B n := by
  induction h with
  | refl => exact le_refl _
  | step _ ih => exact le_trans ih (geom_le_succ B _)

/-- how many periods of length `δ` fit (rounded up) between `time` and the horizon; `0` at or
beyond the horizon -/
def level (δ T time : Rat) : Nat := ⌈(T - time) / δ⌉₊

theorem level_pos {δ T time : Rat} (hδ : 0 < δ) (h : time < T) : 1 ≤ level δ T time := by
  unfold level
  rw [Nat.one_le_ceil_iff]
  exact div_pos (by linarith) hδ

theorem level_eq_zero {δ T time : Rat} (hδ : 0 < δ) (h : T ≤ time) : level δ T time = 0 := by
  unfold level
  rw [Nat.ceil_eq_zero]
  exact div_nonpos_of_nonpos_of_nonneg (by linarith) (le_of_lt hδ)

/-- a child scheduled at least `δ` after its parent is at least one level lower -/
theorem level_child {δ T t t' : Rat} (hδ : 0 < δ) (h : t + δ ≤ t') {n : Nat}
    (hn : level δ T t = n + 1) : level δ T t' ≤ n := by
  unfold level at *
  rw [Nat.ceil_le]
  have h1 : (T - t) / δ ≤ ((n + 1 : Nat) : Rat) := by rw [← hn]; exact Nat.le_ceil _
  have h2 : (T - t') / δ ≤ (T - t) / δ - 1 := by
    rw [div_sub_one (ne_of_gt hδ)]
    exact div_le_div_of_nonneg_right (by linarith) (le_of_lt hδ)
  push_cast at h1
  linarith

theorem progress_weight {kids : Entry → List (Rat × Nat)} {δ T : Rat} {B : Nat} (hδ : 0 < δ)
    (hprog : ∀ e, e.time < T → ∀ c ∈ kids e, e.time + δ ≤ c.1)
    (hB : ∀ e, e.time < T → (kids e).length ≤ B) :
    ∀ e c, e.time < T → potential (fun q => geom B (level δ T q.time)) (mkEntries c (kids e)) <
      geom B (level δ T e.time) := by
  intro e c ht
  obtain ⟨n, hn⟩ : ∃ n, level δ T e.time = n + 1 :=
    ⟨level δ T e.time - 1, by have := level_pos hδ ht; omega⟩
  have hb := potential_le_length_mul (fun q => geom B (level δ T q.time)) (mkEntries c (kids e))
    (geom B n) (by
      intro q hq
      have hm := (mem_mkEntries hq).1
      exact geom_mono B (level_child hδ (hprog e ht _ hm) hn))
  rw [mkEntries_length] at hb
  have : (kids e).length * geom B n ≤ B * geom B n := Nat.mul_le_mul_right _ (hB e ht)
  rw [hn]
  simp only [geom]
  omega

/-! ### The zero-delay DAG class (round 6) -/

/-- the weight of the DAG class: `(B+1)^(N - id)` -/
def dagWeight (B N : Nat) (q : Entry) : Nat := (B + 1) ^ (N - q.id)

theorem dag_weight {kids : Entry → List (Rat × Nat)} {T : Rat} {B N : Nat}
    (hB : ∀ e, e.time < T → (kids e).length ≤ B)
    (hdag : ∀ e, e.time < T → ∀ c ∈ kids e, e.id < c.2 ∧ c.2 < N) :
    ∀ e c, e.time < T → potential (dagWeight B N) (mkEntries c (kids e)) < dagWeight B N e := by
  intro e c ht
  by_cases hk : kids e = []
  · simp [hk, mkEntries, potential, dagWeight]
  · obtain ⟨c0, hc0⟩ := List.exists_mem_of_ne_nil _ hk
    have hlt : e.id < N := by have := hdag e ht c0 hc0; omega
    obtain ⟨m, hm⟩ : ∃ m, N - e.id = m + 1 := ⟨N - e.id - 1, by omega⟩
    have hb := potential_le_length_mul (dagWeight B N) (mkEntries c (kids e)) ((B + 1) ^ m) (by
      intro q hq
      obtain ⟨p, hp, hpid⟩ : ∃ p ∈ kids e, q.id = p.2 := by
        have := mem_mkEntries hq
        exact ⟨_, this.1, rfl⟩
      have := hdag e ht p hp
      unfold dagWeight
      exact Nat.pow_le_pow_right (by omega) (by omega))
    rw [mkEntries_length] at hb
    have h2 : (kids e).length * (B + 1) ^ m ≤ B * (B + 1) ^ m := Nat.mul_le_mul_right _ (hB e ht)
    have hpos : 0 < (B + 1) ^ m := Nat.pow_pos (by omega)
    unfold dagWeight at hb ⊢
    rw [hm, pow_succ]
    nlinarith

end HcipyVerif.Scheduler
