import HcipyVerif.Lemmas.Scheduler

/-! Helper lemmas for C20, tiling: clock-consistent traces and the interval list they induce. -/
set_option linter.unusedSimpArgs false
set_option linter.unusedVariables false

namespace HcipyVerif.Scheduler

/-- `Consistent t tr t'`: replaying `tr` from clock `t` ends at clock `t'`; every integration is
longer than the coalescing threshold and every callback saw exactly the running clock. -/
def Consistent : Rat → List Event → Rat → Prop
  | t, [], t' => t = t'
  | t, Event.integrate dt :: tr, t' => eps < dt ∧ Consistent (t + dt) tr t'
  | t, Event.fire _ clk :: tr, t' => clk = t ∧ Consistent t tr t'

/-- `Tiles a b l`: the intervals of `l` are laid end to end from `a` to `b`, each one starting where
the previous one ended, each longer than `eps`.  (`l = []` forces `a = b`.) -/
def Tiles : Rat → Rat → List (Rat × Rat) → Prop
  | a, b, [] => a = b
  | a, b, p :: rest => p.1 = a ∧ eps < p.2 - p.1 ∧ Tiles p.2 b rest

theorem eps_pos : (0 : Rat) < eps := by unfold eps; norm_num

theorem Consistent.append {t t' t'' : Rat} {a b : List Event} (ha : Consistent t a t')
    (hb : Consistent t' b t'') : Consistent t (a ++ b) t'' := by
  induction a generalizing t with
  | nil => simp only [Consistent] at ha; subst ha; simpa using hb
  | cons x xs ih =>
    cases x with
    | integrate dt => exact ⟨ha.1, ih ha.2⟩
    | fire e clk => exact ⟨ha.1, ih ha.2⟩

theorem Consistent.split {t t'' : Rat} {a b : List Event} (h : Consistent t (a ++ b) t'') :
    Consistent t a (t + sumDt a) ∧ Consistent (t + sumDt a) b t'' := by
  induction a generalizing t with
  | nil => simpa [Consistent, sumDt] using h
  | cons x xs ih =>
    cases x with
    | integrate dt =>
      obtain ⟨h1, h2⟩ := h
      have := ih h2
      simp only [sumDt, Consistent]
      rw [← add_assoc]
      exact ⟨⟨h1, this.1⟩, this.2⟩
    | fire e clk =>
      obtain ⟨h1, h2⟩ := h
      have := ih h2
      simp only [sumDt, Consistent]
      exact ⟨⟨h1, this.1⟩, this.2⟩

theorem Consistent.end_eq {t t' : Rat} {tr : List Event} (h : Consistent t tr t') :
    t' = t + sumDt tr := by
  induction tr generalizing t with
  | nil => simp only [Consistent] at h; simp [sumDt, h]
  | cons x xs ih =>
    cases x with
    | integrate dt => rw [ih h.2]; simp only [sumDt]; ring
    | fire e clk => rw [ih h.2]; simp only [sumDt]

/-- callbacks run at interval boundaries: the clock a callback saw is the start clock plus all
integration done before it -/
theorem Consistent.fire_clock {t t' : Rat} {tr : List Event} (h : Consistent t tr t')
    {pre post : List Event} {e : Entry} {clk : Rat} (hs : tr = pre ++ Event.fire e clk :: post) :
    clk = t + sumDt pre := by
  subst hs
  exact (Consistent.split h).2.1

theorem Consistent.tiles {t t' : Rat} {tr : List Event} (h : Consistent t tr t') :
    Tiles t t' (intervals t tr) := by
  induction tr generalizing t with
  | nil => simpa [Consistent, intervals, Tiles] using h
  | cons x xs ih =>
    cases x with
    | integrate dt =>
      simp only [intervals, Tiles]
      exact ⟨trivial, by have := h.1; linarith, ih h.2⟩
    | fire e clk => simp only [intervals]; exact ih h.2

theorem intervals_append (t : Rat) (a b : List Event) :
    intervals t (a ++ b) = intervals t a ++ intervals (t + sumDt a) b := by
  induction a generalizing t with
  | nil => simp [intervals, sumDt]
  | cons x xs ih =>
    cases x with
    | integrate dt => simp only [List.cons_append, intervals, ih, sumDt, add_assoc]
    | fire e clk => simp only [List.cons_append, intervals, ih, sumDt]

theorem intervals_length (t : Rat) (tr : List Event) :
    (intervals t tr).length = (tr.filter (fun ev => match ev with | .integrate _ => true | _ => false)).length := by
  induction tr generalizing t with
  | nil => rfl
  | cons x xs ih => cases x <;> simp [intervals, ih]

/-! #### what `Tiles` means, spelled out -/

theorem Tiles.le {a b : Rat} {l : List (Rat × Rat)} (h : Tiles a b l) : a ≤ b := by
  induction l generalizing a with
  | nil => simp only [Tiles] at h; exact le_of_eq h
  | cons p rest ih =>
    obtain ⟨h1, h2, h3⟩ := h
    have := ih h3
    have := eps_pos
    linarith

/-- each interval is longer than the threshold -/
theorem Tiles.long {a b : Rat} {l : List (Rat × Rat)} (h : Tiles a b l) :
    ∀ p ∈ l, eps < p.2 - p.1 := by
  induction l generalizing a with
  | nil => simp
  | cons p rest ih =>
    obtain ⟨h1, h2, h3⟩ := h
    intro q hq
    rcases List.mem_cons.mp hq with rfl | hq
    · exact h2
    · exact ih h3 q hq

/-- the first interval starts at `a` -/
theorem Tiles.head {a b : Rat} {l : List (Rat × Rat)} (h : Tiles a b l) :
    ∀ p ∈ l.head?, p.1 = a := by
  cases l with
  | nil => simp
  | cons p rest => simp only [List.head?_cons, Option.mem_def, Option.some.injEq]; rintro q rfl; exact h.1

/-- the last interval ends at `b` -/
theorem Tiles.last {a b : Rat} {l : List (Rat × Rat)} (h : Tiles a b l) :
    ∀ p ∈ l.getLast?, p.2 = b := by
  induction l generalizing a with
  | nil => simp
  | cons p rest ih =>
    obtain ⟨h1, h2, h3⟩ := h
    cases rest with
    | nil => simp only [Tiles] at h3; simp [h3]
    | cons q rest' =>
      rw [List.getLast?_cons_cons]
      exact ih h3

/-- no interval at all means the clock did not move -/
theorem Tiles.nil_iff {a b : Rat} : Tiles a b [] ↔ a = b := Iff.rfl

/-- consecutive intervals abut: the end of one is the start of the next -/
theorem Tiles.abut {a b : Rat} {l : List (Rat × Rat)} (h : Tiles a b l) :
    ∀ i (hi : i + 1 < l.length), (l[i]'(by omega)).2 = (l[i + 1]).1 := by
  induction l generalizing a with
  | nil => simp
  | cons p rest ih =>
    obtain ⟨h1, h2, h3⟩ := h
    intro i hi
    cases i with
    | zero =>
      cases rest with
      | nil => simp at hi
      | cons q rest' => simp only [List.getElem_cons_zero, List.getElem_cons_succ]; exact h3.1.symm
    | succ j =>
      simp only [List.getElem_cons_succ]
      exact ih h3 j (by simpa using hi)

/-- **No gap, no overlap**: an instant in `[a, b)` lies in exactly one interval `[start, end)`,
an instant outside lies in none. -/
theorem Tiles.cover_once {a b : Rat} {l : List (Rat × Rat)} (h : Tiles a b l) (τ : Rat) :
    l.countP (fun p => decide (p.1 ≤ τ ∧ τ < p.2)) = if a ≤ τ ∧ τ < b then 1 else 0 := by
  induction l generalizing a with
  | nil =>
    simp only [Tiles] at h; subst h
    simp only [List.countP_nil]
    split
    · rename_i h; linarith [h.1, h.2]
    · rfl
  | cons p rest ih =>
    obtain ⟨h1, h2, h3⟩ := h
    have hle := h3.le
    have hpos := eps_pos
    rw [List.countP_cons, ih h3]
    subst h1
    by_cases c1 : p.1 ≤ τ
    · by_cases c2 : τ < p.2
      · have : ¬ (p.2 ≤ τ ∧ τ < b) := fun hh => absurd c2 (not_lt.mpr hh.1)
        have c3 : τ < b := lt_of_lt_of_le c2 hle
        simp [c1, c2, this, c3]
      · have c2' : p.2 ≤ τ := not_lt.mp c2
        by_cases c3 : τ < b <;> simp [c1, c2, c2', c3]
    · have : ¬ p.2 ≤ τ := fun hh => c1 (by linarith)
      simp [c1, this]

/-! #### the loop produces a consistent trace -/

theorem advance_consistent (s : Sys) (dt : Rat) :
    Consistent s.t (advance s dt).2 (advance s dt).1.t := by
  unfold advance; split
  · rename_i h; exact ⟨h, rfl⟩
  · rfl

theorem loop_consistent (kids : Entry → List (Rat × Nat)) (T : Rat) (fuel : Nat) (s : Sys) :
    Consistent s.t (loop kids T fuel s).trace (loop kids T fuel s).s.t := by
  induction fuel generalizing s with
  | zero => simp [loop, Consistent]
  | succ fuel ih =>
    match hq : s.queue with
    | [] => rw [loop_stop (Or.inl hq)]; exact advance_consistent s _
    | e :: rest =>
      by_cases ht : e.time < T
      · simp only [loop_cons_s hq ht, loop_cons_trace hq ht]
        refine Consistent.append (advance_consistent { s with queue := rest } _) ?_
        refine ⟨rfl, ?_⟩
        have := ih (next kids s e rest)
        simpa only [next, addAll_t] using this
      · rw [loop_stop (Or.inr ⟨e, rest, hq, ht⟩)]; exact advance_consistent s _

theorem loop_t_mono (kids : Entry → List (Rat × Nat)) (T : Rat) (fuel : Nat) (s : Sys) :
    s.t ≤ (loop kids T fuel s).s.t :=
  (loop_consistent kids T fuel s).tiles.le

end HcipyVerif.Scheduler
