import Mathlib.Analysis.Complex.Trigonometric
import Mathlib.Analysis.Complex.Basic
import Mathlib.Analysis.Real.Sqrt
import Mathlib.Analysis.SpecialFunctions.Trigonometric.Basic
import Mathlib.Algebra.BigOperators.Group.Finset.Piecewise
import Mathlib.Algebra.Module.LinearMap.Defs
import Mathlib.Algebra.Module.Pi
import Mathlib.Algebra.Order.Field.Rat
import Mathlib.Tactic.Ring
import Mathlib.Tactic.Linarith
import Mathlib.Tactic.FieldSimp
import HcipyVerif.Model.NearField

/-!
# C04 — the `FourierFilter` operator over an abstract Fourier pair

`FourierFilter._operation` (hcipy/fourier/fourier_operations.py) is

  `T_D x = crop (ifftn (D · fftn (pad x)))`,   backward: the same with `conj D`.

Everything here is linear algebra over `ℂ` on finite index types: `ι` indexes the input grid, `μ` the
zero-padded internal grid, `e : ι → μ` is the cut-out (injective; bijective when nothing is padded).
What is needed about `fftn`/`ifftn` is collected in the structure `FourierPair`; its fields are the
hypotheses that C01/C02's DFT theorems discharge for `F = fftn`, `Finv = ifftn`, `c = ∏ M_i`.
-/

set_option linter.unusedSimpArgs false
set_option linter.unusedVariables false
set_option linter.unusedSectionVars false

open Finset Complex ComplexConjugate

namespace HcipyVerif.NearField

variable {ι μ τ : Type*} [Fintype ι] [Fintype μ] [Fintype τ] [DecidableEq μ]

/-- `⟨x, y⟩ = Σ conj(x i) · y i` (conjugate-linear in the first argument). -/
noncomputable def ip {α : Type*} [Fintype α] (x y : α → ℂ) : ℂ := ∑ i, conj (x i) * y i

/-- `‖x‖² = Σ |x i|²` — total power up to the (uniform) grid weight. -/
noncomputable def nsq {α : Type*} [Fintype α] (x : α → ℂ) : ℝ := ∑ i, ‖x i‖ ^ 2

/-- Zero-padding: write `x` into the cut-out `e` of an all-zero internal array. -/
noncomputable def pad (e : ι → μ) (x : ι → ℂ) : μ → ℂ := fun m => ∑ j, if e j = m then x j else 0

/-- Cropping: read the cut-out back. -/
def crop (e : ι → μ) (y : μ → ℂ) : ι → ℂ := fun j => y (e j)

/-- Pointwise multiplication by the (ifftshifted) transfer function. -/
def mulD (D : μ → ℂ) (y : μ → ℂ) : μ → ℂ := fun m => D m * y m

/-- What the filter needs to know about `fftn` / `ifftn` on the internal grid.

* `Finv_F`, `F_Finv` : `ifftn` inverts `fftn` (C02 `full_grid_inverse` on the internal grid);
* `adj` : `⟨y, F x⟩ = c ⟨F⁻¹ y, x⟩`, i.e. `F⁻¹ = c⁻¹ F†` with `c = ∏ M_i > 0` (C02 `adjoint_sum` /
  `parseval_full` for the unnormalised DFT). -/
structure FourierPair (μ : Type*) [Fintype μ] where
  F : (μ → ℂ) →ₗ[ℂ] (μ → ℂ)
  Finv : (μ → ℂ) →ₗ[ℂ] (μ → ℂ)
  c : ℝ
  c_pos : 0 < c
  Finv_F : ∀ x, Finv (F x) = x
  F_Finv : ∀ y, F (Finv y) = y
  adj : ∀ x y, ip y (F x) = (c : ℂ) * ip (Finv y) x

/-- `T_D = P† F⁻¹ D F P` exactly as `FourierFilter._operation` composes it. -/
noncomputable def filter (P : FourierPair μ) (e : ι → μ) (D : μ → ℂ) (x : ι → ℂ) : ι → ℂ :=
  crop e (P.Finv (mulD D (P.F (pad e x))))

/-- `FourierFilter.backward`: the same pipeline with the conjugated transfer function. -/
noncomputable def filterBackward (P : FourierPair μ) (e : ι → μ) (D : μ → ℂ) (x : ι → ℂ) : ι → ℂ :=
  filter P e (fun m => conj (D m)) x

/-! ### inner product and norm -/

theorem ip_conj {α : Type*} [Fintype α] (x y : α → ℂ) : conj (ip x y) = ip y x := by
  unfold ip
  rw [map_sum]
  apply Finset.sum_congr rfl
  intro i _
  rw [map_mul, Complex.conj_conj, mul_comm]

theorem ip_self {α : Type*} [Fintype α] (x : α → ℂ) : ip x x = ((nsq x : ℝ) : ℂ) := by
  unfold ip nsq
  rw [Complex.ofReal_sum]
  apply Finset.sum_congr rfl
  intro i _
  rw [Complex.conj_mul', Complex.ofReal_pow]

theorem nsq_nonneg {α : Type*} [Fintype α] (x : α → ℂ) : 0 ≤ nsq x :=
  Finset.sum_nonneg fun i _ => by positivity

theorem ip_add_right {α : Type*} [Fintype α] (x y z : α → ℂ) : ip x (y + z) = ip x y + ip x z := by
  unfold ip
  rw [← Finset.sum_add_distrib]
  apply Finset.sum_congr rfl
  intro i _
  simp only [Pi.add_apply]; ring

theorem ip_smul_right {α : Type*} [Fintype α] (a : ℂ) (x y : α → ℂ) : ip x (a • y) = a * ip x y := by
  unfold ip
  rw [Finset.mul_sum]
  apply Finset.sum_congr rfl
  intro i _
  simp only [Pi.smul_apply, smul_eq_mul]; ring

/-! ### padding and cropping -/

theorem pad_apply_of_inj {e : ι → μ} (he : Function.Injective e) (x : ι → ℂ) (j : ι) :
    pad e x (e j) = x j := by
  unfold pad
  rw [Finset.sum_eq_single j]
  · simp
  · intro b _ hb
    rw [if_neg]
    intro h; exact hb (he h)
  · intro h; exact absurd (Finset.mem_univ j) h

theorem crop_pad {e : ι → μ} (he : Function.Injective e) (x : ι → ℂ) : crop e (pad e x) = x := by
  funext j; exact pad_apply_of_inj he x j

theorem pad_crop {e : ι → μ} (he : Function.Bijective e) (y : μ → ℂ) : pad e (crop e y) = y := by
  funext m
  obtain ⟨j, rfl⟩ := he.2 m
  exact pad_apply_of_inj he.1 (crop e y) j

theorem pad_add (e : ι → μ) (x y : ι → ℂ) : pad e (x + y) = pad e x + pad e y := by
  funext m
  simp only [pad, Pi.add_apply]
  rw [← Finset.sum_add_distrib]
  apply Finset.sum_congr rfl
  intro j _
  split <;> simp

theorem pad_smul (e : ι → μ) (a : ℂ) (x : ι → ℂ) : pad e (a • x) = a • pad e x := by
  funext m
  simp only [pad, Pi.smul_apply, smul_eq_mul]
  rw [Finset.mul_sum]
  apply Finset.sum_congr rfl
  intro j _
  split <;> simp

theorem crop_add (e : ι → μ) (x y : μ → ℂ) : crop e (x + y) = crop e x + crop e y := rfl
theorem crop_smul (e : ι → μ) (a : ℂ) (x : μ → ℂ) : crop e (a • x) = a • crop e x := rfl

theorem mulD_add (D x y : μ → ℂ) : mulD D (x + y) = mulD D x + mulD D y := by
  funext m; simp only [mulD, Pi.add_apply]; ring

theorem mulD_smul (D : μ → ℂ) (a : ℂ) (x : μ → ℂ) : mulD D (a • x) = a • mulD D x := by
  funext m; simp only [mulD, Pi.smul_apply, smul_eq_mul]; ring

/-- `P†` is the adjoint of `P`:  `⟨P y, z⟩ = ⟨y, P† z⟩`. -/
theorem ip_pad_left (e : ι → μ) (y : ι → ℂ) (z : μ → ℂ) : ip (pad e y) z = ip y (crop e z) := by
  unfold ip pad crop
  simp only [map_sum, Finset.sum_mul]
  rw [Finset.sum_comm]
  apply Finset.sum_congr rfl
  intro j _
  rw [Finset.sum_eq_single (e j)]
  · simp
  · intro m _ hm
    rw [if_neg (Ne.symm hm)]; simp
  · intro h; exact absurd (Finset.mem_univ _) h

theorem ip_pad_right (e : ι → μ) (z : μ → ℂ) (x : ι → ℂ) : ip z (pad e x) = ip (crop e z) x := by
  rw [← ip_conj, ip_pad_left, ip_conj]

theorem nsq_pad {e : ι → μ} (he : Function.Injective e) (x : ι → ℂ) : nsq (pad e x) = nsq x := by
  have h : ip (pad e x) (pad e x) = ip x x := by rw [ip_pad_left, crop_pad he]
  rw [ip_self, ip_self] at h
  exact_mod_cast h

theorem nsq_crop_le {e : ι → μ} (he : Function.Injective e) (z : μ → ℂ) : nsq (crop e z) ≤ nsq z := by
  unfold nsq crop
  calc ∑ j, ‖z (e j)‖ ^ 2 = ∑ m ∈ Finset.univ.image e, ‖z m‖ ^ 2 := by
        rw [Finset.sum_image]; intro a _ b _ h; exact he h
    _ ≤ ∑ m, ‖z m‖ ^ 2 :=
        Finset.sum_le_sum_of_subset_of_nonneg (Finset.subset_univ _) (fun m _ _ => by positivity)

theorem nsq_crop_of_bij {e : ι → μ} (he : Function.Bijective e) (z : μ → ℂ) : nsq (crop e z) = nsq z := by
  unfold nsq crop
  exact Function.Bijective.sum_comp he (fun m => ‖z m‖ ^ 2)

theorem nsq_mulD_le {D : μ → ℂ} (hD : ∀ m, ‖D m‖ ≤ 1) (z : μ → ℂ) : nsq (mulD D z) ≤ nsq z := by
  unfold nsq mulD
  apply Finset.sum_le_sum
  intro m _
  rw [norm_mul, mul_pow]
  have h1 : ‖D m‖ ^ 2 ≤ 1 := pow_le_one₀ (norm_nonneg _) (hD m)
  have h2 : 0 ≤ ‖z m‖ ^ 2 := by positivity
  nlinarith

theorem nsq_mulD_eq {D : μ → ℂ} (hD : ∀ m, ‖D m‖ = 1) (z : μ → ℂ) : nsq (mulD D z) = nsq z := by
  unfold nsq mulD
  apply Finset.sum_congr rfl
  intro m _
  rw [norm_mul, hD m, one_mul]

theorem ip_mulD_right (D a b : μ → ℂ) : ip a (mulD D b) = ip (mulD (fun m => conj (D m)) a) b := by
  unfold ip mulD
  apply Finset.sum_congr rfl
  intro m _
  rw [map_mul, Complex.conj_conj]; ring

/-! ### consequences of the `FourierPair` hypotheses -/

namespace FourierPair
variable (P : FourierPair μ)

theorem adj' (a b : μ → ℂ) : ip (P.F a) b = (P.c : ℂ) * ip a (P.Finv b) := by
  have h := congrArg conj (P.adj a b)
  rw [map_mul, ip_conj, ip_conj, Complex.conj_ofReal] at h
  exact h

theorem ip_Finv_right (a b : μ → ℂ) : ip a (P.Finv b) = (P.c : ℂ)⁻¹ * ip (P.F a) b := by
  have hc : (P.c : ℂ) ≠ 0 := by exact_mod_cast P.c_pos.ne'
  rw [P.adj', ← mul_assoc, inv_mul_cancel₀ hc, one_mul]

theorem nsq_F (z : μ → ℂ) : nsq (P.F z) = P.c * nsq z := by
  have h : ip (P.F z) (P.F z) = (P.c : ℂ) * ip z z := by rw [P.adj, P.Finv_F]
  rw [ip_self, ip_self] at h
  exact_mod_cast h

theorem nsq_Finv (z : μ → ℂ) : nsq (P.Finv z) = P.c⁻¹ * nsq z := by
  have h := P.nsq_F (P.Finv z)
  rw [P.F_Finv] at h
  rw [h, ← mul_assoc, inv_mul_cancel₀ P.c_pos.ne', one_mul]

end FourierPair

/-- With nothing padded (`e` bijective) two filters compose by multiplying their transfer functions. -/
theorem filter_comp (P : FourierPair μ) {e : ι → μ} (he : Function.Bijective e) (D₁ D₂ : μ → ℂ) (x : ι → ℂ) :
    filter P e D₂ (filter P e D₁ x) = filter P e (fun m => D₂ m * D₁ m) x := by
  unfold filter
  rw [pad_crop he, P.F_Finv]
  congr 2
  funext m
  simp only [mulD]; ring

theorem filter_one (P : FourierPair μ) {e : ι → μ} (he : Function.Injective e) (x : ι → ℂ) :
    filter P e (fun _ => 1) x = x := by
  unfold filter
  have : mulD (fun _ => (1 : ℂ)) (P.F (pad e x)) = P.F (pad e x) := by funext m; simp [mulD]
  rw [this, P.Finv_F, crop_pad he]

/-! ### transfer functions -/

/-- Fresnel transfer function, written as the code writes it:
`exp(1j k z) · exp(alpha (kx² + ky²))`, `alpha = -0.5j z / k`; all of `k, z, kx, ky` real. -/
noncomputable def fresnelD (k z kx ky : ℝ) : ℂ :=
  cexp (((k * z : ℝ) : ℂ) * I) * cexp (((-(z / (2 * k)) * (kx * kx + ky * ky) : ℝ) : ℂ) * I)

theorem norm_fresnelD (k z kx ky : ℝ) : ‖fresnelD k z kx ky‖ = 1 := by
  unfold fresnelD
  rw [norm_mul, Complex.norm_exp_ofReal_mul_I, Complex.norm_exp_ofReal_mul_I, one_mul]

theorem conj_exp_ofReal_mul_I (r : ℝ) : conj (cexp ((r : ℂ) * I)) = cexp (((-r : ℝ) : ℂ) * I) := by
  rw [← Complex.exp_conj, map_mul, Complex.conj_ofReal, Complex.conj_I, Complex.ofReal_neg]
  ring_nf

theorem fresnelD_neg (k z kx ky : ℝ) : fresnelD k (-z) kx ky = conj (fresnelD k z kx ky) := by
  unfold fresnelD
  rw [map_mul, conj_exp_ofReal_mul_I, conj_exp_ofReal_mul_I]
  have h1 : k * -z = -(k * z) := by ring
  have h2 : -(-z / (2 * k)) * (kx * kx + ky * ky) = -(-(z / (2 * k)) * (kx * kx + ky * ky)) := by ring
  rw [h1, h2]

theorem fresnelD_add (k z₁ z₂ kx ky : ℝ) :
    fresnelD k z₁ kx ky * fresnelD k z₂ kx ky = fresnelD k (z₁ + z₂) kx ky := by
  unfold fresnelD
  rw [mul_mul_mul_comm, ← Complex.exp_add, ← Complex.exp_add]
  congr 2
  · push_cast; ring
  · push_cast; ring

/-- Mean over the sub-samples of one pixel (`evaluate_supersampled`, statistic `mean`). -/
noncomputable def meanOver {σ : Type*} (S : Finset σ) (f : σ → ℂ) : ℂ := (∑ s ∈ S, f s) / (S.card : ℂ)

theorem norm_meanOver_le_one {σ : Type*} (S : Finset σ) (f : σ → ℂ) (hf : ∀ s ∈ S, ‖f s‖ ≤ 1) :
    ‖meanOver S f‖ ≤ 1 := by
  unfold meanOver
  by_cases hS : S.card = 0
  · simp [hS]
  have hpos : (0 : ℝ) < S.card := by exact_mod_cast Nat.pos_of_ne_zero hS
  rw [norm_div, Complex.norm_natCast, div_le_one hpos]
  calc ‖∑ s ∈ S, f s‖ ≤ ∑ s ∈ S, ‖f s‖ := norm_sum_le _ _
    _ ≤ ∑ s ∈ S, (1 : ℝ) := Finset.sum_le_sum hf
    _ = S.card := by simp

theorem conj_meanOver {σ : Type*} (S : Finset σ) (f : σ → ℂ) :
    conj (meanOver S f) = meanOver S (fun s => conj (f s)) := by
  unfold meanOver
  rw [map_div₀, map_sum, Complex.conj_natCast]

/-- `k_z = sqrt(k² - κ² + 0j)` (numpy's principal square root): real for propagating waves,
`+i·sqrt(κ² - k²)` for evanescent ones. `κ2 = |k⊥|²`. -/
noncomputable def kz (k κ2 : ℝ) : ℂ :=
  if κ2 ≤ k ^ 2 then ((Real.sqrt (k ^ 2 - κ2) : ℝ) : ℂ) else ((Real.sqrt (κ2 - k ^ 2) : ℝ) : ℂ) * I

/-- Angular-spectrum transfer function of the *unrepaired* code: `exp(1j k_z z)`. -/
noncomputable def angularDOld (k z κ2 : ℝ) : ℂ := cexp (I * kz k κ2 * (z : ℂ))

/-- Angular-spectrum transfer function (repaired, finding D30): `k_z` is conjugated for `z < 0`. -/
noncomputable def angularD (k z κ2 : ℝ) : ℂ :=
  cexp (I * (if z < 0 then conj (kz k κ2) else kz k κ2) * (z : ℂ))

theorem angularD_of_propagating {k z κ2 : ℝ} (h : κ2 ≤ k ^ 2) :
    angularD k z κ2 = cexp (((Real.sqrt (k ^ 2 - κ2) * z : ℝ) : ℂ) * I) := by
  unfold angularD kz
  rw [if_pos h, Complex.conj_ofReal, ite_self]
  congr 1; push_cast; ring

theorem angularDOld_of_propagating {k z κ2 : ℝ} (h : κ2 ≤ k ^ 2) :
    angularDOld k z κ2 = cexp (((Real.sqrt (k ^ 2 - κ2) * z : ℝ) : ℂ) * I) := by
  unfold angularDOld kz
  rw [if_pos h]
  congr 1; push_cast; ring

theorem angularD_of_evanescent {k z κ2 : ℝ} (h : ¬ κ2 ≤ k ^ 2) :
    angularD k z κ2 = cexp (((-(Real.sqrt (κ2 - k ^ 2) * |z|) : ℝ) : ℂ)) := by
  unfold angularD kz
  rw [if_neg h]
  by_cases hz : z < 0
  · rw [if_pos hz, abs_of_neg hz, map_mul, Complex.conj_ofReal, Complex.conj_I]
    congr 1; push_cast
    have : I * I = -1 := Complex.I_mul_I
    linear_combination (-(Real.sqrt (κ2 - k ^ 2) : ℂ) * (z : ℂ)) * this
  · rw [if_neg hz, abs_of_nonneg (not_lt.mp hz)]
    congr 1; push_cast
    have : I * I = -1 := Complex.I_mul_I
    linear_combination (Real.sqrt (κ2 - k ^ 2) : ℂ) * (z : ℂ) * this

theorem angularDOld_of_evanescent {k z κ2 : ℝ} (h : ¬ κ2 ≤ k ^ 2) :
    angularDOld k z κ2 = cexp (((-(Real.sqrt (κ2 - k ^ 2) * z) : ℝ) : ℂ)) := by
  unfold angularDOld kz
  rw [if_neg h]
  congr 1; push_cast
  have : I * I = -1 := Complex.I_mul_I
  linear_combination (Real.sqrt (κ2 - k ^ 2) : ℂ) * (z : ℂ) * this

/-! ### the regime predicate of the executable model -/

theorem ratAbs_eq_abs (q : ℚ) : ratAbs q = |q| := by
  unfold ratAbs
  split
  · rename_i h; rw [abs_of_neg h]
  · rename_i h; rw [abs_of_nonneg (not_lt.mp h)]

end HcipyVerif.NearField
