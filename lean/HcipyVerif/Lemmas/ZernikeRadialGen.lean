import HcipyVerif.Lemmas.Zernike
import Mathlib.Tactic.Positivity
import Mathlib.Data.Nat.Factorial.Basic
import Mathlib.Algebra.BigOperators.Intervals
import Mathlib.Algebra.BigOperators.Ring.Finset
import Mathlib.Tactic.Ring
import Mathlib.Tactic.Linarith
import Mathlib.Tactic.FieldSimp

/-! The q-recursive radial polynomial equals the factorial definition, for EVERY radial order
(no bound on `n`): `reducedEval_eq_sum`, `radialEval_eq_sum`. -/
set_option linter.unusedSimpArgs false
set_option linter.unusedVariables false

namespace HcipyVerif.Zernike
open Finset

/-- the coefficient `(-1)^j (w+u+j)! / (j! w! u!)` in additive variables:
`c(n,k,j) = cf (n-k-j) (k-j) j` -/
def cf (w u j : Nat) : Rat :=
  (-1 : Rat) ^ j * ((w + u + j).factorial : Rat) / ((j.factorial : Rat) * (w.factorial : Rat) * (u.factorial : Rat))

/-- the coefficient of `t^(k-j)` in `S_n^{n-2k}` -/
def cc (n k j : Nat) : Rat :=
  (-1 : Rat) ^ j * ((n - j).factorial : Rat) /
    ((j.factorial : Rat) * ((n - k - j).factorial : Rat) * ((k - j).factorial : Rat))

theorem cc_eq_cf (n k j w u : Nat) (hk : k = u + j) (hn : n = w + u + 2 * j) : cc n k j = cf w u j := by
  subst hk hn
  unfold cc cf
  have e1 : w + u + 2 * j - j = w + u + j := by omega
  have e2 : w + u + 2 * j - (u + j) - j = w := by omega
  have e3 : u + j - j = u := by omega
  rw [e1, e2, e3]

/-- interior coefficient identity, `1 ≤ j ≤ k` (`j = i + 1`, `u = k - j`, `n = 2k + 4 + d`) -/
theorem cf_step_interior (u d i : Nat) (p q : Rat)
    (hp : p = 2 * (u : Rat) + d + 2 * i + 6) (hq : q = (d : Rat) + 4) :
    cf (u + d + 2) (u + 2) (i + 1) =
      h1 p q * cf (u + d + 4) u (i + 1) + h2 p q * cf (u + d + 3) (u + 1) (i + 1)
        + h3 p q * cf (u + d + 4) (u + 2) i := by
  have e1 : p + q - 2 = 2 * ((u : Rat) + d + i + 4) := by rw [hp, hq]; ring
  have e2 : p - q + 4 = 2 * ((u : Rat) + i + 3) := by rw [hp, hq]; ring
  have e3 : q - 1 = (d : Rat) + 3 := by rw [hq]; ring
  unfold h1 h2 h3
  rw [e1, e2, e3]
  subst hp hq
  unfold cf
  have f1 : u + d + 2 + (u + 2) + (i + 1) = (2 * u + d + i + 4) + 1 := by omega
  have f2 : u + d + 4 + u + (i + 1) = (2 * u + d + i + 4) + 1 := by omega
  have f3 : u + d + 3 + (u + 1) + (i + 1) = (2 * u + d + i + 4) + 1 := by omega
  have f4 : u + d + 4 + (u + 2) + i = (2 * u + d + i + 4) + 1 + 1 := by omega
  rw [f1, f2, f3, f4]
  have g1 : u + d + 4 = (u + d + 2) + 1 + 1 := by omega
  have g2 : u + d + 3 = (u + d + 2) + 1 := by omega
  rw [g1, g2]
  have hA0 : ((2 * u + d + i).factorial : Rat) ≠ 0 := by positivity
  have hB0 : ((u + d).factorial : Rat) ≠ 0 := by positivity
  have hC0 : (u.factorial : Rat) ≠ 0 := by positivity
  have hD0 : (i.factorial : Rat) ≠ 0 := by positivity
  revert hA0 hB0 hC0 hD0
  simp only [Nat.factorial_succ]
  push_cast
  generalize ((2 * u + d + i).factorial : Rat) = A
  generalize ((u + d).factorial : Rat) = B
  generalize (u.factorial : Rat) = C
  generalize (i.factorial : Rat) = D
  intro hA0 hB0 hC0 hD0
  have k1 : ((u : Rat) + d + i + 4) ≠ 0 := by positivity
  have k2 : ((u : Rat) + i + 3) ≠ 0 := by positivity
  have k3 : ((d : Rat) + 3) ≠ 0 := by positivity
  field_simp
  ring

/-- coefficient identity at `j = 0` (`u = k`) -/
theorem cf_step_zero (u d : Nat) (p q : Rat)
    (hp : p = 2 * (u : Rat) + d + 4) (hq : q = (d : Rat) + 4) :
    cf (u + d + 2) (u + 2) 0 =
      h1 p q * cf (u + d + 4) u 0 + h2 p q * cf (u + d + 3) (u + 1) 0 := by
  have e1 : p + q - 2 = 2 * ((u : Rat) + d + 3) := by rw [hp, hq]; ring
  have e2 : p - q + 4 = 2 * ((u : Rat) + 2) := by rw [hp, hq]; ring
  have e3 : q - 1 = (d : Rat) + 3 := by rw [hq]; ring
  unfold h1 h2 h3
  rw [e1, e2, e3]
  subst hp hq
  unfold cf
  have f1 : u + d + 2 + (u + 2) + 0 = (2 * u + d + 3) + 1 := by omega
  have f2 : u + d + 4 + u + 0 = (2 * u + d + 3) + 1 := by omega
  have f3 : u + d + 3 + (u + 1) + 0 = (2 * u + d + 3) + 1 := by omega
  rw [f1, f2, f3]
  have g1 : u + d + 4 = (u + d + 2) + 1 + 1 := by omega
  have g2 : u + d + 3 = (u + d + 2) + 1 := by omega
  rw [g1, g2]
  have hA0 : ((2 * u + d).factorial : Rat) ≠ 0 := by positivity
  have hB0 : ((u + d).factorial : Rat) ≠ 0 := by positivity
  have hC0 : (u.factorial : Rat) ≠ 0 := by positivity
  revert hA0 hB0 hC0
  simp only [Nat.factorial_succ, Nat.factorial_zero]
  push_cast
  generalize ((2 * u + d).factorial : Rat) = A
  generalize ((u + d).factorial : Rat) = B
  generalize (u.factorial : Rat) = C
  intro hA0 hB0 hC0
  have k1 : ((u : Rat) + d + 3) ≠ 0 := by positivity
  have k2 : ((u : Rat) + 2) ≠ 0 := by positivity
  have k3 : ((d : Rat) + 3) ≠ 0 := by positivity
  field_simp
  ring

/-- coefficient identity at `j = k + 1` (`u = -1`: no `h1` term) -/
theorem cf_step_last1 (k d : Nat) (p q : Rat)
    (hp : p = 2 * (k : Rat) + d + 4) (hq : q = (d : Rat) + 4) :
    cf (d + 1) 1 (k + 1) = h2 p q * cf (d + 2) 0 (k + 1) + h3 p q * cf (d + 3) 1 k := by
  have e1 : p + q - 2 = 2 * ((k : Rat) + d + 3) := by rw [hp, hq]; ring
  have e2 : p - q + 4 = 2 * ((k : Rat) + 2) := by rw [hp, hq]; ring
  have e3 : q - 1 = (d : Rat) + 3 := by rw [hq]; ring
  unfold h2 h3
  rw [e1, e2, e3]
  subst hp hq
  unfold cf
  have f1 : d + 1 + 1 + (k + 1) = (d + k + 2) + 1 := by omega
  have f2 : d + 2 + 0 + (k + 1) = (d + k + 2) + 1 := by omega
  have f3 : d + 3 + 1 + k = (d + k + 2) + 1 + 1 := by omega
  simp only [f1, f2, f3]
  have hA0 : ((d + k).factorial : Rat) ≠ 0 := by positivity
  have hB0 : (d.factorial : Rat) ≠ 0 := by positivity
  have hC0 : (k.factorial : Rat) ≠ 0 := by positivity
  revert hA0 hB0 hC0
  simp only [Nat.factorial_succ, Nat.factorial_zero]
  push_cast
  generalize ((d + k).factorial : Rat) = A
  generalize (d.factorial : Rat) = B
  generalize (k.factorial : Rat) = C
  intro hA0 hB0 hC0
  have k1 : ((k : Rat) + d + 3) ≠ 0 := by positivity
  have k2 : ((k : Rat) + 2) ≠ 0 := by positivity
  have k3 : ((d : Rat) + 3) ≠ 0 := by positivity
  field_simp
  ring

/-- coefficient identity at `j = k + 2` (`u = -2`: only the `h3` term) -/
theorem cf_step_last2 (k d : Nat) (p q : Rat)
    (hp : p = 2 * (k : Rat) + d + 4) (hq : q = (d : Rat) + 4) :
    cf d 0 (k + 2) = h3 p q * cf (d + 2) 0 (k + 1) := by
  have e1 : p + q - 2 = 2 * ((k : Rat) + d + 3) := by rw [hp, hq]; ring
  have e2 : p - q + 4 = 2 * ((k : Rat) + 2) := by rw [hp, hq]; ring
  unfold h3
  rw [e1, e2]
  subst hp hq
  unfold cf
  have f1 : d + 0 + (k + 2) = (d + k + 1) + 1 := by omega
  have f2 : d + 2 + 0 + (k + 1) = (d + k + 1) + 1 + 1 := by omega
  simp only [f1, f2]
  have hA0 : ((d + k).factorial : Rat) ≠ 0 := by positivity
  have hB0 : (d.factorial : Rat) ≠ 0 := by positivity
  have hC0 : (k.factorial : Rat) ≠ 0 := by positivity
  revert hA0 hB0 hC0
  simp only [Nat.factorial_succ, Nat.factorial_zero]
  push_cast
  generalize ((d + k).factorial : Rat) = A
  generalize (d.factorial : Rat) = B
  generalize (k.factorial : Rat) = C
  intro hA0 hB0 hC0
  have k1 : ((k : Rat) + d + 3) ≠ 0 := by positivity
  have k2 : ((k : Rat) + 2) ≠ 0 := by positivity
  field_simp
  ring

/-- the factorial definition of `S_n^{n-2k}` as a polynomial in `t` -/
def PP (n k : Nat) (t : Rat) : Rat := ∑ j ∈ range (k + 1), cc n k j * t ^ (k - j)

theorem PP_shift2 (n k : Nat) (t : Rat) :
    t ^ 2 * PP n k t = ∑ j ∈ range (k + 3), (if j ≤ k then cc n k j else 0) * t ^ (k + 2 - j) := by
  rw [show k + 3 = k + 1 + 1 + 1 from rfl, sum_range_succ, sum_range_succ]
  rw [if_neg (by omega), if_neg (by omega), zero_mul, zero_mul, add_zero, add_zero]
  unfold PP
  rw [mul_sum]
  apply sum_congr rfl
  intro j hj
  have hj' : j ≤ k := by have := mem_range.mp hj; omega
  rw [if_pos hj', show k + 2 - j = (k - j) + 2 by omega, pow_add]
  ring

theorem PP_shift1 (n k : Nat) (t : Rat) :
    t * PP n (k + 1) t = ∑ j ∈ range (k + 3), (if j ≤ k + 1 then cc n (k + 1) j else 0) * t ^ (k + 2 - j) := by
  rw [show k + 3 = k + 1 + 1 + 1 from rfl, sum_range_succ]
  rw [if_neg (by omega), zero_mul, add_zero]
  unfold PP
  rw [mul_sum]
  apply sum_congr rfl
  intro j hj
  have hj' : j ≤ k + 1 := by have := mem_range.mp hj; omega
  rw [if_pos hj', show k + 2 - j = (k + 1 - j) + 1 by omega, pow_succ]
  ring

theorem PP_shift0 (n k : Nat) (t : Rat) :
    PP n (k + 1) t = ∑ j ∈ range (k + 3), (if 1 ≤ j then cc n (k + 1) (j - 1) else 0) * t ^ (k + 2 - j) := by
  rw [show k + 3 = k + 1 + 1 + 1 from rfl, sum_range_succ']
  rw [if_neg (by omega), zero_mul, add_zero]
  unfold PP
  apply sum_congr rfl
  intro j hj
  rw [if_pos (by omega), show k + 2 - (j + 1) = k + 1 - j by omega, Nat.add_sub_cancel]

/-- the factorial polynomials satisfy the q-recursion -/
theorem PP_step (n k d : Nat) (hn : n = 2 * k + 4 + d) (p q t : Rat) (hp : p = (n : Rat)) (hq : q = (d : Rat) + 4) :
    PP n (k + 2) t = h1 p q * t ^ 2 * PP n k t + (h2 p q * t + h3 p q) * PP n (k + 1) t := by
  have hp' : p = 2 * (k : Rat) + d + 4 := by rw [hp, hn]; push_cast; ring
  have e : h1 p q * t ^ 2 * PP n k t + (h2 p q * t + h3 p q) * PP n (k + 1) t
      = h1 p q * (t ^ 2 * PP n k t) + h2 p q * (t * PP n (k + 1) t) + h3 p q * PP n (k + 1) t := by ring
  rw [e, PP_shift2, PP_shift1]
  conv_rhs => rw [PP_shift0]
  rw [mul_sum, mul_sum, mul_sum, ← sum_add_distrib, ← sum_add_distrib]
  unfold PP
  apply sum_congr rfl
  intro j hj
  have hj3 : j < k + 3 := mem_range.mp hj
  have key : cc n (k + 2) j = h1 p q * (if j ≤ k then cc n k j else 0)
      + h2 p q * (if j ≤ k + 1 then cc n (k + 1) j else 0)
      + h3 p q * (if 1 ≤ j then cc n (k + 1) (j - 1) else 0) := by
    by_cases c0 : j = 0
    · subst c0
      rw [if_pos (by omega), if_pos (by omega), if_neg (by omega), mul_zero, add_zero]
      rw [cc_eq_cf n (k + 2) 0 (k + d + 2) (k + 2) (by omega) (by omega),
        cc_eq_cf n k 0 (k + d + 4) k (by omega) (by omega),
        cc_eq_cf n (k + 1) 0 (k + d + 3) (k + 1) (by omega) (by omega)]
      exact cf_step_zero k d p q hp' hq
    by_cases c1 : j ≤ k
    · obtain ⟨i, rfl⟩ : ∃ i, j = i + 1 := ⟨j - 1, by omega⟩
      obtain ⟨u, rfl⟩ : ∃ u, k = u + (i + 1) := ⟨k - (i + 1), by omega⟩
      rw [if_pos (by omega), if_pos (by omega), if_pos (by omega), Nat.add_sub_cancel]
      rw [cc_eq_cf n (u + (i + 1) + 2) (i + 1) (u + d + 2) (u + 2) (by omega) (by omega),
        cc_eq_cf n (u + (i + 1)) (i + 1) (u + d + 4) u (by omega) (by omega),
        cc_eq_cf n (u + (i + 1) + 1) (i + 1) (u + d + 3) (u + 1) (by omega) (by omega),
        cc_eq_cf n (u + (i + 1) + 1) i (u + d + 4) (u + 2) (by omega) (by omega)]
      exact cf_step_interior u d i p q (by rw [hp']; push_cast; ring) hq
    by_cases c2 : j = k + 1
    · subst c2
      rw [if_neg (by omega), if_pos (by omega), if_pos (by omega), mul_zero, zero_add, Nat.add_sub_cancel]
      rw [cc_eq_cf n (k + 2) (k + 1) (d + 1) 1 (by omega) (by omega),
        cc_eq_cf n (k + 1) (k + 1) (d + 2) 0 (by omega) (by omega),
        cc_eq_cf n (k + 1) k (d + 3) 1 (by omega) (by omega)]
      exact cf_step_last1 k d p q hp' hq
    · have c3 : j = k + 2 := by omega
      subst c3
      rw [if_neg (by omega), if_neg (by omega), if_pos (by omega), mul_zero, mul_zero, zero_add, zero_add]
      rw [show k + 2 - 1 = k + 1 by omega]
      rw [cc_eq_cf n (k + 2) (k + 2) d 0 (by omega) (by omega),
        cc_eq_cf n (k + 1) (k + 1) (d + 2) 0 (by omega) (by omega)]
      exact cf_step_last2 k d p q hp' hq
  rw [key]
  ring

theorem PP_zero (n : Nat) (t : Rat) : PP n 0 t = 1 := by
  unfold PP cc
  have h : ((n.factorial : Rat)) ≠ 0 := by positivity
  rw [sum_range_succ, sum_range_zero]
  simp only [Nat.sub_zero, Nat.factorial_zero, pow_zero, Nat.cast_one, one_mul, mul_one, zero_add]
  exact div_self h

theorem PP_one (n : Nat) (hn : 2 ≤ n) (t : Rat) : PP n 1 t = (n : Rat) * t - ((n : Rat) - 1) := by
  obtain ⟨m, rfl⟩ : ∃ m, n = m + 2 := ⟨n - 2, by omega⟩
  unfold PP cc
  rw [sum_range_succ, sum_range_succ, sum_range_zero]
  have e1 : m + 2 - 0 = m + 1 + 1 := by omega
  have e2 : m + 2 - 1 - 0 = m + 1 := by omega
  have e3 : m + 2 - 1 = m + 1 := by omega
  have e4 : m + 2 - 1 - 1 = m := by omega
  simp only [e1, e2, e3, e4, Nat.sub_zero, Nat.sub_self, Nat.factorial_succ, Nat.factorial_zero]
  have : ((m.factorial : Rat)) ≠ 0 := by positivity
  have k1 : ((m : Rat) + 1) ≠ 0 := by positivity
  push_cast
  field_simp
  ring

theorem reducedEval_eq_PP (n : Nat) (t : Rat) : ∀ k, 2 * k ≤ n → reducedEval n t k = PP n k t
  | 0, _ => by rw [PP_zero]; rfl
  | 1, h => by rw [PP_one n (by omega)]; rfl
  | k + 2, h => by
    have a := reducedEval_eq_PP n t k (by omega)
    have b := reducedEval_eq_PP n t (k + 1) (by omega)
    obtain ⟨d, hd⟩ : ∃ d, n = 2 * k + 4 + d := ⟨n - (2 * k + 4), by omega⟩
    have hq : ((n - 2 * k : Nat) : Rat) = (d : Rat) + 4 := by
      rw [show n - 2 * k = d + 4 by omega]; push_cast; ring
    simp only [reducedEval]
    rw [a, b, PP_step n k d hd (n : Rat) ((n - 2 * k : Nat) : Rat) t rfl hq]

/-- **The q-recursive evaluation equals the factorial definition, for every order.** -/
theorem reducedEval_eq_sum (n k : Nat) (hk : 2 * k ≤ n) (t : Rat) :
    reducedEval n t k = ∑ j ∈ Finset.range (k + 1),
      ((-1 : Rat) ^ j * ((n - j).factorial : Rat) /
        ((j.factorial : Rat) * ((n - k - j).factorial : Rat) * ((k - j).factorial : Rat))) * t ^ (k - j) :=
  reducedEval_eq_PP n t k hk

/-- **`zernike_radial(n, m, r)` (repaired) equals the factorial definition of `R_n^m`, for every
`n` (no bound), every `0 ≤ m ≤ n` with `n - m` even and every rational `r`.** -/
theorem radialEval_eq_sum (n m : Nat) (hm : m ≤ n) (hpar : (n - m) % 2 = 0) (r : Rat) :
    radialEval n m r = ∑ k ∈ Finset.range ((n - m) / 2 + 1),
      ((-1) ^ k * ((n - k).factorial : Rat) /
        ((k.factorial : Rat) * (((n + m) / 2 - k).factorial : Rat) * (((n - m) / 2 - k).factorial : Rat))) *
          r ^ (n - 2 * k) := by
  obtain ⟨K, hK⟩ : ∃ K, n = m + 2 * K := ⟨(n - m) / 2, by omega⟩
  have hK1 : (n - m) / 2 = K := by omega
  have hK2 : (n + m) / 2 = n - K := by omega
  unfold radialEval
  rw [hK1, hK2, reducedEval_eq_sum n K (by omega), mul_sum]
  apply sum_congr rfl
  intro j hj
  have hj' : j ≤ K := by have := mem_range.mp hj; omega
  have e : r ^ (n - 2 * j) = r ^ m * (r * r) ^ (K - j) := by
    rw [← pow_two, ← pow_mul, ← pow_add]; congr 1; omega
  rw [e]
  ring

/-- the reduced polynomial of an `m = 0` mode at `t = 0`: only the constant term of the factorial form survives -/
theorem reducedEval_zero (k : Nat) : reducedEval (2 * k) 0 k = (-1 : Rat) ^ k := by
  rw [reducedEval_eq_sum (2 * k) k (le_refl _) 0]
  rw [Finset.sum_eq_single k]
  · have e1 : 2 * k - k = k := by omega
    have hk : ((k.factorial : Rat)) ≠ 0 := by positivity
    simp only [e1, Nat.sub_self, Nat.factorial_zero, Nat.cast_one, mul_one, pow_zero]
    field_simp
  · intro j hj hne
    have : j < k := by have := Finset.mem_range.mp hj; omega
    rw [zero_pow (by omega), mul_zero]
  · intro h; exact absurd (Finset.mem_range.mpr (Nat.lt_succ_self k)) h

end HcipyVerif.Zernike
