import HcipyVerif.Lemmas.Mft
import HcipyVerif.Lemmas.FourierLink

/-!
# Link C01 → C03: the model of `MatrixFourierTransform` satisfies the Fourier hypotheses of the lens theorems

`make_fourier_transform` hands every focal grid that is not FFT-native (and every FFT-native one for which
the planner's estimate prefers it — which is the case for all grids of `make_focal_grid`) to
`MatrixFourierTransform`.  `mftTransform2` packages C01's model `mftForward`/`mftBackward`
(`Model/Mft.lean`: the two BLAS `gemm` calls with their transposes, both weight branches) as a C03
`FourierTransform`.  The character is `expT` (argument in turns): the output coordinates are carried
*in units of 2π*, `u = 2π·ut`, exactly as the executable lens model (`Model/FraunhoferPipe.lean`,
`uvGridTurns`) carries them — the driver runs the same `mftForward` at `T = PSum.turns`.

* `mft2_evaluates` — `EvaluatesFourierSum` on **any** pair of separated Cartesian grids (regular or not,
  any weights);
* `mft2_adjoint`   — `EvaluatesAdjointSum` (the `trans=2` products);
* `parsevalOn_of_evaluates`, `inverseOn_of_evaluates` — the facts `ParsevalOn`/`InverseOn` do not depend on
  *which* implementation evaluates the sums: two transforms that both evaluate the Fourier sum and the adjoint
  sum on the same grids are equal as maps.
-/
set_option linter.unusedSimpArgs false
set_option linter.unusedVariables false
set_option linter.unusedSectionVars false

namespace HcipyVerif.FourierLink
open HcipyVerif.Fft HcipyVerif.Fraunhofer Finset Complex ComplexConjugate

/-- the flat (row-major, x fastest) array of a field on the `(n, m)` grid (zero outside) -/
noncomputable def flat2 {n m : ℕ} (E : Fin n × Fin m → ℂ) (k : ℕ) : ℂ := ext2 E (k / m) (k % m)

theorem flat2_flat {n m : ℕ} (E : Fin n × Fin m → ℂ) (i : ℕ) {j : ℕ} (hj : j < m) :
    flat2 E (i * m + j) = ext2 E i j := by
  unfold flat2
  rw [flat_div hj, flat_mod hj]

theorem flat2_add {n m : ℕ} (E G : Fin n × Fin m → ℂ) (k : ℕ) : flat2 (E + G) k = flat2 E k + flat2 G k := by
  unfold flat2; rw [ext2_add]

theorem flat2_smul {n m : ℕ} (a : ℂ) (E : Fin n × Fin m → ℂ) (k : ℕ) : flat2 (a • E) k = a * flat2 E k := by
  unfold flat2; rw [ext2_smul]

/-- A grid that is separated in Cartesian coordinates: points `(x_ix, y_iy)`, arbitrary weights. -/
def sepGrid {Ny Nx : ℕ} (x y : ℕ → ℝ) (w : Fin Ny × Fin Nx → ℝ) : Grid (Fin Ny × Fin Nx) 2 :=
  { pts := fun p => ![x p.2, y p.1], weights := w }

/-- **The model of `MatrixFourierTransform` (ndim = 2) as a C03 `FourierTransform`.**  `x y` input
coordinates, `ut vt` output coordinates in units of 2π, `w`/`wOut` the `weights_input`/`weights_output`
of `_compute_matrices` (scalar or array branch). -/
noncomputable def mftTransform2 (Nx Ny Nu Nv : ℕ) (x y ut vt : ℕ → ℝ) (w wOut : Weights ℂ) :
    FourierTransform (Fin Ny × Fin Nx) (Fin Nv × Fin Nu) where
  fwd :=
    { toFun := fun E k => mftForward expT Nx Ny Nu Nv x y ut vt w (flat2 E) (k.1 * Nu + k.2)
      map_add' := by
        intro E G; funext k
        show mftForward expT Nx Ny Nu Nv x y ut vt w (flat2 (E + G)) (k.1 * Nu + k.2)
          = mftForward expT Nx Ny Nu Nv x y ut vt w (flat2 E) (k.1 * Nu + k.2)
            + mftForward expT Nx Ny Nu Nv x y ut vt w (flat2 G) (k.1 * Nu + k.2)
        rw [mft_forward_eq_sum_2d_get expT_isChar _ _ _ _ _ _ _ _ _ _ k.2.2,
          mft_forward_eq_sum_2d_get expT_isChar _ _ _ _ _ _ _ _ _ _ k.2.2,
          mft_forward_eq_sum_2d_get expT_isChar _ _ _ _ _ _ _ _ _ _ k.2.2]
        simp only [flat2_add, add_mul, Finset.sum_add_distrib]
      map_smul' := by
        intro a E; funext k
        show mftForward expT Nx Ny Nu Nv x y ut vt w (flat2 (a • E)) (k.1 * Nu + k.2)
          = a * mftForward expT Nx Ny Nu Nv x y ut vt w (flat2 E) (k.1 * Nu + k.2)
        rw [mft_forward_eq_sum_2d_get expT_isChar _ _ _ _ _ _ _ _ _ _ k.2.2,
          mft_forward_eq_sum_2d_get expT_isChar _ _ _ _ _ _ _ _ _ _ k.2.2]
        simp only [flat2_smul, Finset.mul_sum]
        apply Finset.sum_congr rfl; intro iy _
        apply Finset.sum_congr rfl; intro ix _
        ring }
  bwd :=
    { toFun := fun F j => mftBackward expT (starRingEnd ℂ) Nx Ny Nu Nv x y ut vt wOut (flat2 F) (j.1 * Nx + j.2)
      map_add' := by
        intro E G; funext j
        show mftBackward expT (starRingEnd ℂ) Nx Ny Nu Nv x y ut vt wOut (flat2 (E + G)) (j.1 * Nx + j.2)
          = mftBackward expT (starRingEnd ℂ) Nx Ny Nu Nv x y ut vt wOut (flat2 E) (j.1 * Nx + j.2)
            + mftBackward expT (starRingEnd ℂ) Nx Ny Nu Nv x y ut vt wOut (flat2 G) (j.1 * Nx + j.2)
        rw [mft_backward_eq_sum_2d_get expT_isChar _ expT_conj _ _ _ _ _ _ _ _ _ _ j.2.2,
          mft_backward_eq_sum_2d_get expT_isChar _ expT_conj _ _ _ _ _ _ _ _ _ _ j.2.2,
          mft_backward_eq_sum_2d_get expT_isChar _ expT_conj _ _ _ _ _ _ _ _ _ _ j.2.2]
        simp only [flat2_add, add_mul, Finset.sum_add_distrib]
      map_smul' := by
        intro a E; funext j
        show mftBackward expT (starRingEnd ℂ) Nx Ny Nu Nv x y ut vt wOut (flat2 (a • E)) (j.1 * Nx + j.2)
          = a * mftBackward expT (starRingEnd ℂ) Nx Ny Nu Nv x y ut vt wOut (flat2 E) (j.1 * Nx + j.2)
        rw [mft_backward_eq_sum_2d_get expT_isChar _ expT_conj _ _ _ _ _ _ _ _ _ _ j.2.2,
          mft_backward_eq_sum_2d_get expT_isChar _ expT_conj _ _ _ _ _ _ _ _ _ _ j.2.2]
        simp only [flat2_smul, Finset.mul_sum]
        apply Finset.sum_congr rfl; intro iv _
        apply Finset.sum_congr rfl; intro iu _
        ring }

/-- **C01 (`mft_eq_sum_2d`, both weight branches) ⇒ `EvaluatesFourierSum`** for the MFT model, on any pair of
separated Cartesian grids.  `hw`: the `weights_input` the object holds are the input grid's weights (array
branch: always; scalar branch: when they are all equal — `Weights.get` is the broadcast). -/
theorem mft2_evaluates (Nx Ny Nu Nv : ℕ) (x y ut vt : ℕ → ℝ) (w wOut : Weights ℂ)
    (wr : Fin Ny × Fin Nx → ℝ) (wo : Fin Nv × Fin Nu → ℝ)
    (hw : ∀ p : Fin Ny × Fin Nx, w.get (p.1 * Nx + p.2) = ((wr p : ℝ) : ℂ)) :
    EvaluatesFourierSum (mftTransform2 Nx Ny Nu Nv x y ut vt w wOut) (sepGrid x y wr)
      (sepGrid (fun i => 2 * Real.pi * ut i) (fun i => 2 * Real.pi * vt i) wo) := by
  intro E k
  show mftForward expT Nx Ny Nu Nv x y ut vt w (flat2 E) (k.1 * Nu + k.2) = _
  rw [mft_forward_eq_sum_2d_get expT_isChar _ _ _ _ _ _ _ _ _ _ k.2.2]
  unfold fourierSum
  rw [← sum_fin2 Ny Nx (fun iy ix => flat2 E (iy * Nx + ix) * w.get (iy * Nx + ix)
    * expT (-(ut k.2 * x ix + vt k.1 * y iy)))]
  apply Finset.sum_congr rfl
  intro p _
  rw [flat2_flat E p.1 p.2.2, ext2_apply, hw p]
  congr 1
  unfold expT
  congr 1
  simp only [sepGrid, dot, Fin.sum_univ_two, Matrix.cons_val_zero, Matrix.cons_val_one]
  push_cast
  ring

/-- **C01 (`mft_backward_eq_sum_2d'`) ⇒ `EvaluatesAdjointSum`** for the MFT model.  `hwo`: the
`weights_output` the object holds are `output_grid.weights / (2π)²`. -/
theorem mft2_adjoint (Nx Ny Nu Nv : ℕ) (x y ut vt : ℕ → ℝ) (w wOut : Weights ℂ)
    (wr : Fin Ny × Fin Nx → ℝ) (wo : Fin Nv × Fin Nu → ℝ)
    (hwo : ∀ k : Fin Nv × Fin Nu, wOut.get (k.1 * Nu + k.2) = ((wo k : ℝ) : ℂ) / (((2 * Real.pi) ^ 2 : ℝ) : ℂ)) :
    EvaluatesAdjointSum (mftTransform2 Nx Ny Nu Nv x y ut vt w wOut) (sepGrid x y wr)
      (sepGrid (fun i => 2 * Real.pi * ut i) (fun i => 2 * Real.pi * vt i) wo) := by
  intro G j
  show mftBackward expT (starRingEnd ℂ) Nx Ny Nu Nv x y ut vt wOut (flat2 G) (j.1 * Nx + j.2) = _
  rw [mft_backward_eq_sum_2d_get expT_isChar _ expT_conj _ _ _ _ _ _ _ _ _ _ j.2.2]
  rw [← sum_fin2 Nv Nu (fun iv iu => flat2 G (iv * Nu + iu) * wOut.get (iv * Nu + iu)
    * expT (ut iu * x j.2 + vt iv * y j.1)), Finset.mul_sum]
  apply Finset.sum_congr rfl
  intro k _
  rw [flat2_flat G k.1 k.2.2, ext2_apply, hwo k]
  have h2 : (((2 * Real.pi) ^ 2 : ℝ) : ℂ) ≠ 0 := by
    have : ((2 * Real.pi) ^ 2 : ℝ) ≠ 0 := by positivity
    exact_mod_cast this
  have hk : expT (ut k.2 * x j.2 + vt k.1 * y j.1)
      = cexp (I * ((dot ((sepGrid (fun i => 2 * Real.pi * ut i) (fun i => 2 * Real.pi * vt i) wo).pts k)
          ((sepGrid x y wr).pts j) : ℝ) : ℂ)) := by
    unfold expT
    congr 1
    simp only [sepGrid, dot, Fin.sum_univ_two, Matrix.cons_val_zero, Matrix.cons_val_one]
    push_cast
    ring
  rw [hk]
  simp only [sepGrid]
  field_simp

/-! ## `ParsevalOn` / `InverseOn` do not depend on the implementation -/

/-- two transforms that evaluate the Fourier sum on the same grids have the same `forward` -/
theorem fwd_eq_of_evaluates {ι κ : Type*} [Fintype ι] [Fintype κ] {d : ℕ} {T T' : FourierTransform ι κ}
    {pupil : Grid ι d} {uv : Grid κ d} (h : EvaluatesFourierSum T pupil uv) (h' : EvaluatesFourierSum T' pupil uv) :
    T.fwd = T'.fwd := by
  apply LinearMap.ext; intro E; funext k
  rw [h E k, h' E k]

/-- two transforms that evaluate the adjoint sum on the same grids have the same `backward` -/
theorem bwd_eq_of_adjoint {ι κ : Type*} [Fintype ι] [Fintype κ] {d : ℕ} {T T' : FourierTransform ι κ}
    {pupil : Grid ι d} {uv : Grid κ d} (h : EvaluatesAdjointSum T pupil uv) (h' : EvaluatesAdjointSum T' pupil uv) :
    T.bwd = T'.bwd := by
  apply LinearMap.ext; intro G; funext j
  rw [h G j, h' G j]

/-- Parseval on the full conjugate pair holds for **whichever** implementation evaluates the Fourier sum there. -/
theorem parsevalOn_of_evaluates {ι κ : Type*} [Fintype ι] [Fintype κ] {d : ℕ} {T T' : FourierTransform ι κ}
    {pupil : Grid ι d} {uv : Grid κ d} (h : EvaluatesFourierSum T pupil uv) (h' : EvaluatesFourierSum T' pupil uv)
    (hP : ParsevalOn T' pupil uv) : ParsevalOn T pupil uv := by
  intro E G
  rw [fwd_eq_of_evaluates h h']
  exact hP E G

/-- … and so does the inverse, for whichever implementation evaluates both sums. -/
theorem inverseOn_of_evaluates {ι κ : Type*} [Fintype ι] [Fintype κ] {d : ℕ} {T T' : FourierTransform ι κ}
    {pupil : Grid ι d} {uv : Grid κ d} (h : EvaluatesFourierSum T pupil uv) (h' : EvaluatesFourierSum T' pupil uv)
    (hA : EvaluatesAdjointSum T pupil uv) (hA' : EvaluatesAdjointSum T' pupil uv)
    (hI : InverseOn T') : InverseOn T := by
  intro E
  rw [fwd_eq_of_evaluates h h', bwd_eq_of_adjoint hA hA']
  exact hI E

end HcipyVerif.FourierLink

namespace HcipyVerif.Fraunhofer
open Finset Complex ComplexConjugate
variable {ι κ : Type*} [Fintype ι] [Fintype κ] {d : ℕ}

/-- The transform *defined* as the weighted Fourier sum / adjoint sum (`NaiveFourierTransform`, which builds
exactly this matrix).  It is the specification itself: theorems that use it say nothing about code. -/
noncomputable def naiveTransform (pupil : Grid ι d) (uv : Grid κ d) : FourierTransform ι κ :=
  { fwd := { toFun := fun E k => fourierSum pupil (uv.pts k) E
             map_add' := by
               intro x y; funext k
               simp only [fourierSum, Pi.add_apply, ← Finset.sum_add_distrib]
               apply Finset.sum_congr rfl; intro j _; ring
             map_smul' := by
               intro a x; funext k
               simp only [fourierSum, Pi.smul_apply, smul_eq_mul, RingHom.id_apply, Finset.mul_sum]
               apply Finset.sum_congr rfl; intro j _; ring }
    bwd := { toFun := fun G j => (((2 * Real.pi) ^ d : ℝ) : ℂ)⁻¹ *
                ∑ k, G k * (uv.weights k : ℂ) * cexp (I * ((dot (uv.pts k) (pupil.pts j) : ℝ) : ℂ))
             map_add' := by
               intro x y; funext j
               simp only [Pi.add_apply, ← mul_add, ← Finset.sum_add_distrib]
               congr 1
               apply Finset.sum_congr rfl; intro k _; ring
             map_smul' := by
               intro a x; funext j
               simp only [Pi.smul_apply, smul_eq_mul, RingHom.id_apply, Finset.mul_sum]
               apply Finset.sum_congr rfl; intro k _; ring } }

theorem naive_evaluates (pupil : Grid ι d) (uv : Grid κ d) :
    EvaluatesFourierSum (naiveTransform pupil uv) pupil uv := fun _ _ => rfl

theorem naive_adjoint (pupil : Grid ι d) (uv : Grid κ d) :
    EvaluatesAdjointSum (naiveTransform pupil uv) pupil uv := fun _ _ => rfl

end HcipyVerif.Fraunhofer
