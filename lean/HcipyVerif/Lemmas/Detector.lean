import HcipyVerif.Model.Detector
import HcipyVerif.Lemmas.Binning

/-! Helper lemmas for the detector state machine (C17). -/
set_option linter.unusedSimpArgs false
set_option linter.unusedVariables false
set_option linter.unusedSectionVars false

namespace HcipyVerif.Detector
open HcipyVerif.Binning

variable {K : Type} [Field K]

/-- the image a read-out would return now -/
def accImage (g : Geom) (st : St K) : List K := st.acc.getD (vzero g.npix)

theorem charge_length (p : List K) (dt w : K) : (charge p dt w).length = p.length := by
  simp [charge]

theorem binCharge_length (g : Geom) (p : List K) (dt w : K) (h : p.length = g.ninput) :
    (charge (binND g.s g.dims p) dt w).length = g.npix := by
  rw [charge_length, binND_length _ _ _ h]; rfl

theorem sumCharges_nil (g : Geom) : sumCharges g ([] : List (List K × K × K)) = vzero g.npix := rfl

theorem sumCharges_snoc (g : Geom) (l : List (List K × K × K)) (x : List K × K × K) :
    sumCharges g (l ++ [x]) = vadd (sumCharges g l) (charge (binND g.s g.dims x.1) x.2.1 x.2.2) := by
  simp [sumCharges, List.foldl_append]

/-- every pending integration has the size of the input grid -/
def Valid (g : Geom) (l : List (List K × K × K)) : Prop := ∀ x ∈ l, x.1.length = g.ninput

theorem foldl_charges_length (g : Geom) (l : List (List K × K × K)) (a : List K)
    (ha : a.length = g.npix) (h : Valid g l) :
    (l.foldl (fun a (x : List K × K × K) => vadd a (charge (binND g.s g.dims x.1) x.2.1 x.2.2)) a).length
      = g.npix := by
  induction l generalizing a with
  | nil => simpa using ha
  | cons x l ih =>
    simp only [List.foldl_cons]
    apply ih
    · rw [vadd_length, ha, binCharge_length g _ _ _ (h x (by simp))]; simp
    · exact fun y hy => h y (by simp [hy])

theorem sumCharges_length (g : Geom) (l : List (List K × K × K)) (h : Valid g l) :
    (sumCharges g l).length = g.npix :=
  foldl_charges_length g l _ (by simp [vzero]) h

/-- the state represents the pending integrations `cur` -/
structure Rep (g : Geom) (st : St K) (cur : List (List K × K × K)) : Prop where
  img : accImage g st = sumCharges g cur
  valid : Valid g cur

theorem Rep.init (g : Geom) : Rep g ({} : St K) [] := ⟨rfl, by intro x hx; simp at hx⟩

theorem accAdd_eq (g : Geom) (st : St K) (c : List K) (hc : c.length = g.npix) :
    accAdd st.acc c = vadd (accImage g st) c := by
  cases h : st.acc with
  | none => simp [accAdd, accImage, h, vadd_vzero_left _ _ hc]
  | some a => simp [accAdd, accImage, h]

theorem Rep.integrate {g : Geom} {st : St K} {cur} (hr : Rep g st cur) (p : List K) (dt w : K)
    (hp : p.length = g.ninput) :
    Rep g (integrate g st p dt w).1 (cur ++ [(p, dt, w)]) := by
  refine ⟨?_, ?_⟩
  · simp only [Detector.integrate, hp, if_true, accImage, Option.getD_some]
    rw [accAdd_eq g st _ (binCharge_length g p dt w hp), hr.img, sumCharges_snoc]
  · intro x hx
    rcases List.mem_append.mp hx with h | h
    · exact hr.valid x h
    · simp at h; subst h; exact hp

theorem run_nil (g : Geom) (st : St K) : run g st [] = (st, []) := rfl

theorem run_cons (g : Geom) (st : St K) (op : Op K) (ops : List (Op K)) :
    run g st (op :: ops) = ((run g (step g st op).1 ops).1, (step g st op).2 :: (run g (step g st op).1 ops).2) := rfl

theorem run_append (g : Geom) (st : St K) (ops more : List (Op K)) :
    run g st (ops ++ more) =
      ((run g (run g st ops).1 more).1, (run g st ops).2 ++ (run g (run g st ops).1 more).2) := by
  induction ops generalizing st with
  | nil => simp [run_nil]
  | cons op ops ih => simp only [List.cons_append, run_cons, ih, List.cons_append]

theorem images_append (a b : List (Obs K)) : images (a ++ b) = images a ++ images b := by
  induction a with
  | nil => rfl
  | cons o a ih => cases o <;> simp [images, ih]

theorem vadd_getD (a b : List K) (i : Nat) (ha : i < a.length) (hb : i < b.length) :
    (vadd a b).getD i 0 = a.getD i 0 + b.getD i 0 := by
  simp [vadd, List.getD_eq_getElem?_getD, List.getElem?_zipWith, List.getElem?_eq_getElem ha,
    List.getElem?_eq_getElem hb]

/-- the noise-free configuration of a `NoisyDetector`: no dark current, unit flat field, zero
read noise; the random draws are arbitrary -/
def NoiseOff (g : Geom) (nz : Noise K) : Prop :=
  nz.dark = 0 ∧ nz.flat = List.replicate g.npix 1 ∧ nz.sigma = 0 ∧ ∀ k, (nz.draws k).length = g.npix

theorem zipWith_mul_ones (a : List K) (n : Nat) (h : a.length = n) :
    List.zipWith (· * ·) a (List.replicate n (1 : K)) = a := by
  induction a generalizing n with
  | nil => simp
  | cons x a ih =>
    cases n with
    | zero => simp at h
    | succ n => simp at h; simp [List.replicate_succ, ih n h]

theorem zipWith_add_zero_mul (a z : List K) (h : a.length = z.length) :
    List.zipWith (fun o z => o + (0 : K) * z) a z = a := by
  induction a generalizing z with
  | nil => simp
  | cons x a ih =>
    cases z with
    | nil => simp at h
    | cons y z =>
      simp only [List.length_cons, Nat.add_right_cancel_iff] at h
      simp only [List.zipWith_cons_cons, ih z h]; simp

theorem zipWith_add_zero_dark (a : List K) (n : Nat) (dt w : K) (h : a.length = n) :
    List.zipWith (fun x d => x + d * dt * w) a (vzero n : List K) = a := by
  induction a generalizing n with
  | nil => simp
  | cons x a ih =>
    cases n with
    | zero => simp at h
    | succ n =>
      simp only [List.length_cons, Nat.add_right_cancel_iff] at h
      have := ih n h
      simp only [vzero] at this
      simp [vzero, List.replicate_succ, this]

theorem accAdd_length (g : Geom) (acc : Option (List K)) (c : List K) (hc : c.length = g.npix)
    (hl : ∀ a, acc = some a → a.length = g.npix) : (accAdd acc c).length = g.npix := by
  cases h : acc with
  | none => simpa [accAdd] using hc
  | some b => simp [accAdd, vadd_length, hl b h, hc]

theorem pStep_readOut_fst [DecidableEq K] (g : Geom) (pst : PSt K) :
    (pStep g pst .readOut).1 = { pst with acc := none, clean := true } := by
  simp only [pStep]; split <;> rfl

theorem reads_eq_images (g : Geom) (st : St K) (ops : List (Op K)) :
    reads g st ops = (images (run g st ops).2).map Obs.image := by
  induction ops generalizing st with
  | nil => rfl
  | cons op ops ih =>
    cases op with
    | readOut => simp [reads, run_cons, step, readOut, images, ih]
    | integrate p dt w =>
      simp only [reads, run_cons, ih]
      by_cases hp : p.length = g.ninput <;> simp [step, Detector.integrate, hp, images]

end HcipyVerif.Detector
