import Mathlib.Tactic.Ring
import HcipyVerif.Model.Detector
import HcipyVerif.Lemmas.Binning

/-! Helper lemmas for the detector state machine (C17). -/
set_option linter.unusedSimpArgs false
set_option linter.unusedVariables false
set_option linter.unusedSectionVars false

namespace HcipyVerif.Detector
open HcipyVerif.Binning

variable {K : Type} [Field K]

/-- the image a read-out would return now -/
def accImage (g : Geom) (st : St K) : List K := st.acc.getD (vzero g.npix)

theorem charge_length (p : List K) (dt w : K) : (charge p dt w).length = p.length := by
  simp [charge]

theorem binCharge_length (g : Geom) (p : List K) (dt w : K) (h : p.length = g.ninput) :
    (charge (binNDs g.ss g.dims p) dt w).length = g.npix := by
  rw [charge_length, binNDs_length _ _ g.hl _ h]; rfl

theorem sumCharges_nil (g : Geom) : sumCharges g ([] : List (List K × K × K)) = vzero g.npix := rfl

theorem sumCharges_snoc (g : Geom) (l : List (List K × K × K)) (x : List K × K × K) :
    sumCharges g (l ++ [x]) = vadd (sumCharges g l) (charge (binNDs g.ss g.dims x.1) x.2.1 x.2.2) := by
  simp [sumCharges, List.foldl_append]

/-- every pending integration has the size of the input grid -/
def Valid (g : Geom) (l : List (List K × K × K)) : Prop := ∀ x ∈ l, x.1.length = g.ninput

theorem foldl_charges_length (g : Geom) (l : List (List K × K × K)) (a : List K)
    (ha : a.length = g.npix) (h : Valid g l) :
    (l.foldl (fun a (x : List K × K × K) => vadd a (charge (binNDs g.ss g.dims x.1) x.2.1 x.2.2)) a).length
      = g.npix := by
  induction l generalizing a with
  | nil => simpa using ha
  | cons x l ih =>
    simp only [List.foldl_cons]
    apply ih
    · rw [vadd_length, ha, binCharge_length g _ _ _ (h x (by simp))]; simp
    · exact fun y hy => h y (by simp [hy])

theorem sumCharges_length (g : Geom) (l : List (List K × K × K)) (h : Valid g l) :
    (sumCharges g l).length = g.npix :=
  foldl_charges_length g l _ (by simp [vzero]) h

/-- the state represents the pending integrations `cur` -/
structure Rep (g : Geom) (st : St K) (cur : List (List K × K × K)) : Prop where
  img : accImage g st = sumCharges g cur
  valid : Valid g cur

theorem Rep.init (g : Geom) : Rep g ({} : St K) [] := ⟨rfl, by intro x hx; simp at hx⟩

theorem accAdd_eq (g : Geom) (st : St K) (c : List K) (hc : c.length = g.npix) :
    accAdd st.acc c = vadd (accImage g st) c := by
  cases h : st.acc with
  | none => simp [accAdd, accImage, h, vadd_vzero_left _ _ hc]
  | some a => simp [accAdd, accImage, h]

theorem Rep.integrate {g : Geom} {st : St K} {cur} (hr : Rep g st cur) (p : List K) (dt w : K)
    (hp : p.length = g.ninput) :
    Rep g (integrate g st p dt w).1 (cur ++ [(p, dt, w)]) := by
  refine ⟨?_, ?_⟩
  · simp only [Detector.integrate, hp, if_true, accImage, Option.getD_some]
    rw [accAdd_eq g st _ (binCharge_length g p dt w hp), hr.img, sumCharges_snoc]
  · intro x hx
    rcases List.mem_append.mp hx with h | h
    · exact hr.valid x h
    · simp at h; subst h; exact hp

theorem run_nil (g : Geom) (st : St K) : run g st [] = (st, []) := rfl

theorem run_cons (g : Geom) (st : St K) (op : Op K) (ops : List (Op K)) :
    run g st (op :: ops) = ((run g (step g st op).1 ops).1, (step g st op).2 :: (run g (step g st op).1 ops).2) := rfl

theorem run_append (g : Geom) (st : St K) (ops more : List (Op K)) :
    run g st (ops ++ more) =
      ((run g (run g st ops).1 more).1, (run g st ops).2 ++ (run g (run g st ops).1 more).2) := by
  induction ops generalizing st with
  | nil => simp [run_nil]
  | cons op ops ih => simp only [List.cons_append, run_cons, ih, List.cons_append]

theorem images_append (a b : List (Obs K)) : images (a ++ b) = images a ++ images b := by
  induction a with
  | nil => rfl
  | cons o a ih => cases o <;> simp [images, ih]

theorem vadd_getD (a b : List K) (i : Nat) (ha : i < a.length) (hb : i < b.length) :
    (vadd a b).getD i 0 = a.getD i 0 + b.getD i 0 := by
  simp [vadd, List.getD_eq_getElem?_getD, List.getElem?_zipWith, List.getElem?_eq_getElem ha,
    List.getElem?_eq_getElem hb]

theorem zipWith_mul_ones (a : List K) (n : Nat) (h : a.length = n) :
    List.zipWith (· * ·) a (List.replicate n (1 : K)) = a := by
  induction a generalizing n with
  | nil => simp
  | cons x a ih =>
    cases n with
    | zero => simp at h
    | succ n => simp at h; simp [List.replicate_succ, ih n h]

theorem zipWith_add_zero_dark (a : List K) (n : Nat) (dt w : K) (h : a.length = n) :
    List.zipWith (fun x d => x + d * dt * w) a (vzero n : List K) = a := by
  induction a generalizing n with
  | nil => simp
  | cons x a ih =>
    cases n with
    | zero => simp at h
    | succ n =>
      simp only [List.length_cons, Nat.add_right_cancel_iff] at h
      have := ih n h
      simp only [vzero] at this
      simp [vzero, List.replicate_succ, this]

theorem accAdd_length (g : Geom) (acc : Option (List K)) (c : List K) (hc : c.length = g.npix)
    (hl : ∀ a, acc = some a → a.length = g.npix) : (accAdd acc c).length = g.npix := by
  cases h : acc with
  | none => simpa [accAdd] using hc
  | some b => simp [accAdd, vadd_length, hl b h, hc]

theorem pStep_readOut_fst [DecidableEq K] (g : Geom) (pst : PSt K) :
    (pStep g pst .readOut).1 = { pst with acc := none, clean := true } := by
  simp only [pStep]; split <;> rfl

theorem reads_eq_images (g : Geom) (st : St K) (ops : List (Op K)) :
    reads g st ops = (images (run g st ops).2).map Obs.image := by
  induction ops generalizing st with
  | nil => rfl
  | cons op ops ih =>
    cases op with
    | readOut => simp [reads, run_cons, step, readOut, images, ih]
    | integrate p dt w =>
      simp only [reads, run_cons, ih]
      by_cases hp : p.length = g.ninput <;> simp [step, Detector.integrate, hp, images]

/-! ### histories whose integrations all have the size of the input grid -/

/-- the operation is a read-out or an integration of a power array of the size of the input grid -/
def sizedOp (g : Geom) : Op K → Bool
  | .integrate p _ _ => decide (p.length = g.ninput)
  | .readOut => true

/-- every integration of the history has the size of the input grid (decidable) -/
def WellSized (g : Geom) (ops : List (Op K)) : Prop := ∀ op ∈ ops, sizedOp g op = true

instance (g : Geom) (ops : List (Op K)) : Decidable (WellSized g ops) := by
  unfold WellSized; infer_instance

/-- the exposures of a history, with no size test at all: the integrations before each read-out -/
def exposuresAll : List (List K × K × K) → List (Op K) → List (List (List K × K × K))
  | _, [] => []
  | cur, .readOut :: ops => cur :: exposuresAll [] ops
  | cur, .integrate p dt w :: ops => exposuresAll (cur ++ [(p, dt, w)]) ops

theorem WellSized.tail {g : Geom} {op : Op K} {ops : List (Op K)} (h : WellSized g (op :: ops)) :
    WellSized g ops := fun o ho => h o (by simp [ho])

theorem WellSized.head_integrate {g : Geom} {p : List K} {dt w : K} {ops : List (Op K)}
    (h : WellSized g (.integrate p dt w :: ops)) : p.length = g.ninput := by
  have := h (.integrate p dt w) (by simp)
  simpa [sizedOp] using this

theorem exposures_eq_all (g : Geom) (ops : List (Op K)) (cur : List (List K × K × K))
    (h : WellSized g ops) : exposures g cur ops = exposuresAll cur ops := by
  induction ops generalizing cur with
  | nil => rfl
  | cons op ops ih =>
    cases op with
    | readOut => simp only [exposures, exposuresAll, ih _ h.tail]
    | integrate p dt w =>
      simp only [exposures, exposuresAll, h.head_integrate, if_true, ih _ h.tail]

/-- every completed exposure of a history consists of integrations of the right size -/
theorem exposures_valid (g : Geom) (ops : List (Op K)) (cur : List (List K × K × K))
    (hc : Valid g cur) : ∀ e ∈ exposures g cur ops, Valid g e := by
  induction ops generalizing cur with
  | nil => intro e he; simp [exposures] at he
  | cons op ops ih =>
    intro e he
    cases op with
    | readOut =>
      simp only [exposures, List.mem_cons] at he
      rcases he with rfl | he
      · exact hc
      · exact ih [] (by intro x hx; simp at hx) e he
    | integrate p dt w =>
      by_cases hp : p.length = g.ninput
      · simp only [exposures, hp, if_true] at he
        refine ih _ ?_ e he
        intro x hx
        rcases List.mem_append.mp hx with h | h
        · exact hc x h
        · simp at h; subst h; exact hp
      · simp only [exposures, hp, if_false] at he
        exact ih cur hc e he

/-! ### the noisy detector with every noise source off -/

section
variable [DecidableEq K]

/-- every noise parameter has its "off" value and the exposure in progress is free of dark current -/
structure ParamsOff (g : Geom) (pst : PSt K) : Prop where
  flat : pst.flat = List.replicate g.npix 1
  dark : pst.dark = vzero g.npix
  sigma : pst.sigma = vzero g.npix
  photon : pst.photon = false
  clean : pst.clean = true

theorem allOff_paramsOff (g : Geom) : ParamsOff g (allOff g : PSt K) :=
  ⟨rfl, by simp [allOff, pInit, vzero], rfl, rfl, rfl⟩

theorem ParamsOff.off {g : Geom} {pst : PSt K} (h : ParamsOff g pst) : pst.off g = true := by
  simp [PSt.off, h.flat, h.sigma, h.photon, h.clean]

theorem ParamsOff.deterministic {g : Geom} {pst : PSt K} (h : ParamsOff g pst) :
    pst.deterministic g = true := by
  simp [PSt.deterministic, h.sigma, h.photon]

/-- operations that switch nothing on keep everything off -/
theorem ParamsOff.step {g : Geom} {pst : PSt K} (h : ParamsOff g pst) (op : POp K)
    (ho : OffOp g op = true) : ParamsOff g (pStep g pst op).1 := by
  cases op with
  | integrate p dt w =>
    by_cases hp : p.length = g.ninput
    · simp only [pStep, hp, if_true]
      exact ⟨h.flat, h.dark, h.sigma, h.photon, by simp [h.clean, h.dark]⟩
    · simpa [pStep, hp] using h
  | readOut =>
    rw [pStep_readOut_fst]
    exact ⟨h.flat, h.dark, h.sigma, h.photon, rfl⟩
  | setFlat m => simp only [OffOp, decide_eq_true_eq] at ho; exact ⟨ho, h.dark, h.sigma, h.photon, h.clean⟩
  | setDark d => simp only [OffOp, decide_eq_true_eq] at ho; exact ⟨h.flat, ho, h.sigma, h.photon, h.clean⟩
  | setSigma s => simp only [OffOp, decide_eq_true_eq] at ho; exact ⟨h.flat, h.dark, ho, h.photon, h.clean⟩
  | setPhoton b =>
    simp only [OffOp, Bool.not_eq_true'] at ho
    exact ⟨h.flat, h.dark, h.sigma, ho, h.clean⟩

theorem offOp_lift (g : Geom) (op : Op K) : OffOp g (lift op) = true := by
  cases op <;> rfl

theorem pRun_cons (g : Geom) (st : PSt K) (op : POp K) (ops : List (POp K)) :
    pRun g st (op :: ops) =
      ((pRun g (pStep g st op).1 ops).1, (pStep g st op).2 :: (pRun g (pStep g st op).1 ops).2) := rfl

/-- one `integrate` / `read_out` on an all-off noisy detector does what the noiseless detector does -/
theorem pStep_lift_off {g : Geom} {pst : PSt K} {st : St K} (h : ParamsOff g pst)
    (hacc : pst.acc = st.acc) (hlen : ∀ a, st.acc = some a → a.length = g.npix) (op : Op K) :
    (pStep g pst (lift op)).2 = (step g st op).2 ∧ (pStep g pst (lift op)).1.acc = (step g st op).1.acc ∧
      ∀ a, (step g st op).1.acc = some a → a.length = g.npix := by
  cases op with
  | readOut =>
    have hl : (st.acc.getD (vzero g.npix)).length = g.npix := by
      cases h' : st.acc with
      | none => simp [vzero]
      | some a => simpa using hlen a h'
    refine ⟨?_, ?_, ?_⟩
    · simp only [lift, pStep, h.deterministic, if_true, step, readOut, hacc, h.flat]
      rw [zipWith_mul_ones _ _ hl]
    · simp only [lift]; rw [pStep_readOut_fst]; rfl
    · intro a ha; simp [step, readOut] at ha
  | integrate p dt w =>
    by_cases hp : p.length = g.ninput
    · have hc := binCharge_length g p dt w hp
      refine ⟨?_, ?_, ?_⟩
      · simp [lift, pStep, step, Detector.integrate, hp]
      · simp only [lift, pStep, hp, if_true, step, Detector.integrate, hacc, h.dark]
        rw [zipWith_add_zero_dark _ _ dt w (accAdd_length g st.acc _ hc hlen)]
      · intro a ha
        simp only [step, Detector.integrate, hp, if_true, Option.some.injEq] at ha
        subst ha
        exact accAdd_length g st.acc _ hc hlen
    · refine ⟨?_, ?_, ?_⟩
      · simp [lift, pStep, step, Detector.integrate, hp]
      · simpa [lift, pStep, step, Detector.integrate, hp] using hacc
      · simpa [step, Detector.integrate, hp] using hlen

end

/-! ### reference-level model (aliasing) -/

/-- well-formedness of a reference-level state: handles and the accumulator point into the heap, and the
caller holds no handle on the accumulator -/
structure RInv (st : RSt K) : Prop where
  known_lt : ∀ r ∈ st.known, r < st.heap.length
  acc_lt : ∀ a, st.acc = some a → a < st.heap.length
  acc_private : ∀ a, st.acc = some a → a ∉ st.known

/-- the value-level state a reference-level state stands for -/
def absSt (st : RSt K) : St K := { acc := st.accVal }

theorem RInv.init : RInv ({} : RSt K) := ⟨by simp, by simp, by simp⟩

theorem at_append_lt (st : RSt K) (x : List K) (r : Nat) (h : r < st.heap.length) :
    ({ st with heap := st.heap ++ [x] } : RSt K).at r = st.at r := by
  simp [RSt.at, List.getD_eq_getElem?_getD, List.getElem?_append_left h]

theorem getD_append_lt (l : List (List K)) (x : List K) (r : Nat) (h : r < l.length) :
    (l ++ [x]).getD r [] = l.getD r [] := by
  simp [List.getD_eq_getElem?_getD, List.getElem?_append_left h]

theorem getD_append_self (l : List (List K)) (x : List K) : (l ++ [x]).getD l.length [] = x := by
  simp [List.getD_eq_getElem?_getD]

theorem getD_set_ne (l : List (List K)) (x : List K) (r a : Nat) (h : r ≠ a) :
    (l.set r x).getD a [] = l.getD a [] := by
  simp [List.getD_eq_getElem?_getD, List.getElem?_set_ne h]

theorem rStep_inv (g : Geom) (st : RSt K) (op : ROp K) (h : RInv st) : RInv (rStep g st op).1 := by
  obtain ⟨h1, h2, h3⟩ := h
  cases op with
  | alloc v =>
    refine ⟨?_, ?_, ?_⟩ <;> simp only [rStep, List.length_append, List.length_singleton, List.mem_append, List.mem_singleton]
    · rintro r (hr | rfl)
      · have := h1 r hr; omega
      · omega
    · intro a ha; have := h2 a ha; omega
    · intro a ha
      rintro (hk | rfl)
      · exact h3 a ha hk
      · have := h2 _ ha; omega
  | write r v =>
    simp only [rStep]
    split
    · exact ⟨by simpa using h1, by simpa using h2, h3⟩
    · exact ⟨h1, h2, h3⟩
  | integrate buf dt w =>
    simp only [rStep]
    split
    · refine ⟨?_, ?_, ?_⟩ <;> simp only [List.length_append, List.length_singleton, Option.some.injEq]
      · intro r hr; have := h1 r hr; omega
      · rintro a rfl; omega
      · rintro a rfl hk; have := h1 _ hk; omega
    · exact ⟨h1, h2, h3⟩
  | readOut =>
    refine ⟨?_, ?_, ?_⟩ <;> simp only [rStep, List.length_append, List.length_singleton, List.mem_append, List.mem_singleton]
    · rintro r (hr | rfl)
      · have := h1 r hr; omega
      · omega
    · intro a ha; simp at ha
    · intro a ha; simp at ha

theorem accVal_congr (st st' : RSt K) (hacc : st'.acc = st.acc)
    (hheap : ∀ a, st.acc = some a → st'.heap.getD a [] = st.heap.getD a []) : st'.accVal = st.accVal := by
  cases ha : st.acc with
  | none => simp [RSt.accVal, ha, hacc]
  | some a => simp only [RSt.accVal, hacc, ha, Option.map_some, RSt.at, hheap a ha]

theorem absSt_alloc (g : Geom) (st : RSt K) (v : List K) (h : RInv st) :
    absSt (rStep g st (.alloc v)).1 = absSt st := by
  have := accVal_congr st { st with heap := st.heap ++ [v], known := st.known ++ [st.heap.length] } rfl
    (fun a ha => getD_append_lt _ _ _ (h.acc_lt a ha))
  simp only [absSt, rStep, this]

theorem absSt_write (g : Geom) (st : RSt K) (r : Nat) (v : List K) (h : RInv st) :
    absSt (rStep g st (.write r v)).1 = absSt st := by
  simp only [rStep]
  split
  · rename_i hk
    have hk' : r ∈ st.known := by simpa using hk
    have := accVal_congr st { st with heap := st.heap.set r v } rfl
      (fun a ha => getD_set_ne _ _ _ _ (fun e => h.acc_private a ha (by rw [← e]; exact hk')))
    simp only [absSt, this]
  · rfl

theorem absSt_integrate (g : Geom) (st : RSt K) (buf : Nat) (dt w : K) (h : RInv st) :
    absSt (rStep g st (.integrate buf dt w)).1 = (step g (absSt st) (.integrate (st.at buf) dt w)).1 := by
  simp only [rStep, step, Detector.integrate]
  split
  · simp only [absSt, RSt.accVal, Option.map_some, RSt.at, getD_append_self]
  · rfl

theorem absSt_readOut (g : Geom) (st : RSt K) :
    absSt (rStep g st .readOut).1 = (step g (absSt st) .readOut).1 ∧
      (step g (absSt st) .readOut).2 = .image ((rStep g st .readOut).1.at st.heap.length) := by
  constructor
  · simp [rStep, step, readOut, absSt, RSt.accVal]
  · simp only [rStep, step, readOut, absSt, RSt.at, getD_append_self]

theorem rRun_cons (g : Geom) (st : RSt K) (op : ROp K) (ops : List (ROp K)) :
    rRun g st (op :: ops) = ((rRun g (rStep g st op).1 ops).1, (rStep g st op).2 :: (rRun g (rStep g st op).1 ops).2) := rfl

theorem rStep_known_sub (g : Geom) (st : RSt K) (op : ROp K) : ∀ r ∈ st.known, r ∈ (rStep g st op).1.known := by
  intro r hr
  cases op with
  | alloc v => simp [rStep, hr]
  | write r' v => simp only [rStep]; split <;> exact hr
  | integrate buf dt w => simp only [rStep]; split <;> exact hr
  | readOut => simp [rStep, hr]

/-! ### the noisy detector with the noise sources on (`pReadOutRng`) -/

section
variable [DecidableEq K]

theorem darkTime_snoc (l : List (List K × K × K)) (x : List K × K × K) :
    darkTime (l ++ [x]) = darkTime l + x.2.1 * x.2.2 := by
  simp [darkTime]

theorem dark_step_alg (S c d : List K) (T dt w : K) :
    List.zipWith (fun a d => a + d * dt * w) (vadd (vadd S (d.map (· * T))) c) d
      = vadd (vadd S c) (d.map (· * (T + dt * w))) := by
  induction S generalizing c d with
  | nil => simp [vadd]
  | cons a S ih =>
    cases c with
    | nil => simp [vadd]
    | cons b c =>
      cases d with
      | nil => simp [vadd]
      | cons e d =>
        have := ih c d
        simp only [vadd] at this ⊢
        simp only [List.map_cons, List.zipWith_cons_cons, this, List.cons.injEq, and_true]
        ring

/-- the accumulated charge of `pst` is `Σ bin(p)·dt·w + dark·Σ dt·w` over the pending integrations `cur` -/
structure PRep (g : Geom) (pst : PSt K) (cur : List (List K × K × K)) : Prop where
  lam : pst.lam g = vadd (sumCharges g cur) (pst.dark.map (· * darkTime cur))
  valid : Valid g cur
  dlen : pst.dark.length = g.npix

theorem vadd_map_zero (S d : List K) (h : S.length = d.length) : vadd S (d.map (· * (0 : K))) = S := by
  induction S generalizing d with
  | nil => simp [vadd]
  | cons a S ih =>
    cases d with
    | nil => simp at h
    | cons e d => simp only [List.length_cons, Nat.add_right_cancel_iff] at h; simp [vadd] at ih ⊢; exact ih d h

theorem PRep.init (g : Geom) (pst : PSt K) (h : pst.acc = none) (hd : pst.dark.length = g.npix) : PRep g pst [] := by
  refine ⟨?_, by intro x hx; simp at hx, hd⟩
  simp only [PSt.lam, h, Option.getD_none, sumCharges_nil, darkTime, List.map_nil, List.sum_nil]
  rw [vadd_map_zero _ _ (by simp [vzero, hd])]

theorem pAccAdd_eq (g : Geom) (pst : PSt K) (c : List K) (hc : c.length = g.npix) :
    accAdd pst.acc c = vadd (pst.lam g) c := by
  cases h : pst.acc with
  | none => simp [accAdd, PSt.lam, h, vadd_vzero_left _ _ hc]
  | some a => simp [accAdd, PSt.lam, h]

theorem PRep.integrate {g : Geom} {pst : PSt K} {cur} (hr : PRep g pst cur) (p : List K) (dt w : K)
    (hp : p.length = g.ninput) :
    PRep g (pStep g pst (.integrate p dt w)).1 (cur ++ [(p, dt, w)]) := by
  have hc := binCharge_length g p dt w hp
  refine ⟨?_, ?_, ?_⟩
  · simp only [pStep, hp, if_true, PSt.lam, Option.getD_some]
    rw [pAccAdd_eq g pst _ hc, hr.lam, sumCharges_snoc, darkTime_snoc, dark_step_alg]
  · intro x hx
    rcases List.mem_append.mp hx with h | h
    · exact hr.valid x h
    · simp at h; subst h; exact hp
  · simpa [pStep, hp] using hr.dlen

theorem pIntegrateAll_rep (g : Geom) (l : List (List K × K × K)) (hv : Valid g l) (pst : PSt K) (cur)
    (hr : PRep g pst cur) : PRep g (pIntegrateAll g pst l) (cur ++ l) := by
  induction l generalizing pst cur with
  | nil => simpa [pIntegrateAll] using hr
  | cons x l ih =>
    have := ih (fun y hy => hv y (by simp [hy])) _ _ (hr.integrate x.1 x.2.1 x.2.2 (hv x (by simp)))
    simpa [pIntegrateAll] using this

theorem pIntegrateAll_params (g : Geom) (l : List (List K × K × K)) (pst : PSt K) :
    (pIntegrateAll g pst l).flat = pst.flat ∧ (pIntegrateAll g pst l).dark = pst.dark ∧
      (pIntegrateAll g pst l).sigma = pst.sigma ∧ (pIntegrateAll g pst l).photon = pst.photon := by
  induction l generalizing pst with
  | nil => simp [pIntegrateAll]
  | cons x l ih =>
    have h := ih (pStep g pst (.integrate x.1 x.2.1 x.2.2)).1
    simp only [pIntegrateAll, List.foldl_cons] at h ⊢
    obtain ⟨h1, h2, h3, h4⟩ := h
    refine ⟨h1.trans ?_, h2.trans ?_, h3.trans ?_, h4.trans ?_⟩ <;> (simp only [pStep]; split <;> rfl)

theorem vmul_getD (a b : List K) (i : Nat) (ha : i < a.length) (hb : i < b.length) :
    (vmul a b).getD i 0 = a.getD i 0 * b.getD i 0 := by
  simp [vmul, List.getD_eq_getElem?_getD, List.getElem?_zipWith, List.getElem?_eq_getElem ha,
    List.getElem?_eq_getElem hb]

theorem vmul_length (a b : List K) : (vmul a b).length = min a.length b.length := by simp [vmul]

theorem vmul_ones (a : List K) (n : Nat) (h : a.length = n) : vmul a (List.replicate n (1 : K)) = a :=
  zipWith_mul_ones a n h

theorem vmul_vzero_left (n : Nat) (z : List K) (h : z.length = n) : vmul (vzero n : List K) z = vzero n := by
  induction z generalizing n with
  | nil => subst h; simp [vmul, vzero]
  | cons x z ih =>
    cases n with
    | zero => simp at h
    | succ n =>
      simp only [List.length_cons, Nat.add_right_cancel_iff] at h
      have := ih n h
      simp only [vmul, vzero] at this ⊢
      simp [List.replicate_succ, this]

end

/-! ### time-additivity helpers (session 4) -/

theorem vadd_assoc_det (a b c : List K) : vadd (vadd a b) c = vadd a (vadd b c) := by
  induction a generalizing b c with
  | nil => simp [vadd]
  | cons x xs ih =>
    cases b with
    | nil => simp [vadd]
    | cons y ys =>
      cases c with
      | nil => simp [vadd]
      | cons z zs =>
        have := ih ys zs
        simp only [vadd, List.zipWith_cons_cons] at this ⊢
        rw [this, add_assoc]

theorem charge_add_dt (p : List K) (dt₁ dt₂ w : K) :
    charge p (dt₁ + dt₂) w = vadd (charge p dt₁ w) (charge p dt₂ w) := by
  induction p with
  | nil => simp [charge, vadd]
  | cons x xs ih =>
    simp only [charge, vadd, List.map_cons, List.zipWith_cons_cons] at ih ⊢
    rw [ih]; congr 1; ring

theorem charge_smul_power (c : K) (p : List K) (dt w : K) :
    charge (p.map (c * ·)) dt w = (charge p dt w).map (c * ·) := by
  simp only [charge, List.map_map]
  apply List.map_congr_left
  intro x _
  simp only [Function.comp]
  ring

theorem charge_add_w (p : List K) (dt w₁ w₂ : K) :
    charge p dt (w₁ + w₂) = vadd (charge p dt w₁) (charge p dt w₂) := by
  induction p with
  | nil => simp [charge, vadd]
  | cons x xs ih =>
    simp only [charge, vadd, List.map_cons, List.zipWith_cons_cons] at ih ⊢
    rw [ih]; congr 1; ring

end HcipyVerif.Detector
