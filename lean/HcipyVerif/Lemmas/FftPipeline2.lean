import HcipyVerif.Lemmas.FftPipeline
import HcipyVerif.Model.FftIndex2

/-!
# Two axes: the 2-D pipeline is the 1-D pipeline applied along each axis (separability), hence
the 2-D defining sum.
-/
set_option linter.unusedSimpArgs false
set_option linter.unusedVariables false
set_option linter.unusedSectionVars false

namespace HcipyVerif.Fft
open Finset

section core
variable {C : Type} [CommRing C]

theorem pad2_eq (Ny My Nx Mx : ℕ) (f : ℕ → ℕ → C) (a b : ℕ) :
    pad2 Ny My Nx Mx f a b = pad Ny My (fun iy => pad Nx Mx (f iy) b) a := by
  unfold pad2 pad
  by_cases hA : padStart Ny My ≤ a ∧ a < padStart Ny My + Ny <;>
    by_cases hB : padStart Nx Mx ≤ b ∧ b < padStart Nx Mx + Nx <;> simp [hA, hB]

theorem pad_sum (N M : ℕ) (s : Finset ℕ) (G : ℕ → ℕ → C) (a : ℕ) :
    pad N M (fun i => ∑ p ∈ s, G i p) a = ∑ p ∈ s, pad N M (fun i => G i p) a := by
  unfold pad
  split
  · rfl
  · simp

theorem pad_mul_right (N M : ℕ) (g : ℕ → C) (c : C) (a : ℕ) :
    pad N M (fun i => g i * c) a = pad N M g a * c := by
  unfold pad
  split
  · rfl
  · simp

/-- **Separability of the index core**: padding, shifting, transforming and cropping a 2-D
array on both axes at once is the 1-D core along `x` followed by the 1-D core along `y`. -/
theorem core2_eq_iter (b : Bool) (Ny My Moy Nx Mx Mox : ℕ) (kerY kerX : ℤ → C) (f : ℕ → ℕ → C)
    (ky kx : ℕ) :
    core2 b Ny My Moy Nx Mx Mox kerY kerX f ky kx
      = core b Ny My Moy kerY (fun iy => core b Nx Mx Mox kerX (f iy) kx) ky := by
  cases b
  · simp only [core2, core, Bool.false_eq_true, if_false]
    unfold crop2 crop dft2 dft
    simp only [sumRange_eq]
    apply Finset.sum_congr rfl
    intro py _
    rw [pad_sum, Finset.sum_mul]
    apply Finset.sum_congr rfl
    intro px _
    rw [pad_mul_right, pad2_eq]
    ring
  · simp only [core2, core, if_true]
    unfold crop2 crop fftshift2 fftshift dft2 dft ifftshift2 ifftshift
    simp only [sumRange_eq]
    apply Finset.sum_congr rfl
    intro py _
    rw [pad_sum, Finset.sum_mul]
    apply Finset.sum_congr rfl
    intro px _
    rw [pad_mul_right, pad2_eq]
    ring

/-- the 1-D core is linear in a factor that does not depend on the summation index -/
theorem core_mul_left (b : Bool) (N M Mo : ℕ) (ker : ℤ → C) (c : C) (g : ℕ → C) (k : ℕ) :
    core b N M Mo ker (fun i => c * g i) k = c * core b N M Mo ker g k := by
  have hp : ∀ a, pad N M (fun i => c * g i) a = c * pad N M g a := by
    intro a; unfold pad; split
    · rfl
    · simp
  cases b
  · simp only [core, Bool.false_eq_true, if_false]
    unfold crop dft
    simp only [sumRange_eq, hp, Finset.mul_sum]
    apply Finset.sum_congr rfl; intro p _; ring
  · simp only [core, if_true]
    unfold crop fftshift dft ifftshift
    simp only [sumRange_eq, hp, Finset.mul_sum]
    apply Finset.sum_congr rfl; intro p _; ring

end core

section pipeline
variable {K C : Type} [Field K] [Field C] {T E : K → C}

theorem inMult2_eq (hT : IsChar T) (hE : IsChar E) (gy gx : Cfg K C) (hemu : gy.emu = gx.emu)
    (iy ix : ℕ) : inMult2 T E gy gx iy ix = gy.inMult T E iy * gx.inMult T E ix := by
  unfold inMult2 Cfg.inMult emuIn2 Cfg.emuIn
  rw [hemu]
  have h1 : E (-(gx.s * gx.x ix + gy.s * gy.x iy)) = E (-(gy.s * gy.x iy)) * E (-(gx.s * gx.x ix)) := by
    rw [← hE.add]; congr 1; ring
  rw [h1]
  split
  · have h2 : T (gx.fShift * gx.aInt (ix + padStart gx.N gx.M) + gy.fShift * gy.aInt (iy + padStart gy.N gy.M))
        = T (gy.fShift * gy.aInt (iy + padStart gy.N gy.M)) * T (gx.fShift * gx.aInt (ix + padStart gx.N gx.M)) := by
      rw [← hT.add]; congr 1; ring
    have h3 : T (-(gx.fShift * gx.aInt 0 + gy.fShift * gy.aInt 0))
        = T (-(gy.fShift * gy.aInt 0)) * T (-(gx.fShift * gx.aInt 0)) := by
      rw [← hT.add]; congr 1; ring
    rw [h2, h3]; ring
  · ring

theorem outMult2_eq (hT : IsChar T) (hE : IsChar E) (gy gx : Cfg K C) (hemu : gy.emu = gx.emu)
    (ky kx : ℕ) : outMult2 T E gy gx ky kx = gy.outMult T E ky * gx.outMult T E kx := by
  unfold outMult2 Cfg.outMult
  rw [centre_ratio hT hE gy, centre_ratio hT hE gx]
  have hc : centrePhase2 T E gy gx ky kx * (centrePhase2 T E gy gx (gy.Mo / 2) (gx.Mo / 2))⁻¹
      = T (-(gy.centre * gy.a ky)) * T (-(gx.centre * gx.a kx)) := by
    unfold centrePhase2
    rw [a_centre, a_centre, mul_zero, mul_zero, add_zero, neg_zero, hT.zero, one_mul, ← hT.add]
    have := hE.ne_zero (-(gx.centre * gx.s + gy.centre * gy.s))
    have e : -(gx.centre * gx.a kx + gy.centre * gy.a ky) = -(gy.centre * gy.a ky) + -(gx.centre * gx.a kx) := by ring
    rw [e]
    field_simp
  rw [hc]
  unfold emuOut2 Cfg.emuOut
  rw [hemu]
  split
  · have h2 : T (gx.fShift * gx.aInt (kx + padStart gx.Mo gx.M) + gy.fShift * gy.aInt (ky + padStart gy.Mo gy.M))
        = T (gy.fShift * gy.aInt (ky + padStart gy.Mo gy.M)) * T (gx.fShift * gx.aInt (kx + padStart gx.Mo gx.M)) := by
      rw [← hT.add]; congr 1; ring
    rw [h2]; ring
  · ring

/-- **Separability of the whole pipeline**: the literal 2-D `forward` is the 1-D `forward`
along `x` followed by the 1-D `forward` along `y`. -/
theorem fastForward2_eq_iter (hT : IsChar T) (hE : IsChar E) (gy gx : Cfg K C)
    (hemu : gy.emu = gx.emu) (f : ℕ → ℕ → C) (ky kx : ℕ) :
    fastForward2 T E gy gx f ky kx = fastForward2Iter T E gy gx f ky kx := by
  unfold fastForward2 fastForward2Iter fastForward
  rw [core2_eq_iter, outMult2_eq hT hE gy gx hemu, hemu]
  have inner : (fun iy => core (!gx.emu) gx.N gx.M gx.Mo (gx.kerF T)
        (fun ix => f iy ix * inMult2 T E gy gx iy ix) kx)
      = fun iy => gy.inMult T E iy * core (!gx.emu) gx.N gx.M gx.Mo (gx.kerF T)
        (fun ix => f iy ix * gx.inMult T E ix) kx := by
    funext iy
    rw [← core_mul_left]
    congr 1
    funext ix
    rw [inMult2_eq hT hE gy gx hemu]; ring
  rw [inner]
  have outer : (fun iy => core (!gx.emu) gx.N gx.M gx.Mo (gx.kerF T) (fun j => f iy j * gx.inMult T E j) kx
        * gx.outMult T E kx * gy.inMult T E iy)
      = fun iy => gx.outMult T E kx * (gy.inMult T E iy * core (!gx.emu) gx.N gx.M gx.Mo (gx.kerF T)
        (fun ix => f iy ix * gx.inMult T E ix) kx) := by
    funext iy; ring
  rw [outer, core_mul_left]
  ring

/-- the iterated pipeline is the 2-D defining sum -/
theorem fastForward2Iter_eq_sum (hT : IsChar T) (hE : IsChar E) (hper : ∀ n : ℤ, T (n : K) = 1)
    (gy gx : Cfg K C) (hNy : gy.N ≤ gy.M) (hMoy : gy.Mo ≤ gy.M) (hcy : gy.dT * (gy.M : K) * gy.δ = 1)
    (hNx : gx.N ≤ gx.M) (hMox : gx.Mo ≤ gx.M) (hcx : gx.dT * (gx.M : K) * gx.δ = 1)
    (f : ℕ → ℕ → C) (ky kx : ℕ) (hky : ky < gy.Mo) (hkx : kx < gx.Mo) :
    fastForward2Iter T E gy gx f ky kx
      = ∑ iy ∈ range gy.N, ∑ ix ∈ range gx.N, f iy ix * (gy.w * gx.w) *
          (T (-(gx.a kx * gx.x ix + gy.a ky * gy.x iy)) * E (-(gx.s * gx.x ix + gy.s * gy.x iy))) := by
  unfold fastForward2Iter
  rw [fastForward_eq_sumForward hT hE hper gy hNy hMoy hcy _ ky hky, sumForward, sumRange_eq]
  apply Finset.sum_congr rfl
  intro iy _
  rw [fastForward_eq_sumForward hT hE hper gx hNx hMox hcx _ kx hkx, sumForward, sumRange_eq,
    Finset.sum_mul, Finset.sum_mul]
  apply Finset.sum_congr rfl
  intro ix _
  have h1 : T (-(gx.a kx * gx.x ix + gy.a ky * gy.x iy)) = T (-(gx.a kx * gx.x ix)) * T (-(gy.a ky * gy.x iy)) := by
    rw [← hT.add]; congr 1; ring
  have h2 : E (-(gx.s * gx.x ix + gy.s * gy.x iy)) = E (-(gx.s * gx.x ix)) * E (-(gy.s * gy.x iy)) := by
    rw [← hE.add]; congr 1; ring
  rw [h1, h2]; ring

end pipeline
end HcipyVerif.Fft
