import HcipyVerif.Model.MultiLayer
import HcipyVerif.Lemmas.Layer
/-! Helper lemmas for the `MultiLayerAtmosphere` model (C15). -/
set_option linter.unusedSimpArgs false
set_option linter.unusedVariables false
namespace HcipyVerif.Layer

/-! ## sorting -/

def Desc (l : List (Nat × Rat)) : Prop := l.Pairwise (fun a b => b.2 ≤ a.2)

theorem insDesc_perm (x : Nat × Rat) : ∀ l, (insDesc x l).Perm (x :: l)
  | [] => List.Perm.refl _
  | y :: ys => by
    unfold insDesc
    split
    · exact List.Perm.refl _
    · exact ((insDesc_perm x ys).cons y).trans (List.Perm.swap x y ys)

theorem sortDesc_perm : ∀ l, (sortDesc l).Perm l
  | [] => List.Perm.refl _
  | a :: l => by
    have : sortDesc (a :: l) = insDesc a (sortDesc l) := rfl
    rw [this]
    exact (insDesc_perm a _).trans ((sortDesc_perm l).cons a)

theorem insDesc_desc (x : Nat × Rat) : ∀ l, Desc l → Desc (insDesc x l)
  | [], _ => by simp [insDesc, Desc]
  | y :: ys, h => by
    unfold insDesc
    have hy : ∀ z ∈ ys, z.2 ≤ y.2 := (List.pairwise_cons.1 h).1
    have hys : Desc ys := (List.pairwise_cons.1 h).2
    split
    · rename_i hle
      refine List.pairwise_cons.2 ⟨?_, h⟩
      intro z hz
      rcases List.mem_cons.1 hz with rfl | hz
      · exact hle
      · exact le_trans (hy z hz) hle
    · rename_i hlt
      refine List.pairwise_cons.2 ⟨?_, insDesc_desc x ys hys⟩
      intro z hz
      have : z ∈ x :: ys := (insDesc_perm x ys).mem_iff.1 hz
      rcases List.mem_cons.1 this with rfl | hz
      · exact le_of_lt (lt_of_not_ge hlt)
      · exact hy z hz

theorem sortDesc_desc : ∀ l, Desc (sortDesc l)
  | [] => by simp [sortDesc, Desc]
  | a :: l => by
    have : sortDesc (a :: l) = insDesc a (sortDesc l) := rfl
    rw [this]; exact insDesc_desc a _ (sortDesc_desc l)

theorem mem_indexedFrom : ∀ (hs : List Rat) (k j : Nat) (h : Rat), (j, h) ∈ indexedFrom k hs → k ≤ j ∧ hs[j - k]? = some h
  | [], _, _, _, hm => by simp [indexedFrom] at hm
  | a :: r, k, j, h, hm => by
    simp only [indexedFrom, List.mem_cons] at hm
    rcases hm with he | hm
    · injection he with h1 h2; subst h1; subst h2; simp
    · obtain ⟨h1, h2⟩ := mem_indexedFrom r (k + 1) j h hm
      refine ⟨by omega, ?_⟩
      have : j - k = (j - (k + 1)) + 1 := by omega
      rw [this]; simpa using h2

theorem indexedFrom_fst : ∀ (hs : List Rat) (k : Nat), (indexedFrom k hs).map Prod.fst = List.range' k hs.length
  | [], _ => rfl
  | a :: r, k => by simp [indexedFrom, indexedFrom_fst r (k + 1), List.range'_succ]

theorem indexedFrom_snd : ∀ (hs : List Rat) (k : Nat), (indexedFrom k hs).map Prod.snd = hs
  | [], _ => rfl
  | a :: r, k => by simp [indexedFrom, indexedFrom_snd r (k + 1)]

/-- every entry of the sorted list carries the height of the layer it names -/
theorem sorted_entry (hs : List Rat) (x : Nat × Rat) (hx : x ∈ sortDesc (indexed hs)) : hs.getD x.1 0 = x.2 := by
  have hm : x ∈ indexed hs := (sortDesc_perm _).mem_iff.1 hx
  obtain ⟨_, h2⟩ := mem_indexedFrom hs 0 x.1 x.2 hm
  simp only [Nat.sub_zero] at h2
  simp [List.getD, h2]

/-! ## the element list -/

theorem layerOrder_elementsOf (s : Bool) : ∀ l, layerOrder (elementsOf s l) = l.map Prod.fst
  | [] => rfl
  | [x] => by
    cases s
    · simp [elementsOf, layerOrder, El.layer?]
    · by_cases hp : 0 < x.2 <;> simp [elementsOf, layerOrder, El.layer?, hp]
  | x :: y :: r => by
    have ih := layerOrder_elementsOf s (y :: r)
    cases s <;> simp [elementsOf, layerOrder, El.layer?] at ih ⊢ <;> exact ih

theorem elementsOf_false : ∀ l, elementsOf false l = l.map (fun x => El.layer x.1)
  | [] => rfl
  | [x] => by simp [elementsOf]
  | x :: y :: r => by simp [elementsOf, elementsOf_false (y :: r)]

theorem propSum_elementsOf : ∀ (r : List (Nat × Rat)) (x : Nat × Rat), (∀ z ∈ x :: r, 0 ≤ z.2) →
    propSum (elementsOf true (x :: r)) = x.2
  | [], x, h => by
    have hx : 0 ≤ x.2 := h x (List.mem_cons_self ..)
    by_cases hp : 0 < x.2
    · simp [elementsOf, propSum, El.dist, hp]
    · have : x.2 = 0 := le_antisymm (not_lt.1 hp) hx
      simp [elementsOf, propSum, El.dist, hp, this]
  | y :: r, x, h => by
    have ih := propSum_elementsOf r y (fun z hz => h z (List.mem_cons_of_mem _ hz))
    simp only [elementsOf, if_true, List.singleton_append, propSum, El.dist, ih]
    ring

theorem dist_nonneg_elementsOf (s : Bool) : ∀ l, Desc l → (∀ z ∈ l, 0 ≤ z.2) → ∀ e ∈ elementsOf s l, 0 ≤ e.dist
  | [], _, _, e, he => by simp [elementsOf] at he
  | [x], _, h0, e, he => by
    simp only [elementsOf, List.mem_cons] at he
    rcases he with rfl | he
    · simp [El.dist]
    · split at he
      · simp at he; subst he; exact h0 x (List.mem_cons_self ..)
      · simp at he
  | x :: y :: r, hd, h0, e, he => by
    have hxy : y.2 ≤ x.2 := (List.pairwise_cons.1 hd).1 y (List.mem_cons_self ..)
    have ih := dist_nonneg_elementsOf s (y :: r) (List.pairwise_cons.1 hd).2 (fun z hz => h0 z (List.mem_cons_of_mem _ hz))
    simp only [elementsOf, List.mem_cons, List.mem_append] at he
    rcases he with rfl | he | he
    · simp [El.dist]
    · split at he
      · simp at he; subst he; simp only [El.dist]; linarith
      · simp at he
    · exact ih e he

/-! ## the `_dirty` flag -/

/-- either a rebuild is pending or the element list is the one of the current heights and flag -/
def Atm.Inv (A : Atm) : Prop := A.dirty = true ∨ A.elements = buildElements A.scint A.heights

def AOp.isSetHeight : AOp → Bool
  | .setHeight _ _ => true
  | _ => false

theorem Atm.new_inv (hs : List Rat) (s : Bool) : (Atm.new hs s).Inv := Or.inr rfl

theorem Atm.step_inv (A : Atm) (o : AOp) (ho : o.isSetHeight = false) (hi : A.Inv) : (A.step o).Inv := by
  cases o with
  | setLayers hs => exact Or.inl rfl
  | setScint b =>
    rcases hi with hd | he
    · left; simp [Atm.step, hd]
    · by_cases hb : b = A.scint
      · subst hb
        cases hd : A.dirty
        · right; simp [Atm.step, he]
        · left; simp [Atm.step, hd]
      · left
        have : (b != A.scint) = true := by simpa using hb
        simp [Atm.step, this]
  | setHeight j h => simp [AOp.isSetHeight] at ho
  | propagate =>
    by_cases hd : A.dirty = true
    · right; simp [Atm.step, hd, Atm.calc]
    · rcases hi with h | h
      · exact absurd h hd
      · right; simpa [Atm.step, hd] using h
  | recalc => right; simp [Atm.step, Atm.calc]

theorem Atm.run_inv : ∀ (h : List AOp) (A : Atm), (∀ o ∈ h, o.isSetHeight = false) → A.Inv → (A.run h).Inv
  | [], _, _, hi => hi
  | o :: h, A, hh, hi =>
    Atm.run_inv h (A.step o) (fun o' ho' => hh o' (List.mem_cons_of_mem _ ho'))
      (A.step_inv o (hh o (List.mem_cons_self ..)) hi)

/-! ## the fan-out -/

def MOp.isIndep : MOp → Bool
  | .direct _ o => o.isIndep
  | _ => false

def MOp.isSet : MOp → Bool
  | .direct _ o => o.isSet
  | .setCn2 _ => true
  | .setL0 _ => true
  | _ => false

theorem AnyL.step_ident (a : AnyL) (o : Op) (h : o.isIndep = false) : (a.step o).ident = a.ident := by
  cases a with
  | fin L =>
    have h1 := L.step_shape o
    have h2 := L.step_orig o h
    simp [AnyL.step, AnyL.ident, h1.1, h1.2, h2]
  | inf L =>
    have h1 := L.step_shape o
    have h2 := L.step_orig o h
    simp [AnyL.step, AnyL.ident, h1.1, h1.2.1, h1.2.2, h2]

theorem AnyL.evolve?_eq_step (a a' : AnyL) (t : Rat) (h : a.evolve? t = some a') : a' = a.step (.evolve t) := by
  cases a with
  | fin L => simp [AnyL.evolve?] at h; subst h; rfl
  | inf L =>
    simp only [AnyL.evolve?, Option.map_eq_some_iff] at h
    obtain ⟨L', h1, h2⟩ := h
    subst h2
    simp [AnyL.step, InfL.step, h1]

theorem evolveAll_idents (t : Rat) : ∀ l, (evolveAll t l).1.map AnyL.ident = l.map AnyL.ident
  | [] => rfl
  | a :: r => by
    unfold evolveAll
    split
    · rfl
    · rename_i a' h
      have := AnyL.evolve?_eq_step a a' t h
      subst this
      simp [evolveAll_idents t r, AnyL.step_ident a (.evolve t) rfl]

theorem modifyAt_idents (o : Op) (h : o.isIndep = false) : ∀ (j : Nat) (l : List AnyL),
    (modifyAt (·.step o) j l).map AnyL.ident = l.map AnyL.ident
  | 0, [] => rfl
  | _ + 1, [] => rfl
  | 0, a :: r => by simp [modifyAt, AnyL.step_ident a o h]
  | j + 1, a :: r => by simp [modifyAt, modifyAt_idents o h j r]

theorem map_step_idents (f : AnyL → Op) (hf : ∀ a, (f a).isIndep = false) (l : List AnyL) :
    (l.map fun a => a.step (f a)).map AnyL.ident = l.map AnyL.ident := by
  induction l with
  | nil => rfl
  | cons a r ih => simp [AnyL.step_ident a (f a) (hf a)] at ih ⊢; exact ih

theorem MLA.step_idents (A : MLA) (o : MOp) (h : o.isIndep = false) :
    (A.step o).layers.map AnyL.ident = A.layers.map AnyL.ident := by
  cases o with
  | evolve t => exact evolveAll_idents t A.layers
  | reset => exact map_step_idents (fun _ => .reset false) (fun _ => rfl) A.layers
  | setCn2 c => exact map_step_idents (fun a => .setCn2 (a.par.cn2 / totalCn2 A.layers * c)) (fun _ => rfl) A.layers
  | setL0 l => exact map_step_idents (fun _ => .setL0 l) (fun _ => rfl) A.layers
  | direct j o => exact modifyAt_idents o h j A.layers

theorem MLA.run_idents : ∀ (h : List MOp) (A : MLA), (∀ o ∈ h, o.isIndep = false) →
    (A.run h).layers.map AnyL.ident = A.layers.map AnyL.ident
  | [], _, _ => rfl
  | o :: h, A, hh => by
    have := MLA.run_idents h (A.step o) (fun o' ho' => hh o' (List.mem_cons_of_mem _ ho'))
    rw [← A.step_idents o (hh o (List.mem_cons_self ..))]
    exact this

theorem AnyL.reset_eq (a : AnyL) : a.step (.reset false) = AnyL.ofIdent a.ident a.vel a.par := by
  cases a with
  | fin L => simp [AnyL.step, FinL.step, AnyL.ofIdent, AnyL.ident, AnyL.vel, AnyL.par, FinL.reset_false_eq_fresh]
  | inf L => simp [AnyL.step, InfL.step, AnyL.ofIdent, AnyL.ident, AnyL.vel, AnyL.par, InfL.reset_false_eq_fresh]

theorem map_eq_zipWith_map {α β γ : Type} (f : β → α → γ) (g : α → β) :
    ∀ l : List α, l.map (fun a => f (g a) a) = List.zipWith f (l.map g) l
  | [] => rfl
  | a :: r => by simp [map_eq_zipWith_map f g r]

theorem MLA.reset_eq (A : MLA) : A.reset = MLA.ofIdents (A.layers.map AnyL.ident) A.layers := by
  unfold MLA.reset MLA.ofIdents
  congr 1
  rw [← map_eq_zipWith_map (fun i b => AnyL.ofIdent i b.vel b.par) AnyL.ident]
  exact List.map_congr_left (fun a _ => a.reset_eq)

theorem totalCn2_map (k : Rat) (f : AnyL → AnyL) (hf : ∀ a, (f a).par.cn2 = a.par.cn2 * k) :
    ∀ l : List AnyL, totalCn2 (l.map f) = totalCn2 l * k
  | [] => by simp [totalCn2]
  | a :: r => by simp [totalCn2, totalCn2_map k f hf r, hf a]; ring

theorem AnyL.setCn2_par (a : AnyL) (c : Rat) : (a.step (.setCn2 c)).par.cn2 = c ∧ (a.step (.setCn2 c)).par.L0 = a.par.L0 := by
  cases a <;> simp [AnyL.step, FinL.step, InfL.step, FinL.setCn2, InfL.setCn2, AnyL.par]

theorem atmPhase_mul {K : Type} [Field K] (l : K) (hl : l ≠ 0) : ∀ as : List K, atmPhase l as * l = as.sum
  | [] => by simp [atmPhase]
  | a :: r => by
    simp only [atmPhase, phaseFor, List.sum_cons, add_mul, atmPhase_mul l hl r]
    rw [div_mul_cancel₀ a hl]

theorem atmPhase_scale {K : Type} [Field K] (l k : K) : ∀ as : List K, atmPhase l (as.map (k * ·)) = k * atmPhase l as
  | [] => by simp [atmPhase]
  | a :: r => by
    simp only [List.map_cons, atmPhase, phaseFor, atmPhase_scale l k r]
    ring

/-! ## velocity and parameters under non-setter operations; fresh layers -/

def AnyL.vp (a : AnyL) : V2 × Par := (a.vel, a.par)

theorem AnyL.step_vp (a : AnyL) (o : Op) (h : o.isSet = false) : (a.step o).vp = a.vp := by
  cases a with
  | fin L => have := L.step_params o h; simp [AnyL.step, AnyL.vp, AnyL.vel, AnyL.par, this.1, this.2]
  | inf L => have := L.step_params o h; simp [AnyL.step, AnyL.vp, AnyL.vel, AnyL.par, this.1, this.2]

theorem evolveAll_vp (t : Rat) : ∀ l, (evolveAll t l).1.map AnyL.vp = l.map AnyL.vp
  | [] => rfl
  | a :: r => by
    unfold evolveAll
    split
    · rfl
    · rename_i a' h
      have := AnyL.evolve?_eq_step a a' t h
      subst this
      simp [evolveAll_vp t r, AnyL.step_vp a (.evolve t) rfl]

theorem modifyAt_vp (o : Op) (h : o.isSet = false) : ∀ (j : Nat) (l : List AnyL),
    (modifyAt (·.step o) j l).map AnyL.vp = l.map AnyL.vp
  | 0, [] => rfl
  | _ + 1, [] => rfl
  | 0, a :: r => by simp [modifyAt, AnyL.step_vp a o h]
  | j + 1, a :: r => by simp [modifyAt, modifyAt_vp o h j r]

theorem map_step_vp (o : Op) (ho : o.isSet = false) (l : List AnyL) :
    (l.map fun a => a.step o).map AnyL.vp = l.map AnyL.vp := by
  induction l with
  | nil => rfl
  | cons a r ih => simp [AnyL.step_vp a o ho] at ih ⊢; exact ih

theorem MLA.step_vp (A : MLA) (o : MOp) (h : o.isSet = false) :
    (A.step o).layers.map AnyL.vp = A.layers.map AnyL.vp := by
  cases o with
  | evolve t => exact evolveAll_vp t A.layers
  | reset => exact map_step_vp (.reset false) rfl A.layers
  | setCn2 c => simp [MOp.isSet] at h
  | setL0 l => simp [MOp.isSet] at h
  | direct j o => exact modifyAt_vp o h j A.layers

theorem MLA.run_vp : ∀ (h : List MOp) (A : MLA), (∀ o ∈ h, o.isSet = false) →
    (A.run h).layers.map AnyL.vp = A.layers.map AnyL.vp
  | [], _, _ => rfl
  | o :: h, A, hh => by
    have := MLA.run_vp h (A.step o) (fun o' ho' => hh o' (List.mem_cons_of_mem _ ho'))
    rw [← A.step_vp o (hh o (List.mem_cons_self ..))]
    exact this

theorem AnyL.ofIdent_new (s : Spec) (v : V2) (p : Par) :
    AnyL.ofIdent (AnyL.new s).ident v p = AnyL.new { s with vel := v, par := p } := by
  cases hs : s.isInf <;> simp [AnyL.new, AnyL.ofIdent, AnyL.ident, hs] <;> rfl

theorem AnyL.new_vp (s : Spec) : (AnyL.new s).vp = (s.vel, s.par) := by
  cases hs : s.isInf <;> simp [AnyL.new, AnyL.vp, AnyL.vel, AnyL.par, hs] <;> exact ⟨rfl, rfl⟩

theorem ofIdents_new (specs : List Spec) : ∀ cur : List AnyL,
    MLA.ofIdents ((specs.map AnyL.new).map AnyL.ident) cur = MLA.new (currentSpecs specs cur) := by
  intro cur
  unfold MLA.ofIdents MLA.new currentSpecs
  congr 1
  induction specs generalizing cur with
  | nil => simp
  | cons s r ih =>
    cases cur with
    | nil => simp
    | cons b c =>
      have := ih c
      simp only [List.map_cons, List.zipWith_cons_cons, AnyL.ofIdent_new, this]

theorem currentSpecs_same (specs : List Spec) : ∀ cur : List AnyL,
    cur.map AnyL.vp = specs.map (fun s => (s.vel, s.par)) → currentSpecs specs cur = specs := by
  induction specs with
  | nil => intro cur _; simp [currentSpecs]
  | cons s r ih =>
    intro cur h
    cases cur with
    | nil => simp at h
    | cons b c =>
      simp only [List.map_cons, List.cons.injEq] at h
      have hb : b.vel = s.vel ∧ b.par = s.par := by
        have := h.1; simp only [AnyL.vp, Prod.mk.injEq] at this; exact this
      have := ih c h.2
      simp only [currentSpecs] at this ⊢
      simp [this, hb.1, hb.2]

/-! ## fan-out of the time -/

theorem AnyL.evolve?_t (a : AnyL) (t : Rat) (h : a.t ≤ t) : ∃ a', a.evolve? t = some a' ∧ a'.t = t := by
  cases a with
  | fin L => exact ⟨_, rfl, rfl⟩
  | inf L =>
    have : ¬ t < L.t := not_lt.2 h
    refine ⟨.inf (L.evolveWith sideX sideY t), ?_, rfl⟩
    simp [AnyL.evolve?, InfL.evolve, this]

theorem evolveAll_t (t : Rat) : ∀ l : List AnyL, (∀ a ∈ l, a.t ≤ t) →
    (evolveAll t l).2 = true ∧ ∀ a ∈ (evolveAll t l).1, a.t = t
  | [], _ => by simp [evolveAll]
  | a :: r, h => by
    obtain ⟨a', h1, h2⟩ := a.evolve?_t t (h a (List.mem_cons_self ..))
    have ih := evolveAll_t t r (fun b hb => h b (List.mem_cons_of_mem _ hb))
    unfold evolveAll
    rw [h1]
    refine ⟨ih.1, ?_⟩
    intro b hb
    rcases List.mem_cons.1 hb with rfl | hb
    · exact h2
    · exact ih.2 b hb

theorem AnyL.reset_t (a : AnyL) (b : Bool) : (a.step (.reset b)).t = 0 := by
  cases a <;> rfl

/-! ## equal / repeated target times with layers out of step (round 6) -/

/-- a time the layer does not refuse: any time for a finite layer, a time not before its own for an infinite layer -/
def AnyL.accepts (t : Rat) : AnyL → Prop
  | .fin _ => True
  | .inf L => L.t ≤ t

theorem AnyL.accepts_of_le (a : AnyL) (t : Rat) (h : a.t ≤ t) : a.accepts t := by
  cases a with
  | fin L => trivial
  | inf L => exact h

theorem AnyL.evolve?_accepts (a : AnyL) (t : Rat) (h : a.accepts t) :
    a.evolve? t = some (a.step (.evolve t)) ∧ (a.step (.evolve t)).t = t := by
  cases a with
  | fin L => exact ⟨rfl, rfl⟩
  | inf L =>
    have : ¬ t < L.t := not_lt.2 h
    constructor
    · simp [AnyL.evolve?, AnyL.step, InfL.step, InfL.evolve, this]
    · simp [AnyL.step, InfL.step, InfL.evolve, this, AnyL.t]
      rfl

theorem evolveAll_accepts (t : Rat) : ∀ l : List AnyL, (∀ a ∈ l, a.accepts t) →
    evolveAll t l = (l.map (·.step (.evolve t)), true)
  | [], _ => rfl
  | a :: r, h => by
    have h1 := (a.evolve?_accepts t (h a (List.mem_cons_self ..))).1
    have ih := evolveAll_accepts t r (fun b hb => h b (List.mem_cons_of_mem _ hb))
    unfold evolveAll
    rw [h1]
    simp [ih]

theorem modifyAt_getElem? {α : Type} (f : α → α) : ∀ (j : Nat) (l : List α), (modifyAt f j l)[j]? = l[j]?.map f
  | _, [] => by simp [modifyAt]
  | 0, a :: r => by simp [modifyAt]
  | j + 1, a :: r => by simp [modifyAt, modifyAt_getElem? f j r]

theorem mem_modifyAt {α : Type} (f : α → α) : ∀ (j : Nat) (l : List α) (b : α), b ∈ modifyAt f j l → b ∈ l ∨ ∃ a ∈ l, b = f a
  | _, [], b, h => by simp [modifyAt] at h
  | 0, a :: r, b, h => by
    simp only [modifyAt, List.mem_cons] at h
    rcases h with rfl | h
    · exact Or.inr ⟨a, List.mem_cons_self .., rfl⟩
    · exact Or.inl (List.mem_cons_of_mem _ h)
  | j + 1, a :: r, b, h => by
    simp only [modifyAt, List.mem_cons] at h
    rcases h with rfl | h
    · exact Or.inl (List.mem_cons_self ..)
    · rcases mem_modifyAt f j r b h with h | ⟨c, hc, rfl⟩
      · exact Or.inl (List.mem_cons_of_mem _ h)
      · exact Or.inr ⟨c, List.mem_cons_of_mem _ hc, rfl⟩

theorem AnyL.new_t (s : Spec) : (AnyL.new s).t = 0 := by
  unfold AnyL.new
  split <;> rfl

end HcipyVerif.Layer
