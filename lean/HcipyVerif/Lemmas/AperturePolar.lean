import HcipyVerif.Lemmas.ApertureKeck

/-!
# C12 — the code path on polar grids, and the VLT pupil as a shape of the model

`evalPolar_eq_val`: on a polar grid whose points are given by a radius `r ≥ 0` and a unit direction
`(cos θ, sin θ)` the polar code path (radius shortcut of the centre-less circle, `PolarGrid.rotate`,
`as_('cartesian')` for everything else) computes the point semantics at `(r cos θ, r sin θ)` —
provided every centre-less circle has a non-negative radius (`PolarWF`).  For a negative radius the
statement is false (`evalPolar_negative_radius`), and so is the real code.
-/
set_option linter.unusedSimpArgs false
set_option linter.unusedVariables false

namespace HcipyVerif.Aperture

/-- centre-less circles evaluated on the polar grid itself have a non-negative radius, and the
rotations on the way to them are rotations (`cos² + sin² = 1`) -/
def PolarWF : Shape → Prop
  | .disk R => 0 ≤ R
  | .compl a => PolarWF a
  | .mul a b => PolarWF a ∧ PolarWF b
  | .sub a b => PolarWF a ∧ PolarWF b
  | .rot c s a => c * c + s * s = 1 ∧ PolarWF a
  | _ => True

/-- a legal polar point: non-negative radius, unit direction -/
def PolarPt (q : PPt) : Prop := 0 ≤ q.1 ∧ q.2.1 * q.2.1 + q.2.2 * q.2.2 = 1

theorem toCart_rotDir (c s : Rat) (q : PPt) : toCart (rotDir c s q) = rotPt c s (toCart q) := by
  simp only [toCart, rotDir, rotPt, Prod.mk.injEq]
  constructor <;> ring

theorem rotDir_polarPt {c s : Rat} (h : c * c + s * s = 1) {q : PPt} (hq : PolarPt q) :
    PolarPt (rotDir c s q) := by
  refine ⟨hq.1, ?_⟩
  show (c * q.2.1 - s * q.2.2) * (c * q.2.1 - s * q.2.2) + (s * q.2.1 + c * q.2.2) * (s * q.2.1 + c * q.2.2) = 1
  have : (c * q.2.1 - s * q.2.2) * (c * q.2.1 - s * q.2.2) + (s * q.2.1 + c * q.2.2) * (s * q.2.1 + c * q.2.2)
      = (c * c + s * s) * (q.2.1 * q.2.1 + q.2.2 * q.2.2) := by ring
  rw [this, h, hq.2]; norm_num

/-- the radius shortcut is the Cartesian test at `(r cos θ, r sin θ)` -/
theorem disk_shortcut {R : Rat} (hR : 0 ≤ R) {q : PPt} (hq : PolarPt q) :
    b2r (decide (q.1 ≤ R)) = val (.disk R) (toCart q) := by
  have hs : sq q.1 = sq (q.1 * q.2.1) + sq (q.1 * q.2.2) := by
    have : sq (q.1 * q.2.1) + sq (q.1 * q.2.2) = sq q.1 * (q.2.1 * q.2.1 + q.2.2 * q.2.2) := by
      unfold sq; ring
    rw [this, hq.2, mul_one]
  have := polar_shortcut hq.1 hR hs
  simp only [val, inCircle, toCart, sub_zero]
  by_cases h : q.1 ≤ R
  · simp [h, this.mp h]
  · have h' : ¬ (sq (q.1 * q.2.1) + sq (q.1 * q.2.2) ≤ sq R) := fun hc => h (this.mpr hc)
    simp [h, h']

theorem evalPolar_eq_val : ∀ (s : Shape) (qs : List PPt), PolarWF s → (∀ q ∈ qs, PolarPt q) →
    evalPolar s qs = (qs.map toCart).map (val s) := by
  intro s
  induction s with
  | disk R =>
    intro qs h hq
    rw [evalPolar, List.map_map]
    apply List.map_congr_left
    intro q hqm
    exact disk_shortcut h (hq q hqm)
  | compl a ih => intro qs h hq; rw [evalPolar, ih qs h hq]; simp [val]
  | mul a b iha ihb =>
    intro qs h hq; rw [evalPolar, iha qs h.1 hq, ihb qs h.2 hq, zipWith_map_same]; simp [val]
  | sub a b iha ihb =>
    intro qs h hq; rw [evalPolar, iha qs h.1 hq, ihb qs h.2 hq, zipWith_map_same]; simp [val]
  | rot c s a ih =>
    intro qs h hq
    have hq' : ∀ q ∈ qs.map (rotDir c s), PolarPt q := by
      intro q hqm
      simp only [List.mem_map] at hqm
      obtain ⟨q0, hq0, rfl⟩ := hqm
      exact rotDir_polarPt h.1 (hq q0 hq0)
    rw [evalPolar, ih _ h.2 hq', List.map_map, List.map_map, List.map_map]
    apply List.map_congr_left
    intro q _
    simp only [Function.comp_def, toCart_rotDir, val]
  | circle r cx cy => intro qs _ _; rw [evalPolar, evalPts_eq_val] <;> (intros; simp_all)
  | halfplane gt a b c => intro qs _ _; rw [evalPolar, evalPts_eq_val] <;> (intros; simp_all)
  | ellipse cM sM cm sm cx cy mn => intro qs _ _; rw [evalPolar, evalPts_eq_val] <;> (intros; simp_all)
  | rect hx hy cx cy => intro qs _ _; rw [evalPolar, evalPts_eq_val] <;> (intros; simp_all)
  | regpoly even r a dirs cx cy => intro qs _ _; rw [evalPolar, evalPts_eq_val] <;> (intros; simp_all)
  | irrpoly vs hx hy bx by_ => intro qs _ _; rw [evalPolar, evalPts_eq_val] <;> (intros; simp_all)
  | spider sx sy c s hl hw => intro qs _ _; rw [evalPolar, evalPts_eq_val] <;> (intros; simp_all)
  | spiderInf px py c s hw => intro qs _ _; rw [evalPolar, evalPts_eq_val] <;> (intros; simp_all)
  | const v => intro qs _ _; rw [evalPolar, evalPts_eq_val] <;> (intros; simp_all)
  | shift dx dy a ih => intro qs _ _; rw [evalPolar, evalPts_eq_val] <;> (intros; simp_all)
  | seg segs a ih => intro qs _ _; rw [evalPolar, evalPts_eq_val] <;> (intros; simp_all)

/-- negative diameter: the shortcut sees an empty disk, the Cartesian test a disk of radius `|R|` -/
theorem evalPolar_negative_radius :
    PolarPt (0, 1, 0) ∧
    evalPolar (.disk (-1)) [(0, 1, 0)] = [0] ∧ ([((0 : Rat), (1 : Rat), (0 : Rat))].map toCart).map (val (.disk (-1))) = [1] := by
  refine ⟨⟨le_refl _, by norm_num⟩, ?_, ?_⟩
  · simp [evalPolar, b2r]
  · simp [toCart, val, inCircle, sq, b2r]

/-! ## the Keck pupil on polar grids -/

theorem spiderFold_polarWF (hw : Rat) (rest : List (Rat × Rat)) (acc : Shape) (h : PolarWF acc) :
    PolarWF (rest.foldl (fun acc d => Shape.mul acc (.spiderInf 0 0 d.1 d.2 hw)) acc) := by
  induction rest generalizing acc with
  | nil => simpa using h
  | cons d rest ih => exact ih _ ⟨h, trivial⟩

theorem keck_polarWF {obsR : Rat} (h : 0 ≤ obsR) (rings : Nat) (pitch ap segR segA : Rat)
    (dirs : List (Rat × Rat)) (trs : List Rat) (spiders : List (Rat × Rat)) (hw : Rat) :
    PolarWF (keckShape rings pitch ap segR segA dirs trs obsR spiders hw) := by
  cases spiders with
  | nil => exact ⟨trivial, h⟩
  | cons s0 rest => exact ⟨⟨trivial, h⟩, spiderFold_polarWF hw rest _ trivial⟩

/-! ## the VLT pupil -/

theorem disk_sub_le {ri ro : Rat} {p : Pt} (h : rabs ri ≤ rabs ro) :
    val (.disk ri) p ≤ val (.disk ro) p :=
  circle_sub_le (cx := 0) (cy := 0) h

theorem vltFold_wf (sp : List SpiderC) (acc : Shape) (h : WF acc) :
    WF (sp.foldl (fun acc (q : SpiderC) =>
      Shape.mul acc (.spider q.1 q.2.1 q.2.2.1 q.2.2.2.1 q.2.2.2.2.1 q.2.2.2.2.2)) acc) := by
  induction sp generalizing acc with
  | nil => simpa using h
  | cons d rest ih => exact ih _ ⟨h, trivial⟩

theorem vltFold_binary (sp : List SpiderC) (acc : Shape) (h : Binary acc) :
    Binary (sp.foldl (fun acc (q : SpiderC) =>
      Shape.mul acc (.spider q.1 q.2.1 q.2.2.1 q.2.2.2.1 q.2.2.2.2.1 q.2.2.2.2.2)) acc) := by
  induction sp generalizing acc with
  | nil => simpa using h
  | cons d rest ih => exact ih _ (Binary.mul h (Binary.spider ..))

theorem vltFold_polarWF (sp : List SpiderC) (acc : Shape) (h : PolarWF acc) :
    PolarWF (sp.foldl (fun acc (q : SpiderC) =>
      Shape.mul acc (.spider q.1 q.2.1 q.2.2.1 q.2.2.2.1 q.2.2.2.2.1 q.2.2.2.2.2)) acc) := by
  induction sp generalizing acc with
  | nil => simpa using h
  | cons d rest ih => exact ih _ ⟨h, trivial⟩

theorem vlt_wf (ro ri : Rat) (sp : List SpiderC) (m3 : Option (Rat × Rat × Rat × Rat)) :
    WF (vltShape ro ri sp m3) := by
  unfold vltShape
  cases m3 with
  | none => exact vltFold_wf sp _ ⟨⟨trivial, trivial⟩, trivial⟩
  | some m => exact ⟨vltFold_wf sp _ ⟨⟨trivial, trivial⟩, trivial⟩, trivial⟩

theorem vlt_binary_of_le {ro ri : Rat} (h : rabs ri ≤ rabs ro) (sp : List SpiderC)
    (m3 : Option (Rat × Rat × Rat × Rat)) : Binary (vltShape ro ri sp m3) := by
  have hbody : Binary (Shape.mul (.sub (.disk ro) (.disk ri)) (.const 1)) :=
    Binary.mul (Binary.sub (Binary.disk _) (Binary.disk _) fun _ => disk_sub_le h) Binary.const1
  unfold vltShape
  cases m3 with
  | none => exact vltFold_binary sp _ hbody
  | some m => exact Binary.mul (vltFold_binary sp _ hbody) (Binary.compl (Binary.rect ..))

theorem vlt_polarWF {ro ri : Rat} (ho : 0 ≤ ro) (hi : 0 ≤ ri) (sp : List SpiderC)
    (m3 : Option (Rat × Rat × Rat × Rat)) : PolarWF (vltShape ro ri sp m3) := by
  unfold vltShape
  cases m3 with
  | none => exact vltFold_polarWF sp _ ⟨⟨ho, hi⟩, trivial⟩
  | some m => exact ⟨vltFold_polarWF sp _ ⟨⟨ho, hi⟩, trivial⟩, trivial⟩

/-- a quadrant is the product of three half-planes, the pupil and possibly the cover -/
theorem vltSegment_props {i : Nat} {lines : List ((Rat × Rat) × Rat)} {pupil q : Shape}
    {m3 : Option (Rat × Rat × Rat × Rat)} (h : vltSegment i lines pupil m3 = some q) :
    (WF pupil → WF q) ∧ (Binary pupil → Binary q) ∧ (PolarWF pupil → PolarWF q) := by
  unfold vltSegment at h
  split at h
  · rename_i n1 c1 n2 c2 _ _
    cases ht : vltThird n1 c1 n2 c2 with
    | none => simp [ht] at h
    | some ni =>
      simp only [ht, Option.map_some, Option.some.injEq] at h
      subst h
      cases m3 with
      | none =>
        exact ⟨fun hw => ⟨⟨⟨trivial, trivial⟩, trivial⟩, hw⟩,
          fun hb => Binary.mul (Binary.mul (Binary.mul (Binary.halfplane ..) (Binary.halfplane ..)) (Binary.halfplane ..)) hb,
          fun hp => ⟨⟨⟨trivial, trivial⟩, trivial⟩, hp⟩⟩
      | some m =>
        exact ⟨fun hw => ⟨⟨⟨⟨trivial, trivial⟩, trivial⟩, hw⟩, trivial⟩,
          fun hb => Binary.mul (Binary.mul (Binary.mul (Binary.mul (Binary.halfplane ..) (Binary.halfplane ..)) (Binary.halfplane ..)) hb)
            (Binary.compl (Binary.rect ..)),
          fun hp => ⟨⟨⟨⟨trivial, trivial⟩, trivial⟩, hp⟩, trivial⟩⟩
  · cases h

end HcipyVerif.Aperture
