import HcipyVerif.Model.FieldProg

/-! Helper lemmas for C19: the two routes compute the same values. -/
set_option linter.unusedSimpArgs false
set_option linter.unusedVariables false

deriving instance DecidableEq for Except

namespace HcipyVerif.FieldProg

/-- the value part of an evaluation result -/
def dataOf (r : Except Err Val) : Except Err Arr := r.map Prod.fst

@[simp] theorem dataOf_ok (v : Val) : dataOf (.ok v) = .ok v.1 := rfl
@[simp] theorem dataOf_error (e : Err) : dataOf (.error e : Except Err Val) = .error e := rfl

theorem dataOf_map (r : Except Err α) (f : α → Val) :
    dataOf (r.map f) = r.map fun a => (f a).1 := by
  cases r <;> rfl

/-- Two results with the same value part are both errors (the same one) or both values with the
same array. -/
theorem dataOf_eq_cases {r s : Except Err Val} (h : dataOf r = dataOf s) :
    (∃ e, r = .error e ∧ s = .error e) ∨ (∃ a t u, r = .ok (a, t) ∧ s = .ok (a, u)) := by
  cases r with
  | error e =>
    cases s with
    | error e' => left; exact ⟨e, rfl, by simp [dataOf, Except.map] at h; rw [h]⟩
    | ok v => simp [dataOf, Except.map] at h
  | ok v =>
    cases s with
    | error e' => simp [dataOf, Except.map] at h
    | ok w =>
      right
      obtain ⟨a, t⟩ := v
      obtain ⟨b, u⟩ := w
      simp [dataOf, Except.map] at h
      exact ⟨a, t, u, rfl, by rw [h]⟩

/-- the tag part of an evaluation result -/
def tagOf (r : Except Err Val) : Except Err Tag := r.map Prod.snd

/-- Side condition for `shaped`, the one operation whose *values* depend on what kind of object
its operand is (`.shaped` exists only on Fields and uses the shape of the attached grid): at every
`shaped` node the operand must be the same kind of object, on the same grid, under both policies.
It fails for instance for `f.sum().shaped` (a 0-d Field under the subclass, a scalar under the
wrapper) — see `shaped_needs_agreeing_tags` in Properties/C19. -/
def ShapedAgree (P Q : Policy) (gs : Grids) (lo ln : Nat → Except Err Val) : Expr → Prop
  | .var _ | .lit _ | .scal _ _ | .field _ _ => True
  | .bin _ l r => ShapedAgree P Q gs lo ln l ∧ ShapedAgree P Q gs lo ln r
  | .un _ e | .red _ _ e | .idx _ e | .reshape _ e | .ravel e | .copy e | .pickle e => ShapedAgree P Q gs lo ln e
  | .mask e m => ShapedAgree P Q gs lo ln e ∧ ShapedAgree P Q gs lo ln m
  | .shaped e => ShapedAgree P Q gs lo ln e ∧ tagOf (eval P gs lo e) = tagOf (eval Q gs ln e)
  | .app1 _ e => ShapedAgree P Q gs lo ln e
  | .app2 _ a b => ShapedAgree P Q gs lo ln a ∧ ShapedAgree P Q gs lo ln b
  | .app3 _ a b c => ShapedAgree P Q gs lo ln a ∧ ShapedAgree P Q gs lo ln b ∧ ShapedAgree P Q gs lo ln c

/-- `shaped` does not occur -/
def NoShaped : Expr → Prop
  | .var _ | .lit _ | .scal _ _ | .field _ _ => True
  | .bin _ l r => NoShaped l ∧ NoShaped r
  | .un _ e | .red _ _ e | .idx _ e | .reshape _ e | .ravel e | .copy e | .pickle e => NoShaped e
  | .mask e m => NoShaped e ∧ NoShaped m
  | .shaped _ => False
  | .app1 _ e => NoShaped e
  | .app2 _ a b => NoShaped a ∧ NoShaped b
  | .app3 _ a b c => NoShaped a ∧ NoShaped b ∧ NoShaped c

theorem shapedAgree_of_noShaped (P Q : Policy) (gs : Grids) (lo ln : Nat → Except Err Val) (e : Expr)
    (h : NoShaped e) : ShapedAgree P Q gs lo ln e := by
  induction e with
  | shaped e ih => exact absurd h (by simp [NoShaped])
  | bin op l r ihl ihr => exact ⟨ihl h.1, ihr h.2⟩
  | mask e m ihe ihm => exact ⟨ihe h.1, ihm h.2⟩
  | var x => trivial
  | lit a => trivial
  | scal c k => trivial
  | field a g => trivial
  | un u e ih => exact ih h
  | red r ax e ih => exact ih h
  | idx i e ih => exact ih h
  | reshape s e ih => exact ih h
  | ravel e ih => exact ih h
  | copy e ih => exact ih h
  | pickle e ih => exact ih h
  | app1 f e ih => exact ih h
  | app2 f a b iha ihb => exact ⟨iha h.1, ihb h.2⟩
  | app3 f a b c iha ihb ihc => exact ⟨iha h.1, ihb h.2.1, ihc h.2.2⟩

/-- **Expressions: any two wrapping policies give the same values**, provided variables read the
same values (and `shaped` sees the same kind of object).  By structural induction; the kernels
are shared, only the tags differ. -/
theorem eval_same_values (P Q : Policy) (gs : Grids) (lo ln : Nat → Except Err Val)
    (hl : ∀ x, dataOf (lo x) = dataOf (ln x)) (e : Expr) (hs : ShapedAgree P Q gs lo ln e) :
    dataOf (eval P gs lo e) = dataOf (eval Q gs ln e) := by
  induction e with
  | var x => simpa [eval] using hl x
  | lit a => simp [eval]
  | scal c k => simp [eval]
  | field a g => simp [eval]
  | bin op l r ihl ihr =>
    rcases dataOf_eq_cases (ihl hs.1) with ⟨e, h1, h2⟩ | ⟨a, t, u, h1, h2⟩
    · simp [eval, h1, h2]
    · rcases dataOf_eq_cases (ihr hs.2) with ⟨e, h3, h4⟩ | ⟨b, t', u', h3, h4⟩
      · simp [eval, h1, h2, h3, h4]
      · simp only [eval, h1, h2, h3, h4, dataOf_map]
  | un u e ih =>
    rcases dataOf_eq_cases (ih hs) with ⟨e, h1, h2⟩ | ⟨a, t, u, h1, h2⟩
    · simp [eval, h1, h2]
    · simp only [eval, h1, h2, dataOf_map]
  | red r ax e ih =>
    rcases dataOf_eq_cases (ih hs) with ⟨e, h1, h2⟩ | ⟨a, t, u, h1, h2⟩
    · simp [eval, h1, h2]
    · simp only [eval, h1, h2, dataOf_map]
  | idx i e ih =>
    rcases dataOf_eq_cases (ih hs) with ⟨e, h1, h2⟩ | ⟨a, t, u, h1, h2⟩
    · simp [eval, h1, h2]
    · simp only [eval, h1, h2, dataOf_map]
  | mask e m ihe ihm =>
    rcases dataOf_eq_cases (ihe hs.1) with ⟨e, h1, h2⟩ | ⟨a, t, u, h1, h2⟩
    · simp [eval, h1, h2]
    · rcases dataOf_eq_cases (ihm hs.2) with ⟨e, h3, h4⟩ | ⟨b, t', u', h3, h4⟩
      · simp [eval, h1, h2, h3, h4]
      · simp only [eval, h1, h2, h3, h4, dataOf_map]
  | shaped e ih =>
    obtain ⟨hs1, hs2⟩ := hs
    rcases dataOf_eq_cases (ih hs1) with ⟨e, h1, h2⟩ | ⟨a, t, u, h1, h2⟩
    · simp [eval, h1, h2]
    · have htu : t = u := by simpa [tagOf, h1, h2, Except.map] using hs2
      subst htu
      cases t <;> simp [eval, h1, h2, dataOf_map]
  | reshape s e ih =>
    rcases dataOf_eq_cases (ih hs) with ⟨e, h1, h2⟩ | ⟨a, t, u, h1, h2⟩
    · simp [eval, h1, h2]
    · simp only [eval, h1, h2, dataOf_map]
  | ravel e ih =>
    rcases dataOf_eq_cases (ih hs) with ⟨e, h1, h2⟩ | ⟨a, t, u, h1, h2⟩
    · simp [eval, h1, h2]
    · simp [eval, h1, h2]
  | copy e ih =>
    rcases dataOf_eq_cases (ih hs) with ⟨e, h1, h2⟩ | ⟨a, t, u, h1, h2⟩
    · simp [eval, h1, h2]
    · simp [eval, h1, h2]
  | pickle e ih =>
    rcases dataOf_eq_cases (ih hs) with ⟨e, h1, h2⟩ | ⟨a, t, u, h1, h2⟩
    · simp [eval, h1, h2]
    · simp [eval, h1, h2, Prim.setstate, Prim.getstate]
  | app1 f e ih =>
    rcases dataOf_eq_cases (ih hs) with ⟨e, h1, h2⟩ | ⟨a, t, u, h1, h2⟩
    · simp [eval, h1, h2]
    · simp only [eval, h1, h2, dataOf_map]
  | app2 f x y ihx ihy =>
    rcases dataOf_eq_cases (ihx hs.1) with ⟨e, h1, h2⟩ | ⟨a, t, u, h1, h2⟩
    · simp [eval, h1, h2]
    · rcases dataOf_eq_cases (ihy hs.2) with ⟨e, h3, h4⟩ | ⟨b, t', u', h3, h4⟩
      · simp [eval, h1, h2, h3, h4]
      · simp only [eval, h1, h2, h3, h4, dataOf_map]
  | app3 f x y z ihx ihy ihz =>
    rcases dataOf_eq_cases (ihx hs.1) with ⟨e, h1, h2⟩ | ⟨a, t, u, h1, h2⟩
    · simp [eval, h1, h2]
    · rcases dataOf_eq_cases (ihy hs.2.1) with ⟨e, h3, h4⟩ | ⟨b, t', u', h3, h4⟩
      · simp [eval, h1, h2, h3, h4]
      · rcases dataOf_eq_cases (ihz hs.2.2) with ⟨e, h5, h6⟩ | ⟨c, t'', u'', h5, h6⟩
        · simp [eval, h1, h2, h3, h4, h5, h6]
        · simp only [eval, h1, h2, h3, h4, h5, h6, dataOf_map]

/-- argument lists: the same exception, or value lists with the same arrays -/
theorem evalArgs_same_values (P Q : Policy) (gs : Grids) (lo ln : Nat → Except Err Val)
    (hl : ∀ x, dataOf (lo x) = dataOf (ln x)) (es : List Expr)
    (hs : ∀ e ∈ es, ShapedAgree P Q gs lo ln e) :
    (evalArgs P gs lo es).map (·.map Prod.fst) = (evalArgs Q gs ln es).map (·.map Prod.fst) := by
  induction es with
  | nil => rfl
  | cons e es ih =>
    have he := eval_same_values P Q gs lo ln hl e (hs e (List.mem_cons_self))
    have hes := ih (fun e' h' => hs e' (List.mem_cons_of_mem _ h'))
    rcases dataOf_eq_cases he with ⟨err, h1, h2⟩ | ⟨a, t, u, h1, h2⟩
    · simp [evalArgs, h1, h2, Except.map]
    · cases ho : evalArgs P gs lo es with
      | error e1 =>
        cases hn : evalArgs Q gs ln es with
        | error e2 => rw [ho, hn] at hes; simp [Except.map] at hes; simp [evalArgs, h1, h2, ho, hn, Except.map, hes]
        | ok vs => rw [ho, hn] at hes; simp [Except.map] at hes
      | ok vs =>
        cases hn : evalArgs Q gs ln es with
        | error e2 => rw [ho, hn] at hes; simp [Except.map] at hes
        | ok ws => rw [ho, hn] at hes; simp [Except.map] at hes; simp [evalArgs, h1, h2, ho, hn, Except.map, hes]


/-! ## Statements: the two stores stay related -/

/-- forget the tag of a wrapper reference -/
def refBuf (p : Nat × (Nat × Tag)) : Nat × Nat := (p.1, p.2.1)

/-- The subclass store and the wrapper store describe the same memory: every variable names the
cell with the number of its wrapper's buffer, and cell `i` holds the array of buffer `i`. -/
structure Rel (so : OState) (sn : NState) : Prop where
  vars : so.vars = sn.vars.map refBuf
  cells : so.cells.map Prod.fst = sn.bufs

theorem rel_init : Rel {} {} := ⟨rfl, rfl⟩

theorem lookup_refBuf (l : List (Nat × (Nat × Tag))) (x : Nat) :
    (l.map refBuf).lookup x = (l.lookup x).map (·.1) := by
  induction l with
  | nil => rfl
  | cons p l ih =>
    obtain ⟨y, r⟩ := p
    simp only [List.map_cons, refBuf, List.lookup_cons]
    cases h : x == y <;> simp [ih, refBuf]

theorem bind_refBuf (l : List (Nat × (Nat × Tag))) (x : Nat) (r : Nat × Tag) :
    bind (l.map refBuf) x r.1 = (bind l x r).map refBuf := by
  simp only [bind, List.map_cons, refBuf, List.filter_map]
  congr 1

theorem cells_get {so : OState} {sn : NState} (h : Rel so sn) (c : Nat) :
    (so.cells[c]?).map Prod.fst = sn.bufs[c]? := by
  rw [← h.cells, List.getElem?_map]

theorem cells_length {so : OState} {sn : NState} (h : Rel so sn) : so.cells.length = sn.bufs.length := by
  rw [← h.cells, List.length_map]

theorem look_rel {so : OState} {sn : NState} (h : Rel so sn) (x : Nat) :
    dataOf (so.look x) = dataOf (sn.look x) := by
  unfold OState.look NState.look
  rw [h.vars, lookup_refBuf]
  cases hx : sn.vars.lookup x with
  | none => simp
  | some r =>
    simp only [Option.map_some]
    rw [← cells_get h r.1]
    cases hc : so.cells[r.1]? with
    | none => simp
    | some v => simp

/-- what a statement needs for `shaped` (see `ShapedAgree`) -/
def StmtAgree (gs : Grids) (so : OState) (sn : NState) : Stmt → Prop
  | .assign _ e => ShapedAgree oldPolicy newPolicy gs so.look sn.look e
  | .alias _ _ => True
  | .update _ _ args => ∀ e ∈ args, ShapedAgree oldPolicy newPolicy gs so.look sn.look e

/-- outcome of one statement under both routes: the same exception, or related stores -/
def StepRel (ro : Except Err OState) (rn : Except Err NState) : Prop :=
  match ro, rn with
  | .ok so, .ok sn => Rel so sn
  | .error e, .error e' => e = e'
  | _, _ => False

theorem evalON {gs : Grids} {so : OState} {sn : NState} (h : Rel so sn) (e : Expr)
    (hs : ShapedAgree oldPolicy newPolicy gs so.look sn.look e) :
    dataOf (evalO gs so e) = dataOf (evalN gs sn e) :=
  eval_same_values oldPolicy newPolicy gs so.look sn.look (look_rel h) e hs

theorem set_rel {so : OState} {sn : NState} (h : Rel so sn) (c : Nat) (a : Arr) (t : Tag) :
    (so.cells.set c (a, t)).map Prod.fst = sn.bufs.set c a := by
  rw [← h.cells, List.map_set]

theorem step_rel (gs : Grids) {so : OState} {sn : NState} (h : Rel so sn) (st : Stmt)
    (hs : StmtAgree gs so sn st) : StepRel (stepO gs so st) (stepN gs sn st) := by
  cases st with
  | assign x e =>
    simp only [stepO, stepN]
    cases hiv : e.isVar with
    | true => simp [StepRel]
    | false =>
    simp only [Bool.false_eq_true, if_false]
    rcases dataOf_eq_cases (evalON h e hs) with ⟨err, h1, h2⟩ | ⟨a, t, u, h1, h2⟩
    · simp [h1, h2, StepRel, Except.map]
    · simp only [h1, h2, StepRel, Except.map]
      refine ⟨?_, ?_⟩
      · simp only [h.vars, cells_length h]
        exact bind_refBuf sn.vars x (sn.bufs.length, u)
      · simp [h.cells]
  | alias y x =>
    simp only [stepO, stepN, h.vars, lookup_refBuf]
    cases hx : sn.vars.lookup x with
    | none => simp [StepRel]
    | some r =>
      simp only [Option.map_some, StepRel]
      exact ⟨by simpa using bind_refBuf sn.vars y r, h.cells⟩
  | update x u args =>
    simp only [stepO, stepN, h.vars, lookup_refBuf]
    cases hx : sn.vars.lookup x with
    | none => simp [StepRel]
    | some r =>
      simp only [Option.map_some]
      rw [← cells_get h r.1]
      cases hcell : so.cells[r.1]? with
      | none => simp [StepRel]
      | some xv =>
        simp only [Option.map_some]
        have hargs := evalArgs_same_values oldPolicy newPolicy gs so.look sn.look (look_rel h) args hs
        cases ho : evalArgs oldPolicy gs so.look args with
        | error e1 =>
          cases hn : evalArgs newPolicy gs sn.look args with
          | error e2 => rw [ho, hn] at hargs; simp [Except.map] at hargs; simp [StepRel, hargs]
          | ok ws => rw [ho, hn] at hargs; simp [Except.map] at hargs
        | ok vs =>
          cases hn : evalArgs newPolicy gs sn.look args with
          | error e2 => rw [ho, hn] at hargs; simp [Except.map] at hargs
          | ok ws =>
            rw [ho, hn] at hargs
            simp only [Except.map, Except.ok.injEq] at hargs
            simp only [hargs]
            cases hp : Prim.update u xv.1 (List.map Prod.fst ws) with
            | error err => simp [StepRel, Except.map]
            | ok b =>
              simp only [StepRel, Except.map]
              refine ⟨?_, set_rel h r.1 b xv.2⟩
              cases hr : Upd.rebinds u with
              | false => simp [h.vars]
              | true => simpa [h.vars] using bind_refBuf sn.vars x (r.1, iopTagN r.2 ((ws.map Prod.snd).headD .plain))

/-! ## Programs -/

/-- `StmtAgree` along the run (in the stores actually reached) -/
def ProgAgree (gs : Grids) : OState → NState → List Stmt → Prop
  | _, _, [] => True
  | so, sn, st :: rest => StmtAgree gs so sn st ∧
      ∀ so' sn', stepO gs so st = .ok so' → stepN gs sn st = .ok sn' → ProgAgree gs so' sn' rest

def StmtNoShaped : Stmt → Prop
  | .assign _ e => NoShaped e
  | .alias _ _ => True
  | .update _ _ args => ∀ e ∈ args, NoShaped e

theorem progAgree_of_noShaped (gs : Grids) (p : List Stmt) (h : ∀ st ∈ p, StmtNoShaped st) :
    ∀ so sn, ProgAgree gs so sn p := by
  induction p with
  | nil => intro so sn; trivial
  | cons st rest ih =>
    intro so sn
    refine ⟨?_, fun so' sn' _ _ => ih (fun s hs => h s (List.mem_cons_of_mem _ hs)) so' sn'⟩
    have hst := h st (List.mem_cons_self)
    cases st with
    | assign x e => exact shapedAgree_of_noShaped _ _ _ _ _ e hst
    | alias y x => trivial
    | update x u args => exact fun e he => shapedAgree_of_noShaped _ _ _ _ _ e (hst e he)

theorem dump_rel {so : OState} {sn : NState} (h : Rel so sn) :
    dumpData so.dump = dumpData sn.dump := by
  unfold dumpData OState.dump NState.dump
  rw [h.vars]
  simp only [List.map_map]
  apply List.map_congr_left
  intro p _
  have := look_rel h p.1
  simpa [dataOf, refBuf, Function.comp] using this

/-- the observable of a whole run: values after every statement, and the final read-out -/
def traceData (r : List Obs × Option (List (Nat × Except Err Val))) :
    List (Except Err (Nat × Arr)) × Option (List (Nat × Except Err Arr)) :=
  (r.1.map obsData, r.2.map dumpData)

theorem run_same_values (gs : Grids) (p : List Stmt) :
    ∀ so sn, Rel so sn → ProgAgree gs so sn p →
      traceData ((runO gs so p).1, (runO gs so p).2.map OState.dump) =
      traceData ((runN gs sn p).1, (runN gs sn p).2.map NState.dump) := by
  induction p with
  | nil =>
    intro so sn h _
    simp [runO, runN, traceData, dump_rel h]
  | cons st rest ih =>
    intro so sn h hp
    have hstep := step_rel gs h st hp.1
    cases ho : stepO gs so st with
    | error e =>
      cases hn : stepN gs sn st with
      | error e' =>
        rw [ho, hn] at hstep
        simp only [StepRel] at hstep
        simp [runO, runN, ho, hn, traceData, obsData, hstep, Except.map]
      | ok sn' => rw [ho, hn] at hstep; simp [StepRel] at hstep
    | ok so' =>
      cases hn : stepN gs sn st with
      | error e' => rw [ho, hn] at hstep; simp [StepRel] at hstep
      | ok sn' =>
        rw [ho, hn] at hstep
        simp only [StepRel] at hstep
        have hl := look_rel hstep st.target
        have hrec := ih so' sn' hstep (hp.2 so' sn' ho hn)
        rcases dataOf_eq_cases hl with ⟨e, h1, h2⟩ | ⟨a, t, u, h1, h2⟩
        · simp [runO, runN, ho, hn, h1, h2, traceData, obsData, Except.map]
        · simp only [traceData, Prod.mk.injEq] at hrec
          simp [runO, runN, ho, hn, h1, h2, traceData, obsData, Except.map, hrec.1, hrec.2]


/-! ## In-place updates -/

theorem lookup_filter_ne {α} (l : List (Nat × α)) (x h : Nat) (hne : h ≠ x) :
    (l.filter (·.1 != x)).lookup h = l.lookup h := by
  induction l with
  | nil => rfl
  | cons p l ih =>
    obtain ⟨y, r⟩ := p
    by_cases hy : y = x
    · subst hy
      have : (h == y) = false := by simpa using hne
      simp [List.filter_cons, List.lookup_cons, this, ih]
    · have : (y != x) = true := by simpa using hy
      simp only [List.filter_cons, this, if_true, List.lookup_cons]
      cases h == y <;> simp [ih]

theorem lookup_bind {α} (l : List (Nat × α)) (x h : Nat) (r : α) :
    (bind l x r).lookup h = if h = x then some r else l.lookup h := by
  unfold bind
  by_cases hx : h = x
  · subst hx; simp [List.lookup_cons]
  · have : (h == x) = false := by simpa using hx
    simp [List.lookup_cons, this, hx, lookup_filter_ne l x h hx]

/-! ## The decidable side condition implies the semantic one -/

theorem sameTagB_sound {r s : Except Err Val} (h : sameTagB r s = true) : tagOf r = tagOf s := by
  cases r with
  | error e =>
    cases s with
    | error f => simp only [sameTagB, beq_iff_eq] at h; subst h; rfl
    | ok w => simp [sameTagB] at h
  | ok v =>
    cases s with
    | error f => simp [sameTagB] at h
    | ok w => simp only [sameTagB, beq_iff_eq] at h; simp [tagOf, Except.map, h]

theorem shapedAgreeB_sound (P Q : Policy) (gs : Grids) (lo ln : Nat → Except Err Val) (e : Expr)
    (h : shapedAgreeB P Q gs lo ln e = true) : ShapedAgree P Q gs lo ln e := by
  induction e with
  | var x => trivial
  | lit a => trivial
  | scal c k => trivial
  | field a g => trivial
  | bin op l r ihl ihr => simp only [shapedAgreeB, Bool.and_eq_true] at h; exact ⟨ihl h.1, ihr h.2⟩
  | mask e m ihe ihm => simp only [shapedAgreeB, Bool.and_eq_true] at h; exact ⟨ihe h.1, ihm h.2⟩
  | shaped e ih => simp only [shapedAgreeB, Bool.and_eq_true] at h; exact ⟨ih h.1, sameTagB_sound h.2⟩
  | un u e ih => exact ih h
  | red r ax e ih => exact ih h
  | idx i e ih => exact ih h
  | reshape s e ih => exact ih h
  | ravel e ih => exact ih h
  | copy e ih => exact ih h
  | pickle e ih => exact ih h
  | app1 f e ih => exact ih h
  | app2 f a b iha ihb => simp only [shapedAgreeB, Bool.and_eq_true] at h; exact ⟨iha h.1, ihb h.2⟩
  | app3 f a b c iha ihb ihc =>
    simp only [shapedAgreeB, Bool.and_eq_true] at h; exact ⟨iha h.1.1, ihb h.1.2, ihc h.2⟩

theorem stmtAgreeB_sound (gs : Grids) (so : OState) (sn : NState) (st : Stmt)
    (h : stmtAgreeB gs so sn st = true) : StmtAgree gs so sn st := by
  cases st with
  | assign x e => exact shapedAgreeB_sound _ _ _ _ _ e h
  | alias y x => trivial
  | update x u args =>
    intro e he
    simp only [stmtAgreeB, List.all_eq_true] at h
    exact shapedAgreeB_sound _ _ _ _ _ e (h e he)

theorem progAgreeB_sound (gs : Grids) (p : List Stmt) :
    ∀ so sn, progAgreeB gs so sn p = true → ProgAgree gs so sn p := by
  induction p with
  | nil => intro so sn _; trivial
  | cons st rest ih =>
    intro so sn h
    simp only [progAgreeB, Bool.and_eq_true] at h
    refine ⟨stmtAgreeB_sound gs so sn st h.1, fun so' sn' ho hn => ih so' sn' ?_⟩
    have h2 := h.2
    rw [ho, hn] at h2
    exact h2

theorem shapedAgreeB_of_noShaped (P Q : Policy) (gs : Grids) (lo ln : Nat → Except Err Val) (e : Expr)
    (h : NoShaped e) : shapedAgreeB P Q gs lo ln e = true := by
  induction e with
  | shaped e ih => exact absurd h (by simp [NoShaped])
  | bin op l r ihl ihr => simp [shapedAgreeB, ihl h.1, ihr h.2]
  | mask e m ihe ihm => simp [shapedAgreeB, ihe h.1, ihm h.2]
  | app2 f a b iha ihb => simp [shapedAgreeB, iha h.1, ihb h.2]
  | app3 f a b c iha ihb ihc => simp [shapedAgreeB, iha h.1, ihb h.2.1, ihc h.2.2]
  | var x => rfl
  | lit a => rfl
  | scal c k => rfl
  | field a g => rfl
  | un u e ih => simpa [shapedAgreeB] using ih h
  | red r ax e ih => simpa [shapedAgreeB] using ih h
  | idx i e ih => simpa [shapedAgreeB] using ih h
  | reshape s e ih => simpa [shapedAgreeB] using ih h
  | ravel e ih => simpa [shapedAgreeB] using ih h
  | copy e ih => simpa [shapedAgreeB] using ih h
  | pickle e ih => simpa [shapedAgreeB] using ih h
  | app1 f e ih => simpa [shapedAgreeB] using ih h

theorem progAgreeB_of_noShaped (gs : Grids) (p : List Stmt) (h : ∀ st ∈ p, StmtNoShaped st) :
    ∀ so sn, progAgreeB gs so sn p = true := by
  induction p with
  | nil => intro so sn; rfl
  | cons st rest ih =>
    intro so sn
    have hst : stmtAgreeB gs so sn st = true := by
      have h0 := h st (by simp)
      cases st with
      | assign x e => exact shapedAgreeB_of_noShaped _ _ _ _ _ e h0
      | alias y x => rfl
      | update x u args =>
        simp only [stmtAgreeB, List.all_eq_true]
        exact fun e he => shapedAgreeB_of_noShaped _ _ _ _ _ e (h0 e he)
    simp only [progAgreeB, hst, Bool.true_and]
    cases stepO gs so st with
    | error e => rfl
    | ok so' =>
      cases stepN gs sn st with
      | error e => rfl
      | ok sn' => exact ih (fun s hs => h s (by simp [hs])) so' sn'

theorem progDisagreeAt_none_iff (gs : Grids) (p : List Stmt) :
    ∀ so sn i, progDisagreeAt gs so sn p i = none ↔ progAgreeB gs so sn p = true := by
  induction p with
  | nil => intro so sn i; simp [progDisagreeAt, progAgreeB]
  | cons st rest ih =>
    intro so sn i
    simp only [progDisagreeAt, progAgreeB]
    cases hs : stmtAgreeB gs so sn st with
    | false => simp
    | true =>
      simp only [if_true, Bool.true_and]
      cases stepO gs so st with
      | error e => simp
      | ok so' =>
        cases stepN gs sn st with
        | error e => simp
        | ok sn' => exact ih so' sn' (i + 1)

end HcipyVerif.FieldProg
