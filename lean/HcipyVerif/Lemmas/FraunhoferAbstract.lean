import HcipyVerif.Lemmas.Fraunhofer
import HcipyVerif.Lemmas.FourierLink
import HcipyVerif.Lemmas.FraunhoferSelect
import HcipyVerif.Lemmas.FraunhoferBridge

/-!
# C03 — the abstract layer: a Fraunhofer propagator over an abstract Fourier transform (lemmas)

Until round 5 this was the first half of `Properties/C03.lean`.  Nothing here is executed by the driver: `Propagator`
is a record over an abstract `FourierTransform` (two `ℂ`-linear maps) with the three named Fourier hypotheses
(`EvaluatesFourierSum`, `ParsevalOn`, `InverseOn`), instantiated with C01/C02's FFT and MFT models (`fftPropagator`,
`mftPropagator`, `lensPropagator`).  The statements are dimension-free / tensor-component-generic **lemmas**: the
property theorems of `Properties/C03.lean` about the executed pipeline (`lensForward`, …) and the executed propagator
object (`LensProp.forward`, …) are derived from them (`lens_transform` packages the executed pipeline as such a
`FourierTransform`; `lensPropagator_forward_eq_pipeline(_mft)` at the end identify `lensPropagator.forward` with the
executed `lensForward`).  Also the pure algebra: `uv_dot`, `focal_weight_eq`, `stokesI_eq_re`, `stokesPower_eq_re`.
-/

set_option linter.unusedSimpArgs false
set_option linter.unusedVariables false
set_option linter.unusedSectionVars false

open Finset Complex ComplexConjugate

namespace HcipyVerif.Fraunhofer

variable {ι κ τ : Type*} [Fintype ι] [Fintype κ] [Fintype τ] {d : ℕ}

/-- `Wavefront`: electric field (one scalar field per tensor component), wavelength, optional Stokes vector. -/
structure Wavefront (ι τ : Type*) where
  field : τ → ι → ℂ
  wavelength : ℝ
  stokes : Option (Fin 4 → ℝ)

/-- `FraunhoferPropagator`: pupil grid, focal grid, focal length (constant or a function of the wavelength),
and the Fourier transform `make_instance` builds for each wavelength. -/
structure Propagator (ι κ : Type*) (d : ℕ) where
  pupil : Grid ι d
  focal : Grid κ d
  focalLength : ℝ → ℝ
  ft : ℝ → FourierTransform ι κ

/-- `instance_data.uv_grid` for wavelength `lam`. -/
noncomputable def Propagator.uvGrid (P : Propagator ι κ d) (lam : ℝ) : Grid κ d :=
  P.focal.scaled (uvScaleR lam (P.focalLength lam))

/-- `FraunhoferPropagator.forward`. -/
noncomputable def Propagator.forward (P : Propagator ι κ d) (wf : Wavefront ι τ) : Wavefront κ τ :=
  { field := fun t => normFactorC wf.wavelength (P.focalLength wf.wavelength) • (P.ft wf.wavelength).fwd (wf.field t)
    wavelength := wf.wavelength
    stokes := wf.stokes }

/-- `FraunhoferPropagator.backward`. -/
noncomputable def Propagator.backward (P : Propagator ι κ d) (wf : Wavefront κ τ) : Wavefront ι τ :=
  { field := fun t => (normFactorC wf.wavelength (P.focalLength wf.wavelength))⁻¹ • (P.ft wf.wavelength).bwd (wf.field t)
    wavelength := wf.wavelength
    stokes := wf.stokes }

/-- **C01 hypothesis for a propagator**: for every wavelength the selected transform evaluates the weighted
Fourier sum on the uv grid it was built for. -/
def Propagator.TransformsCorrect (P : Propagator ι κ d) : Prop :=
  ∀ lam, EvaluatesFourierSum (P.ft lam) P.pupil (P.uvGrid lam)

/-! ## the scaled Fourier integral -/

/-- The scaling algebra of `grid.scaled(2π/(fλ))`: the kernel phase `uv_k · u_j` is `2π x_k·u_j/(λ f)`. -/
theorem uv_dot (P : Propagator ι κ d) (lam : ℝ) (k : κ) (u : Fin d → ℝ) :
    dot ((P.uvGrid lam).pts k) u = 2 * Real.pi * dot (P.focal.pts k) u / (lam * P.focalLength lam) := by
  unfold Propagator.uvGrid Grid.scaled uvScaleR
  simp only
  rw [dot_smul_left]
  ring

/-- **`fraunhofer_eq_integral`.** At every focal point `x_k`, every tensor component `t`, whatever the kind of
focal grid and whichever transform was selected:
`E_out(x) = 1/(i λ f) · Σ_u E_in(u) w(u) exp(-2πi x·u/(λ f))`. -/
theorem fraunhofer_eq_integral (P : Propagator ι κ d) (hT : P.TransformsCorrect) (wf : Wavefront ι τ)
    (t : τ) (k : κ) :
    (P.forward wf).field t k
      = 1 / (I * (wf.wavelength : ℂ) * (P.focalLength wf.wavelength : ℂ))
        * ∑ j, wf.field t j * (P.pupil.weights j : ℂ)
            * cexp (-(2 * (Real.pi : ℂ) * I * ((dot (P.focal.pts k) (P.pupil.pts j) : ℝ) : ℂ))
                / ((wf.wavelength : ℂ) * (P.focalLength wf.wavelength : ℂ))) := by
  unfold Propagator.forward
  simp only [Pi.smul_apply, smul_eq_mul]
  rw [hT wf.wavelength (wf.field t) k]
  unfold fourierSum normFactorC
  congr 1
  · rw [mul_right_comm]
  · apply Finset.sum_congr rfl
    intro j _
    rw [uv_dot]
    congr 2
    push_cast
    ring

/-! ## weights of the two grids -/

/-- `w_uv = w_focal · (2π/(λf))^d`, hence `w_focal = w_uv · (λf/2π)^d` (for `λ f > 0`). -/
theorem focal_weight_eq (P : Propagator ι κ d) (lam : ℝ) (h : 0 < lam * P.focalLength lam) (k : κ) :
    P.focal.weights k = (P.uvGrid lam).weights k * (lam * P.focalLength lam / (2 * Real.pi)) ^ d := by
  unfold Propagator.uvGrid Grid.scaled
  simp only
  have hs : 0 < uvScaleR lam (P.focalLength lam) := uvScaleR_pos h
  rw [abs_of_pos hs, mul_right_comm, ← mul_pow]
  have : uvScaleR lam (P.focalLength lam) * (lam * P.focalLength lam / (2 * Real.pi)) = 1 := by
    unfold uvScaleR
    have hpi : (2 * Real.pi) ≠ 0 := by positivity
    have h' : P.focalLength lam * lam ≠ 0 := by rw [mul_comm]; exact h.ne'
    rw [mul_comm lam (P.focalLength lam), div_mul_div_comm, mul_comm (2 * Real.pi)]
    exact div_self (mul_ne_zero h' hpi)
  rw [this, one_pow, one_mul]

/-! ## power and inverse on the full conjugate grid (two dimensions) -/

/-- Inner products of any two propagated components equal those of the inputs:
`Σ_k conj(E_out) G_out w_focal = Σ_j conj(E) G w_pupil` on a full conjugate grid (`ParsevalOn`).
The factors: `|1/(iλf)|² = 1/(λf)²`, `w_focal = w_uv (λf/2π)²`, Parseval's `(2π)²`. -/
theorem fraunhofer_inner (P : Propagator ι κ 2) (wf : Wavefront ι τ)
    (hpos : 0 < wf.wavelength * P.focalLength wf.wavelength)
    (hPars : ParsevalOn (P.ft wf.wavelength) P.pupil (P.uvGrid wf.wavelength)) (s t : τ) :
    wip P.focal.weights ((P.forward wf).field s) ((P.forward wf).field t)
      = wip P.pupil.weights (wf.field s) (wf.field t) := by
  have hw : P.focal.weights = fun k => (wf.wavelength * P.focalLength wf.wavelength / (2 * Real.pi)) ^ 2
      * (P.uvGrid wf.wavelength).weights k := by
    funext k
    rw [focal_weight_eq P wf.wavelength hpos k, mul_comm]
  unfold Propagator.forward
  simp only
  rw [wip_smul_smul, hw, wip_scale_weights, hPars, norm_normFactorC_sq]
  have hlf : ((wf.wavelength * P.focalLength wf.wavelength : ℝ) : ℂ) ≠ 0 := by exact_mod_cast hpos.ne'
  have hpi : ((2 * Real.pi : ℝ) : ℂ) ≠ 0 := by
    have : (2 * Real.pi) ≠ 0 := by positivity
    exact_mod_cast this
  push_cast at hlf hpi ⊢
  field_simp
  exact mul_div_cancel_left₀ _ hlf

/-- **`fraunhofer_power`.** Total power `Σ_t Σ |E_t|² w` (scalar and Jones-vector wavefronts) is conserved on
the full conjugate grid. -/
theorem fraunhofer_power (P : Propagator ι κ 2) (wf : Wavefront ι τ)
    (hpos : 0 < wf.wavelength * P.focalLength wf.wavelength)
    (hPars : ParsevalOn (P.ft wf.wavelength) P.pupil (P.uvGrid wf.wavelength)) :
    ∑ t, power P.focal.weights ((P.forward wf).field t) = ∑ t, power P.pupil.weights (wf.field t) := by
  apply Finset.sum_congr rfl
  intro t _
  have h := fraunhofer_inner P wf hpos hPars t t
  rw [wip_self, wip_self] at h
  exact_mod_cast h

/-- Intensity `I` of a partially polarised wavefront exactly as `Wavefront.I` computes it from the Jones
matrix field `(x y; z w)` and the input Stokes vector `(a, b, c, d)`. -/
noncomputable def stokesI (S : Fin 4 → ℝ) (x y z w : ℂ) : ℝ :=
  let M11 := normSq x + normSq y + normSq z + normSq w
  let M12 := normSq x - normSq y + normSq z - normSq w
  let M13 := 2 * (x.re * y.re + x.im * y.im + z.re * w.re + z.im * w.im)
  let M14 := 2 * (-x.re * y.im + x.im * y.re - z.re * w.im + z.im * w.re)
  0.5 * (M11 * S 0 + M12 * S 1 + M13 * S 2 + M14 * S 3)

/-- `I` is the real part of a combination of products `conj(p)·q` of components. -/
theorem stokesI_eq_re (S : Fin 4 → ℝ) (x y z w : ℂ) :
    stokesI S x y z w =
      ((1 / 2 : ℂ) * (((S 0 + S 1 : ℝ) : ℂ) * (conj x * x + conj z * z)
        + ((S 0 - S 1 : ℝ) : ℂ) * (conj y * y + conj w * w)
        + 2 * ((S 2 : ℂ) - (S 3 : ℂ) * I) * (conj y * x + conj w * z))).re := by
  unfold stokesI
  simp only [Complex.mul_re, Complex.add_re, Complex.sub_re, Complex.mul_im, Complex.add_im, Complex.sub_im,
    Complex.conj_re, Complex.conj_im, Complex.ofReal_re, Complex.ofReal_im, Complex.I_re, Complex.I_im,
    Complex.one_re, Complex.one_im, Complex.div_re, Complex.div_im, Complex.normSq_apply,
    Complex.re_ofNat, Complex.im_ofNat]
  norm_num
  ring

/-- Total power of a Jones-matrix wavefront with Stokes vector: `Σ_k I_k w_k` (`Wavefront.power` for tensor
order 2), components indexed by `Fin 2 × Fin 2`. -/
noncomputable def stokesPower {α : Type*} [Fintype α] (w : α → ℝ) (S : Fin 4 → ℝ) (E : Fin 2 × Fin 2 → α → ℂ) : ℝ :=
  ∑ i, stokesI S (E (0, 0) i) (E (0, 1) i) (E (1, 0) i) (E (1, 1) i) * w i

theorem stokesPower_eq_re {α : Type*} [Fintype α] (w : α → ℝ) (S : Fin 4 → ℝ) (E : Fin 2 × Fin 2 → α → ℂ) :
    stokesPower w S E =
      ((1 / 2 : ℂ) * (((S 0 + S 1 : ℝ) : ℂ) * (wip w (E (0, 0)) (E (0, 0)) + wip w (E (1, 0)) (E (1, 0)))
        + ((S 0 - S 1 : ℝ) : ℂ) * (wip w (E (0, 1)) (E (0, 1)) + wip w (E (1, 1)) (E (1, 1)))
        + 2 * ((S 2 : ℂ) - (S 3 : ℂ) * I) * (wip w (E (0, 1)) (E (0, 0)) + wip w (E (1, 1)) (E (1, 0))))).re := by
  unfold stokesPower wip
  simp only [← Finset.sum_add_distrib, Finset.mul_sum, Complex.re_sum]
  apply Finset.sum_congr rfl
  intro i _
  rw [stokesI_eq_re]
  have hre : ∀ (c : ℂ) (r : ℝ), c.re * r = (c * (r : ℂ)).re := by
    intro c r; simp [Complex.mul_re]
  rw [hre]
  congr 1
  ring

/-- **`fraunhofer_power` for Jones-matrix wavefronts**: the Stokes-`I` power is conserved as well. -/
theorem fraunhofer_stokes_power (P : Propagator ι κ 2) (wf : Wavefront ι (Fin 2 × Fin 2)) (S : Fin 4 → ℝ)
    (hpos : 0 < wf.wavelength * P.focalLength wf.wavelength)
    (hPars : ParsevalOn (P.ft wf.wavelength) P.pupil (P.uvGrid wf.wavelength)) :
    stokesPower P.focal.weights S (P.forward wf).field = stokesPower P.pupil.weights S wf.field := by
  rw [stokesPower_eq_re, stokesPower_eq_re]
  simp only [fraunhofer_inner P wf hpos hPars]

/-- **`fraunhofer_inverse`.** On the full conjugate grid backward propagation restores the input wavefront
(field, wavelength and Stokes vector). -/
theorem fraunhofer_inverse (P : Propagator ι κ d) (wf : Wavefront ι τ)
    (hne : wf.wavelength * P.focalLength wf.wavelength ≠ 0)
    (hInv : InverseOn (P.ft wf.wavelength)) :
    P.backward (P.forward wf) = wf := by
  unfold Propagator.backward Propagator.forward
  cases wf with
  | mk field lam stokes =>
    simp only [Wavefront.mk.injEq, and_true]
    funext t
    rw [map_smul, hInv, smul_smul, inv_mul_cancel₀ (normFactorC_ne_zero hne), one_smul]

/-! ## one propagator object used repeatedly

`forward`/`backward` are functions of the propagator's *current* fields and of the wavefront: no call leaves
anything behind that a later call could see (the real object's scratch arrays and instance cache must be
transparent — C05 proves that for the cache; the harness replays call sequences on one object).  The setter
`prop.focal_length = g` replaces the focal length and, having cleared the cache, the transforms. -/

/-- `prop.focal_length = g`: new focal length, transforms rebuilt by `make_instance` on the next call. -/
def Propagator.setFocalLength (P : Propagator ι κ d) (g : ℝ → ℝ) (ft' : ℝ → FourierTransform ι κ) :
    Propagator ι κ d :=
  { P with focalLength := g, ft := ft' }

/-- After the setter, forward is the Fourier integral for the **new** focal length (constant or
wavelength-dependent) — nothing of the old one survives, whatever was propagated before. -/
theorem fraunhofer_eq_integral_after_set (P : Propagator ι κ d) (g : ℝ → ℝ) (ft' : ℝ → FourierTransform ι κ)
    (hT : (P.setFocalLength g ft').TransformsCorrect) (wf : Wavefront ι τ) (t : τ) (k : κ) :
    ((P.setFocalLength g ft').forward wf).field t k
      = 1 / (I * (wf.wavelength : ℂ) * (g wf.wavelength : ℂ))
        * ∑ j, wf.field t j * (P.pupil.weights j : ℂ)
            * cexp (-(2 * (Real.pi : ℂ) * I * ((dot (P.focal.pts k) (P.pupil.pts j) : ℝ) : ℂ))
                / ((wf.wavelength : ℂ) * (g wf.wavelength : ℂ))) :=
  fraunhofer_eq_integral (P.setFocalLength g ft') hT wf t k

/-- The last assignment wins — **by construction** (the setter overwrites the two fields).  For the running code
the harness replays set/forward sequences on one object (`trace`) and the instance cache's transparency is C05's
subject. -/
theorem setFocalLength_setFocalLength (P : Propagator ι κ d) (g h : ℝ → ℝ) (f1 f2 : ℝ → FourierTransform ι κ) :
    (P.setFocalLength g f1).setFocalLength h f2 = P.setFocalLength h f2 := rfl

/-- **Backward is the adjoint Fourier integral** (two dimensions), for any focal grid on which the selected
transform's `backward` evaluates the adjoint sum (C02 `adjoint_sum`):
`E_back(u) = i/(λf) · Σ_x E(x) w_focal(x) exp(+2πi x·u/(λf))`.  This is what the harness compares every
`backward` of a call sequence with. -/
theorem fraunhofer_backward_eq_adjoint_integral (P : Propagator ι κ 2) (wg : Wavefront κ τ)
    (hpos : 0 < wg.wavelength * P.focalLength wg.wavelength)
    (hA : EvaluatesAdjointSum (P.ft wg.wavelength) P.pupil (P.uvGrid wg.wavelength)) (t : τ) (j : ι) :
    (P.backward wg).field t j
      = I / ((wg.wavelength : ℂ) * (P.focalLength wg.wavelength : ℂ))
        * ∑ k, wg.field t k * (P.focal.weights k : ℂ)
            * cexp (2 * (Real.pi : ℂ) * I * ((dot (P.focal.pts k) (P.pupil.pts j) : ℝ) : ℂ)
                / ((wg.wavelength : ℂ) * (P.focalLength wg.wavelength : ℂ))) := by
  unfold Propagator.backward
  simp only [Pi.smul_apply, smul_eq_mul]
  rw [hA (wg.field t) j]
  have hlf : ((wg.wavelength : ℂ) * (P.focalLength wg.wavelength : ℂ)) ≠ 0 := by exact_mod_cast hpos.ne'
  have hl : (wg.wavelength : ℂ) ≠ 0 := left_ne_zero_of_mul hlf
  have hf : (P.focalLength wg.wavelength : ℂ) ≠ 0 := right_ne_zero_of_mul hlf
  have hpi : ((2 * Real.pi : ℝ) : ℂ) ≠ 0 := by
    have : (2 * Real.pi) ≠ 0 := by positivity
    exact_mod_cast this
  rw [Finset.mul_sum, Finset.mul_sum, Finset.mul_sum]
  apply Finset.sum_congr rfl
  intro k _
  rw [focal_weight_eq P wg.wavelength hpos k, uv_dot]
  have hexp : cexp (I * ((2 * Real.pi * dot (P.focal.pts k) (P.pupil.pts j) / (wg.wavelength * P.focalLength wg.wavelength) : ℝ) : ℂ))
      = cexp (2 * (Real.pi : ℂ) * I * ((dot (P.focal.pts k) (P.pupil.pts j) : ℝ) : ℂ)
          / ((wg.wavelength : ℂ) * (P.focalLength wg.wavelength : ℂ))) := by
    congr 1; push_cast; ring
  rw [hexp]
  unfold normFactorC
  push_cast at hpi ⊢
  field_simp

/-! ## wavelength and Stokes vector -/

/-- Forward and backward copy the wavelength and the Stokes vector unchanged — **true by construction** of
`Propagator.forward/backward` (which transcribe `Wavefront(Field(U_new, grid), wavefront.wavelength,
wavefront.input_stokes_vector)`); the statement only records what the model says.  What carries the clause for the
running code is the harness: every `forward`/`backward` of every case compares `wavelength` and
`input_stokes_vector` of the result with the input (labels `wavelength-carried`, `stokes-carried`), and
`Bad.forward_dropStokes_changes_power` shows the clause is not empty: a forward that forgets the optional third
constructor argument changes the reported power of a polarised wavefront. -/
theorem meta_carried_by_construction (P : Propagator ι κ d) (wf : Wavefront ι τ) (wg : Wavefront κ τ) :
    (P.forward wf).wavelength = wf.wavelength ∧ (P.forward wf).stokes = wf.stokes ∧
    (P.backward wg).wavelength = wg.wavelength ∧ (P.backward wg).stokes = wg.stokes :=
  ⟨rfl, rfl, rfl, rfl⟩

/-- **`Old`/`Bad` variant** (not the code's behaviour): a `forward` that builds `Wavefront(field, wavelength)` and
forgets `input_stokes_vector`. -/
noncomputable def Bad.forwardDropStokes (P : Propagator ι κ d) (wf : Wavefront ι τ) : Wavefront κ τ :=
  { P.forward wf with stokes := none }

/-- `Wavefront.I` of a Jones-matrix wavefront: with a Stokes vector `stokesI`, without one the unpolarised value
`stokesI (1, 0, 0, 0)`. -/
noncomputable def wavefrontI (S : Option (Fin 4 → ℝ)) (x y z w : ℂ) : ℝ :=
  stokesI (S.getD ![1, 0, 0, 0]) x y z w

/-- The clause "the Stokes vector is carried" can fail and matters: for the Stokes vector `(1, 1, 0, 0)` and the
Jones matrix `(0 1; 0 0)` the intensity is `0`, but `1/2` once the Stokes vector is dropped. -/
theorem Bad.forward_dropStokes_changes_power (P : Propagator ι κ d) (wf : Wavefront ι τ)
    (hS : wf.stokes = some ![1, 1, 0, 0]) :
    (Bad.forwardDropStokes P wf).stokes ≠ (P.forward wf).stokes ∧
      wavefrontI (Bad.forwardDropStokes P wf).stokes 0 1 0 0 ≠ wavefrontI (P.forward wf).stokes 0 1 0 0 := by
  have h1 : (P.forward wf).stokes = some ![1, 1, 0, 0] := hS
  have h2 : (Bad.forwardDropStokes P wf).stokes = none := rfl
  rw [h1, h2]
  refine ⟨by simp, ?_⟩
  unfold wavefrontI stokesI
  simp
  norm_num

/-! ## the hypotheses are satisfiable -/

/-- `TransformsCorrect` is satisfiable for every pupil and focal grid: take the transform *defined* as the
weighted Fourier sum (hcipy's `NaiveFourierTransform`). -/
example (pupil : Grid ι d) (focal : Grid κ d) (f : ℝ → ℝ) :
    ∃ P : Propagator ι κ d, P.pupil = pupil ∧ P.focal = focal ∧ P.focalLength = f ∧ P.TransformsCorrect := by
  refine ⟨{ pupil := pupil, focal := focal, focalLength := f,
            ft := fun lam => { fwd := { toFun := fun E k => fourierSum pupil ((focal.scaled (uvScaleR lam (f lam))).pts k) E,
                                        map_add' := ?_, map_smul' := ?_ },
                               bwd := 0 } }, rfl, rfl, rfl, fun lam E k => rfl⟩
  · intro x y; funext k
    simp only [fourierSum, Pi.add_apply, ← Finset.sum_add_distrib]
    apply Finset.sum_congr rfl; intro j _; ring
  · intro a x; funext k
    simp only [fourierSum, Pi.smul_apply, smul_eq_mul, RingHom.id_apply, Finset.mul_sum]
    apply Finset.sum_congr rfl; intro j _; ring

/-- `ParsevalOn` and `InverseOn` are satisfiable together in two dimensions: one pupil sample of weight `1`
at the origin, one uv sample of weight `(2π)²`; the transform is the identity. -/
example : ∃ (T : FourierTransform Unit Unit) (pupil uv : Grid Unit 2),
    EvaluatesFourierSum T pupil uv ∧ ParsevalOn T pupil uv ∧ InverseOn T := by
  refine ⟨{ fwd := LinearMap.id, bwd := LinearMap.id }, { pts := fun _ _ => 0, weights := fun _ => 1 },
    { pts := fun _ _ => 0, weights := fun _ => (2 * Real.pi) ^ 2 }, ?_, ?_, fun _ => rfl⟩
  · intro E k
    simp [fourierSum, dot]
  · intro E G
    simp [wip]
    ring

/-! ## the Fourier hypotheses discharged: the FFT model of C01/C02 (`Lemmas/FourierLink.lean`)

`fftPropagator` is a Fraunhofer propagator between the regular pupil grid of two axis configurations
`gy gx : Cfg ℝ ℂ` (sizes `N`, padded sizes `M`, output sizes `Mo`, spacings, offsets, shifts — the data of a
`FastFourierTransform`, `AxisOK` = `N ≤ M`, `Mo ≤ M`, `Δ·M·δ = 2π`, weight `δ`) and the focal grid that is
FFT-native at the wavelength `lam0`; its transform is the *model of the code*: the literal 2-D pipelines
`fastForward2` / `fastBackward2` (zero padding, (emulated) fftshifts, `fftn`, cropping, multipliers).
The theorems below carry no hypothesis about the Fourier transform any more. -/

section fft
open HcipyVerif.Fft HcipyVerif.FourierLink

/-- `fraunhofer_eq_integral` needs the C01 hypothesis only at the wavelength of the wavefront. -/
theorem fraunhofer_eq_integral_at (P : Propagator ι κ d) (wf : Wavefront ι τ)
    (hT : EvaluatesFourierSum (P.ft wf.wavelength) P.pupil (P.uvGrid wf.wavelength)) (t : τ) (k : κ) :
    (P.forward wf).field t k
      = 1 / (I * (wf.wavelength : ℂ) * (P.focalLength wf.wavelength : ℂ))
        * ∑ j, wf.field t j * (P.pupil.weights j : ℂ)
            * cexp (-(2 * (Real.pi : ℂ) * I * ((dot (P.focal.pts k) (P.pupil.pts j) : ℝ) : ℂ))
                / ((wf.wavelength : ℂ) * (P.focalLength wf.wavelength : ℂ))) := by
  unfold Propagator.forward
  simp only [Pi.smul_apply, smul_eq_mul]
  rw [hT (wf.field t) k]
  unfold fourierSum normFactorC
  congr 1
  · rw [mul_right_comm]
  · apply Finset.sum_congr rfl
    intro j _
    rw [uv_dot]
    congr 2
    push_cast
    ring

/-- The propagator built on the FFT model: pupil grid of `(gy, gx)`, focal grid FFT-native at `lam0`. -/
noncomputable def fftPropagator (gy gx : Cfg ℝ ℂ) (oky : AxisOK gy) (okx : AxisOK gx) (hemu : gy.emu = gx.emu)
    (f lam0 : ℝ) : Propagator (Fin gy.N × Fin gx.N) (Fin gy.Mo × Fin gx.Mo) 2 :=
  { pupil := pupilGrid2 gy gx
    focal := (uvGrid2 gy gx).scaled (uvScaleR lam0 f)⁻¹
    focalLength := fun _ => f
    ft := fun _ => fftTransform2 gy gx oky okx hemu }

/-- at `lam0` the uv grid of the propagator is the FFT's own output grid -/
theorem fftPropagator_uvGrid (gy gx : Cfg ℝ ℂ) (oky : AxisOK gy) (okx : AxisOK gx) (hemu : gy.emu = gx.emu)
    (f lam0 : ℝ) (hpos : 0 < lam0 * f) :
    (fftPropagator gy gx oky okx hemu f lam0).uvGrid lam0 = uvGrid2 gy gx := by
  have hs : 0 < uvScaleR lam0 f := uvScaleR_pos hpos
  unfold Propagator.uvGrid fftPropagator Grid.scaled
  simp only
  congr 1
  · funext k i
    rw [← mul_assoc, mul_inv_cancel₀ hs.ne', one_mul]
    rfl
  · funext k
    rw [← mul_assoc, ← mul_pow, abs_inv, mul_inv_cancel₀ (abs_pos.mpr hs.ne').ne', one_pow, one_mul]
    rfl

/-- **`fraunhofer_eq_integral` for the FFT model**: on every consistent FFT grid (any padding `q`, cropping
`fov`, shift, either `emulate_fftshifts` setting) the propagated field is the scaled Fourier integral. -/
theorem fraunhofer_eq_integral_fft (gy gx : Cfg ℝ ℂ) (oky : AxisOK gy) (okx : AxisOK gx) (hemu : gy.emu = gx.emu)
    (f lam0 : ℝ) (hpos : 0 < lam0 * f) (wf : Wavefront (Fin gy.N × Fin gx.N) τ) (hwl : wf.wavelength = lam0)
    (t : τ) (k : Fin gy.Mo × Fin gx.Mo) :
    ((fftPropagator gy gx oky okx hemu f lam0).forward wf).field t k
      = 1 / (I * (lam0 : ℂ) * (f : ℂ))
        * ∑ j, wf.field t j * ((gy.δ * gx.δ : ℝ) : ℂ)
            * cexp (-(2 * (Real.pi : ℂ) * I
                * ((dot ((fftPropagator gy gx oky okx hemu f lam0).focal.pts k) ((pupilGrid2 gy gx).pts j) : ℝ) : ℂ))
                / ((lam0 : ℂ) * (f : ℂ))) := by
  have hT : EvaluatesFourierSum ((fftPropagator gy gx oky okx hemu f lam0).ft wf.wavelength)
      (fftPropagator gy gx oky okx hemu f lam0).pupil
      ((fftPropagator gy gx oky okx hemu f lam0).uvGrid wf.wavelength) := by
    rw [hwl, fftPropagator_uvGrid gy gx oky okx hemu f lam0 hpos]
    exact fft2_evaluates gy gx oky okx hemu
  have h := fraunhofer_eq_integral_at (fftPropagator gy gx oky okx hemu f lam0) wf hT t k
  rw [hwl] at h
  exact h

/-- **`fraunhofer_power` for the FFT model** on the full conjugate pair (`fov = 1` on both axes). -/
theorem fraunhofer_power_fft (gy gx : Cfg ℝ ℂ) (oky : AxisOK gy) (okx : AxisOK gx) (hemu : gy.emu = gx.emu)
    (hfy : gy.Mo = gy.M) (hfx : gx.Mo = gx.M)
    (f lam0 : ℝ) (hpos : 0 < lam0 * f) (wf : Wavefront (Fin gy.N × Fin gx.N) τ) (hwl : wf.wavelength = lam0) :
    ∑ t, power (fftPropagator gy gx oky okx hemu f lam0).focal.weights
        (((fftPropagator gy gx oky okx hemu f lam0).forward wf).field t)
      = ∑ t, power (pupilGrid2 gy gx).weights (wf.field t) := by
  apply fraunhofer_power (fftPropagator gy gx oky okx hemu f lam0) wf
  · rw [hwl]; exact hpos
  · rw [hwl, fftPropagator_uvGrid gy gx oky okx hemu f lam0 hpos]
    exact fft2_parseval gy gx oky okx hemu hfy hfx

/-- … and for Jones-matrix wavefronts with a Stokes vector. -/
theorem fraunhofer_stokes_power_fft (gy gx : Cfg ℝ ℂ) (oky : AxisOK gy) (okx : AxisOK gx) (hemu : gy.emu = gx.emu)
    (hfy : gy.Mo = gy.M) (hfx : gx.Mo = gx.M) (f lam0 : ℝ) (hpos : 0 < lam0 * f)
    (wf : Wavefront (Fin gy.N × Fin gx.N) (Fin 2 × Fin 2)) (S : Fin 4 → ℝ) (hwl : wf.wavelength = lam0) :
    stokesPower (fftPropagator gy gx oky okx hemu f lam0).focal.weights S
        ((fftPropagator gy gx oky okx hemu f lam0).forward wf).field
      = stokesPower (pupilGrid2 gy gx).weights S wf.field := by
  apply fraunhofer_stokes_power (fftPropagator gy gx oky okx hemu f lam0) wf S
  · rw [hwl]; exact hpos
  · rw [hwl, fftPropagator_uvGrid gy gx oky okx hemu f lam0 hpos]
    exact fft2_parseval gy gx oky okx hemu hfy hfx

/-- **`fraunhofer_inverse` for the FFT model** on the full conjugate pair. -/
theorem fraunhofer_inverse_fft (gy gx : Cfg ℝ ℂ) (oky : AxisOK gy) (okx : AxisOK gx) (hemu : gy.emu = gx.emu)
    (hfy : gy.Mo = gy.M) (hfx : gx.Mo = gx.M)
    (f lam0 : ℝ) (hpos : 0 < lam0 * f) (wf : Wavefront (Fin gy.N × Fin gx.N) τ) (hwl : wf.wavelength = lam0) :
    (fftPropagator gy gx oky okx hemu f lam0).backward ((fftPropagator gy gx oky okx hemu f lam0).forward wf) = wf := by
  apply fraunhofer_inverse (fftPropagator gy gx oky okx hemu f lam0) wf
  · rw [hwl]; exact hpos.ne'
  · exact fft2_inverse gy gx oky okx hemu hfy hfx

/-- **`fraunhofer_backward_eq_adjoint_integral` for the FFT model**: on every consistent FFT grid
(cropped or not, either shift setting) `backward` is the adjoint Fourier integral
`i/(λf)·Σ_x E(x) w_focal(x) exp(+2πi x·u/(λf))`. -/
theorem fraunhofer_backward_eq_adjoint_integral_fft (gy gx : Cfg ℝ ℂ) (oky : AxisOK gy) (okx : AxisOK gx)
    (hemu : gy.emu = gx.emu) (f lam0 : ℝ) (hpos : 0 < lam0 * f)
    (wg : Wavefront (Fin gy.Mo × Fin gx.Mo) τ) (hwl : wg.wavelength = lam0) (t : τ) (j : Fin gy.N × Fin gx.N) :
    ((fftPropagator gy gx oky okx hemu f lam0).backward wg).field t j
      = I / ((lam0 : ℂ) * (f : ℂ))
        * ∑ k, wg.field t k * ((fftPropagator gy gx oky okx hemu f lam0).focal.weights k : ℂ)
            * cexp (2 * (Real.pi : ℂ) * I
                * ((dot ((fftPropagator gy gx oky okx hemu f lam0).focal.pts k) ((pupilGrid2 gy gx).pts j) : ℝ) : ℂ)
                / ((lam0 : ℂ) * (f : ℂ))) := by
  have hA : EvaluatesAdjointSum ((fftPropagator gy gx oky okx hemu f lam0).ft wg.wavelength)
      (fftPropagator gy gx oky okx hemu f lam0).pupil
      ((fftPropagator gy gx oky okx hemu f lam0).uvGrid wg.wavelength) := by
    rw [hwl, fftPropagator_uvGrid gy gx oky okx hemu f lam0 hpos]
    exact fft2_adjoint gy gx oky okx hemu
  have h := fraunhofer_backward_eq_adjoint_integral (fftPropagator gy gx oky okx hemu f lam0) wg
    (by rw [hwl]; exact hpos) hA t j
  rw [hwl] at h
  exact h


/-! ## the MFT model of C01 — the path lens propagators take for every grid of `make_focal_grid`

`mftPropagator` is a Fraunhofer propagator between **any two separated Cartesian grids** (regular or not,
arbitrary weights): per wavelength `make_instance` builds `MatrixFourierTransform(pupil, focal.scaled(2π/(λf)))`,
modelled by `mftTransform2` (C01's `mftForward`/`mftBackward`: the two `gemm` products with their transposes,
either weight branch) with output coordinates in units of 2π, `X/(λ f)` — the very function the driver runs at
`Rat`/`PSum` (`Model/FraunhoferPipe.lean`, op `lens`).  No Fourier hypothesis, no restriction on the wavelength. -/

/-- `FraunhoferPropagator(pupil, focal, f)` whose transform is the MFT model at every wavelength.
`w` = `weights_input`, `wOut lam` = `weights_output` of the instance for `lam`. -/
noncomputable def mftPropagator {Ny Nx Nv Nu : ℕ} (x y X Y : ℕ → ℝ) (wp : Fin Ny × Fin Nx → ℝ)
    (wf : Fin Nv × Fin Nu → ℝ) (f : ℝ → ℝ) (w : Weights ℂ) (wOut : ℝ → Weights ℂ) :
    Propagator (Fin Ny × Fin Nx) (Fin Nv × Fin Nu) 2 :=
  { pupil := sepGrid x y wp
    focal := sepGrid X Y wf
    focalLength := f
    ft := fun lam => mftTransform2 Nx Ny Nu Nv x y (fun k => X k / (lam * f lam)) (fun k => Y k / (lam * f lam))
      w (wOut lam) }

theorem uvScaleR_eq (lam f : ℝ) : uvScaleR lam f = 2 * Real.pi / (lam * f) := by
  unfold uvScaleR; rw [mul_comm f lam]

/-- the uv grid of the instance is the separated grid with coordinates `2π·X/(λf)` -/
theorem mftPropagator_uvGrid {Ny Nx Nv Nu : ℕ} (x y X Y : ℕ → ℝ) (wp : Fin Ny × Fin Nx → ℝ)
    (wf : Fin Nv × Fin Nu → ℝ) (f : ℝ → ℝ) (w : Weights ℂ) (wOut : ℝ → Weights ℂ) (lam : ℝ) :
    (mftPropagator x y X Y wp wf f w wOut).uvGrid lam
      = sepGrid (fun i => 2 * Real.pi * (X i / (lam * f lam))) (fun i => 2 * Real.pi * (Y i / (lam * f lam)))
          (fun k => |2 * Real.pi / (lam * f lam)| ^ 2 * wf k) := by
  unfold Propagator.uvGrid mftPropagator Grid.scaled sepGrid
  simp only [uvScaleR_eq]
  congr 1
  funext k i
  fin_cases i
  · simp; ring
  · simp; ring

/-- **`Propagator.TransformsCorrect` discharged for the MFT model** (C01 `mft_eq_sum_2d`, either weight branch):
every wavelength, every focal length function, every pair of separated grids. -/
theorem mftPropagator_transformsCorrect {Ny Nx Nv Nu : ℕ} (x y X Y : ℕ → ℝ) (wp : Fin Ny × Fin Nx → ℝ)
    (wf : Fin Nv × Fin Nu → ℝ) (f : ℝ → ℝ) (w : Weights ℂ) (wOut : ℝ → Weights ℂ)
    (hw : ∀ p : Fin Ny × Fin Nx, w.get (p.1 * Nx + p.2) = ((wp p : ℝ) : ℂ)) :
    (mftPropagator x y X Y wp wf f w wOut).TransformsCorrect := by
  intro lam
  rw [mftPropagator_uvGrid]
  exact mft2_evaluates _ _ _ _ _ _ _ _ _ _ _ _ hw

/-- **`fraunhofer_eq_integral` for the MFT model — no hypothesis about the transform**: for every pair of
separated Cartesian grids (both focal-grid constructors, hand-made regular, separated), every wavelength, every
(wavelength-dependent) focal length, every tensor component and focal point. -/
theorem fraunhofer_eq_integral_mft {Ny Nx Nv Nu : ℕ} (x y X Y : ℕ → ℝ) (wp : Fin Ny × Fin Nx → ℝ)
    (wf : Fin Nv × Fin Nu → ℝ) (f : ℝ → ℝ) (w : Weights ℂ) (wOut : ℝ → Weights ℂ)
    (hw : ∀ p : Fin Ny × Fin Nx, w.get (p.1 * Nx + p.2) = ((wp p : ℝ) : ℂ))
    (wfr : Wavefront (Fin Ny × Fin Nx) τ) (t : τ) (k : Fin Nv × Fin Nu) :
    ((mftPropagator x y X Y wp wf f w wOut).forward wfr).field t k
      = 1 / (I * (wfr.wavelength : ℂ) * (f wfr.wavelength : ℂ))
        * ∑ j : Fin Ny × Fin Nx, wfr.field t j * (wp j : ℂ)
            * cexp (-(2 * (Real.pi : ℂ) * I * ((dot ![X k.2, Y k.1] ![x j.2, y j.1] : ℝ) : ℂ))
                / ((wfr.wavelength : ℂ) * (f wfr.wavelength : ℂ))) :=
  fraunhofer_eq_integral (mftPropagator x y X Y wp wf f w wOut)
    (mftPropagator_transformsCorrect x y X Y wp wf f w wOut hw) wfr t k

/-- **backward of the MFT model is the adjoint Fourier integral** (C01 `mft_backward_eq_sum_2d'`), `λ f > 0`,
when the instance holds `weights_output = uv.weights/(2π)²`. -/
theorem fraunhofer_backward_eq_adjoint_integral_mft {Ny Nx Nv Nu : ℕ} (x y X Y : ℕ → ℝ)
    (wp : Fin Ny × Fin Nx → ℝ) (wf : Fin Nv × Fin Nu → ℝ) (f : ℝ → ℝ) (w : Weights ℂ) (wOut : ℝ → Weights ℂ)
    (wg : Wavefront (Fin Nv × Fin Nu) τ) (hpos : 0 < wg.wavelength * f wg.wavelength)
    (hwo : ∀ k : Fin Nv × Fin Nu, (wOut wg.wavelength).get (k.1 * Nu + k.2)
      = ((|2 * Real.pi / (wg.wavelength * f wg.wavelength)| ^ 2 * wf k : ℝ) : ℂ) / (((2 * Real.pi) ^ 2 : ℝ) : ℂ))
    (t : τ) (j : Fin Ny × Fin Nx) :
    ((mftPropagator x y X Y wp wf f w wOut).backward wg).field t j
      = I / ((wg.wavelength : ℂ) * (f wg.wavelength : ℂ))
        * ∑ k : Fin Nv × Fin Nu, wg.field t k * (wf k : ℂ)
            * cexp (2 * (Real.pi : ℂ) * I * ((dot ![X k.2, Y k.1] ![x j.2, y j.1] : ℝ) : ℂ)
                / ((wg.wavelength : ℂ) * (f wg.wavelength : ℂ))) := by
  apply fraunhofer_backward_eq_adjoint_integral (mftPropagator x y X Y wp wf f w wOut) wg hpos
  rw [mftPropagator_uvGrid]
  exact mft2_adjoint _ _ _ _ _ _ _ _ _ _ _ _ hwo

/-- the weight hypothesis is satisfiable for every grid: the array branch with the grid's own weights … -/
example {Ny Nx : ℕ} (wp : Fin Ny × Fin Nx → ℝ) :
    ∃ w : Weights ℂ, ∀ p : Fin Ny × Fin Nx, w.get (p.1 * Nx + p.2) = ((wp p : ℝ) : ℂ) :=
  ⟨.array (flat2 fun p => ((wp p : ℝ) : ℂ)), fun p => by
    show flat2 _ (p.1 * Nx + p.2) = _
    rw [flat2_flat _ p.1 p.2.2, ext2_apply]⟩

/-- … and the scalar branch when all weights are equal (regular grids). -/
example {Ny Nx : ℕ} (w0 : ℝ) :
    ∀ p : Fin Ny × Fin Nx, (Weights.scalar ((w0 : ℝ) : ℂ)).get (p.1 * Nx + p.2) = (((fun _ => w0) p : ℝ) : ℂ) :=
  fun _ => rfl

/-! ## the transform `make_fourier_transform` selects, every wavelength

`lensPropagator`: two regular Cartesian grids; per wavelength the transform is the constructor call on the method
that C01's model of `make_fourier_transform` (`FftSelect.choose detectFix`) selects for the scaled grid
(`Lemmas/FraunhoferSelect.lean`): the FFT model when the uv grid is FFT-native at that wavelength **and** the
planner prefers it, the MFT model otherwise.  The planner's float comparison is the oracle `cheaper : ℝ → Bool`
(any function).  Both branches are models of code, proved by C01; none is the specification. -/

/-- `FraunhoferPropagator(pupil, focal, f)` on regular grids with `make_fourier_transform`'s selection. -/
noncomputable def lensPropagator (py px Fy Fx : RegAxis) (f : ℝ → ℝ) (cheaper : ℝ → Bool) (emu : Bool) :
    Propagator (Fin py.n × Fin px.n) (Fin Fy.n × Fin Fx.n) 2 :=
  { pupil := regGrid2 py px
    focal := regGrid2 Fy Fx
    focalLength := f
    ft := fun lam => lensTransform py px Fy Fx (lam * f lam) (cheaper lam) emu }

theorem lensPropagator_uvGrid (py px Fy Fx : RegAxis) (f : ℝ → ℝ) (cheaper : ℝ → Bool) (emu : Bool) (lam : ℝ) :
    (lensPropagator py px Fy Fx f cheaper emu).uvGrid lam = (regGrid2 Fy Fx).scaled (2 * Real.pi / (lam * f lam)) := by
  unfold Propagator.uvGrid lensPropagator
  simp only [uvScaleR_eq]

/-- **`Propagator.TransformsCorrect` discharged for the selected transform**: every wavelength, whichever
method is selected there (FFT branch: C01 `fast_forward_eq_sum_2d`; MFT branch: C01 `mft_eq_sum_2d`). -/
theorem lensPropagator_transformsCorrect (py px Fy Fx : RegAxis) (f : ℝ → ℝ) (cheaper : ℝ → Bool) (emu : Bool) :
    (lensPropagator py px Fy Fx f cheaper emu).TransformsCorrect := by
  intro lam
  rw [lensPropagator_uvGrid]
  exact lensTransform_evaluates _ _ _ _ _ _ _

/-- **`fraunhofer_eq_integral` for the selected transform**: regular pupil and focal grids of any size, spacing
and position, every wavelength and focal-length function, every outcome of the planner, both shift settings. -/
theorem fraunhofer_eq_integral_sel (py px Fy Fx : RegAxis) (f : ℝ → ℝ) (cheaper : ℝ → Bool) (emu : Bool)
    (wf : Wavefront (Fin py.n × Fin px.n) τ) (t : τ) (k : Fin Fy.n × Fin Fx.n) :
    ((lensPropagator py px Fy Fx f cheaper emu).forward wf).field t k
      = 1 / (I * (wf.wavelength : ℂ) * (f wf.wavelength : ℂ))
        * ∑ j : Fin py.n × Fin px.n, wf.field t j * ((py.δ * px.δ : ℝ) : ℂ)
            * cexp (-(2 * (Real.pi : ℂ) * I * ((dot ![Fx.x k.2, Fy.x k.1] ![px.x j.2, py.x j.1] : ℝ) : ℂ))
                / ((wf.wavelength : ℂ) * (f wf.wavelength : ℂ))) :=
  fraunhofer_eq_integral (lensPropagator py px Fy Fx f cheaper emu)
    (lensPropagator_transformsCorrect py px Fy Fx f cheaper emu) wf t k

/-- **backward = adjoint integral for the selected transform**, `λ f > 0`. -/
theorem fraunhofer_backward_eq_adjoint_integral_sel (py px Fy Fx : RegAxis) (f : ℝ → ℝ) (cheaper : ℝ → Bool)
    (emu : Bool) (wg : Wavefront (Fin Fy.n × Fin Fx.n) τ) (hpos : 0 < wg.wavelength * f wg.wavelength)
    (t : τ) (j : Fin py.n × Fin px.n) :
    ((lensPropagator py px Fy Fx f cheaper emu).backward wg).field t j
      = I / ((wg.wavelength : ℂ) * (f wg.wavelength : ℂ))
        * ∑ k : Fin Fy.n × Fin Fx.n, wg.field t k * ((Fy.δ * Fx.δ : ℝ) : ℂ)
            * cexp (2 * (Real.pi : ℂ) * I * ((dot ![Fx.x k.2, Fy.x k.1] ![px.x j.2, py.x j.1] : ℝ) : ℂ)
                / ((wg.wavelength : ℂ) * (f wg.wavelength : ℂ))) := by
  apply fraunhofer_backward_eq_adjoint_integral (lensPropagator py px Fy Fx f cheaper emu) wg hpos
  rw [lensPropagator_uvGrid]
  exact lensTransform_adjoint _ _ _ _ _ _ _

/-- **`fraunhofer_power` whichever transform is selected**: when the focal grid is a full conjugate of the pupil
grid at the wavelength of the wavefront (`FullAt`: `Mo·δ·Δ = λ f`, `N ≤ Mo` on both axes; any position). -/
theorem fraunhofer_power_sel (py px Fy Fx : RegAxis) (f : ℝ → ℝ) (cheaper : ℝ → Bool) (emu : Bool)
    (wf : Wavefront (Fin py.n × Fin px.n) τ) (hpos : 0 < wf.wavelength * f wf.wavelength)
    (hfull : FullAt py px Fy Fx (wf.wavelength * f wf.wavelength)) :
    ∑ t, power (regGrid2 Fy Fx).weights (((lensPropagator py px Fy Fx f cheaper emu).forward wf).field t)
      = ∑ t, power (regGrid2 py px).weights (wf.field t) := by
  apply fraunhofer_power (lensPropagator py px Fy Fx f cheaper emu) wf hpos
  rw [lensPropagator_uvGrid]
  exact lensTransform_parseval hfull _ _

/-- … Jones-matrix wavefronts with a Stokes vector. -/
theorem fraunhofer_stokes_power_sel (py px Fy Fx : RegAxis) (f : ℝ → ℝ) (cheaper : ℝ → Bool) (emu : Bool)
    (wf : Wavefront (Fin py.n × Fin px.n) (Fin 2 × Fin 2)) (S : Fin 4 → ℝ)
    (hpos : 0 < wf.wavelength * f wf.wavelength)
    (hfull : FullAt py px Fy Fx (wf.wavelength * f wf.wavelength)) :
    stokesPower (regGrid2 Fy Fx).weights S ((lensPropagator py px Fy Fx f cheaper emu).forward wf).field
      = stokesPower (regGrid2 py px).weights S wf.field := by
  apply fraunhofer_stokes_power (lensPropagator py px Fy Fx f cheaper emu) wf S hpos
  rw [lensPropagator_uvGrid]
  exact lensTransform_parseval hfull _ _

/-- **`fraunhofer_inverse` whichever transform is selected** on a full conjugate. -/
theorem fraunhofer_inverse_sel (py px Fy Fx : RegAxis) (f : ℝ → ℝ) (cheaper : ℝ → Bool) (emu : Bool)
    (wf : Wavefront (Fin py.n × Fin px.n) τ) (hne : wf.wavelength * f wf.wavelength ≠ 0)
    (hfull : FullAt py px Fy Fx (wf.wavelength * f wf.wavelength)) :
    (lensPropagator py px Fy Fx f cheaper emu).backward ((lensPropagator py px Fy Fx f cheaper emu).forward wf) = wf :=
  fraunhofer_inverse (lensPropagator py px Fy Fx f cheaper emu) wf hne (lensTransform_inverse hfull _ _)

/-- After `prop.focal_length = g` (cache cleared, transforms rebuilt by `make_instance`) the object is the
propagator of the new focal length … -/
theorem lensPropagator_setFocalLength (py px Fy Fx : RegAxis) (f g : ℝ → ℝ) (cheaper : ℝ → Bool) (emu : Bool) :
    (lensPropagator py px Fy Fx f cheaper emu).setFocalLength g (lensPropagator py px Fy Fx g cheaper emu).ft
      = lensPropagator py px Fy Fx g cheaper emu := rfl

/-- … hence forward is the Fourier integral for the **new** focal length (constant or callable), every wavelength. -/
theorem fraunhofer_eq_integral_after_set_sel (py px Fy Fx : RegAxis) (f g : ℝ → ℝ) (cheaper : ℝ → Bool) (emu : Bool)
    (wf : Wavefront (Fin py.n × Fin px.n) τ) (t : τ) (k : Fin Fy.n × Fin Fx.n) :
    (((lensPropagator py px Fy Fx f cheaper emu).setFocalLength g
        (lensPropagator py px Fy Fx g cheaper emu).ft).forward wf).field t k
      = 1 / (I * (wf.wavelength : ℂ) * (g wf.wavelength : ℂ))
        * ∑ j : Fin py.n × Fin px.n, wf.field t j * ((py.δ * px.δ : ℝ) : ℂ)
            * cexp (-(2 * (Real.pi : ℂ) * I * ((dot ![Fx.x k.2, Fy.x k.1] ![px.x j.2, py.x j.1] : ℝ) : ℂ))
                / ((wf.wavelength : ℂ) * (g wf.wavelength : ℂ))) := by
  rw [lensPropagator_setFocalLength]
  exact fraunhofer_eq_integral_sel py px Fy Fx g cheaper emu wf t k

/-- Non-vacuity of `FullAt` / `NativeAt`: pupil `2×2`, `δ = 1/2`; focal `4×4`, `Δ = 1/2`; `λ f = 1`. -/
example : FullAt ⟨2, 1 / 2, 0⟩ ⟨2, 1 / 2, 0⟩ ⟨4, 1 / 2, -1⟩ ⟨4, 1 / 2, -1⟩ 1 := by
  refine ⟨one_ne_zero, ⟨?_, ?_, ?_⟩, ⟨?_, ?_, ?_⟩⟩ <;> norm_num

/-- … and a wavelength at which the same grids are *not* native (`λ f = 1/2`: `M = 2 < Mo = 4`), so the selected
transform there is the MFT model (`lensTransform_mft_not_native`). -/
example : ¬ NativeAt ⟨2, 1 / 2, 0⟩ ⟨2, 1 / 2, 0⟩ ⟨4, 1 / 2, -1⟩ ⟨4, 1 / 2, -1⟩ (1 / 2) := by
  rintro ⟨_, My, Mx, ⟨_, h2, h3⟩, _⟩
  have h4 : (4 : ℝ) ≤ (My : ℝ) := by exact_mod_cast h2
  norm_num at h3
  linarith

/-- Non-vacuity: a consistent full pair exists (`N = 2`, `M = Mo = 4`, `δ = 1/2`, `dT = 1/2` on both axes). -/
example : ∃ g : Cfg ℝ ℂ, AxisOK g ∧ g.Mo = g.M :=
  ⟨{ N := 2, M := 4, Mo := 4, δ := 1 / 2, z := 0, dT := 1 / 2, s := 0, w := ((1 / 2 : ℝ) : ℂ), emu := false },
    ⟨by norm_num, by norm_num, by norm_num, rfl⟩, rfl⟩

end fft


section bridge
open HcipyVerif.Fft HcipyVerif.FourierLink
variable {ι κ τ : Type*} [Fintype ι] [Fintype κ] [Fintype τ] {d : ℕ}

/-- **Bridge from the propagator object of the `_sel` theorems to the executed pipeline**: at a wavelength where the uv
grid is FFT-native, `lensPropagator.forward` *is* `lensForward` on the method the planner's outcome selects, with the
padded sizes of the native grid … -/
theorem lensPropagator_forward_eq_pipeline (py px Fy Fx : RegAxis) (f : ℝ → ℝ) (cheaper : ℝ → Bool) (emu : Bool)
    (wf : Wavefront (Fin py.n × Fin px.n) τ) (h : NativeAt py px Fy Fx (wf.wavelength * f wf.wavelength))
    (t : τ) (k : Fin Fy.n × Fin Fx.n) :
    ((lensPropagator py px Fy Fx f cheaper emu).forward wf).field t k
      = lensForward expT expE (2 * Real.pi) Complex.ofReal (normFactorC wf.wavelength (f wf.wavelength))
          (if cheaper wf.wavelength then Method.fft else Method.mft) emu (axOf py) (axOf px) (axOf Fy) (axOf Fx)
          (wf.wavelength * f wf.wavelength) (nativeMy h) (nativeMx h) (ext2 (wf.field t)) k.1 k.2 := by
  show normFactorC wf.wavelength (f wf.wavelength)
      * (lensTransform py px Fy Fx (wf.wavelength * f wf.wavelength) (cheaper wf.wavelength) emu).fwd (wf.field t) k = _
  cases hc : cheaper wf.wavelength
  · rw [lensTransform_mft_dear h]
    exact (lensForward_mft py px Fy Fx _ _ _ emu _ (wf.field t) k).symm
  · rw [lensTransform_fft h]
    exact (lensForward_fft py px Fy Fx _ _ _ emu _ _ _ (wf.field t) k).symm

/-- … and at every other wavelength the MFT pipeline. -/
theorem lensPropagator_forward_eq_pipeline_mft (py px Fy Fx : RegAxis) (f : ℝ → ℝ) (cheaper : ℝ → Bool) (emu : Bool)
    (wf : Wavefront (Fin py.n × Fin px.n) τ) (h : ¬ NativeAt py px Fy Fx (wf.wavelength * f wf.wavelength))
    (My Mx : ℕ) (t : τ) (k : Fin Fy.n × Fin Fx.n) :
    ((lensPropagator py px Fy Fx f cheaper emu).forward wf).field t k
      = lensForward expT expE (2 * Real.pi) Complex.ofReal (normFactorC wf.wavelength (f wf.wavelength))
          Method.mft emu (axOf py) (axOf px) (axOf Fy) (axOf Fx)
          (wf.wavelength * f wf.wavelength) My Mx (ext2 (wf.field t)) k.1 k.2 := by
  show normFactorC wf.wavelength (f wf.wavelength)
      * (lensTransform py px Fy Fx (wf.wavelength * f wf.wavelength) (cheaper wf.wavelength) emu).fwd (wf.field t) k = _
  rw [lensTransform_mft_not_native h]
  exact (lensForward_mft py px Fy Fx _ My Mx emu _ (wf.field t) k).symm

end bridge

end HcipyVerif.Fraunhofer
