import HcipyVerif.Model.FieldRef

/-!
Helper lemmas for the reference model `Model/FieldRef.lean` (core Lean only).
-/
namespace HcipyVerif.FieldRef

theorem lookup_cons_self (k : Nat) (o : Obj) (t : List (Nat × Obj)) :
    lookup ((k, o) :: t) k = some o := by simp [lookup]

theorem lookup_cons_ne (k : Nat) (o : Obj) (t : List (Nat × Obj)) (x : Nat) (h : k ≠ x) :
    lookup ((k, o) :: t) x = lookup t x := by simp [lookup, h]

theorem allSome_eq_some {α : Type} :
    ∀ (l : List (Option α)) (v : List α), allSome l = some v → l = v.map some
  | [], v, h => by
    simp only [allSome, Option.some.injEq] at h; subst h; rfl
  | none :: t, v, h => by simp [allSome] at h
  | some a :: t, v, h => by
    simp only [allSome] at h
    split at h
    · rename_i r hr
      cases h
      simp [allSome_eq_some t r hr]
    · cases h

theorem allSome_map_some {α : Type} (v : List α) : allSome (v.map some) = some v := by
  induction v with
  | nil => rfl
  | cons a t ih => simp [allSome, ih]

theorem allSome_length {α : Type} {l : List (Option α)} {v : List α} (h : allSome l = some v) :
    v.length = l.length := by
  rw [allSome_eq_some l v h]; simp

theorem allSome_getElem? {α : Type} {l : List (Option α)} {v : List α} (h : allSome l = some v)
    (k : Nat) (hk : k < l.length) : ∃ a, l[k]? = some (some a) ∧ v[k]? = some a := by
  have hl := allSome_eq_some l v h
  have hk' : k < v.length := by rw [allSome_length h]; exact hk
  refine ⟨v[k], ?_, by simp⟩
  subst hl
  simp

theorem cell_some_lt {bufs : List (List Int)} {b p : Nat} {w : Int}
    (h : cell bufs b p = some w) : b < bufs.length := by
  unfold cell at h
  split at h
  · rename_i l hl
    obtain ⟨hb, _⟩ := List.getElem?_eq_some_iff.mp hl
    exact hb
  · cases h

theorem cell_append_lt (bufs : List (List Int)) (l : List Int) (b p : Nat) (hb : b < bufs.length) :
    cell (bufs ++ [l]) b p = cell bufs b p := by
  simp [cell, List.getElem?_append_left hb]

theorem cell_append_new (bufs : List (List Int)) (l : List Int) (p : Nat) :
    cell (bufs ++ [l]) bufs.length p = l[p]? := by
  simp [cell]

/-- A readable window stays readable, with the same values, when a buffer is appended. -/
theorem values_append_of_some {bufs : List (List Int)} {o : Obj} {w : List Int} (l : List Int)
    (h : values bufs o = some w) : values (bufs ++ [l]) o = some w := by
  obtain ⟨b, idx, g⟩ := o
  cases idx with
  | nil => simpa [values, read] using h
  | cons p t =>
    have hr := allSome_eq_some _ _ h
    have hb : b < bufs.length := by
      cases w with
      | nil => simp [read] at hr
      | cons a w' =>
        simp only [read, List.map_cons, List.cons.injEq] at hr
        exact cell_some_lt hr.1
    have : read (bufs ++ [l]) ⟨b, p :: t, g⟩ = read bufs ⟨b, p :: t, g⟩ := by
      simp only [read]
      apply List.map_congr_left
      intro q _
      exact cell_append_lt bufs l b q hb
    simpa [values, this] using h

/-- The object created by `fresh` reads exactly `vals`. -/
theorem values_fresh (bufs : List (List Int)) (vals : List Int) (g : Option Nat) :
    values (bufs ++ [vals]) ⟨bufs.length, List.range vals.length, g⟩ = some vals := by
  have : read (bufs ++ [vals]) ⟨bufs.length, List.range vals.length, g⟩ = vals.map some := by
    simp only [read]
    apply List.ext_getElem?
    intro i
    by_cases hi : i < vals.length
    · simp [hi, cell_append_new]
    · simp [hi]
  simp [values, this, allSome_map_some]

/-- If the whole window is readable, each of its positions is. -/
theorem values_cell {bufs : List (List Int)} {o : Obj} {w : List Int} (h : values bufs o = some w)
    {i p : Nat} (hp : o.idx[i]? = some p) : ∃ a, cell bufs o.buf p = some a ∧ w[i]? = some a := by
  obtain ⟨hi, hpi⟩ := List.getElem?_eq_some_iff.mp hp
  obtain ⟨a, h1, h2⟩ := allSome_getElem? h i (by simpa [read] using hi)
  refine ⟨a, ?_, h2⟩
  simp only [read, List.getElem?_map, hp, Option.map_some, Option.some.injEq] at h1
  exact h1

theorem cell_setCell (bufs : List (List Int)) (b p : Nat) (v : Int) (b' p' : Nat) {w : Int}
    (h : cell bufs b p = some w) :
    cell (setCell bufs b p v) b' p' = if b' = b ∧ p' = p then some v else cell bufs b' p' := by
  unfold cell at h
  split at h
  · rename_i l hl
    obtain ⟨hb, hbl⟩ := List.getElem?_eq_some_iff.mp hl
    obtain ⟨hp, _⟩ := List.getElem?_eq_some_iff.mp h
    simp only [setCell, hl]
    by_cases hb' : b' = b
    · subst hb'
      by_cases hp' : p' = p
      · subst hp'
        simp [cell, hb, hp]
      · have : ¬ p = p' := fun e => hp' e.symm
        simp [cell, hb, hp', hbl, this]
    · have : ¬ b = b' := fun e => hb' e.symm
      simp [cell, hb', this]
  · cases h

theorem length_setCell (bufs : List (List Int)) (b p : Nat) (v : Int) :
    (setCell bufs b p v).length = bufs.length := by
  unfold setCell; split <;> simp

theorem cell_addCells (bufs : List (List Int)) (b : Nat) (idx : List Nat) (v : Int) (b' p' : Nat) :
    cell (addCells bufs b idx v) b' p'
      = if b' = b ∧ p' ∈ idx then (cell bufs b' p').map (· + v) else cell bufs b' p' := by
  unfold addCells
  split
  · rename_i l hl
    obtain ⟨hb, hbl⟩ := List.getElem?_eq_some_iff.mp hl
    by_cases hb' : b' = b
    · subst hb'
      by_cases hm : p' ∈ idx
      · simp [cell, hb, hbl, hm, List.getElem?_mapIdx]
      · simp only [cell, List.getElem?_set_self hb, hl, hm, and_false, if_false,
          List.getElem?_mapIdx]
        cases l[p']? <;> simp
    · have : ¬ b = b' := fun e => hb' e.symm
      simp [cell, hb', this]
  · rename_i hn
    by_cases hb' : b' = b
    · subst hb'; simp [cell, hn]
    · simp [hb']

/-- What a successful `copyOf` does. -/
theorem copyOf_spec {s s' : State} {y : Nat} {o : Obj} {g : Option Nat}
    (h : copyOf s y o g = some s') :
    ∃ vals, values s.bufs o = some vals ∧ s' = fresh s y vals g := by
  unfold copyOf at h
  split at h
  · rename_i vals hv
    exact ⟨vals, hv, by cases h; rfl⟩
  · cases h

theorem runFrom_two {sty : Sty} {k : Nat} {a b : Op} {s s2 : State}
    (h : runFrom sty k [a, b] s = .ok s2) :
    ∃ s1, step sty a s = some s1 ∧ step sty b s1 = some s2 := by
  simp only [runFrom] at h
  split at h
  · rename_i s1 h1
    split at h
    · rename_i s2' h2
      cases h
      exact ⟨s1, h1, h2⟩
    · cases h
  · cases h

theorem run_two {sty : Sty} {a b : Op} {s s2 : State} (h : run sty [a, b] s = .ok s2) :
    ∃ s1, step sty a s = some s1 ∧ step sty b s1 = some s2 := runFrom_two h

/-- What a successful `write` does. -/
theorem write_spec {sty : Sty} {s s' : State} {x i : Nat} {v : Int}
    (h : step sty (.write x i v) s = some s') :
    ∃ ox p w, lookup s.vars x = some ox ∧ ox.idx[i]? = some p ∧ cell s.bufs ox.buf p = some w ∧
      s' = withBufs s (setCell s.bufs ox.buf p v) := by
  simp only [step] at h
  split at h
  · rename_i ox hx
    split at h
    · rename_i p hp
      split at h
      · rename_i w hw
        cases h
        exact ⟨ox, p, w, hx, hp, hw, rfl⟩
      · cases h
    · cases h
  · cases h

/-- Reading through any window after a cell write. -/
theorem readAt_setCell (bufs : List (List Int)) (b p : Nat) (v : Int) {w : Int}
    (h : cell bufs b p = some w) (o : Obj) (j : Nat) :
    readAt (setCell bufs b p v) o j
      = if o.buf = b ∧ o.idx[j]? = some p then some v else readAt bufs o j := by
  unfold readAt
  cases hq : o.idx[j]? with
  | none => simp
  | some q =>
    simp only [cell_setCell bufs b p v o.buf q h, Option.some.injEq]

/-- A cell write leaves windows on other buffers alone. -/
theorem read_setCell_other (bufs : List (List Int)) (b p : Nat) (v : Int) {w : Int}
    (h : cell bufs b p = some w) (o : Obj) (hb : o.buf ≠ b) :
    read (setCell bufs b p v) o = read bufs o := by
  simp only [read]
  apply List.map_congr_left
  intro q _
  rw [cell_setCell bufs b p v o.buf q h]
  simp [hb]

theorem readVar_fresh_self (s : State) (y : Nat) (vals : List Int) (g : Option Nat) :
    readVar (fresh s y vals g) y = some vals := by
  simp only [readVar, fresh, lookup_cons_self]
  exact values_fresh _ _ _

theorem lookup_fresh_self (s : State) (y : Nat) (vals : List Int) (g : Option Nat) :
    lookup (fresh s y vals g).vars y = some ⟨s.bufs.length, List.range vals.length, g⟩ :=
  lookup_cons_self _ _ _

theorem lookup_fresh_ne (s : State) (y : Nat) (vals : List Int) (g : Option Nat) (z : Nat)
    (h : y ≠ z) : lookup (fresh s y vals g).vars z = lookup s.vars z :=
  lookup_cons_ne _ _ _ _ h

theorem readVar_fresh_ne (s : State) (y : Nat) (vals : List Int) (g : Option Nat) (z : Nat)
    (h : y ≠ z) {w : List Int} (hr : readVar s z = some w) :
    readVar (fresh s y vals g) z = some w := by
  unfold readVar at hr ⊢
  rw [lookup_fresh_ne s y vals g z h]
  split at hr
  · exact values_append_of_some vals hr
  · cases hr

/-- Reading through any window after `x += v` on window `idx` of buffer `b`. -/
theorem readAt_addCells (bufs : List (List Int)) (b : Nat) (idx : List Nat) (v : Int) (o : Obj)
    (j : Nat) :
    readAt (addCells bufs b idx v) o j
      = if o.buf = b ∧ (∃ q, o.idx[j]? = some q ∧ q ∈ idx) then (readAt bufs o j).map (· + v)
        else readAt bufs o j := by
  unfold readAt
  cases hq : o.idx[j]? with
  | none => simp
  | some q => simp [cell_addCells]

theorem read_addCells_other (bufs : List (List Int)) (b : Nat) (idx : List Nat) (v : Int) (o : Obj)
    (hb : o.buf ≠ b) : read (addCells bufs b idx v) o = read bufs o := by
  simp only [read]
  apply List.map_congr_left
  intro q _
  rw [cell_addCells]
  simp [hb]

end HcipyVerif.FieldRef
