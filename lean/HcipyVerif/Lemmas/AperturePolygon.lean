import HcipyVerif.Lemmas.ApertureList
import Mathlib.Tactic.FieldSimp

/-!
# C12 — the bounding box of the irregular polygon is sound (both directions)

`containsPt vs p` (odd number of edges crossing the horizontal ray from `p` towards `+x`) implies
that `p` lies within the bounding box of the vertices:

* `+x` side: the x-intercept of a straddling edge is a convex combination of its end points, so a
  point to the right of every vertex is crossed by no edge;
* `−x` side: a point to the left of every vertex is crossed by exactly the straddling edges, and a
  closed polygon straddles a horizontal line an even number of times (parity of side changes along
  a closed walk).
-/
set_option linter.unusedSimpArgs false
set_option linter.unusedVariables false

namespace HcipyVerif.Aperture

/-- the side of the horizontal line through `p` a vertex is on -/
def below (p v : Pt) : Bool := decide (v.2 ≤ p.2)

def straddle (p : Pt) (e : Pt × Pt) : Bool := below p e.1 != below p e.2

/-- x-intercept of the edge `v w` with the horizontal line through `p` -/
def xint (p v w : Pt) : Rat := (w.1 - v.1) * (p.2 - v.2) / (w.2 - v.2) + v.1

theorem edgeCross_eq (p v w : Pt) :
    edgeCross p v w = (straddle p (v, w) && decide (p.1 < xint p v w)) := rfl

/-- the intercept of a straddling edge lies between the x-coordinates of its end points -/
theorem xint_between {p v w : Pt} (h : straddle p (v, w) = true) {lo hi : Rat}
    (hv : lo ≤ v.1 ∧ v.1 ≤ hi) (hw : lo ≤ w.1 ∧ w.1 ≤ hi) :
    lo ≤ xint p v w ∧ xint p v w ≤ hi := by
  simp only [straddle, below, bne_iff_ne, ne_eq, decide_eq_decide] at h
  have hne : w.2 - v.2 ≠ 0 := by
    intro h0
    have : w.2 = v.2 := by linarith
    exact h (by rw [this])
  -- t = (p.2 - v.2)/(w.2 - v.2) ∈ [0, 1]
  have key : ∃ t : Rat, 0 ≤ t ∧ t ≤ 1 ∧ xint p v w = v.1 + t * (w.1 - v.1) := by
    refine ⟨(p.2 - v.2) / (w.2 - v.2), ?_, ?_, ?_⟩
    · by_cases hvp : v.2 ≤ p.2
      · have hwp : ¬ w.2 ≤ p.2 := fun hw' => h ⟨fun _ => hw', fun _ => hvp⟩
        apply div_nonneg <;> linarith [not_le.mp hwp]
      · have hwp : w.2 ≤ p.2 := by
          by_contra hw'
          exact h ⟨fun h' => absurd h' hvp, fun h' => absurd h' hw'⟩
        apply div_nonneg_of_nonpos <;> linarith [not_le.mp hvp]
    · by_cases hvp : v.2 ≤ p.2
      · have hwp : ¬ w.2 ≤ p.2 := fun hw' => h ⟨fun _ => hw', fun _ => hvp⟩
        rw [div_le_one (by linarith [not_le.mp hwp])]
        linarith [not_le.mp hwp]
      · have hwp : w.2 ≤ p.2 := by
          by_contra hw'
          exact h ⟨fun h' => absurd h' hvp, fun h' => absurd h' hw'⟩
        rw [div_le_one_of_neg (by linarith [not_le.mp hvp])]
        linarith [not_le.mp hvp]
    · unfold xint
      field_simp
      ring
  obtain ⟨t, ht0, ht1, hx⟩ := key
  rw [hx]
  constructor
  · nlinarith [mul_nonneg ht0 (sub_nonneg.mpr hw.1), mul_nonneg (sub_nonneg.mpr ht1) (sub_nonneg.mpr hv.1)]
  · nlinarith [mul_nonneg ht0 (sub_nonneg.mpr hw.2), mul_nonneg (sub_nonneg.mpr ht1) (sub_nonneg.mpr hv.2)]

/-- **+x side**: a point at or right of every vertex is crossed by no edge -/
theorem crossings_eq_zero_of_right {vs : List Pt} {p : Pt} (h : ∀ v ∈ vs, v.1 ≤ p.1) :
    crossings vs p = 0 := by
  unfold crossings
  rw [List.length_eq_zero_iff, List.filter_eq_nil_iff]
  intro e he hc
  obtain ⟨h1, h2⟩ := mem_of_mem_edges he
  rw [edgeCross_eq] at hc
  simp only [Bool.and_eq_true, decide_eq_true_eq] at hc
  have hlo : ∃ lo : Rat, lo ≤ e.1.1 ∧ lo ≤ e.2.1 := ⟨min e.1.1 e.2.1, min_le_left _ _, min_le_right _ _⟩
  obtain ⟨lo, hl1, hl2⟩ := hlo
  have := (xint_between (p := p) (v := e.1) (w := e.2) hc.1 ⟨hl1, h _ h1⟩ ⟨hl2, h _ h2⟩).2
  linarith [hc.2]

/-- parity of the number of side changes along a walk `a, l…, b` -/
theorem walk_parity {α : Type} (s : α → Bool) (l : List α) (a b : α) :
    (((a :: l).zip (l ++ [b])).filter fun e => s e.1 != s e.2).length % 2
      = (if s a != s b then 1 else 0) := by
  induction l generalizing a with
  | nil =>
    simp only [List.nil_append, List.zip_cons_cons, List.zip_nil_right, List.filter_cons,
      List.filter_nil]
    cases h : (s a != s b) <;> simp [h]
  | cons c l ih =>
    simp only [List.cons_append, List.zip_cons_cons, List.filter_cons]
    have ih' := ih c
    set F := List.filter (fun e : α × α => s e.1 != s e.2) ((c :: l).zip (l ++ [b])) with hF
    cases ha : s a <;> cases hc : s c <;> cases hb : s b <;>
      simp only [ha, hc, hb, bne_self_eq_false, Bool.false_eq_true, if_false, if_true,
        List.length_cons, bne_iff_ne, ne_eq, not_true_eq_false, not_false_eq_true,
        Bool.true_bne, Bool.false_bne, Bool.not_true, Bool.not_false, reduceIte] at ih' ⊢ <;> omega

/-- a closed polygon straddles a horizontal line an even number of times -/
theorem straddles_even (vs : List Pt) (p : Pt) :
    ((edges vs).filter (straddle p)).length % 2 = 0 := by
  cases vs with
  | nil => simp [edges]
  | cons v vs =>
    have := walk_parity (below p) vs v v
    simp only [bne_self_eq_false, Bool.false_eq_true, if_false] at this
    exact this

/-- **−x side**: a point strictly left of every vertex is crossed by exactly the straddling edges,
of which there is an even number -/
theorem crossings_even_of_left {vs : List Pt} {p : Pt} (h : ∀ v ∈ vs, p.1 < v.1) :
    crossings vs p % 2 = 0 := by
  unfold crossings
  have : ((edges vs).filter fun e => edgeCross p e.1 e.2) = (edges vs).filter (straddle p) := by
    apply List.filter_congr
    intro e he
    obtain ⟨h1, h2⟩ := mem_of_mem_edges he
    rw [edgeCross_eq]
    cases hs : straddle p (e.1, e.2) with
    | false => simp [straddle] at hs ⊢
    | true =>
      have hhi : ∃ hi : Rat, e.1.1 ≤ hi ∧ e.2.1 ≤ hi := ⟨max e.1.1 e.2.1, le_max_left _ _, le_max_right _ _⟩
      obtain ⟨hi, hh1, hh2⟩ := hhi
      obtain ⟨lo, hlo, hl1, hl2⟩ : ∃ lo : Rat, p.1 < lo ∧ lo ≤ e.1.1 ∧ lo ≤ e.2.1 :=
        ⟨min e.1.1 e.2.1, lt_min (h _ h1) (h _ h2), min_le_left _ _, min_le_right _ _⟩
      have := (xint_between (p := p) (v := e.1) (w := e.2) hs ⟨hl1, hh1⟩ ⟨hl2, hh2⟩).1
      have hlt : p.1 < xint p e.1 e.2 := lt_of_lt_of_le hlo this
      simp [hlt, straddle] at hs ⊢
  rw [this]
  exact straddles_even vs p

/-- **bounding box soundness of the irregular polygon, all four sides** -/
theorem containsPt_bbox {vs : List Pt} {p : Pt} (h : containsPt vs p = true) :
    (∃ v ∈ vs, v.1 ≤ p.1) ∧ (∃ w ∈ vs, p.1 < w.1) ∧ (∃ v ∈ vs, v.2 ≤ p.2) ∧ (∃ w ∈ vs, p.2 < w.2) := by
  have hy := containsPt_bbox_y_partial h
  refine ⟨?_, ?_, hy.1, hy.2⟩
  · by_contra hc
    push Not at hc
    have := crossings_even_of_left (vs := vs) (p := p) hc
    simp [containsPt, this] at h
  · by_contra hc
    push Not at hc
    have := crossings_eq_zero_of_right (vs := vs) (p := p) hc
    simp [containsPt, this] at h

/-- hence the rectangular pre-selection mask of `make_irregular_polygon_aperture` never removes a
point of the polygon, provided the rectangle covers the vertices -/
theorem irrpoly_mask_redundant {vs : List Pt} {hx hy bx by_ : Rat}
    (hbox : ∀ v ∈ vs, |v.1 - bx| ≤ hx ∧ |v.2 - by_| ≤ hy) (p : Pt) :
    val (.irrpoly vs hx hy bx by_) p = b2r (containsPt vs p) := by
  simp only [val]
  cases hc : containsPt vs p with
  | false => simp
  | true =>
    obtain ⟨⟨a, ha, ha'⟩, ⟨b, hb, hb'⟩, ⟨c, hcm, hc'⟩, ⟨d, hd, hd'⟩⟩ := containsPt_bbox hc
    have h1 := abs_le.mp (hbox a ha).1
    have h2 := abs_le.mp (hbox b hb).1
    have h3 := abs_le.mp (hbox c hcm).2
    have h4 := abs_le.mp (hbox d hd).2
    have hxin : rabs (p.1 - bx) ≤ hx := by
      rw [rabs_abs', abs_le]; constructor <;> linarith
    have hyin : rabs (p.2 - by_) ≤ hy := by
      rw [rabs_abs', abs_le]; constructor <;> linarith
    simp [inRect, hxin, hyin]

end HcipyVerif.Aperture
