import HcipyVerif.Lemmas.NearFieldGRat
import HcipyVerif.Lemmas.NearFieldTensor

/-!
# C04 — the matrix-valued `FourierFilter` operator is the executable pipeline `filterMP`

`filterM (dftPair2 …) (cutoutEmb p h) D x` (`Lemmas/NearFieldTensor.lean`, the operator of `filterM_adjoint`) equals the
scalar-polymorphic `filterMP` of `Model/NearField.lean` (what the driver op `filtmp` runs on formal phase sums) at `ℂ`
(`filterM_dft2_apply`, `filterMBackward_dft2_apply`), and `filterMN` commutes with every map of scalars preserving
`0`, `+`, `·` (`filterMN_map`).
-/

set_option linter.unusedSimpArgs false
set_option linter.unusedVariables false
set_option linter.unusedSectionVars false

open Finset Complex ComplexConjugate

namespace HcipyVerif.NearField

open HcipyVerif.Fft (PSum expT)

theorem F_pad_cutoutEmb (p : Params) (h : padOK p = true) (x : Fin p.ny × Fin p.nx → ℂ)
    (py : Fin (my p)) (px : Fin (mx p)) :
    (dftPair2 (my p) (mx p) (my_pos h) (mx_pos h)).F (pad (cutoutEmb p h) x) (py, px)
      = Fft.dft2 (my p) (mx p) (kF (my p)) (kF (mx p))
          (padAt (cutStart (my p) p.ny) (cutStart (mx p) p.nx) p.ny p.nx (ext2 x)) (py : ℕ) (px : ℕ) := by
  rw [dftPair2_F_eq_dft2, dft2_fin, dft2_fin]
  apply Finset.sum_congr rfl
  intro qy _
  apply Finset.sum_congr rfl
  intro qx _
  congr 1
  rw [ext2_fin]
  exact pad_cutoutEmb p h x (qy, qx)

theorem filterM_dft2_apply {n : ℕ} (p : Params) (h : padOK p = true)
    (D : Fin (my p) × Fin (mx p) → Fin n → Fin n → ℂ) (x : Fin n → Fin p.ny × Fin p.nx → ℂ) (t : Fin n)
    (j : Fin p.ny × Fin p.nx) :
    filterM (dftPair2 (my p) (mx p) (my_pos h) (mx_pos h)) (cutoutEmb p h) D x t j
      = filterMP p (kF (my p)) (kF (mx p)) (kB (my p)) (kB (mx p)) (((my p * mx p : ℕ) : ℂ)⁻¹)
          (fun py px i k => ext2 (fun m => D m i k) py px) (fun k => ext2 (x k)) t (j.1 : ℕ) (j.2 : ℕ) := by
  unfold filterM crop filterMP filterMN cropAt
  show (dftPair2 (my p) (mx p) (my_pos h) (mx_pos h)).Finv _ ((cutoutEmb p h j).1, (cutoutEmb p h j).2) = _
  rw [dftPair2_Finv_eq_dft2]
  show _ * Fft.dft2 _ _ _ _ _ (cutStart (my p) p.ny + (j.1 : ℕ)) (cutStart (mx p) p.nx + (j.2 : ℕ)) = _
  congr 1
  rw [dft2_fin, dft2_fin]
  apply Finset.sum_congr rfl
  intro py _
  apply Finset.sum_congr rfl
  intro px _
  congr 1
  rw [ext2_fin]
  unfold mulDM
  congr 1
  · funext i k
    exact (ext2_fin (fun m => D m i k) py px).symm
  · funext k
    exact F_pad_cutoutEmb p h (x k) py px

theorem filterMBackward_dft2_apply {n : ℕ} (p : Params) (h : padOK p = true)
    (D : Fin (my p) × Fin (mx p) → Fin n → Fin n → ℂ) (x : Fin n → Fin p.ny × Fin p.nx → ℂ) (t : Fin n)
    (j : Fin p.ny × Fin p.nx) :
    filterMBackward (dftPair2 (my p) (mx p) (my_pos h) (mx_pos h)) (cutoutEmb p h) D x t j
      = filterMPBackward (starRingEnd ℂ) p (kF (my p)) (kF (mx p)) (kB (my p)) (kB (mx p)) (((my p * mx p : ℕ) : ℂ)⁻¹)
          (fun py px i k => ext2 (fun m => D m i k) py px) (fun k => ext2 (x k)) t (j.1 : ℕ) (j.2 : ℕ) := by
  unfold filterMBackward
  rw [filterM_dft2_apply]
  unfold filterMPBackward filterMNBackward filterMP
  have hc : (fun (py px : ℕ) (i k : Fin n) => ext2 (fun m => conjT (fun z => conj z) (D m) i k) py px)
      = fun py px => conjT (starRingEnd ℂ) (fun i k => ext2 (fun m => D m i k) py px) := by
    funext py px i k
    exact ext2_conj (fun m => D m k i) py px
  rw [hc]

section map
variable {C C' : Type} [Zero C] [Add C] [Mul C] [Zero C'] [Add C'] [Mul C']
  (φ : C → C') (h0 : φ 0 = 0) (hadd : ∀ a b, φ (a + b) = φ a + φ b) (hmul : ∀ a b, φ (a * b) = φ a * φ b)
include h0 hadd

theorem listSum_map (l : List C) : φ l.sum = (l.map φ).sum := by
  induction l with
  | nil => exact h0
  | cons a l ih => rw [List.sum_cons, hadd, ih, List.map_cons, List.sum_cons]

include hmul

theorem matVec_map {n : ℕ} (A : Fin n → Fin n → C) (v : Fin n → C) (t : Fin n) :
    φ (matVec A v t) = matVec (fun i k => φ (A i k)) (fun k => φ (v k)) t := by
  unfold matVec sumFin
  rw [listSum_map φ h0 hadd, List.map_map]
  congr 2
  funext k
  exact hmul _ _

theorem filterMN_map {n : ℕ} (My Mx : ℕ) (kFy kFx kBy kBx : ℤ → C) (sc : C) (sy sx ny nx : ℕ)
    (D : ℕ → ℕ → Fin n → Fin n → C) (x : Fin n → ℕ → ℕ → C) (t : Fin n) (ky kx : ℕ) :
    φ (filterMN My Mx kFy kFx kBy kBx sc sy sx ny nx D x t ky kx)
      = filterMN My Mx (fun m => φ (kFy m)) (fun m => φ (kFx m)) (fun m => φ (kBy m)) (fun m => φ (kBx m)) (φ sc)
          sy sx ny nx (fun a b i k => φ (D a b i k)) (fun k a b => φ (x k a b)) t ky kx := by
  unfold filterMN cropAt
  rw [hmul, dft2_map φ h0 hadd hmul]
  congr 2
  funext py px
  rw [matVec_map φ h0 hadd hmul]
  congr 1
  funext k
  rw [dft2_map φ h0 hadd hmul]
  congr 1
  funext a b
  exact padAt_map φ h0 sy sx ny nx (x k) a b

end map

/-! ## the exact Fresnel transfer function (`meanTurns psumScalar`) and locality of the pipeline -/

theorem ev_foldr_turns (l : List ℚ) :
    PSum.ev ((l.map PSum.turns).foldr (· + ·) 0)
      = (l.map fun t => cexp (((2 * Real.pi * ((t : ℚ) : ℝ) : ℝ) : ℂ) * I)).sum := by
  induction l with
  | nil => rfl
  | cons t ts ih =>
    rw [List.map_cons, List.foldr_cons, PSum.ev_add, ih, PSum.ev_turns, List.map_cons, List.sum_cons]
    congr 1
    unfold expT
    congr 1
    push_cast
    ring

theorem ev_psumMeanTurns (l : List ℚ) :
    PSum.ev (meanTurns psumScalar l) = listMean (l.map fun t => cexp (((2 * Real.pi * ((t : ℚ) : ℝ) : ℝ) : ℂ) * I)) := by
  unfold meanTurns listMean
  show PSum.ev (PSum.ofRat _ * (l.map PSum.turns).foldr (· + ·) 0) = _
  rw [PSum.ev_mul, PSum.ev_ofRat, ev_foldr_turns, List.length_map]
  push_cast
  ring

theorem padAt_congr {sy sx ny nx : ℕ} {x x' : ℕ → ℕ → ℂ} (hx : ∀ a, a < ny → ∀ b, b < nx → x a b = x' a b)
    (py px : ℕ) : padAt sy sx ny nx x py px = padAt sy sx ny nx x' py px := by
  unfold padAt
  split_ifs with hc
  · exact hx _ (by omega) _ (by omega)
  · rfl

/-- The pipeline reads the transfer function only on `[0,My)×[0,Mx)` and the input only on `[0,ny)×[0,nx)`. -/
theorem filterN_congr {My Mx : ℕ} (kFy kFx kBy kBx : ℤ → ℂ) (sc : ℂ) (sy sx ny nx : ℕ) {D D' x x' : ℕ → ℕ → ℂ}
    (hD : ∀ a, a < My → ∀ b, b < Mx → D a b = D' a b) (hx : ∀ a, a < ny → ∀ b, b < nx → x a b = x' a b) (ky kx : ℕ) :
    filterN My Mx kFy kFx kBy kBx sc sy sx ny nx D x ky kx = filterN My Mx kFy kFx kBy kBx sc sy sx ny nx D' x' ky kx := by
  unfold filterN cropAt
  show sc * _ = sc * _
  congr 1
  rw [dft2_fin, dft2_fin]
  apply Finset.sum_congr rfl
  intro py _
  apply Finset.sum_congr rfl
  intro px _
  congr 1
  rw [hD _ py.2 _ px.2]
  congr 1
  have : padAt sy sx ny nx x = padAt sy sx ny nx x' := by
    funext a b
    exact padAt_congr hx a b
  rw [this]


end HcipyVerif.NearField
