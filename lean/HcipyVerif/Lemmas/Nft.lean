import Mathlib.Algebra.BigOperators.Intervals
import Mathlib.Algebra.Field.Basic
import Mathlib.Tactic.Ring
import HcipyVerif.Model.Nft
import HcipyVerif.Lemmas.FftIndex

/-!
# NaiveFourierTransform: both code paths evaluate the defining sum
-/
set_option linter.unusedSimpArgs false
set_option linter.unusedVariables false

namespace HcipyVerif.Fft
open Finset

section
variable {K C : Type} [Field K] [Field C]

theorem nft_forward_fly_eq_sum (E : K → C) (n : ℕ) (us xs : List (ℕ → K)) (w f : ℕ → C) (k : ℕ) :
    nftForwardFly E n us xs w f k = ∑ j ∈ range n, f j * w j * E (-(dotCoords us xs k j)) := by
  simp only [nftForwardFly, sumRange_eq]

theorem nft_forward_mat_eq_sum (E : K → C) (n : ℕ) (us xs : List (ℕ → K)) (w f : ℕ → C) (k : ℕ) :
    nftForwardMat E n us xs w f k = ∑ j ∈ range n, f j * w j * E (-(dotCoords us xs k j)) := by
  simp only [nftForwardMat, nftMatrixForward, sumRange_eq]
  exact Finset.sum_congr rfl fun j _ => by ring

theorem nft_backward_fly_eq_sum (E : K → C) (m : ℕ) (us xs : List (ℕ → K)) (wOut F : ℕ → C) (j : ℕ) :
    nftBackwardFly E m us xs wOut F j = ∑ k ∈ range m, F k * wOut k * E (dotCoords us xs k j) := by
  simp only [nftBackwardFly, sumRange_eq]

theorem nft_backward_mat_eq_sum (E : K → C) (m : ℕ) (us xs : List (ℕ → K)) (wOut F : ℕ → C) (j : ℕ) :
    nftBackwardMat E m us xs wOut F j = ∑ k ∈ range m, F k * wOut k * E (dotCoords us xs k j) := by
  simp only [nftBackwardMat, nftMatrixBackward, sumRange_eq]
  exact Finset.sum_congr rfl fun k _ => by ring

/-- in one dimension `dotCoords [u] [x] k j = u k * x j` -/
theorem dotCoords_one (u x : ℕ → K) (k j : ℕ) : dotCoords [u] [x] k j = u k * x j := by
  simp [dotCoords]

/-- in two dimensions (order `x, y`) -/
theorem dotCoords_two (u v x y : ℕ → K) (k j : ℕ) :
    dotCoords [u, v] [x, y] k j = u k * x j + v k * y j := by
  simp [dotCoords]

end
end HcipyVerif.Fft
