import HcipyVerif.Lemmas.FraunhoferMft
import HcipyVerif.Model.FftSelect

/-!
# C03 — the lens propagator with the transform that `make_fourier_transform` selects

`lensPropagator` is a `FraunhoferPropagator` between two regular Cartesian grids whose Fourier transform is,
**for every wavelength**, the one C01's model of `make_fourier_transform` (`FftSelect.choose detectFix`) picks
for the descriptor of the scaled grid `uv = focal.scaled(2π/(λ f))`:

* `numFft` (the numerical part of `get_fft_parameters`, exact arithmetic) is `NativeAt`: `λ f ≠ 0` and on both axes
  there is a padded size `M` with `N ≤ M`, `Mo ≤ M`, `M·δ·Δ = λ f`;
* `fftCheaper` (the planner's floating-point estimate) is an oracle input `cheaper : ℝ → Bool`, any function;
* `⟨fft, params⟩` → the model of `FastFourierTransform` (`fftTransform2`, literal 2-D pipeline) on the axis
  configurations `axisCfg` reconstructed from the grids (`uvGrid2_axisCfg`: its output grid *is* the uv grid);
* `⟨mft, _⟩`     → the model of `MatrixFourierTransform` (`mftTransform2`) on the uv grid;
* `⟨naive, _⟩`   → the defining sum (never selected for two regular Cartesian 2-D grids: `lensMethod_ne_naive`).

Nothing about the transform is a hypothesis any more, and no branch is "correct by definition".
-/
set_option linter.unusedSimpArgs false
set_option linter.unusedVariables false
set_option linter.unusedSectionVars false

namespace HcipyVerif.FourierLink
open HcipyVerif.Fft HcipyVerif.Fraunhofer Finset Complex ComplexConjugate

/-- one axis of a regular grid: `n` points `x_j = z + j·δ` -/
structure RegAxis where
  n : ℕ
  δ : ℝ
  z : ℝ

/-- coordinate `j` of the axis -/
def RegAxis.x (a : RegAxis) (j : ℕ) : ℝ := a.z + (j : ℝ) * a.δ

/-- A regular 2-D Cartesian grid (`CartesianGrid(RegularCoords(delta, dims, zero))`), weights `δy·δx`
(positive spacings). -/
def regGrid2 (ay ax : RegAxis) : Grid (Fin ay.n × Fin ax.n) 2 := sepGrid ax.x ay.x (fun _ => ay.δ * ax.δ)

/-- One axis of `get_fft_parameters(uv, pupil)` in exact arithmetic, `lf = λ f`, `uv` spacing `2π·Δ/lf`:
`q·N = M` is an integer, `q ≥ 1` (`N ≤ M`), the requested number of samples fits (`Mo ≤ M`). -/
def NativeAxis (p F : RegAxis) (lf : ℝ) (M : ℕ) : Prop := p.n ≤ M ∧ F.n ≤ M ∧ (M : ℝ) * (p.δ * F.δ) = lf

/-- `get_fft_parameters` succeeds for the uv grid at `lf = λ f` (both axes). -/
def NativeAt (py px Fy Fx : RegAxis) (lf : ℝ) : Prop :=
  lf ≠ 0 ∧ ∃ My Mx : ℕ, NativeAxis py Fy lf My ∧ NativeAxis px Fx lf Mx

/-- The `FastFourierTransform` axis configuration reconstructed from pupil axis `p`, focal axis `F`, `lf = λ f`
and padded size `M`: output spacing `2π·dT` with `dT = Δ/lf`, shift `s = (2π/lf)·(Z + Δ·⌊Mo/2⌋)`. -/
@[reducible] noncomputable def axisCfg (p F : RegAxis) (lf : ℝ) (M : ℕ) (emu : Bool) : Cfg ℝ ℂ :=
  { N := p.n, M := M, Mo := F.n, δ := p.δ, z := p.z, dT := F.δ / lf,
    s := 2 * Real.pi / lf * (F.z + F.δ * ((F.n / 2 : ℕ) : ℝ)), w := ((p.δ : ℝ) : ℂ), emu := emu }

theorem axisCfg_ok {p F : RegAxis} {lf : ℝ} {M : ℕ} (h : NativeAxis p F lf M) (hlf : lf ≠ 0) (emu : Bool) :
    AxisOK (axisCfg p F lf M emu) := by
  refine ⟨h.1, h.2.1, ?_, rfl⟩
  show F.δ / lf * (M : ℝ) * p.δ = 1
  have := h.2.2
  field_simp
  linarith

/-- the pupil grid of the reconstructed configurations is the regular pupil grid -/
theorem pupilGrid2_axisCfg (py px Fy Fx : RegAxis) (lf : ℝ) (My Mx : ℕ) (emu : Bool) :
    pupilGrid2 (axisCfg py Fy lf My emu) (axisCfg px Fx lf Mx emu) = regGrid2 py px := rfl

/-- **the output grid of the reconstructed `FastFourierTransform` is the scaled focal grid** (C01
`fft_grid_roundtrip'` for the lens): same points, same weights. -/
theorem uvGrid2_axisCfg (py px Fy Fx : RegAxis) (lf : ℝ) (My Mx : ℕ) (emu : Bool) :
    uvGrid2 (axisCfg py Fy lf My emu) (axisCfg px Fx lf Mx emu) = (regGrid2 Fy Fx).scaled (2 * Real.pi / lf) := by
  unfold uvGrid2 Grid.scaled regGrid2 sepGrid
  congr 1
  · funext k i
    fin_cases i
    · simp [Cfg.a, RegAxis.x]; ring
    · simp [Cfg.a, RegAxis.x]; ring
  · funext k
    simp only [sq_abs]
    ring

/-- descriptor of a regular Cartesian 2-D grid -/
def regDesc : GridDesc := ⟨.regular, true, 2⟩

open Classical in
/-- **What `make_fourier_transform(pupil, uv)` decides** (C01's `choose`, repaired detection): `numFft` is the
exact `NativeAt`, `cheaper` the outcome of the planner's float comparison. -/
noncomputable def lensChoice (py px Fy Fx : RegAxis) (lf : ℝ) (cheaper : Bool) : Option Choice :=
  Fft.choose detectFix regDesc (some ⟨regDesc, decide (NativeAt py px Fy Fx lf)⟩) cheaper

theorem lensChoice_native_cheap {py px Fy Fx : RegAxis} {lf : ℝ} (h : NativeAt py px Fy Fx lf) :
    lensChoice py px Fy Fx lf true = some ⟨.fft, .params⟩ := by
  simp [lensChoice, Fft.choose, detectFix, detectLit, regDesc, GridDesc.isRegular, h]

theorem lensChoice_native_dear {py px Fy Fx : RegAxis} {lf : ℝ} (h : NativeAt py px Fy Fx lf) :
    lensChoice py px Fy Fx lf false = some ⟨.mft, .params⟩ := by
  simp [lensChoice, Fft.choose, detectFix, detectLit, regDesc, GridDesc.isRegular, h]

theorem lensChoice_not_native {py px Fy Fx : RegAxis} {lf : ℝ} (h : ¬ NativeAt py px Fy Fx lf) (c : Bool) :
    lensChoice py px Fy Fx lf c = some ⟨.mft, .grid⟩ := by
  simp [lensChoice, Fft.choose, detectFix, detectLit, regDesc, GridDesc.isRegular, GridDesc.isSeparated, h]

/-- the FFT is selected only for FFT-native uv grids -/
theorem lensChoice_fft_native {py px Fy Fx : RegAxis} {lf : ℝ} {c : Bool} {v : Via}
    (h : lensChoice py px Fy Fx lf c = some ⟨.fft, v⟩) : NativeAt py px Fy Fx lf := by
  by_contra hn
  rw [lensChoice_not_native hn] at h
  simp at h

/-- two regular Cartesian 2-D grids never end up with the naive transform -/
theorem lensMethod_ne_naive (py px Fy Fx : RegAxis) (lf : ℝ) (c : Bool) (v : Via) :
    lensChoice py px Fy Fx lf c ≠ some ⟨.naive, v⟩ := by
  by_cases h : NativeAt py px Fy Fx lf
  · cases c
    · rw [lensChoice_native_dear h]; simp
    · rw [lensChoice_native_cheap h]; simp
  · rw [lensChoice_not_native h]; simp

/-- the `MatrixFourierTransform` `make_instance` builds for `(pupil, focal.scaled(2π/lf))`: output coordinates
in units of 2π are `X/lf`; both grids have constant weights, so both weight arrays take the scalar branch;
`weights_output = w_uv/(2π)² = Δy·Δx/lf²`. -/
noncomputable def mftLens (py px Fy Fx : RegAxis) (lf : ℝ) :
    FourierTransform (Fin py.n × Fin px.n) (Fin Fy.n × Fin Fx.n) :=
  mftTransform2 px.n py.n Fx.n Fy.n px.x py.x (fun k => Fx.x k / lf) (fun k => Fy.x k / lf)
    (.scalar ((py.δ * px.δ : ℝ) : ℂ)) (.scalar (((1 / lf) ^ 2 * (Fy.δ * Fx.δ) : ℝ) : ℂ))

theorem mftLens_uv (Fy Fx : RegAxis) (lf : ℝ) :
    sepGrid (fun i => 2 * Real.pi * (Fx.x i / lf)) (fun i => 2 * Real.pi * (Fy.x i / lf))
        (fun _ : Fin Fy.n × Fin Fx.n => |2 * Real.pi / lf| ^ 2 * (Fy.δ * Fx.δ))
      = (regGrid2 Fy Fx).scaled (2 * Real.pi / lf) := by
  unfold Grid.scaled regGrid2 sepGrid
  congr 1
  funext k i
  fin_cases i
  · simp; ring
  · simp; ring

theorem mftLens_evaluates (py px Fy Fx : RegAxis) (lf : ℝ) :
    EvaluatesFourierSum (mftLens py px Fy Fx lf) (regGrid2 py px) ((regGrid2 Fy Fx).scaled (2 * Real.pi / lf)) := by
  rw [← mftLens_uv]
  exact mft2_evaluates _ _ _ _ _ _ _ _ _ _ _ _ (fun p => rfl)

theorem mftLens_adjoint (py px Fy Fx : RegAxis) (lf : ℝ) :
    EvaluatesAdjointSum (mftLens py px Fy Fx lf) (regGrid2 py px) ((regGrid2 Fy Fx).scaled (2 * Real.pi / lf)) := by
  rw [← mftLens_uv]
  apply mft2_adjoint
  intro k
  simp only [Weights.get, sq_abs]
  have h2 : (((2 * Real.pi) ^ 2 : ℝ) : ℂ) ≠ 0 := by
    have : ((2 * Real.pi) ^ 2 : ℝ) ≠ 0 := by positivity
    exact_mod_cast this
  rw [eq_div_iff h2]
  by_cases hlf : lf = 0
  · subst hlf; simp
  · push_cast
    have : (lf : ℂ) ≠ 0 := by exact_mod_cast hlf
    field_simp

/-- the padded sizes of a native uv grid -/
noncomputable def nativeMy {py px Fy Fx : RegAxis} {lf : ℝ} (h : NativeAt py px Fy Fx lf) : ℕ := h.2.choose
noncomputable def nativeMx {py px Fy Fx : RegAxis} {lf : ℝ} (h : NativeAt py px Fy Fx lf) : ℕ :=
  h.2.choose_spec.choose

theorem native_spec {py px Fy Fx : RegAxis} {lf : ℝ} (h : NativeAt py px Fy Fx lf) :
    NativeAxis py Fy lf (nativeMy h) ∧ NativeAxis px Fx lf (nativeMx h) := h.2.choose_spec.choose_spec

/-- the `FastFourierTransform` model on the reconstructed axis configurations -/
noncomputable def fftLens (py px Fy Fx : RegAxis) (lf : ℝ) (emu : Bool) (h : NativeAt py px Fy Fx lf) :
    FourierTransform (Fin py.n × Fin px.n) (Fin Fy.n × Fin Fx.n) :=
  fftTransform2 (axisCfg py Fy lf (nativeMy h) emu) (axisCfg px Fx lf (nativeMx h) emu)
    (axisCfg_ok (native_spec h).1 h.1 emu) (axisCfg_ok (native_spec h).2 h.1 emu) rfl

theorem fftLens_evaluates (py px Fy Fx : RegAxis) (lf : ℝ) (emu : Bool) (h : NativeAt py px Fy Fx lf) :
    EvaluatesFourierSum (fftLens py px Fy Fx lf emu h) (regGrid2 py px) ((regGrid2 Fy Fx).scaled (2 * Real.pi / lf)) := by
  rw [← uvGrid2_axisCfg py px Fy Fx lf (nativeMy h) (nativeMx h) emu,
    ← pupilGrid2_axisCfg py px Fy Fx lf (nativeMy h) (nativeMx h) emu]
  exact fft2_evaluates _ _ _ _ _

theorem fftLens_adjoint (py px Fy Fx : RegAxis) (lf : ℝ) (emu : Bool) (h : NativeAt py px Fy Fx lf) :
    EvaluatesAdjointSum (fftLens py px Fy Fx lf emu h) (regGrid2 py px) ((regGrid2 Fy Fx).scaled (2 * Real.pi / lf)) := by
  rw [← uvGrid2_axisCfg py px Fy Fx lf (nativeMy h) (nativeMx h) emu,
    ← pupilGrid2_axisCfg py px Fy Fx lf (nativeMy h) (nativeMx h) emu]
  exact fft2_adjoint _ _ _ _ _

open Classical in
/-- **`make_fourier_transform(pupil, focal.scaled(2π/lf))`**: the constructor call on the method selected by
`lensChoice`. -/
noncomputable def lensTransform (py px Fy Fx : RegAxis) (lf : ℝ) (cheaper emu : Bool) :
    FourierTransform (Fin py.n × Fin px.n) (Fin Fy.n × Fin Fx.n) :=
  match (lensChoice py px Fy Fx lf cheaper).map (·.method) with
  | some Method.fft =>
    if h : NativeAt py px Fy Fx lf then fftLens py px Fy Fx lf emu h
    else mftLens py px Fy Fx lf   -- unreachable (`lensChoice_fft_native`)
  | some Method.mft => mftLens py px Fy Fx lf
  | _ => naiveTransform (regGrid2 py px) ((regGrid2 Fy Fx).scaled (2 * Real.pi / lf))

/-- **C01 discharged for the selected transform, whatever is selected.** -/
theorem lensTransform_evaluates (py px Fy Fx : RegAxis) (lf : ℝ) (cheaper emu : Bool) :
    EvaluatesFourierSum (lensTransform py px Fy Fx lf cheaper emu) (regGrid2 py px)
      ((regGrid2 Fy Fx).scaled (2 * Real.pi / lf)) := by
  unfold lensTransform
  split
  · split
    · exact fftLens_evaluates _ _ _ _ _ _ _
    · exact mftLens_evaluates _ _ _ _ _
  · exact mftLens_evaluates _ _ _ _ _
  · exact naive_evaluates _ _

theorem lensTransform_adjoint (py px Fy Fx : RegAxis) (lf : ℝ) (cheaper emu : Bool) :
    EvaluatesAdjointSum (lensTransform py px Fy Fx lf cheaper emu) (regGrid2 py px)
      ((regGrid2 Fy Fx).scaled (2 * Real.pi / lf)) := by
  unfold lensTransform
  split
  · split
    · exact fftLens_adjoint _ _ _ _ _ _ _
    · exact mftLens_adjoint _ _ _ _ _
  · exact mftLens_adjoint _ _ _ _ _
  · exact naive_adjoint _ _

/-- the selected transform really is the FFT model when the grid is native and the planner prefers it … -/
theorem lensTransform_fft {py px Fy Fx : RegAxis} {lf : ℝ} (h : NativeAt py px Fy Fx lf) (emu : Bool) :
    lensTransform py px Fy Fx lf true emu = fftLens py px Fy Fx lf emu h := by
  unfold lensTransform
  rw [lensChoice_native_cheap h]
  simp [h]

/-- … and the MFT model otherwise. -/
theorem lensTransform_mft_dear {py px Fy Fx : RegAxis} {lf : ℝ} (h : NativeAt py px Fy Fx lf) (emu : Bool) :
    lensTransform py px Fy Fx lf false emu = mftLens py px Fy Fx lf := by
  unfold lensTransform
  rw [lensChoice_native_dear h]
  rfl

theorem lensTransform_mft_not_native {py px Fy Fx : RegAxis} {lf : ℝ} (h : ¬ NativeAt py px Fy Fx lf)
    (c emu : Bool) : lensTransform py px Fy Fx lf c emu = mftLens py px Fy Fx lf := by
  unfold lensTransform
  rw [lensChoice_not_native h]
  rfl

/-- The focal grid is a **full conjugate** of the pupil grid at `lf = λ f`: the padded size is the focal size on
both axes (any position of the grid — the shift does not matter for power and inverse). -/
def FullAt (py px Fy Fx : RegAxis) (lf : ℝ) : Prop :=
  lf ≠ 0 ∧ NativeAxis py Fy lf Fy.n ∧ NativeAxis px Fx lf Fx.n

theorem FullAt.native {py px Fy Fx : RegAxis} {lf : ℝ} (h : FullAt py px Fy Fx lf) : NativeAt py px Fy Fx lf :=
  ⟨h.1, Fy.n, Fx.n, h.2.1, h.2.2⟩

/-- the FFT model on the full pair (padded size = focal size) -/
noncomputable def fftFull (py px Fy Fx : RegAxis) (lf : ℝ) (h : FullAt py px Fy Fx lf) :
    FourierTransform (Fin py.n × Fin px.n) (Fin Fy.n × Fin Fx.n) :=
  fftTransform2 (axisCfg py Fy lf Fy.n false) (axisCfg px Fx lf Fx.n false)
    (axisCfg_ok h.2.1 h.1 false) (axisCfg_ok h.2.2 h.1 false) rfl

/-- **Parseval for whichever transform is selected** on a full conjugate pair: every selectable implementation
evaluates the same sums as the FFT model, for which C02 proves Parseval. -/
theorem lensTransform_parseval {py px Fy Fx : RegAxis} {lf : ℝ} (h : FullAt py px Fy Fx lf) (cheaper emu : Bool) :
    ParsevalOn (lensTransform py px Fy Fx lf cheaper emu) (regGrid2 py px)
      ((regGrid2 Fy Fx).scaled (2 * Real.pi / lf)) := by
  have hE : EvaluatesFourierSum (fftFull py px Fy Fx lf h) (regGrid2 py px)
      ((regGrid2 Fy Fx).scaled (2 * Real.pi / lf)) := by
    rw [← uvGrid2_axisCfg py px Fy Fx lf Fy.n Fx.n false, ← pupilGrid2_axisCfg py px Fy Fx lf Fy.n Fx.n false]
    exact fft2_evaluates _ _ _ _ _
  refine parsevalOn_of_evaluates (lensTransform_evaluates py px Fy Fx lf cheaper emu) hE ?_
  rw [← uvGrid2_axisCfg py px Fy Fx lf Fy.n Fx.n false, ← pupilGrid2_axisCfg py px Fy Fx lf Fy.n Fx.n false]
  exact fft2_parseval _ _ _ _ _ rfl rfl

/-- **`backward ∘ forward = id` for whichever transform is selected** on a full conjugate pair. -/
theorem lensTransform_inverse {py px Fy Fx : RegAxis} {lf : ℝ} (h : FullAt py px Fy Fx lf) (cheaper emu : Bool) :
    InverseOn (lensTransform py px Fy Fx lf cheaper emu) := by
  have hE : EvaluatesFourierSum (fftFull py px Fy Fx lf h) (regGrid2 py px)
      ((regGrid2 Fy Fx).scaled (2 * Real.pi / lf)) := by
    rw [← uvGrid2_axisCfg py px Fy Fx lf Fy.n Fx.n false, ← pupilGrid2_axisCfg py px Fy Fx lf Fy.n Fx.n false]
    exact fft2_evaluates _ _ _ _ _
  have hA : EvaluatesAdjointSum (fftFull py px Fy Fx lf h) (regGrid2 py px)
      ((regGrid2 Fy Fx).scaled (2 * Real.pi / lf)) := by
    rw [← uvGrid2_axisCfg py px Fy Fx lf Fy.n Fx.n false, ← pupilGrid2_axisCfg py px Fy Fx lf Fy.n Fx.n false]
    exact fft2_adjoint _ _ _ _ _
  exact inverseOn_of_evaluates (lensTransform_evaluates py px Fy Fx lf cheaper emu) hE
    (lensTransform_adjoint py px Fy Fx lf cheaper emu) hA (fft2_inverse _ _ _ _ _ rfl rfl)

end HcipyVerif.FourierLink
