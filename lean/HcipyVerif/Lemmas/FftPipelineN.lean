import HcipyVerif.Lemmas.FftPipeline2
import HcipyVerif.Lemmas.FftBackward2
import HcipyVerif.Model.FftIndexN

/-!
# Three axes literally, `n` axes by induction over the axes

* `core3_eq_iter`, `inMult3_eq`, `outMult3_eq`, `fastForward3_eq_iter`: the literal 3-D pipeline
  (one 3-D pad / ifftshift / `fftn` / fftshift / crop, 3-D multiplier arrays) is the 1-D pipeline
  applied along `x`, `y`, `z`; `fastForward3_eq_sum`: it evaluates the 3-D defining sum.
* `fastForwardN_eq_sumForwardN`, `fastBackwardN_eq_sumBackwardN`: the **iterated** `n`-axis
  pipeline evaluates the `n`-D defining sum, by induction over the list of axes.
-/
set_option linter.unusedSimpArgs false
set_option linter.unusedVariables false
set_option linter.unusedSectionVars false

namespace HcipyVerif.Fft
open Finset

/-! ## `n` axes -/

section sumOver
variable {C : Type} [CommRing C]

theorem sumOverN_mul_right (ns : List ℕ) (F : List ℕ → C) (c : C) :
    sumOverN ns (fun idx => F idx * c) = sumOverN ns F * c := by
  induction ns generalizing F with
  | nil => rfl
  | cons n ns ih =>
    simp only [sumOverN, sumRange_eq]
    rw [Finset.sum_mul]
    apply Finset.sum_congr rfl
    intro j _
    exact ih (fun idx => F (j :: idx))

end sumOver

section pipelineN
variable {K C : Type} [Field K] [Field C] {T E : K → C}

theorem fastForwardN_nil (f : List ℕ → C) (ks : List ℕ) : fastForwardN T E [] f ks = f [] := by
  cases ks <;> rfl

theorem fastForwardN_cons (g : Cfg K C) (gs : List (Cfg K C)) (f : List ℕ → C) (k : ℕ) (ks : List ℕ) :
    fastForwardN T E (g :: gs) f (k :: ks)
      = fastForward T E g (fun i => fastForwardN T E gs (fun idx => f (i :: idx)) ks) k := rfl

theorem fastBackwardN_cons (g : Cfg K C) (gs : List (Cfg K C)) (F : List ℕ → C) (j : ℕ) (js : List ℕ) :
    fastBackwardN T E (g :: gs) F (j :: js)
      = fastBackward T E g (fun k => fastBackwardN T E gs (fun idx => F (k :: idx)) js) j := rfl

/-- one axis peeled off the `n`-D forward defining sum -/
theorem sumForwardN_cons (hT : IsChar T) (hE : IsChar E) (g : Cfg K C) (gs : List (Cfg K C))
    (f : List ℕ → C) (k : ℕ) (ks : List ℕ) :
    sumForwardN T E (g :: gs) f (k :: ks)
      = sumForward T E g (fun j => sumForwardN T E gs (fun idx => f (j :: idx)) ks) k := by
  unfold sumForward
  simp only [sumForwardN, List.map_cons, sumOverN]
  congr 1
  funext j
  rw [← sumOverN_mul_right, ← sumOverN_mul_right]
  congr 1
  funext idx
  simp only [weightN, dotA, dotS]
  have h1 : T (-(g.a k * g.x j + dotA gs ks idx)) = T (-(g.a k * g.x j)) * T (-(dotA gs ks idx)) := by
    rw [← hT.add]; congr 1; ring
  have h2 : E (-(g.s * g.x j + dotS gs idx)) = E (-(g.s * g.x j)) * E (-(dotS gs idx)) := by
    rw [← hE.add]; congr 1; ring
  rw [h1, h2]; ring

/-- one axis peeled off the `n`-D backward defining sum -/
theorem sumBackwardN_cons (hT : IsChar T) (hE : IsChar E) (wOut : Cfg K C → C) (g : Cfg K C)
    (gs : List (Cfg K C)) (F : List ℕ → C) (j : ℕ) (js : List ℕ) :
    sumBackwardN T E wOut (g :: gs) F (j :: js)
      = sumBackward T E g (wOut g)
          (fun k => sumBackwardN T E wOut gs (fun idx => F (k :: idx)) js) j := by
  unfold sumBackward
  simp only [sumBackwardN, List.map_cons, sumOverN]
  congr 1
  funext k
  rw [← sumOverN_mul_right, ← sumOverN_mul_right]
  congr 1
  funext idx
  simp only [weightOutN, dotA, dotS]
  have h1 : T (g.a k * g.x j + dotA gs idx js) = T (g.a k * g.x j) * T (dotA gs idx js) := hT.add _ _
  have h2 : E (g.s * g.x j + dotS gs js) = E (g.s * g.x j) * E (dotS gs js) := hE.add _ _
  rw [h1, h2]; ring

/-- **The iterated `n`-axis `forward` evaluates the `n`-dimensional defining sum**, for every
number of axes, every per-axis configuration (`emulate_fftshifts` on or off independently per
axis), all sizes and grid parameters with the per-axis consistency `dT·M·δ = 1`.

`fastForwardN` is the *iterated* pipeline (the 1-D `FastFourierTransform.forward` of
`Model/FftIndex.lean` applied along one axis after the other).  That the literal array program
(one `n`-D multiplier array, one `n`-D zero-padded internal array, `ifftshift`, `fftn`, `fftshift`,
one `n`-D crop, one `n`-D multiplier array) coincides with it is *proved* for two axes
(`fastForward2_eq_iter`) and three axes (`fastForward3_eq_iter`); beyond three axes it is the
assumed NumPy specification "`fftn` = iterated 1-D DFT; `ifftshift` / padding / cropping act per
axis; broadcasting multiplies per axis". -/
theorem fastForwardN_eq_sumForwardN (hT : IsChar T) (hE : IsChar E) (hper : ∀ n : ℤ, T (n : K) = 1)
    (gs : List (Cfg K C))
    (hgs : ∀ g ∈ gs, g.N ≤ g.M ∧ g.Mo ≤ g.M ∧ g.dT * (g.M : K) * g.δ = 1)
    (f : List ℕ → C) (ks : List ℕ) (hks : List.Forall₂ (fun k g => k < g.Mo) ks gs) :
    fastForwardN T E gs f ks = sumForwardN T E gs f ks := by
  induction gs generalizing f ks with
  | nil =>
    rw [fastForwardN_nil]
    simp [sumForwardN, sumOverN, weightN, dotA, dotS, hT.zero, hE.zero]
  | cons g gs ih =>
    cases hks with
    | cons hk hks' =>
      rename_i k ks'
      obtain ⟨hN, hMo, hc⟩ := hgs g (List.mem_cons_self ..)
      have hgs' : ∀ g' ∈ gs, g'.N ≤ g'.M ∧ g'.Mo ≤ g'.M ∧ g'.dT * (g'.M : K) * g'.δ = 1 :=
        fun g' hg' => hgs g' (List.mem_cons_of_mem _ hg')
      rw [fastForwardN_cons, sumForwardN_cons hT hE,
        fastForward_eq_sumForward hT hE hper g hN hMo hc _ k hk]
      congr 1
      funext i
      exact ih hgs' _ _ hks'

/-- **The iterated `n`-axis `backward` evaluates the `n`-dimensional backward defining sum**
with the output weight `Π wOut g`, `wOut g·M·w = 1` on every axis (`wOut = Δ/(2π)`).  Same
reading of "iterated" as in `fastForwardN_eq_sumForwardN`. -/
theorem fastBackwardN_eq_sumBackwardN (hT : IsChar T) (hE : IsChar E) (hper : ∀ n : ℤ, T (n : K) = 1)
    (wOut : Cfg K C → C) (gs : List (Cfg K C))
    (hgs : ∀ g ∈ gs, g.N ≤ g.M ∧ g.Mo ≤ g.M ∧ g.dT * (g.M : K) * g.δ = 1 ∧
      wOut g * (g.M : C) * g.w = 1)
    (F : List ℕ → C) (js : List ℕ) (hjs : List.Forall₂ (fun j g => j < g.N) js gs) :
    fastBackwardN T E gs F js = sumBackwardN T E wOut gs F js := by
  induction gs generalizing F js with
  | nil =>
    cases js <;>
      simp [fastBackwardN, sumBackwardN, sumOverN, weightOutN, dotA, dotS, hT.zero, hE.zero]
  | cons g gs ih =>
    cases hjs with
    | cons hj hjs' =>
      rename_i j js'
      obtain ⟨hN, hMo, hc, hw⟩ := hgs g (List.mem_cons_self ..)
      have hgs' : ∀ g' ∈ gs, g'.N ≤ g'.M ∧ g'.Mo ≤ g'.M ∧ g'.dT * (g'.M : K) * g'.δ = 1 ∧
          wOut g' * (g'.M : C) * g'.w = 1 :=
        fun g' hg' => hgs g' (List.mem_cons_of_mem _ hg')
      rw [fastBackwardN_cons, sumBackwardN_cons hT hE,
        fastBackward_eq_sumBackward hT hE hper g hN hMo hc (wOut g) hw _ j hj]
      congr 1
      funext k
      exact ih hgs' _ _ hjs'

/-- consistency with the two-axis file: the `n`-axis iterated pipeline on the axis list
`[gy, gx]` is `fastForward2Iter gy gx` (re-currying the index lists) -/
theorem fastForwardN_two (gy gx : Cfg K C) (f : List ℕ → C) (ky kx : ℕ) :
    fastForwardN T E [gy, gx] f [ky, kx]
      = fastForward2Iter T E gy gx (fun iy ix => f [iy, ix]) ky kx := by
  simp only [fastForwardN_cons, fastForwardN_nil, fastForward2Iter]

/-- consistency with the three-axis definitions: the axis list `[gz, gy, gx]` gives
`fastForward3Iter gz gy gx` -/
theorem fastForwardN_three (gz gy gx : Cfg K C) (f : List ℕ → C) (kz ky kx : ℕ) :
    fastForwardN T E [gz, gy, gx] f [kz, ky, kx]
      = fastForward3Iter T E gz gy gx (fun iz iy ix => f [iz, iy, ix]) kz ky kx := by
  simp only [fastForwardN_cons, fastForwardN_nil, fastForward3Iter]

end pipelineN

/-! ## Three axes, literally -/

section core3
variable {C : Type} [CommRing C]

theorem pad3_eq (Nz Mz Ny My Nx Mx : ℕ) (f : ℕ → ℕ → ℕ → C) (a b c : ℕ) :
    pad3 Nz Mz Ny My Nx Mx f a b c = pad Nz Mz (fun iz => pad2 Ny My Nx Mx (f iz) b c) a := by
  unfold pad3 pad2 pad
  by_cases hA : padStart Nz Mz ≤ a ∧ a < padStart Nz Mz + Nz <;>
    by_cases hB : padStart Ny My ≤ b ∧ b < padStart Ny My + Ny <;>
      by_cases hC : padStart Nx Mx ≤ c ∧ c < padStart Nx Mx + Nx <;> simp [hA, hB, hC]

/-- one axis peeled off the 3-D index core: `core3 = core (z) ∘ core2 (y, x)` -/
theorem core3_eq_core_core2 (b : Bool) (Nz Mz Moz Ny My Moy Nx Mx Mox : ℕ) (kerZ kerY kerX : ℤ → C)
    (f : ℕ → ℕ → ℕ → C) (kz ky kx : ℕ) :
    core3 b Nz Mz Moz Ny My Moy Nx Mx Mox kerZ kerY kerX f kz ky kx
      = core b Nz Mz Moz kerZ (fun iz => core2 b Ny My Moy Nx Mx Mox kerY kerX (f iz) ky kx) kz := by
  cases b
  · simp only [core3, core2, core, Bool.false_eq_true, if_false]
    unfold crop3 crop2 crop dft3 dft2 dft
    simp only [sumRange_eq]
    apply Finset.sum_congr rfl
    intro pz _
    rw [pad_sum, Finset.sum_mul]
    apply Finset.sum_congr rfl
    intro py _
    rw [pad_sum, Finset.sum_mul]
    apply Finset.sum_congr rfl
    intro px _
    rw [pad_mul_right, pad3_eq]
    ring
  · simp only [core3, core2, core, if_true]
    unfold crop3 crop2 crop fftshift3 fftshift2 fftshift dft3 dft2 dft ifftshift3 ifftshift2 ifftshift
    simp only [sumRange_eq]
    apply Finset.sum_congr rfl
    intro pz _
    rw [pad_sum, Finset.sum_mul]
    apply Finset.sum_congr rfl
    intro py _
    rw [pad_sum, Finset.sum_mul]
    apply Finset.sum_congr rfl
    intro px _
    rw [pad_mul_right, pad3_eq]
    ring

/-- **Separability of the 3-D index core**: padding, shifting, transforming (`fftn`) and cropping
a 3-D array on all axes at once is the 1-D core along `x`, then along `y`, then along `z`. -/
theorem core3_eq_iter (b : Bool) (Nz Mz Moz Ny My Moy Nx Mx Mox : ℕ) (kerZ kerY kerX : ℤ → C)
    (f : ℕ → ℕ → ℕ → C) (kz ky kx : ℕ) :
    core3 b Nz Mz Moz Ny My Moy Nx Mx Mox kerZ kerY kerX f kz ky kx
      = core b Nz Mz Moz kerZ (fun iz => core b Ny My Moy kerY
          (fun iy => core b Nx Mx Mox kerX (f iz iy) kx) ky) kz := by
  rw [core3_eq_core_core2]
  congr 1
  funext iz
  rw [core2_eq_iter]

end core3

section pipeline3
variable {K C : Type} [Field K] [Field C] {T E : K → C}

theorem inMult3_eq (hT : IsChar T) (hE : IsChar E) (gz gy gx : Cfg K C)
    (hey : gy.emu = gx.emu) (hez : gz.emu = gx.emu) (iz iy ix : ℕ) :
    inMult3 T E gz gy gx iz iy ix = gz.inMult T E iz * gy.inMult T E iy * gx.inMult T E ix := by
  unfold inMult3 Cfg.inMult emuIn3 Cfg.emuIn
  rw [hey, hez]
  have h1 : E (-(gx.s * gx.x ix + gy.s * gy.x iy + gz.s * gz.x iz))
      = E (-(gz.s * gz.x iz)) * E (-(gy.s * gy.x iy)) * E (-(gx.s * gx.x ix)) := by
    rw [← hE.add, ← hE.add]; congr 1; ring
  rw [h1]
  split
  · have h2 : T (gx.fShift * gx.aInt (ix + padStart gx.N gx.M) + gy.fShift * gy.aInt (iy + padStart gy.N gy.M)
          + gz.fShift * gz.aInt (iz + padStart gz.N gz.M))
        = T (gz.fShift * gz.aInt (iz + padStart gz.N gz.M)) * T (gy.fShift * gy.aInt (iy + padStart gy.N gy.M))
          * T (gx.fShift * gx.aInt (ix + padStart gx.N gx.M)) := by
      rw [← hT.add, ← hT.add]; congr 1; ring
    have h3 : T (-(gx.fShift * gx.aInt 0 + gy.fShift * gy.aInt 0 + gz.fShift * gz.aInt 0))
        = T (-(gz.fShift * gz.aInt 0)) * T (-(gy.fShift * gy.aInt 0)) * T (-(gx.fShift * gx.aInt 0)) := by
      rw [← hT.add, ← hT.add]; congr 1; ring
    rw [h2, h3]; ring
  · ring

theorem outMult3_eq (hT : IsChar T) (hE : IsChar E) (gz gy gx : Cfg K C)
    (hey : gy.emu = gx.emu) (hez : gz.emu = gx.emu) (kz ky kx : ℕ) :
    outMult3 T E gz gy gx kz ky kx = gz.outMult T E kz * gy.outMult T E ky * gx.outMult T E kx := by
  unfold outMult3 Cfg.outMult
  rw [centre_ratio hT hE gz, centre_ratio hT hE gy, centre_ratio hT hE gx]
  have hc : centrePhase3 T E gz gy gx kz ky kx
        * (centrePhase3 T E gz gy gx (gz.Mo / 2) (gy.Mo / 2) (gx.Mo / 2))⁻¹
      = T (-(gz.centre * gz.a kz)) * T (-(gy.centre * gy.a ky)) * T (-(gx.centre * gx.a kx)) := by
    unfold centrePhase3
    rw [a_centre, a_centre, a_centre, mul_zero, mul_zero, mul_zero, add_zero, add_zero, neg_zero,
      hT.zero, one_mul, ← hT.add, ← hT.add]
    have := hE.ne_zero (-(gx.centre * gx.s + gy.centre * gy.s + gz.centre * gz.s))
    have e : -(gx.centre * gx.a kx + gy.centre * gy.a ky + gz.centre * gz.a kz)
        = -(gz.centre * gz.a kz) + -(gy.centre * gy.a ky) + -(gx.centre * gx.a kx) := by ring
    rw [e]
    field_simp
  rw [hc]
  unfold emuOut3 Cfg.emuOut
  rw [hey, hez]
  split
  · have h2 : T (gx.fShift * gx.aInt (kx + padStart gx.Mo gx.M) + gy.fShift * gy.aInt (ky + padStart gy.Mo gy.M)
          + gz.fShift * gz.aInt (kz + padStart gz.Mo gz.M))
        = T (gz.fShift * gz.aInt (kz + padStart gz.Mo gz.M)) * T (gy.fShift * gy.aInt (ky + padStart gy.Mo gy.M))
          * T (gx.fShift * gx.aInt (kx + padStart gx.Mo gx.M)) := by
      rw [← hT.add, ← hT.add]; congr 1; ring
    rw [h2]; ring
  · ring

/-- **Separability of the whole 3-D pipeline**: the literal 3-D `forward` is the 1-D `forward`
along `x`, then along `y`, then along `z`. -/
theorem fastForward3_eq_iter (hT : IsChar T) (hE : IsChar E) (gz gy gx : Cfg K C)
    (hey : gy.emu = gx.emu) (hez : gz.emu = gx.emu) (f : ℕ → ℕ → ℕ → C) (kz ky kx : ℕ) :
    fastForward3 T E gz gy gx f kz ky kx = fastForward3Iter T E gz gy gx f kz ky kx := by
  unfold fastForward3 fastForward3Iter fastForward
  rw [core3_eq_iter, outMult3_eq hT hE gz gy gx hey hez, hey, hez]
  -- the innermost (x) core: pull the z- and y-multipliers out
  have hx : ∀ iz iy, core (!gx.emu) gx.N gx.M gx.Mo (gx.kerF T)
        (fun ix => f iz iy ix * inMult3 T E gz gy gx iz iy ix) kx
      = gz.inMult T E iz * (gy.inMult T E iy * core (!gx.emu) gx.N gx.M gx.Mo (gx.kerF T)
        (fun ix => f iz iy ix * gx.inMult T E ix) kx) := by
    intro iz iy
    rw [← core_mul_left, ← core_mul_left]
    congr 1
    funext ix
    rw [inMult3_eq hT hE gz gy gx hey hez]; ring
  -- the middle (y) core
  have hy : ∀ iz, core (!gx.emu) gy.N gy.M gy.Mo (gy.kerF T)
        (fun iy => core (!gx.emu) gx.N gx.M gx.Mo (gx.kerF T)
          (fun ix => f iz iy ix * inMult3 T E gz gy gx iz iy ix) kx) ky
      = gz.inMult T E iz * core (!gx.emu) gy.N gy.M gy.Mo (gy.kerF T)
        (fun iy => gy.inMult T E iy * core (!gx.emu) gx.N gx.M gx.Mo (gx.kerF T)
          (fun ix => f iz iy ix * gx.inMult T E ix) kx) ky := by
    intro iz
    rw [← core_mul_left]
    congr 1
    funext iy
    exact hx iz iy
  have lhs : (fun iz => core (!gx.emu) gy.N gy.M gy.Mo (gy.kerF T)
        (fun iy => core (!gx.emu) gx.N gx.M gx.Mo (gx.kerF T)
          (fun ix => f iz iy ix * inMult3 T E gz gy gx iz iy ix) kx) ky)
      = fun iz => gz.inMult T E iz * core (!gx.emu) gy.N gy.M gy.Mo (gy.kerF T)
        (fun iy => gy.inMult T E iy * core (!gx.emu) gx.N gx.M gx.Mo (gx.kerF T)
          (fun ix => f iz iy ix * gx.inMult T E ix) kx) ky := funext hy
  rw [lhs]
  -- the iterated side: pull the x-output multiplier out of the y core, then x and y out of z
  have ry : ∀ iz, core (!gx.emu) gy.N gy.M gy.Mo (gy.kerF T)
        (fun iy => core (!gx.emu) gx.N gx.M gx.Mo (gx.kerF T) (fun j => f iz iy j * gx.inMult T E j) kx
          * gx.outMult T E kx * gy.inMult T E iy) ky
      = gx.outMult T E kx * core (!gx.emu) gy.N gy.M gy.Mo (gy.kerF T)
        (fun iy => gy.inMult T E iy * core (!gx.emu) gx.N gx.M gx.Mo (gx.kerF T)
          (fun ix => f iz iy ix * gx.inMult T E ix) kx) ky := by
    intro iz
    rw [← core_mul_left]
    congr 1
    funext iy
    ring
  have rhs : (fun iz => core (!gx.emu) gy.N gy.M gy.Mo (gy.kerF T)
        (fun iy => core (!gx.emu) gx.N gx.M gx.Mo (gx.kerF T) (fun j => f iz iy j * gx.inMult T E j) kx
          * gx.outMult T E kx * gy.inMult T E iy) ky * gy.outMult T E ky * gz.inMult T E iz)
      = fun iz => (gx.outMult T E kx * gy.outMult T E ky) * (gz.inMult T E iz *
        core (!gx.emu) gy.N gy.M gy.Mo (gy.kerF T)
        (fun iy => gy.inMult T E iy * core (!gx.emu) gx.N gx.M gx.Mo (gx.kerF T)
          (fun ix => f iz iy ix * gx.inMult T E ix) kx) ky) := by
    funext iz
    rw [ry iz]; ring
  rw [rhs, core_mul_left]
  ring

/-- the iterated three-axis pipeline is the 3-D defining sum -/
theorem fastForward3Iter_eq_sum (hT : IsChar T) (hE : IsChar E) (hper : ∀ n : ℤ, T (n : K) = 1)
    (gz gy gx : Cfg K C)
    (hNz : gz.N ≤ gz.M) (hMoz : gz.Mo ≤ gz.M) (hcz : gz.dT * (gz.M : K) * gz.δ = 1)
    (hNy : gy.N ≤ gy.M) (hMoy : gy.Mo ≤ gy.M) (hcy : gy.dT * (gy.M : K) * gy.δ = 1)
    (hNx : gx.N ≤ gx.M) (hMox : gx.Mo ≤ gx.M) (hcx : gx.dT * (gx.M : K) * gx.δ = 1)
    (f : ℕ → ℕ → ℕ → C) (kz ky kx : ℕ) (hkz : kz < gz.Mo) (hky : ky < gy.Mo) (hkx : kx < gx.Mo) :
    fastForward3Iter T E gz gy gx f kz ky kx
      = ∑ iz ∈ range gz.N, ∑ iy ∈ range gy.N, ∑ ix ∈ range gx.N,
          f iz iy ix * (gz.w * gy.w * gx.w) *
            (T (-(gx.a kx * gx.x ix + gy.a ky * gy.x iy + gz.a kz * gz.x iz))
              * E (-(gx.s * gx.x ix + gy.s * gy.x iy + gz.s * gz.x iz))) := by
  unfold fastForward3Iter
  rw [fastForward_eq_sumForward hT hE hper gz hNz hMoz hcz _ kz hkz, sumForward, sumRange_eq]
  apply Finset.sum_congr rfl
  intro iz _
  rw [fastForward_eq_sumForward hT hE hper gy hNy hMoy hcy _ ky hky, sumForward, sumRange_eq,
    Finset.sum_mul, Finset.sum_mul]
  apply Finset.sum_congr rfl
  intro iy _
  rw [fastForward_eq_sumForward hT hE hper gx hNx hMox hcx _ kx hkx, sumForward, sumRange_eq,
    Finset.sum_mul, Finset.sum_mul, Finset.sum_mul, Finset.sum_mul]
  apply Finset.sum_congr rfl
  intro ix _
  have h1 : T (-(gx.a kx * gx.x ix + gy.a ky * gy.x iy + gz.a kz * gz.x iz))
      = T (-(gx.a kx * gx.x ix)) * T (-(gy.a ky * gy.x iy)) * T (-(gz.a kz * gz.x iz)) := by
    rw [← hT.add, ← hT.add]; congr 1; ring
  have h2 : E (-(gx.s * gx.x ix + gy.s * gy.x iy + gz.s * gz.x iz))
      = E (-(gx.s * gx.x ix)) * E (-(gy.s * gy.x iy)) * E (-(gz.s * gz.x iz)) := by
    rw [← hE.add, ← hE.add]; congr 1; ring
  rw [h1, h2]; ring

/-- **The literal 3-D `FastFourierTransform.forward` evaluates the 3-D defining sum**
(both configurations of `emulate_fftshifts`, the flag being one per transform). -/
theorem fastForward3_eq_sum (hT : IsChar T) (hE : IsChar E) (hper : ∀ n : ℤ, T (n : K) = 1)
    (gz gy gx : Cfg K C) (hey : gy.emu = gx.emu) (hez : gz.emu = gx.emu)
    (hNz : gz.N ≤ gz.M) (hMoz : gz.Mo ≤ gz.M) (hcz : gz.dT * (gz.M : K) * gz.δ = 1)
    (hNy : gy.N ≤ gy.M) (hMoy : gy.Mo ≤ gy.M) (hcy : gy.dT * (gy.M : K) * gy.δ = 1)
    (hNx : gx.N ≤ gx.M) (hMox : gx.Mo ≤ gx.M) (hcx : gx.dT * (gx.M : K) * gx.δ = 1)
    (f : ℕ → ℕ → ℕ → C) (kz ky kx : ℕ) (hkz : kz < gz.Mo) (hky : ky < gy.Mo) (hkx : kx < gx.Mo) :
    fastForward3 T E gz gy gx f kz ky kx
      = ∑ iz ∈ range gz.N, ∑ iy ∈ range gy.N, ∑ ix ∈ range gx.N,
          f iz iy ix * (gz.w * gy.w * gx.w) *
            (T (-(gx.a kx * gx.x ix + gy.a ky * gy.x iy + gz.a kz * gz.x iz))
              * E (-(gx.s * gx.x ix + gy.s * gy.x iy + gz.s * gz.x iz))) := by
  rw [fastForward3_eq_iter hT hE gz gy gx hey hez,
    fastForward3Iter_eq_sum hT hE hper gz gy gx hNz hMoz hcz hNy hMoy hcy hNx hMox hcx f kz ky kx
      hkz hky hkx]

/-- the same, against the executable `sumForward3` of the model file -/
theorem fastForward3_eq_sumForward3 (hT : IsChar T) (hE : IsChar E) (hper : ∀ n : ℤ, T (n : K) = 1)
    (gz gy gx : Cfg K C) (hey : gy.emu = gx.emu) (hez : gz.emu = gx.emu)
    (hNz : gz.N ≤ gz.M) (hMoz : gz.Mo ≤ gz.M) (hcz : gz.dT * (gz.M : K) * gz.δ = 1)
    (hNy : gy.N ≤ gy.M) (hMoy : gy.Mo ≤ gy.M) (hcy : gy.dT * (gy.M : K) * gy.δ = 1)
    (hNx : gx.N ≤ gx.M) (hMox : gx.Mo ≤ gx.M) (hcx : gx.dT * (gx.M : K) * gx.δ = 1)
    (f : ℕ → ℕ → ℕ → C) (kz ky kx : ℕ) (hkz : kz < gz.Mo) (hky : ky < gy.Mo) (hkx : kx < gx.Mo) :
    fastForward3 T E gz gy gx f kz ky kx = sumForward3 T E gz gy gx f kz ky kx := by
  rw [fastForward3_eq_sum hT hE hper gz gy gx hey hez hNz hMoz hcz hNy hMoy hcy hNx hMox hcx f
    kz ky kx hkz hky hkx]
  simp only [sumForward3, sumRange_eq]

end pipeline3

/-! ## Backward, two and three axes, literally -/

section backward
variable {K C : Type} [Field K] [Field C] {T E : K → C}

-- `fastBackward2_eq_iter`: see Lemmas/FftBackward2.lean

/-- **Separability of the literal 3-D `backward`** -/
theorem fastBackward3_eq_iter (hT : IsChar T) (hE : IsChar E) (gz gy gx : Cfg K C)
    (hey : gy.emu = gx.emu) (hez : gz.emu = gx.emu) (F : ℕ → ℕ → ℕ → C) (jz jy jx : ℕ) :
    fastBackward3 T E gz gy gx F jz jy jx = fastBackward3Iter T E gz gy gx F jz jy jx := by
  unfold fastBackward3 fastBackward3Iter fastBackward
  rw [core3_eq_iter, inMult3_eq hT hE gz gy gx hey hez, hey, hez]
  have hx : ∀ kz ky, core (!gx.emu) gx.Mo gx.M gx.N (gx.kerB T)
        (fun kx => F kz ky kx * (outMult3 T E gz gy gx kz ky kx)⁻¹) jx
      = (gz.outMult T E kz)⁻¹ * ((gy.outMult T E ky)⁻¹ * core (!gx.emu) gx.Mo gx.M gx.N (gx.kerB T)
        (fun kx => F kz ky kx * (gx.outMult T E kx)⁻¹) jx) := by
    intro kz ky
    rw [← core_mul_left, ← core_mul_left]
    congr 1
    funext kx
    rw [outMult3_eq hT hE gz gy gx hey hez, mul_inv, mul_inv]; ring
  have hy : ∀ kz, core (!gx.emu) gy.Mo gy.M gy.N (gy.kerB T)
        (fun ky => core (!gx.emu) gx.Mo gx.M gx.N (gx.kerB T)
          (fun kx => F kz ky kx * (outMult3 T E gz gy gx kz ky kx)⁻¹) jx) jy
      = (gz.outMult T E kz)⁻¹ * core (!gx.emu) gy.Mo gy.M gy.N (gy.kerB T)
        (fun ky => (gy.outMult T E ky)⁻¹ * core (!gx.emu) gx.Mo gx.M gx.N (gx.kerB T)
          (fun kx => F kz ky kx * (gx.outMult T E kx)⁻¹) jx) jy := by
    intro kz
    rw [← core_mul_left]
    congr 1
    funext ky
    exact hx kz ky
  have lhs : (fun kz => core (!gx.emu) gy.Mo gy.M gy.N (gy.kerB T)
        (fun ky => core (!gx.emu) gx.Mo gx.M gx.N (gx.kerB T)
          (fun kx => F kz ky kx * (outMult3 T E gz gy gx kz ky kx)⁻¹) jx) jy)
      = fun kz => (gz.outMult T E kz)⁻¹ * core (!gx.emu) gy.Mo gy.M gy.N (gy.kerB T)
        (fun ky => (gy.outMult T E ky)⁻¹ * core (!gx.emu) gx.Mo gx.M gx.N (gx.kerB T)
          (fun kx => F kz ky kx * (gx.outMult T E kx)⁻¹) jx) jy := funext hy
  rw [lhs]
  have ry : ∀ kz, core (!gx.emu) gy.Mo gy.M gy.N (gy.kerB T)
        (fun ky => ((gx.M : C))⁻¹ * core (!gx.emu) gx.Mo gx.M gx.N (gx.kerB T)
          (fun k => F kz ky k * (gx.outMult T E k)⁻¹) jx * (gx.inMult T E jx)⁻¹
          * (gy.outMult T E ky)⁻¹) jy
      = (((gx.M : C))⁻¹ * (gx.inMult T E jx)⁻¹) * core (!gx.emu) gy.Mo gy.M gy.N (gy.kerB T)
        (fun ky => (gy.outMult T E ky)⁻¹ * core (!gx.emu) gx.Mo gx.M gx.N (gx.kerB T)
          (fun kx => F kz ky kx * (gx.outMult T E kx)⁻¹) jx) jy := by
    intro kz
    rw [← core_mul_left]
    congr 1
    funext ky
    ring
  have rhs : (fun kz => ((gy.M : C))⁻¹ * core (!gx.emu) gy.Mo gy.M gy.N (gy.kerB T)
        (fun ky => ((gx.M : C))⁻¹ * core (!gx.emu) gx.Mo gx.M gx.N (gx.kerB T)
          (fun k => F kz ky k * (gx.outMult T E k)⁻¹) jx * (gx.inMult T E jx)⁻¹
          * (gy.outMult T E ky)⁻¹) jy * (gy.inMult T E jy)⁻¹ * (gz.outMult T E kz)⁻¹)
      = fun kz => (((gy.M : C))⁻¹ * ((gx.M : C))⁻¹ * (gx.inMult T E jx)⁻¹ * (gy.inMult T E jy)⁻¹) *
        ((gz.outMult T E kz)⁻¹ * core (!gx.emu) gy.Mo gy.M gy.N (gy.kerB T)
        (fun ky => (gy.outMult T E ky)⁻¹ * core (!gx.emu) gx.Mo gx.M gx.N (gx.kerB T)
          (fun kx => F kz ky kx * (gx.outMult T E kx)⁻¹) jx) jy) := by
    funext kz
    rw [ry kz]; ring
  rw [rhs, core_mul_left]
  simp only [Nat.cast_mul, mul_inv]
  ring

/-- the iterated three-axis backward pipeline is the 3-D backward defining sum -/
theorem fastBackward3Iter_eq_sum (hT : IsChar T) (hE : IsChar E) (hper : ∀ n : ℤ, T (n : K) = 1)
    (gz gy gx : Cfg K C)
    (hNz : gz.N ≤ gz.M) (hMoz : gz.Mo ≤ gz.M) (hcz : gz.dT * (gz.M : K) * gz.δ = 1)
    (hNy : gy.N ≤ gy.M) (hMoy : gy.Mo ≤ gy.M) (hcy : gy.dT * (gy.M : K) * gy.δ = 1)
    (hNx : gx.N ≤ gx.M) (hMox : gx.Mo ≤ gx.M) (hcx : gx.dT * (gx.M : K) * gx.δ = 1)
    (wz wy wx : C) (hwz : wz * (gz.M : C) * gz.w = 1) (hwy : wy * (gy.M : C) * gy.w = 1)
    (hwx : wx * (gx.M : C) * gx.w = 1)
    (F : ℕ → ℕ → ℕ → C) (jz jy jx : ℕ) (hjz : jz < gz.N) (hjy : jy < gy.N) (hjx : jx < gx.N) :
    fastBackward3Iter T E gz gy gx F jz jy jx
      = ∑ kz ∈ range gz.Mo, ∑ ky ∈ range gy.Mo, ∑ kx ∈ range gx.Mo,
          F kz ky kx * (wz * wy * wx) *
            (T (gx.a kx * gx.x jx + gy.a ky * gy.x jy + gz.a kz * gz.x jz)
              * E (gx.s * gx.x jx + gy.s * gy.x jy + gz.s * gz.x jz)) := by
  unfold fastBackward3Iter
  rw [fastBackward_eq_sumBackward hT hE hper gz hNz hMoz hcz wz hwz _ jz hjz, sumBackward, sumRange_eq]
  apply Finset.sum_congr rfl
  intro kz _
  rw [fastBackward_eq_sumBackward hT hE hper gy hNy hMoy hcy wy hwy _ jy hjy, sumBackward, sumRange_eq,
    Finset.sum_mul, Finset.sum_mul]
  apply Finset.sum_congr rfl
  intro ky _
  rw [fastBackward_eq_sumBackward hT hE hper gx hNx hMox hcx wx hwx _ jx hjx, sumBackward, sumRange_eq,
    Finset.sum_mul, Finset.sum_mul, Finset.sum_mul, Finset.sum_mul]
  apply Finset.sum_congr rfl
  intro kx _
  rw [hT.add, hT.add, hE.add, hE.add]; ring

/-- **The literal 3-D `FastFourierTransform.backward` evaluates the 3-D backward defining sum**
with output weights `wz·wy·wx`, `w_i·M_i·g_i.w = 1` (i.e. `w_i = Δ_i/(2π)`). -/
theorem fastBackward3_eq_sum (hT : IsChar T) (hE : IsChar E) (hper : ∀ n : ℤ, T (n : K) = 1)
    (gz gy gx : Cfg K C) (hey : gy.emu = gx.emu) (hez : gz.emu = gx.emu)
    (hNz : gz.N ≤ gz.M) (hMoz : gz.Mo ≤ gz.M) (hcz : gz.dT * (gz.M : K) * gz.δ = 1)
    (hNy : gy.N ≤ gy.M) (hMoy : gy.Mo ≤ gy.M) (hcy : gy.dT * (gy.M : K) * gy.δ = 1)
    (hNx : gx.N ≤ gx.M) (hMox : gx.Mo ≤ gx.M) (hcx : gx.dT * (gx.M : K) * gx.δ = 1)
    (wz wy wx : C) (hwz : wz * (gz.M : C) * gz.w = 1) (hwy : wy * (gy.M : C) * gy.w = 1)
    (hwx : wx * (gx.M : C) * gx.w = 1)
    (F : ℕ → ℕ → ℕ → C) (jz jy jx : ℕ) (hjz : jz < gz.N) (hjy : jy < gy.N) (hjx : jx < gx.N) :
    fastBackward3 T E gz gy gx F jz jy jx
      = ∑ kz ∈ range gz.Mo, ∑ ky ∈ range gy.Mo, ∑ kx ∈ range gx.Mo,
          F kz ky kx * (wz * wy * wx) *
            (T (gx.a kx * gx.x jx + gy.a ky * gy.x jy + gz.a kz * gz.x jz)
              * E (gx.s * gx.x jx + gy.s * gy.x jy + gz.s * gz.x jz)) := by
  rw [fastBackward3_eq_iter hT hE gz gy gx hey hez,
    fastBackward3Iter_eq_sum hT hE hper gz gy gx hNz hMoz hcz hNy hMoy hcy hNx hMox hcx
      wz wy wx hwz hwy hwx F jz jy jx hjz hjy hjx]

/-- the same, against the executable `sumBackward3` of the model file -/
theorem fastBackward3_eq_sumBackward3 (hT : IsChar T) (hE : IsChar E) (hper : ∀ n : ℤ, T (n : K) = 1)
    (gz gy gx : Cfg K C) (hey : gy.emu = gx.emu) (hez : gz.emu = gx.emu)
    (hNz : gz.N ≤ gz.M) (hMoz : gz.Mo ≤ gz.M) (hcz : gz.dT * (gz.M : K) * gz.δ = 1)
    (hNy : gy.N ≤ gy.M) (hMoy : gy.Mo ≤ gy.M) (hcy : gy.dT * (gy.M : K) * gy.δ = 1)
    (hNx : gx.N ≤ gx.M) (hMox : gx.Mo ≤ gx.M) (hcx : gx.dT * (gx.M : K) * gx.δ = 1)
    (wz wy wx : C) (hwz : wz * (gz.M : C) * gz.w = 1) (hwy : wy * (gy.M : C) * gy.w = 1)
    (hwx : wx * (gx.M : C) * gx.w = 1)
    (F : ℕ → ℕ → ℕ → C) (jz jy jx : ℕ) (hjz : jz < gz.N) (hjy : jy < gy.N) (hjx : jx < gx.N) :
    fastBackward3 T E gz gy gx F jz jy jx = sumBackward3 T E gz gy gx wz wy wx F jz jy jx := by
  rw [fastBackward3_eq_sum hT hE hper gz gy gx hey hez hNz hMoz hcz hNy hMoy hcy hNx hMox hcx
    wz wy wx hwz hwy hwx F jz jy jx hjz hjy hjx]
  simp only [sumBackward3, sumRange_eq]

/-- consistency: the axis list `[gy, gx]` gives `fastBackward2Iter gy gx` -/
theorem fastBackwardN_two (gy gx : Cfg K C) (F : List ℕ → C) (jy jx : ℕ) :
    fastBackwardN T E [gy, gx] F [jy, jx]
      = fastBackward2Iter T E gy gx (fun ky kx => F [ky, kx]) jy jx := rfl

/-- consistency: the axis list `[gz, gy, gx]` gives `fastBackward3Iter gz gy gx` -/
theorem fastBackwardN_three (gz gy gx : Cfg K C) (F : List ℕ → C) (jz jy jx : ℕ) :
    fastBackwardN T E [gz, gy, gx] F [jz, jy, jx]
      = fastBackward3Iter T E gz gy gx (fun kz ky kx => F [kz, ky, kx]) jz jy jx := rfl

/-- the link between the two halves of this file: the **literal** 3-D `forward` is the `n`-D
defining sum for the axis list `[gz, gy, gx]` -/
theorem fastForward3_eq_sumForwardN (hT : IsChar T) (hE : IsChar E) (hper : ∀ n : ℤ, T (n : K) = 1)
    (gz gy gx : Cfg K C) (hey : gy.emu = gx.emu) (hez : gz.emu = gx.emu)
    (hgs : ∀ g ∈ [gz, gy, gx], g.N ≤ g.M ∧ g.Mo ≤ g.M ∧ g.dT * (g.M : K) * g.δ = 1)
    (f : List ℕ → C) (kz ky kx : ℕ) (hkz : kz < gz.Mo) (hky : ky < gy.Mo) (hkx : kx < gx.Mo) :
    fastForward3 T E gz gy gx (fun iz iy ix => f [iz, iy, ix]) kz ky kx
      = sumForwardN T E [gz, gy, gx] f [kz, ky, kx] := by
  rw [fastForward3_eq_iter hT hE gz gy gx hey hez, ← fastForwardN_three]
  exact fastForwardN_eq_sumForwardN hT hE hper _ hgs f _
    (List.Forall₂.cons hkz (List.Forall₂.cons hky (List.Forall₂.cons hkx List.Forall₂.nil)))

/-- the **literal** 2-D `forward` is the `n`-D defining sum for the axis list `[gy, gx]` -/
theorem fastForward2_eq_sumForwardN (hT : IsChar T) (hE : IsChar E) (hper : ∀ n : ℤ, T (n : K) = 1)
    (gy gx : Cfg K C) (hemu : gy.emu = gx.emu)
    (hgs : ∀ g ∈ [gy, gx], g.N ≤ g.M ∧ g.Mo ≤ g.M ∧ g.dT * (g.M : K) * g.δ = 1)
    (f : List ℕ → C) (ky kx : ℕ) (hky : ky < gy.Mo) (hkx : kx < gx.Mo) :
    fastForward2 T E gy gx (fun iy ix => f [iy, ix]) ky kx
      = sumForwardN T E [gy, gx] f [ky, kx] := by
  rw [fastForward2_eq_iter hT hE gy gx hemu, ← fastForwardN_two]
  exact fastForwardN_eq_sumForwardN hT hE hper _ hgs f _
    (List.Forall₂.cons hky (List.Forall₂.cons hkx List.Forall₂.nil))

/-- the **literal** 3-D `backward` is the `n`-D backward defining sum for `[gz, gy, gx]` -/
theorem fastBackward3_eq_sumBackwardN (hT : IsChar T) (hE : IsChar E) (hper : ∀ n : ℤ, T (n : K) = 1)
    (wOut : Cfg K C → C) (gz gy gx : Cfg K C) (hey : gy.emu = gx.emu) (hez : gz.emu = gx.emu)
    (hgs : ∀ g ∈ [gz, gy, gx], g.N ≤ g.M ∧ g.Mo ≤ g.M ∧ g.dT * (g.M : K) * g.δ = 1 ∧
      wOut g * (g.M : C) * g.w = 1)
    (F : List ℕ → C) (jz jy jx : ℕ) (hjz : jz < gz.N) (hjy : jy < gy.N) (hjx : jx < gx.N) :
    fastBackward3 T E gz gy gx (fun kz ky kx => F [kz, ky, kx]) jz jy jx
      = sumBackwardN T E wOut [gz, gy, gx] F [jz, jy, jx] := by
  rw [fastBackward3_eq_iter hT hE gz gy gx hey hez, ← fastBackwardN_three]
  exact fastBackwardN_eq_sumBackwardN hT hE hper wOut _ hgs F _
    (List.Forall₂.cons hjz (List.Forall₂.cons hjy (List.Forall₂.cons hjx List.Forall₂.nil)))

/-- the **literal** 2-D `backward` is the `n`-D backward defining sum for `[gy, gx]` -/
theorem fastBackward2_eq_sumBackwardN (hT : IsChar T) (hE : IsChar E) (hper : ∀ n : ℤ, T (n : K) = 1)
    (wOut : Cfg K C → C) (gy gx : Cfg K C) (hemu : gy.emu = gx.emu)
    (hgs : ∀ g ∈ [gy, gx], g.N ≤ g.M ∧ g.Mo ≤ g.M ∧ g.dT * (g.M : K) * g.δ = 1 ∧
      wOut g * (g.M : C) * g.w = 1)
    (F : List ℕ → C) (jy jx : ℕ) (hjy : jy < gy.N) (hjx : jx < gx.N) :
    fastBackward2 T E gy gx (fun ky kx => F [ky, kx]) jy jx
      = sumBackwardN T E wOut [gy, gx] F [jy, jx] := by
  rw [fastBackward2_eq_iter hT hE gy gx hemu, ← fastBackwardN_two]
  exact fastBackwardN_eq_sumBackwardN hT hE hper wOut _ hgs F _
    (List.Forall₂.cons hjy (List.Forall₂.cons hjx List.Forall₂.nil))

end backward
end HcipyVerif.Fft
